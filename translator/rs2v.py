#!/usr/bin/env python3
"""rs2v: translate the integer core of sagudev/ipc-channel's unix back end into Gallina.

Works on the Rust *token stream* (layout, comments and local names are irrelevant).
For every item it knows about it emits
    Definition <name> ... : Z      (wrapping usize arithmetic, as a release build computes)
    Definition <name>_safe ... : bool (no intermediate result leaves [0, 2^64): what a debug build asserts)
Items it cannot translate are reported on stderr and in the JSON summary (key "fallback");
the caller then uses the pinned definition and relies on the behavioural tie for that item.
"""
import json
import re
import sys

TOK = re.compile(r"""
    (?P<ws>\s+|//[^\n]*|/\*.*?\*/)
  | (?P<num>0x[0-9a-fA-F_]+(?:[ui](?:8|16|32|64|128|size))?|[0-9][0-9_]*(?:[ui](?:8|16|32|64|128|size))?)
  | (?P<id>[A-Za-z_][A-Za-z0-9_]*)
  | (?P<str>"(?:\\.|[^"\\])*")
  | (?P<chr>'(?:\\.|[^'\\])')
  | (?P<life>'[A-Za-z_][A-Za-z0-9_]*)
  | (?P<op><<=|>>=|\.\.=|::|->|=>|==|!=|<=|>=|&&|\|\||\+=|-=|\*=|/=|%=|&=|\|=|\^=|<<|>>|\.\.|[-+*/%&|^!=<>.,;:#\[\]{}()?@$~])
""", re.S | re.X)


def tokenize(src):
    out, pos = [], 0
    while pos < len(src):
        m = TOK.match(src, pos)
        if not m:
            raise SyntaxError("cannot tokenize at %d: %r" % (pos, src[pos:pos + 20]))
        pos = m.end()
        if m.lastgroup == "ws":
            continue
        out.append((m.lastgroup, m.group()))
    return out


class Untranslatable(Exception):
    pass


SIZEOF = {"usize": 8, "isize": 8, "size_t": 8, "u64": 8, "i64": 8, "u32": 4, "i32": 4, "c_int": 4,
          "u16": 2, "i16": 2, "u8": 1, "i8": 1, "c_short": 2, "socklen_t": 4, "off_t": 8, "c_uint": 4}
INT_TYPES = set(SIZEOF) | {"u128", "i128", "MsgControlLen", "IovLen", "_"}


class Parser:
    """Pratt parser for the integer expression subset; produces a small AST."""

    def __init__(self, toks, env):
        self.t, self.i, self.env = toks, 0, env

    def peek(self, k=0):
        return self.t[self.i + k][1] if self.i + k < len(self.t) else None

    def kind(self, k=0):
        return self.t[self.i + k][0] if self.i + k < len(self.t) else None

    def eat(self, v=None):
        if self.i >= len(self.t):
            raise Untranslatable("unexpected end")
        tok = self.t[self.i]
        if v is not None and tok[1] != v:
            raise Untranslatable("expected %r, got %r" % (v, tok[1]))
        self.i += 1
        return tok[1]

    PREC = {"||": 1, "&&": 2, "==": 3, "!=": 3, "<": 3, ">": 3, "<=": 3, ">=": 3, "|": 4, "^": 5, "&": 6,
            "<<": 7, ">>": 7, "+": 8, "-": 8, "*": 9, "/": 9, "%": 9}

    def expr(self, minp=0, nostruct=False):
        lhs = self.unary(nostruct)
        while True:
            op = self.peek()
            if op == "as":
                self.eat()
                self.ty()
                continue
            if op in self.PREC and self.PREC[op] > minp:
                # `<` directly after a path would be generics; we never get here for those
                self.eat()
                rhs = self.expr(self.PREC[op], nostruct)
                lhs = ("bin", op, lhs, rhs)
                continue
            return lhs

    def ty(self):
        # consume a type; return its last path segment
        name = None
        while True:
            if self.peek() in ("*", "&"):
                self.eat()
                if self.peek() in ("mut", "const"):
                    self.eat()
                continue
            break
        while True:
            name = self.eat()
            if self.peek() == "::":
                self.eat()
                continue
            break
        if self.peek() == "<":
            depth = 0
            while True:
                v = self.eat()
                if v == "<":
                    depth += 1
                elif v == ">":
                    depth -= 1
                    if depth == 0:
                        break
                elif v == ">>":
                    depth -= 2
                    if depth <= 0:
                        break
        return name

    def unary(self, nostruct):
        op = self.peek()
        if op == "!":
            self.eat()
            return ("not", self.unary(nostruct))
        if op == "-":
            self.eat()
            return ("neg", self.unary(nostruct))
        if op == "*":
            self.eat()
            return self.unary(nostruct)  # deref of an integer reference / lazy_static
        if op == "&":
            self.eat()
            if self.peek() == "mut":
                self.eat()
            return self.unary(nostruct)
        return self.postfix(self.atom(nostruct))

    def postfix(self, e):
        while True:
            if self.peek() == "." and self.kind(1) == "id":
                name = self.t[self.i + 1][1]
                if self.peek(2) == "(":
                    self.i += 3
                    args = self.args()
                    e = ("method", name, e, args)
                    continue
                self.i += 2
                e = ("field", name, e)
                continue
            if self.peek() == "?":
                self.eat()
                continue
            return e

    def args(self):
        out = []
        while self.peek() != ")":
            out.append(self.expr())
            if self.peek() == ",":
                self.eat()
        self.eat(")")
        return out

    def atom(self, nostruct):
        k, v = self.kind(), self.peek()
        if k == "num":
            self.eat()
            body = re.sub(r"(?<=[0-9a-fA-F_])[ui](8|16|32|64|128|size)$", "", v) if not v.startswith("0x") else re.sub(r"[ui](8|16|32|64|128|size)$", "", v)
            return ("lit", int(body.replace("_", ""), 0))
        if v == "(":
            self.eat()
            if self.peek() == ")":
                self.eat()
                return ("unit",)
            e = self.expr()
            self.eat(")")
            return e
        if v == "if":
            self.eat()
            c = self.expr(nostruct=True)
            a = self.block()
            if self.peek() == "else":
                self.eat()
                b = self.block() if self.peek() == "{" else ("blk", [], self.expr())
            else:
                b = None
            return ("if", c, a, b)
        if v == "{":
            return self.block()
        if k == "id":
            path = [self.eat()]
            generic = None
            while self.peek() == "::":
                self.eat()
                if self.peek() == "<":
                    self.eat("<")
                    generic = self.ty()
                    if self.peek() == ">":
                        self.eat(">")
                else:
                    path.append(self.eat())
            if self.peek() == "(":
                self.eat()
                args = self.args()
                return ("call", path, generic, args)
            return ("path", path)
        raise Untranslatable("unexpected token %r" % (v,))

    def block(self):
        self.eat("{")
        stmts, tail = [], None
        while self.peek() != "}":
            if self.peek() == "let":
                self.eat()
                if self.peek() == "mut":
                    self.eat()
                name = self.eat()
                if self.peek() == ":":
                    self.eat()
                    self.ty()
                self.eat("=")
                e = self.expr()
                self.eat(";")
                stmts.append(("let", name, e))
                continue
            if self.peek() in ("//",):
                continue
            e = self.expr()
            if self.peek() in ("=", "+=", "-=", "*=", "/=", "%=", "&=", "|="):
                op = self.eat()
                rhs = self.expr()
                self.eat(";")
                if e[0] != "path" or len(e[1]) != 1:
                    raise Untranslatable("assignment to non-variable")
                if op != "=":
                    rhs = ("bin", op[:-1], e, rhs)
                stmts.append(("let", e[1][0], rhs))
                continue
            if self.peek() == ";":
                self.eat()
                stmts.append(("expr", e))
                continue
            if self.peek() == "}":
                tail = e
                break
            if e[0] == "if":  # statement-if without semicolon
                stmts.append(("expr", e))
                continue
            raise Untranslatable("unexpected %r in block" % (self.peek(),))
        self.eat("}")
        return ("blk", stmts, tail)


M64 = "U.modulus"


class Emit:
    """AST -> (Gallina term : Z or bool, list of safety conditions)."""

    def __init__(self, consts, funcs, cfg):
        self.consts, self.funcs, self.cfg = consts, funcs, cfg

    def val(self, e, env):
        k = e[0]
        if k == "lit":
            return str(e[1]), []
        if k == "neg":
            raise Untranslatable("negation")
        if k == "not":
            a, s = self.val(e[1], env)
            return "(U.lnot %s)" % a, s
        if k == "path":
            p = e[1]
            name = p[-1]
            if len(p) == 1 and name in env:
                return env[name], []
            if name in self.consts:
                return name, []
            if p[-2:] == ["usize", "MAX"] or p[-2:] == ["u64", "MAX"]:
                return "U.max", []
            if name == "SYSTEM_SENDBUF_SIZE":
                return env.get("__S", "S"), []
            raise Untranslatable("unknown name %s" % "::".join(p))
        if k == "call":
            p, gen, args = e[1], e[2], e[3]
            name = p[-1]
            if name == "size_of":
                if gen in SIZEOF:
                    return str(SIZEOF[gen]), []
                if gen in self.cfg.get("structs", {}):
                    return str(self.cfg["structs"][gen]), []
                raise Untranslatable("size_of::<%s>" % gen)
            if name in ("min", "max") and len(args) == 2:
                a, s1 = self.val(args[0], env)
                b, s2 = self.val(args[1], env)
                return "(Z.%s %s %s)" % (name, a, b), s1 + s2
            if name == "get_max_fragment_size" and not args:
                return "(first_fragment_size %s)" % env.get("__S", "S"), ["first_fragment_size_safe %s" % env.get("__S", "S")]
            if name in self.funcs:
                vs, ss = [], []
                for a in args:
                    v, s = self.val(a, env)
                    vs.append(v)
                    ss += s
                return "(%s %s)" % (name, " ".join(vs)), ss + ["%s_safe %s" % (name, " ".join(vs))]
            raise Untranslatable("call to %s" % "::".join(p))
        if k == "method":
            name, recv, args = e[1], e[2], e[3]
            if name == "len" and not args:
                key = "len:" + flat(recv)
                if key in env:
                    return env[key], []
                raise Untranslatable("len of %s" % flat(recv))
            key = "m:%s.%s" % (flat(recv), name)
            if key in env and not args:
                return env[key], []
            raise Untranslatable("method %s" % name)
        if k == "bin":
            op, a, b = e[1], e[2], e[3]
            if op in ("==", "!=", "<", ">", "<=", ">=", "&&", "||"):
                raise Untranslatable("boolean where integer expected")
            x, s1 = self.val(a, env)
            y, s2 = self.val(b, env)
            fn = {"+": "add", "-": "sub", "*": "mul", "/": "div", "%": "rem", "&": "land", "|": "lor", "^": "lxor",
                  "<<": "shl", ">>": "shr"}[op]
            safe = []
            if fn in ("add", "sub", "mul", "div", "rem", "shl"):
                safe = ["U.%s_ok %s %s" % (fn, x, y)]
            return "(U.%s %s %s)" % (fn, x, y), s1 + s2 + safe
        if k == "if":
            c, cs = self.cond(e[1], env)
            a, s1 = self.val(e[2], env)
            if e[3] is None:
                raise Untranslatable("if without else as value")
            b, s2 = self.val(e[3], env)
            safe = cs + (["(if %s then %s else %s)" % (c, conj(s1), conj(s2))] if s1 or s2 else [])
            return "(if %s then %s else %s)" % (c, a, b), safe
        if k == "blk":
            env = dict(env)
            pre, safe = [], []
            for st in e[1]:
                if st[0] != "let":
                    raise Untranslatable("statement in value block")
                v, s = self.val(st[2], env)
                fresh = st[1]
                pre.append("let %s := %s in " % (fresh, v))
                safe += [("".join(pre[:-1]) + c) for c in s]
                env[fresh] = fresh
            if e[2] is None:
                raise Untranslatable("block without value")
            v, s = self.val(e[2], env)
            return "(%s%s)" % ("".join(pre), v), safe + [("".join(pre) + c) for c in s]
        if k == "field":
            raise Untranslatable("field access")
        raise Untranslatable("node %s" % k)

    def cond(self, e, env):
        if e[0] == "bin" and e[1] in ("==", "!=", "<", ">", "<=", ">="):
            x, s1 = self.val(e[2], env)
            y, s2 = self.val(e[3], env)
            op = {"==": "=?", "<": "<?", ">": ">?", "<=": "<=?", ">=": ">=?"}.get(e[1])
            if e[1] == "!=":
                return "(negb (%s =? %s))" % (x, y), s1 + s2
            return "(%s %s %s)" % (x, op, y), s1 + s2
        if e[0] == "bin" and e[1] in ("&&", "||"):
            x, s1 = self.cond(e[2], env)
            y, s2 = self.cond(e[3], env)
            return "(%s %s %s)" % (x, e[1], y), s1 + s2
        if e[0] == "not":
            x, s = self.cond(e[1], env)
            return "(negb %s)" % x, s
        raise Untranslatable("condition")


def flat(e):
    if e[0] == "path":
        return "::".join(e[1])
    if e[0] == "field":
        return flat(e[2]) + "." + e[1]
    if e[0] == "method":
        return flat(e[2]) + "." + e[1] + "()"
    return "?"


def conj(cs):
    cs = [("(%s)" % c if c.startswith("let ") else c) for c in cs if c]
    if not cs:
        return "true"
    return "(" + " && ".join(cs) + ")"


def find_fn(toks, name, containing=None):
    """`fn name` (the first one whose body contains the identifier `containing`, if given);
    returns (params tokens, body tokens)."""
    for i in range(len(toks) - 1):
        if toks[i][1] == "fn" and toks[i + 1][1] == name:
            j = i + 2
            assert toks[j][1] == "(", name
            depth, k = 0, j
            while True:
                if toks[k][1] == "(":
                    depth += 1
                elif toks[k][1] == ")":
                    depth -= 1
                    if depth == 0:
                        break
                k += 1
            params = toks[j + 1:k]
            while toks[k][1] != "{":
                k += 1
            depth, b = 0, k
            while True:
                if toks[k][1] == "{":
                    depth += 1
                elif toks[k][1] == "}":
                    depth -= 1
                    if depth == 0:
                        break
                k += 1
            if containing is not None and not any(
                    toks[x][1] == containing and toks[x + 1][1] == "=" for x in range(b, k)):
                continue
            return params, toks[b:k + 1]
    raise Untranslatable("fn %s not found" % name)


def param_names(params):
    names, mutref, depth, cur = [], set(), 0, []
    groups = []
    for t in params:
        if t[1] in "(<[":
            depth += 1
        elif t[1] in ")>]":
            depth -= 1
        if t[1] == "," and depth == 0:
            groups.append(cur)
            cur = []
        else:
            cur.append(t)
    if cur:
        groups.append(cur)
    for g in groups:
        vals = [x[1] for x in g]
        if "self" in vals[:3]:
            continue
        nm = vals[1] if vals[0] == "mut" else vals[0]
        names.append(nm)
        if "&" in vals and "mut" in vals[vals.index("&"):]:
            mutref.add(nm)
    return names, mutref


def find_const(toks, name):
    for i in range(len(toks) - 2):
        if toks[i][1] == "const" and toks[i + 1][1] == name and toks[i + 2][1] == ":":
            j = i + 3
            while toks[j][1] != "=":
                j += 1
            k = j + 1
            while toks[k][1] != ";":
                k += 1
            return toks[j + 1:k]
    raise Untranslatable("const %s not found" % name)


def struct_size(toks, name, cfg_gnu=True):
    """repr(C) size of a struct made of integer fields (first definition whose cfg is not `not(target_env = "gnu")`)."""
    i = 0
    while i < len(toks) - 1:
        if toks[i][1] == "struct" and toks[i + 1][1] == name:
            # look back for #[cfg(not(target_env = "gnu"))]
            back = " ".join(t[1] for t in toks[max(0, i - 30):i])
            if 'cfg ( not ( target_env = "gnu" ) )' in back:
                i += 1
                continue
            j = i + 2
            assert toks[j][1] == "{"
            j += 1
            off, maxal = 0, 1
            while toks[j][1] != "}":
                if toks[j][1] == "#":
                    # skip attribute
                    depth = 0
                    j += 1
                    while True:
                        if toks[j][1] == "[":
                            depth += 1
                        elif toks[j][1] == "]":
                            depth -= 1
                            if depth == 0:
                                break
                        j += 1
                    j += 1
                    continue
                if toks[j][1] == "pub":
                    j += 1
                fname = toks[j][1]
                assert toks[j + 1][1] == ":"
                ty = toks[j + 2][1]
                ty = {"MsgControlLen": "size_t", "IovLen": "usize"}.get(ty, ty)
                if ty not in SIZEOF:
                    raise Untranslatable("field type %s" % ty)
                sz = SIZEOF[ty]
                off = (off + sz - 1) // sz * sz + sz
                maxal = max(maxal, sz)
                j += 3
                if toks[j][1] == ",":
                    j += 1
            return (off + maxal - 1) // maxal * maxal
        i += 1
    raise Untranslatable("struct %s not found" % name)


def statements_in_fn(body, names):
    """find `let name = expr;` / `name = expr;` statements (at any depth) inside a body token list."""
    found = {}
    for i in range(len(body) - 2):
        if body[i][0] == "id" and body[i][1] in names and body[i + 1][1] == "=" and body[i - 1][1] not in (".", "::"):
            k = i + 2
            depth = 0
            while not (body[k][1] == ";" and depth == 0):
                if body[k][1] in "({[":
                    depth += 1
                elif body[k][1] in ")}]":
                    depth -= 1
                k += 1
            found.setdefault(body[i][1], []).append(body[i + 2:k])
    return found


def translate(unix_src, ipc_src):
    toks = tokenize(unix_src)
    out, summary = [], {"translated": [], "fallback": {}}
    consts, funcs = {}, {}
    cfg = {"structs": {}}

    def attempt(name, fn):
        try:
            text = fn()
            out.append((name, text))
            summary["translated"].append(name)
        except (Untranslatable, AssertionError, IndexError, KeyError, ValueError) as ex:
            summary["fallback"][name] = str(ex)
            out.append((name, None))

    def emit_const(name):
        def go():
            e = Parser(find_const(toks, name), {}).expr()
            v, _ = Emit(consts, funcs, cfg).val(e, {})
            consts[name] = v
            return "Definition %s : Z := %s." % (name, v)
        attempt(name, go)

    emit_const("MAX_FDS_IN_CMSG")
    emit_const("RESERVED_SIZE")

    def emit_struct(name):
        def go():
            cfg["structs"][name] = struct_size(toks, name)
            return "Definition SIZEOF_%s : Z := %d." % (name, cfg["structs"][name])
        attempt("sizeof_" + name, go)

    emit_struct("cmsghdr")
    out.append(("SIZEOF_c_int", "Definition SIZEOF_c_int : Z := %d." % SIZEOF["c_int"]))
    out.append(("SIZEOF_usize", "Definition SIZEOF_usize : Z := %d." % SIZEOF["usize"]))

    def emit_fn(name, special=None):
        def go():
            params, body = find_fn(toks, name)
            names, mutref = param_names(params)
            p = Parser(body, {})
            blk = p.block()
            em = Emit(consts, funcs, cfg)
            env = {n: n for n in names}
            if special == "result_mut":
                term, safe = emit_result_mut(em, blk, env, list(mutref))
                ret = "option Z"
            else:
                term, safe = em.val(blk, env)
                ret = "Z"
            funcs[name] = names
            ps = " ".join("(%s : Z)" % n for n in names)
            return ("Definition %s %s : %s := %s.\nDefinition %s_safe %s : bool := %s."
                    % (name, ps, ret, term, name, ps, conj(safe)))
        attempt(name, go)

    for f in ("fragment_size", "first_fragment_size", "CMSG_ALIGN", "CMSG_LEN", "CMSG_SPACE"):
        emit_fn(f)
    emit_fn("downsize", special="result_mut")

    # named expressions inside send / recv / UnixCmsg::new / OsIpcReceiverSet::new / OsIpcOneShotServer::new
    def emit_named(defname, fn_name, var, params, env_extra, pick=0, kind="val"):
        def go():
            body = None
            for cand in (fn_name if isinstance(fn_name, (list, tuple)) else [fn_name]):
                try:
                    _, body = find_fn(toks, cand, containing=var)
                    break
                except Untranslatable:
                    continue
            if body is None:
                raise Untranslatable("no fn among %r contains a statement %s" % (fn_name, var))
            found = statements_in_fn(body, {var})
            if var not in found or len(found[var]) <= pick:
                raise Untranslatable("statement %s in %s not found" % (var, fn_name))
            e = Parser(found[var][pick], {}).expr()
            em = Emit(consts, funcs, cfg)
            env = {p: p for p in params}
            env.update(env_extra)
            v, safe = em.val(e, env)
            ps = " ".join("(%s : Z)" % n for n in params)
            return ("Definition %s %s : Z := %s.\nDefinition %s_safe %s : bool := %s."
                    % (defname, ps, v, defname, ps, conj(safe)))
        attempt(defname, go)

    emit_named("send_first_end", "send", "end_byte_position", ["sendbuf_size"], {}, pick=0)
    emit_named("send_follow_end", "send", "end_byte_position", ["byte_position", "sendbuf_size", "data_len"],
               {"len:data": "data_len"}, pick=1)
    emit_named("recv_follow_end", ["recv_message", "recv"], "end_pos", ["write_pos", "S", "total_size"], {"__S": "S"})
    emit_named("recv_ctl_cap", "new", "cmsg_length", [], {})
    emit_named("recv_channel_length", ["recv_message", "recv"], "channel_length", ["cmsg_length", "cmsg_len"],
               {"m:cmsg.cmsg_len": "cmsg_len"})

    def emit_cond(defname, fn_name, after_kw, params, env_extra):
        # the condition of `if <cond> {` that follows the comment-free token `after_kw` sequence
        def go():
            _, body = find_fn(toks, fn_name)
            vals = [t[1] for t in body]
            for i in range(len(vals) - len(after_kw)):
                if vals[i] == "if" and vals[i + 1:i + 1 + len(after_kw)] == after_kw:
                    p = Parser(body[i + 1:], {})
                    c = p.expr(nostruct=True)
                    em = Emit(consts, funcs, cfg)
                    env = {q: q for q in params}
                    env.update(env_extra)
                    v, safe = em.cond(c, env)
                    ps = " ".join("(%s : Z)" % n for n in params)
                    return "Definition %s %s : bool := %s." % (defname, ps, v)
            raise Untranslatable("condition not found")
        attempt(defname, go)

    emit_cond("send_single_packet", "send", ["data", ".", "len", "(", ")", "<="], ["data_len", "S"],
              {"len:data": "data_len", "__S": "S"})
    # the two attachment-capacity guards of send(): plain, and with the dedicated fragment channel added
    emit_cond("send_too_many", "send", ["fds", ".", "len", "(", ")", ">"], ["nfds"], {"len:fds": "nfds"})
    emit_cond("send_too_many_frag", "send", ["fds", ".", "len", "(", ")", "+"], ["nfds"], {"len:fds": "nfds"})

    def first_int_arg(fn_tokens, callee):
        vals = [t[1] for t in fn_tokens]
        for i in range(len(vals) - 2):
            if vals[i] == callee and vals[i + 1] == "(":
                depth, k = 0, i + 1
                while True:
                    if vals[k] == "(":
                        depth += 1
                    elif vals[k] == ")":
                        depth -= 1
                        if depth == 0:
                            break
                    k += 1
                nums = [t for t in fn_tokens[i + 2:k] if t[0] == "num"]
                if nums:
                    return int(re.sub(r"[ui](8|16|32|64|size)$", "", nums[-1][1]).replace("_", ""), 0)
        raise Untranslatable("%s(..) with literal not found" % callee)

    def events_capacity():
        # Events::with_capacity(N) - the capacity of the batch the poller hands back, not any other with_capacity in the file
        vals = [t[1] for t in toks]
        for i in range(len(vals) - 3):
            if vals[i:i + 3] == ["Events", "::", "with_capacity"]:
                return "Definition EVENTS_CAPACITY : Z := %d." % first_int_arg(toks[i + 2:], "with_capacity")
        raise Untranslatable("Events::with_capacity(..) not found")
    attempt("EVENTS_CAPACITY", events_capacity)
    attempt("LISTEN_BACKLOG", lambda: "Definition LISTEN_BACKLOG : Z := %d." % first_int_arg(toks, "listen"))

    # ipc.rs: the empty-region sentinel written by Serialize and tested by Deserialize
    def sentinel():
        it = tokenize(ipc_src)
        vals = [t[1] for t in it]

        def resolve(ts, depth=0):
            """usize::MAX, an integer literal, or a constant of the file that is (transitively) one of those"""
            if depth > 4:
                raise Untranslatable("sentinel: constant chain too long")
            if ts[:3] in (["usize", "::", "MAX"], ["u64", "::", "MAX"]) and len(ts) == 3:
                return "U.max"
            if len(ts) == 1 and re.fullmatch(r"[0-9][0-9_]*(usize|u64)?", ts[0]):
                return str(int(re.sub(r"(usize|u64)$", "", ts[0]).replace("_", "")))
            if len(ts) == 1 and re.fullmatch(r"[A-Z_][A-Z0-9_]*", ts[0]):
                for i in range(len(vals) - 5):
                    if vals[i] == "const" and vals[i + 1] == ts[0] and vals[i + 2] == ":":
                        j = vals.index("=", i)
                        k = vals.index(";", j)
                        return resolve(vals[j + 1:k], depth + 1)
            raise Untranslatable("sentinel: %r" % ts[:6])
        ser = deser = None
        for i in range(len(vals) - 4):
            if vals[i:i + 2] == ["index", "=="]:
                j = i + 2
                while vals[j] != "{":
                    j += 1
                deser = vals[i + 2:j]
            if vals[i] == "else" and vals[i + 1] == "{" and vals[i + 3] in ("::", "}") and (vals[i + 2] in ("usize", "u64") or re.fullmatch(r"[A-Z_][A-Z0-9_]*", vals[i + 2])):
                j = i + 2
                while vals[j] != "}":
                    j += 1
                if j - (i + 2) in (1, 3) and ".serialize" in "".join(vals[j:j + 4]).replace(" ", "") or vals[j + 1:j + 3] == [".", "serialize"]:
                    ser = vals[i + 2:j]
        if ser is None or deser is None:
            raise Untranslatable("sentinel: ser=%r deser=%r" % (ser, deser))
        v1, v2 = resolve(ser), resolve(deser)
        if v1 != v2:
            raise Untranslatable("sentinel: written as %s, tested as %s" % (v1, v2))
        return "Definition EMPTY_REGION_SENTINEL : Z := %s." % v1
    attempt("EMPTY_REGION_SENTINEL", sentinel)

    # the conversions of the back end's error into what the receive calls report (impl From<UnixError> for ipc::TryRecvError / ipc::IpcError):
    # classes 0 = 'empty', 1 = 'disconnected', 2 = I/O error; one function of the errno and one constant for ChannelClosed each
    ERRNO = {"EAGAIN": 11, "EWOULDBLOCK": 11, "EINTR": 4, "ENOBUFS": 105, "ECONNRESET": 104, "EPIPE": 32, "EBADF": 9, "ETIMEDOUT": 110,
             "EINVAL": 22, "ENOMEM": 12, "ENOTCONN": 107, "EMSGSIZE": 90}

    def errmap(defname, target):
        def go():
            vals = [t[1] for t in toks]
            hdr = ["From", "<", "UnixError", ">", "for", "ipc", "::", target]
            at = next((i for i in range(len(vals) - len(hdr)) if vals[i:i + len(hdr)] == hdr), None)
            if at is None:
                raise Untranslatable("impl From<UnixError> for ipc::%s not found" % target)
            m = vals.index("match", at)
            o = vals.index("{", m)
            depth, k = 0, o
            while True:
                if vals[k] in "{([":
                    depth += 1
                elif vals[k] in "})]":
                    depth -= 1
                    if depth == 0:
                        break
                k += 1
            body = toks[o + 1:k]
            bv = [t[1] for t in body]
            arms, i = [], 0
            while i < len(bv):
                j, d = i, 0
                while not (bv[j] == "=>" and d == 0):
                    d += bv[j] in "{([" and 1 or 0
                    d -= bv[j] in "})]" and 1 or 0
                    j += 1
                pat = body[i:j]
                j += 1
                if bv[j] == "{":
                    d, e = 0, j
                    while True:
                        d += bv[e] == "{" and 1 or 0
                        d -= bv[e] == "}" and 1 or 0
                        if d == 0:
                            break
                        e += 1
                    arm_body, nxt = bv[j:e + 1], e + 1
                else:
                    d, e = 0, j
                    while e < len(bv) and not (bv[e] == "," and d == 0):
                        d += bv[e] in "{([" and 1 or 0
                        d -= bv[e] in "})]" and 1 or 0
                        e += 1
                    arm_body, nxt = bv[j:e], e
                if nxt < len(bv) and bv[nxt] == ",":
                    nxt += 1
                arms.append((pat, arm_body))
                i = nxt

            def cls(b):
                if "Empty" in b:
                    return 0
                if "Disconnected" in b:
                    return 1
                if "Io" in b:
                    return 2
                raise Untranslatable("arm result %r" % b[:8])
            closed, errno_branches, default = None, [], None
            for pat, b in arms:
                pv = [t[1] for t in pat]
                if pv[:3] == ["UnixError", "::", "ChannelClosed"]:
                    if closed is None:
                        closed = cls(b)
                elif pv[:3] == ["UnixError", "::", "Errno"]:
                    var = pv[4]
                    cond = "true"
                    if "if" in pv:
                        ct = pat[pv.index("if") + 1:]
                        c = Parser(ct, {}).expr(nostruct=True)
                        env = {var: "code"}
                        env.update({n: str(v) for n, v in ERRNO.items()})
                        cond, _ = Emit(consts, funcs, cfg).cond(c, env)
                    errno_branches.append((cond, cls(b)))
                    if cond == "true":
                        break
                elif pv[:3] == ["UnixError", "::", "IoError"]:
                    continue
                elif len(pv) == 1:
                    default = cls(b)
                    break
                else:
                    raise Untranslatable("pattern %r" % pv)
            if closed is None:
                closed = default
            if closed is None or (default is None and not any(c == "true" for c, _ in errno_branches)):
                raise Untranslatable("conversion to %s is not total" % target)
            term = str(default) if default is not None else "2"
            for cond, r in reversed(errno_branches):
                term = "%d" % r if cond == "true" else "(if %s then %d else %s)" % (cond, r, term)
            return ("Definition %s_closed : Z := %d.\nDefinition %s_errno (code : Z) : Z := %s." % (defname, closed, defname, term))
        attempt(defname, go)

    # close-on-exec at the places where the back end creates descriptors: the Linux definitions of SOCK_FLAGS (socketpair / socket /
    # accept4) and RECVMSG_FLAGS (descriptors arriving with a message), the duplication of region descriptors, memfd_create
    def cloexec_flags():
        vals = [t[1] for t in toks]

        def linux_const(name, flag):
            hits = []
            for i in range(len(vals) - 3):
                if vals[i] == "const" and vals[i + 1] == name and vals[i + 2] == ":":
                    j = vals.index("=", i)
                    k = vals.index(";", j)
                    # the cfg attribute in front of it
                    a = i
                    while a > 0 and vals[a - 1] != "]":
                        a -= 1
                    b = a - 1
                    depth = 0
                    while b >= 0:
                        if vals[b] == "]":
                            depth += 1
                        elif vals[b] == "[":
                            depth -= 1
                            if depth == 0:
                                break
                        b -= 1
                    attr = vals[b:a] if b >= 0 and b > 0 and vals[b - 1] == "#" else []
                    linux = any("linux" in v for v in attr) and "not" not in attr
                    hits.append((linux or not attr, vals[j + 1:k]))
            lin = [e for ok, e in hits if ok]
            if len(lin) != 1:
                raise Untranslatable("%s: %d Linux definitions" % (name, len(lin)))
            return "true" if flag in lin[0] else "false"
        sock = linux_const("SOCK_FLAGS", "SOCK_CLOEXEC")
        rmsg = linux_const("RECVMSG_FLAGS", "MSG_CMSG_CLOEXEC")
        dups = [i for i in range(len(vals)) if vals[i] in ("F_DUPFD", "F_DUPFD_CLOEXEC") or (vals[i] == "dup" and i + 1 < len(vals) and vals[i + 1] == "(" and vals[i - 1] == "::")]
        dup_ok = bool(dups) and all(vals[i] == "F_DUPFD_CLOEXEC" for i in dups)
        memfd = [i for i in range(len(vals) - 1) if vals[i] == "memfd_create" and vals[i + 1] == "(" and vals[i - 1] != "fn"]
        mem_ok = True
        for i in memfd:
            k = i + 1
            depth = 0
            while True:
                depth += vals[k] == "(" and 1 or 0
                depth -= vals[k] == ")" and 1 or 0
                if depth == 0:
                    break
                k += 1
            mem_ok = mem_ok and "MFD_CLOEXEC" in vals[i:k]
        return ("Definition SOCK_FLAGS_CLOEXEC : bool := %s.\nDefinition RECVMSG_FLAGS_CLOEXEC : bool := %s.\n"
                "Definition DUP_CLOEXEC : bool := %s.\nDefinition MEMFD_CLOEXEC : bool := %s."
                % (sock, rmsg, "true" if dup_ok else "false", "true" if mem_ok else "false"))
    attempt("cloexec_flags", cloexec_flags)
    out.append(("ERRNO", "Definition EAGAIN : Z := 11.\nDefinition EINTR : Z := 4."))
    errmap("try_recv_class", "TryRecvError")
    errmap("recv_class", "IpcError")
    return out, summary


def emit_result_mut(em, blk, env, mutvars):
    """fn(x: &mut usize, ..) -> Result<(), ()>  ==>  option Z (new value of the single &mut parameter)."""
    if len(mutvars) != 1:
        raise Untranslatable("need exactly one &mut parameter")
    mv = mutvars[0]

    def go(b, env):
        # returns (term : option Z, safe list)
        pre, safe = [], []
        env = dict(env)
        for st in b[1]:
            if st[0] == "let":
                v, s = em.val(st[2], env)
                safe += ["".join(pre) + c for c in s]
                pre.append("let %s := %s in " % (st[1], v))
                env[st[1]] = st[1]
            elif st[0] == "expr" and st[1][0] == "if" and st[1][3] is None:
                c, cs = em.cond(st[1][1], env)
                inner = st[1][2]
                # inner block may only assign
                ipre, ienv, isafe = [], dict(env), []
                for ist in inner[1]:
                    if ist[0] != "let" or ist[1] != mv:
                        raise Untranslatable("nested if may only assign the &mut parameter")
                    v, s = em.val(ist[2], ienv)
                    isafe += s
                    ipre.append(v)
                if len(ipre) != 1 or inner[2] is not None:
                    raise Untranslatable("nested if shape")
                safe += ["".join(pre) + c for c in cs]
                if isafe:
                    safe.append("".join(pre) + "(if %s then %s else true)" % (c, conj(isafe)))
                pre.append("let %s := (if %s then %s else %s) in " % (mv, c, ipre[0], env[mv]))
            else:
                raise Untranslatable("statement kind in result fn")
        t = b[2]
        if t is None:
            raise Untranslatable("no tail")
        if t[0] == "if":
            c, cs = em.cond(t[1], env)
            a, s1 = go(t[2], env)
            bb, s2 = go(t[3], env)
            return ("%s(if %s then %s else %s)" % ("".join(pre), c, a, bb),
                    safe + ["".join(pre) + x for x in cs] + ["".join(pre) + "(if %s then %s else %s)" % (c, conj(s1), conj(s2))])
        if t[0] == "call" and t[1][-1] == "Ok":
            return "%sSome %s" % ("".join(pre), env[mv]), safe
        if t[0] == "call" and t[1][-1] == "Err":
            return "%sNone" % "".join(pre), safe
        raise Untranslatable("tail of result fn")
    term, safe = go(blk, env)
    return "(" + term + ")", safe


HEADER = """(* GENERATED by /verif/translator/rs2v.py from /repo/src/platform/unix/mod.rs and /repo/src/ipc.rs.
   Do not edit: rewritten on every check. *)
From Coq Require Import ZArith Bool.
From IPC Require Import U64.
Open Scope Z_scope.
Open Scope bool_scope.
"""


def main():
    unix_rs, ipc_rs, out_v = sys.argv[1], sys.argv[2], sys.argv[3]
    pinned = sys.argv[4] if len(sys.argv) > 4 else None
    out, summary = translate(open(unix_rs).read(), open(ipc_rs).read())
    pin = open(pinned).read() if pinned else ""
    parts = []
    for name, text in out:
        if text is None:
            key = name[7:] if name.startswith("sizeof_") else name
            if key == "cloexec_flags":
                pat = re.compile(r"^Definition (?:SOCK_FLAGS_CLOEXEC|RECVMSG_FLAGS_CLOEXEC|DUP_CLOEXEC|MEMFD_CLOEXEC)\b.*?\.$", re.M | re.S)
            else:
                pat = re.compile(r"^Definition (?:SIZEOF_)?%s(?:_safe|_closed|_errno)?\b.*?\.$" % re.escape(key), re.M | re.S)
            ms = pat.findall(pin)
            text = "(* pinned fallback: %s *)\n" % summary["fallback"][name].replace("*)", "* )") + "\n".join(ms)
        parts.append(text)
    text = HEADER + "\n".join(parts) + "\n"
    try:
        old = open(out_v).read()
    except OSError:
        old = None
    if old != text:
        open(out_v, "w").write(text)
    summary["changed"] = old != text
    print(json.dumps(summary))


if __name__ == "__main__":
    main()
