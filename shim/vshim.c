/* vshim: LD_PRELOAD interposer for the ipc-channel correspondence check.
 *
 * - records every relevant libc call on a *tracked* descriptor (one text line per call) into the
 *   file named by VSHIM_LOG (opened O_APPEND|O_CLOEXEC on a high descriptor; survives fork);
 * - reports a lowered SO_SNDBUF (VSHIM_SNDBUF) so one machine visits many configurations;
 * - fails chosen transmission attempts of the calling thread with ENOBUFS / EINTR / EPIPE / ECONNRESET (vshim_faults);
 * - returns EINTR from epoll_wait/poll on request (vshim_eintr);
 * - kills the process before its k-th following tracked call (vshim_arm_kill);
 * - sleeps after chosen calls to widen race windows (vshim_delay_after_first).
 *
 * Line format:  <pid> <tid> <seq> <call> k=v ...
 */
#define _GNU_SOURCE
#include <dlfcn.h>
#include <errno.h>
#include <fcntl.h>
#include <poll.h>
#include <signal.h>
#include <stdarg.h>
#include <stdio.h>
#include <stdlib.h>
#include <string.h>
#include <sys/epoll.h>
#include <sys/mman.h>
#include <sys/socket.h>
#include <sys/stat.h>
#include <sys/syscall.h>
#include <sys/types.h>
#include <sys/un.h>
#include <time.h>
#include <unistd.h>

#define MAXFD 65536
static unsigned char tracked[MAXFD]; /* 0 none, 1 seqpacket socket, 2 shm, 3 epoll, 4 listener */
static unsigned char was_tracked[MAXFD]; /* kind of a tracked descriptor that has been closed and whose number was not seen again */
static int log_fd = -1;
static long sndbuf_override = 0;
static volatile long seq_ctr = 0;
static volatile long kill_at = -1; /* process-wide: kill before the call whose index == kill_at */
static volatile long call_ctr = 0;
static volatile long eintr_every = 0, eintr_ctr = 0;
static volatile long delay_first_us = 0;

static __thread char fault_pat[64];
static __thread int fault_len = 0, fault_pos = 0;

static int (*r_socketpair)(int, int, int, int[2]);
static int (*r_socket)(int, int, int);
static int (*r_connect)(int, const struct sockaddr *, socklen_t);
static int (*r_bind)(int, const struct sockaddr *, socklen_t);
static int (*r_listen)(int, int);
static int (*r_accept)(int, struct sockaddr *, socklen_t *);
static int (*r_accept4)(int, struct sockaddr *, socklen_t *, int);
static ssize_t (*r_sendmsg)(int, const struct msghdr *, int);
static ssize_t (*r_send)(int, const void *, size_t, int);
static ssize_t (*r_recvmsg)(int, struct msghdr *, int);
static ssize_t (*r_recv)(int, void *, size_t, int);
static int (*r_close)(int);
static int (*r_dup)(int);
static int (*r_fcntl)(int, int, ...);
static int (*r_getsockopt)(int, int, int, void *, socklen_t *);
static int (*r_poll)(struct pollfd *, nfds_t, int);
static int (*r_epoll_wait)(int, struct epoll_event *, int, int);
static int (*r_epoll_ctl)(int, int, int, struct epoll_event *);
static int (*r_epoll_create1)(int);
static int (*r_shm_open)(const char *, int, mode_t);
static int (*r_ftruncate)(int, off_t);
static void *(*r_mmap)(void *, size_t, int, int, int, off_t);
static int (*r_munmap)(void *, size_t);

#define RESOLVE(n) do { if (!r_##n) r_##n = dlsym(RTLD_NEXT, #n); } while (0)

static void init_once(void) {
    static int done = 0;
    if (done) return;
    done = 1;
    RESOLVE(close); RESOLVE(fcntl);
    const char *p = getenv("VSHIM_LOG");
    if (p && *p) {
        int fd = open(p, O_WRONLY | O_CREAT | O_APPEND | O_CLOEXEC, 0644);
        if (fd >= 0) {
            int hi = r_fcntl(fd, F_DUPFD_CLOEXEC, 1000);
            if (hi >= 0) { r_close(fd); log_fd = hi; } else log_fd = fd;
        }
    }
    const char *s = getenv("VSHIM_SNDBUF");
    if (s && *s) sndbuf_override = atol(s);
}
__attribute__((constructor)) static void ctor(void) { init_once(); }

static void logf_(const char *fmt, ...) {
    if (log_fd < 0) return;
    char buf[512];
    long s = __sync_fetch_and_add(&seq_ctr, 1);
    int n = snprintf(buf, sizeof buf, "%d %ld %ld ", (int)getpid(), (long)syscall(SYS_gettid), s);
    va_list ap;
    va_start(ap, fmt);
    n += vsnprintf(buf + n, sizeof buf - n - 1, fmt, ap);
    va_end(ap);
    if (n > (int)sizeof buf - 2) n = sizeof buf - 2;
    buf[n++] = '\n';
    ssize_t w = write(log_fd, buf, n);
    (void)w;
}

static int is_tracked(int fd) { return fd >= 0 && fd < MAXFD && tracked[fd]; }
static void track(int fd, int kind) { if (fd >= 0 && fd < MAXFD) { tracked[fd] = kind; was_tracked[fd] = 0; } }

/* called before every tracked call: kill injection */
static void tick(void) {
    long c = __sync_fetch_and_add(&call_ctr, 1);
    if (kill_at >= 0 && c == kill_at) {
        logf_("killed at=%ld", c);
        raise(SIGKILL);
    }
}

/* ---- control surface (looked up by the harness with dlsym(RTLD_DEFAULT, ..)) ---- */
void vshim_mark(const char *label) { logf_("mark %s", label); }
void vshim_faults(const char *pat) {
    fault_len = 0; fault_pos = 0;
    if (!pat) return;
    while (pat[fault_len] && fault_len < 63) { fault_pat[fault_len] = pat[fault_len]; fault_len++; }
}
void vshim_eintr(long every) { eintr_every = every; eintr_ctr = 0; }
void vshim_arm_kill(long k) { call_ctr = 0; kill_at = k; }
long vshim_calls(void) { return call_ctr; }
void vshim_reset_calls(void) { call_ctr = 0; kill_at = -1; }
void vshim_delay_after_first(long us) { delay_first_us = us; }
long vshim_sndbuf(void) { return sndbuf_override; }

/* pattern characters: '0' let the attempt through, '1' ENOBUFS, '2' EINTR, '3' EPIPE, '4' ECONNRESET; returns the errno or 0 */
static int next_fault(void) {
    if (fault_pos < fault_len) {
        switch (fault_pat[fault_pos++]) {
        case '1': return ENOBUFS;
        case '2': return EINTR;
        case '3': return EPIPE;
        case '4': return ECONNRESET;
        default: return 0;
        }
    }
    return 0;
}

static int count_rights(const struct msghdr *m, int *first) {
    int n = 0;
    if (!m->msg_control || m->msg_controllen < sizeof(struct cmsghdr)) return 0;
    for (struct cmsghdr *c = CMSG_FIRSTHDR((struct msghdr *)m); c; c = CMSG_NXTHDR((struct msghdr *)m, c)) {
        if (c->cmsg_level == SOL_SOCKET && c->cmsg_type == SCM_RIGHTS) {
            int k = (c->cmsg_len - CMSG_LEN(0)) / sizeof(int);
            if (first && k > 0 && n == 0) *first = ((int *)CMSG_DATA(c))[0];
            n += k;
        }
    }
    return n;
}

int socketpair(int d, int t, int p, int sv[2]) {
    init_once(); RESOLVE(socketpair);
    int seq = d == AF_UNIX && (t & 0xf) == SOCK_SEQPACKET;
    if (seq) tick();
    int r = r_socketpair(d, t, p, sv);
    if (r == 0 && seq) {
        track(sv[0], 1); track(sv[1], 1);
        logf_("socketpair a=%d b=%d cloexec=%d", sv[0], sv[1], (t & SOCK_CLOEXEC) ? 1 : 0);
    }
    return r;
}

int socket(int d, int t, int p) {
    init_once(); RESOLVE(socket);
    int seq = d == AF_UNIX && (t & 0xf) == SOCK_SEQPACKET;
    if (seq) tick();
    int r = r_socket(d, t, p);
    if (r >= 0 && seq) { track(r, 1); logf_("socket fd=%d cloexec=%d", r, (t & SOCK_CLOEXEC) ? 1 : 0); }
    return r;
}

int connect(int fd, const struct sockaddr *a, socklen_t l) {
    init_once(); RESOLVE(connect);
    if (!is_tracked(fd)) return r_connect(fd, a, l);
    tick();
    int r = r_connect(fd, a, l); int e = errno;
    logf_("connect fd=%d res=%d errno=%d", fd, r, r < 0 ? e : 0);
    errno = e; return r;
}

int bind(int fd, const struct sockaddr *a, socklen_t l) {
    init_once(); RESOLVE(bind);
    if (!is_tracked(fd)) return r_bind(fd, a, l);
    tick();
    int r = r_bind(fd, a, l); int e = errno;
    logf_("bind fd=%d res=%d errno=%d", fd, r, r < 0 ? e : 0);
    errno = e; return r;
}

int listen(int fd, int n) {
    init_once(); RESOLVE(listen);
    if (!is_tracked(fd)) return r_listen(fd, n);
    tick();
    int r = r_listen(fd, n); int e = errno;
    if (r == 0) track(fd, 4);
    logf_("listen fd=%d backlog=%d res=%d", fd, n, r);
    errno = e; return r;
}

static int fd_cloexec(int fd) { RESOLVE(fcntl); int f = r_fcntl(fd, F_GETFD); return f >= 0 && (f & FD_CLOEXEC); }

int accept(int fd, struct sockaddr *a, socklen_t *l) {
    init_once(); RESOLVE(accept);
    if (!is_tracked(fd)) return r_accept(fd, a, l);
    tick();
    int r = r_accept(fd, a, l); int e = errno;
    if (r >= 0) track(r, 1);
    logf_("accept fd=%d res=%d cloexec=%d errno=%d", fd, r, r >= 0 ? fd_cloexec(r) : 0, r < 0 ? e : 0);
    errno = e; return r;
}

int accept4(int fd, struct sockaddr *a, socklen_t *l, int flags) {
    init_once(); RESOLVE(accept4);
    if (!is_tracked(fd)) return r_accept4(fd, a, l, flags);
    tick();
    int r = r_accept4(fd, a, l, flags); int e = errno;
    if (r >= 0) track(r, 1);
    logf_("accept fd=%d res=%d cloexec=%d errno=%d", fd, r, r >= 0 ? fd_cloexec(r) : 0, r < 0 ? e : 0);
    errno = e; return r;
}

static size_t iov_total(const struct msghdr *m) {
    size_t t = 0;
    for (size_t i = 0; i < (size_t)m->msg_iovlen; i++) t += m->msg_iov[i].iov_len;
    return t;
}

ssize_t sendmsg(int fd, const struct msghdr *m, int flags) {
    init_once(); RESOLVE(sendmsg);
    if (!is_tracked(fd)) return r_sendmsg(fd, m, flags);
    tick();
    size_t tot = iov_total(m);
    unsigned long long hdr = 0;
    if (m->msg_iovlen > 0 && m->msg_iov[0].iov_len == 8) memcpy(&hdr, m->msg_iov[0].iov_base, 8);
    int first = -1;
    int nr = count_rights(m, &first);
    int inj = next_fault();
    if (inj) {
        logf_("sendmsg fd=%d bytes=%zu hdr=%llu rights=%d ctl=%zu res=-1 errno=%d injected=1", fd, tot, hdr, nr, (size_t)m->msg_controllen, inj);
        errno = inj; return -1;
    }
    ssize_t r = r_sendmsg(fd, m, flags); int e = errno;
    logf_("sendmsg fd=%d bytes=%zu hdr=%llu rights=%d ctl=%zu res=%zd errno=%d", fd, tot, hdr, nr, (size_t)m->msg_controllen, r, r < 0 ? e : 0);
    if (r >= 0 && delay_first_us > 0 && hdr + 8 != tot) usleep(delay_first_us);
    errno = e; return r;
}

ssize_t send(int fd, const void *b, size_t n, int flags) {
    init_once(); RESOLVE(send);
    if (!is_tracked(fd)) return r_send(fd, b, n, flags);
    tick();
    int inj = next_fault();
    if (inj) {
        logf_("send fd=%d bytes=%zu res=-1 errno=%d injected=1", fd, n, inj);
        errno = inj; return -1;
    }
    ssize_t r = r_send(fd, b, n, flags); int e = errno;
    logf_("send fd=%d bytes=%zu res=%zd errno=%d", fd, n, r, r < 0 ? e : 0);
    errno = e; return r;
}

ssize_t recvmsg(int fd, struct msghdr *m, int flags) {
    init_once(); RESOLVE(recvmsg);
    if (!is_tracked(fd)) return r_recvmsg(fd, m, flags);
    tick();
    size_t cap = iov_total(m);
    size_t ctlcap = m->msg_controllen;
    ssize_t r = r_recvmsg(fd, m, flags); int e = errno;
    int nr = 0;
    if (r >= 0) {
        nr = count_rights(m, NULL);
        for (struct cmsghdr *c = CMSG_FIRSTHDR(m); c; c = CMSG_NXTHDR(m, c))
            if (c->cmsg_level == SOL_SOCKET && c->cmsg_type == SCM_RIGHTS) {
                int k = (c->cmsg_len - CMSG_LEN(0)) / sizeof(int);
                for (int i = 0; i < k; i++) {
                    int nfd = ((int *)CMSG_DATA(c))[i];
                    struct stat st;
                    int sock = fstat(nfd, &st) == 0 && S_ISSOCK(st.st_mode);
                    track(nfd, sock ? 1 : 2);
                    logf_("install fd=%d sock=%d cloexec=%d via=%d", nfd, sock, fd_cloexec(nfd), fd);
                }
            }
    }
    logf_("recvmsg fd=%d cap=%zu ctlcap=%zu cloexecflag=%d res=%zd rights=%d ctrunc=%d trunc=%d errno=%d", fd, cap, ctlcap,
          (flags & MSG_CMSG_CLOEXEC) ? 1 : 0, r, nr, r >= 0 && (m->msg_flags & MSG_CTRUNC) ? 1 : 0,
          r >= 0 && (m->msg_flags & MSG_TRUNC) ? 1 : 0, r < 0 ? e : 0);
    errno = e; return r;
}

/* vshim_recv_eintr(n): the n-th following recv() of the calling thread on a tracked socket is interrupted by a signal
   (returns -1 / EINTR, nothing consumed); 0 = off */
static __thread long recv_eintr_at = 0;
void vshim_recv_eintr(long n) { recv_eintr_at = n; }

ssize_t recv(int fd, void *b, size_t n, int flags) {
    init_once(); RESOLVE(recv);
    if (!is_tracked(fd)) return r_recv(fd, b, n, flags);
    tick();
    if (recv_eintr_at > 0 && --recv_eintr_at == 0) {
        logf_("recv fd=%d cap=%zu res=-1 errno=%d injected=1", fd, n, EINTR);
        errno = EINTR; return -1;
    }
    ssize_t r = r_recv(fd, b, n, flags); int e = errno;
    logf_("recv fd=%d cap=%zu res=%zd errno=%d", fd, n, r, r < 0 ? e : 0);
    errno = e; return r;
}

int close(int fd) {
    init_once(); RESOLVE(close);
    if (fd == log_fd && log_fd >= 0) { errno = EBADF; return -1; }
    if (!is_tracked(fd)) {
        /* a descriptor the crate created and already closed: a second close of the same number that FAILS (nobody re-used the
           number meanwhile) is a double close and is logged; one that succeeds closes somebody else's descriptor that re-used the
           number - the flag is dropped without a record (it may as well be that descriptor's rightful owner) */
        if (fd >= 0 && fd < MAXFD && was_tracked[fd]) {
            int kind0 = was_tracked[fd];
            was_tracked[fd] = 0;
            int r0 = r_close(fd); int e0 = errno;
            if (r0 != 0) logf_("close fd=%d kind=%d res=%d errno=%d stale=1", fd, kind0, r0, e0);
            errno = e0; return r0;
        }
        return r_close(fd);
    }
    tick();
    int kind = tracked[fd];
    tracked[fd] = 0;
    if (fd >= 0 && fd < MAXFD) was_tracked[fd] = (unsigned char)kind;
    int r = r_close(fd); int e = errno;
    logf_("close fd=%d kind=%d res=%d errno=%d", fd, kind, r, r < 0 ? e : 0);
    errno = e; return r;
}

int dup(int fd) {
    init_once(); RESOLVE(dup);
    if (!is_tracked(fd)) return r_dup(fd);
    tick();
    int r = r_dup(fd); int e = errno;
    if (r >= 0) track(r, tracked[fd]);
    logf_("dup fd=%d res=%d cloexec=%d", fd, r, r >= 0 ? fd_cloexec(r) : 0);
    errno = e; return r;
}

int fcntl(int fd, int cmd, ...) {
    init_once(); RESOLVE(fcntl);
    va_list ap; va_start(ap, cmd);
    long arg = va_arg(ap, long);
    va_end(ap);
    if (!is_tracked(fd)) return r_fcntl(fd, cmd, arg);
    if (cmd == F_SETFL) {
        tick();
        int r = r_fcntl(fd, cmd, arg); int e = errno;
        logf_("setfl fd=%d nonblock=%d res=%d", fd, (arg & O_NONBLOCK) ? 1 : 0, r);
        errno = e; return r;
    }
    if (cmd == F_DUPFD || cmd == F_DUPFD_CLOEXEC) {
        tick();
        int r = r_fcntl(fd, cmd, arg); int e = errno;
        if (r >= 0) track(r, tracked[fd]);
        logf_("dup fd=%d res=%d cloexec=%d", fd, r, r >= 0 ? fd_cloexec(r) : 0);
        errno = e; return r;
    }
    return r_fcntl(fd, cmd, arg);
}
int fcntl64(int fd, int cmd, ...) {
    va_list ap; va_start(ap, cmd);
    long arg = va_arg(ap, long);
    va_end(ap);
    return fcntl(fd, cmd, arg);
}

int getsockopt(int fd, int level, int name, void *val, socklen_t *len) {
    init_once(); RESOLVE(getsockopt);
    int r = r_getsockopt(fd, level, name, val, len);
    if (r == 0 && level == SOL_SOCKET && name == SO_SNDBUF && sndbuf_override > 0 && is_tracked(fd)) {
        /* the crate reads it into a usize with optlen 8; the kernel writes an int */
        if (*len >= sizeof(int)) {
            int cur; memcpy(&cur, val, sizeof cur);
            if (sndbuf_override < cur) { int v = (int)sndbuf_override; memcpy(val, &v, sizeof v); }
        }
    }
    return r;
}

int poll(struct pollfd *fds, nfds_t n, int timeout) {
    init_once(); RESOLVE(poll);
    if (n != 1 || !is_tracked(fds[0].fd)) return r_poll(fds, n, timeout);
    tick();
    if (eintr_every > 0 && (__sync_add_and_fetch(&eintr_ctr, 1) % eintr_every) == 0) {
        logf_("poll fd=%d timeout=%d events=%d res=-1 errno=%d injected=1", fds[0].fd, timeout, fds[0].events, EINTR);
        errno = EINTR; return -1;
    }
    struct timespec t0, t1;
    clock_gettime(CLOCK_MONOTONIC, &t0);
    int r = r_poll(fds, n, timeout); int e = errno;
    clock_gettime(CLOCK_MONOTONIC, &t1);
    long us = (t1.tv_sec - t0.tv_sec) * 1000000L + (t1.tv_nsec - t0.tv_nsec) / 1000;
    logf_("poll fd=%d timeout=%d events=%d res=%d revents=%d us=%ld", fds[0].fd, timeout, fds[0].events, r, fds[0].revents, us);
    errno = e; return r;
}

int epoll_create1(int flags) {
    init_once(); RESOLVE(epoll_create1);
    int r = r_epoll_create1(flags);
    if (r >= 0) { track(r, 3); logf_("epoll_create fd=%d cloexec=%d", r, (flags & EPOLL_CLOEXEC) ? 1 : 0); }
    return r;
}

int epoll_ctl(int ep, int op, int fd, struct epoll_event *ev) {
    init_once(); RESOLVE(epoll_ctl);
    if (!is_tracked(ep) || !is_tracked(fd)) return r_epoll_ctl(ep, op, fd, ev);
    tick();
    int r = r_epoll_ctl(ep, op, fd, ev); int e = errno;
    logf_("epoll_ctl ep=%d op=%d fd=%d events=%u res=%d", ep, op, fd, ev ? ev->events : 0, r);
    errno = e; return r;
}

int epoll_wait(int ep, struct epoll_event *evs, int max, int timeout) {
    init_once(); RESOLVE(epoll_wait);
    if (!is_tracked(ep)) return r_epoll_wait(ep, evs, max, timeout);
    tick();
    if (eintr_every > 0 && (__sync_add_and_fetch(&eintr_ctr, 1) % eintr_every) == 0) {
        logf_("epoll_wait ep=%d max=%d timeout=%d res=-1 errno=%d injected=1", ep, max, timeout, EINTR);
        errno = EINTR; return -1;
    }
    int r = r_epoll_wait(ep, evs, max, timeout); int e = errno;
    logf_("epoll_wait ep=%d max=%d timeout=%d res=%d errno=%d", ep, max, timeout, r, r < 0 ? e : 0);
    errno = e; return r;
}

int shm_open(const char *name, int oflag, mode_t mode) {
    init_once(); RESOLVE(shm_open);
    int r = r_shm_open(name, oflag, mode);
    if (r >= 0) { track(r, 2); logf_("shm_open fd=%d cloexec=%d", r, fd_cloexec(r)); }
    return r;
}

int ftruncate(int fd, off_t len) {
    init_once(); RESOLVE(ftruncate);
    int r = r_ftruncate(fd, len);
    if (is_tracked(fd)) logf_("ftruncate fd=%d len=%lld res=%d", fd, (long long)len, r);
    return r;
}
int ftruncate64(int fd, off_t len) { return ftruncate(fd, len); }

/* vshim_mmap_fail(n): the n-th following shared mapping of a descriptor by this process fails with ENOMEM (0 = off) */
static volatile long mmap_fail_at = 0;
void vshim_mmap_fail(long n) { mmap_fail_at = n; }

void *mmap(void *addr, size_t len, int prot, int flags, int fd, off_t off) {
    init_once(); RESOLVE(mmap);
    if (fd >= 0 && (flags & MAP_SHARED) && mmap_fail_at > 0 && __sync_sub_and_fetch(&mmap_fail_at, 1) == 0) {
        logf_("mmap fd=%d len=%zu res=-1 injected=1", fd, len);
        errno = ENOMEM; return MAP_FAILED;
    }
    void *r = r_mmap(addr, len, prot, flags, fd, off);
    if (is_tracked(fd) && tracked[fd] == 2) logf_("mmap fd=%d len=%zu res=%d addr=%p", fd, len, r == MAP_FAILED ? -1 : 0, r);
    return r;
}
void *mmap64(void *addr, size_t len, int prot, int flags, int fd, off_t off) { return mmap(addr, len, prot, flags, fd, off); }
