(* usize arithmetic on Z: wrapping results (release build) and "_ok" predicates (what a debug build asserts). *)
From Coq Require Import ZArith Bool Lia.
Open Scope Z_scope.

Module U.
Definition modulus : Z := 2 ^ 64.
Definition max : Z := modulus - 1.
Definition wrap (x : Z) : Z := x mod modulus.
Definition inr (x : Z) : bool := (0 <=? x) && (x <? modulus).

Definition add (a b : Z) : Z := wrap (a + b).
Definition sub (a b : Z) : Z := wrap (a - b).
Definition mul (a b : Z) : Z := wrap (a * b).
Definition div (a b : Z) : Z := a / b.
Definition rem (a b : Z) : Z := a mod b.
Definition lnot (a : Z) : Z := max - a.
Definition land (a b : Z) : Z := Z.land a b.
Definition lor (a b : Z) : Z := Z.lor a b.
Definition lxor (a b : Z) : Z := Z.lxor a b.
Definition shl (a b : Z) : Z := wrap (Z.shiftl a b).
Definition shr (a b : Z) : Z := Z.shiftr a b.

Definition add_ok (a b : Z) : bool := a + b <? modulus.
Definition sub_ok (a b : Z) : bool := 0 <=? a - b.
Definition mul_ok (a b : Z) : bool := a * b <? modulus.
Definition div_ok (a b : Z) : bool := negb (b =? 0).
Definition rem_ok (a b : Z) : bool := negb (b =? 0).
Definition shl_ok (a b : Z) : bool := (b <? 64) && (Z.shiftl a b <? modulus).
End U.
