(* C03 — disconnection is reported exactly when no sender can exist any more.
   Ideal: handles are references with derived counts; Unix: descriptors + Arc sharing.
   The refinement theorem (C19.v / unix_refines_ideal) carries every statement below over to the unix back end:
   for every program both models return the same outcome list. *)
From Coq Require Import List Arith ZArith Bool Permutation.
From IPC Require Import K KProofs Prog Ideal Unix IdealProofs RefineProofs.
From IPC Require K Prog Ideal Api ApiProofs ApiInv ErrMap ErrMapProofs.
Import ListNotations.

(* the invariant holds in every reachable state (any history of create / clone / send-with-embedded-handles /
   receive / drop over any number of channels, cyclic embeddings included) *)
Theorem C03_reachable_inv : forall ops : list op, i_inv (fst (i_run i_init ops)).
Proof. exact i_inv_run. Qed.
Print Assumptions C03_reachable_inv.

(* 'disconnected' iff the queue is empty AND no sender handle of the channel is alive AND no sender of the
   channel is in transit inside an undelivered message of a live channel *)
Theorem C03_disconnected_iff : forall (s : ist) (h : hid) (c : nat),
  i_inv s -> lookup (ih s) h = Some (IR c) ->
  snd (i_step s (ORecv h)) = RDisconnected <->
  q (get_chan (ik s) c) = nil /\
  (forall h' : hid, lookup (ih s) h' <> Some (IS c)) /\
  (forall (c' : nat) (ch : chan) (m : msg),
     nth_error (chans (ik s)) c' = Some ch -> dead ch = false -> In m (q ch) -> ~ In (RS c) (m_rights m)).
Proof. exact IdealProofs.C03_disconnected_iff. Qed.
Print Assumptions C03_disconnected_iff.

(* a connected but idle channel reports 'empty' *)
Theorem C03_idle_is_empty : forall (s : ist) (h : hid) (c : nat) (h' : hid),
  i_inv s -> lookup (ih s) h = Some (IR c) -> lookup (ih s) h' = Some (IS c) ->
  q (get_chan (ik s) c) = nil -> snd (i_step s (ORecv h)) = REmpty.
Proof. exact IdealProofs.C03_idle_is_empty. Qed.
Print Assumptions C03_idle_is_empty.

(* every message sent before is delivered first, oldest first: a non-empty queue never yields 'disconnected' *)
Theorem C03_messages_first : forall (s : ist) (h : hid) (c : nat) (m : msg) (rest : list msg),
  lookup (ih s) h = Some (IR c) -> q (get_chan (ik s) c) = m :: rest ->
  exists hs : list (hkind * hid),
    snd (i_step s (ORecv h)) = RMsg (m_data m) hs /\ q (get_chan (ik (fst (i_step s (ORecv h)))) c) = rest.
Proof. exact IdealProofs.C03_messages_first. Qed.
Print Assumptions C03_messages_first.

(* the unix back end answers exactly like the ideal model, for every program *)
Theorem C03_refine : forall ops : list op, snd (u_run u_init ops) = snd (i_run i_init ops).
Proof. exact unix_refines_ideal. Qed.
Print Assumptions C03_refine.

(* non-vacuity: a sender in transit inside an undelivered message keeps the channel connected; dropping the
   carrying receiver releases it and the channel disconnects *)
Example C03_ex :
  snd (i_run i_init [ONew; ONew; OSend 0 5 [ATx 2]; ODrop 2; ORecv 3; ODrop 1; ORecv 3])
  = [RNew 0 1; RNew 2 3; RSent; RDropped; REmpty; RDropped; RDisconnected].
Proof. vm_compute. reflexivity. Qed.

(* ---- whole-API level (model: Api.v): receivers, members of sets and servers ---- *)
Module ApiLevel.
Import K Prog Ideal Api ApiProofs ApiInv.
Local Open Scope nat_scope.

Theorem C03_api_disconnected_iff : forall s h c,
  lookup (ah s) h = Some (OR c) -> q (get_chan (ak s) c) = [] ->
  (snd (a_step s (ARecv h)) = QDisconnected <-> refs (ak s) (RS c) = 0).
Proof. exact recv_disconnected_iff. Qed.
Print Assumptions C03_api_disconnected_iff.

(* whatever can receive - a receiver handle, a member of a set, a server - denotes a live channel *)
Theorem C03_api_receiver_live : forall ops h o c,
  let s := fst (a_run a_init ops) in
  lookup (ah s) h = Some o -> In (RR c) (aobj_refs o) ->
  exists ch, nth_error (chans (ak s)) c = Some ch /\ dead ch = false.
Proof. exact api_receiver_live. Qed.
Print Assumptions C03_api_receiver_live.
End ApiLevel.

(* ---- what the public calls report: the conversions of the back end's error are GENERATED from the source (gen/Params); for every
   error value the back end can produce, 'disconnected' is reported exactly for the closed channel - by the blocking receive and by
   the non-blocking / timed ones ---- *)
Module Reported.
Import ErrMap ErrMapProofs.
Theorem C03_recv_disconnected_iff_closed : forall e, class_recv e = 1%Z <-> e = UClosed.
Proof. exact recv_disconnected_iff_closed. Qed.
Print Assumptions C03_recv_disconnected_iff_closed.
Theorem C03_try_recv_disconnected_iff_closed : forall e, class_try e = 1%Z <-> e = UClosed.
Proof. exact try_disconnected_iff_closed. Qed.
Print Assumptions C03_try_recv_disconnected_iff_closed.
End Reported.
