(* C17 — stopping a router, by shutdown or proxy drop, is clean and complete (model: Router.v, after the fix). *)
From Coq Require Import List Arith Bool.
From IPC Require Import Router RouterProofs.
Import ListNotations.

(* when shutdown() returns (its acknowledgement has been sent) the router has stopped *)
Theorem C17_ack_then_stopped : forall (ls : list label) (s : st), run init ls = Some s -> In Ack (effects s) -> stopped s = true.
Proof. exact ack_then_stopped. Qed.
Print Assumptions C17_ack_then_stopped.

(* once stopped - by shutdown or by loss of the proxy - it stays stopped, no callback is ever invoked again, all
   routes are gone, and the only further effect possible is dropping the arguments of a late add_route *)
Theorem C17_stopped_is_final : forall (ls : list label) (s : st),
  routes_once ls nil nil = true -> run init ls = Some s -> stopped s = true ->
  routes s = nil /\
  (forall (l : label) (s' : st), step s l = Some s' -> effects s' = effects s \/ (exists h : hid, effects s' = effects s ++ DropArgs h :: nil)) /\
  (forall (l : label) (s' : st), step s l = Some s' -> stopped s' = true).
Proof. exact stopped_is_final. Qed.
Print Assumptions C17_stopped_is_final.
Theorem C17_stopped_forever : forall (ls' : list label) (s s' : st),
  stopped s = true -> run s ls' = Some s' -> stopped s' = true /\ (forall h : hid, calls_of h (effects s') = calls_of h (effects s)).
Proof. exact stopped_forever. Qed.
Print Assumptions C17_stopped_forever.

(* every callback that was ever registered or offered has been dropped exactly once when the router has stopped *)
Theorem C17_stop_drops_all : forall (ls : list label) (s : st) (c : cid) (h : hid),
  routes_once ls nil nil = true -> run init ls = Some s -> stopped s = true -> In (PAddRoute c h) ls -> drops_of h (effects s) = 1.
Proof. exact stop_drops_all_strong. Qed.
Print Assumptions C17_stop_drops_all.

(* routes offered after shutdown are dropped without ever being invoked *)
Theorem C17_late_routes_never_invoked : forall (ls : list label) (s : st) (h : hid),
  routes_once ls nil nil = true -> run init ls = Some s -> In (DropArgs h) (effects s) -> calls_of h (effects s) = nil.
Proof. exact add_after_shutdown_never_invoked. Qed.
Print Assumptions C17_late_routes_never_invoked.

(* stopping never panics; shutdown is idempotent; a thread blocked in shutdown() can always make progress *)
Theorem C17_no_panic : forall (ls : list label) (s : st), run init ls = Some s -> ~ In Panic (effects s).
Proof. exact no_panic. Qed.
Print Assumptions C17_no_panic.
Theorem C17_shutdown_idempotent : forall (ls : list label) (s s' : st), run init ls = Some s -> flag s = true -> step s PShutdown = Some s' -> s' = s.
Proof. exact shutdown_idempotent. Qed.
Print Assumptions C17_shutdown_idempotent.
Theorem C17_shutdown_progress : forall (ls : list label) (s : st), run init ls = Some s -> waiting_ack s > 0 ->
  (exists s' : st, step s PAckWait = Some s') \/ (exists s' : st, step s REvWake = Some s').
Proof. exact shutdown_progress. Qed.
Print Assumptions C17_shutdown_progress.

Example C17_ex :
  option_map (fun s => (effects s, stopped s))
    (run init [PNewChan; PAddRoute 0 5; REvWake; PSend 0 1; PShutdown; PNewChan; PAddRoute 1 9; REvMsg 1; REvWake; PAckWait; PSend 0 2])
  = Some ([DropArgs 9; Call 5 0 1; DropHandler 5; Ack], true) /\
  option_map (fun s => (effects s, stopped s)) (run init [PNewChan; PAddRoute 0 5; REvWake; PProxyDrop; REvWakeClosed])
  = Some ([DropHandler 5], true).
Proof. vm_compute. split; reflexivity. Qed.
