(* C14 — a failed or nested send leaves no trace in later or enclosing messages (model: Tls.v). *)
From Coq Require Import List Arith Bool.
From IPC Require Import Codec Tls TlsProofs TlsRecv TlsRecvProofs.
Import ListNotations.

(* the per-thread tables are exactly as before after ANY send: successful, failed at any point, nested to any depth *)
Theorem C14_frame : forall (fuel : nat) (body : list sact) (t : tls) (res : sres) (t' : tls) (e : eff),
  ipc_send fuel body t = (res, t', e) -> t' = t.
Proof. exact ipc_send_frame. Qed.
Print Assumptions C14_frame.

(* a successful message carries exactly the channel attachments embedded at its own level, in order -
   none of an inner message, none left over from an earlier failed one *)
Theorem C14_own : forall (fuel : nat) (body : list sact) (t t' : tls) (e : eff),
  ipc_send fuel body t = (SerOk, t', e) ->
  exists (e1 : eff) (m : sent), e = eff_app e1 {| msgs := m :: nil; released := nil |} /\ s_chans m = own_chans fuel body.
Proof. exact ipc_send_own. Qed.
Print Assumptions C14_own.

(* a failed send transmits nothing at its own level and releases exactly what it had collected *)
Theorem C14_err_releases : forall (fuel : nat) (body : list sact) (t t' : tls) (e : eff),
  ipc_send fuel body t = (SerErr, t', e) ->
  exists e1 : eff, e = eff_app e1 {| msgs := nil; released := own_chans fuel body |}.
Proof. exact ipc_send_err_exact. Qed.
Print Assumptions C14_err_releases.

(* what a Serialize implementation appends, and which nested messages it emits, does not depend on what the
   tables held before (self-containedness of nested sends and of sends following a failure) *)
Theorem C14_independent : forall (fuel : nat) (body : list sact) (t : tls) (res : sres) (t' : tls) (e : eff),
  ser fuel body t = (res, t', e) ->
  exists (cs : list att) (rs : list nat),
    t_chans t' = t_chans t ++ cs /\ t_regions t' = t_regions t ++ rs /\
    ser fuel body tls_empty = (res, {| t_chans := cs; t_regions := rs |}, e).
Proof. exact ser_shift. Qed.
Print Assumptions C14_independent.

(* the fuel is not a loophole *)
Theorem C14_fuel : forall (body : list sact) (t : tls) (fuel : nat),
  (Tls.size body <= fuel)%nat -> ipc_send fuel body t = ipc_send (Tls.size body) body t.
Proof. exact ipc_send_fuel_enough. Qed.
Print Assumptions C14_fuel.

Example C14_ex :
  ipc_send 20 [STx 1; SNest [SRx 7; SEmit] false; STx 2; SNest [STx 9; SFail] false; SRegion 5] {| t_chans := [AChan true 99]; t_regions := [] |}
  = (SerOk, {| t_chans := [AChan true 99]; t_regions := [] |},
     {| msgs := [ {| s_chans := [AChan false 7]; s_regions := [] |}; {| s_chans := [AChan true 1; AChan true 2]; s_regions := [5] |} ];
        released := [AChan true 9] |}).
Proof. vm_compute. reflexivity. Qed.


(* ---- receive side (model: TlsRecv.v — OpaqueIpcMessage::to swaps the message's tables in, decodes, swaps back) ---- *)

(* the per-thread receive tables are exactly as before after ANY receive-and-decode: successful, failed, nested *)
Theorem C14_recv_frame : forall (fuel : nat) (msg : tabs) (body : list dact) (tl : tabs) (res : dres) (tl' : tabs) (o : out),
  to_ fuel msg body tl = (res, tl', o) -> tl' = tl.
Proof. exact to_frame. Qed.
Print Assumptions C14_recv_frame.

(* ... and what the decode yields does not depend on what those tables held (an enclosing decode in progress, leftovers) *)
Theorem C14_recv_independent : forall (fuel : nat) (msg : tabs) (body : list dact) (tl1 tl2 : tabs),
  fst (fst (to_ fuel msg body tl1)) = fst (fst (to_ fuel msg body tl2)) /\
  snd (to_ fuel msg body tl1) = snd (to_ fuel msg body tl2).
Proof. exact to_tl_irrelevant. Qed.
Print Assumptions C14_recv_independent.

(* a decoded value gets exactly the attachments its own level asks for, from its own message's tables *)
Theorem C14_recv_own : forall (fuel : nat) (msg : tabs) (body : list dact) (tl tl' : tabs) (o : out),
  to_ fuel msg body tl = (DecOk, tl', o) -> own fuel body msg = Some (got_c o, got_r o).
Proof. exact to_own. Qed.
Print Assumptions C14_recv_own.

(* a receive issued from inside a deserialisation contributes the same entries whatever the enclosing tables hold *)
Theorem C14_recv_nested : forall (f : nat) (msg : tabs) (b : list dact) (prop : bool) (r : list dact) (tl1 tl2 : tabs),
  exists rest1 rest2 : list (list nat * list nat),
    inner (snd (des (S f) (DNest msg b prop :: r) tl1)) = nested_entries f b msg ++ rest1 /\
    inner (snd (des (S f) (DNest msg b prop :: r) tl2)) = nested_entries f b msg ++ rest2.
Proof. exact nested_independent2. Qed.
Print Assumptions C14_recv_nested.

(* whatever is handed out comes from the message being decoded, and nothing is handed out twice *)
Theorem C14_recv_conserves : forall (fuel : nat) (msg : tabs) (body : list dact) (tl : tabs) (res : dres) (tl' : tabs) (o : out),
  to_ fuel msg body tl = (res, tl', o) ->
  (forall x, In x (got_c o) -> In (Some x) (tc msg)) /\ (forall x, In x (got_r o) -> In (Some x) (tr msg)).
Proof. exact to_conserves. Qed.
Print Assumptions C14_recv_conserves.

Theorem C14_recv_fuel : forall (msg : tabs) (body : list dact) (tl : tabs) (fuel : nat),
  TlsRecv.size body <= fuel -> to_ fuel msg body tl = to_ (TlsRecv.size body) msg body tl.
Proof. exact to_fuel_enough. Qed.
Print Assumptions C14_recv_fuel.
