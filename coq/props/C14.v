(* C14 — a failed or nested send leaves no trace in later or enclosing messages (model: Tls.v). *)
From Coq Require Import List Arith Bool.
From IPC Require Import Codec Tls TlsProofs.
Import ListNotations.

(* the per-thread tables are exactly as before after ANY send: successful, failed at any point, nested to any depth *)
Theorem C14_frame : forall (fuel : nat) (body : list sact) (t : tls) (res : sres) (t' : tls) (e : eff),
  ipc_send fuel body t = (res, t', e) -> t' = t.
Proof. exact ipc_send_frame. Qed.
Print Assumptions C14_frame.

(* a successful message carries exactly the channel attachments embedded at its own level, in order -
   none of an inner message, none left over from an earlier failed one *)
Theorem C14_own : forall (fuel : nat) (body : list sact) (t t' : tls) (e : eff),
  ipc_send fuel body t = (SerOk, t', e) ->
  exists (e1 : eff) (m : sent), e = eff_app e1 {| msgs := m :: nil; released := nil |} /\ s_chans m = own_chans fuel body.
Proof. exact ipc_send_own. Qed.
Print Assumptions C14_own.

(* a failed send transmits nothing at its own level and releases exactly what it had collected *)
Theorem C14_err_releases : forall (fuel : nat) (body : list sact) (t t' : tls) (e : eff),
  ipc_send fuel body t = (SerErr, t', e) ->
  exists e1 : eff, e = eff_app e1 {| msgs := nil; released := own_chans fuel body |}.
Proof. exact ipc_send_err_exact. Qed.
Print Assumptions C14_err_releases.

(* what a Serialize implementation appends, and which nested messages it emits, does not depend on what the
   tables held before (self-containedness of nested sends and of sends following a failure) *)
Theorem C14_independent : forall (fuel : nat) (body : list sact) (t : tls) (res : sres) (t' : tls) (e : eff),
  ser fuel body t = (res, t', e) ->
  exists (cs : list att) (rs : list nat),
    t_chans t' = t_chans t ++ cs /\ t_regions t' = t_regions t ++ rs /\
    ser fuel body tls_empty = (res, {| t_chans := cs; t_regions := rs |}, e).
Proof. exact ser_shift. Qed.
Print Assumptions C14_independent.

(* the fuel is not a loophole *)
Theorem C14_fuel : forall (body : list sact) (t : tls) (fuel : nat),
  (size body <= fuel)%nat -> ipc_send fuel body t = ipc_send (size body) body t.
Proof. exact ipc_send_fuel_enough. Qed.
Print Assumptions C14_fuel.

Example C14_ex :
  ipc_send 20 [STx 1; SNest [SRx 7; SEmit] false; STx 2; SNest [STx 9; SFail] false; SRegion 5] {| t_chans := [AChan true 99]; t_regions := [] |}
  = (SerOk, {| t_chans := [AChan true 99]; t_regions := [] |},
     {| msgs := [ {| s_chans := [AChan false 7]; s_regions := [] |}; {| s_chans := [AChan true 1; AChan true 2]; s_regions := [5] |} ];
        released := [AChan true 9] |}).
Proof. vm_compute. reflexivity. Qed.
