(* C18 — unsafe transport code stays inside its buffers for every message shape. *)
From Coq Require Import ZArith List Lia.
From IPC Require Import U64 Params Frag ParamsFacts FragProofs FragMore.
From IPC Require Shm ShmProofs.
Import ListNotations.
Open Scope Z_scope.

(* recv(), on ANY first packet and ANY sequence of follow-up packets (complete, partial or aborted
   transfers, also ones this library would never produce): the capacity assertion never fires, no usize
   operation overflows, and a message that is returned has exactly the announced length
   (every byte of it was written by a read into [write_pos, end_pos) with end_pos <= capacity) *)
Theorem C18_recv_bounds : forall fuel S p q,
  40 <= S < 2 ^ 62 -> fp_lo p <= fp_hi p -> 0 <= fp_total p < 2 ^ 62 ->
  Forall (fun r => fst r <= snd r) q ->
  match recv fuel S p q with
  | RCapacity => False
  | ROverflow => fp_total p < Z.min (fp_hi p - fp_lo p) (ffs S)
  | RMsg b n _ => blen b = fp_total p /\ 0 <= n \/ fp_rights p < 0
  | _ => True
  end.
Proof. exact recv_safe. Qed.
Print Assumptions C18_recv_bounds.

(* on the sending side no slice index is out of range and no usize operation overflows, under every oracle *)
Theorem C18_send_no_overflow : forall fuel Ss len nfds faults o evs,
  48 <= Ss < 2 ^ 62 -> 0 <= len < 2 ^ 62 -> 0 <= nfds ->
  send fuel Ss len nfds faults = (o, evs) -> o <> Panic /\ o <> Overflow.
Proof. exact send_no_panic. Qed.
Print Assumptions C18_send_no_overflow.

(* a message produced by this library is never cut by the kernel: each packet fits the buffer offered *)
Theorem C18_never_truncated : forall fuel Ss Sr len nfds faults o evs,
  send fuel Ss len nfds faults = (o, evs) ->
  48 <= Ss <= Sr -> Sr < 2 ^ 62 -> 0 <= len < 2 ^ 62 -> 0 <= nfds ->
  Forall (fun p => fp_hi p - fp_lo p <= ffs Sr) (shared_pkts evs) /\ Forall (fits Sr len) (ded_pkts evs).
Proof.
  intros fuel Ss Sr len nfds faults o evs H HS HSr Hlen Hn.
  destruct (send_correct _ _ _ _ _ _ _ _ H HS HSr Hlen Hn) as (_ & _ & A & B & _). exact (conj A B).
Qed.
Print Assumptions C18_never_truncated.

(* control messages (GENERATED CMSG_* functions and cmsghdr layout): header + 4n bytes fit the malloc'ed
   CMSG_SPACE(4n); the descriptor count parsed from cmsg_len never exceeds MAX_FDS_IN_CMSG and the reads
   stay inside the allocated control buffer *)
Theorem C18_cmsg_send : forall n, 0 <= n <= 2 ^ 20 ->
  CMSG_LEN (SIZEOF_c_int * n) <= CMSG_SPACE (SIZEOF_c_int * n) /\
  CMSG_LEN (SIZEOF_c_int * n) = 16 + 4 * n /\
  CMSG_LEN_safe (SIZEOF_c_int * n) = true /\ CMSG_SPACE_safe (SIZEOF_c_int * n) = true.
Proof. exact cmsg_send_fits. Qed.
Print Assumptions C18_cmsg_send.

Theorem C18_cmsg_recv : forall cmsg_len, 16 <= cmsg_len <= recv_ctl_cap ->
  0 <= recv_channel_length recv_ctl_cap cmsg_len <= MAX_FDS_IN_CMSG /\
  16 + 4 * recv_channel_length recv_ctl_cap cmsg_len <= recv_ctl_cap /\
  recv_channel_length_safe recv_ctl_cap cmsg_len = true /\ recv_ctl_cap_safe = true.
Proof. exact cmsg_recv_count. Qed.
Print Assumptions C18_cmsg_recv.

Example C18_ex : recv_ctl_cap = 272 /\ recv_channel_length 272 272 = 64 /\ CMSG_SPACE 260 = 280 /\
  recv 5 4096 {| fp_total := 9000; fp_lo := 0; fp_hi := 4056; fp_rights := 1; fp_ded := true |} [(4056, 8120)] = RClosedMidway [(0, 4056); (4056, 8120)].
Proof. vm_compute. repeat split. Qed.

(* ---- a mapping that fails (mmap returns MAP_FAILED): model Shm.v with an oracle for the one mmap an operation may issue ---- *)
Module MmapFailure.
Import Shm ShmProofs.
Local Open Scope Z_scope.

(* an operation on a region either panics (the assert in map_file) or behaves exactly as if nothing had failed: it never hands
   out a region whose length or contents differ from what was created, cloned or sent - for EVERY oracle *)
Theorem C18_mmap_failure_create : forall ok w bytes w' r cs,
  create_f ok w bytes = Some (w', r, cs) -> (w', r, cs) = create w bytes /\ read w' r = bytes.
Proof. exact mmap_failure_all_or_nothing. Qed.
Print Assumptions C18_mmap_failure_create.
Theorem C18_mmap_failure_clone : forall ok w r w' r' cs,
  clone_f ok w r = Some (w', r', cs) -> read w' r' = read w r /\ r_len r' = r_len r.
Proof. exact mmap_failure_clone. Qed.
Print Assumptions C18_mmap_failure_clone.
Theorem C18_mmap_failure_receive : forall ok w bytes w1 r c1 w2 r' c2,
  from_bytes w bytes = (w1, r, c1) -> receive_f ok w1 r = Some (w2, r', c2) ->
  read w2 r' = bytes /\ r_len r' = Z.of_nat (length bytes).
Proof. exact mmap_failure_receive. Qed.
Print Assumptions C18_mmap_failure_receive.
(* zero-length regions map nothing and therefore cannot fail this way *)
Theorem C18_mmap_failure_panics_iff : forall w bytes,
  create_f false w bytes = None <-> mmapfail_panics (Z.of_nat (length bytes)) = true.
Proof. exact mmap_failure_panics_iff. Qed.
Print Assumptions C18_mmap_failure_panics_iff.
End MmapFailure.
