(* C08 — one-shot server bootstrap connects two processes and leaves nothing behind (model: Server.v). *)
From Coq Require Import List Arith Bool ZArith.
From IPC Require Import U64 Params Server ServerProofs.
From IPC Require K Prog Ideal Api ApiProofs ApiInv InprocSrv InprocSrvProofs.
Import ListNotations.
Local Open Scope nat_scope.

(* in EVERY order of {server created, client connects, client sends, client exits, accept, receiver reads}: what accept
   returned, then what the returned receiver read, then what is still queued, is exactly what the client sent, in order *)
Theorem C08_conn_fifo : forall ls s k, run init ls = Some s -> k < length (conns s) ->
  got (gconn s k) ++ queue (gconn s k) = sent (gconn s k).
Proof. exact conn_fifo. Qed.
Print Assumptions C08_conn_fifo.

(* accept hands out the oldest queued connection with the FIRST message its client sent *)
Theorem C08_accept_returns_first : forall ls s n s', run init ls = Some s -> step s (SAccept n) = Some s' ->
  exists k x rest, backlog (gsrv s n) = k :: rest /\ accepted (gsrv s' n) = Some k /\
    sent (gconn s k) = x :: skipn 1 (sent (gconn s k)) /\ got (gconn s k) = [] /\ got (gconn s' k) = [x].
Proof. exact accept_returns_first. Qed.
Print Assumptions C08_accept_returns_first.

(* accept does not wait once a client has connected and sent its first message - whether it connected before or
   after accept was called, and even if it has already exited *)
Theorem C08_accept_enabled : forall ls s n k rest x q, run init ls = Some s -> n < length (servers s) ->
  listening (gsrv s n) = true -> backlog (gsrv s n) = k :: rest -> queue (gconn s k) = x :: q ->
  exists s', step s (SAccept n) = Some s'.
Proof. exact accept_enabled_when_ready. Qed.
Print Assumptions C08_accept_enabled.

(* every live server has its own name; a name exists exactly while its server listens *)
Theorem C08_names : forall ls s, run init ls = Some s ->
  NoDup (fs s) /\ (forall n, In n (fs s) <-> n < length (servers s) /\ listening (gsrv s n) = true).
Proof. exact names_distinct. Qed.
Print Assumptions C08_names.

(* once accept has returned, or the server was dropped unused: no file-system entry, no temp dir, no listening descriptor *)
Theorem C08_clean : forall ls s n, run init ls = Some s -> n < length (servers s) -> listening (gsrv s n) = false ->
  ~ In n (fs s) /\ dir (gsrv s n) = false.
Proof. exact clean_after. Qed.
Print Assumptions C08_clean.
Theorem C08_listeners_counted : forall ls s, run init ls = Some s -> open_listeners s = length (fs s).
Proof. exact listeners_counted. Qed.
Print Assumptions C08_listeners_counted.
Theorem C08_no_connect_after_accept : forall ls s n, run init ls = Some s -> n < length (servers s) ->
  listening (gsrv s n) = false -> step s (CConnect n) = None.
Proof. exact no_connect_after_accept. Qed.
Print Assumptions C08_no_connect_after_accept.

(* the accept queue of the kernel is as long as the source asks for (GENERATED) - only one client is ever expected *)
Theorem C08_backlog_tied : LISTEN_BACKLOG = 10%Z.
Proof. reflexivity. Qed.
Print Assumptions C08_backlog_tied.

Example C08_ex :
  option_map (fun s => (got (gconn s 0), fs s, open_listeners s))
    (run init [SNew; CConnect 0; CSend 0 1; CSend 0 2; CSend 0 3; CExit 0; SAccept 0; RRecv 0; RRecv 0])
  = Some ([1; 2; 3], [], 0).
Proof. vm_compute. reflexivity. Qed.

(* ---- one-shot servers inside whole-API programs (model: Api.v; proofs: ApiInv.v) ---- *)
Module ApiLevel.
Import K Prog Ideal Api ApiProofs ApiInv.
Local Open Scope nat_scope.

(* accept hands out the head of the rendezvous queue, with its attachments in order, and the receiver it returns is the
   receiving end of that very channel (so everything the client sends later arrives through it) *)
Theorem C08_api_accept_first : forall s sh c m rest k', a_inv s ->
  lookup (ah s) sh = Some (OSrv c true) -> k_recv (ak s) c = KMsg m k' -> undecodable m = false ->
  q (get_chan (ak s) c) = m :: rest ->
  exists hs, snd (a_step s (AAccept sh)) = QAccepted (anext s) (m_data m) hs /\ map fst hs = map akind_of (m_rights m) /\
             lookup (ah (fst (a_step s (AAccept sh)))) (anext s) = Some (OR c).
Proof. exact accept_returns_first. Qed.
Print Assumptions C08_api_accept_first.

(* a client that connected and went away without sending a message (no reference to the sending end left anywhere, nothing queued):
   accept neither blocks nor panics - it reports 'disconnected', the server is consumed, its receiving end released, and the
   invariant (hence: nothing stays behind once the remaining handles are dropped) goes on holding.  This is what every transport
   has to answer; the in-process one did not before the twelfth fix *)
Theorem C08_api_accept_departed_client : forall s sh c, a_inv s ->
  lookup (ah s) sh = Some (OSrv c true) -> q (get_chan (ak s) c) = [] -> refs (ak s) (RS c) = 0 ->
  snd (a_step s (AAccept sh)) = QDisconnected /\
  lookup (ah (fst (a_step s (AAccept sh)))) sh = Some OGone /\
  ak (fst (a_step s (AAccept sh))) = k_close (ak s) (RR c) /\
  a_inv (fst (a_step s (AAccept sh))).
Proof. exact accept_of_a_departed_client. Qed.
Print Assumptions C08_api_accept_departed_client.

Example C08_api_departed_ex :
  snd (a_run a_init [AServer; AConnect 0; ADrop 1; AAccept 0]) = [QServer 0; QConnected 1; QDropped; QDisconnected].
Proof. vm_compute. reflexivity. Qed.
End ApiLevel.

(* ---- the one-shot server of the in-process transport (model: InprocSrv.v - registry of server records, accept() statement by
   statement; proofs: InprocSrvProofs.v), for EVERY interleaving of accept's statements with the clients' actions ---- *)
Module InprocLevel.
Import InprocSrv InprocSrvProofs.
Local Open Scope nat_scope.

Theorem C08_inproc_fifo : forall ls s, run init ls = Some s -> got s ++ queue s = sent s.
Proof. exact isrv_fifo. Qed.
Print Assumptions C08_inproc_fifo.

Theorem C08_inproc_accept_first : forall ls s, run init ls = Some s -> phase s = PDoneOk ->
  exists x rest, got s = x :: rest /\ sent s = x :: rest ++ queue s.
Proof. exact isrv_accept_first. Qed.
Print Assumptions C08_inproc_accept_first.

(* nothing created for the rendezvous remains: once the registry entry is gone (before accept's final receive) neither the
   registry nor accept's own clone of the record holds a sender - only the clients do *)
Theorem C08_inproc_no_parked_sender : forall ls s, run init ls = Some s -> after_removed (phase s) = true -> senders s = clients s.
Proof. exact isrv_no_parked_sender. Qed.
Print Assumptions C08_inproc_no_parked_sender.

Theorem C08_inproc_disconnected_exact : forall ls s s', run init ls = Some s -> step s IRecv = Some s' ->
  (exists o, obs s' = obs s ++ [o] /\
     (o = ODisc <-> queue s = [] /\ clients s = 0) /\ (forall x, o = OMsg x <-> exists q, queue s = x :: q)).
Proof. exact isrv_disconnected_exact. Qed.
Print Assumptions C08_inproc_disconnected_exact.

(* accept never waits for ever once a client has connected: the connection token is there, and the final receive returns as
   soon as a message is queued or every client handle is gone (with 'closed': the defect repaired by a2ffe27 was that accept's
   clone of the record - a sender - was still alive at that point) *)
Theorem C08_inproc_accept_progress : forall ls s, run init ls = Some s ->
  (phase s = PCloned -> 0 < nconn s -> exists s', step s IAcc2 = Some s') /\
  (phase s = PToken -> exists s', step s IAcc3 = Some s') /\
  (phase s = PDropped -> exists s', step s IAcc4 = Some s') /\
  (phase s = PRemoved -> (queue s <> [] \/ clients s = 0) -> exists s', step s IAcc5 = Some s').
Proof. exact isrv_accept_progress. Qed.
Print Assumptions C08_inproc_accept_progress.

Example C08_inproc_ex :
  option_map (fun s => (phase s, got s, obs s, reg s, senders s))
    (run init [INew; IAcc1; IConnect; IAcc2; IAcc3; IAcc4; ISend 7; IAcc5; ISend 8; IDropTx; IRecv; IRecv])
  = Some (PDoneOk, [7; 8], [OMsg 8; ODisc], false, 0) /\
  option_map phase (run init [INew; IConnect; IDropTx; IAcc1; IAcc2; IAcc3; IAcc4; IAcc5]) = Some PDoneErr /\
  (* without the release of the clone (IAcc3 skipped) accept cannot get any further: *)
  run init [INew; IConnect; IDropTx; IAcc1; IAcc2; IAcc4] = None.
Proof. vm_compute. repeat split. Qed.
End InprocLevel.
