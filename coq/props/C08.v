(* C08 — one-shot server bootstrap connects two processes and leaves nothing behind (model: Server.v). *)
From Coq Require Import List Arith Bool ZArith.
From IPC Require Import U64 Params Server ServerProofs.
Import ListNotations.
Local Open Scope nat_scope.

(* in EVERY order of {server created, client connects, client sends, client exits, accept, receiver reads}: what accept
   returned, then what the returned receiver read, then what is still queued, is exactly what the client sent, in order *)
Theorem C08_conn_fifo : forall ls s k, run init ls = Some s -> k < length (conns s) ->
  got (gconn s k) ++ queue (gconn s k) = sent (gconn s k).
Proof. exact conn_fifo. Qed.
Print Assumptions C08_conn_fifo.

(* accept hands out the oldest queued connection with the FIRST message its client sent *)
Theorem C08_accept_returns_first : forall ls s n s', run init ls = Some s -> step s (SAccept n) = Some s' ->
  exists k x rest, backlog (gsrv s n) = k :: rest /\ accepted (gsrv s' n) = Some k /\
    sent (gconn s k) = x :: skipn 1 (sent (gconn s k)) /\ got (gconn s k) = [] /\ got (gconn s' k) = [x].
Proof. exact accept_returns_first. Qed.
Print Assumptions C08_accept_returns_first.

(* accept does not wait once a client has connected and sent its first message - whether it connected before or
   after accept was called, and even if it has already exited *)
Theorem C08_accept_enabled : forall ls s n k rest x q, run init ls = Some s -> n < length (servers s) ->
  listening (gsrv s n) = true -> backlog (gsrv s n) = k :: rest -> queue (gconn s k) = x :: q ->
  exists s', step s (SAccept n) = Some s'.
Proof. exact accept_enabled_when_ready. Qed.
Print Assumptions C08_accept_enabled.

(* every live server has its own name; a name exists exactly while its server listens *)
Theorem C08_names : forall ls s, run init ls = Some s ->
  NoDup (fs s) /\ (forall n, In n (fs s) <-> n < length (servers s) /\ listening (gsrv s n) = true).
Proof. exact names_distinct. Qed.
Print Assumptions C08_names.

(* once accept has returned, or the server was dropped unused: no file-system entry, no temp dir, no listening descriptor *)
Theorem C08_clean : forall ls s n, run init ls = Some s -> n < length (servers s) -> listening (gsrv s n) = false ->
  ~ In n (fs s) /\ dir (gsrv s n) = false.
Proof. exact clean_after. Qed.
Print Assumptions C08_clean.
Theorem C08_listeners_counted : forall ls s, run init ls = Some s -> open_listeners s = length (fs s).
Proof. exact listeners_counted. Qed.
Print Assumptions C08_listeners_counted.
Theorem C08_no_connect_after_accept : forall ls s n, run init ls = Some s -> n < length (servers s) ->
  listening (gsrv s n) = false -> step s (CConnect n) = None.
Proof. exact no_connect_after_accept. Qed.
Print Assumptions C08_no_connect_after_accept.

(* the accept queue of the kernel is as long as the source asks for (GENERATED) - only one client is ever expected *)
Theorem C08_backlog_tied : LISTEN_BACKLOG = 10%Z.
Proof. reflexivity. Qed.
Print Assumptions C08_backlog_tied.

Example C08_ex :
  option_map (fun s => (got (gconn s 0), fs s, open_listeners s))
    (run init [SNew; CConnect 0; CSend 0 1; CSend 0 2; CSend 0 3; CExit 0; SAccept 0; RRecv 0; RRecv 0])
  = Some ([1; 2; 3], [], 0).
Proof. vm_compute. reflexivity. Qed.
