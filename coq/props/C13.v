(* C13 — transient buffer exhaustion during send is absorbed or reported, never damaging.
   `faults` is the ENOBUFS/EPIPE oracle: one entry per transmission attempt, ARBITRARY (not 2^10 patterns). *)
From Coq Require Import ZArith List Lia.
From IPC Require Import U64 Params Frag ParamsFacts FragProofs FragMore FragRetry.
Import ListNotations.
Open Scope Z_scope.

(* send terminates under every oracle (explicit fuel) *)
Theorem C13_total : forall fuel Ss len nfds faults,
  48 <= Ss < 2 ^ 62 -> 0 <= len < 2 ^ 62 -> (length faults + Z.to_nat len < fuel)%nat ->
  fst (send fuel Ss len nfds faults) <> OutOfFuel.
Proof. exact send_terminates. Qed.
Print Assumptions C13_total.

(* success means the receiver obtains exactly the message with all its attachments; a failure is
   one of the declared errors, never a panic or an arithmetic overflow; every packet that was transmitted
   (also before an error) fits the buffer the receiver offers for it *)
Theorem C13_ok_exact : forall fuel Ss Sr len nfds faults o evs,
  send fuel Ss len nfds faults = (o, evs) ->
  48 <= Ss <= Sr -> Sr < 2 ^ 62 -> 0 <= len < 2 ^ 62 -> 0 <= nfds ->
  o <> Panic /\ o <> Overflow /\
  Forall (fun p => fp_hi p - fp_lo p <= ffs Sr) (shared_pkts evs) /\
  Forall (fits Sr len) (ded_pkts evs) /\
  (o = Ok -> delivered_exactly Sr len nfds evs).
Proof. exact send_correct. Qed.
Print Assumptions C13_ok_exact.

(* nothing is transmitted twice: the ranges that went out tile a prefix [0, e) of the message,
   and e = len when send reports success *)
Theorem C13_no_dup : forall fuel Ss len nfds faults o evs,
  send fuel Ss len nfds faults = (o, evs) -> 48 <= Ss < 2 ^ 62 -> 0 <= len < 2 ^ 62 ->
  exists e, 0 <= e <= len /\ tiles (transmitted evs) 0 e /\ (o = Ok -> e = len).
Proof. exact send_no_dup. Qed.
Print Assumptions C13_no_dup.

(* the shrinking step (generated from the source): only after more than 2000 bytes were refused;
   the new estimate is smaller, at least 1000, and below what was just tried plus the reserve *)
Theorem C13_downsize : forall sb sent sb',
  downsize sb sent = Some sb' -> 1000 <= sb -> 0 <= sent <= fs sb ->
  2000 < sent /\ 1000 <= sb' /\ sb' < sb /\ sb' < sent + RESERVED_SIZE /\ downsize_safe sb sent = true.
Proof. exact downsize_spec. Qed.
Print Assumptions C13_downsize.

Theorem C13_gives_up_only_small : forall sb sent, downsize sb sent = None -> sent <= 2000.
Proof. exact downsize_none. Qed.
Print Assumptions C13_gives_up_only_small.

(* buffer exhaustion cannot make a send spin: whatever the kernel answers - ENOBUFS to every attempt for ever included -
   and whatever the length, one send() makes at most log2(S) refused attempts (every retry at least halves the estimate,
   GENERATED `downsize`), then either gets through or reports the error.  Unlike C13_total this bound does not depend on
   the oracle or on the message length. *)
Theorem C13_retries_bounded : forall fuel Ss len nfds faults o evs,
  48 <= Ss < 2 ^ 62 -> 0 <= len < 2 ^ 62 ->
  send fuel Ss len nfds faults = (o, evs) -> retries evs <= Z.log2 Ss.
Proof. exact send_retries_bounded. Qed.
Print Assumptions C13_retries_bounded.

(* non-vacuity: re-fragmentation of a one-packet message, a retried follow-up, giving up *)
Example C13_ex :
  roundtrip 100 4096 4096 3000 2 [FNoBufs] = (Ok, Some (RMsg [(0, 2008); (2008, 3000)] 2 [])) /\
  roundtrip 100 16384 16384 40000 1 [FOk; FNoBufs; FNoBufs] =
    (Ok, Some (RMsg [(0, 16344); (16344, 20408); (20408, 24472); (24472, 28536); (28536, 32600); (32600, 36664); (36664, 40000)] 1 [])) /\
  fst (roundtrip 100 4096 4096 1500 0 [FNoBufs]) = ErrNoBufs.
Proof. vm_compute. repeat split. Qed.
