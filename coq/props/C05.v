(* C05 — shared-memory regions arrive with identical contents (model: Shm.v; order inside a message: C04). *)
From Coq Require Import ZArith List Bool.
From IPC Require Import U64 Params Codec Shm ShmProofs.
Import ListNotations.
Open Scope Z_scope.

Theorem C05_from_bytes : forall w bytes, let '(w', r, _) := from_bytes w bytes in read w' r = bytes.
Proof. exact read_from_bytes. Qed.
Print Assumptions C05_from_bytes.
Theorem C05_from_byte : forall w b n, let '(w', r, _) := from_byte w b n in read w' r = repeat b n.
Proof. exact read_from_byte. Qed.
Print Assumptions C05_from_byte.
Theorem C05_clone : forall w r, let '(w', r', _) := clone w r in read w' r' = read w r /\ forall x, read w' x = read w x.
Proof. exact read_clone. Qed.
Print Assumptions C05_clone.
(* any length, page-aligned or not: the receiver maps exactly the object's size *)
Theorem C05_received : forall w bytes,
  let '(w1, r, _) := from_bytes w bytes in let '(w2, r', _) := receive w1 r in
  read w2 r' = bytes /\ r_len r' = Z.of_nat (length bytes).
Proof. exact read_received. Qed.
Print Assumptions C05_received.
Theorem C05_persist : forall w r x, read (fst (drop w r)) x = read w x.
Proof. exact drop_keeps_contents. Qed.
Print Assumptions C05_persist.
Theorem C05_zero_length : forall w, let '(w', r, cs) := from_bytes w [] in
  r_mapped r = false /\ read w' r = [] /\ cs = [CFtruncate 0] /\ ipc_read (fst (fst (ipc_from_bytes w []))) (snd (fst (ipc_from_bytes w []))) = [].
Proof. exact zero_length_safe. Qed.
Print Assumptions C05_zero_length.
(* C18_deref_defined lives here too: an unmapped region reads as the empty slice, no slice is built from a null pointer *)
Theorem C05_deref_defined : forall w r, r_mapped r = false -> read w r = [].
Proof. exact deref_defined. Qed.
Print Assumptions C05_deref_defined.
Theorem C05_balanced : forall w bytes, let '(w1, r, _) := from_bytes w bytes in
  maps (fst (drop w1 r)) = maps w /\ fds (fst (drop w1 r)) = fds w.
Proof. exact create_drop_balanced. Qed.
Print Assumptions C05_balanced.

(* the empty-region marker of the byte-level model is the one written and tested by the source (GENERATED) *)
Theorem C05_sentinel_tied : Codec.usize_max = EMPTY_REGION_SENTINEL.
Proof. reflexivity. Qed.
Print Assumptions C05_sentinel_tied.

Example C05_ex :
  let '(w1, r, c1) := from_bytes w0 [7; 8; 9] in let '(w2, r2, c2) := clone w1 r in let '(w3, r3, c3) := receive w2 r2 in
  (read w3 r3, c1 ++ c2 ++ c3) = ([7; 8; 9], [CFtruncate 3; CMmap 3; CDup; CMmap 3; CMmap 3]).
Proof. vm_compute. reflexivity. Qed.

(* ---- Clone::clone_from (reached through Vec::clone_from / Option::clone_from as well): a new handle on the source's object
   replaces the destination; no object is written, so no other handle reads anything else than before ---- *)
Theorem C05_clone_from : forall w d s, let '(w', r, _) := clone_from w d s in
  read w' r = read w s /\ (forall x, read w' x = read w x) /\ objs w' = objs w.
Proof. exact clone_from_reads. Qed.
Print Assumptions C05_clone_from.
Theorem C05_clone_from_balanced : forall w d s, let '(w', r, _) := clone_from w d s in
  fds w' = fds w /\ maps w' = maps w + (if r_mapped s then 1 else 0) - (if r_mapped d then 1 else 0) /\
  r_len r = r_len s /\ r_obj r = r_obj s.
Proof. exact clone_from_balanced. Qed.
Print Assumptions C05_clone_from_balanced.
Theorem C05_clone_from_calls : forall w d s, let '(_, _, cs) := clone_from w d s in
  cs = CDup :: (if r_mapped s then [CMmap (r_len s)] else []) ++ (if r_mapped d then [CMunmap] else []) ++ [CClose].
Proof. exact clone_from_calls. Qed.
Print Assumptions C05_clone_from_calls.
