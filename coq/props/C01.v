(* C01 — values and byte payloads arrive exactly as sent, at every size.
   Statements only; proofs live in proofs/.  Every theorem is closed by `exact`. *)
From Coq Require Import ZArith List Lia.
From IPC Require Import U64 Params Frag ParamsFacts FragProofs.
Import ListNotations.
Open Scope Z_scope.

(* For every message (any element type, any length), every sender buffer size Ss >= 48 and receiver
   buffer size Sr >= Ss, every number of attachments and EVERY fault oracle: if send reports success,
   exactly one packet sits in the shared queue, the receiver's reassembly returns a buffer whose
   denotation is the data that was sent (same length, same bytes), with all attachments, and nothing is
   left unread in the dedicated queue. *)
Theorem C01_bytes : forall (A : Type) (data : list A) fuel Ss Sr nfds faults evs,
  48 <= Ss <= Sr -> Sr < 2 ^ 62 -> Z.of_nat (length data) < 2 ^ 62 -> 0 <= nfds ->
  send fuel Ss (Z.of_nat (length data)) nfds faults = (Ok, evs) ->
  exists p buf, shared_pkts evs = [p] /\
    (forall fuel2, (length (ded_pkts evs) < fuel2)%nat -> recv fuel2 Sr p (ded_pkts evs) = RMsg buf nfds []) /\
    interp data buf = data.
Proof. exact send_bytes. Qed.
Print Assumptions C01_bytes.

(* send never panics (slice out of range) and never overflows a usize, whatever the oracle does *)
Theorem C01_no_panic : forall fuel Ss len nfds faults o evs,
  48 <= Ss < 2 ^ 62 -> 0 <= len < 2 ^ 62 -> 0 <= nfds ->
  send fuel Ss len nfds faults = (o, evs) -> o <> Panic /\ o <> Overflow.
Proof. exact send_no_panic. Qed.
Print Assumptions C01_no_panic.

(* and it terminates: explicit fuel suffices, so OutOfFuel is not a way out of the theorems above *)
Theorem C01_terminates : forall fuel Ss len nfds faults,
  48 <= Ss < 2 ^ 62 -> 0 <= len < 2 ^ 62 -> (length faults + Z.to_nat len < fuel)%nat ->
  fst (send fuel Ss len nfds faults) <> OutOfFuel.
Proof. exact send_terminates. Qed.
Print Assumptions C01_terminates.

(* exactly one packet iff the payload fits the first-fragment capacity (no faults) *)
Theorem C01_single_iff : forall fuel Ss len nfds,
  48 <= Ss < 2 ^ 62 -> 0 <= len < 2 ^ 62 -> 0 <= nfds <= MAX_FDS_IN_CMSG ->
  (exists e, snd (send fuel Ss len nfds []) = [e]) <-> len <= ffs Ss.
Proof. exact send_single_iff. Qed.
Print Assumptions C01_single_iff.

(* non-vacuity: concrete instances (4 KiB buffer: one packet, boundary, +1, many packets; default buffer) *)
Example C01_ex_4096 :
  roundtrip 100 4096 4096 4056 3 [] = (Ok, Some (RMsg [(0, 4056)] 3 [])) /\
  roundtrip 100 4096 4096 4057 3 [] = (Ok, Some (RMsg [(0, 4056); (4056, 4057)] 3 [])) /\
  roundtrip 100 4096 4096 12185 0 [] = (Ok, Some (RMsg [(0, 4056); (4056, 8120); (8120, 12184); (12184, 12185)] 0 [])) /\
  roundtrip 100 4096 4096 0 0 [] = (Ok, Some (RMsg [(0, 0)] 0 [])).
Proof. vm_compute. repeat split. Qed.
Example C01_ex_default :
  roundtrip 1000 212992 212992 67108864 1 [] <> (Ok, None) /\ fst (roundtrip 1000 212992 212992 67108864 1 []) = Ok.
Proof. vm_compute. split; [discriminate|reflexivity]. Qed.
