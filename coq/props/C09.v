(* C09 — sending to a vanished receiver fails cleanly; one in transit still counts.
   Packet level (Frag): what send() does when a transmission attempt finds the receiving end gone.
   Reference level (K/MK, proofs/KProofs.v): when exactly the receiving end is gone. *)
From Coq Require Import ZArith List Lia.
From IPC Require Import U64 Params Frag ParamsFacts FragProofs PipeProofs.
Import ListNotations.
Open Scope Z_scope.

(* receiver gone before send starts (small or multi-packet, with or without attachments):
   send returns the error, nothing is queued on either socket *)
Theorem C09_fails : forall fuel S len nfds rest,
  48 <= S < 2 ^ 62 -> 0 <= len < 2 ^ 62 -> 0 <= nfds ->
  nfds + (if len <=? ffs S then 0 else 1) <= MAX_FDS_IN_CMSG -> (0 < fuel)%nat ->
  exists evs, send fuel S len nfds (FPipe :: rest) = (ErrPipe, evs) /\ shared_pkts evs = [] /\ ded_pkts evs = [].
Proof. exact send_to_vanished. Qed.
Print Assumptions C09_fails.

(* whenever ANY transmission attempt of a send (first packet or any follow-up, after any number of
   ENOBUFS retries) finds the receiver gone, the send returns an error - never success - and makes no
   further attempt *)
Theorem C09_never_success : forall fuel S len nfds faults o evs,
  send fuel S len nfds faults = (o, evs) -> has_pipe evs = true -> o = ErrPipe.
Proof. exact send_pipe_is_error. Qed.
Print Assumptions C09_never_success.

Example C09_ex :
  fst (send 50 4096 100 0 [FPipe]) = ErrPipe /\ fst (send 50 4096 20000 2 [FOk; FOk; FPipe]) = ErrPipe /\
  snd (send 50 4096 20000 0 [FOk; FPipe]) =
    [EvSocketpair; EvSendmsg 20000 0 4056 1 true SOk; EvCloseDedRx; EvSend 4056 8120 SPipe; EvCloseDedTx].
Proof. vm_compute. repeat split. Qed.
