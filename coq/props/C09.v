(* C09 — sending to a vanished receiver fails cleanly; one in transit still counts.
   Packet level (Frag): what send() does when a transmission attempt finds the receiving end gone.
   Reference level (K/MK, proofs/KProofs.v): when exactly the receiving end is gone. *)
From Coq Require Import ZArith List Lia.
From IPC Require InprocSrv InprocSrvProofs.
From IPC Require Import U64 Params Frag ParamsFacts FragProofs PipeProofs FragOrder K KProofs KDed Prog Ideal IdealProofs.
Import ListNotations.
Open Scope Z_scope.

(* receiver gone before send starts (small or multi-packet, with or without attachments):
   send returns the error, nothing is queued on either socket *)
Theorem C09_fails : forall fuel S len nfds rest,
  48 <= S < 2 ^ 62 -> 0 <= len < 2 ^ 62 -> 0 <= nfds ->
  nfds + (if len <=? ffs S then 0 else 1) <= MAX_FDS_IN_CMSG -> (0 < fuel)%nat ->
  exists evs, send fuel S len nfds (FPipe :: rest) = (ErrPipe, evs) /\ shared_pkts evs = [] /\ ded_pkts evs = [].
Proof. exact send_to_vanished. Qed.
Print Assumptions C09_fails.

(* whenever ANY transmission attempt of a send (first packet or any follow-up, after any number of
   ENOBUFS retries) finds the receiver gone, the send returns an error - never success - and makes no
   further attempt *)
Theorem C09_never_success : forall fuel S len nfds faults o evs,
  send fuel S len nfds faults = (o, evs) -> has_pipe evs = true -> o = ErrPipe.
Proof. exact send_pipe_is_error. Qed.
Print Assumptions C09_never_success.

Example C09_ex :
  fst (send 50 4096 100 0 [FPipe]) = ErrPipe /\ fst (send 50 4096 20000 2 [FOk; FOk; FPipe]) = ErrPipe /\
  snd (send 50 4096 20000 0 [FOk; FPipe]) =
    [EvSocketpair; EvSendmsg 20000 0 4056 1 true SOk; EvCloseDedRx; EvSend 4056 8120 SPipe; EvCloseDedTx].
Proof. vm_compute. repeat split. Qed.

Close Scope Z_scope.
Local Open Scope nat_scope.
(* WHEN is the receiving end gone?  Reference level (Ideal, carried to the unix back end by unix_refines_ideal):
   a send fails exactly when no receiver handle of the channel is alive AND no receiving end of it is in transit
   inside an undelivered message of a live channel - one in transit still counts, and then the message is queued *)
Theorem C09_send_err_iff : forall (s : ist) (h : hid) (c : nat) (data : BinNums.Z),
  i_inv s -> lookup (ih s) h = Some (IS c) ->
  snd (i_step s (OSend h data nil)) = RSendErr <->
  (forall h' : hid, lookup (ih s) h' <> Some (IR c)) /\
  (forall (c' : nat) (ch : chan) (m : msg),
     nth_error (chans (ik s)) c' = Some ch -> dead ch = false -> In m (q ch) -> ~ In (RR c) (m_rights m)).
Proof. exact IdealProofs.C09_send_err_iff. Qed.
Print Assumptions C09_send_err_iff.
Theorem C09_in_transit_is_queued : forall (s : ist) (h : hid) (c : nat) (data : BinNums.Z),
  i_inv s -> lookup (ih s) h = Some (IS c) -> snd (i_step s (OSend h data nil)) = RSent ->
  q (get_chan (ik (fst (i_step s (OSend h data nil)))) c) = q (get_chan (ik s) c) ++ {| m_data := data; m_rights := nil |} :: nil.
Proof. exact IdealProofs.C09_send_ok_queues. Qed.
Print Assumptions C09_in_transit_is_queued.

(* NO HANG during a multi-packet send (kernel reference level): once the sender has released its own copy of the dedicated
   receiving end (the fix for C09), that end is referenced only from the first fragment queued in the main channel; when the
   main receiver goes away its queue is discarded, the dedicated channel dies with it, and every further follow-up send
   fails instead of blocking for ever *)
Theorem C09_dedicated_dies_with_receiver : forall k m d,
  m <> d -> count_occ ref_dec (held k) (RR d) = 0 ->
  (forall c ch msg, nth_error (chans k) c = Some ch -> dead ch = false -> In msg (q ch) -> In (RR d) (m_rights msg) -> c = m) ->
  refs k (RR m) = 1 -> In (RR m) (held k) ->
  let k' := k_close k (RR m) in
  dead (get_chan k' d) = true /\ forall msg, k_send k' d msg = None.
Proof. exact ded_dies_with_main. Qed.
Print Assumptions C09_dedicated_dies_with_receiver.
(* the defect that was repaired, as a theorem about the same model: a sender that keeps its own copy keeps the
   dedicated channel alive whatever happens to the main receiver - its blocked send is never woken *)
Theorem C09_prefix_defect_kept_alive : forall k m d ch,
  m <> d -> In (RR d) (held k) -> nth_error (chans k) d = Some ch -> dead ch = false ->
  dead (get_chan (k_close k (RR m)) d) = false.
Proof. exact ded_kept_alive_by_sender_copy. Qed.
Print Assumptions C09_prefix_defect_kept_alive.

(* ... and the hypothesis of C09_dedicated_dies_with_receiver ("the sender holds no copy of the dedicated receiving end") is
   established by send() itself (packet level, Frag): for EVERY length, buffer size, attachment count and fault oracle, and
   whatever the outcome, no follow-up fragment is transmitted on the dedicated socket before the sender has closed its copy
   of the dedicated read end (EvCloseDedRx precedes every EvSend in the trace the correspondence check compares with the
   system calls of the real crate) *)
Theorem C09_read_end_released_before_follow_ups : forall fuel S len nfds faults o evs,
  send fuel S len nfds faults = (o, evs) -> rx_before_send false evs = true.
Proof. exact send_rx_closed_before_follow_ups. Qed.
Print Assumptions C09_read_end_released_before_follow_ups.

Example C09_ex_transit :
  snd (i_run i_init [ONew; ONew; OSend 0 1%Z [ARx 3]; OSend 2 7%Z []; ORecv 1; ORecv 4; ODrop 1; ODrop 4; OSend 2 8%Z []])
  = [RNew 0 1; RNew 2 3; RSent; RSent; RMsg 1%Z [(KRx, 4)]; RMsg 7%Z []; RDropped; RDropped; RSendErr].
Proof. vm_compute. reflexivity. Qed.


(* ---- the in-process transport's one-shot server (model: InprocSrv.v; every interleaving of accept()'s statements with the clients):
   a client endpoint obtained by connect() sends successfully exactly while the receiving end exists - inside the server object
   before accept, in the program's hands afterwards; once the server was dropped unaccepted (or the accepted receiver dropped)
   every send of every client fails and queues nothing, although the registry still holds a sender of the channel ---- *)
Module InprocLevel.
Import InprocSrv InprocSrvProofs.
Local Open Scope nat_scope.

Theorem C09_inproc_send_result : forall s x s', step s (ISend x) = Some s' ->
  sres s' = sres s ++ [rxlive s] /\ rxlive s' = rxlive s /\
  (if rxlive s then queue s' = queue s ++ [x] else queue s' = queue s /\ sent s' = sent s).
Proof. exact isrv_send_result. Qed.
Print Assumptions C09_inproc_send_result.

Theorem C09_inproc_send_after_drop_fails : forall pre s l ls s1 s2 x s3, run init pre = Some s ->
  (l = IDropSrv \/ l = IDropRx) -> step s l = Some s1 -> run s1 ls = Some s2 -> step s2 (ISend x) = Some s3 ->
  sres s3 = sres s2 ++ [false] /\ queue s3 = queue s2.
Proof. exact isrv_send_after_drop_fails. Qed.
Print Assumptions C09_inproc_send_after_drop_fails.

Theorem C09_inproc_send_before_accept_ok : forall pre s x, run init pre = Some s -> ~ In IDropSrv pre -> ~ In IDropRx pre -> 0 < clients s ->
  exists s', step s (ISend x) = Some s' /\ sres s' = sres s ++ [true] /\ queue s' = queue s ++ [x].
Proof. exact isrv_send_before_accept_ok. Qed.
Print Assumptions C09_inproc_send_before_accept_ok.

Example C09_inproc_ex :
  option_map (fun s => (sres s, queue s)) (run init [INew; IConnect; ISend 1; IDropSrv; ISend 2; IClone; ISend 3]) = Some ([true; false; false], [1]).
Proof. vm_compute. reflexivity. Qed.
End InprocLevel.
