(* C11 — no descriptor is leaked, closed twice, or closed without being owned (model: Unix.v). *)
From Coq Require Import List Arith ZArith Bool Permutation.
From IPC Require Import K KProofs Prog Ideal Unix UnixProofs.
From IPC Require K Prog Ideal Api ApiProofs ApiInv Params Frag FragLife.
Import ListNotations.

(* after ANY operation sequence (failing sends, moved receivers, clones, drops in any order): the open
   descriptors are exactly those owned by live library objects - one per Arc with a positive strong count,
   one per unconsumed receiver - and no descriptor number denotes two things *)
Theorem C11_no_leak : forall ops : list op,
  let u := fst (u_run u_init ops) in
  Permutation (map fst (fdt u)) (owned_fds u) /\ NoDup (map fst (fdt u)).
Proof. exact UnixProofs.C11_no_leak. Qed.
Print Assumptions C11_no_leak.

(* the library never closes a descriptor that is not open (hence none it does not own) *)
Theorem C11_no_bad_close : forall ops : list op, no_bad_close (fst (u_run u_init ops)).
Proof. exact UnixProofs.C11_no_bad_close. Qed.
Print Assumptions C11_no_bad_close.

(* and never closes one twice *)
Theorem C11_close_once : forall ops : list op,
  NoDup (flat_map (fun c : call => match c with CClose f => f :: nil | _ => nil end) (utrace (fst (u_run u_init ops)))).
Proof. exact UnixProofs.C11_close_once. Qed.
Print Assumptions C11_close_once.

(* once every handle has been dropped or moved away, the process holds no descriptor of the library *)
Theorem C11_quiescent : forall ops : list op,
  let u := fst (u_run u_init ops) in
  (forall (h : hid) (o : uobj), In (h, o) (uh u) -> o = UGone \/ o = UR None) -> fdt u = nil.
Proof. exact UnixProofs.C11_quiescent. Qed.
Print Assumptions C11_quiescent.

Example C11_ex :
  let u := fst (u_run u_init [ONew; ONew; OClone 0; OSend 0 1 [ARx 3; ATx 2]; ODrop 0; ODrop 4; ODrop 1; ODrop 2]) in
  fdt u = [] /\ utrace u = [CSocketpair 3 4; CSocketpair 5 6; CSendmsg 3 2 true; CClose 6; CClose 3; CClose 4; CClose 5].
Proof. vm_compute. split; reflexivity. Qed.

(* ---- the whole public API at reference level (model: Api.v; proofs: ApiInv.v): channels, regions, receiver sets, one-shot
   servers, undecodable messages, failing sends ---- *)
Module ApiLevel.
Import K Prog Ideal Api ApiProofs ApiInv.
Local Open Scope nat_scope.

(* the references the process holds are exactly those backing a live handle (sender, receiver, region, member of a set,
   server) - nothing parked anywhere else *)
Theorem C11_api_held_exact : forall ops,
  let s := fst (a_run a_init ops) in Permutation (held (ak s)) (ahandle_refs (ah s)).
Proof. exact api_held_exact. Qed.
Print Assumptions C11_api_held_exact.

(* once every handle the program obtained is gone the process holds no reference at all *)
Theorem C11_api_quiescent : forall ops,
  let s := fst (a_run a_init ops) in
  (forall h o, In (h, o) (ah s) -> aobj_refs o = []) -> held (ak s) = [].
Proof. exact api_quiescent. Qed.
Print Assumptions C11_api_quiescent.
End ApiLevel.

(* ---- "nor inherited": every way the back end has of creating or receiving a descriptor asks the kernel for close-on-exec AT CREATION
   (no window in which another thread's fork+exec could inherit it).  The four facts are GENERATED from the source: the Linux
   definitions of SOCK_FLAGS (socketpair / socket / accept4) and RECVMSG_FLAGS (descriptors that arrive with a message), the fcntl
   command that duplicates region descriptors, the flags of memfd_create.  What each call site actually passes is checked at run
   time from the interposer's trace (close-on-exec scan of the C08 / C11 / C12 drivers). ---- *)
Theorem C11_creation_flags_cloexec :
  Params.SOCK_FLAGS_CLOEXEC = true /\ Params.RECVMSG_FLAGS_CLOEXEC = true /\ Params.DUP_CLOEXEC = true /\ Params.MEMFD_CLOEXEC = true.
Proof. repeat split; reflexivity. Qed.
Print Assumptions C11_creation_flags_cloexec.

(* ---- the dedicated socket pair of a fragmented send (model: Frag.v; proofs: FragLife.v).  For every length, every
   buffer size, every attachment count and EVERY ENOBUFS/EPIPE oracle, and whatever the outcome of the send: at most one
   dedicated pair is created, and each of its two ends is closed exactly once - no leak on any error path, no second
   close of a number the kernel may already have handed out again.  The sizes come from the GENERATED definitions. ---- *)
Module FragLevel.
Import Frag FragLife.
Local Open Scope Z_scope.
Theorem C11_send_dedicated_pair_balanced : forall fuel Ss len nfds faults o evs,
  48 <= Ss < 2 ^ 62 -> 0 <= len < 2 ^ 62 ->
  send fuel Ss len nfds faults = (o, evs) ->
  (cnt is_sp evs <= 1)%nat /\ cnt is_rx evs = cnt is_sp evs /\ cnt is_tx evs = cnt is_sp evs.
Proof. exact send_ded_balanced. Qed.
Print Assumptions C11_send_dedicated_pair_balanced.
End FragLevel.
