(* C07 — router: each routed message reaches its handler once, in order; then it is freed (model: Router.v).
   Every theorem is for EVERY schedule: any interleaving of registrations from any number of threads (proxy
   operations are atomic under the proxy's mutex), traffic, hang-ups and router steps. *)
From Coq Require Import List Arith Bool.
From IPC Require Import Router RouterProofs.
Import ListNotations.

(* exactly once, in send order, messages queued before registration included: what the handler of channel c has
   been called with, followed by what is still queued, is exactly what was sent on c *)
Theorem C07_routed_exact : forall (ls : list label) (s : st) (c : cid) (h : hid),
  routes_once ls nil nil = true -> run init ls = Some s -> In (PAddRoute c h) ls ->
  calls_of h (effects s) ++ queue (get s c) = sent (get s c).
Proof. exact routed_exact. Qed.
Print Assumptions C07_routed_exact.

(* ... and to no other handler *)
Theorem C07_no_other_handler : forall (ls : list label) (s : st) (h : hid) (c : cid) (x : nat),
  routes_once ls nil nil = true -> run init ls = Some s -> In (Call h c x) (effects s) -> In (PAddRoute c h) ls.
Proof. exact no_other_handler. Qed.
Print Assumptions C07_no_other_handler.

(* the callback is dropped at most once, and never invoked after it was dropped *)
Theorem C07_dropped_at_most_once : forall (ls : list label) (s : st) (h : hid),
  routes_once ls nil nil = true -> run init ls = Some s -> drops_of h (effects s) <= 1.
Proof. exact dropped_at_most_once. Qed.
Print Assumptions C07_dropped_at_most_once.
Theorem C07_no_call_after_drop : forall (ls : list label) (s : st) (h : hid),
  routes_once ls nil nil = true -> run init ls = Some s ->
  forall pre post : list effect, effects s = pre ++ post -> In (DropHandler h) pre \/ In (DropArgs h) pre -> calls_of h post = nil.
Proof. exact no_call_after_drop. Qed.
Print Assumptions C07_no_call_after_drop.

(* wake-ups and control messages pair 1:1, so the blocking read of the control queue never waits for ever *)
Theorem C07_pairing : forall (ls : list label) (s : st), run init ls = Some s -> stopped s = false -> wakeups s = length (ctlq s).
Proof. exact pairing. Qed.
Print Assumptions C07_pairing.
Theorem C07_wake_never_blocks : forall (ls : list label) (s : st),
  run init ls = Some s -> stopped s = false -> wakeups s > 0 -> exists s' : st, step s REvWake = Some s'.
Proof. exact wake_never_blocks. Qed.
Print Assumptions C07_wake_never_blocks.

Example C07_ex :
  option_map effects (run init [PNewChan; PSend 0 7; PSend 0 8; PAddRoute 0 5; PNewChan; PAddRoute 1 6; REvWake; PSend 1 3; REvMsg 1; REvWake; REvMsg 2; REvMsg 1; PHup 0; REvClosed 1])
  = Some [Call 5 0 7; Call 6 1 3; Call 5 0 8; DropHandler 5].
Proof. vm_compute. reflexivity. Qed.
