(* C20 — a receiver turned into an async stream yields the same messages, then ends (model: Async.v). *)
From Coq Require Import List Arith Bool.
From IPC Require Import Async AsyncProofs.
Import ListNotations.

(* the stream of channel c is the one created at its conversion *)
Theorem C20_assoc : forall (ls1 ls2 : list label) (c : cid) (s1 : st),
  converts_once (ls1 ++ PToStreamEnq c :: ls2) nil = true -> run init ls1 = Some s1 ->
  assoc (ls1 ++ PToStreamEnq c :: ls2) c = Some (length (streams s1)).
Proof. exact assoc_is_creation. Qed.
Print Assumptions C20_assoc.

(* nothing is lost, duplicated or reordered: yielded ++ queued in the stream ++ still in the kernel = everything sent
   (before or after the conversion), for every schedule *)
Theorem C20_stream_exact : forall (ls : list label) (s : st) (c : cid) (i : sid),
  converts_once ls nil = true -> run init ls = Some s -> assoc ls c = Some i ->
  yielded (gets s i) ++ items (gets s i) ++ queue (get s c) = sent (get s c).
Proof. exact stream_exact. Qed.
Print Assumptions C20_stream_exact.

(* streams do not affect one another: a stream only ever shows messages of its own channel *)
Theorem C20_independent : forall (ls : list label) (s : st) (c : cid) (i : sid) (x : nat),
  converts_once ls nil = true -> run init ls = Some s -> assoc ls c = Some i ->
  In x (yielded (gets s i) ++ items (gets s i)) -> In x (sent (get s c)).
Proof. exact independent. Qed.
Print Assumptions C20_independent.

(* end-of-stream only after the last sender is gone and every message has been yielded *)
Theorem C20_end_after_all : forall (ls : list label) (s : st) (c : cid) (i : sid),
  converts_once ls nil = true -> run init ls = Some s -> assoc ls c = Some i -> ended (gets s i) = true ->
  hup (get s c) = true /\ queue (get s c) = nil /\ items (gets s i) = nil /\ yielded (gets s i) = sent (get s c).
Proof. exact end_after_all. Qed.
Print Assumptions C20_end_after_all.

(* a route is never stranded: whenever the routing thread is about to wait with a registration still queued,
   a wake-up is pending or about to be sent, so the wait returns *)
Theorem C20_registered_or_woken : forall (ls : list label) (s : st),
  run init ls = Some s -> ph s = AtWait -> length (regq s) <= wakeups s + inflight s.
Proof. exact registered_or_woken. Qed.
Print Assumptions C20_registered_or_woken.
Theorem C20_not_stranded : forall (ls : list label) (s : st),
  run init ls = Some s -> ph s = AtWait -> regq s <> nil -> inflight s = 0 -> exists s' : st, step s RSelect = Some s'.
Proof. exact not_stranded. Qed.
Print Assumptions C20_not_stranded.

Example C20_ex :
  option_map (fun s => (yielded (gets s 0), ended (gets s 0)))
    (run init [PNewChan; PSend 0 7; PToStreamEnq 0; PToStreamWake; RSelect; REvWake; REndBatch; RDrainOne; RDrainDone;
               PSend 0 8; PHup 0; RSelect; REvMsg 1; REvMsg 1; REvClosed 1; REndBatch; RDrainDone; CPoll 0; CPoll 0; CPoll 0])
  = Some ([7; 8], true).
Proof. vm_compute. reflexivity. Qed.
