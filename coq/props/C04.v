(* C04 — endpoints sent inside messages keep their identity, position and backlog. *)
From Coq Require Import List Arith ZArith Bool Permutation.
From IPC Require Import Codec CodecProofs Wire K KProofs Prog Ideal IdealProofs.
From IPC Require K Prog Ideal Api ApiProofs ApiInv ApiSelect ApiUnique.
Import ListNotations.
Local Open Scope nat_scope.

(* POSITION AND IDENTITY inside the value: for every well-typed value (endpoints and regions at arbitrary
   depth of sequences, options, tuples, enums), decoding the encoded bytes against the attachment lists that
   serialisation produced yields exactly the value back - every endpoint in the place it occupied - and every
   attachment has been handed out exactly once (all table entries are taken). *)
Theorem C04_positions : forall (v : val) (t : ty), has_type v t ->
  let '(bs, cs, rs) := encode_msg v in
  (Z.of_nat (length cs) < 2 ^ 64)%Z -> (Z.of_nat (length rs) < 2 ^ 64)%Z ->
  (depth v <= 64)%nat -> (maxseq v <= S (length bs))%nat ->
  decode_msg t bs (map (fun a : Codec.att => match a with Codec.AChan _ e => e end) cs) rs =
  DOk (v, {| d_chans := map (fun _ : Codec.att => None) cs; d_regions := map (fun _ : nat => None) rs |}).
Proof. exact decode_encode_msg_depth. Qed.
Print Assumptions C04_positions.

(* ON THE WIRE: channels, regions and the dedicated fragment receiver are recovered in order by the receiver,
   for small and fragmented messages alike *)
Theorem C04_wire_order : forall chans regions ded,
  recv_split (wire chans regions ded) (match ded with Some _ => true | None => false end) = Some (chans, regions, ded).
Proof. exact wire_order. Qed.
Print Assumptions C04_wire_order.

(* ON RECEIPT: the i-th channel right of a message becomes the i-th new handle, of the matching kind, for
   the SAME channel (so a transferred receiver reads the very queue that was pending: the queue belongs to the
   channel, not to the handle - see C03_messages_first for FIFO delivery from that queue) *)
Theorem C04_install_positions : forall (hs : list (hid * iobj)) (n : hid) (rs : list ref) (hs' : list (hid * iobj))
    (n' : hid) (out : list (hkind * hid)),
  i_install hs n rs = (hs', n', out) -> Forall (fun e : nat * iobj => fst e < n) hs ->
  let cr := filter (fun r : ref => match r with RM _ => false | _ => true end) rs in
  map (fun p : hkind * hid => lookup hs' (snd p)) out =
    map (fun r : ref => match r with RS c => Some (IS c) | RR c => Some (IR c) | RM _ => None end) cr /\
  map fst out = map (fun r : ref => match r with RS _ => KTx | _ => KRx end) cr /\
  map snd out = seq n (length out) /\
  length out = length cr /\ n' = n + length out /\ (forall x : nat, x < n -> lookup hs' x = lookup hs x).
Proof. exact IdealProofs.C04_install_positions. Qed.
Print Assumptions C04_install_positions.

(* BACKLOG over any number of hops: moving a receiver does not touch its channel's queue (the handle it was
   sent from is gone: IGone), and whoever unpacks it reads the pending messages oldest first *)
Theorem C04_backlog_first : forall (s : ist) (h : hid) (c : nat) (m : msg) (rest : list msg),
  lookup (ih s) h = Some (IR c) -> q (get_chan (ik s) c) = m :: rest ->
  exists hs : list (hkind * hid),
    snd (i_step s (ORecv h)) = RMsg (m_data m) hs /\ q (get_chan (ik (fst (i_step s (ORecv h)))) c) = rest.
Proof. exact C03_messages_first. Qed.
Print Assumptions C04_backlog_first.

(* non-vacuity: two hops with a backlog of two messages, sent before and between the hops *)
Example C04_ex :
  snd (i_run i_init [ONew; ONew; ONew; OSend 0 11 []; OSend 2 1 [ARx 1]; OSend 0 12 []; ORecv 3; OSend 4 2 [ARx 6]; ORecv 5; ORecv 7; ORecv 7; OSend 0 13 []; ORecv 7; ORecv 1])
  = [RNew 0 1; RNew 2 3; RNew 4 5; RSent; RSent; RSent; RMsg 1 [(KRx, 6)]; RSent; RMsg 2 [(KRx, 7)]; RMsg 11 []; RMsg 12 []; RSent; RMsg 13 []; RBad].
Proof. vm_compute. reflexivity. Qed.

(* ---- whole-API level (model: Api.v): a receiving end exists ONCE ---- *)
Module ApiLevel.
Import K Prog Ideal Api ApiProofs ApiInv ApiSelect ApiUnique.
Local Open Scope nat_scope.

(* after any program over the whole API (channels, regions, sets, servers, failing sends, undecodable messages) every receiving end
   is referenced at most once - by the process or by a message in flight: a receiver that was sent away is gone from the handle it
   was sent from, and whoever unpacks it holds the only one *)
Theorem C04_api_receiver_exists_once : forall ops c, refs (ak (fst (a_run a_init ops))) (RR c) <= 1.
Proof. intros ops c. exact (rr_once_run ops c). Qed.
Print Assumptions C04_api_receiver_exists_once.

Theorem C04_api_receivers_unique : forall ops c,
  count_occ ref_dec (ahandle_refs (ah (fst (a_run a_init ops)))) (RR c) <= 1.
Proof. exact receivers_unique. Qed.
Print Assumptions C04_api_receivers_unique.
End ApiLevel.
