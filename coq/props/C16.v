(* C16 — undecodable or mismatched payloads produce errors, not panics or leaks (model: Codec.v). *)
From Coq Require Import List Arith ZArith Bool Permutation.
From IPC Require Import Codec CodecProofs.
Import ListNotations.

(* the decoder has exactly two outcomes, for EVERY byte string, attachment table and expected type *)
Theorem C16_total : forall (fuel : nat) (t : ty) (bs : list byte) (st : dec_state),
  (exists r : val * list byte * dec_state, dec fuel t bs st = DOk r) \/ dec fuel t bs st = DErr.
Proof. exact dec_total. Qed.
Print Assumptions C16_total.

(* no forgery, no duplication, nothing lost: for arbitrary input, the endpoints inside a decoded value together
   with what is left in the message are exactly (as a multiset) the attachments of that message; same for regions.
   So an endpoint that was not attached is never produced, none is handed out twice, and everything that was
   not handed to the program is still in the message object, to be released with it. *)
Theorem C16_conservation : forall (t : ty) (bs : list byte) (chans regions : list nat) (v : val) (st' : dec_state),
  decode_msg t bs chans regions = DOk (v, st') ->
  Permutation (endpoints v ++ fst (leftovers st')) chans /\ Permutation (regions_of v ++ snd (leftovers st')) regions.
Proof. exact decode_msg_conserves. Qed.
Print Assumptions C16_conservation.

Theorem C16_conservation_any_state : forall (fuel : nat) (t : ty) (bs : list byte) (st : dec_state) (v : val) (rest : list byte) (st' : dec_state),
  dec fuel t bs st = DOk (v, rest, st') ->
  Permutation (endpoints v ++ fst (leftovers st')) (fst (leftovers st)) /\
  Permutation (regions_of v ++ snd (leftovers st')) (snd (leftovers st)) /\
  length (d_chans st') = length (d_chans st) /\ length (d_regions st') = length (d_regions st).
Proof. exact dec_conserves. Qed.
Print Assumptions C16_conservation_any_state.

(* non-vacuity: index out of range, index used twice, truncated input, bad UTF-8, unknown variant *)
Example C16_ex :
  decode_msg TSender [1;0;0;0;0;0;0;0] [7%nat] [] = DErr /\
  decode_msg (TTuple [TSender; TSender]) [0;0;0;0;0;0;0;0; 0;0;0;0;0;0;0;0] [7%nat] [] = DErr /\
  decode_msg (TTuple [TSender; TSender]) [1;0;0;0;0;0;0;0; 0;0;0;0;0;0;0;0] [7%nat; 8%nat] [] =
     DOk (VTuple [VSender 8; VSender 7], {| d_chans := [None; None]; d_regions := [] |}) /\
  decode_msg TU64 [1;2;3] [] [] = DErr /\
  decode_msg TString [2;0;0;0;0;0;0;0; 195; 40] [] [] = DErr /\
  decode_msg (TEnum [TUnit; TU8]) [2;0;0;0] [] [] = DErr.
Proof. vm_compute. repeat split. Qed.
