(* C19 — all transports give the same answers to the same single-process program.
   Unix = model of the OS transport (descriptors, Arc-shared senders, consumed receivers);
   Ideal = unbounded FIFO channels with counted handles, which is also the model of the in-process
   transport (crossbeam channels of whole messages: a handle is a reference). *)
From Coq Require Import List Arith ZArith Bool.
From IPC Require Import K KProofs Prog Ideal Unix RefineProofs.
From IPC Require K Prog Ideal Api ApiProofs ApiInv ApiConservative Timed TimedProofs.
Import ListNotations.

Theorem C19_unix_is_ideal : forall ops : list op, snd (u_run u_init ops) = snd (i_run i_init ops).
Proof. exact unix_refines_ideal. Qed.
Print Assumptions C19_unix_is_ideal.

(* step-wise: the simulation relation is re-established by every operation, with equal outcomes *)
Theorem C19_simulation : forall (u : ust) (i : ist) (o : op),
  R u i -> snd (u_step u o) = snd (i_step i o) /\ R (fst (u_step u o)) (fst (i_step i o)).
Proof. exact sim_step. Qed.
Print Assumptions C19_simulation.

Example C19_ex :
  let p := [ONew; ONew; OClone 0; OSend 4 1 [ARx 3; ATx 0]; ODrop 0; ORecv 1; OSend 6 2 []; ORecv 5; ODrop 4; ODrop 6; ORecv 5; ORecv 1] in
  snd (u_run u_init p) = snd (i_run i_init p) /\
  snd (i_run i_init p) = [RNew 0 1; RNew 2 3; RCloned 4; RSent; RDropped; RMsg 1 [(KRx, 5); (KTx, 6)]; RSent; REmpty; RDropped; RDropped; REmpty; RMsg 2 []].
Proof. vm_compute. split; reflexivity. Qed.

(* ---- the ideal model of the WHOLE single-process API (Api.v): the reference the three builds are compared with ---- *)
Module ApiLevel.
Import K Prog Ideal Api ApiProofs ApiInv ApiConservative.
Local Open Scope nat_scope.

(* every program keeps the ideal state well-formed: kernel core well-formed and stable, held references = handles, ids fresh *)
Theorem C19_api_invariant : forall ops, a_inv (fst (a_run a_init ops)).
Proof. exact a_inv_run. Qed.
Print Assumptions C19_api_invariant.

(* a region reads back what it was created from, whatever happens in between *)
Theorem C19_api_region_stable : forall ops s o v,
  nth_error (amem s) o = Some v -> nth_error (amem (fst (a_run s ops))) o = Some v.
Proof. exact region_content_stable. Qed.
Print Assumptions C19_api_region_stable.
(* the ideal channel model is the restriction of the whole-API model to channel programs (non-negative payloads: Api writes an
   undecodable message as a negative payload) ... *)
Theorem C19_api_conservative : forall ops, Forall op_nn ops ->
  snd (a_run a_init (map emb_op ops)) = map emb_out (snd (i_run i_init ops)).
Proof. exact api_conservative. Qed.
Print Assumptions C19_api_conservative.

(* ... hence the model of the OS transport (descriptors, Arc-shared senders, consumed receivers) answers every channel program
   exactly as the whole-API model does *)
Theorem C19_unix_is_api : forall ops, Forall op_nn ops ->
  map emb_out (snd (u_run u_init ops)) = snd (a_run a_init (map emb_op ops)).
Proof. intros ops H. rewrite unix_refines_ideal. symmetry. now apply api_conservative. Qed.
Print Assumptions C19_unix_is_api.

(* a client that connected and went away without sending a message (no reference to the sending end left anywhere, nothing queued):
   accept neither blocks nor panics - it reports 'disconnected', the server is consumed, its receiving end released, and the
   invariant (hence: nothing stays behind once the remaining handles are dropped) goes on holding.  This is what every transport
   has to answer; the in-process one did not before the twelfth fix *)
Theorem C19_api_accept_departed_client : forall s sh c, a_inv s ->
  lookup (ah s) sh = Some (OSrv c true) -> q (get_chan (ak s) c) = [] -> refs (ak s) (RS c) = 0 ->
  snd (a_step s (AAccept sh)) = QDisconnected /\
  lookup (ah (fst (a_step s (AAccept sh)))) sh = Some OGone /\
  ak (fst (a_step s (AAccept sh))) = k_close (ak s) (RR c) /\
  a_inv (fst (a_step s (AAccept sh))).
Proof. exact accept_of_a_departed_client. Qed.
Print Assumptions C19_api_accept_departed_client.
End ApiLevel.

(* ---- the three receive variants on the two transports (model: Timed.recv_first for the OS transport, Timed.inproc_recv for the
   in-process one): the same answer in every queue state, for every event during a wait and every timeout the OS transport can
   express ---- *)
Module Receives.
Import Timed TimedProofs.
Local Open Scope Z_scope.
Theorem C19_receive_variants_agree : forall m q d,
  (forall us, m = MTimeout us -> poll_arg us <> -1) ->
  inproc_recv m q d = fst (fst (recv_first m q d false)).
Proof. exact transports_agree. Qed.
Print Assumptions C19_receive_variants_agree.
Theorem C19_inproc_dead_is_disconnected : forall m d, inproc_recv m QDead d = ODisconnected.
Proof. exact inproc_dead_is_disconnected. Qed.
Print Assumptions C19_inproc_dead_is_disconnected.
End Receives.
