(* C19 — all transports give the same answers to the same single-process program.
   Unix = model of the OS transport (descriptors, Arc-shared senders, consumed receivers);
   Ideal = unbounded FIFO channels with counted handles, which is also the model of the in-process
   transport (crossbeam channels of whole messages: a handle is a reference). *)
From Coq Require Import List Arith ZArith Bool.
From IPC Require Import K KProofs Prog Ideal Unix RefineProofs.
Import ListNotations.

Theorem C19_unix_is_ideal : forall ops : list op, snd (u_run u_init ops) = snd (i_run i_init ops).
Proof. exact unix_refines_ideal. Qed.
Print Assumptions C19_unix_is_ideal.

(* step-wise: the simulation relation is re-established by every operation, with equal outcomes *)
Theorem C19_simulation : forall (u : ust) (i : ist) (o : op),
  R u i -> snd (u_step u o) = snd (i_step i o) /\ R (fst (u_step u o)) (fst (i_step i o)).
Proof. exact sim_step. Qed.
Print Assumptions C19_simulation.

Example C19_ex :
  let p := [ONew; ONew; OClone 0; OSend 4 1 [ARx 3; ATx 0]; ODrop 0; ORecv 1; OSend 6 2 []; ORecv 5; ODrop 4; ODrop 6; ORecv 5; ORecv 1] in
  snd (u_run u_init p) = snd (i_run i_init p) /\
  snd (i_run i_init p) = [RNew 0 1; RNew 2 3; RCloned 4; RSent; RDropped; RMsg 1 [(KRx, 5); (KTx, 6)]; RSent; REmpty; RDropped; RDropped; REmpty; RMsg 2 []].
Proof. vm_compute. split; reflexivity. Qed.
