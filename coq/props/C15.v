(* C15 — messages with too many attachments are refused, not mangled. *)
From Coq Require Import ZArith List Lia.
From IPC Require Import U64 Params Frag ParamsFacts FragProofs FragMore.
Import ListNotations.
Open Scope Z_scope.

(* without faults send succeeds exactly when the attachments (plus the dedicated fragment channel,
   if the data does not fit one packet) fit the receiver's control buffer; otherwise it is refused
   with the too-many error and nothing at all has been transmitted *)
Theorem C15_accept_iff : forall fuel Ss len nfds,
  48 <= Ss < 2 ^ 62 -> 0 <= len < 2 ^ 62 -> 0 <= nfds -> (Z.to_nat len < fuel)%nat ->
  (fst (send fuel Ss len nfds []) = Ok <-> nfds + (if len <=? ffs Ss then 0 else 1) <= MAX_FDS_IN_CMSG) /\
  (fst (send fuel Ss len nfds []) <> Ok -> send fuel Ss len nfds [] = (ErrTooMany, [])).
Proof. exact too_many_iff. Qed.
Print Assumptions C15_accept_iff.

(* under any fault oracle: a too-many refusal has queued nothing (the channel is as before) *)
Theorem C15_refused_early : forall fuel Ss len nfds faults evs,
  send fuel Ss len nfds faults = (ErrTooMany, evs) ->
  48 <= Ss < 2 ^ 62 -> 0 <= len < 2 ^ 62 -> 0 <= nfds ->
  shared_pkts evs = [] /\ ded_pkts evs = [] /\ MAX_FDS_IN_CMSG < nfds + 1.
Proof. exact too_many_nothing_queued. Qed.
Print Assumptions C15_refused_early.

(* whatever send accepts arrives with all of its attachments *)
Theorem C15_accepted_complete : forall fuel Ss Sr len nfds faults evs,
  send fuel Ss len nfds faults = (Ok, evs) ->
  48 <= Ss <= Sr -> Sr < 2 ^ 62 -> 0 <= len < 2 ^ 62 -> 0 <= nfds ->
  delivered_exactly Sr len nfds evs.
Proof.
  intros fuel Ss Sr len nfds faults evs H HS HSr Hlen Hn.
  exact (proj2 (proj2 (proj2 (proj2 (send_correct _ _ _ _ _ _ _ _ H HS HSr Hlen Hn)))) eq_refl).
Qed.
Print Assumptions C15_accepted_complete.

(* the two guards of the model are the guards of the source (GENERATED from the conditions in send()): without the
   dedicated fragment channel, and with it counted in *)
Theorem C15_guards_tied : forall nfds, 0 <= nfds < 2 ^ 62 ->
  send_too_many nfds = (MAX_FDS_IN_CMSG <? nfds) /\ send_too_many_frag nfds = (MAX_FDS_IN_CMSG <? nfds + 1).
Proof. intros nfds H. split; [apply send_too_many_eq|apply send_too_many_frag_eq; exact H]. Qed.
Print Assumptions C15_guards_tied.

(* non-vacuity and the reason the guard is needed: the kernel model cuts a 65-descriptor control
   message to 64 (what the unguarded code did); the guarded send refuses 65, and 64 when it must fragment *)
Example C15_ex :
  recv 10 4096 {| fp_total := 10; fp_lo := 0; fp_hi := 10; fp_rights := 65; fp_ded := false |} [] = RMsg [(0, 10)] 64 [] /\
  fst (send 10 4096 10 64 []) = Ok /\ fst (send 10 4096 10 65 []) = ErrTooMany /\
  fst (send 10 4096 5000 63 []) = Ok /\ send 10 4096 5000 64 [] = (ErrTooMany, []) /\
  send 10 4096 3000 64 [FNoBufs] = (ErrTooMany, [EvSendmsg 3000 0 3000 64 false SNoBufs]).
Proof. vm_compute. repeat split. Qed.

(* a value may embed more regions than one OS message carries (the in-process transport has no limit): the marker written for a
   region WITHOUT data must therefore be no possible index at all - not merely one beyond the OS limit.  The marker is GENERATED from
   the source (what Serialize writes and Deserialize tests, constants resolved); no collection in memory has 2^63 elements *)
Theorem C15_empty_marker_is_no_index : forall i, 0 <= i < 2 ^ 63 -> i <> EMPTY_REGION_SENTINEL.
Proof. intros i H E. subst i. unfold EMPTY_REGION_SENTINEL in H. vm_compute in H. destruct H as [_ H]. discriminate H. Qed.
Print Assumptions C15_empty_marker_is_no_index.
