(* C12 — a sender crashing mid-send cannot corrupt a message or falsely close a channel.
   Crash LTS: any number of senders/messages, LCrash at ANY point of ANY schedule. *)
From Coq Require Import List Lia.
From IPC Require Import Crash CrashProofs.
Import ListNotations.

(* every delivered payload is the whole data of a message that was not abandoned, in order; messages of
   other senders are unaffected; an abandoned message is delivered not at all - never shortened or mixed *)
Theorem C12_delivered : forall (A : Type) (ls : list (@label A)) (s : @sys A),
  Forall wf_label ls -> run init ls = Some s ->
  exists k, k <= length (lin s) /\ delivered s = survivors s (firstn k (lin s)).
Proof. intros A. exact crash_delivered. Qed.
Print Assumptions C12_delivered.

(* every message whose send completed is delivered once things have settled *)
Theorem C12_complete : forall (A : Type) (ls : list (@label A)) (s : @sys A),
  Forall wf_label ls -> run init ls = Some s -> quiescent s -> delivered s = survivors s (lin s).
Proof. intros A. exact crash_quiescent_complete. Qed.
Print Assumptions C12_complete.

(* the receiver does not wait for ever in the middle of a reassembly *)
Theorem C12_never_stuck : forall (A : Type) (ls : list (@label A)) (s : @sys A) (r : @rstate A),
  Forall wf_label ls -> run init ls = Some s -> rcv s = Some r ->
  (exists s', step s LRFollow = Some s') \/ (exists s', step s LRSkip = Some s') \/
  (exists s', step s (LFollow (r_mid r)) = Some s').
Proof. intros A. exact crash_receiver_never_stuck. Qed.
Print Assumptions C12_never_stuck.

(* a partial message is discarded only if its sender really died mid-send, and discarding is not a closure:
   LRSkip leaves the shared queue and every other message untouched (see the definition of step) *)
Theorem C12_skip_only_aborted : forall (A : Type) (ls : list (@label A)) (s : @sys A) (r : @rstate A) (s' : @sys A),
  Forall wf_label ls -> run init ls = Some s -> rcv s = Some r -> step s LRSkip = Some s' ->
  is_aborted s (r_mid r) = true.
Proof. intros A. exact crash_skip_only_aborted. Qed.
Print Assumptions C12_skip_only_aborted.

Theorem C12_aborted_unfinished : forall (A : Type) (ls : list (@label A)) (s : @sys A) (m : mid),
  Forall wf_label ls -> run init ls = Some s -> is_aborted s m = true ->
  In m (map fst (lin s)) /\ tosend s m = [].
Proof. intros A. exact crash_aborted_unfinished. Qed.
Print Assumptions C12_aborted_unfinished.

(* non-vacuity: sender of a 3-packet message dies after one follow-up; a later message still arrives *)
Example C12_ex :
  let p1 := {| p_first := [1]; p_rest := [[2]; [3]] |} in
  let p2 := {| p_first := [9]; p_rest := [] |} in
  option_map (@delivered nat) (run init [LStart p1; LFollow 0; LCrash 0; LStart p2; LRFirst; LRFollow; LRSkip; LRFirst])
    = Some [[9]].
Proof. vm_compute. reflexivity. Qed.
