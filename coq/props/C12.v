(* C12 — a sender crashing mid-send cannot corrupt a message or falsely close a channel.
   Crash LTS: any number of senders/messages, LCrash at ANY point of ANY schedule. *)
From Coq Require Import List Lia.
From IPC Require Import Crash CrashProofs.
From IPC Require RSet CrashLink.
Import ListNotations.

(* every delivered payload is the whole data of a message that was not abandoned, in order; messages of
   other senders are unaffected; an abandoned message is delivered not at all - never shortened or mixed *)
Theorem C12_delivered : forall (A : Type) (ls : list (@label A)) (s : @sys A),
  Forall wf_label ls -> run init ls = Some s ->
  exists k, k <= length (lin s) /\ delivered s = survivors s (firstn k (lin s)).
Proof. intros A. exact crash_delivered. Qed.
Print Assumptions C12_delivered.

(* every message whose send completed is delivered once things have settled *)
Theorem C12_complete : forall (A : Type) (ls : list (@label A)) (s : @sys A),
  Forall wf_label ls -> run init ls = Some s -> quiescent s -> delivered s = survivors s (lin s).
Proof. intros A. exact crash_quiescent_complete. Qed.
Print Assumptions C12_complete.

(* the receiver does not wait for ever in the middle of a reassembly *)
Theorem C12_never_stuck : forall (A : Type) (ls : list (@label A)) (s : @sys A) (r : @rstate A),
  Forall wf_label ls -> run init ls = Some s -> rcv s = Some r ->
  (exists s', step s LRFollow = Some s') \/ (exists s', step s LRSkip = Some s') \/
  (exists s', step s (LFollow (r_mid r)) = Some s').
Proof. intros A. exact crash_receiver_never_stuck. Qed.
Print Assumptions C12_never_stuck.

(* a partial message is discarded only if its sender really died mid-send, and discarding is not a closure:
   LRSkip leaves the shared queue and every other message untouched (see the definition of step) *)
Theorem C12_skip_only_aborted : forall (A : Type) (ls : list (@label A)) (s : @sys A) (r : @rstate A) (s' : @sys A),
  Forall wf_label ls -> run init ls = Some s -> rcv s = Some r -> step s LRSkip = Some s' ->
  is_aborted s (r_mid r) = true.
Proof. intros A. exact crash_skip_only_aborted. Qed.
Print Assumptions C12_skip_only_aborted.

Theorem C12_aborted_unfinished : forall (A : Type) (ls : list (@label A)) (s : @sys A) (m : mid),
  Forall wf_label ls -> run init ls = Some s -> is_aborted s m = true ->
  In m (map fst (lin s)) /\ tosend s m = [].
Proof. intros A. exact crash_aborted_unfinished. Qed.
Print Assumptions C12_aborted_unfinished.

(* non-vacuity: sender of a 3-packet message dies after one follow-up; a later message still arrives *)
Example C12_ex :
  let p1 := {| p_first := [1]; p_rest := [[2]; [3]] |} in
  let p2 := {| p_first := [9]; p_rest := [] |} in
  option_map (@delivered nat) (run init [LStart p1; LFollow 0; LCrash 0; LStart p2; LRFirst; LRFollow; LRSkip; LRFirst])
    = Some [[9]].
Proof. vm_compute. reflexivity. Qed.

(* ---- link with the receiver-set and timed-receive models: their parameter `tornp` ("the remains of a crashed sender's send") is
   this model's ghost `is_aborted`: what is delivered once things have settled is, id for id, what RSet reports for a member whose
   queue saw the linearised messages (C06_events_fifo: good tornp sent), and a receive that skips the torn head skips aborted
   messages only ---- *)
Theorem C12_delivered_are_the_untorn : forall (A : Type) (ls : list (@label A)) (s : @sys A),
  Forall wf_label ls -> run init ls = Some s -> quiescent s ->
  delivered s = map snd (filter (fun d => negb (is_aborted s (fst d))) (lin s)) /\
  map fst (filter (fun d => negb (is_aborted s (fst d))) (lin s)) = RSet.good (is_aborted s) (map fst (lin s)).
Proof.
  intros A ls s W R Q. split; [exact (crash_quiescent_complete ls s W R Q)|apply CrashLink.survivors_ids].
Qed.
Print Assumptions C12_delivered_are_the_untorn.
Theorem C12_skipping_drops_aborted_only : forall (A : Type) (s : @sys A) (ids : list nat),
  RSet.good (is_aborted s) (RSet.strip (is_aborted s) ids) = RSet.good (is_aborted s) ids.
Proof. intros A. exact CrashLink.strip_aborted. Qed.
Print Assumptions C12_skipping_drops_aborted_only.
