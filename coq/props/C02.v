(* C02 — messages are delivered exactly once, whole, and in the order they were sent,
   under EVERY interleaving of any number of senders, messages and packets (scheduler = arbitrary label list). *)
From Coq Require Import ZArith List Lia.
From IPC Require Import Conc ConcProofs ConcMore Frag ConcLink.
Import ListNotations.

(* whole, unmixed, in linearisation order: what the receiver has returned so far is, message by message,
   the data of the first messages whose first packet entered the shared queue *)
Theorem C02_safety : forall (A : Type) (ls : list (@label A)) (s : @sys A),
  Forall wf_label ls -> run init ls = Some s ->
  delivered s = map snd (firstn (length (delivered s)) (lin s)).
Proof. intros A. exact delivered_prefix. Qed.
Print Assumptions C02_safety.

(* exactly once: linearised messages have pairwise distinct ids, and every delivered payload is one of them *)
Theorem C02_once : forall (A : Type) (ls : list (@label A)) (s : @sys A),
  Forall wf_label ls -> run init ls = Some s ->
  NoDup (map fst (lin s)) /\ forall d, In d (delivered s) -> In d (map snd (lin s)).
Proof. intros A ls s W R. split; [exact (ids_distinct ls s W R)|intros d; exact (delivered_whole ls s d W R)]. Qed.
Print Assumptions C02_once.

(* nothing is lost *)
Theorem C02_complete : forall (A : Type) (ls : list (@label A)) (s : @sys A),
  Forall wf_label ls -> run init ls = Some s -> quiescent s -> delivered s = map snd (lin s).
Proof. intros A. exact quiescent_complete. Qed.
Print Assumptions C02_complete.

(* no deadlock (without crashes): unless everything is delivered, some step is enabled *)
Theorem C02_progress : forall (A : Type) (ls : list (@label A)) (s : @sys A),
  Forall wf_label ls -> run init ls = Some s -> ~ quiescent s ->
  (exists s', step s LRFirst = Some s') \/ (exists s', step s LRFollow = Some s') \/
  (exists m s', step s (LFollow m) = Some s').
Proof. intros A. exact progress. Qed.
Print Assumptions C02_progress.

(* the link to the library: what one successful send() queues IS such a message - its first packet and its
   non-empty follow-up chunks concatenate to the data, for every length, buffer size and fault oracle *)
Theorem C02_send_is_a_message : forall (A : Type) (data : list A) fuel Ss nfds faults evs,
  (48 <= Ss < 2 ^ 62)%Z -> (Z.of_nat (length data) < 2 ^ 62)%Z -> (0 <= nfds)%Z ->
  send fuel Ss (Z.of_nat (length data)) nfds faults = (Ok, evs) ->
  pdata (plan_of data evs) = data /\ wf_label (LStart (plan_of data evs)).
Proof. intros A. exact send_is_a_plan. Qed.
Print Assumptions C02_send_is_a_message.

(* non-vacuity: two senders, a 3-packet and a 1-packet message, follow-ups overtaken by the other first packet *)
Example C02_ex :
  let p1 := {| p_first := [1]; p_rest := [[2]; [3]] |} in
  let p2 := {| p_first := [9]; p_rest := [] |} in
  option_map (@delivered _) (run init [LStart p1; LFollow 0%nat; LStart p2; LRFirst; LRFollow; LFollow 0%nat; LRFollow; LRFirst])
    = Some [[1; 2; 3]; [9]].
Proof. vm_compute. reflexivity. Qed.
