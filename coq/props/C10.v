(* C10 — non-blocking and timed receives never block, miss a message, or poison (model: Timed.v). *)
From Coq Require Import ZArith List Bool.
From IPC Require Import U64 Params Timed TimedProofs ErrMap ErrMapProofs.
Import ListNotations.
Open Scope Z_scope.

(* neither call changes later behaviour: after ANY sequence of recv / try_recv / try_recv_timeout calls with any
   results the description is in blocking mode again, so a blocking receive issued afterwards blocks until a
   message arrives instead of failing with EAGAIN *)
Theorem C10_flag : forall ops, snd (run false ops) = false.
Proof. exact flag_restored_run. Qed.
Print Assumptions C10_flag.
Theorem C10_blocking_after_any : forall ops q, fst (fst (recv_first MBlocking q None (snd (run false ops)))) = read q false.
Proof. exact blocking_after_any. Qed.
Print Assumptions C10_blocking_after_any.

(* try_recv: message / empty / disconnected by the state of the channel, and it never blocks *)
Theorem C10_table : forall q d f,
  fst (fst (recv_first MNonblocking q d f)) = match q with QMsg => OMsg | QIdle => OEmpty | QDead => ODisconnected end.
Proof. exact try_recv_table. Qed.
Print Assumptions C10_table.
Theorem C10_try_recv_never_blocks : forall q d f, fst (fst (recv_first MNonblocking q d f)) <> OBlocked.
Proof. exact try_recv_never_blocks. Qed.
Print Assumptions C10_try_recv_never_blocks.

(* try_recv_timeout: 'empty' only after poll reported a full timeout of floor(duration) milliseconds with nothing
   arriving; a message or the disconnection during the wait ends it early with that result *)
Theorem C10_timeout_empty : forall us q d f o cs f',
  recv_first (MTimeout us) q d f = (o, cs, f') -> o = OEmpty ->
  cs = [CPoll (poll_arg us) false] /\ q = QIdle /\ (d = None \/ d = Some QIdle).
Proof. exact timeout_empty_only_after_full_wait. Qed.
Print Assumptions C10_timeout_empty.
Theorem C10_timeout_early : forall us x f, x <> QIdle ->
  fst (fst (recv_first (MTimeout us) QIdle (Some x) false)) = match x with QMsg => OMsg | _ => ODisconnected end /\
  fst (fst (recv_first (MTimeout us) x None f)) = read x f.
Proof. exact timeout_early_on_event. Qed.
Print Assumptions C10_timeout_early.
Theorem C10_timeout_arg : forall us, 0 <= us -> us / 1000 < 2 ^ 31 ->
  poll_arg us = us / 1000 /\ 1000 * poll_arg us <= us < 1000 * (poll_arg us + 1).
Proof. exact poll_arg_floor. Qed.
Print Assumptions C10_timeout_arg.
Theorem C10_timeout_arg_overflow : forall us, 2 ^ 31 <= us / 1000 -> poll_arg us = -1.
Proof. exact poll_arg_overflow. Qed.
Print Assumptions C10_timeout_arg_overflow.

Example C10_ex :
  run false [(MNonblocking, QIdle, None); (MTimeout 900, QIdle, None); (MTimeout 50000, QIdle, Some QMsg); (MBlocking, QMsg, None); (MNonblocking, QDead, None)]
  = ([OEmpty; OEmpty; OMsg; OMsg; ODisconnected],
     [CSetfl true; CRecvmsg true; CSetfl false; CPoll 0 false; CPoll 50 true; CRecvmsg false; CRecvmsg false; CSetfl true; CRecvmsg true; CSetfl false], false).
Proof. vm_compute. reflexivity. Qed.

(* ---- unfinished messages of a crashed sender at the head of the queue: the loop of recv() discards them and tries again in the
   SAME mode (Timed.recv_all) ---- *)
Theorem C10_torn_messages_invisible : forall m torn q d,
  fst (fst (recv_all m torn q d false)) = fst (fst (recv_first m q d false)) /\ snd (recv_all m torn q d false) = false.
Proof. exact torn_messages_invisible. Qed.
Print Assumptions C10_torn_messages_invisible.

Theorem C10_torn_try_recv : forall torn q d,
  fst (fst (recv_all MNonblocking torn q d false)) = match q with QMsg => OMsg | QIdle => OEmpty | QDead => ODisconnected end.
Proof. exact torn_try_recv. Qed.
Print Assumptions C10_torn_try_recv.

(* a timed receive behind any number of torn messages reports 'empty' only after a poll with its full timeout found nothing *)
Theorem C10_torn_timeout_full_wait : forall us torn q d o cs f',
  recv_all (MTimeout us) torn q d false = (o, cs, f') -> o = OEmpty ->
  exists pre, cs = pre ++ [CPoll (poll_arg us) false] /\ q = QIdle /\ (d = None \/ d = Some QIdle).
Proof. exact torn_timeout_full_wait. Qed.
Print Assumptions C10_torn_timeout_full_wait.

Theorem C10_torn_calls : forall m torn q d,
  snd (fst (recv_all m torn q d false)) =
  concat (repeat (snd (fst (recv_first m QMsg None false))) torn) ++ snd (fst (recv_first m q d false)).
Proof. exact torn_calls. Qed.
Print Assumptions C10_torn_calls.

(* ---- a signal (with a handler) arriving while a timed receive waits: the wait ends with an I/O error, not with 'empty' ---- *)
Theorem C10_sig_conservative : forall m q d f,
  recv_first_sig m q d false f = (let '(o, cs, f') := recv_first m q d f in (SOut o, map SCall cs, f')).
Proof. exact sig_conservative. Qed.
Print Assumptions C10_sig_conservative.
Theorem C10_sig_flag : forall ops, snd (run_sig false ops) = false.
Proof. exact sig_flag_restored_run. Qed.
Print Assumptions C10_sig_flag.
Theorem C10_sig_interrupted_wait : forall us d f,
  recv_first_sig (MTimeout us) QIdle d true f = (SInterrupted, [SPollIntr (poll_arg us)], f).
Proof. exact sig_interrupted_wait. Qed.
Print Assumptions C10_sig_interrupted_wait.
Theorem C10_sig_empty_only_after_full_wait : forall us q d i f cs f',
  recv_first_sig (MTimeout us) q d i f = (SOut OEmpty, cs, f') ->
  cs = [SCall (CPoll (poll_arg us) false)] /\ q = QIdle /\ i = false /\ (d = None \/ d = Some QIdle).
Proof. exact sig_empty_only_after_full_wait. Qed.
Print Assumptions C10_sig_empty_only_after_full_wait.

(* ---- what the calls REPORT: the conversions of the back end's error into the public result are GENERATED from the source
   (gen/Params: the try_recv_class and recv_class definitions); 'empty' is said for EAGAIN and for nothing else, 'disconnected' for a closed channel
   and for nothing else - so the public results are exactly the model's outcomes, and an interrupted wait is an I/O error ---- *)
Theorem C10_empty_iff_eagain : forall code, try_recv_class_errno code = 0 <-> code = EAGAIN.
Proof. exact try_empty_iff_eagain. Qed.
Print Assumptions C10_empty_iff_eagain.
Theorem C10_disconnected_iff_closed : forall e, class_try e = 1 <-> e = UClosed.
Proof. exact try_disconnected_iff_closed. Qed.
Print Assumptions C10_disconnected_iff_closed.
Theorem C10_reported_faithful : forall o,
  (reported_try o = Some 0 <-> o = SOut OEmpty) /\ (reported_try o = Some 1 <-> o = SOut ODisconnected) /\
  (o = SInterrupted -> reported_try o = Some 2).
Proof. exact reported_try_faithful. Qed.
Print Assumptions C10_reported_faithful.
Theorem C10_blocking_recv_reported : forall o,
  (reported_recv o = Some 1 <-> o = SOut ODisconnected) /\ reported_recv o <> Some 0.
Proof. exact reported_recv_faithful. Qed.
Print Assumptions C10_blocking_recv_reported.

(* ---- the in-process transport (Timed.inproc_recv; crossbeam's semantics trusted): same outcome table as the OS transport, and
   'disconnected' for a drained channel without senders whatever the timeout - zero and sub-millisecond durations included ---- *)
Theorem C10_inproc_agrees : forall m q d,
  (forall us, m = MTimeout us -> poll_arg us <> -1) ->
  inproc_recv m q d = fst (fst (recv_first m q d false)).
Proof. exact transports_agree. Qed.
Print Assumptions C10_inproc_agrees.
Theorem C10_inproc_dead_is_disconnected : forall m d, inproc_recv m QDead d = ODisconnected.
Proof. exact inproc_dead_is_disconnected. Qed.
Print Assumptions C10_inproc_dead_is_disconnected.
