(* C06 — a receiver set reports every event of every member exactly once (model: RSet.v, an LTS over an
   edge-triggered epoll ready list with concurrent senders; scheduler = arbitrary label list). *)
From Coq Require Import List Arith Bool ZArith.
From IPC Require Import U64 Params RSet RSetProofs.
Import ListNotations.

(* the batch capacity of the model is the one in the source (GENERATED constant) *)
Theorem C06_capacity_tied : Z.of_nat CAP = EVENTS_CAPACITY.
Proof. reflexivity. Qed.
Print Assumptions C06_capacity_tied.

(* no lost wake-up: a member that owes a message or a closure is always in the ready list or still to be
   drained in the current batch - any interleaving, any number of ready members, adds with traffic queued, EINTR *)
Theorem C06_no_lost_wakeup : forall ls s, run init ls = Some s ->
  forall m c, In (m, c) (members s) -> pending s c = true ->
  In m (ready s) \/ (exists batch acc, where_ s = Draining batch acc /\ In m batch).
Proof. exact no_lost_wakeup. Qed.
Print Assumptions C06_no_lost_wakeup.

(* so select does not go on blocking while something is pending *)
Theorem C06_select_does_not_block : forall ls s, run init ls = Some s -> where_ s = Waiting ->
  (exists m c, In (m, c) (members s) /\ pending s c = true) -> exists s', step s LWait = Some s'.
Proof. exact select_does_not_block. Qed.
Print Assumptions C06_select_does_not_block.

(* every message of a member's channel (queued before the add included) exactly once, with its id, in send order *)
Theorem C06_events_fifo : forall ls s m c, run init ls = Some s -> In (m, c) (ever s) ->
  msgs_of (events_of s m) ++ queue (get s c) = sent (get s c).
Proof. exact events_fifo. Qed.
Print Assumptions C06_events_fifo.

(* exactly one closed event per member, after all of its messages, only when the channel is disconnected and drained *)
Theorem C06_closed_once_last : forall ls s m c, run init ls = Some s -> In (m, c) (ever s) ->
  In (EvClosed m) (events_of s m) ->
  (exists pre, events_of s m = pre ++ [EvClosed m] /\ ~ In (EvClosed m) pre) /\
  queue (get s c) = [] /\ hup (get s c) = true /\ ~ In (m, c) (members s).
Proof. exact closed_once_last. Qed.
Print Assumptions C06_closed_once_last.

(* ids of members are pairwise distinct (also over time) *)
Theorem C06_ids_distinct : forall ls s, run init ls = Some s ->
  NoDup (map fst (ever s)) /\ (forall m c, In (m, c) (members s) -> In (m, c) (ever s)) /\ NoDup (map snd (ever s)).
Proof. exact ids_distinct. Qed.
Print Assumptions C06_ids_distinct.

(* an interrupted wait changes nothing; the "unknown token" expect never fires *)
Theorem C06_eintr_noop : forall s s', step s LWaitEintr = Some s' -> s' = s.
Proof. exact eintr_is_noop. Qed.
Print Assumptions C06_eintr_noop.
Theorem C06_member_known : forall ls s m rest acc, run init ls = Some s -> where_ s = Draining (m :: rest) acc ->
  exists c, lookup (members s) m = Some c.
Proof. exact recv_knows_its_member. Qed.
Print Assumptions C06_member_known.

(* non-vacuity: 12 members become ready before the first select: two batches (10 + 2), everything reported *)
Example C06_ex :
  let pre := repeat LNewChan 12 ++ map (fun c => LSend c c) (seq 0 12) ++ map LAdd (seq 0 12) in
  option_map (fun s => (length (log s), ready s))
    (match run init (pre ++ [LSelect; LWait] ++ repeat LRecv 20 ++ [LReturn; LSelect; LWait] ++ repeat LRecv 4 ++ [LReturn]) with
     | Some s => Some s | None => None end)
  = Some (12%nat, []).
Proof. vm_compute. reflexivity. Qed.
