(* C06 — a receiver set reports every event of every member exactly once (model: RSet.v, an LTS over an
   edge-triggered epoll ready list with concurrent senders; scheduler = arbitrary label list). *)
From Coq Require Import List Arith Bool ZArith.
From IPC Require Import U64 Params RSet RSetProofs.
From IPC Require K Prog Ideal Api ApiProofs ApiInv ApiSelect ApiUnique InprocSet InprocSetProofs.
Import ListNotations.

(* the batch capacity of the model is the one in the source (GENERATED constant) *)
Theorem C06_capacity_tied : Z.of_nat CAP = EVENTS_CAPACITY.
Proof. reflexivity. Qed.
Print Assumptions C06_capacity_tied.

(* In all statements `tornp` says which messages were left unfinished by a sender that died inside a multi-fragment send (their
   first fragment is queued, the rest never comes): the theorems hold for every such choice, together with every interleaving. *)

(* no lost wake-up: a member that owes a message or a closure (or merely holds the remains of a crashed sender's message) is always
   in the ready list or still to be drained in the current batch - any interleaving, any number of ready members, adds with traffic
   queued, EINTR *)
Theorem C06_no_lost_wakeup : forall tornp ls s, run tornp init ls = Some s ->
  forall m c, In (m, c) (members s) -> pending s c = true ->
  In m (ready s) \/ (exists batch acc, where_ s = Draining batch acc /\ In m batch).
Proof. exact no_lost_wakeup. Qed.
Print Assumptions C06_no_lost_wakeup.

(* so select does not go on blocking while something is pending *)
Theorem C06_select_does_not_block : forall tornp ls s, run tornp init ls = Some s -> where_ s = Waiting ->
  (exists m c, In (m, c) (members s) /\ pending s c = true) -> exists s', step tornp s LWait = Some s'.
Proof. exact select_does_not_block. Qed.
Print Assumptions C06_select_does_not_block.

(* every complete message of a member's channel (queued before the add included) exactly once, with its id, in send order; the
   unfinished ones never *)
Theorem C06_events_fifo : forall tornp ls s m c, run tornp init ls = Some s -> In (m, c) (ever s) ->
  msgs_of (events_of s m) ++ good tornp (queue (get s c)) = good tornp (sent (get s c)).
Proof. exact events_fifo. Qed.
Print Assumptions C06_events_fifo.
Theorem C06_events_fifo_no_crash : forall ls s m c, run (fun _ => false) init ls = Some s -> In (m, c) (ever s) ->
  msgs_of (events_of s m) ++ queue (get s c) = sent (get s c).
Proof. exact events_fifo_plain. Qed.
Print Assumptions C06_events_fifo_no_crash.
Theorem C06_torn_invisible : forall tornp ls s m x, run tornp init ls = Some s -> In (EvMsg m x) (log s ++ acc_of s) -> tornp x = false.
Proof. exact torn_invisible. Qed.
Print Assumptions C06_torn_invisible.

(* one non-blocking receive on the member at the head of the batch, with unfinished messages of a dead sender at the head of its
   queue: the first complete message behind them is reported; with none behind them the closure is reported BY THE SAME CALL when
   no sender is left, and otherwise the batch moves on *)
Theorem C06_recv_skips_torn : forall tornp s m rest acc c, where_ s = Draining (m :: rest) acc -> lookup (members s) m = Some c ->
  exists s', step tornp s LRecv = Some s' /\
    match strip tornp (queue (get s c)) with
    | x :: q' => where_ s' = Draining (m :: rest) (acc ++ [EvMsg m x]) /\ tornp x = false
    | [] => if hup (get s c) then where_ s' = Draining rest (acc ++ [EvClosed m])
            else where_ s' = Draining rest acc
    end.
Proof. exact recv_skips_torn. Qed.
Print Assumptions C06_recv_skips_torn.

(* exactly one closed event per member, after all of its messages, only when the channel is disconnected and drained *)
Theorem C06_closed_once_last : forall tornp ls s m c, run tornp init ls = Some s -> In (m, c) (ever s) ->
  In (EvClosed m) (events_of s m) ->
  (exists pre, events_of s m = pre ++ [EvClosed m] /\ ~ In (EvClosed m) pre) /\
  queue (get s c) = [] /\ hup (get s c) = true /\ ~ In (m, c) (members s).
Proof. exact closed_once_last. Qed.
Print Assumptions C06_closed_once_last.

(* ids of members are pairwise distinct (also over time) *)
Theorem C06_ids_distinct : forall tornp ls s, run tornp init ls = Some s ->
  NoDup (map fst (ever s)) /\ (forall m c, In (m, c) (members s) -> In (m, c) (ever s)) /\ NoDup (map snd (ever s)).
Proof. exact ids_distinct. Qed.
Print Assumptions C06_ids_distinct.

(* an interrupted wait changes nothing; the "unknown token" expect never fires *)
Theorem C06_eintr_noop : forall tornp s s', step tornp s LWaitEintr = Some s' -> s' = s.
Proof. exact eintr_is_noop. Qed.
Print Assumptions C06_eintr_noop.
Theorem C06_member_known : forall tornp ls s m rest acc, run tornp init ls = Some s -> where_ s = Draining (m :: rest) acc ->
  exists c, lookup (members s) m = Some c.
Proof. exact recv_knows_its_member. Qed.
Print Assumptions C06_member_known.

(* non-vacuity: 12 members become ready before the first select: two batches (10 + 2), everything reported *)
Example C06_ex :
  let pre := repeat LNewChan 12 ++ map (fun c => LSend c c) (seq 0 12) ++ map LAdd (seq 0 12) in
  option_map (fun s => (length (log s), ready s))
    (match run (fun _ => false) init (pre ++ [LSelect; LWait] ++ repeat LRecv 20 ++ [LReturn; LSelect; LWait] ++ repeat LRecv 4 ++ [LReturn]) with
     | Some s => Some s | None => None end)
  = Some (12%nat, []).
Proof. vm_compute. reflexivity. Qed.
(* ... and a member whose only sender was killed inside its second message (id 8), the set polling afterwards *)
Example C06_ex_torn :
  (option_map log (run (fun x => Nat.eqb x 8) init [LNewChan; LSend 0 7; LSend 0 8; LHup 0; LAdd 0; LSelect; LWait; LRecv; LRecv; LReturn])
  = Some [EvMsg 0 7; EvClosed 0])%nat.
Proof. vm_compute. reflexivity. Qed.

(* ---- the public IpcReceiverSet inside whole-API programs (model: Api.v; proofs: ApiInv.v) ---- *)
Module ApiLevel.
Import K Prog Ideal Api ApiProofs ApiInv ApiSelect ApiUnique.
Local Open Scope nat_scope.

(* serving one member of a set: every queued message is reported exactly once, in queue order, tagged with the member's index
   (an undecodable one as such, its attachments released later), and the closure is reported - last - exactly when no
   reference to the sending end exists anywhere (held by the process or in flight in a live queue) *)
Theorem C06_api_member_events : forall fuel k hs n i c, k_wf k -> length (q (get_chan k c)) < fuel ->
  match drain fuel k hs n i c with
  | (_, _, _, evs, closed, _) =>
      map proj_ev evs = map (msg_ev i) (q (get_chan k c)) ++ (if closed then [PClosed i] else []) /\
      closed = (refs k (RS c) =? 0)
  end.
Proof. exact drain_events. Qed.
Print Assumptions C06_api_member_events.

(* the id `add` returns is the member's index; serving the set never renumbers the members *)
Theorem C06_api_ids_stable : forall ms k hs n i,
  match select_all k hs n i ms with (_, _, _, _, ms2, _) => length ms2 = length ms end.
Proof. exact select_all_length. Qed.
Print Assumptions C06_api_ids_stable.
Theorem C06_api_add_fresh : forall s sh rh ms c,
  lookup (ah s) sh = Some (OSet ms) -> lookup (ah s) rh = Some (OR c) ->
  snd (a_step s (ASetAdd sh rh)) = QAdded (length ms).
Proof. exact add_returns_fresh_index. Qed.
Print Assumptions C06_api_add_fresh.
(* the whole set, any number of members: one round of select (repeated until nothing is pending) reports, member by member in
   index order, every queued message once and in queue order, then the member's closure iff no reference to its sending end
   exists - all judged in the state BEFORE the round: serving one member neither loses, duplicates nor reorders anything of another *)
Theorem C06_api_select_events : forall s sh ms, a_inv s -> lookup (ah s) sh = Some (OSet ms) -> NoDup (member_chans ms) ->
  exists evs, snd (a_step s (ASelectAll sh)) = QSelect evs /\ map proj_ev evs = member_events (ak s) 0 ms.
Proof. exact api_select_events. Qed.
Print Assumptions C06_api_select_events.

(* ... and for every REACHABLE state without any side condition: a receiving end exists once (ApiUnique.rr_once_run), so the members
   of a set are pairwise distinct channels *)
Theorem C06_api_select_events_reachable : forall ops sh ms,
  let s := fst (a_run a_init ops) in
  lookup (ah s) sh = Some (OSet ms) ->
  exists evs, snd (a_step s (ASelectAll sh)) = QSelect evs /\ map proj_ev evs = member_events (ak s) 0 ms.
Proof. exact api_select_events_reachable. Qed.
Print Assumptions C06_api_select_events_reachable.

(* underneath: releasing the receiving end of a channel whose queue is empty kills at most that channel and changes nothing else *)
Theorem C06_api_close_empty_frame : forall k c ch, k_wf k -> k_stable k ->
  nth_error (chans k) c = Some ch -> dead ch = false -> q ch = [] ->
  (forall c', c' <> c -> get_chan (k_close k (RR c)) c' = get_chan k c') /\
  (forall x, x <> RR c -> refs (k_close k (RR c)) x = refs k x).
Proof. exact k_close_RR_empty_frame. Qed.
Print Assumptions C06_api_close_empty_frame.

Example C06_api_ex :
  let s := fst (a_run a_init [ANew; ANew; ASetNew; ASetAdd 4 1; ASetAdd 4 3; ASend 0 10%Z []; ASend 2 (-1)%Z [XTx 0]; ASend 2 20%Z []; ADrop 2]) in
  a_inv s /\ lookup (ah s) 4 = Some (OSet [Some 0; Some 1]) /\ NoDup (member_chans [Some 0; Some 1]) /\
  member_events (ak s) 0 [Some 0; Some 1] = [PMsg 0 10%Z []; PBad 1; PMsg 1 20%Z []; PClosed 1].
Proof.
  split; [apply a_inv_run|]. split; [vm_compute; reflexivity|]. split; [|vm_compute; reflexivity].
  vm_compute. constructor; [intros [H|[]]; discriminate|]. constructor; [intros []|constructor].
Qed.
End ApiLevel.

(* ---- the receiver set of the in-process transport (model: InprocSet.v - two parallel vectors, ids from a counter, crossbeam Select
   returning ONE ready member of its choice; proofs: InprocSetProofs.v), for EVERY schedule of adds, sends, hang-ups and choices ---- *)
Module InprocLevel.
Import InprocSet InprocSetProofs.
Local Open Scope nat_scope.

Theorem C06_inproc_ids_distinct : forall n ls s, run (init n) ls = Some s -> NoDup (map fst (added s)).
Proof. exact iset_ids_distinct. Qed.
Print Assumptions C06_inproc_ids_distinct.

Theorem C06_inproc_member_fifo : forall n ls s id c, run (init n) ls = Some s -> In (id, c) (added s) ->
  msgs_of id (events s) ++ queue (gchan s c) = sent (gchan s c).
Proof. exact iset_member_fifo. Qed.
Print Assumptions C06_inproc_member_fifo.

Theorem C06_inproc_closed_once_last : forall n ls s id c, run (init n) ls = Some s -> In (id, c) (added s) ->
  closed_count id (events s) <= 1 /\
  (closed_count id (events s) = 1 -> ~ In (id, c) (members s) /\ msgs_of id (events s) = sent (gchan s c) /\ hup (gchan s c) = true).
Proof. exact iset_closed_once_last. Qed.
Print Assumptions C06_inproc_closed_once_last.

Theorem C06_inproc_events_known : forall n ls s e, run (init n) ls = Some s -> In e (events s) -> ev_id e < next_id s.
Proof. exact iset_events_known. Qed.
Print Assumptions C06_inproc_events_known.

Theorem C06_inproc_select_enabled : forall s i id c, nth_error (members s) i = Some (id, c) ->
  ((exists s', step s (LSelect i) = Some s') <-> (queue (gchan s c) <> [] \/ hup (gchan s c) = true)).
Proof. exact iset_select_enabled. Qed.
Print Assumptions C06_inproc_select_enabled.

Example C06_inproc_ex :
  option_map (fun s => (events s, members s))
    (run (init 2) [LAdd 0; LSend 0 7; LSend 1 9; LAdd 1; LHup 0; LSelect 1; LSelect 0; LSelect 0; LSend 1 4; LSelect 0])
  = Some ([EMsg 1 9; EMsg 0 7; EClosed 0; EMsg 1 4], [(1, 1)]).
Proof. vm_compute. reflexivity. Qed.
End InprocLevel.
