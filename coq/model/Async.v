(* Async: asynch.rs - the lazily started routing thread that turns receivers into futures streams.
   to_stream(receiver) = enqueue (receiver, stream sender) on the registration queue, THEN send a wake-up on an
   ipc channel (two separate steps: the routing thread may run in between).
   Routing thread: loop { batch := select(); for each event: message for id -> push to that id's stream;
   closed id -> drop that id's stream sender;  then drain the registration queue completely: add each
   receiver to the set, remember its stream sender }.
   As in Router.v the per-member event order is the one C06 guarantees.  A stream is a FIFO of items plus an
   `open` flag (its sender still exists); poll_next yields the oldest item, or end-of-stream when empty and closed. *)
From Coq Require Import List Arith Bool.
Import ListNotations.

Definition rid := nat.
Definition sid := nat.       (* stream *)
Definition cid := nat.

Record chanst := { queue : list nat; hup : bool; sent : list nat }.
Record stream := { items : list nat; open : bool; yielded : list nat; ended : bool }.

Inductive phase := AtWait | Batch | Drain.

Record st := {
  chans : list chanst;
  regq : list (cid * sid);               (* registration queue (futures unbounded channel) *)
  inflight : nat;                        (* to_stream calls between their enqueue and their wake-up *)
  wakeups : nat;                         (* pending messages on the wake-up ipc channel *)
  routes : list (rid * (cid * sid));     (* members of the routing thread's set with their stream senders *)
  nextrid : rid;
  ph : phase;
  streams : list stream }.

Inductive label :=
| PNewChan | PSend (c : cid) (x : nat) | PHup (c : cid)
| PToStreamEnq (c : cid)                 (* first half of to_stream: creates stream (id = length streams) and enqueues *)
| PToStreamWake                          (* second half: waker.send(()) *)
| RSelect                                (* routing thread: select() returns (something is ready) *)
| REvWake                                (* ... the batch contains a wake-up message: ignored *)
| REvMsg (r : rid)                       (* ... a message for member r: forwarded to its stream *)
| REvClosed (r : rid)                    (* ... member r closed: its stream sender is dropped *)
| REndBatch                              (* events of the batch done: start draining registrations *)
| RDrainOne                              (* try_next() returned a registration *)
| RDrainDone                             (* try_next() returned nothing: back to select *)
| CPoll (s : sid).                       (* a consumer polls stream s *)

Definition get (s : st) (c : cid) : chanst := nth c (chans s) {| queue := []; hup := false; sent := [] |}.
Definition gets (s : st) (i : sid) : stream := nth i (streams s) {| items := []; open := false; yielded := []; ended := false |}.
Fixpoint set_nth {X} (l : list X) (i : nat) (v : X) : list X :=
  match l, i with [], _ => [] | _ :: t, O => v :: t | h :: t, S j => h :: set_nth t j v end.
Fixpoint lookup {B} (l : list (nat * B)) (k : nat) : option B :=
  match l with [] => None | (x, v) :: t => if Nat.eqb x k then Some v else lookup t k end.
Definition remove_key {B} (l : list (nat * B)) (k : nat) : list (nat * B) := filter (fun e => negb (Nat.eqb (fst e) k)) l.

Definition pendingb (s : st) (c : cid) : bool := match queue (get s c) with [] => hup (get s c) | _ => true end.
(* select() returns iff a wake-up is pending or some member owes an event (C06) *)
Definition something_ready (s : st) : bool :=
  negb (wakeups s =? 0) || existsb (fun e => pendingb s (fst (snd e))) (routes s).

Definition mk (s : st) cs rq inf wk rt nr p ss : st :=
  {| chans := cs; regq := rq; inflight := inf; wakeups := wk; routes := rt; nextrid := nr; ph := p; streams := ss |}.

Definition step (s : st) (l : label) : option st :=
  match l with
  | PNewChan => Some (mk s (chans s ++ [{| queue := []; hup := false; sent := [] |}]) (regq s) (inflight s) (wakeups s) (routes s) (nextrid s) (ph s) (streams s))
  | PSend c x =>
      if (c <? length (chans s)) && negb (hup (get s c)) then
        Some (mk s (set_nth (chans s) c {| queue := queue (get s c) ++ [x]; hup := false; sent := sent (get s c) ++ [x] |})
                 (regq s) (inflight s) (wakeups s) (routes s) (nextrid s) (ph s) (streams s))
      else None
  | PHup c =>
      if (c <? length (chans s)) && negb (hup (get s c)) then
        Some (mk s (set_nth (chans s) c {| queue := queue (get s c); hup := true; sent := sent (get s c) |})
                 (regq s) (inflight s) (wakeups s) (routes s) (nextrid s) (ph s) (streams s))
      else None
  | PToStreamEnq c =>
      if c <? length (chans s) then
        Some (mk s (chans s) (regq s ++ [(c, length (streams s))]) (S (inflight s)) (wakeups s) (routes s) (nextrid s) (ph s)
                 (streams s ++ [{| items := []; open := true; yielded := []; ended := false |}]))
      else None
  | PToStreamWake =>
      match inflight s with
      | S n => Some (mk s (chans s) (regq s) n (S (wakeups s)) (routes s) (nextrid s) (ph s) (streams s))
      | O => None
      end
  | RSelect =>
      match ph s with
      | AtWait => if something_ready s then Some (mk s (chans s) (regq s) (inflight s) (wakeups s) (routes s) (nextrid s) Batch (streams s)) else None
      | _ => None
      end
  | REvWake =>
      match ph s, wakeups s with
      | Batch, S w => Some (mk s (chans s) (regq s) (inflight s) w (routes s) (nextrid s) Batch (streams s))
      | _, _ => None
      end
  | REvMsg r =>
      match ph s, lookup (routes s) r with
      | Batch, Some (c, i) =>
          match queue (get s c) with
          | x :: q' =>
              let sm := gets s i in
              Some (mk s (set_nth (chans s) c {| queue := q'; hup := hup (get s c); sent := sent (get s c) |})
                       (regq s) (inflight s) (wakeups s) (routes s) (nextrid s) Batch
                       (set_nth (streams s) i {| items := items sm ++ [x]; open := open sm; yielded := yielded sm; ended := ended sm |}))
          | [] => None
          end
      | _, _ => None
      end
  | REvClosed r =>
      match ph s, lookup (routes s) r with
      | Batch, Some (c, i) =>
          match queue (get s c), hup (get s c) with
          | [], true =>
              let sm := gets s i in
              Some (mk s (chans s) (regq s) (inflight s) (wakeups s) (remove_key (routes s) r) (nextrid s) Batch
                       (set_nth (streams s) i {| items := items sm; open := false; yielded := yielded sm; ended := ended sm |}))
          | _, _ => None
          end
      | _, _ => None
      end
  | REndBatch => match ph s with Batch => Some (mk s (chans s) (regq s) (inflight s) (wakeups s) (routes s) (nextrid s) Drain (streams s)) | _ => None end
  | RDrainOne =>
      match ph s, regq s with
      | Drain, (c, i) :: rest =>
          Some (mk s (chans s) rest (inflight s) (wakeups s) (routes s ++ [(nextrid s, (c, i))]) (S (nextrid s)) Drain (streams s))
      | _, _ => None
      end
  | RDrainDone =>
      match ph s, regq s with
      | Drain, [] => Some (mk s (chans s) [] (inflight s) (wakeups s) (routes s) (nextrid s) AtWait (streams s))
      | _, _ => None
      end
  | CPoll i =>
      if i <? length (streams s) then
        let sm := gets s i in
        match items sm with
        | x :: r => Some (mk s (chans s) (regq s) (inflight s) (wakeups s) (routes s) (nextrid s) (ph s)
                            (set_nth (streams s) i {| items := r; open := open sm; yielded := yielded sm ++ [x]; ended := ended sm |}))
        | [] => if open sm then Some s   (* Pending *)
                else Some (mk s (chans s) (regq s) (inflight s) (wakeups s) (routes s) (nextrid s) (ph s)
                              (set_nth (streams s) i {| items := []; open := false; yielded := yielded sm; ended := true |}))
        end
      else None
  end.

Fixpoint run (s : st) (ls : list label) : option st :=
  match ls with [] => Some s | l :: r => match step s l with Some s' => run s' r | None => None end end.

Definition init : st :=
  {| chans := []; regq := []; inflight := 0; wakeups := 0; routes := []; nextrid := 1; ph := AtWait; streams := [] |}.

(* a receiver is converted at most once *)
Fixpoint converts_once (ls : list label) (cs : list nat) : bool :=
  match ls with
  | [] => true
  | PToStreamEnq c :: r => negb (existsb (Nat.eqb c) cs) && converts_once r (c :: cs)
  | _ :: r => converts_once r cs
  end.
