(* Tls: the per-thread serialisation side tables of ipc.rs and the discipline of IpcSender::send
   (take the tables, run the value's Serialize, put the old tables back, only then look at the result)
   over *serialiser programs*: what a Serialize implementation can do while it runs - emit plain
   data, embed endpoints/regions (which pushes them on the thread-local lists), issue a nested send
   from inside (whose own Serialize runs against the same thread-locals), or fail. *)
From Coq Require Import List Arith Bool.
From IPC Require Import Codec.
Import ListNotations.

Inductive sact :=
| SEmit                                   (* plain data; also a raw-bytes send or receive issued from inside: IpcBytesSender::send
                                             and IpcBytesReceiver::recv bypass serde and never touch the per-thread lists *)
| STx (e : nat) | SRx (e : nat)           (* embed a sender clone / move a receiver *)
| SRegion (r : nat)
| SNest (body : list sact) (propagate : bool)  (* tx.send(inner) from inside serialize(); propagate: `?` on its result *)
| SFail.                                  (* the Serialize impl returns an error *)

Record tls := { t_chans : list att; t_regions : list nat }.
Definition tls_empty : tls := {| t_chans := []; t_regions := [] |}.

(* what one platform-level send receives from the ipc layer *)
Record sent := { s_chans : list att; s_regions : list nat }.

Inductive sres := SerOk | SerErr.

(* `released`: attachments that were collected for a message that was then not sent; they are dropped *)
Record eff := { msgs : list sent; released : list att }.
Definition eff0 : eff := {| msgs := []; released := [] |}.
Definition eff_app (a b : eff) : eff := {| msgs := msgs a ++ msgs b; released := released a ++ released b |}.

Fixpoint ser (fuel : nat) (body : list sact) (t : tls) : sres * tls * eff :=
  match fuel with O => (SerErr, t, eff0) | S f =>
  match body with
  | [] => (SerOk, t, eff0)
  | SEmit :: r => ser f r t
  | STx e :: r => ser f r {| t_chans := t_chans t ++ [AChan true e]; t_regions := t_regions t |}
  | SRx e :: r => ser f r {| t_chans := t_chans t ++ [AChan false e]; t_regions := t_regions t |}
  | SRegion g :: r => ser f r {| t_chans := t_chans t; t_regions := t_regions t ++ [g] |}
  | SFail :: _ => (SerErr, t, eff0)
  | SNest b prop :: r =>
      (* IpcSender::send for the inner value, running on the same thread *)
      let old := t in
      let '(res, t1, e1) := ser f b tls_empty in       (* mem::take, then serialize *)
      let t2 := old in                                 (* put the old lists back BEFORE looking at the result *)
      match res with
      | SerOk =>
          let e := eff_app e1 {| msgs := [{| s_chans := t_chans t1; s_regions := t_regions t1 |}]; released := [] |} in
          let '(res', t', e') := ser f r t2 in (res', t', eff_app e e')
      | SerErr =>
          let e := eff_app e1 {| msgs := []; released := t_chans t1 |} in
          if prop then (SerErr, t2, e)
          else let '(res', t', e') := ser f r t2 in (res', t', eff_app e e')
      end
  end end.

(* IpcSender::send at the outermost level, with whatever the thread-locals hold at that moment *)
Definition ipc_send (fuel : nat) (body : list sact) (t : tls) : sres * tls * eff :=
  let '(res, t1, e1) := ser fuel body tls_empty in
  match res with
  | SerOk => (SerOk, t, eff_app e1 {| msgs := [{| s_chans := t_chans t1; s_regions := t_regions t1 |}]; released := [] |})
  | SerErr => (SerErr, t, eff_app e1 {| msgs := []; released := t_chans t1 |})
  end.

(* the embeds a body performs at its own level (not inside nested sends), up to the point where it stops *)
Fixpoint own_chans (fuel : nat) (body : list sact) : list att :=
  match fuel with O => [] | S f =>
  match body with
  | [] => []
  | STx e :: r => AChan true e :: own_chans f r
  | SRx e :: r => AChan false e :: own_chans f r
  | SFail :: _ => []
  | SNest b true :: r => match ser f b tls_empty with (SerErr, _, _) => [] | _ => own_chans f r end
  | _ :: r => own_chans f r
  end end.

(* enough fuel for ser: one unit per action, nested bodies included *)
Fixpoint size_act (a : sact) : nat :=
  match a with
  | SNest b _ => S ((fix go (l : list sact) : nat := match l with [] => 0 | x :: r => size_act x + go r end) b)
  | _ => 1
  end.
Definition size (body : list sact) : nat := S (fold_right (fun a n => size_act a + n) 0 body).
