(* AsyncCheck: runs the Async LTS on the canonical schedule of an async-driver scenario and compares what
   each stream yielded and whether it ended (independent of the interleaving, by the theorems). *)
From Coq Require Import List Arith Bool.
From IPC Require Import Async.
Import ListNotations.

Fixpoint leqb {A} (e : A -> A -> bool) (l1 l2 : list A) : bool :=
  match l1, l2 with [], [] => true | x :: r, y :: s => e x y && leqb e r s | _, _ => false end.

Definition check_async (pre : list label) (obs : list (sid * (list nat * bool))) : bool :=
  match run init pre with
  | Some s => forallb (fun o => leqb Nat.eqb (yielded (gets s (fst o))) (fst (snd o)) && Bool.eqb (ended (gets s (fst o))) (snd (snd o))) obs
  | None => false
  end.
