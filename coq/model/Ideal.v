(* Ideal: unbounded FIFO channels with counted handles - the specification.
   A handle IS a reference (no descriptors, no Arc sharing): the process holds exactly one K reference
   per live handle.  Also the model of the in-process transport (crossbeam channels of whole messages). *)
From Coq Require Import List Arith ZArith Bool.
From IPC Require Import K Prog.
Import ListNotations.

Inductive iobj := IS (c : nat) | IR (c : nat) | IGone.
Record ist := { ik : kst; ih : list (hid * iobj); inext : hid }.

Definition i_init : ist := {| ik := k_init; ih := []; inext := 0 |}.

Fixpoint lookup {B} (l : list (hid * B)) (h : hid) : option B :=
  match l with [] => None | (x, v) :: t => if Nat.eqb x h then Some v else lookup t h end.
Fixpoint update {B} (l : list (hid * B)) (h : hid) (v : B) : list (hid * B) :=
  match l with [] => [] | (x, w) :: t => if Nat.eqb x h then (x, v) :: t else (x, w) :: update t h v end.

(* serialisation of the attachments, left to right: a sender is cloned into the message, a receiver is
   moved out of its handle.  None = misuse (not a live endpoint of the right kind). *)
Fixpoint i_resolve (hs : list (hid * iobj)) (atts : list att) : option (list ref * list (hid * iobj)) :=
  match atts with
  | [] => Some ([], hs)
  | ATx x :: r =>
      match lookup hs x with
      | Some (IS c) => match i_resolve hs r with Some (rs, hs') => Some (RS c :: rs, hs') | None => None end
      | _ => None
      end
  | ARx x :: r =>
      match lookup hs x with
      | Some (IR c) => match i_resolve (update hs x IGone) r with Some (rs, hs') => Some (RR c :: rs, hs') | None => None end
      | _ => None
      end
  end.

(* the library's own copies of moved receivers are released once the message has been handed to the kernel (or refused) *)
Fixpoint close_moved (k : kst) (rs : list ref) : kst :=
  match rs with
  | [] => k
  | RR c :: t => close_moved (k_close k (RR c)) t
  | _ :: t => close_moved k t
  end.

(* received rights become fresh handles, in order *)
Fixpoint i_install (hs : list (hid * iobj)) (n : hid) (rs : list ref) : list (hid * iobj) * hid * list (hkind * hid) :=
  match rs with
  | [] => (hs, n, [])
  | RS c :: t => let '(hs', n', out) := i_install (hs ++ [(n, IS c)]) (S n) t in (hs', n', (KTx, n) :: out)
  | RR c :: t => let '(hs', n', out) := i_install (hs ++ [(n, IR c)]) (S n) t in (hs', n', (KRx, n) :: out)
  | RM _ :: t => i_install hs n t
  end.

Definition i_step (s : ist) (o : op) : ist * outcome :=
  match o with
  | ONew =>
      let (k', c) := k_new (ik s) in
      ({| ik := k'; ih := ih s ++ [(inext s, IS c); (S (inext s), IR c)]; inext := S (S (inext s)) |},
       RNew (inext s) (S (inext s)))
  | OClone h =>
      match lookup (ih s) h with
      | Some (IS c) => ({| ik := k_dup (ik s) (RS c); ih := ih s ++ [(inext s, IS c)]; inext := S (inext s) |}, RCloned (inext s))
      | _ => (s, RBad)
      end
  | ODrop h =>
      match lookup (ih s) h with
      | Some (IS c) => ({| ik := k_close (ik s) (RS c); ih := update (ih s) h IGone; inext := inext s |}, RDropped)
      | Some (IR c) => ({| ik := k_close (ik s) (RR c); ih := update (ih s) h IGone; inext := inext s |}, RDropped)
      | _ => (s, RBad)
      end
  | OSend h data atts =>
      match lookup (ih s) h with
      | Some (IS c) =>
          match i_resolve (ih s) atts with
          | Some (rs, hs') =>
              match k_send (ik s) c {| m_data := data; m_rights := rs |} with
              | Some k' => ({| ik := close_moved k' rs; ih := hs'; inext := inext s |}, RSent)
              | None => ({| ik := close_moved (ik s) rs; ih := hs'; inext := inext s |}, RSendErr)
              end
          | None => (s, RBad)
          end
      | _ => (s, RBad)
      end
  | ORecv h =>
      match lookup (ih s) h with
      | Some (IR c) =>
          match k_recv (ik s) c with
          | KMsg m k' =>
              let '(hs', n', out) := i_install (ih s) (inext s) (m_rights m) in
              ({| ik := k'; ih := hs'; inext := n' |}, RMsg (m_data m) out)
          | KEmpty => (s, REmpty)
          | KClosed => (s, RDisconnected)
          end
      | _ => (s, RBad)
      end
  end.

Fixpoint i_run (s : ist) (ops : list op) : ist * list outcome :=
  match ops with
  | [] => (s, [])
  | o :: r => let (s', out) := i_step s o in let (s'', outs) := i_run s' r in (s'', out :: outs)
  end.
