(* Shm: OsIpcSharedMemory / IpcSharedMemory (unix/mod.rs, ipc.rs).  A shared-memory OBJECT (shm_open+unlink or
   memfd) has a size fixed by ftruncate and contents; a REGION handle is a descriptor for an object plus a mapping
   of `r_len` bytes (no mapping at all when the length is 0: mmap would fail).  Regions received in a message are
   mapped with the size fstat reports.  At the ipc level an empty region is `None` and travels as usize::MAX. *)
From Coq Require Import ZArith List Bool.
Import ListNotations.
Open Scope Z_scope.

Record shmobj := { o_size : Z; o_bytes : list Z }.
Record region := { r_obj : nat; r_len : Z; r_mapped : bool }.
Record world := { objs : list shmobj; maps : Z (* live mappings *); fds : Z (* open descriptors of regions *) }.

Inductive call := CFtruncate (len : Z) | CMmap (len : Z) | CMunmap | CDup | CClose.

Definition w0 : world := {| objs := []; maps := 0; fds := 0 |}.
Definition obj (w : world) (i : nat) : shmobj := nth i (objs w) {| o_size := 0; o_bytes := [] |}.

(* BackingStore::new(len) + map_file(Some(len)) + fill *)
Definition create (w : world) (bytes : list Z) : world * region * list call :=
  let len := Z.of_nat (length bytes) in
  let mapped := negb (len =? 0) in
  ({| objs := objs w ++ [{| o_size := len; o_bytes := bytes |}]; maps := maps w + (if mapped then 1 else 0); fds := fds w + 1 |},
   {| r_obj := length (objs w); r_len := len; r_mapped := mapped |},
   CFtruncate len :: (if mapped then [CMmap len] else [])).

Definition from_bytes (w : world) (bytes : list Z) := create w bytes.
Definition from_byte (w : world) (b : Z) (n : nat) := create w (repeat b n).

(* Clone: dup the descriptor, map the same length again *)
Definition clone (w : world) (r : region) : world * region * list call :=
  ({| objs := objs w; maps := maps w + (if r_mapped r then 1 else 0); fds := fds w + 1 |},
   {| r_obj := r_obj r; r_len := r_len r; r_mapped := r_mapped r |},
   CDup :: (if r_mapped r then [CMmap (r_len r)] else [])).

(* from_fd: a descriptor received in a message: length from fstat *)
Definition receive (w : world) (r : region) : world * region * list call :=
  let len := o_size (obj w (r_obj r)) in
  let mapped := negb (len =? 0) in
  ({| objs := objs w; maps := maps w + (if mapped then 1 else 0); fds := fds w + 1 |},
   {| r_obj := r_obj r; r_len := len; r_mapped := mapped |},
   if mapped then [CMmap len] else []).

(* Drop: munmap if mapped, close *)
Definition drop (w : world) (r : region) : world * list call :=
  ({| objs := objs w; maps := maps w - (if r_mapped r then 1 else 0); fds := fds w - 1 |},
   (if r_mapped r then [CMunmap] else []) ++ [CClose]).

(* Deref: the mapped bytes; an unmapped (zero-length) region is the empty slice - never a slice built from a null pointer *)
Definition read (w : world) (r : region) : list Z :=
  if r_mapped r then firstn (Z.to_nat (r_len r)) (o_bytes (obj w (r_obj r))) else [].

(* ipc level: IpcSharedMemory = Option<OsIpcSharedMemory> *)
Definition ipc_region := option region.
Definition ipc_from_bytes (w : world) (bytes : list Z) : world * ipc_region * list call :=
  match bytes with [] => (w, None, []) | _ => let '(w', r, cs) := from_bytes w bytes in (w', Some r, cs) end.
Definition ipc_read (w : world) (r : ipc_region) : list Z := match r with Some x => read w x | None => [] end.

(* ---- a mapping that fails (mmap returns MAP_FAILED, e.g. ENOMEM): `assert!(address != MAP_FAILED)` in map_file panics.
   `ok` is the oracle for the one mmap the operation may issue; None = the operation panicked (nothing was handed out). ---- *)
Definition guard {X} (ok : bool) (r : world * region * X) : option (world * region * X) :=
  let '(_, reg, _) := r in if r_mapped reg && negb ok then None else Some r.
Definition create_f (ok : bool) (w : world) (bytes : list Z) := guard ok (create w bytes).
Definition clone_f (ok : bool) (w : world) (r : region) := guard ok (clone w r).
Definition receive_f (ok : bool) (w : world) (r : region) := guard ok (receive w r).
(* what the failing-mmap scenario must show for a region of `len` bytes: a panic, unless nothing is mapped at all *)
Definition mmapfail_panics (len : Z) : bool := negb (len =? 0).

(* Clone::clone_from is the default one: `*self = source.clone()` - a fresh handle on the SOURCE's object is made (dup, mmap), then the
   old value of the destination is dropped (munmap, close).  Nothing is written to any object. *)
Definition clone_from (w : world) (d s : region) : world * region * list call :=
  let '(w1, r, cs1) := clone w s in
  let '(w2, cs2) := drop w1 d in (w2, r, cs1 ++ cs2).

(* a region sent through a channel and received: the sender's handle is unchanged; the receiver maps the object at its fstat size *)
Definition transfer (w : world) (r : region) : world * region * list call := receive w r.
