(* K: the reference-counting core of the kernel slice the library relies on, at whole-message level.
   A channel is a FIFO queue of messages; a message carries data and *rights* (references to channel
   ends or shared-memory objects travelling as SCM_RIGHTS).  Reference counts are DERIVED:
     refs k r = #occurrences of r among the references the process holds
              + #occurrences of r among the rights of messages queued in channels that are not dead.
   Releasing the last reference to a receiving end kills the channel: its queue is discarded, which
   releases the rights inside, possibly killing further channels (gc).
   Trusted semantics (validated by the correspondence runs): recvmsg on an empty queue reports
   end-of-file iff no reference to the sending end remains; sendmsg to a dead channel fails. *)
From Coq Require Import List Arith Lia Bool ZArith.
Import ListNotations.

Inductive ref := RS (c : nat) | RR (c : nat) | RM (o : nat).
Definition ref_dec : forall a b : ref, {a = b} + {a <> b}.
Proof. decide equality; apply Nat.eq_dec. Defined.
Definition ref_eqb (a b : ref) : bool := if ref_dec a b then true else false.

Record msg := { m_data : Z; m_rights : list ref }.
Record chan := { q : list msg; dead : bool }.
Record kst := { chans : list chan; held : list ref }.

Definition live_rights (ch : chan) : list ref := if dead ch then [] else flat_map m_rights (q ch).
Definition inflight (k : kst) : list ref := flat_map live_rights (chans k).
Definition refs (k : kst) (r : ref) : nat := count_occ ref_dec (held k) r + count_occ ref_dec (inflight k) r.

Fixpoint set_nth {X} (l : list X) (i : nat) (v : X) : list X :=
  match l, i with [], _ => [] | _ :: t, O => v :: t | h :: t, S j => h :: set_nth t j v end.

Definition get_chan (k : kst) (c : nat) : chan := nth c (chans k) {| q := []; dead := true |}.

(* ---- gc ---- *)
Fixpoint find_kill (k : kst) (i : nat) (cs : list chan) : option nat :=
  match cs with
  | [] => None
  | ch :: r => if negb (dead ch) && (refs k (RR i) =? 0) then Some i else find_kill k (S i) r
  end.
Definition kill (k : kst) (i : nat) : kst :=
  {| chans := set_nth (chans k) i {| q := []; dead := true |}; held := held k |}.
Fixpoint gc_fuel (fuel : nat) (k : kst) : kst :=
  match fuel with O => k | S f =>
    match find_kill k 0 (chans k) with Some i => gc_fuel f (kill k i) | None => k end end.
Definition gc (k : kst) : kst := gc_fuel (length (chans k)) k.

(* ---- system calls at reference level ---- *)
Definition k_init : kst := {| chans := []; held := [] |}.

(* socketpair: a fresh channel; the process holds one reference to each end *)
Definition k_new (k : kst) : kst * nat :=
  let c := length (chans k) in
  ({| chans := chans k ++ [{| q := []; dead := false |}]; held := RS c :: RR c :: held k |}, c).

(* dup / Arc-less copy of a reference the process already holds *)
Definition k_dup (k : kst) (r : ref) : kst := {| chans := chans k; held := r :: held k |}.

Fixpoint remove_one (r : ref) (l : list ref) : list ref :=
  match l with [] => [] | x :: t => if ref_dec r x then t else x :: remove_one r t end.

(* close: drop one held reference, then collect *)
Definition k_close (k : kst) (r : ref) : kst :=
  gc {| chans := chans k; held := remove_one r (held k) |}.

(* sendmsg on (a reference to) the sending end of c: fails if the channel is dead; otherwise the message is
   queued and its rights are in flight (the sender keeps its own references) *)
Definition k_send (k : kst) (c : nat) (m : msg) : option kst :=
  let ch := get_chan k c in
  if dead ch then None
  else Some {| chans := set_nth (chans k) c {| q := q ch ++ [m]; dead := false |}; held := held k |}.

Inductive krecv := KMsg (m : msg) (k' : kst) | KEmpty | KClosed.

(* recvmsg on the receiving end of c: pops the oldest message, whose rights become held references *)
Definition k_recv (k : kst) (c : nat) : krecv :=
  let ch := get_chan k c in
  match q ch with
  | m :: rest =>
      KMsg m {| chans := set_nth (chans k) c {| q := rest; dead := dead ch |}; held := m_rights m ++ held k |}
  | [] => if refs k (RS c) =? 0 then KClosed else KEmpty
  end.

(* readable or hung up: what poll/epoll report for the receiving end of c *)
Definition k_ready (k : kst) (c : nat) : bool :=
  match q (get_chan k c) with [] => refs k (RS c) =? 0 | _ => true end.

(* well-formedness: a dead channel is empty and nobody references its receiving end *)
Definition k_wf (k : kst) : Prop :=
  forall c ch, nth_error (chans k) c = Some ch -> dead ch = true -> q ch = [] /\ refs k (RR c) = 0.

(* every live channel's receiving end is referenced (nothing left for gc to do) *)
Definition k_stable (k : kst) : Prop :=
  forall c ch, nth_error (chans k) c = Some ch -> dead ch = false -> refs k (RR c) <> 0.
