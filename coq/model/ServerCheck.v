(* ServerCheck: runs the Server LTS on the schedule of a server-driver scenario (correspondence run only). *)
From Coq Require Import List Arith Bool.
From IPC Require Import Server.
Import ListNotations.
Fixpoint leqb {A} (e : A -> A -> bool) (l1 l2 : list A) : bool :=
  match l1, l2 with [], [] => true | x :: r, y :: s => e x y && leqb e r s | _, _ => false end.
Definition check_server (pre : list label) (obs : list nat) : bool :=
  match run init pre with
  | Some s => leqb Nat.eqb (got (gconn s 0)) obs && (match fs s with [] => true | _ => false end) && Nat.eqb (open_listeners s) 0
              && (match queue (gconn s 0) with [] => true | _ => false end)
  | None => false
  end.
