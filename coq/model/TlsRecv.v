(* TlsRecv: the receive-side discipline of ipc.rs (OpaqueIpcMessage::to): swap the message's attachment tables into
   the thread-locals, deserialise, swap them back, only then look at the result ("error check comes after cleanup").
   A Deserialize implementation is a program: take the attachment with a given index (channel or region), perform
   a nested receive-and-decode of another message from inside, or fail. *)
From Coq Require Import List Arith Bool.
Import ListNotations.

Definition table := list (option nat).          (* None: already taken *)
Record tabs := { tc : table; tr : table }.      (* channels, regions *)

Inductive dact :=
| DData                                  (* plain data *)
| DChan (i : nat) | DRegion (i : nat)    (* take attachment i *)
| DNest (msg : tabs) (body : list dact) (propagate : bool)   (* msg.to::<Inner>() from inside deserialize() *)
| DFail.

Inductive dres := DecOk | DecErr.

Fixpoint take_nth (l : table) (i : nat) : option (nat * table) :=
  match l, i with
  | [], _ => None
  | Some x :: t, O => Some (x, None :: t)
  | None :: _, O => None
  | h :: t, S j => match take_nth t j with Some (x, t') => Some (x, h :: t') | None => None end
  end.

(* `got`: endpoints/regions handed to the value being built at THIS level, in order; `inner`: what nested decodes obtained *)
Record out := { got_c : list nat; got_r : list nat; inner : list (list nat * list nat) }.
Definition out0 : out := {| got_c := []; got_r := []; inner := [] |}.

(* runs a body against the current thread-local tables; returns the result, the tables afterwards and what was obtained *)
Fixpoint des (fuel : nat) (body : list dact) (tl : tabs) : dres * tabs * out :=
  match fuel with O => (DecErr, tl, out0) | S f =>
  match body with
  | [] => (DecOk, tl, out0)
  | DData :: r => des f r tl
  | DChan i :: r =>
      match take_nth (tc tl) i with
      | Some (e, c') => let '(res, tl', o) := des f r {| tc := c'; tr := tr tl |} in
                        (res, tl', {| got_c := e :: got_c o; got_r := got_r o; inner := inner o |})
      | None => (DecErr, tl, out0)
      end
  | DRegion i :: r =>
      match take_nth (tr tl) i with
      | Some (g, r') => let '(res, tl', o) := des f r {| tc := tc tl; tr := r' |} in
                        (res, tl', {| got_c := got_c o; got_r := g :: got_r o; inner := inner o |})
      | None => (DecErr, tl, out0)
      end
  | DFail :: _ => (DecErr, tl, out0)
  | DNest msg b prop :: r =>
      (* swap in: the thread-locals now hold the inner message's tables, the inner message object holds ours *)
      let saved := tl in
      let '(res1, _, o1) := des f b msg in
      (* swap back: ours again, whatever the inner result was *)
      let here := {| got_c := got_c o1; got_r := got_r o1; inner := [] |} in
      match res1, prop with
      | DecErr, true => (DecErr, saved, {| got_c := []; got_r := []; inner := inner o1 |})
      | _, _ =>
          let '(res, tl', o) := des f r saved in
          (res, tl', {| got_c := got_c o; got_r := got_r o;
                        inner := inner o1 ++ (match res1 with DecOk => [(got_c here, got_r here)] | DecErr => [] end) ++ inner o |})
      end
  end end.

(* OpaqueIpcMessage::to at the outermost level: `tl` is whatever the thread-locals hold (normally empty tables) *)
Definition to_ (fuel : nat) (msg : tabs) (body : list dact) (tl : tabs) : dres * tabs * out :=
  let '(res, _, o) := des fuel body msg in (res, tl, o).

(* reference semantics of one level in isolation: only this level's takes, against this message's own tables *)
Fixpoint own (fuel : nat) (body : list dact) (msg : tabs) : option (list nat * list nat) :=
  match fuel with O => None | S f =>
  match body with
  | [] => Some ([], [])
  | DData :: r => own f r msg
  | DChan i :: r => match take_nth (tc msg) i with
                    | Some (e, c') => match own f r {| tc := c'; tr := tr msg |} with Some (cs, rs) => Some (e :: cs, rs) | None => None end
                    | None => None end
  | DRegion i :: r => match take_nth (tr msg) i with
                      | Some (g, r') => match own f r {| tc := tc msg; tr := r' |} with Some (cs, rs) => Some (cs, g :: rs) | None => None end
                      | None => None end
  | DFail :: _ => None
  | DNest m b true :: r => match des f b m with (DecErr, _, _) => None | _ => own f r msg end
  | DNest _ _ false :: r => own f r msg
  end end.

Fixpoint size_act (a : dact) : nat :=
  match a with
  | DNest _ b _ => S ((fix go (l : list dact) : nat := match l with [] => 0 | x :: r => size_act x + go r end) b)
  | _ => 1
  end.
Definition size (body : list dact) : nat := S (fold_right (fun a n => size_act a + n) 0 body).

(* --- correspondence checker (evaluated on what the nestrecv driver observed) --- *)
Fixpoint list_beq {A} (eqb : A -> A -> bool) (a b : list A) : bool :=
  match a, b with
  | [], [] => true
  | x :: a', y :: b' => eqb x y && list_beq eqb a' b'
  | _, _ => false
  end.
Definition eqb_ln := list_beq Nat.eqb.
Definition eqb_pair (a b : list nat * list nat) : bool := eqb_ln (fst a) (fst b) && eqb_ln (snd a) (snd b).
Definition check_to (msg : tabs) (body : list dact) (ok : bool) (gc gr : list nat) (inn : list (list nat * list nat)) : bool :=
  let '(res, _, o) := to_ (size body) msg body {| tc := []; tr := [] |} in
  match res, ok with
  | DecOk, true => eqb_ln (got_c o) gc && eqb_ln (got_r o) gr && list_beq eqb_pair (inner o) inn
  | DecErr, false => true
  | _, _ => false
  end.
