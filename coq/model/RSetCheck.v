(* RSetCheck: runs the RSet LTS on the sequential scenarios of the rset driver (all traffic before the
   selecting starts) with a greedy library, for the correspondence run. *)
From Coq Require Import List Arith Bool.
From IPC Require Import RSet.
Import ListNotations.

Section WithTorn.
Variable tornp : nat -> bool.
Notation step := (RSet.step tornp).
Notation run := (RSet.run tornp).

Fixpoint drain (fuel : nat) (s : st) : st :=
  match fuel with O => s | S f => match step s LRecv with Some s' => drain f s' | None => s end end.

Definition select_once (s : st) : option st :=
  match step s LSelect with
  | Some s1 => match step s1 LWait with
               | Some s2 => step (drain 5000 s2) LReturn
               | None => None
               end
  | None => None
  end.

Fixpoint selects (n : nat) (s : st) : option st :=
  match n with O => Some s | S k => match select_once s with Some s' => selects k s' | None => None end end.

End WithTorn.

Definition ev_eqb (a b : event) : bool :=
  match a, b with
  | EvMsg m x, EvMsg m' x' => Nat.eqb m m' && Nat.eqb x x'
  | EvClosed m, EvClosed m' => Nat.eqb m m'
  | _, _ => false
  end.
Fixpoint leqb {A} (e : A -> A -> bool) (l1 l2 : list A) : bool :=
  match l1, l2 with [], [] => true | x :: r, y :: s => e x y && leqb e r s | _, _ => false end.

(* pre: creation, sends, hang-ups and adds in the order the harness performed them; nsel: number of select() calls observed *)
Definition check_rset_torn (torn : list nat) (pre : list label) (nsel : nat) (obs : list event) : bool :=
  let tornp := fun x => existsb (Nat.eqb x) torn in
  match run tornp init pre with
  | Some s0 =>
      match selects tornp nsel s0 with
      | Some s => leqb ev_eqb (log s) obs && (match ready s with [] => true | _ => false end)
      | None => false
      end
  | None => false
  end.

Definition check_rset := check_rset_torn [].
