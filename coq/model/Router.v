(* Router: router.rs (RouterProxy + Router::run) as a labelled transition system.
   The router thread consumes the events of its receiver set; by C06 those are, per member, its messages in
   send order followed by one closure when the channel is disconnected and drained - which is how the event
   labels below are enabled (REvMsg pops the oldest queued message of a route, REvClosed needs an empty
   queue and a hung-up channel).  Proxy operations are atomic (they run under the proxy's mutex):
   add_route enqueues a control message AND a wake-up; shutdown sets the flag, enqueues a wake-up and the
   Shutdown message (the wait for the acknowledgement is the label RAckWait).
   After the fix for C17 the Shutdown arm and the closure of the wake-up channel leave run() for good. *)
From Coq Require Import List Arith Bool.
Import ListNotations.

Definition rid := nat.       (* receiver-set id of a route *)
Definition hid := nat.       (* identity of a handler (callback or forwarding closure) *)
Definition cid := nat.       (* channel *)

Inductive ctl := AddRoute (c : cid) (h : hid) | Shutdown.

Inductive effect :=
| Call (h : hid) (c : cid) (x : nat)     (* handler h invoked with message x, which was sent on channel c *)
| DropHandler (h : hid)                  (* the boxed callback (with whatever it owns) is dropped *)
| DropArgs (h : hid)                     (* add_route after shutdown: receiver and callback dropped, never invoked *)
| Ack                                    (* shutdown acknowledged *)
| Panic.

Record chanst := { queue : list nat; hup : bool; sent : list nat }.

Record st := {
  chans : list chanst;                   (* the routed channels (index = cid) *)
  ctlq : list ctl;                       (* crossbeam queue proxy -> router *)
  wakeups : nat;                         (* messages pending on the wake-up ipc channel *)
  proxy_alive : bool;
  flag : bool;                           (* RouterProxyComm.shutdown *)
  routes : list (rid * (cid * hid));     (* router thread: members of its set with their handlers *)
  nextrid : rid;                         (* rid 0 is the wake-up channel; routes get 1, 2, ... *)
  stopped : bool;                        (* run() has returned *)
  waiting_ack : nat;                     (* shutdown() calls blocked on the acknowledgement *)
  effects : list effect }.

Inductive label :=
| PNewChan | PSend (c : cid) (x : nat) | PHup (c : cid)        (* traffic on routed channels *)
| PAddRoute (c : cid) (h : hid)                                (* RouterProxy::add_route *)
| PShutdown                                                    (* RouterProxy::shutdown up to the wait *)
| PAckWait                                                     (* ... its ack_receiver.recv() returns *)
| PProxyDrop                                                   (* the RouterProxy is dropped *)
| REvWake                                                      (* router: MessageReceived(wake-up id): read one control message *)
| REvMsg (r : rid)                                             (* router: MessageReceived(r, oldest message) *)
| REvClosed (r : rid)                                          (* router: ChannelClosed(r) *)
| REvWakeClosed.                                               (* router: ChannelClosed(wake-up id) *)

Definition get (s : st) (c : cid) : chanst := nth c (chans s) {| queue := []; hup := false; sent := [] |}.
Fixpoint set_nth {X} (l : list X) (i : nat) (v : X) : list X :=
  match l, i with [], _ => [] | _ :: t, O => v :: t | h :: t, S j => h :: set_nth t j v end.
Fixpoint lookup {B} (l : list (nat * B)) (k : nat) : option B :=
  match l with [] => None | (x, v) :: t => if Nat.eqb x k then Some v else lookup t k end.
Definition remove_key {B} (l : list (nat * B)) (k : nat) : list (nat * B) := filter (fun e => negb (Nat.eqb (fst e) k)) l.

Definition with_chans (s : st) (cs : list chanst) : st :=
  {| chans := cs; ctlq := ctlq s; wakeups := wakeups s; proxy_alive := proxy_alive s; flag := flag s; routes := routes s;
     nextrid := nextrid s; stopped := stopped s; waiting_ack := waiting_ack s; effects := effects s |}.

Definition drop_all (rs : list (rid * (cid * hid))) : list effect := map (fun e => DropHandler (snd (snd e))) rs.

Definition step (s : st) (l : label) : option st :=
  match l with
  | PNewChan => Some (with_chans s (chans s ++ [{| queue := []; hup := false; sent := [] |}]))
  | PSend c x =>
      if (c <? length (chans s)) && negb (hup (get s c)) then
        Some (with_chans s (set_nth (chans s) c {| queue := queue (get s c) ++ [x]; hup := false; sent := sent (get s c) ++ [x] |}))
      else None
  | PHup c =>
      if (c <? length (chans s)) && negb (hup (get s c)) then
        Some (with_chans s (set_nth (chans s) c {| queue := queue (get s c); hup := true; sent := sent (get s c) |}))
      else None
  | PAddRoute c h =>
      if negb (proxy_alive s) then None else
      if flag s then
        Some {| chans := chans s; ctlq := ctlq s; wakeups := wakeups s; proxy_alive := true; flag := true; routes := routes s;
                nextrid := nextrid s; stopped := stopped s; waiting_ack := waiting_ack s; effects := effects s ++ [DropArgs h] |}
      else
        Some {| chans := chans s; ctlq := ctlq s ++ [AddRoute c h]; wakeups := S (wakeups s); proxy_alive := true; flag := false;
                routes := routes s; nextrid := nextrid s; stopped := stopped s; waiting_ack := waiting_ack s; effects := effects s |}
  | PShutdown =>
      if negb (proxy_alive s) then None else
      if flag s then Some s
      else Some {| chans := chans s; ctlq := ctlq s ++ [Shutdown]; wakeups := S (wakeups s); proxy_alive := true; flag := true;
                   routes := routes s; nextrid := nextrid s; stopped := stopped s; waiting_ack := S (waiting_ack s); effects := effects s |}
  | PAckWait =>
      match waiting_ack s with
      | S n => if existsb (fun e => match e with Ack => true | _ => false end) (effects s) then
                 Some {| chans := chans s; ctlq := ctlq s; wakeups := wakeups s; proxy_alive := proxy_alive s; flag := flag s;
                         routes := routes s; nextrid := nextrid s; stopped := stopped s; waiting_ack := n; effects := effects s |}
               else None
      | O => None
      end
  | PProxyDrop =>
      if proxy_alive s && (waiting_ack s =? 0) then
        Some {| chans := chans s; ctlq := ctlq s; wakeups := wakeups s; proxy_alive := false; flag := flag s; routes := routes s;
                nextrid := nextrid s; stopped := stopped s; waiting_ack := 0; effects := effects s |}
      else None
  | REvWake =>
      if stopped s then None else
      match wakeups s with
      | O => None
      | S w =>
          match ctlq s with
          | AddRoute c h :: rest =>
              Some {| chans := chans s; ctlq := rest; wakeups := w; proxy_alive := proxy_alive s; flag := flag s;
                      routes := routes s ++ [(nextrid s, (c, h))]; nextrid := S (nextrid s); stopped := false;
                      waiting_ack := waiting_ack s; effects := effects s |}
          | Shutdown :: rest =>
              Some {| chans := chans s; ctlq := rest; wakeups := w; proxy_alive := proxy_alive s; flag := flag s;
                      routes := []; nextrid := nextrid s; stopped := true; waiting_ack := waiting_ack s;
                      effects := effects s ++ drop_all (routes s) ++ [Ack] |}
          | [] => None                   (* msg_receiver.recv() would block: excluded by the pairing invariant *)
          end
      end
  | REvMsg r =>
      if stopped s then None else
      match lookup (routes s) r with
      | Some (c, h) =>
          match queue (get s c) with
          | x :: q' =>
              Some {| chans := set_nth (chans s) c {| queue := q'; hup := hup (get s c); sent := sent (get s c) |};
                      ctlq := ctlq s; wakeups := wakeups s; proxy_alive := proxy_alive s; flag := flag s; routes := routes s;
                      nextrid := nextrid s; stopped := false; waiting_ack := waiting_ack s; effects := effects s ++ [Call h c x] |}
          | [] => None
          end
      | None => None
      end
  | REvClosed r =>
      if stopped s then None else
      match lookup (routes s) r with
      | Some (c, h) =>
          match queue (get s c), hup (get s c) with
          | [], true =>
              Some {| chans := chans s; ctlq := ctlq s; wakeups := wakeups s; proxy_alive := proxy_alive s; flag := flag s;
                      routes := remove_key (routes s) r; nextrid := nextrid s; stopped := false; waiting_ack := waiting_ack s;
                      effects := effects s ++ [DropHandler h] |}
          | _, _ => None
          end
      | None => None
      end
  | REvWakeClosed =>
      if stopped s || proxy_alive s || negb (wakeups s =? 0) then None
      else Some {| chans := chans s; ctlq := ctlq s; wakeups := 0; proxy_alive := false; flag := flag s; routes := [];
                   nextrid := nextrid s; stopped := true; waiting_ack := waiting_ack s; effects := effects s ++ drop_all (routes s) |}
  end.

Fixpoint run (s : st) (ls : list label) : option st :=
  match ls with [] => Some s | l :: r => match step s l with Some s' => run s' r | None => None end end.

Definition init : st :=
  {| chans := []; ctlq := []; wakeups := 0; proxy_alive := true; flag := false; routes := []; nextrid := 1; stopped := false;
     waiting_ack := 0; effects := [] |}.

(* well-formed use: a channel's receiver is routed at most once, a handler identity is used once *)
Fixpoint routes_once (ls : list label) (cs hs : list nat) : bool :=
  match ls with
  | [] => true
  | PAddRoute c h :: r => negb (existsb (Nat.eqb c) cs) && negb (existsb (Nat.eqb h) hs) && routes_once r (c :: cs) (h :: hs)
  | _ :: r => routes_once r cs hs
  end.

Definition calls_of (h : hid) (es : list effect) : list nat :=
  flat_map (fun e => match e with Call h' _ x => if Nat.eqb h' h then [x] else [] | _ => [] end) es.
Definition drops_of (h : hid) (es : list effect) : nat :=
  length (filter (fun e => match e with DropHandler h' | DropArgs h' => Nat.eqb h' h | _ => false end) es).
