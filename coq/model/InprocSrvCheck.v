(* InprocSrvCheck: runs the InprocSrv LTS on the canonical schedule of a server-driver scenario of the in-process build
   (correspondence run only). *)
From Coq Require Import List Arith Bool.
From IPC Require Import InprocSrv.
Import ListNotations.
Fixpoint leqb {A} (e : A -> A -> bool) (l1 l2 : list A) : bool :=
  match l1, l2 with [], [] => true | x :: r, y :: s => e x y && leqb e r s | _, _ => false end.
Definition is_disc (o : robs) : bool := match o with ODisc => true | _ => false end.
(* accepted: accept returned Ok; seqs: sequence numbers obtained (accept's first); ended: the receiver finally said 'disconnected' *)
Definition check_isrv (pre : list label) (accepted : bool) (seqs : list nat) (ended : bool) : bool :=
  match run init pre with
  | Some s =>
      match phase s with
      | PDoneOk => accepted && leqb Nat.eqb (got s) seqs && Bool.eqb ended (match rev (obs s) with o :: _ => is_disc o | [] => false end)
                   && negb (reg s) && Nat.eqb (senders s) (clients s)
      | PDoneErr => negb accepted && match seqs with [] => true | _ => false end && negb (reg s)
      | _ => false
      end
  | None => false
  end.

(* sends of the clients (C09): results in order *)
Definition check_isrv_sends (pre : list label) (results : list bool) : bool :=
  match run init pre with
  | Some s => leqb Bool.eqb (sres s) results
  | None => false
  end.
