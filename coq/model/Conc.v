(* Conc: the packet-level protocol of one channel as a labelled transition system.
   Any number of senders, any messages, any fragmentation plans; the scheduler is an arbitrary list of labels.
     LStart p  - a sender queues the first packet of a new message on the shared socket (sendmsg)
     LFollow m - the sender of message m queues its next follow-up chunk on m's dedicated socket (send)
     LRFirst   - the receiver takes the next first packet from the shared socket (recvmsg)
     LRFollow  - the receiver takes the next chunk of the message it is reassembling from its dedicated socket (recv)
   `lin` is ghost state: the order in which first packets entered the shared queue. *)
From Coq Require Import List Arith Lia Bool.
Import ListNotations.


Section Conc.
Context {A : Type}.
Definition chunk := list A.
Definition mid := nat.
Record plan := { p_first : chunk; p_rest : list chunk }.
Definition pdata (p : plan) : list A := p_first p ++ concat (p_rest p).
Record firstpkt := { f_mid : mid; f_total : nat; f_chunk : chunk }.
Record rstate := { r_mid : mid; r_total : nat; r_buf : list A }.
Record sys := {
  mainq : list firstpkt; dedq : mid -> list chunk; tosend : mid -> list chunk;
  rcv : option rstate; delivered : list (list A); lin : list (mid * list A); next : mid }.
Definition upd {B} (f : mid -> B) (k : mid) (v : B) : mid -> B := fun x => if Nat.eqb x k then v else f x.
Lemma upd_same {B} (f : mid -> B) k v : upd f k v k = v.
Proof. unfold upd. now rewrite Nat.eqb_refl. Qed.
Lemma upd_other {B} (f : mid -> B) k v x : x <> k -> upd f k v x = f x.
Proof. unfold upd. intros H. destruct (Nat.eqb_spec x k); congruence. Qed.

Definition nonempty (cs : list chunk) := Forall (fun c : chunk => c <> []) cs.

Inductive label := LStart (p : plan) | LFollow (m : mid) | LRFirst | LRFollow.

Definition step (s : sys) (l : label) : option sys :=
  match l with
  | LStart p =>
      let m := next s in
      Some {| mainq := mainq s ++ [{| f_mid := m; f_total := length (pdata p); f_chunk := p_first p |}];
              dedq := upd (dedq s) m []; tosend := upd (tosend s) m (p_rest p);
              rcv := rcv s; delivered := delivered s; lin := lin s ++ [(m, pdata p)]; next := S m |}
  | LFollow m =>
      match tosend s m with
      | c :: cs => Some {| mainq := mainq s; dedq := upd (dedq s) m (dedq s m ++ [c]); tosend := upd (tosend s) m cs;
                           rcv := rcv s; delivered := delivered s; lin := lin s; next := next s |}
      | [] => None end
  | LRFirst =>
      match rcv s, mainq s with
      | None, pk :: q =>
          if Nat.eqb (f_total pk) (length (f_chunk pk)) then
            Some {| mainq := q; dedq := dedq s; tosend := tosend s; rcv := None;
                    delivered := delivered s ++ [f_chunk pk]; lin := lin s; next := next s |}
          else
            Some {| mainq := q; dedq := dedq s; tosend := tosend s;
                    rcv := Some {| r_mid := f_mid pk; r_total := f_total pk; r_buf := f_chunk pk |};
                    delivered := delivered s; lin := lin s; next := next s |}
      | _, _ => None end
  | LRFollow =>
      match rcv s with
      | Some r =>
          match dedq s (r_mid r) with
          | c :: cs =>
              let buf := r_buf r ++ c in
              if Nat.leb (r_total r) (length buf) then
                Some {| mainq := mainq s; dedq := upd (dedq s) (r_mid r) cs; tosend := tosend s; rcv := None;
                        delivered := delivered s ++ [buf]; lin := lin s; next := next s |}
              else
                Some {| mainq := mainq s; dedq := upd (dedq s) (r_mid r) cs; tosend := tosend s;
                        rcv := Some {| r_mid := r_mid r; r_total := r_total r; r_buf := buf |};
                        delivered := delivered s; lin := lin s; next := next s |}
          | [] => None end
      | None => None end
  end.

Definition wf_label (l : label) := match l with LStart p => nonempty (p_rest p) | _ => True end.

Fixpoint run (s : sys) (ls : list label) : option sys :=
  match ls with [] => Some s | l :: r => match step s l with Some s' => run s' r | None => None end end.

Definition init : sys :=
  {| mainq := []; dedq := fun _ => []; tosend := fun _ => []; rcv := None; delivered := []; lin := []; next := 0 |}.
End Conc.
