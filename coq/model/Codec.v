(* Codec: bincode-1 (default options: fixed-width little-endian integers, u64 lengths, u32 variant index,
   one-byte option tag, trailing bytes allowed) for a closed universe of types, together with the
   attachment side tables of ipc.rs:
     serialising a sender / receiver appends it to the channel list and writes its index (u64);
     a non-empty region is appended to the region list, an empty one is written as usize::MAX;
     deserialising looks the index up and TAKES the entry (an index out of range or already taken
     is an error - after the fix for C16; the entry can never be handed out twice). *)
From Coq Require Import List Arith ZArith Bool NArith.
Import ListNotations.
Open Scope Z_scope.

Definition byte := Z.                    (* 0..255 *)

Inductive ty :=
| TUnit | TBool | TU8 | TU32 | TU64 | TI64 | TF64 | TString
| TSeq (t : ty) | TOption (t : ty) | TTuple (ts : list ty) | TEnum (variants : list ty)
| TSender | TReceiver | TRegion.

Inductive val :=
| VUnit | VBool (b : bool) | VU8 (n : Z) | VU32 (n : Z) | VU64 (n : Z) | VI64 (n : Z) | VF64 (bits : Z)
| VString (bs : list byte) | VSeq (vs : list val) | VNone | VSome (v : val) | VTuple (vs : list val)
| VEnum (idx : nat) (v : val)
| VSender (e : nat) | VReceiver (e : nat)      (* e: identity of the endpoint object *)
| VRegion (r : option nat).                    (* None: the empty region *)

(* ---------- little-endian integers ---------- *)
Fixpoint le_bytes (n : nat) (x : Z) : list byte :=
  match n with O => [] | S k => (x mod 256) :: le_bytes k (x / 256) end.
Fixpoint le_value (bs : list byte) : Z :=
  match bs with [] => 0 | b :: r => b + 256 * le_value r end.

Definition take (n : nat) (bs : list byte) : option (list byte * list byte) :=
  if Nat.leb n (length bs) then Some (firstn n bs, skipn n bs) else None.

(* ---------- UTF-8 validation (what String deserialisation checks) ---------- *)
Fixpoint utf8_ok (fuel : nat) (bs : list byte) : bool :=
  match fuel with O => match bs with [] => true | _ => false end | S f =>
  match bs with
  | [] => true
  | b0 :: r =>
    if b0 <? 128 then utf8_ok f r
    else if (194 <=? b0) && (b0 <=? 223) then
      match r with b1 :: r' => (128 <=? b1) && (b1 <=? 191) && utf8_ok f r' | _ => false end
    else if (224 <=? b0) && (b0 <=? 239) then
      match r with
      | b1 :: b2 :: r' =>
          let lo := if b0 =? 224 then 160 else 128 in
          let hi := if b0 =? 237 then 159 else 191 in
          (lo <=? b1) && (b1 <=? hi) && (128 <=? b2) && (b2 <=? 191) && utf8_ok f r'
      | _ => false end
    else if (240 <=? b0) && (b0 <=? 244) then
      match r with
      | b1 :: b2 :: b3 :: r' =>
          let lo := if b0 =? 240 then 144 else 128 in
          let hi := if b0 =? 244 then 143 else 191 in
          (lo <=? b1) && (b1 <=? hi) && (128 <=? b2) && (b2 <=? 191) && (128 <=? b3) && (b3 <=? 191) && utf8_ok f r'
      | _ => false end
    else false
  end end.

(* ---------- serialisation ---------- *)
Inductive att := AChan (sender : bool) (e : nat).   (* entry of the channel list: a sender clone or a moved receiver *)
Record enc_state := { e_chans : list att; e_regions : list nat }.
Definition enc_init : enc_state := {| e_chans := []; e_regions := [] |}.
Definition usize_max : Z := 18446744073709551615.

Fixpoint enc (v : val) (st : enc_state) : list byte * enc_state :=
  match v with
  | VUnit => ([], st)
  | VBool b => ([if b then 1 else 0], st)
  | VU8 n => ([n mod 256], st)
  | VU32 n => (le_bytes 4 n, st)
  | VU64 n => (le_bytes 8 n, st)
  | VI64 n => (le_bytes 8 (n mod 2 ^ 64), st)
  | VF64 bits => (le_bytes 8 bits, st)
  | VString bs => (le_bytes 8 (Z.of_nat (length bs)) ++ bs, st)
  | VSeq vs =>
      let fix go (vs : list val) (st : enc_state) : list byte * enc_state :=
        match vs with [] => ([], st) | x :: r => let (b1, s1) := enc x st in let (b2, s2) := go r s1 in (b1 ++ b2, s2) end in
      let (body, st') := go vs st in (le_bytes 8 (Z.of_nat (length vs)) ++ body, st')
  | VNone => ([0], st)
  | VSome x => let (b, st') := enc x st in (1 :: b, st')
  | VTuple vs =>
      (fix go (vs : list val) (st : enc_state) : list byte * enc_state :=
        match vs with [] => ([], st) | x :: r => let (b1, s1) := enc x st in let (b2, s2) := go r s1 in (b1 ++ b2, s2) end) vs st
  | VEnum idx x => let (b, st') := enc x st in (le_bytes 4 (Z.of_nat idx) ++ b, st')
  | VSender e =>
      (le_bytes 8 (Z.of_nat (length (e_chans st))), {| e_chans := e_chans st ++ [AChan true e]; e_regions := e_regions st |})
  | VReceiver e =>
      (le_bytes 8 (Z.of_nat (length (e_chans st))), {| e_chans := e_chans st ++ [AChan false e]; e_regions := e_regions st |})
  | VRegion (Some r) =>
      (le_bytes 8 (Z.of_nat (length (e_regions st))), {| e_chans := e_chans st; e_regions := e_regions st ++ [r] |})
  | VRegion None => (le_bytes 8 usize_max, st)
  end.

(* ---------- deserialisation (total: every input yields a value or an error) ---------- *)
Record dec_state := { d_chans : list (option nat); d_regions : list (option nat) }.   (* None: already taken *)

Inductive dres (X : Type) := DOk (x : X) | DErr.
Arguments DOk {X} x. Arguments DErr {X}.

Fixpoint take_nth {X} (l : list (option X)) (i : nat) : option (X * list (option X)) :=
  match l, i with
  | [], _ => None
  | Some x :: t, O => Some (x, None :: t)
  | None :: _, O => None
  | h :: t, S j => match take_nth t j with Some (x, t') => Some (x, h :: t') | None => None end
  end.

Definition dec_index (bs : list byte) : option (Z * list byte) :=
  match take 8 bs with Some (h, r) => Some (le_value h, r) | None => None end.

(* `fuel` bounds the nesting depth + element count; the theorems use fuel = length of the input + size of the type *)
Fixpoint dec (fuel : nat) (t : ty) (bs : list byte) (st : dec_state) : dres (val * list byte * dec_state) :=
  match fuel with O => DErr | S f =>
  match t with
  | TUnit => DOk (VUnit, bs, st)
  | TBool => match bs with 0 :: r => DOk (VBool false, r, st) | 1 :: r => DOk (VBool true, r, st) | _ => DErr end
  | TU8 => match bs with b :: r => DOk (VU8 b, r, st) | [] => DErr end
  | TU32 => match take 4 bs with Some (h, r) => DOk (VU32 (le_value h), r, st) | None => DErr end
  | TU64 => match take 8 bs with Some (h, r) => DOk (VU64 (le_value h), r, st) | None => DErr end
  | TI64 => match take 8 bs with
            | Some (h, r) => let u := le_value h in DOk (VI64 (if u <? 2 ^ 63 then u else u - 2 ^ 64), r, st)
            | None => DErr end
  | TF64 => match take 8 bs with Some (h, r) => DOk (VF64 (le_value h), r, st) | None => DErr end
  | TString =>
      match take 8 bs with
      | Some (h, r) =>
          let n := le_value h in
          if Z.of_nat (length r) <? n then DErr else
          match take (Z.to_nat n) r with
          | Some (s, r') => if utf8_ok (S (length s)) s then DOk (VString s, r', st) else DErr
          | None => DErr end
      | None => DErr end
  | TSeq t' =>
      match take 8 bs with
      | Some (h, r) =>
          let n := le_value h in
          (* every element of the types in the universe that can sit in a sequence takes at least... possibly 0 bytes (unit):
             the element count is bounded by the fuel *)
          if Z.of_nat f <? n then DErr else
          (fix go (k : nat) (bs : list byte) (st : dec_state) (acc : list val) : dres (val * list byte * dec_state) :=
             match k with
             | O => DOk (VSeq (rev acc), bs, st)
             | S k' => match dec f t' bs st with DOk (v, bs', st') => go k' bs' st' (v :: acc) | DErr => DErr end
             end) (Z.to_nat n) r st []
      | None => DErr end
  | TOption t' =>
      match bs with
      | 0 :: r => DOk (VNone, r, st)
      | 1 :: r => match dec f t' r st with DOk (v, r', st') => DOk (VSome v, r', st') | DErr => DErr end
      | _ => DErr end
  | TTuple ts =>
      (fix go (ts : list ty) (bs : list byte) (st : dec_state) (acc : list val) : dres (val * list byte * dec_state) :=
         match ts with
         | [] => DOk (VTuple (rev acc), bs, st)
         | t' :: r => match dec f t' bs st with DOk (v, bs', st') => go r bs' st' (v :: acc) | DErr => DErr end
         end) ts bs st []
  | TEnum variants =>
      match take 4 bs with
      | Some (h, r) =>
          if Z.of_nat (length variants) <=? le_value h then DErr else   (* unknown variant; also keeps Z.to_nat small *)
          let i := Z.to_nat (le_value h) in
          match nth_error variants i with
          | Some t' => match dec f t' r st with DOk (v, r', st') => DOk (VEnum i v, r', st') | DErr => DErr end
          | None => DErr end
      | None => DErr end
  | TSender =>
      match dec_index bs with
      | Some (i, r) =>
          if Z.of_nat (length (d_chans st)) <=? i then DErr else
          match take_nth (d_chans st) (Z.to_nat i) with
          | Some (e, cs) => DOk (VSender e, r, {| d_chans := cs; d_regions := d_regions st |})
          | None => DErr end
      | None => DErr end
  | TReceiver =>
      match dec_index bs with
      | Some (i, r) =>
          if Z.of_nat (length (d_chans st)) <=? i then DErr else
          match take_nth (d_chans st) (Z.to_nat i) with
          | Some (e, cs) => DOk (VReceiver e, r, {| d_chans := cs; d_regions := d_regions st |})
          | None => DErr end
      | None => DErr end
  | TRegion =>
      match dec_index bs with
      | Some (i, r) =>
          if i =? usize_max then DOk (VRegion None, r, st) else
          if Z.of_nat (length (d_regions st)) <=? i then DErr else
          match take_nth (d_regions st) (Z.to_nat i) with
          | Some (g, rs) => DOk (VRegion (Some g), r, {| d_chans := d_chans st; d_regions := rs |})
          | None => DErr end
      | None => DErr end
  end end.

(* a whole message: bytes + attachment lists as they arrive (channels in order, regions in order) *)
Definition decode_msg (t : ty) (bs : list byte) (chans regions : list nat) : dres (val * dec_state) :=
  match dec (S (length bs) + 64) t bs {| d_chans := map Some chans; d_regions := map Some regions |} with
  | DOk (v, _, st) => DOk (v, st)
  | DErr => DErr
  end.

(* attachments the program did not get: released when the message object is dropped *)
Definition leftovers (st : dec_state) : list nat * list nat :=
  (flat_map (fun o => match o with Some e => [e] | None => [] end) (d_chans st),
   flat_map (fun o => match o with Some e => [e] | None => [] end) (d_regions st)).

Definition encode_msg (v : val) : list byte * list att * list nat :=
  let (bs, st) := enc v enc_init in (bs, e_chans st, e_regions st).
