(* Frag: OsIpcSender::send (unix/mod.rs) with its fragment loop and ENOBUFS recovery, and the
   receive path recv() with reassembly, as total functions over byte *ranges* of the message.
   A range (lo, hi) denotes the bytes data[lo..hi) of the message being sent; `interp` gives the
   denotation.  All sizes come from the GENERATED definitions in gen/Params.v. *)
From Coq Require Import ZArith List Bool Lia.
From IPC Require Import U64 Params.
Import ListNotations.
Open Scope Z_scope.

(* ---------- the ENOBUFS / EPIPE oracle: one entry per transmission attempt ---------- *)
Inductive fault := FOk | FNoBufs | FPipe.
Definition next_fault (fs : list fault) : fault * list fault :=
  match fs with [] => (FOk, []) | f :: r => (f, r) end.

Inductive sres := SOk | SNoBufs | SPipe.

(* what the sender asks the kernel to do, in order *)
Inductive ev :=
| EvSendmsg (total lo hi nrights : Z) (ded : bool) (r : sres) (* shared socket: header [total] ++ data[lo,hi), nrights descriptors *)
| EvSocketpair                                                (* dedicated channel for the follow-ups *)
| EvSend (lo hi : Z) (r : sres)                               (* dedicated socket: data[lo,hi) *)
| EvCloseDedRx | EvCloseDedTx.

Inductive outcome := Ok | ErrNoBufs | ErrPipe | ErrTooMany | Panic | Overflow | OutOfFuel.

Definition res_of (f : fault) : sres := match f with FOk => SOk | FNoBufs => SNoBufs | FPipe => SPipe end.

(* the while loop of send() once fragmentation has been decided; `sb` is the current estimate *)
Fixpoint frag_loop (fuel : nat) (len nfds sb pos : Z) (faults : list fault) : outcome * list ev :=
  match fuel with
  | O => (OutOfFuel, [])
  | S fuel' =>
    if pos <? len then
      let first := pos =? 0 in
      if negb (if first then send_first_end_safe sb else send_follow_end_safe pos sb len) then (Overflow, []) else
      let e := if first then send_first_end sb else send_follow_end pos sb len in
      if first && (len <? e) then (Panic, []) (* &data[..end] out of range *) else
      let (fl, rest) := next_fault faults in
      let mk := fun r => if first then EvSendmsg len 0 e (nfds + 1) true r else EvSend pos e r in
      match fl with
      | FOk =>
          let (o, evs) := frag_loop fuel' len nfds sb e rest in
          (o, mk SOk :: (if first then EvCloseDedRx :: evs else evs))
      | FNoBufs =>
          if negb (U.sub_ok e pos && downsize_safe sb (U.sub e pos)) then (Overflow, [mk SNoBufs]) else
          match downsize sb (U.sub e pos) with
          | Some sb' => let (o, evs) := frag_loop fuel' len nfds sb' pos rest in (o, mk SNoBufs :: evs)
          | None => (ErrNoBufs, [mk SNoBufs])
          end
      | FPipe => (ErrPipe, [mk SPipe])
      end
    else (Ok, [])
  end.

(* dedicated ends are dropped when send() returns, whatever the result;
   the read end is already gone if the first fragment went out (EvCloseDedRx in the trace) *)
Definition has_close_rx (evs : list ev) : bool :=
  existsb (fun e => match e with EvCloseDedRx => true | _ => false end) evs.
Definition finish_frag (r : outcome * list ev) : outcome * list ev :=
  let (o, evs) := r in
  (o, EvSocketpair :: evs ++ (if has_close_rx evs then [EvCloseDedTx] else [EvCloseDedRx; EvCloseDedTx])).

Definition go_frag (fuel : nat) (len nfds sb : Z) (faults : list fault) (pre : list ev) : outcome * list ev :=
  if MAX_FDS_IN_CMSG <? nfds + 1 then (ErrTooMany, pre)
  else let (o, evs) := finish_frag (frag_loop fuel len nfds sb 0 faults) in (o, pre ++ evs).

(* OsIpcSender::send: S = *SYSTEM_SENDBUF_SIZE, len = data.len(), nfds = channels + regions *)
Definition send (fuel : nat) (S len nfds : Z) (faults : list fault) : outcome * list ev :=
  if MAX_FDS_IN_CMSG <? nfds then (ErrTooMany, []) else
  if negb (first_fragment_size_safe S) then (Overflow, []) else
  if send_single_packet len S then
    let (fl, rest) := next_fault faults in
    let one := EvSendmsg len 0 len nfds false (res_of fl) in
    match fl with
    | FOk => (Ok, [one])
    | FNoBufs =>
        if negb (downsize_safe S len) then (Overflow, [one]) else
        match downsize S len with
        | Some sb' => go_frag fuel len nfds sb' rest [one]
        | None => (ErrNoBufs, [one])
        end
    | FPipe => (ErrPipe, [one])
    end
  else go_frag fuel len nfds S faults [].

(* ---------- what reaches the receiver ---------- *)
Record first_pkt := { fp_total : Z; fp_lo : Z; fp_hi : Z; fp_rights : Z; fp_ded : bool }.
Definition range := (Z * Z)%type.

Fixpoint shared_pkts (evs : list ev) : list first_pkt :=
  match evs with
  | [] => []
  | EvSendmsg t lo hi n d SOk :: r => {| fp_total := t; fp_lo := lo; fp_hi := hi; fp_rights := n; fp_ded := d |} :: shared_pkts r
  | _ :: r => shared_pkts r
  end.
Fixpoint ded_pkts (evs : list ev) : list range :=
  match evs with
  | [] => []
  | EvSend lo hi SOk :: r => (lo, hi) :: ded_pkts r
  | _ :: r => ded_pkts r
  end.

(* ---------- recv(): first read, fast path, reassembly loop ---------- *)
Inductive rres :=
| RMsg (buf : list range) (rights : Z) (rest : list range)   (* message complete; what is left in the dedicated queue *)
| RTruncatedFirst      (* kernel had to cut the first packet: data lost *)
| RTruncatedFollow     (* kernel had to cut a follow-up packet *)
| RClosedMidway (buf : list range)  (* dedicated socket reported end-of-file with bytes owed *)
| RNoDedicated         (* channels.pop().unwrap() on an empty list *)
| RCapacity            (* assert!(end_pos <= capacity) *)
| ROverflow | RFuel.

Definition blen (buf : list range) : Z := fold_right (fun r a => (snd r - fst r) + a) 0 buf.

Fixpoint recv_loop (fuel : nat) (S total cap : Z) (buf : list range) (q : list range) : rres :=
  match fuel with
  | O => RFuel
  | Datatypes.S fuel' =>
    let cur := blen buf in
    if cur <? total then
      if negb (recv_follow_end_safe cur S total) then ROverflow else
      let end_pos := recv_follow_end cur S total in
      if cap <? end_pos then RCapacity else
      if end_pos <? cur then ROverflow else
      match q with
      | [] => RClosedMidway buf
      | (lo, hi) :: q' =>
          if end_pos - cur <? hi - lo then RTruncatedFollow
          else recv_loop fuel' S total cap (buf ++ [(lo, hi)]) q'
      end
    else RMsg buf 0 q
  end.

Definition recv (fuel : nat) (S : Z) (p : first_pkt) (q : list range) : rres :=
  if negb (first_fragment_size_safe S) then ROverflow else
  let cap0 := first_fragment_size S in
  let n := fp_hi p - fp_lo p in
  if cap0 <? n then RTruncatedFirst else
  let rights := Z.min (fp_rights p) MAX_FDS_IN_CMSG in
  if fp_total p =? n then RMsg [(fp_lo p, fp_hi p)] rights q
  else if rights <=? 0 then RNoDedicated
  else if fp_total p <? n then ROverflow (* reserve_exact(total - len) *)
  else
    match recv_loop fuel S (fp_total p) (Z.max cap0 (fp_total p)) [(fp_lo p, fp_hi p)] q with
    | RMsg buf _ rest => RMsg buf (rights - 1) rest
    | r => r
    end.

(* end to end: send, then the receiver runs on what was queued *)
Definition roundtrip (fuel : nat) (Ssend Srecv len nfds : Z) (faults : list fault) : outcome * option rres :=
  let (o, evs) := send fuel Ssend len nfds faults in
  match shared_pkts evs with
  | [p] => (o, Some (recv fuel Srecv p (ded_pkts evs)))
  | _ => (o, None)
  end.

(* ---------- denotation of ranges ---------- *)
Section Interp.
  Context {A : Type}.
  Definition slice (data : list A) (r : range) : list A :=
    firstn (Z.to_nat (snd r - fst r)) (skipn (Z.to_nat (fst r)) data).
  Definition interp (data : list A) (buf : list range) : list A := concat (map (slice data) buf).
End Interp.
