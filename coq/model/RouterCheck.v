(* RouterCheck: runs the Router LTS on the canonical schedule of a router-driver scenario and compares the
   per-handler projections (which, by the theorems, do not depend on the interleaving). *)
From Coq Require Import List Arith Bool.
From IPC Require Import Router.
Import ListNotations.

Fixpoint leqb {A} (e : A -> A -> bool) (l1 l2 : list A) : bool :=
  match l1, l2 with [], [] => true | x :: r, y :: s => e x y && leqb e r s | _, _ => false end.

Definition is_panic (e : effect) : bool := match e with Panic => true | _ => false end.

Definition check_router (pre : list label) (obs : list (hid * (list nat * nat))) (stopped_expected : bool) : bool :=
  match run init pre with
  | Some s =>
      forallb (fun o => leqb Nat.eqb (calls_of (fst o) (effects s)) (fst (snd o)) && Nat.eqb (drops_of (fst o) (effects s)) (snd (snd o))) obs
      && negb (existsb is_panic (effects s)) && Bool.eqb (stopped s) stopped_expected
  | None => false
  end.
