(* Wire: order of the descriptors of one message on the wire and how the receiver sorts them.
   send(): fds = channels (senders and receivers, in order), then shared-memory regions (in order), then - only
   for a fragmented message - the receiving end of the dedicated fragment channel.
   recv(): walks the received descriptors in order; sockets become channels, everything else a region;
   for a fragmented message the LAST channel is popped and used as the dedicated receiver. *)
From Coq Require Import List Arith Bool.
Import ListNotations.

Inductive fdk := FSock (e : nat) | FReg (r : nat).

Definition wire (chans regions : list nat) (ded : option nat) : list fdk :=
  map FSock chans ++ map FReg regions ++ match ded with Some d => [FSock d] | None => [] end.

Fixpoint split (fds : list fdk) : list nat * list nat :=
  match fds with
  | [] => ([], [])
  | FSock e :: r => let (s, g) := split r in (e :: s, g)
  | FReg x :: r => let (s, g) := split r in (s, x :: g)
  end.

Definition recv_split (fds : list fdk) (fragmented : bool) : option (list nat * list nat * option nat) :=
  let (s, g) := split fds in
  if fragmented then
    match rev s with
    | d :: rs => Some (rev rs, g, Some d)
    | [] => None                       (* channels.pop().unwrap() on an empty list *)
    end
  else Some (s, g, None).

Lemma split_app a b : split (a ++ b) = (fst (split a) ++ fst (split b), snd (split a) ++ snd (split b)).
Proof.
  induction a as [|x a IH]; cbn [app split].
  - destruct (split b); reflexivity.
  - destruct x; rewrite IH; destruct (split a); destruct (split b); reflexivity.
Qed.

Lemma split_socks l : split (map FSock l) = (l, []).
Proof. induction l as [|x l IH]; cbn [map split]; [reflexivity|now rewrite IH]. Qed.
Lemma split_regs l : split (map FReg l) = ([], l).
Proof. induction l as [|x l IH]; cbn [map split]; [reflexivity|now rewrite IH]. Qed.

(* channels, regions and the dedicated receiver come out exactly as they went in, each list in order *)
Theorem wire_order : forall chans regions ded,
  recv_split (wire chans regions ded) (match ded with Some _ => true | None => false end) = Some (chans, regions, ded).
Proof.
  intros chans regions ded. unfold recv_split, wire.
  rewrite !split_app, split_socks, split_regs. cbn [fst snd app].
  destruct ded as [d|]; cbn [split fst snd]; rewrite ?app_nil_r.
  - rewrite rev_app_distr. cbn [rev app]. now rewrite rev_involutive.
  - reflexivity.
Qed.
