(* Server: one-shot server bootstrap (OsIpcOneShotServer / OsIpcSender::connect, unix/mod.rs) as a labelled
   transition system over a file-system name space, listening sockets with an accept queue, and connections.
     SNew          - server created: fresh temp dir + bound, listening socket; its name is the socket path
     CConnect n    - a client connects to name n: a new connection is queued on n's listener (fails - label not
                     enabled - if nothing listens on n)
     CSend k x     - the client of connection k sends message x (before or after accept, as it likes)
     CExit k       - the client of connection k exits / drops its sender (queued data survives: SO_LINGER)
     SAccept n     - accept() on server n: takes the oldest queued connection, reads its first message (only
                     enabled when there is one: accept blocks otherwise), then the server object is dropped:
                     listener closed, socket file and temp dir removed
     SDropUnused n - the server is dropped without accept
     RRecv k       - the receiver returned by accept reads the next message of connection k
   Names come from a counter (tempfile's uniqueness is assumed). *)
From Coq Require Import List Arith Bool.
Import ListNotations.

Record conn := { queue : list nat; hup : bool; sent : list nat; got : list nat (* ghost: delivered so far *) }.
Record server := { listening : bool; backlog : list nat (* connection ids *); dir : bool; accepted : option nat }.

Record st := {
  servers : list server;                 (* index = name *)
  conns : list conn;
  fs : list nat;                         (* names present in the file system *)
  open_listeners : nat }.                (* listening descriptors held by the process *)

Inductive label :=
| SNew | CConnect (n : nat) | CSend (k x : nat) | CExit (k : nat) | SAccept (n : nat) | SDropUnused (n : nat) | RRecv (k : nat).

Fixpoint set_nth {X} (l : list X) (i : nat) (v : X) : list X :=
  match l, i with [], _ => [] | _ :: t, O => v :: t | h :: t, S j => h :: set_nth t j v end.
Definition gsrv (s : st) (n : nat) : server := nth n (servers s) {| listening := false; backlog := []; dir := false; accepted := None |}.
Definition gconn (s : st) (k : nat) : conn := nth k (conns s) {| queue := []; hup := true; sent := []; got := [] |}.
Definition remove (x : nat) (l : list nat) : list nat := filter (fun y => negb (Nat.eqb x y)) l.

Definition step (s : st) (l : label) : option st :=
  match l with
  | SNew =>
      Some {| servers := servers s ++ [{| listening := true; backlog := []; dir := true; accepted := None |}]; conns := conns s;
              fs := length (servers s) :: fs s; open_listeners := S (open_listeners s) |}
  | CConnect n =>
      if (n <? length (servers s)) && listening (gsrv s n) && existsb (Nat.eqb n) (fs s) then
        let sv := gsrv s n in
        Some {| servers := set_nth (servers s) n {| listening := true; backlog := backlog sv ++ [length (conns s)]; dir := dir sv; accepted := accepted sv |};
                conns := conns s ++ [{| queue := []; hup := false; sent := []; got := [] |}]; fs := fs s; open_listeners := open_listeners s |}
      else None
  | CSend k x =>
      if (k <? length (conns s)) && negb (hup (gconn s k)) then
        let c := gconn s k in
        Some {| servers := servers s; conns := set_nth (conns s) k {| queue := queue c ++ [x]; hup := false; sent := sent c ++ [x]; got := got c |};
                fs := fs s; open_listeners := open_listeners s |}
      else None
  | CExit k =>
      if (k <? length (conns s)) && negb (hup (gconn s k)) then
        let c := gconn s k in
        Some {| servers := servers s; conns := set_nth (conns s) k {| queue := queue c; hup := true; sent := sent c; got := got c |};
                fs := fs s; open_listeners := open_listeners s |}
      else None
  | SAccept n =>
      if (n <? length (servers s)) && listening (gsrv s n) then
        match backlog (gsrv s n) with
        | k :: rest =>
            match queue (gconn s k) with
            | x :: q' =>
                let c := gconn s k in
                Some {| servers := set_nth (servers s) n {| listening := false; backlog := rest; dir := false; accepted := Some k |};
                        conns := set_nth (conns s) k {| queue := q'; hup := hup c; sent := sent c; got := got c ++ [x] |};
                        fs := remove n (fs s); open_listeners := pred (open_listeners s) |}
            | [] => None
            end
        | [] => None
        end
      else None
  | SDropUnused n =>
      if (n <? length (servers s)) && listening (gsrv s n) then
        Some {| servers := set_nth (servers s) n {| listening := false; backlog := backlog (gsrv s n); dir := false; accepted := None |};
                conns := conns s; fs := remove n (fs s); open_listeners := pred (open_listeners s) |}
      else None
  | RRecv k =>
      (* the receiving end of a connection only exists in the program once accept has returned it *)
      if (k <? length (conns s)) && existsb (fun sv => match accepted sv with Some k' => Nat.eqb k' k | None => false end) (servers s) then
        match queue (gconn s k) with
        | x :: q' =>
            let c := gconn s k in
            Some {| servers := servers s; conns := set_nth (conns s) k {| queue := q'; hup := hup c; sent := sent c; got := got c ++ [x] |};
                    fs := fs s; open_listeners := open_listeners s |}
        | [] => None
        end
      else None
  end.

Fixpoint run (s : st) (ls : list label) : option st :=
  match ls with [] => Some s | l :: r => match step s l with Some s' => run s' r | None => None end end.
Definition init : st := {| servers := []; conns := []; fs := []; open_listeners := 0 |}.
