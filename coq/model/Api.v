(* Api: the ideal model of the WHOLE single-process public API - what C19 calls "the sequence an ideal unbounded FIFO
   channel gives" - channels (as in Ideal.v) plus shared-memory regions as first-class handles, receiver sets and
   one-shot servers.  Built on the same reference-counting core K.  `Ideal` is the restriction of this model to
   create / clone / drop / send / receive (theorem api_conservative in proofs/ApiProofs.v). *)
From Coq Require Import List Arith ZArith Bool.
From IPC Require Import K Prog Ideal.
Import ListNotations.

Inductive aatt := XTx (h : hid) | XRx (h : hid) | XMem (h : hid).   (* clone of sender h / move receiver h / clone of region h *)

Inductive aop :=
| ANew | AClone (h : hid) | ADrop (h : hid)
| ASend (h : hid) (data : Z) (atts : list aatt)
| ARecv (h : hid)
| AShm (len seed : Z)              (* IpcSharedMemory::from_bytes of `len` bytes generated from `seed` *)
| AShmClone (h : hid)
| AShmRead (h : hid)               (* deref: length and contents *)
| ASetNew
| ASetAdd (s r : hid)              (* IpcReceiverSet::add: the receiver moves into the set *)
| ASelectAll (s : hid)             (* select repeated until every pending event of every member has been reported *)
| AServer                          (* IpcOneShotServer::new *)
| AConnect (s : hid)               (* IpcSender::connect(name of s) *)
| AAccept (s : hid).               (* IpcOneShotServer::accept, when a first message is there or no client sender is left *)

Inductive akind := HTx | HRx | HMem.
Inductive sev := SMsg (member : nat) (data : Z) (hs : list (akind * hid)) | SBad (member : nat) | SClosed (member : nat).

Inductive aout :=
| QNew (tx rx : hid) | QCloned (h : hid) | QDropped | QSent | QSendErr
| QMsg (data : Z) (hs : list (akind * hid)) | QEmpty | QDisconnected | QDecodeErr
| QShm (h : hid) | QShmRead (len seed : Z)
| QSet (h : hid) | QAdded (member : nat) | QSelect (evs : list sev)
| QServer (h : hid) | QConnected (h : hid) | QAccepted (rx : hid) (data : Z) (hs : list (akind * hid))
| QBad.

Inductive aobj :=
| OS (c : nat) | OR (c : nat) | OM (o : nat)
| OSet (ms : list (option nat))          (* member i: Some c while in the set, None once its closure was reported *)
| OSrv (c : nat) (connected : bool)      (* holds the receiving end of the rendezvous channel until accept *)
| OGone.

Record ast := { ak : kst; ah : list (hid * aobj); anext : hid; amem : list (Z * Z) }.
Definition a_init : ast := {| ak := k_init; ah := []; anext := 0; amem := [] |}.

Fixpoint a_resolve (hs : list (hid * aobj)) (atts : list aatt) : option (list ref * list (hid * aobj)) :=
  match atts with
  | [] => Some ([], hs)
  | XTx x :: r =>
      match lookup hs x with
      | Some (OS c) => match a_resolve hs r with Some (rs, hs') => Some (RS c :: rs, hs') | None => None end
      | _ => None
      end
  | XRx x :: r =>
      match lookup hs x with
      | Some (OR c) => match a_resolve (update hs x OGone) r with Some (rs, hs') => Some (RR c :: rs, hs') | None => None end
      | _ => None
      end
  | XMem x :: r =>
      match lookup hs x with
      | Some (OM o) => match a_resolve hs r with Some (rs, hs') => Some (RM o :: rs, hs') | None => None end
      | _ => None
      end
  end.

(* received rights become fresh handles, in order; regions too *)
Fixpoint a_install (hs : list (hid * aobj)) (n : hid) (rs : list ref) : list (hid * aobj) * hid * list (akind * hid) :=
  match rs with
  | [] => (hs, n, [])
  | RS c :: t => let '(hs', n', out) := a_install (hs ++ [(n, OS c)]) (S n) t in (hs', n', (HTx, n) :: out)
  | RR c :: t => let '(hs', n', out) := a_install (hs ++ [(n, OR c)]) (S n) t in (hs', n', (HRx, n) :: out)
  | RM o :: t => let '(hs', n', out) := a_install (hs ++ [(n, OM o)]) (S n) t in (hs', n', (HMem, n) :: out)
  end.

(* a payload the receiver's type rejects is written as negative data: the message is consumed, nothing it carried
   reaches the program, everything it carried is released *)
Definition undecodable (m : msg) : bool := (m_data m <? 0)%Z.
Fixpoint close_all (k : kst) (rs : list ref) : kst :=
  match rs with [] => k | r :: t => close_all (k_close k r) t end.

(* one member of a set: everything queued, then the closure if no sender reference is left.  select hands out RAW messages;
   they are decoded by the program afterwards.  What an undecodable message carried is therefore still referenced (by the raw
   message) while the set is being served: it is collected in `later` and released once every member has been served. *)
Fixpoint drain (fuel : nat) (k : kst) (hs : list (hid * aobj)) (n : hid) (i c : nat)
  : kst * list (hid * aobj) * hid * list sev * bool * list ref :=
  match fuel with
  | O => (k, hs, n, [], false, [])
  | S f =>
      match k_recv k c with
      | KMsg m k' =>
          if undecodable m then
            let '(k2, hs2, n2, evs, closed, later) := drain f k' hs n i c in
            (k2, hs2, n2, SBad i :: evs, closed, m_rights m ++ later)
          else
          let '(hs', n', out) := a_install hs n (m_rights m) in
          let '(k2, hs2, n2, evs, closed, later) := drain f k' hs' n' i c in
          (k2, hs2, n2, SMsg i (m_data m) out :: evs, closed, later)
      | KEmpty => (k, hs, n, [], false, [])
      | KClosed => (k_close k (RR c), hs, n, [SClosed i], true, [])
      end
  end.

Fixpoint select_all (k : kst) (hs : list (hid * aobj)) (n : hid) (i : nat) (ms : list (option nat))
  : kst * list (hid * aobj) * hid * list sev * list (option nat) * list ref :=
  match ms with
  | [] => (k, hs, n, [], [], [])
  | None :: r =>
      let '(k2, hs2, n2, evs, ms2, later) := select_all k hs n (S i) r in (k2, hs2, n2, evs, None :: ms2, later)
  | Some c :: r =>
      let '(k1, hs1, n1, ev1, closed, l1) := drain (S (length (q (get_chan k c)))) k hs n i c in
      let '(k2, hs2, n2, evs, ms2, l2) := select_all k1 hs1 n1 (S i) r in
      (k2, hs2, n2, ev1 ++ evs, (if closed then None else Some c) :: ms2, l1 ++ l2)
  end.

Fixpoint close_members (k : kst) (ms : list (option nat)) : kst :=
  match ms with
  | [] => k
  | Some c :: r => close_members (k_close k (RR c)) r
  | None :: r => close_members k r
  end.

Definition a_step (s : ast) (o : aop) : ast * aout :=
  let keep k hs n := {| ak := k; ah := hs; anext := n; amem := amem s |} in
  match o with
  | ANew =>
      let (k', c) := k_new (ak s) in
      (keep k' (ah s ++ [(anext s, OS c); (S (anext s), OR c)]) (S (S (anext s))), QNew (anext s) (S (anext s)))
  | AClone h =>
      match lookup (ah s) h with
      | Some (OS c) => (keep (k_dup (ak s) (RS c)) (ah s ++ [(anext s, OS c)]) (S (anext s)), QCloned (anext s))
      | _ => (s, QBad)
      end
  | ADrop h =>
      match lookup (ah s) h with
      | Some (OS c) => (keep (k_close (ak s) (RS c)) (update (ah s) h OGone) (anext s), QDropped)
      | Some (OR c) => (keep (k_close (ak s) (RR c)) (update (ah s) h OGone) (anext s), QDropped)
      | Some (OM o) => (keep (k_close (ak s) (RM o)) (update (ah s) h OGone) (anext s), QDropped)
      | Some (OSet ms) => (keep (close_members (ak s) ms) (update (ah s) h OGone) (anext s), QDropped)
      | Some (OSrv c _) => (keep (k_close (ak s) (RR c)) (update (ah s) h OGone) (anext s), QDropped)
      | _ => (s, QBad)
      end
  | ASend h data atts =>
      match lookup (ah s) h with
      | Some (OS c) =>
          match a_resolve (ah s) atts with
          | Some (rs, hs') =>
              match k_send (ak s) c {| m_data := data; m_rights := rs |} with
              | Some k' => (keep (close_moved k' rs) hs' (anext s), QSent)
              | None => (keep (close_moved (ak s) rs) hs' (anext s), QSendErr)
              end
          | None => (s, QBad)
          end
      | _ => (s, QBad)
      end
  | ARecv h =>
      match lookup (ah s) h with
      | Some (OR c) =>
          match k_recv (ak s) c with
          | KMsg m k' =>
              if undecodable m then (keep (close_all k' (m_rights m)) (ah s) (anext s), QDecodeErr) else
              let '(hs', n', out) := a_install (ah s) (anext s) (m_rights m) in
              (keep k' hs' n', QMsg (m_data m) out)
          | KEmpty => (s, QEmpty)
          | KClosed => (s, QDisconnected)
          end
      | _ => (s, QBad)
      end
  | AShm len seed =>
      let o := length (amem s) in
      ({| ak := k_dup (ak s) (RM o); ah := ah s ++ [(anext s, OM o)]; anext := S (anext s); amem := amem s ++ [(len, seed)] |},
       QShm (anext s))
  | AShmClone h =>
      match lookup (ah s) h with
      | Some (OM o) => (keep (k_dup (ak s) (RM o)) (ah s ++ [(anext s, OM o)]) (S (anext s)), QShm (anext s))
      | _ => (s, QBad)
      end
  | AShmRead h =>
      match lookup (ah s) h with
      | Some (OM o) => match nth_error (amem s) o with Some (l, sd) => (s, QShmRead l sd) | None => (s, QBad) end
      | _ => (s, QBad)
      end
  | ASetNew => (keep (ak s) (ah s ++ [(anext s, OSet [])]) (S (anext s)), QSet (anext s))
  | ASetAdd sh rh =>
      match lookup (ah s) sh, lookup (ah s) rh with
      | Some (OSet ms), Some (OR c) =>
          (keep (ak s) (update (update (ah s) rh OGone) sh (OSet (ms ++ [Some c]))) (anext s), QAdded (length ms))
      | _, _ => (s, QBad)
      end
  | ASelectAll sh =>
      match lookup (ah s) sh with
      | Some (OSet ms) =>
          let '(k', hs', n', evs, ms', later) := select_all (ak s) (ah s) (anext s) 0 ms in
          (keep (close_all k' later) (update hs' sh (OSet ms')) n', QSelect evs)
      | _ => (s, QBad)
      end
  | AServer =>
      let (k', c) := k_new (ak s) in
      (* nobody holds the sending end until a client connects *)
      (keep (k_close k' (RS c)) (ah s ++ [(anext s, OSrv c false)]) (S (anext s)), QServer (anext s))
  | AConnect sh =>
      match lookup (ah s) sh with
      | Some (OSrv c false) =>
          (keep (k_dup (ak s) (RS c)) (update (ah s) sh (OSrv c true) ++ [(anext s, OS c)]) (S (anext s)), QConnected (anext s))
      | _ => (s, QBad)
      end
  | AAccept sh =>
      match lookup (ah s) sh with
      | Some (OSrv c true) =>
          match k_recv (ak s) c with
          | KMsg m k' =>
              if undecodable m then (s, QBad) else      (* accept of an undecodable first message: not defined here *)
              let rx := anext s in
              let '(hs', n', out) := a_install (update (ah s) sh OGone ++ [(rx, OR c)]) (S rx) (m_rights m) in
              (keep k' hs' n', QAccepted rx (m_data m) out)
          | KClosed =>
              (* the client connected and every sender of the rendezvous channel is gone without a message: accept fails with
                 'disconnected'; the server is consumed and its receiving end released *)
              (keep (k_close (ak s) (RR c)) (update (ah s) sh OGone) (anext s), QDisconnected)
          | KEmpty => (s, QBad)      (* accept would block: outside what the model defines *)
          end
      | _ => (s, QBad)
      end
  end.

Fixpoint a_run (s : ast) (ops : list aop) : ast * list aout :=
  match ops with
  | [] => (s, [])
  | o :: r => let (s', out) := a_step s o in let (s'', outs) := a_run s' r in (s'', out :: outs)
  end.

(* ---- the embedding of Prog/Ideal ---- *)
Definition emb_att (a : att) : aatt := match a with ATx h => XTx h | ARx h => XRx h end.
Definition emb_op (o : op) : aop :=
  match o with
  | ONew => ANew | OClone h => AClone h | ODrop h => ADrop h
  | OSend h d atts => ASend h d (map emb_att atts) | ORecv h => ARecv h
  end.
Definition emb_kind (k : hkind) : akind := match k with KTx => HTx | KRx => HRx end.
Definition emb_out (o : outcome) : aout :=
  match o with
  | RNew a b => QNew a b | RCloned h => QCloned h | RDropped => QDropped | RSent => QSent | RSendErr => QSendErr
  | RMsg d hs => QMsg d (map (fun p => (emb_kind (fst p), snd p)) hs) | REmpty => QEmpty | RDisconnected => QDisconnected
  | RBad => QBad
  end.
Definition emb_obj (o : iobj) : aobj := match o with IS c => OS c | IR c => OR c | IGone => OGone end.
