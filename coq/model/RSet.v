(* RSet: OsIpcReceiverSet (unix/mod.rs) over an edge-triggered epoll instance, with concurrent senders.
   Kernel side (trusted, validated by the rset driver): a member is appended to the epoll ready list when it
   is added while readable or hung up, and on every later arrival of a packet or of the hang-up (an entry that
   is already listed is not listed twice); epoll_wait(max) removes and returns at most `max` entries from the
   front; it may also return EINTR.
   Library side: select() = wait until a non-empty batch comes back (EINTR: wait again); then for every
   member of the batch, in order, receive non-blocking until EWOULDBLOCK (batch moves on) or until
   end-of-file with an empty queue (report ChannelClosed(id), remove and close the member).
   The scheduler is an arbitrary list of labels: sender steps interleave with the library's steps at the
   granularity of single system calls.  Senders may die in the middle of a multi-fragment message (parameter `tornp`). *)
From Coq Require Import List Arith Bool.
Import ListNotations.

Definition cid := nat.      (* channel *)
Definition mid := nat.      (* member id handed out by add() *)

Record chanst := { queue : list nat;     (* message ids queued in the kernel, oldest first *)
                   hup : bool;           (* every sender reference is gone *)
                   sent : list nat }.    (* ghost: everything ever sent on this channel, in order *)

Inductive event := EvMsg (m : mid) (x : nat) | EvClosed (m : mid).

Inductive pc :=
| Idle                                   (* not inside select() *)
| Waiting                                (* inside select(), about to call epoll_wait *)
| Draining (batch : list mid) (acc : list event).  (* head of batch is being drained; acc = results so far *)

Record st := {
  chans : list chanst;
  members : list (mid * cid);            (* pollfds: live members of the set *)
  ready : list mid;                      (* the epoll ready list *)
  nextid : mid;
  where_ : pc;
  log : list event;                      (* ghost: everything select() has returned so far, in order *)
  added : list cid;                      (* ghost: channels whose receiver was ever added *)
  ever : list (mid * cid) }.             (* ghost: every (member id, channel) pair ever registered *)

Definition CAP := 10.                    (* Events::with_capacity(10); tied to gen/Params.EVENTS_CAPACITY by props/C06 *)

Inductive label :=
| LNewChan                               (* somebody creates a channel *)
| LSend (c : cid) (x : nat)              (* a sender queues message x on c *)
| LHup (c : cid)                         (* the last sender reference of c disappears *)
| LAdd (c : cid)                         (* the program adds c's receiver to the set (outside select) *)
| LSelect                                (* the program calls select() *)
| LWaitEintr                             (* epoll_wait returns EINTR *)
| LWait                                  (* epoll_wait returns a non-empty batch *)
| LRecv                                  (* one non-blocking recv on the head of the batch *)
| LReturn.                               (* batch exhausted: select() returns *)

Definition get (s : st) (c : cid) : chanst := nth c (chans s) {| queue := []; hup := false; sent := [] |}.
Fixpoint set_nth {X} (l : list X) (i : nat) (v : X) : list X :=
  match l, i with [], _ => [] | _ :: t, O => v :: t | h :: t, S j => h :: set_nth t j v end.

Fixpoint lookup (l : list (mid * cid)) (m : mid) : option cid :=
  match l with [] => None | (x, c) :: t => if Nat.eqb x m then Some c else lookup t m end.
Fixpoint member_of (l : list (mid * cid)) (c : cid) : option mid :=
  match l with [] => None | (x, c') :: t => if Nat.eqb c' c then Some x else member_of t c end.
Definition mem (x : nat) (l : list nat) : bool := existsb (Nat.eqb x) l.

(* an edge on channel c: if its receiver is a member and not listed yet, list it *)
Definition edge (s : st) (c : cid) : list mid :=
  match member_of (members s) c with
  | Some m => if mem m (ready s) then ready s else ready s ++ [m]
  | None => ready s
  end.

Definition upd_chan (s : st) (c : cid) (v : chanst) (r : list mid) : st :=
  {| chans := set_nth (chans s) c v; members := members s; ready := r; nextid := nextid s; where_ := where_ s;
     log := log s; added := added s; ever := ever s |}.

(* Messages a crashed sender left unfinished ("torn": the first fragment is queued on the channel, the rest never comes and the dedicated
   fragment socket is at end-of-file).  The free function recv() drops such a message and reads again IN THE SAME CALL, so a
   non-blocking receive behaves as if the torn messages at the head of the queue were not there: it returns the first complete
   message behind them, or EWOULDBLOCK, or - when every sender is gone - the closure.  Which messages are torn is a parameter
   (decided by the scheduler / the crash); to the kernel they are ordinary packets: they make the descriptor readable. *)
Section WithTorn.
Variable tornp : nat -> bool.

Fixpoint strip (l : list nat) : list nat :=
  match l with x :: r => if tornp x then strip r else l | [] => [] end.
Definition good (l : list nat) : list nat := filter (fun x => negb (tornp x)) l.

Definition step (s : st) (l : label) : option st :=
  match l with
  | LNewChan =>
      Some {| chans := chans s ++ [{| queue := []; hup := false; sent := [] |}]; members := members s; ready := ready s;
              nextid := nextid s; where_ := where_ s; log := log s; added := added s; ever := ever s |}
  | LSend c x =>
      if (c <? length (chans s)) && negb (hup (get s c)) then
        let ch := get s c in
        Some (upd_chan s c {| queue := queue ch ++ [x]; hup := false; sent := sent ch ++ [x] |} (edge s c))
      else None
  | LHup c =>
      if (c <? length (chans s)) && negb (hup (get s c)) then
        let ch := get s c in
        Some (upd_chan s c {| queue := queue ch; hup := true; sent := sent ch |} (edge s c))
      else None
  | LAdd c =>
      match where_ s with
      | Idle =>
          if (c <? length (chans s)) && negb (mem c (added s)) then
            let m := nextid s in
            let ch := get s c in
            let rdy := match queue ch with [] => hup ch | _ => true end in
            Some {| chans := chans s; members := members s ++ [(m, c)];
                    ready := if rdy then ready s ++ [m] else ready s;      (* registering a readable descriptor lists it at once *)
                    nextid := S m; where_ := Idle; log := log s; added := c :: added s; ever := ever s ++ [(m, c)] |}
          else None
      | _ => None
      end
  | LSelect =>
      match where_ s with
      | Idle => Some {| chans := chans s; members := members s; ready := ready s; nextid := nextid s; where_ := Waiting;
                        log := log s; added := added s; ever := ever s |}
      | _ => None
      end
  | LWaitEintr => match where_ s with Waiting => Some s | _ => None end
  | LWait =>
      match where_ s, ready s with
      | Waiting, _ :: _ =>
          Some {| chans := chans s; members := members s; ready := skipn CAP (ready s); nextid := nextid s;
                  where_ := Draining (firstn CAP (ready s)) []; log := log s; added := added s; ever := ever s |}
      | _, _ => None                     (* nothing ready: epoll_wait blocks *)
      end
  | LRecv =>
      match where_ s with
      | Draining (m :: rest) acc =>
          match lookup (members s) m with
          | Some c =>
              let ch0 := get s c in
              (* torn messages at the head are consumed and dropped by this very call *)
              let ch := {| queue := strip (queue ch0); hup := hup ch0; sent := sent ch0 |} in
              let chs := set_nth (chans s) c ch in
              match queue ch with
              | x :: q' =>
                  Some {| chans := set_nth chs c {| queue := q'; hup := hup ch; sent := sent ch |};
                          members := members s; ready := ready s; nextid := nextid s;
                          where_ := Draining (m :: rest) (acc ++ [EvMsg m x]); log := log s; added := added s; ever := ever s |}
              | [] =>
                  if hup ch then
                    (* end of file: report closure, forget the member (deregister + close) *)
                    Some {| chans := chs; members := filter (fun e => negb (Nat.eqb (fst e) m)) (members s);
                            ready := filter (fun x => negb (Nat.eqb x m)) (ready s); nextid := nextid s;
                            where_ := Draining rest (acc ++ [EvClosed m]); log := log s; added := added s; ever := ever s |}
                  else
                    (* EWOULDBLOCK: this member is drained, go on with the next one of the batch *)
                    Some {| chans := chs; members := members s; ready := ready s; nextid := nextid s;
                            where_ := Draining rest acc; log := log s; added := added s; ever := ever s |}
              end
          | None => None                 (* "Got event for unknown token." *)
          end
      | _ => None
      end
  | LReturn =>
      match where_ s with
      | Draining [] acc =>
          Some {| chans := chans s; members := members s; ready := ready s; nextid := nextid s; where_ := Idle;
                  log := log s ++ acc; added := added s; ever := ever s |}
      | _ => None
      end
  end.

Fixpoint run (s : st) (ls : list label) : option st :=
  match ls with [] => Some s | l :: r => match step s l with Some s' => run s' r | None => None end end.

End WithTorn.

Definition init : st :=
  {| chans := []; members := []; ready := []; nextid := 0; where_ := Idle; log := []; added := []; ever := [] |}.

(* what a member still owes the program *)
Definition pending (s : st) (c : cid) : bool := match queue (get s c) with [] => hup (get s c) | _ => true end.

(* events of one member, in the order select() returned them, including the batch under construction *)
Definition acc_of (s : st) : list event := match where_ s with Draining _ acc => acc | _ => [] end.
Definition events_of (s : st) (m : mid) : list event :=
  filter (fun e => match e with EvMsg m' _ | EvClosed m' => Nat.eqb m' m end) (log s ++ acc_of s).
