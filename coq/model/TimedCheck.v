(* TimedCheck: compares outcomes and the flag/poll/recvmsg call pattern of a sequence of receive attempts with Timed.run. *)
From Coq Require Import ZArith List Bool.
From IPC Require Import Timed.
Import ListNotations.
Open Scope Z_scope.

Definition out_eqb (a b : outcome) : bool :=
  match a, b with OMsg, OMsg | OEmpty, OEmpty | ODisconnected, ODisconnected | OBlocked, OBlocked => true | _, _ => false end.
Definition call_eqb (a b : call) : bool :=
  match a, b with
  | CSetfl x, CSetfl y => Bool.eqb x y
  | CPoll x r, CPoll y s => (x =? y) && Bool.eqb r s
  | CRecvmsg x, CRecvmsg y => Bool.eqb x y
  | _, _ => false
  end.
Fixpoint leqb {A} (e : A -> A -> bool) (l1 l2 : list A) : bool :=
  match l1, l2 with [], [] => true | x :: r, y :: s => e x y && leqb e r s | _, _ => false end.

Definition check_timed (ops : list (mode * qstate * option qstate)) (outs : list outcome) (calls : list call) : bool :=
  let '(os, cs, f) := run false ops in leqb out_eqb os outs && leqb call_eqb cs calls && negb f.

(* the receive that follows a crashed sender: `torn` unfinished messages, then the state q *)
Definition check_recv_all (m : mode) (torn : nat) (q : qstate) (during : option qstate) (out : outcome) (calls : list call) : bool :=
  let '(o, cs, f) := recv_all m torn q during false in out_eqb o out && leqb call_eqb cs calls && negb f.

(* sequences in which some timed waits are interrupted by a signal *)
Definition outs_eqb (a b : outcome_s) : bool :=
  match a, b with SOut x, SOut y => out_eqb x y | SInterrupted, SInterrupted => true | _, _ => false end.
Definition calls_eqb (a b : call_s) : bool :=
  match a, b with SCall x, SCall y => call_eqb x y | SPollIntr x, SPollIntr y => x =? y | _, _ => false end.
Definition check_timed_sig (ops : list (mode * qstate * option qstate * bool)) (outs : list outcome_s) (calls : list call_s) : bool :=
  let '(os, cs, f) := run_sig false ops in leqb outs_eqb os outs && leqb calls_eqb cs calls && negb f.

(* in-process build: outcomes only (there are no system calls to compare) *)
Definition check_inproc_timed (ops : list (mode * qstate * option qstate)) (outs : list outcome) : bool :=
  leqb out_eqb (inproc_run ops) outs.
