(* ErrMap: what the receive calls REPORT for what the transport's receive attempt produced.  UnixCmsg::recv / recv() hand back a
   UnixError; `impl From<UnixError> for ipc::TryRecvError` and `for ipc::IpcError` turn it into the public result.  Both conversions
   are GENERATED from the source (Params.try_recv_class_*, Params.recv_class_*; classes 0 = 'empty', 1 = 'disconnected', 2 = I/O error);
   here they are connected with the outcomes of the Timed model. *)
From Coq Require Import ZArith List Bool.
From IPC Require Import U64 Params Timed.
Open Scope Z_scope.

Inductive uerr := UClosed | UErrno (code : Z).

Definition class_try (e : uerr) : Z :=
  match e with UClosed => try_recv_class_closed | UErrno c => try_recv_class_errno c end.
Definition class_recv (e : uerr) : Z :=
  match e with UClosed => recv_class_closed | UErrno c => recv_class_errno c end.

(* the error the transport produces for each outcome of an attempt that yields no message: a zero-length read or a hang-up is
   ChannelClosed; poll's time-out and recvmsg's EAGAIN are Errno(EAGAIN); an interrupted poll is Errno(EINTR) *)
Definition err_of (o : outcome_s) : option uerr :=
  match o with
  | SOut OEmpty => Some (UErrno EAGAIN)
  | SOut ODisconnected => Some UClosed
  | SInterrupted => Some (UErrno EINTR)
  | SOut OMsg | SOut OBlocked => None
  end.

(* what try_recv / try_recv_timeout report *)
Definition reported_try (o : outcome_s) : option Z := option_map class_try (err_of o).
(* what the blocking recv reports *)
Definition reported_recv (o : outcome_s) : option Z := option_map class_recv (err_of o).
