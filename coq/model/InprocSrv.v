(* InprocSrv: the one-shot server of the IN-PROCESS transport (platform/inprocess/mod.rs: ServerRecord, ONE_SHOT_SERVERS,
   OsIpcSender::connect, OsIpcOneShotServer::new / accept) as a labelled transition system at the granularity of the
   statements of accept(), so that a client may act between any two of them.

   The registry maps the server's name to a ServerRecord { sender, conn_sender, conn_receiver }.  The record OWNS a sender of
   the rendezvous channel; every clone of the record owns another one.  References to the sending end are therefore:
        1 if the registry still has the entry  +  1 while accept() holds its clone of the record  +  the clients' handles.
     INew        new(): channel, record in the registry (the record's sender is the only sender)
     IConnect    connect(): clone the record, push a connection token, keep the clone's sender as the client's handle
     IClone / IDropTx   the client clones / drops a sender handle
     ISend x     a client handle sends x
     IAcc1       accept(): lock the registry and clone the record            (accept now holds a sender)
     IAcc2       accept(): record.accept() - take a connection token (blocks while there is none)
     IAcc3       accept(): drop(record)                                      (commit a2ffe27; without it the clone lives until accept returns)
     IAcc4       accept(): remove the registry entry
     IAcc5       accept(): receiver.recv() - the first message; 'closed' if the queue is empty and no sender is left; blocks otherwise
     IRecv       the receiver returned by accept: next message / Empty / Disconnected (try_recv flavour, never blocks)
     IDropSrv    the server object is dropped unaccepted (its receiver is dropped with it; the registry entry - and its sender - stay)
     IDropRx     the receiver returned by accept is dropped
   A send succeeds (and queues) exactly while the receiving end exists. *)
From Coq Require Import List Arith Bool.
Import ListNotations.

Inductive aphase := PIdle | PCloned | PToken | PDropped | PRemoved | PDoneOk | PDoneErr.
Inductive robs := OMsg (x : nat) | OEmpty | ODisc.

Record st := {
  created : bool;
  reg : bool;               (* the registry holds the record *)
  tokens : nat;             (* connection tokens waiting in the record's channel *)
  phase : aphase;
  clients : nat;            (* sender handles in the hands of clients *)
  nconn : nat;              (* ghost: connects so far *)
  queue : list nat;
  sent : list nat;          (* ghost *)
  got : list nat;           (* ghost: accept's first message, then what the receiver read *)
  obs : list robs;          (* ghost: answers of the receiver after accept *)
  rxlive : bool;            (* the receiving end exists (in the server object, or handed out by accept) *)
  sres : list bool }.       (* ghost: results of the clients' sends, in order (true = Ok) *)

Definition init : st :=
  {| created := false; reg := false; tokens := 0; phase := PIdle; clients := 0; nconn := 0; queue := []; sent := []; got := []; obs := [];
     rxlive := false; sres := [] |}.

(* does accept() currently hold its own clone of the record (and with it a sender)? *)
Definition holds_clone (p : aphase) : bool := match p with PCloned | PToken => true | _ => false end.
(* all references to the sending end of the rendezvous channel *)
Definition senders (s : st) : nat := (if reg s then 1 else 0) + (if holds_clone (phase s) then 1 else 0) + clients s.

Inductive label := INew | IConnect | IClone | IDropTx | ISend (x : nat) | IAcc1 | IAcc2 | IAcc3 | IAcc4 | IAcc5 | IRecv
                   | IDropSrv     (* the server object is dropped without accept() ever being called: its receiver goes, the registry entry stays *)
                   | IDropRx.     (* the receiver returned by accept is dropped *)

Definition upd (s : st) (r : bool) (t : nat) (p : aphase) (c : nat) (q sn g : list nat) (o : list robs) : st :=
  {| created := created s; reg := r; tokens := t; phase := p; clients := c; nconn := nconn s; queue := q; sent := sn; got := g; obs := o;
     rxlive := rxlive s; sres := sres s |}.
(* a send that finds no receiving end: BrokenPipe, nothing queued *)
Definition refused (s : st) : st :=
  {| created := created s; reg := reg s; tokens := tokens s; phase := phase s; clients := clients s; nconn := nconn s; queue := queue s;
     sent := sent s; got := got s; obs := obs s; rxlive := rxlive s; sres := sres s ++ [false] |}.
Definition accepted_send (s : st) : st :=
  {| created := created s; reg := reg s; tokens := tokens s; phase := phase s; clients := clients s; nconn := nconn s; queue := queue s;
     sent := sent s; got := got s; obs := obs s; rxlive := rxlive s; sres := sres s ++ [true] |}.
Definition set_rx (s : st) (b : bool) : st :=
  {| created := created s; reg := reg s; tokens := tokens s; phase := phase s; clients := clients s; nconn := nconn s; queue := queue s;
     sent := sent s; got := got s; obs := obs s; rxlive := b; sres := sres s |}.

Definition step (s : st) (l : label) : option st :=
  match l with
  | INew => if created s then None else
      Some {| created := true; reg := true; tokens := 0; phase := PIdle; clients := 0; nconn := 0; queue := []; sent := []; got := []; obs := [];
              rxlive := true; sres := [] |}
  | IConnect => if reg s then
      Some {| created := created s; reg := true; tokens := S (tokens s); phase := phase s; clients := S (clients s); nconn := S (nconn s);
              queue := queue s; sent := sent s; got := got s; obs := obs s; rxlive := rxlive s; sres := sres s |} else None
      (* connect to a name that is not (or no longer) registered: `.get(&name).unwrap()` - outside the model *)
  | IClone => match clients s with O => None | S _ => Some (upd s (reg s) (tokens s) (phase s) (S (clients s)) (queue s) (sent s) (got s) (obs s)) end
  | IDropTx => match clients s with O => None | S c => Some (upd s (reg s) (tokens s) (phase s) c (queue s) (sent s) (got s) (obs s)) end
  | ISend x => match clients s with O => None | S _ =>
                 if rxlive s then Some (accepted_send (upd s (reg s) (tokens s) (phase s) (clients s) (queue s ++ [x]) (sent s ++ [x]) (got s) (obs s)))
                 else Some (refused s) end
  | IAcc1 => match phase s with PIdle => if reg s && rxlive s then Some (upd s true (tokens s) PCloned (clients s) (queue s) (sent s) (got s) (obs s)) else None | _ => None end
  | IAcc2 => match phase s, tokens s with
             | PCloned, S t => Some (upd s (reg s) t PToken (clients s) (queue s) (sent s) (got s) (obs s))
             | _, _ => None end                    (* no token: record.accept() blocks *)
  | IAcc3 => match phase s with PToken => Some (upd s (reg s) (tokens s) PDropped (clients s) (queue s) (sent s) (got s) (obs s)) | _ => None end
  | IAcc4 => match phase s with PDropped => Some (upd s false (tokens s) PRemoved (clients s) (queue s) (sent s) (got s) (obs s)) | _ => None end
  | IAcc5 => match phase s with
             | PRemoved =>
                 match queue s with
                 | x :: q => Some (upd s (reg s) (tokens s) PDoneOk (clients s) q (sent s) (got s ++ [x]) (obs s))
                 | [] => if Nat.eqb (senders s) 0 then Some (upd s (reg s) (tokens s) PDoneErr (clients s) [] (sent s) (got s) (obs s)) else None
                 end
             | _ => None end
  | IRecv => match phase s with
             | PDoneOk => if negb (rxlive s) then None else
                 match queue s with
                 | x :: q => Some (upd s (reg s) (tokens s) PDoneOk (clients s) q (sent s) (got s ++ [x]) (obs s ++ [OMsg x]))
                 | [] => Some (upd s (reg s) (tokens s) PDoneOk (clients s) [] (sent s) (got s)
                                   (obs s ++ [if Nat.eqb (senders s) 0 then ODisc else OEmpty]))
                 end
             | _ => None end
  | IDropSrv => match phase s with PIdle => if created s && rxlive s then Some (set_rx s false) else None | _ => None end
  | IDropRx => match phase s with PDoneOk => if rxlive s then Some (set_rx s false) else None | _ => None end
  end.

Fixpoint run (s : st) (ls : list label) : option st :=
  match ls with [] => Some s | l :: r => match step s l with Some s' => run s' r | None => None end end.
