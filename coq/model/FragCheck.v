(* FragCheck: compares what the implementation did (system-call trace of one send and one recv,
   projected by the harness) with what the model prescribes.  Used only by the correspondence run. *)
From Coq Require Import ZArith List Bool.
From IPC Require Import U64 Params Frag.
Import ListNotations.
Open Scope Z_scope.

(* one observed call of the sending thread, roles already inferred from descriptor numbers *)
Inductive oev :=
| OSendmsg (bytes hdr rights : Z) (r : sres)   (* sendmsg on the channel's own socket *)
| OSocketpair
| OSend (bytes : Z) (r : sres)                 (* send on the sending end of the pair created in this call *)
| OCloseRx | OCloseTx
| OOther.                                      (* a transmission on any other descriptor *)

Definition proj (e : ev) : oev :=
  match e with
  | EvSendmsg total lo hi n _ r => OSendmsg (8 + (hi - lo)) total n r
  | EvSocketpair => OSocketpair
  | EvSend lo hi r => OSend (hi - lo) r
  | EvCloseDedRx => OCloseRx
  | EvCloseDedTx => OCloseTx
  end.

Definition sres_eqb (a b : sres) : bool :=
  match a, b with SOk, SOk | SNoBufs, SNoBufs | SPipe, SPipe => true | _, _ => false end.

Definition oev_eqb (a b : oev) : bool :=
  match a, b with
  | OSendmsg b1 h1 r1 s1, OSendmsg b2 h2 r2 s2 => (b1 =? b2) && (h1 =? h2) && (r1 =? r2) && sres_eqb s1 s2
  | OSocketpair, OSocketpair | OCloseRx, OCloseRx | OCloseTx, OCloseTx | OOther, OOther => true
  | OSend b1 s1, OSend b2 s2 => (b1 =? b2) && sres_eqb s1 s2
  | _, _ => false
  end.

Definition outcome_eqb (a b : outcome) : bool :=
  match a, b with
  | Ok, Ok | ErrNoBufs, ErrNoBufs | ErrPipe, ErrPipe | ErrTooMany, ErrTooMany
  | Panic, Panic | Overflow, Overflow | OutOfFuel, OutOfFuel => true
  | _, _ => false
  end.

Fixpoint list_eqb {A} (eqb : A -> A -> bool) (l1 l2 : list A) : bool :=
  match l1, l2 with
  | [], [] => true
  | x :: r1, y :: r2 => eqb x y && list_eqb eqb r1 r2
  | _, _ => false
  end.

Definition fuel_for (len : Z) (faults : list fault) : nat := (Z.to_nat (len / 900 + 64) + length faults)%nat.

Definition model_send (S len nfds : Z) (faults : list fault) : outcome * list oev :=
  let (o, evs) := send (fuel_for len faults) S len nfds faults in (o, map proj evs).

Definition check_send (S len nfds : Z) (faults : list fault) (o : outcome) (obs : list oev) : bool :=
  let (o', evs) := model_send S len nfds faults in outcome_eqb o o' && list_eqb oev_eqb evs obs.

(* instrumented twin of recv/recv_loop: the buffer sizes offered and the byte counts returned *)
Fixpoint follow_reads (fuel : nat) (S total cur : Z) (q : list range) : list (Z * Z) :=
  match fuel with
  | O => []
  | Datatypes.S fuel' =>
    if cur <? total then
      let want := recv_follow_end cur S total - cur in
      match q with
      | [] => [(want, 0)]
      | (lo, hi) :: q' => let got := Z.min (hi - lo) want in (want, got) :: follow_reads fuel' S total (cur + got) q'
      end
    else []
  end.

Record robs := { ro_cap : Z; ro_ctl : Z; ro_got : Z; ro_rights : Z; ro_reads : list (Z * Z) }.

Definition model_recv (S len nfds : Z) (faults : list fault) : option robs :=
  let (o, evs) := send (fuel_for len faults) S len nfds faults in
  match shared_pkts evs with
  | p :: _ =>
      let n := Z.min (fp_hi p - fp_lo p) (first_fragment_size S) in
      Some {| ro_cap := 8 + first_fragment_size S; ro_ctl := recv_ctl_cap; ro_got := 8 + n;
              ro_rights := Z.min (fp_rights p) MAX_FDS_IN_CMSG;
              ro_reads := if fp_total p =? n then [] else follow_reads (fuel_for len faults) S (fp_total p) n (ded_pkts evs) |}
  | [] => None
  end.

Definition pair_eqb (a b : Z * Z) : bool := (fst a =? fst b) && (snd a =? snd b).

Definition check_recv (S len nfds : Z) (faults : list fault) (cap ctl got rights : Z) (reads : list (Z * Z)) : bool :=
  match model_recv S len nfds faults with
  | Some r => (ro_cap r =? cap) && (ro_ctl r =? ctl) && (ro_got r =? got) && (ro_rights r =? rights)
              && list_eqb pair_eqb (ro_reads r) reads
  | None => false
  end.
