(* Crash: Conc extended with senders that die (or give up) in the middle of a fragmented send, and the
   receiver's reaction after the fix for C12: end-of-file on the dedicated socket while bytes are
   still owed discards the partial message and reception continues with the next one.
     LStart p  - first packet of a new message enters the shared queue (sendmsg on the channel socket)
     LFollow m - next follow-up chunk of message m enters m's dedicated queue (send on the dedicated socket)
     LCrash m  - the sender of m dies before finishing m: its remaining chunks are never sent, its end of the
                 dedicated socket is closed by the kernel.  Only possible while chunks remain (a crash
                 after send returned changes nothing about m).
     LRFirst   - receiver takes the next first packet (recvmsg)
     LRFollow  - receiver takes the next chunk of the message under reassembly (recv on the dedicated socket)
     LRSkip    - recv on the dedicated socket returns 0 (queue empty, sending end closed) with bytes owed:
                 drop the partial buffer, no message is delivered
   Ghost state: lin (order in which first packets were queued), aborted (messages hit by LCrash). *)
From Coq Require Import List Arith Lia Bool.
Import ListNotations.

Section Crash.
Context {A : Type}.
Definition chunk := list A.
Definition mid := nat.
Record plan := { p_first : chunk; p_rest : list chunk }.
Definition pdata (p : plan) : list A := p_first p ++ concat (p_rest p).
Record firstpkt := { f_mid : mid; f_total : nat; f_chunk : chunk }.
Record rstate := { r_mid : mid; r_total : nat; r_buf : list A }.
Record sys := {
  mainq : list firstpkt; dedq : mid -> list chunk; tosend : mid -> list chunk;
  rcv : option rstate; delivered : list (list A); lin : list (mid * list A); next : mid;
  aborted : list mid }.

Definition upd {B} (f : mid -> B) (k : mid) (v : B) : mid -> B := fun x => if Nat.eqb x k then v else f x.

Definition nonempty (cs : list chunk) := Forall (fun c : chunk => c <> []) cs.

Inductive label := LStart (p : plan) | LFollow (m : mid) | LCrash (m : mid) | LRFirst | LRFollow | LRSkip.

Definition is_nil {B} (l : list B) : bool := match l with [] => true | _ => false end.

Definition step (s : sys) (l : label) : option sys :=
  match l with
  | LStart p =>
      let m := next s in
      Some {| mainq := mainq s ++ [{| f_mid := m; f_total := length (pdata p); f_chunk := p_first p |}];
              dedq := upd (dedq s) m []; tosend := upd (tosend s) m (p_rest p);
              rcv := rcv s; delivered := delivered s; lin := lin s ++ [(m, pdata p)]; next := S m;
              aborted := aborted s |}
  | LFollow m =>
      match tosend s m with
      | c :: cs => Some {| mainq := mainq s; dedq := upd (dedq s) m (dedq s m ++ [c]); tosend := upd (tosend s) m cs;
                           rcv := rcv s; delivered := delivered s; lin := lin s; next := next s; aborted := aborted s |}
      | [] => None end
  | LCrash m =>
      match tosend s m with
      | _ :: _ => Some {| mainq := mainq s; dedq := dedq s; tosend := upd (tosend s) m [];
                          rcv := rcv s; delivered := delivered s; lin := lin s; next := next s; aborted := m :: aborted s |}
      | [] => None end
  | LRFirst =>
      match rcv s, mainq s with
      | None, pk :: q =>
          if Nat.eqb (f_total pk) (length (f_chunk pk)) then
            Some {| mainq := q; dedq := dedq s; tosend := tosend s; rcv := None;
                    delivered := delivered s ++ [f_chunk pk]; lin := lin s; next := next s; aborted := aborted s |}
          else
            Some {| mainq := q; dedq := dedq s; tosend := tosend s;
                    rcv := Some {| r_mid := f_mid pk; r_total := f_total pk; r_buf := f_chunk pk |};
                    delivered := delivered s; lin := lin s; next := next s; aborted := aborted s |}
      | _, _ => None end
  | LRFollow =>
      match rcv s with
      | Some r =>
          match dedq s (r_mid r) with
          | c :: cs =>
              let buf := r_buf r ++ c in
              if Nat.leb (r_total r) (length buf) then
                Some {| mainq := mainq s; dedq := upd (dedq s) (r_mid r) cs; tosend := tosend s; rcv := None;
                        delivered := delivered s ++ [buf]; lin := lin s; next := next s; aborted := aborted s |}
              else
                Some {| mainq := mainq s; dedq := upd (dedq s) (r_mid r) cs; tosend := tosend s;
                        rcv := Some {| r_mid := r_mid r; r_total := r_total r; r_buf := buf |};
                        delivered := delivered s; lin := lin s; next := next s; aborted := aborted s |}
          | [] => None end
      | None => None end
  | LRSkip =>
      match rcv s with
      | Some r =>
          if is_nil (dedq s (r_mid r)) && is_nil (tosend s (r_mid r)) then
            Some {| mainq := mainq s; dedq := dedq s; tosend := tosend s; rcv := None;
                    delivered := delivered s; lin := lin s; next := next s; aborted := aborted s |}
          else None
      | None => None end
  end.

Definition wf_label (l : label) := match l with LStart p => nonempty (p_rest p) | _ => True end.

Fixpoint run (s : sys) (ls : list label) : option sys :=
  match ls with [] => Some s | l :: r => match step s l with Some s' => run s' r | None => None end end.

Definition init : sys :=
  {| mainq := []; dedq := fun _ => []; tosend := fun _ => []; rcv := None; delivered := []; lin := []; next := 0;
     aborted := [] |}.

Definition is_aborted (s : sys) (m : mid) : bool := existsb (Nat.eqb m) (aborted s).
(* the messages of a list of linearised entries that were not abandoned by their sender *)
Definition survivors (s : sys) (l : list (mid * list A)) : list (list A) :=
  map snd (filter (fun d => negb (is_aborted s (fst d))) l).

(* nothing left to do for anybody *)
Definition quiescent (s : sys) : Prop :=
  mainq s = [] /\ rcv s = None /\ forall m, tosend s m = [].
End Crash.
