(* Unix: the same programs as the library executes them on the unix back end - descriptors, Arc-shared
   sender descriptors, receivers that are consumed (descriptor -1) when serialised, one close per owner.
   The kernel's held references ARE the process's descriptor table (held = map snd fdt).
   Every descriptor-lifecycle call is recorded in `utrace` for the ledger comparison (C11). *)
From Coq Require Import List Arith ZArith Bool.
From IPC Require Import K Prog Ideal.
Import ListNotations.

Definition fd := nat.
Definition aid := nat.
Inductive uobj := US (a : aid) | UR (f : option fd) | UGone.
Inductive call :=
| CSocketpair (a b : fd) | CClose (f : fd) | CBadClose (f : fd)   (* close of a descriptor that is not open: EBADF *)
| CSendmsg (f : fd) (nrights : nat) (ok : bool) | CRecvmsg (f : fd) (res : nat) | CInstall (f : fd).

Record ust := {
  uchans : list chan;
  fdt : list (fd * ref);          (* open descriptors of the process *)
  nextfd : fd;                    (* descriptors are never re-used in the model (identities, not numbers) *)
  arcs : list (aid * (fd * nat)); (* Arc<SharedFileDescriptor>: descriptor and strong count *)
  anext : aid;
  uh : list (hid * uobj);
  unext : hid;
  utrace : list call }.

Definition u_init : ust :=
  {| uchans := []; fdt := []; nextfd := 3; arcs := []; anext := 0; uh := []; unext := 0; utrace := [] |}.

Definition uk (u : ust) : kst := {| chans := uchans u; held := map snd (fdt u) |}.

Fixpoint remove_fd (f : fd) (t : list (fd * ref)) : list (fd * ref) :=
  match t with [] => [] | (x, r) :: rest => if Nat.eqb x f then rest else (x, r) :: remove_fd f rest end.

Definition with_k (u : ust) (chs : list chan) (t : list (fd * ref)) : ust :=
  {| uchans := chs; fdt := t; nextfd := nextfd u; arcs := arcs u; anext := anext u; uh := uh u; unext := unext u; utrace := utrace u |}.
Definition log (u : ust) (c : list call) : ust :=
  {| uchans := uchans u; fdt := fdt u; nextfd := nextfd u; arcs := arcs u; anext := anext u; uh := uh u; unext := unext u; utrace := utrace u ++ c |}.
Definition set_uh (u : ust) (h : list (hid * uobj)) : ust :=
  {| uchans := uchans u; fdt := fdt u; nextfd := nextfd u; arcs := arcs u; anext := anext u; uh := h; unext := unext u; utrace := utrace u |}.
Definition set_arcs (u : ust) (a : list (aid * (fd * nat))) : ust :=
  {| uchans := uchans u; fdt := fdt u; nextfd := nextfd u; arcs := a; anext := anext u; uh := uh u; unext := unext u; utrace := utrace u |}.

(* close(2) *)
Definition sys_close (u : ust) (f : fd) : ust :=
  match lookup (fdt u) f with
  | Some r =>
      let t := remove_fd f (fdt u) in
      let k' := gc {| chans := uchans u; held := map snd t |} in
      log (with_k u (chans k') t) [CClose f]
  | None => log u [CBadClose f]
  end.

(* Arc bookkeeping *)
Definition arc_inc (u : ust) (a : aid) : ust :=
  match lookup (arcs u) a with
  | Some (f, n) => set_arcs u (update (arcs u) a (f, S n))
  | None => u
  end.
Definition arc_dec (u : ust) (a : aid) : ust :=
  match lookup (arcs u) a with
  | Some (f, S O) => sys_close (set_arcs u (update (arcs u) a (f, O))) f
  | Some (f, S n) => set_arcs u (update (arcs u) a (f, n))
  | _ => u
  end.

(* serialisation of attachments: descriptor numbers to pass, and what the `channels` vector will own *)
Inductive owned := OwnArc (a : aid) | OwnFd (f : fd).
Fixpoint u_resolve (u : ust) (atts : list att) : option (list fd * list owned * ust) :=
  match atts with
  | [] => Some ([], [], u)
  | ATx x :: r =>
      match lookup (uh u) x with
      | Some (US a) =>
          match lookup (arcs u) a with
          | Some (f, S _) =>
              match u_resolve (arc_inc u a) r with
              | Some (fs, os, u') => Some (f :: fs, OwnArc a :: os, u')
              | None => None
              end
          | _ => None
          end
      | _ => None
      end
  | ARx x :: r =>
      match lookup (uh u) x with
      | Some (UR (Some f)) =>
          match u_resolve (set_uh u (update (uh u) x (UR None))) r with
          | Some (fs, os, u') => Some (f :: fs, OwnFd f :: os, u')
          | None => None
          end
      | _ => None
      end
  end.

(* dropping the `channels` vector after the transmission, whatever its result *)
Fixpoint drop_owned (u : ust) (os : list owned) : ust :=
  match os with
  | [] => u
  | OwnArc a :: t => drop_owned (arc_dec u a) t
  | OwnFd f :: t => drop_owned (sys_close u f) t
  end.

Fixpoint refs_of (t : list (fd * ref)) (fs : list fd) : list ref :=
  match fs with
  | [] => []
  | f :: r => match lookup t f with Some x => x :: refs_of t r | None => refs_of t r end
  end.

(* decoding a received message: every installed descriptor becomes an endpoint object, in order *)
Fixpoint u_install (u : ust) (rs : list ref) : ust * list (hkind * hid) :=
  match rs with
  | [] => (u, [])
  | RS c :: t =>
      let f := nextfd u in
      let u1 := {| uchans := uchans u; fdt := fdt u ++ [(f, RS c)]; nextfd := S f; arcs := arcs u ++ [(anext u, (f, 1))];
                   anext := S (anext u); uh := uh u ++ [(unext u, US (anext u))]; unext := S (unext u); utrace := utrace u ++ [CInstall f] |} in
      let (u2, out) := u_install u1 t in (u2, (KTx, unext u) :: out)
  | RR c :: t =>
      let f := nextfd u in
      let u1 := {| uchans := uchans u; fdt := fdt u ++ [(f, RR c)]; nextfd := S f; arcs := arcs u;
                   anext := anext u; uh := uh u ++ [(unext u, UR (Some f))]; unext := S (unext u); utrace := utrace u ++ [CInstall f] |} in
      let (u2, out) := u_install u1 t in (u2, (KRx, unext u) :: out)
  | RM _ :: t => u_install u t
  end.

Definition chan_of (r : ref) : option nat := match r with RS c | RR c => Some c | RM _ => None end.

Definition u_step (u : ust) (o : op) : ust * outcome :=
  match o with
  | ONew =>
      let (k', c) := k_new (uk u) in
      let a := nextfd u in let b := S a in
      ({| uchans := chans k'; fdt := fdt u ++ [(a, RS c); (b, RR c)]; nextfd := S b;
          arcs := arcs u ++ [(anext u, (a, 1))]; anext := S (anext u);
          uh := uh u ++ [(unext u, US (anext u)); (S (unext u), UR (Some b))]; unext := S (S (unext u));
          utrace := utrace u ++ [CSocketpair a b] |}, RNew (unext u) (S (unext u)))
  | OClone h =>
      match lookup (uh u) h with
      | Some (US a) =>
          match lookup (arcs u) a with
          | Some (_, S _) =>
              let u1 := arc_inc u a in
              ({| uchans := uchans u1; fdt := fdt u1; nextfd := nextfd u1; arcs := arcs u1; anext := anext u1;
                  uh := uh u1 ++ [(unext u1, US a)]; unext := S (unext u1); utrace := utrace u1 |}, RCloned (unext u))
          | _ => (u, RBad)
          end
      | _ => (u, RBad)
      end
  | ODrop h =>
      match lookup (uh u) h with
      | Some (US a) => (arc_dec (set_uh u (update (uh u) h UGone)) a, RDropped)
      | Some (UR (Some f)) => (sys_close (set_uh u (update (uh u) h UGone)) f, RDropped)
      | _ => (u, RBad)
      end
  | OSend h data atts =>
      match lookup (uh u) h with
      | Some (US a) =>
          match lookup (arcs u) a with
          | Some (f, S _) =>
              match lookup (fdt u) f with
              | Some (RS c) =>
                  match u_resolve u atts with
                  | Some (fs, os, u1) =>
                      let rs := refs_of (fdt u1) fs in
                      match k_send (uk u1) c {| m_data := data; m_rights := rs |} with
                      | Some k' =>
                          (drop_owned (log (with_k u1 (chans k') (fdt u1)) [CSendmsg f (length fs) true]) os, RSent)
                      | None =>
                          (drop_owned (log u1 [CSendmsg f (length fs) false]) os, RSendErr)
                      end
                  | None => (u, RBad)
                  end
              | _ => (u, RBad)
              end
          | _ => (u, RBad)
          end
      | _ => (u, RBad)
      end
  | ORecv h =>
      match lookup (uh u) h with
      | Some (UR (Some f)) =>
          match lookup (fdt u) f with
          | Some (RR c) =>
              match q (get_chan (uk u) c) with
              | m :: rest =>
                  let u1 := log (with_k u (set_nth (uchans u) c {| q := rest; dead := dead (get_chan (uk u) c) |}) (fdt u)) [CRecvmsg f 1] in
                  let (u2, out) := u_install u1 (m_rights m) in
                  (u2, RMsg (m_data m) out)
              | [] => if refs (uk u) (RS c) =? 0 then (log u [CRecvmsg f 0], RDisconnected) else (log u [CRecvmsg f 2], REmpty)
              end
          | _ => (u, RBad)
          end
      | _ => (u, RBad)
      end
  end.

Fixpoint u_run (u : ust) (ops : list op) : ust * list outcome :=
  match ops with
  | [] => (u, [])
  | o :: r => let (u', out) := u_step u o in let (u'', outs) := u_run u' r in (u'', out :: outs)
  end.

(* what the library's live objects own: one descriptor per Arc with a positive count, one per unconsumed receiver *)
Definition owned_fds (u : ust) : list fd :=
  flat_map (fun e => match snd e with (f, S _) => [f] | _ => [] end) (arcs u) ++
  flat_map (fun e => match snd e with UR (Some f) => [f] | _ => [] end) (uh u).

Definition no_bad_close (u : ust) : Prop := forall f, ~ In (CBadClose f) (utrace u).
