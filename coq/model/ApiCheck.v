(* ApiCheck: compares the observed results of a program over the whole public API with the Api model. *)
From Coq Require Import List Arith ZArith Bool.
From IPC Require Import K Prog Ideal Api.
Import ListNotations.

Fixpoint lbeq {A} (e : A -> A -> bool) (a b : list A) : bool :=
  match a, b with [], [] => true | x :: a', y :: b' => e x y && lbeq e a' b' | _, _ => false end.

Definition kind_eqb (a b : akind) : bool :=
  match a, b with HTx, HTx | HRx, HRx | HMem, HMem => true | _, _ => false end.
Definition kh_eqb (a b : akind * hid) : bool := kind_eqb (fst a) (fst b) && Nat.eqb (snd a) (snd b).
Definition sev_eqb (a b : sev) : bool :=
  match a, b with
  | SMsg i d hs, SMsg i' d' hs' => Nat.eqb i i' && Z.eqb d d' && lbeq kh_eqb hs hs'
  | SClosed i, SClosed i' | SBad i, SBad i' => Nat.eqb i i'
  | _, _ => false
  end.
Definition aout_eqb (a b : aout) : bool :=
  match a, b with
  | QNew x y, QNew x' y' => Nat.eqb x x' && Nat.eqb y y'
  | QCloned x, QCloned x' | QShm x, QShm x' | QSet x, QSet x' | QAdded x, QAdded x' | QServer x, QServer x' | QConnected x, QConnected x' => Nat.eqb x x'
  | QDropped, QDropped | QSent, QSent | QSendErr, QSendErr | QEmpty, QEmpty | QDisconnected, QDisconnected | QDecodeErr, QDecodeErr | QBad, QBad => true
  | QMsg d hs, QMsg d' hs' => Z.eqb d d' && lbeq kh_eqb hs hs'
  | QShmRead l s, QShmRead l' s' => Z.eqb l l' && Z.eqb s s'
  | QSelect e, QSelect e' => lbeq sev_eqb e e'
  | QAccepted r d hs, QAccepted r' d' hs' => Nat.eqb r r' && Z.eqb d d' && lbeq kh_eqb hs hs'
  | _, _ => false
  end.

(* index of the first operation whose observed result differs from the model's (0-based), or None *)
Fixpoint first_diff (i : nat) (m o : list aout) : option nat :=
  match m, o with
  | [], [] => None
  | x :: m', y :: o' => if aout_eqb x y then first_diff (S i) m' o' else Some i
  | _, _ => Some i
  end.

Definition check_api (ops : list aop) (obs : list aout) : bool :=
  match first_diff 0 (snd (a_run a_init ops)) obs with None => true | Some _ => false end.
