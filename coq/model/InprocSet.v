(* InprocSet: OsIpcReceiverSet of the IN-PROCESS transport (platform/inprocess/mod.rs): two parallel vectors `receiver_ids` /
   `receivers`, ids drawn from a counter that only ever grows (`incrementor: 0..`), select = crossbeam `Select` over ALL members:
   it returns ONE ready member (which one is the scheduler's / crossbeam's choice), takes one message from it, or - if its
   channel is disconnected and empty - removes that member from both vectors and reports its closure.
   Senders act concurrently: the system is a labelled transition system whose labels are
     LAdd c          the program adds the receiver of channel c (a member record (id, c) is appended, the counter advances)
     LSend c x       some sender of channel c sends x
     LHup c          the last sender of channel c goes away
     LSelect i       select() returns the member at position i of the vectors (enabled when that member is ready:
                     a message queued, or hung up)
   The events reported by select are recorded in order. *)
From Coq Require Import List Arith Bool.
Import ListNotations.

Record chan := { queue : list nat; hup : bool; sent : list nat (* ghost *) }.
Inductive event := EMsg (id : nat) (x : nat) | EClosed (id : nat).
Record st := {
  chans : list chan;
  members : list (nat * nat);      (* (id, channel), in vector order *)
  next_id : nat;                   (* incrementor *)
  events : list event;             (* ghost: what select has reported so far *)
  added : list (nat * nat) }.      (* ghost: every (id, channel) ever added *)

Definition init (n : nat) : st :=
  {| chans := repeat {| queue := []; hup := false; sent := [] |} n; members := []; next_id := 0; events := []; added := [] |}.

Fixpoint set_nth {X} (l : list X) (i : nat) (v : X) : list X :=
  match l, i with [], _ => [] | _ :: t, O => v :: t | h :: t, S j => h :: set_nth t j v end.
Fixpoint remove_nth {X} (l : list X) (i : nat) : list X :=
  match l, i with [], _ => [] | _ :: t, O => t | h :: t, S j => h :: remove_nth t j end.
Definition gchan (s : st) (c : nat) : chan := nth c (chans s) {| queue := []; hup := true; sent := [] |}.

Inductive label := LAdd (c : nat) | LSend (c x : nat) | LHup (c : nat) | LSelect (i : nat).

Definition step (s : st) (l : label) : option st :=
  match l with
  | LAdd c =>
      if (c <? length (chans s)) && negb (existsb (fun m => Nat.eqb (snd m) c) (added s)) then
        Some {| chans := chans s; members := members s ++ [(next_id s, c)]; next_id := S (next_id s); events := events s;
                added := added s ++ [(next_id s, c)] |}
      else None                         (* a receiver can be added once: add consumes it *)
  | LSend c x =>
      if (c <? length (chans s)) && negb (hup (gchan s c)) then
        let ch := gchan s c in
        Some {| chans := set_nth (chans s) c {| queue := queue ch ++ [x]; hup := false; sent := sent ch ++ [x] |};
                members := members s; next_id := next_id s; events := events s; added := added s |}
      else None
  | LHup c =>
      if (c <? length (chans s)) && negb (hup (gchan s c)) then
        let ch := gchan s c in
        Some {| chans := set_nth (chans s) c {| queue := queue ch; hup := true; sent := sent ch |};
                members := members s; next_id := next_id s; events := events s; added := added s |}
      else None
  | LSelect i =>
      match nth_error (members s) i with
      | Some (id, c) =>
          let ch := gchan s c in
          match queue ch with
          | x :: q => Some {| chans := set_nth (chans s) c {| queue := q; hup := hup ch; sent := sent ch |};
                              members := members s; next_id := next_id s; events := events s ++ [EMsg id x]; added := added s |}
          | [] => if hup ch then
                    Some {| chans := chans s; members := remove_nth (members s) i; next_id := next_id s;
                            events := events s ++ [EClosed id]; added := added s |}
                  else None             (* not ready: Select would not have chosen it *)
          end
      | None => None
      end
  end.

Fixpoint run (s : st) (ls : list label) : option st :=
  match ls with [] => Some s | l :: r => match step s l with Some s' => run s' r | None => None end end.

(* projections used by the theorems *)
Definition msgs_of (id : nat) (evs : list event) : list nat :=
  flat_map (fun e => match e with EMsg i x => if Nat.eqb i id then [x] else [] | EClosed _ => [] end) evs.
Definition closed_count (id : nat) (evs : list event) : nat :=
  length (filter (fun e => match e with EClosed i => Nat.eqb i id | _ => false end) evs).
