(* CodecCheck: compares what the real deserialiser produced with Codec.decode_msg (correspondence run only). *)
From Coq Require Import List Arith ZArith Bool.
From IPC Require Import Codec.
Import ListNotations.
Open Scope Z_scope.

Fixpoint val_eqb (a b : val) : bool :=
  let fix go (xs ys : list val) : bool :=
    match xs, ys with [], [] => true | x :: r, y :: s => val_eqb x y && go r s | _, _ => false end in
  match a, b with
  | VUnit, VUnit | VNone, VNone => true
  | VBool x, VBool y => Bool.eqb x y
  | VU8 x, VU8 y | VU32 x, VU32 y | VU64 x, VU64 y | VI64 x, VI64 y | VF64 x, VF64 y => x =? y
  | VString x, VString y => (fix eq (p q : list Z) : bool := match p, q with [], [] => true | u :: r, v :: s => (u =? v) && eq r s | _, _ => false end) x y
  | VSeq x, VSeq y | VTuple x, VTuple y => go x y
  | VSome x, VSome y => val_eqb x y
  | VEnum i x, VEnum j y => Nat.eqb i j && val_eqb x y
  | VSender x, VSender y | VReceiver x, VReceiver y => Nat.eqb x y
  | VRegion None, VRegion None => true
  | VRegion (Some x), VRegion (Some y) => Nat.eqb x y
  | _, _ => false
  end.

Definition check_dec (t : ty) (bs : list byte) (nchans nregions : nat) (obs : option val) : bool :=
  match decode_msg t bs (seq 0 nchans) (seq 0 nregions), obs with
  | DOk (v, _), Some v' => val_eqb v v'
  | DErr, None => true
  | _, _ => false
  end.

(* when an endpoint could not be identified by probing: compare the outcome class only *)
Definition check_dec_class (t : ty) (bs : list byte) (nchans nregions : nat) (ok : bool) : bool :=
  match decode_msg t bs (seq 0 nchans) (seq 0 nregions) with DOk _ => ok | DErr => negb ok end.

Definition E_ty : ty := TEnum [TUnit; TU32; TTuple [TString; TOption TU8]].
Definition ty_of (k : nat) : ty :=
  match k with
  | 1 => TU8 | 2 => TU32 | 3 => TTuple [TU64; TI64] | 4 => TString | 5 => TSeq TU8
  | 6 => TSeq (TTuple [TU32; TString]) | 7 => TOption (TSeq TU64) | 8 => E_ty | 9 => TSender
  | 10 => TTuple [TReceiver; TRegion] | 11 => TTuple [TSeq TSender; TSender; TReceiver]
  | 12 => TTuple [TU64; TSeq TSender; TOption TRegion; E_ty; TF64]
  | 13 => TTuple [TReceiver; TReceiver] | 14 => TTuple [TReceiver; TSender; TOption TReceiver]
  | _ => TUnit
  end%nat.
