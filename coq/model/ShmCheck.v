(* ShmCheck: runs a script of region operations on the Shm model (correspondence run only).  Slots hold region handles; every create
   is from_byte(slot number + 1, len). *)
From Coq Require Import ZArith List Bool.
From IPC Require Import Shm.
Import ListNotations.
Open Scope Z_scope.

Inductive sop := SCreate (len : nat) | SClone (i : nat) | SCloneFrom (d s : nat) | SDrop (i : nat) | SRead (i : nat) | SXfer (i : nat).

Record sstate := { sw : world; slots : list (option region) }.

Definition slot (st : sstate) (i : nat) : option region := nth i (slots st) None.
Fixpoint set_slot (l : list (option region)) (i : nat) (v : option region) : list (option region) :=
  match l, i with [], _ => [] | _ :: t, O => v :: t | h :: t, S j => h :: set_slot t j v end.

(* per step: the calls the library makes (munmap is not observable by the interposer and is left out), mappings and descriptors
   of regions alive afterwards, and what a read returns: (length, the byte value all bytes have / -1 mixed / -2 empty) *)
Definition visible (cs : list call) : list call := filter (fun c => match c with CMunmap => false | _ => true end) cs.

Definition all_same (l : list Z) : Z :=
  match l with [] => -2 | b :: t => if forallb (Z.eqb b) t then b else -1 end.

Definition sstep (st : sstate) (o : sop) : option (sstate * list call * option (Z * Z)) :=
  match o with
  | SCreate len =>
      let '(w', r, cs) := from_byte (sw st) (Z.of_nat (length (slots st)) + 1) len in
      Some ({| sw := w'; slots := slots st ++ [Some r] |}, visible cs, None)
  | SClone i =>
      match slot st i with
      | Some r => let '(w', r', cs) := clone (sw st) r in Some ({| sw := w'; slots := slots st ++ [Some r'] |}, visible cs, None)
      | None => None
      end
  | SCloneFrom d s =>
      match slot st d, slot st s with
      | Some rd, Some rs => let '(w', r', cs) := clone_from (sw st) rd rs in
                            Some ({| sw := w'; slots := set_slot (slots st) d (Some r') |}, visible cs, None)
      | _, _ => None
      end
  | SDrop i =>
      match slot st i with
      | Some r => let '(w', cs) := drop (sw st) r in Some ({| sw := w'; slots := set_slot (slots st) i None |}, visible cs, None)
      | None => None
      end
  | SRead i =>
      match slot st i with
      | Some r => let bs := read (sw st) r in Some (st, [], Some (Z.of_nat (length bs), all_same bs))
      | None => None
      end
  | SXfer i =>
      (* the program clones the handle for the message (dup, mmap); send() returns having dropped that clone (munmap, close); the
         receiver maps the descriptor that arrived with the message (mmap) *)
      match slot st i with
      | Some r =>
          let '(w1, rc, cs1) := clone (sw st) r in
          let '(w2, cs2) := drop w1 rc in
          let '(w3, rr, cs3) := transfer w2 rc in
          Some ({| sw := w3; slots := slots st ++ [Some rr] |}, visible (cs1 ++ cs2 ++ cs3), None)
      | None => None
      end
  end.

Definition call_eqb (a b : call) : bool :=
  match a, b with
  | CFtruncate x, CFtruncate y | CMmap x, CMmap y => x =? y
  | CMunmap, CMunmap | CDup, CDup | CClose, CClose => true
  | _, _ => false
  end.
Fixpoint leqb {A} (e : A -> A -> bool) (l1 l2 : list A) : bool :=
  match l1, l2 with [], [] => true | x :: r, y :: s => e x y && leqb e r s | _, _ => false end.
Definition read_eqb (a b : option (Z * Z)) : bool :=
  match a, b with None, None => true | Some (x, y), Some (x', y') => (x =? x') && (y =? y') | _, _ => false end.

(* observed per step: calls, live mappings, live region descriptors, read result *)
Fixpoint check_script (st : sstate) (ops : list sop) (obs : list (list call * Z * Z * option (Z * Z))) : bool :=
  match ops, obs with
  | [], [] => true
  | o :: r, (cs, m, f, rd) :: r' =>
      match sstep st o with
      | Some (st', cs', rd') => leqb call_eqb cs' cs && (maps (sw st') =? m) && (fds (sw st') =? f) && read_eqb rd' rd && check_script st' r r'
      | None => false
      end
  | _, _ => false
  end.
Definition check_shm (ops : list sop) (obs : list (list call * Z * Z * option (Z * Z))) : bool :=
  check_script {| sw := w0; slots := [] |} ops obs.
