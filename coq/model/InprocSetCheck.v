(* InprocSetCheck: TRACE ACCEPTANCE for the in-process receiver set - the observed sequence of select results of an rset-driver
   scenario (mode=after: everything was sent, and the senders that go away are gone, before the first select) must be a run of the
   InprocSet LTS: each observed event names a member that is ready at that point, carries the head of its queue (or is its
   closure with the queue empty), and at the end nothing is pending.  Which member crossbeam's Select picks is not prescribed. *)
From Coq Require Import List Arith Bool.
From IPC Require Import InprocSet.
Import ListNotations.

Fixpoint find_pos (ms : list (nat * nat)) (id : nat) (k : nat) : option nat :=
  match ms with [] => None | (i, _) :: r => if Nat.eqb i id then Some k else find_pos r id (S k) end.

Fixpoint accept (s : st) (obs : list event) : option st :=
  match obs with
  | [] => Some s
  | e :: r =>
      let id := match e with EMsg i _ | EClosed i => i end in
      match find_pos (members s) id 0 with
      | Some p =>
          match step s (LSelect p) with
          | Some s' => match rev (events s') with
                       | e' :: _ => if (match e, e' with EMsg a x, EMsg b y => Nat.eqb a b && Nat.eqb x y | EClosed a, EClosed b => Nat.eqb a b | _, _ => false end)
                                    then accept s' r else None
                       | [] => None end
          | None => None
          end
      | None => None
      end
  end.

(* plans: per member (messages, hung up?); ids: what add returned, in add order *)
Definition check_iset (plans : list (list nat * bool)) (ids : list nat) (obs : list event) : bool :=
  let n := length plans in
  let adds := map LAdd (seq 0 n) in
  let sends := flat_map (fun p : nat * (list nat * bool) => map (LSend (fst p)) (fst (snd p)) ++ (if snd (snd p) then [LHup (fst p)] else [])) (combine (seq 0 n) plans) in
  match run (init n) (adds ++ sends) with
  | Some s =>
      (* the ids add returned are the counter values *)
      (if list_eq_dec Nat.eq_dec (map fst (members s)) ids then true else false) &&
      match accept s obs with
      | Some s' => forallb (fun m => match queue (gchan s' (snd m)) with [] => negb (hup (gchan s' (snd m))) | _ => false end) (members s')
      | None => false
      end
  | None => false
  end.
