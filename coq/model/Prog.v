(* Prog: single-process programs over the public channel API, shared by the Unix and the Ideal model. *)
From Coq Require Import List ZArith.
Import ListNotations.

Definition hid := nat.
Inductive att := ATx (h : hid) | ARx (h : hid).            (* embed a clone of sender h / move receiver h *)
Inductive op :=
| ONew                                   (* ipc::channel(): sender handle n, receiver handle n+1 *)
| OClone (h : hid)                       (* IpcSender::clone *)
| ODrop (h : hid)                        (* drop a sender or receiver handle *)
| OSend (h : hid) (data : Z) (atts : list att)
| ORecv (h : hid).                       (* try_recv flavour: a message, Empty, or Disconnected *)

Inductive hkind := KTx | KRx.
Inductive outcome :=
| RNew (tx rx : hid) | RCloned (h : hid) | RDropped | RSent | RSendErr
| RMsg (data : Z) (hs : list (hkind * hid)) | REmpty | RDisconnected
| RBad.                                   (* misuse the models do not define: unknown / consumed handle *)
