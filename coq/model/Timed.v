(* Timed: UnixCmsg::recv with its three blocking modes (unix/mod.rs), at the level of one receive attempt on the
   channel's own socket.  The description's O_NONBLOCK flag is explicit; `qstate` is what the kernel holds
   when the call looks: a message, nothing but a live sender, or nothing and no sender.  For the timed mode an
   oracle says what, if anything, happens during the wait. *)
From Coq Require Import ZArith List Bool.
Import ListNotations.
Open Scope Z_scope.

Inductive qstate := QMsg | QIdle | QDead.
Inductive mode := MBlocking | MNonblocking | MTimeout (micros : Z).
Inductive outcome := OMsg | OEmpty | ODisconnected | OBlocked (* the call does not return in this state *).

Inductive call :=
| CSetfl (nonblock : bool)
| CPoll (arg : Z) (ready : bool)
| CRecvmsg (nonblocking : bool).

(* duration.as_millis().try_into().unwrap_or(-1): whole milliseconds if they fit an i32, else wait for ever *)
Definition poll_arg (micros : Z) : Z :=
  let ms := micros / 1000 in if ms <? 2 ^ 31 then ms else -1.

Definition read (q : qstate) (nonblocking : bool) : outcome :=
  match q with QMsg => OMsg | QDead => ODisconnected | QIdle => if nonblocking then OEmpty else OBlocked end.

(* `during`: for MTimeout, the state at the end of the wait if something arrives or the last sender goes
   before the timeout expires (None: nothing happens) *)
Definition recv_first (m : mode) (q : qstate) (during : option qstate) (flag : bool) : outcome * list call * bool :=
  match m with
  | MBlocking => (read q flag, [CRecvmsg flag], flag)
  | MNonblocking =>
      (* set O_NONBLOCK, one recvmsg, clear it again - on every result *)
      (read q true, [CSetfl true; CRecvmsg true; CSetfl false], false)
  | MTimeout us =>
      let q' := match q with QIdle => match during with Some x => x | None => QIdle end | _ => q end in
      match q' with
      | QIdle =>
          if poll_arg us =? -1 then (OBlocked, [CPoll (-1) false], flag)
          else (OEmpty, [CPoll (poll_arg us) false], flag)      (* poll returned 0: EAGAIN without a recvmsg *)
      | _ => (read q' flag, [CPoll (poll_arg us) true; CRecvmsg flag], flag)
      end
  end.

(* a sequence of receive attempts on one receiver *)
Fixpoint run (flag : bool) (ops : list (mode * qstate * option qstate)) : list outcome * list call * bool :=
  match ops with
  | [] => ([], [], flag)
  | (m, q, d) :: r =>
      let '(o, cs, f1) := recv_first m q d flag in
      let '(os, cs', f2) := run f1 r in (o :: os, cs ++ cs', f2)
  end.

(* ---- the loop of the free function recv(): messages that a crashed sender left unfinished ("torn": the first fragment arrived,
   the dedicated channel reports end-of-file with bytes owed) are discarded and the receive is simply attempted again IN THE SAME
   MODE - a non-blocking receive stays non-blocking, a timed one polls again with its full timeout.  `torn` such messages head the
   queue, then the kernel holds `q`.  Each discarded message costs one attempt of the mode (which finds a packet) ---- *)
Fixpoint recv_all (m : mode) (torn : nat) (q : qstate) (during : option qstate) (flag : bool) : outcome * list call * bool :=
  match torn with
  | O => recv_first m q during flag
  | S n =>
      let '(_, cs, f1) := recv_first m QMsg None flag in          (* a first fragment is there: taken, found torn, dropped *)
      let '(o, cs', f2) := recv_all m n q during f1 in (o, cs ++ cs', f2)
  end.

(* ---- a signal with an installed handler reaches the thread while it waits in poll(): poll is never restarted, it fails with EINTR;
   the receive reports an I/O error - NOT 'empty', the requested time has not passed - takes nothing from the queue and leaves the
   description's flag alone.  `intr` says whether that happens to this attempt; it can only matter to a timed receive that has to
   wait (on QMsg / QDead poll returns at once).  Separate result types, so that everything above stays as it is. ---- *)
Inductive outcome_s := SOut (o : outcome) | SInterrupted.
Inductive call_s := SCall (c : call) | SPollIntr (arg : Z).

Definition recv_first_sig (m : mode) (q : qstate) (during : option qstate) (intr : bool) (flag : bool) : outcome_s * list call_s * bool :=
  match m, q, intr with
  | MTimeout us, QIdle, true => (SInterrupted, [SPollIntr (poll_arg us)], flag)
  | _, _, _ => let '(o, cs, f) := recv_first m q during flag in (SOut o, map SCall cs, f)
  end.

Fixpoint run_sig (flag : bool) (ops : list (mode * qstate * option qstate * bool)) : list outcome_s * list call_s * bool :=
  match ops with
  | [] => ([], [], flag)
  | (m, q, d, i) :: r =>
      let '(o, cs, f1) := recv_first_sig m q d i flag in
      let '(os, cs', f2) := run_sig f1 r in (o :: os, cs ++ cs', f2)
  end.

(* ---- the in-process transport (platform/inprocess/mod.rs): the three receives are crossbeam's recv / try_recv / recv_timeout on the
   queue itself; no descriptor flag, no poll.  Trusted: crossbeam's semantics - a queued message is returned at once; an empty
   queue whose senders are all gone reports disconnection at once, whatever the timeout; otherwise `try_recv` says 'empty' at once,
   `recv_timeout(d)` after d unless something happens meanwhile, `recv` waits. ---- *)
Definition inproc_recv (m : mode) (q : qstate) (during : option qstate) : outcome :=
  match q with
  | QMsg => OMsg
  | QDead => ODisconnected
  | QIdle =>
      match m with
      | MNonblocking => OEmpty
      | MBlocking => OBlocked
      | MTimeout _ => match during with Some QMsg => OMsg | Some QDead => ODisconnected | _ => OEmpty end
      end
  end.
Definition inproc_run (ops : list (mode * qstate * option qstate)) : list outcome :=
  map (fun o => let '(m, q, d) := o in inproc_recv m q d) ops.
