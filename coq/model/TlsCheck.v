(* TlsCheck: compares the messages a scripted Serialize run produced with Tls.ipc_send (correspondence run only). *)
From Coq Require Import List Arith Bool.
From IPC Require Import Codec Tls.
Import ListNotations.
Local Open Scope nat_scope.

Definition att_eqb (a b : att) : bool :=
  match a, b with AChan s e, AChan s' e' => Bool.eqb s s' && Nat.eqb e e' end.
Fixpoint leqb {A B} (e : A -> B -> bool) (l1 : list A) (l2 : list B) : bool :=
  match l1, l2 with [], [] => true | x :: r, y :: s => e x y && leqb e r s | _, _ => false end.

Definition msg_eqb (m : sent) (o : list att * nat) : bool :=
  leqb att_eqb (s_chans m) (fst o) && Nat.eqb (length (s_regions m)) (snd o).

Definition ok_of (r : sres) : bool := match r with SerOk => true | SerErr => false end.

(* pre: an earlier send on the same thread (typically a failing one); then the send under test; then a plain message *)
Definition run_script (pre : list sact) (has_pre : bool) (body : list sact) : bool * bool * list sent :=
  let '(r0, t1, e0) := if has_pre then ipc_send (size pre) pre tls_empty else (SerOk, tls_empty, eff0) in
  let '(r1, t2, e1) := ipc_send (size body) body t1 in
  let '(r2, t3, e2) := ipc_send 5 [SEmit; SEmit] t2 in
  (ok_of r0, ok_of r1, msgs e0 ++ msgs e1 ++ msgs e2).

Definition check_script (pre : list sact) (has_pre : bool) (body : list sact)
           (obs_pre obs_res : bool) (obs : list (list att * nat)) : bool :=
  let '(p, r, ms) := run_script pre has_pre body in
  (if has_pre then Bool.eqb p obs_pre else true) && Bool.eqb r obs_res && leqb msg_eqb ms obs.
