(* CrashCheck: runs the Crash LTS on the sequential schedules the `crash` driver produces
   (sender steps up to the kill point, then a greedy receiver) for the correspondence run. *)
From Coq Require Import List Arith Bool.
From IPC Require Import Crash.
Import ListNotations.

Definition recv_step (s : @sys nat) : option (@sys nat) :=
  match rcv s with
  | Some _ =>
      match step s LRFollow with
      | Some s' => Some s'
      | None => step s LRSkip
      end
  | None => step s LRFirst
  end.

Fixpoint greedy (fuel : nat) (s : @sys nat) : @sys nat :=
  match fuel with
  | O => s
  | S f => match recv_step s with Some s' => greedy f s' | None => s end
  end.

(* a message of npk packets, one list element per packet, elements tag, tag+1, ... *)
Definition mk_plan (tag npk : nat) : @plan nat :=
  {| p_first := [tag]; p_rest := map (fun i => [tag + i]) (seq 1 (npk - 1)) |}.

Definition scenario (labels : list (@label nat)) : list (list nat) * bool :=
  match run init labels with
  | Some s => let s' := greedy 200 s in (delivered s', match rcv s' with Some _ => true | None => false end)
  | None => ([[999]], false)
  end.

Fixpoint ll_eqb (a b : list (list nat)) : bool :=
  match a, b with
  | [], [] => true
  | x :: r, y :: q => (if list_eq_dec Nat.eq_dec x y then true else false) && ll_eqb r q
  | _, _ => false
  end.

(* expected: the observed deliveries as packet-tag lists; stuck: receiver still waiting in mid-reassembly *)
Definition check_crash (labels : list (@label nat)) (expected : list (list nat)) (stuck : bool) : bool :=
  let (d, w) := scenario labels in ll_eqb d expected && Bool.eqb w stuck.
