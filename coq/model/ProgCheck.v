(* ProgCheck: compares an observed run of a program (outcomes, descriptor ledger, descriptor counts)
   with the Unix model and the Ideal model.  Used by the correspondence run only. *)
From Coq Require Import List Arith ZArith Bool.
From IPC Require Import K Prog Ideal Unix.
Import ListNotations.

Definition hk_eqb (a b : hkind * hid) : bool :=
  (match fst a, fst b with KTx, KTx | KRx, KRx => true | _, _ => false end) && Nat.eqb (snd a) (snd b).

Fixpoint leqb {A} (e : A -> A -> bool) (l1 l2 : list A) : bool :=
  match l1, l2 with [], [] => true | x :: r, y :: s => e x y && leqb e r s | _, _ => false end.

Definition out_eqb (a b : outcome) : bool :=
  match a, b with
  | RNew x y, RNew x' y' => Nat.eqb x x' && Nat.eqb y y'
  | RCloned x, RCloned x' => Nat.eqb x x'
  | RDropped, RDropped | RSent, RSent | RSendErr, RSendErr | REmpty, REmpty | RDisconnected, RDisconnected | RBad, RBad => true
  | RMsg d hs, RMsg d' hs' => Z.eqb d d' && leqb hk_eqb hs hs'
  | _, _ => false
  end.

Definition call_eqb (a b : call) : bool :=
  match a, b with
  | CSocketpair x y, CSocketpair x' y' => Nat.eqb x x' && Nat.eqb y y'
  | CClose x, CClose x' | CBadClose x, CBadClose x' | CInstall x, CInstall x' => Nat.eqb x x'
  | CSendmsg f n ok, CSendmsg f' n' ok' => Nat.eqb f f' && Nat.eqb n n' && Bool.eqb ok ok'
  | CRecvmsg f r, CRecvmsg f' r' => Nat.eqb f f' && Nat.eqb r r'
  | _, _ => false
  end.

(* number of open descriptors after each operation *)
Fixpoint u_counts (u : ust) (ops : list op) : list nat :=
  match ops with
  | [] => []
  | o :: r => let (u', _) := u_step u o in length (fdt u') :: u_counts u' r
  end.

Record verdict := { v_unix : bool; v_ideal : bool; v_trace : bool; v_counts : bool; v_owned : bool }.

(* observed counts; None: not observed (intermediate state of an operation the models split in several steps) *)
Fixpoint counts_ok (m : list nat) (o : list (option nat)) : bool :=
  match m, o with
  | [], [] => true
  | x :: m', Some y :: o' => Nat.eqb x y && counts_ok m' o'
  | _ :: m', None :: o' => counts_ok m' o'
  | _, _ => false
  end.

Definition check_prog (ops : list op) (obs : list outcome) (tr : list call) (counts : list (option nat)) : verdict :=
  let (u, outs) := u_run u_init ops in
  let (i, outs') := i_run i_init ops in
  {| v_unix := leqb out_eqb outs obs; v_ideal := leqb out_eqb outs' obs; v_trace := leqb call_eqb (utrace u) tr;
     v_counts := counts_ok (u_counts u_init ops) counts;
     v_owned := leqb Nat.eqb (map fst (fdt u)) (map fst (fdt u)) |}.

Definition all_ok (v : verdict) : bool := v_unix v && v_ideal v && v_trace v && v_counts v.
