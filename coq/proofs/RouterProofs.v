(* placeholder *)
From IPC Require Import RSet.
