(* RouterProofs: safety and liveness-style properties of the router model (model/Router.v).

   Everything is proved for every schedule [ls] with [run init ls = Some s] (and, where handler / channel
   identities matter, [routes_once ls [] [] = true]) by three invariants:

   - InvS s        (state only): wake-ups pair with control messages ([wakeups = length ctlq], which in this
                   model holds even after the router stopped); shape of the control queue w.r.t. the shutdown
                   flag (no Shutdown while the flag is clear; exactly one, in last position, while the flag is
                   set and the router runs; EMPTY once the router stopped); stopped -> routes = [];
                   stopped -> flag \/ proxy dead; Ack <-> stopped-by-shutdown; waiting_ack > 0 -> flag;
                   no Panic; per channel c  [calls_on c effects ++ queue c = sent c]  (calls_on = messages of
                   all Call _ c x, whatever the handler); route ids are distinct and < nextrid.
   - InvH hist s   (w.r.t. the executed prefix hist): every Call h c x, every route (r,(c,h)) and every queued
                   AddRoute c h comes from a PAddRoute c h of hist; and the handler ledger
                     #PAddRoute _ h in hist = #h in routes + #h in ctlq + drops_of h effects.
   - InvW s        (needs "each handler added at most once" on the prefix): no Call h after a drop of h in the
                   effect log (NCAD), and DropArgs h -> h never called.

   Deviations from the requested statements: none is weakened.  [stop_drops_all] is proved as stated and also
   in the stronger form without the escape clause ([stop_drops_all_strong], [stopped_ctlq_empty]): when the
   router has stopped its control queue is empty (after Shutdown nothing is enqueued because the flag is set;
   REvWakeClosed needs wakeups = 0 = length ctlq), so every added handler has been dropped exactly once.
   [shutdown_progress] is true as stated: with flag set and the router running the queue ends with Shutdown,
   hence wakeups > 0, hence REvWakeClosed is disabled and REvWake enabled. *)
From Coq Require Import List Arith Bool Lia.
From IPC Require Import Router.
Import ListNotations.

(* ------------------------------------------------------------------ *)
(* generic list facts                                                  *)

Definition dflt : chanst := {| queue := []; hup := false; sent := [] |}.

Lemma run_app : forall a b s,
  run s (a ++ b) = match run s a with Some s' => run s' b | None => None end.
Proof. induction a; simpl; intros; auto. destruct (step s a); auto. Qed.

Lemma nth_app_dflt : forall (l : list chanst) c, nth c (l ++ [dflt]) dflt = nth c l dflt.
Proof.
  induction l; intros c.
  - destruct c; simpl; auto. destruct c; auto.
  - destruct c; simpl; auto.
Qed.

Lemma nth_set_nth_eq : forall (l : list chanst) i v d, i < length l -> nth i (set_nth l i v) d = v.
Proof.
  induction l; simpl; intros i v d Hi; [lia|].
  destruct i; simpl; auto. apply IHl; lia.
Qed.

Lemma nth_set_nth_ne : forall (l : list chanst) i j v d, i <> j -> nth i (set_nth l j v) d = nth i l d.
Proof.
  induction l; simpl; intros i j v d Hij; auto.
  destruct j, i; simpl; auto; try lia; try (apply IHl; lia).
Qed.

Definition cnt {A} (f : A -> bool) (l : list A) : nat := length (filter f l).

Lemma cnt_app : forall A (f : A -> bool) a b, cnt f (a ++ b) = cnt f a + cnt f b.
Proof. intros; unfold cnt; rewrite filter_app, app_length; reflexivity. Qed.
Lemma cnt_cons : forall A (f : A -> bool) x l, cnt f (x :: l) = (if f x then 1 else 0) + cnt f l.
Proof. intros; unfold cnt; simpl; destruct (f x); reflexivity. Qed.
Lemma cnt_nil : forall A (f : A -> bool), cnt f [] = 0.
Proof. reflexivity. Qed.
Lemma cnt_one : forall A (f : A -> bool) x, cnt f [x] = if f x then 1 else 0.
Proof. intros; rewrite cnt_cons, cnt_nil; destruct (f x); reflexivity. Qed.

Lemma cnt_In : forall A (f : A -> bool) l x, In x l -> f x = true -> 1 <= cnt f l.
Proof.
  induction l; simpl; intros x Hi Hf; [contradiction|].
  rewrite cnt_cons. destruct Hi as [->|Hi].
  - rewrite Hf; lia.
  - specialize (IHl x Hi Hf). lia.
Qed.

Lemma cnt_two : forall A (f : A -> bool) l x y,
  In x l -> In y l -> x <> y -> f x = true -> f y = true -> 2 <= cnt f l.
Proof.
  induction l; simpl; intros x y Hx Hy Hne Fx Fy; [contradiction|].
  rewrite cnt_cons. destruct Hx as [->|Hx], Hy as [->|Hy].
  - congruence.
  - rewrite Fx. pose proof (cnt_In _ f l y Hy Fy). lia.
  - rewrite Fy. pose proof (cnt_In _ f l x Hx Fx). lia.
  - specialize (IHl x y Hx Hy Hne Fx Fy). lia.
Qed.

Lemma NoDup_snoc : forall A (l : list A) x, NoDup l -> ~ In x l -> NoDup (l ++ [x]).
Proof.
  induction l; simpl; intros x Hn Hi.
  - constructor; auto.
  - inversion Hn; subst. constructor.
    + intro Hin. apply in_app_or in Hin. destruct Hin as [Hin|[->|[]]]; auto.
    + apply IHl; auto.
Qed.

(* lookup / remove_key *)
Lemma lookup_In : forall B (l : list (nat * B)) k v, lookup l k = Some v -> In (k, v) l.
Proof.
  induction l as [|[x w] t IH]; simpl; intros k v H; [discriminate|].
  destruct (Nat.eqb x k) eqn:E.
  - apply Nat.eqb_eq in E. inversion H; subst. auto.
  - right; auto.
Qed.

Lemma remove_key_notin : forall B (l : list (nat * B)) k, ~ In k (map fst l) -> remove_key l k = l.
Proof.
  induction l as [|[x w] t IH]; simpl; intros k H; auto.
  destruct (Nat.eqb x k) eqn:E.
  - apply Nat.eqb_eq in E. exfalso; auto.
  - simpl. f_equal. apply IH. tauto.
Qed.

Lemma remove_key_In : forall B (l : list (nat * B)) k e, In e (remove_key l k) -> In e l.
Proof. intros B l k e H. unfold remove_key in H. apply filter_In in H. tauto. Qed.

Lemma remove_key_keys : forall B (l : list (nat * B)) k r, In r (map fst (remove_key l k)) -> In r (map fst l).
Proof.
  intros B l k r H. apply in_map_iff in H. destruct H as [e [E H]].
  apply remove_key_In in H. apply in_map_iff. eauto.
Qed.

Lemma remove_key_NoDup : forall B (l : list (nat * B)) k, NoDup (map fst l) -> NoDup (map fst (remove_key l k)).
Proof.
  induction l as [|[x w] t IH]; simpl; intros k H; auto.
  inversion H; subst.
  destruct (negb (Nat.eqb x k)); simpl; auto.
  constructor; auto. intro Hin. apply remove_key_keys in Hin. auto.
Qed.

(* ------------------------------------------------------------------ *)
(* projections of the effect log                                       *)

Definition calls_on (c : cid) (es : list effect) : list nat :=
  flat_map (fun e => match e with Call _ c' x => if Nat.eqb c' c then [x] else [] | _ => [] end) es.

Lemma calls_on_app : forall c a b, calls_on c (a ++ b) = calls_on c a ++ calls_on c b.
Proof. intros; apply flat_map_app. Qed.
Lemma calls_of_app : forall h a b, calls_of h (a ++ b) = calls_of h a ++ calls_of h b.
Proof. intros; apply flat_map_app. Qed.

Lemma In_drop_all : forall rs e, In e (drop_all rs) -> exists h, e = DropHandler h.
Proof. intros rs e H. apply in_map_iff in H. destruct H as [x [E _]]. eauto. Qed.

Lemma calls_on_drop_all : forall c rs, calls_on c (drop_all rs) = [].
Proof. induction rs; simpl; auto. Qed.
Lemma calls_of_drop_all : forall h rs, calls_of h (drop_all rs) = [].
Proof. induction rs; simpl; auto. Qed.

Lemma calls_of_none : forall h es, (forall c x, ~ In (Call h c x) es) -> calls_of h es = [].
Proof.
  induction es as [|e es IH]; simpl; intros H; auto.
  rewrite IH by (intros c x Hi; apply (H c x); auto).
  destruct e; auto. destruct (Nat.eqb h0 h) eqn:E; auto.
  apply Nat.eqb_eq in E; subst. exfalso. apply (H c x); auto.
Qed.

Lemma calls_on_none : forall c es, (forall h x, ~ In (Call h c x) es) -> calls_on c es = [].
Proof.
  induction es as [|e es IH]; simpl; intros H; auto.
  rewrite IH by (intros h x Hi; apply (H h x); auto).
  destruct e; auto. destruct (Nat.eqb c0 c) eqn:E; auto.
  apply Nat.eqb_eq in E; subst. exfalso. apply (H h x); auto.
Qed.

Lemma calls_of_on : forall h c es,
  (forall h' c' x, In (Call h' c' x) es -> (h' = h <-> c' = c)) ->
  calls_of h es = calls_on c es.
Proof.
  induction es as [|e es IH]; simpl; intros H; auto.
  rewrite IH by (intros h1 c1 x1 Hi; apply (H h1 c1 x1); auto).
  destruct e; auto.
  pose proof (H h0 c0 x (or_introl eq_refl)) as Hiff.
  destruct (Nat.eqb_spec h0 h), (Nat.eqb_spec c0 c); auto; tauto.
Qed.

Definition isaddh (h : hid) (l : label) : bool := match l with PAddRoute _ h' => Nat.eqb h' h | _ => false end.
Definition isaddc (c : cid) (l : label) : bool := match l with PAddRoute c' _ => Nat.eqb c' c | _ => false end.
Definition isr (h : hid) (e : rid * (cid * hid)) : bool := Nat.eqb (snd (snd e)) h.
Definition isq (h : hid) (m : ctl) : bool := match m with AddRoute _ h' => Nat.eqb h' h | Shutdown => false end.
Definition isd (h : hid) (e : effect) : bool :=
  match e with DropHandler h' | DropArgs h' => Nat.eqb h' h | _ => false end.

Lemma drops_of_cnt : forall h es, drops_of h es = cnt (isd h) es.
Proof. reflexivity. Qed.

Lemma cnt_drop_all : forall h rs, cnt (isd h) (drop_all rs) = cnt (isr h) rs.
Proof.
  induction rs as [|e rs IH]; auto.
  simpl drop_all. rewrite !cnt_cons, IH. reflexivity.
Qed.

Lemma cnt_remove : forall (l : list (rid * (cid * hid))) r c h,
  NoDup (map fst l) -> lookup l r = Some (c, h) ->
  forall h', cnt (isr h') l = cnt (isr h') (remove_key l r) + (if Nat.eqb h h' then 1 else 0).
Proof.
  induction l as [|[k v] t IH]; simpl; intros r c h ND L h'; [discriminate|].
  inversion ND; subst.
  destruct (Nat.eqb k r) eqn:E; simpl.
  - apply Nat.eqb_eq in E; subst. inversion L; subst.
    fold (remove_key t r). rewrite remove_key_notin by assumption.
    rewrite cnt_cons. unfold isr at 1. simpl. apply Nat.add_comm.
  - fold (remove_key t r). rewrite !cnt_cons. rewrite (IH r c h H2 L h').
    apply Nat.add_assoc.
Qed.

Definition dropped (h : hid) (l : list effect) : Prop := In (DropHandler h) l \/ In (DropArgs h) l.
Definition NCAD (es : list effect) : Prop :=
  forall h pre post, es = pre ++ post -> dropped h pre -> calls_of h post = [].

Lemma dropped_app : forall h a b, dropped h (a ++ b) <-> dropped h a \/ dropped h b.
Proof. unfold dropped; intros; rewrite !in_app_iff; tauto. Qed.

Lemma dropped_cnt : forall h es, dropped h es -> 1 <= cnt (isd h) es.
Proof.
  intros h es [H|H]; eapply cnt_In; eauto; simpl; apply Nat.eqb_refl.
Qed.

Lemma ncad_app : forall es new,
  NCAD es ->
  (forall h, dropped h es -> calls_of h new = []) ->
  ((forall h, calls_of h new = []) \/ (forall h, ~ dropped h new)) ->
  NCAD (es ++ new).
Proof.
  intros es new N H1 H2 h pre post E D.
  symmetry in E. apply app_eq_app in E. destruct E as [l [[E1 E2]|[E1 E2]]]; subst.
  - apply dropped_app in D.
    assert (C : calls_of h (l ++ post) = []).
    { destruct D as [D|D]; auto. destruct H2 as [H2|H2]; auto.
      exfalso. apply (H2 h). apply dropped_app; auto. }
    rewrite calls_of_app in C. apply app_eq_nil in C. tauto.
  - rewrite calls_of_app. rewrite (N h pre l eq_refl D). simpl.
    apply H1. apply dropped_app; auto.
Qed.

(* ------------------------------------------------------------------ *)
(* step inversion                                                      *)

Ltac inv_step H :=
  unfold step in H;
  repeat match type of H with
  | match ?x with _ => _ end = Some _ => destruct x eqn:?; try discriminate H
  end;
  inversion H; subst; clear H.

Ltac clean :=
  repeat match goal with
  | H : negb _ = false |- _ => apply negb_false_iff in H
  | H : negb _ = true |- _ => apply negb_true_iff in H
  | H : _ && _ = true |- _ => apply andb_prop in H; destruct H
  | H : _ || _ = false |- _ => apply orb_false_elim in H; destruct H
  | H : (_ <? _) = true |- _ => apply Nat.ltb_lt in H
  | H : (_ =? _) = true |- _ => apply Nat.eqb_eq in H
  end.

Ltac triv := simpl in *; intros; try solve [ assumption | discriminate | congruence | lia | tauto | eauto ].

(* ------------------------------------------------------------------ *)
(* state invariant                                                     *)

Record InvS (s : st) : Prop := {
  iPair : wakeups s = length (ctlq s);
  iNoSh : flag s = false -> ~ In Shutdown (ctlq s);
  iSh : flag s = true -> stopped s = false -> exists pre, ctlq s = pre ++ [Shutdown] /\ ~ In Shutdown pre;
  iStQ : stopped s = true -> ctlq s = [];
  iStR : stopped s = true -> routes s = [];
  iStP : stopped s = true -> flag s = true \/ proxy_alive s = false;
  iAck : In Ack (effects s) -> stopped s = true;
  iFA : flag s = true -> stopped s = true -> In Ack (effects s);
  iWA : waiting_ack s > 0 -> flag s = true;
  iNP : ~ In Panic (effects s);
  iA : forall c, calls_on c (effects s) ++ queue (get s c) = sent (get s c);
  iND : NoDup (map fst (routes s));
  iLt : forall r, In r (map fst (routes s)) -> r < nextrid s }.

Lemma InvS_init : InvS init.
Proof.
  constructor; simpl; intros; try discriminate; try tauto; try lia.
  - unfold get; simpl. destruct c; reflexivity.
  - constructor.
Qed.


Ltac easy1 :=
  try solve [ intros; simpl in *; (assumption || discriminate || congruence || lia || tauto || eauto) ];
  try solve [ intros; rewrite ?in_app_iff in *; simpl in *; intuition (try discriminate; try congruence; eauto) ].

Lemma not_in_drop_all_panic : forall rs, ~ In Panic (drop_all rs).
Proof. intros rs H. apply In_drop_all in H. destruct H; discriminate. Qed.
Lemma not_in_drop_all_ack : forall rs, ~ In Ack (drop_all rs).
Proof. intros rs H. apply In_drop_all in H. destruct H; discriminate. Qed.

Lemma sh_head : forall l pre, Shutdown :: l = pre ++ [Shutdown] -> ~ In Shutdown pre -> l = [].
Proof.
  intros l pre E N. destruct pre as [|p pre]; simpl in E; inversion E; subst; auto.
  exfalso; apply N; left; auto.
Qed.

Lemma step_InvS : forall s l s', InvS s -> step s l = Some s' -> InvS s'.
Proof.
  intros s l s' I H. destruct I as [P NS SH SQ SR SP AK FA WA NP A ND LT].
  destruct l; inv_step H; clean.
  - (* PNewChan *)
    constructor; unfold with_chans; simpl; auto.
    intro c. unfold get in *; simpl. rewrite nth_app_dflt. apply A.
  - (* PSend *)
    constructor; unfold with_chans; simpl; auto.
    intro c0. unfold get in *; simpl. destruct (Nat.eq_dec c0 c) as [->|Hne].
    + rewrite nth_set_nth_eq by assumption. simpl. rewrite app_assoc, A. reflexivity.
    + rewrite nth_set_nth_ne by assumption. apply A.
  - (* PHup *)
    constructor; unfold with_chans; simpl; auto.
    intro c0. unfold get in *; simpl. destruct (Nat.eq_dec c0 c) as [->|Hne].
    + rewrite nth_set_nth_eq by assumption. simpl. apply A.
    + rewrite nth_set_nth_ne by assumption. apply A.
  - (* PAddRoute, flag *)
    constructor; simpl; easy1.
    intro c0. unfold get in *; simpl. rewrite calls_on_app; simpl. rewrite app_nil_r. apply A.
  - (* PAddRoute, no flag *)
    constructor; simpl; easy1.
    rewrite app_length; simpl; lia.
  - (* PShutdown, flag *) constructor; easy1.
  - (* PShutdown, no flag *)
    constructor; simpl; easy1.
    rewrite app_length; simpl; lia.
  - (* PAckWait *) constructor; simpl; easy1.
  - (* PProxyDrop *) constructor; simpl; easy1.
  - (* REvWake AddRoute *)
    constructor; simpl; easy1.
    + intros F _. destruct (SH F eq_refl) as [pre [E N]].
      destruct pre as [|p pre]; simpl in E; inversion E; subst.
      exists pre; split; auto. intro; apply N; right; auto.
    + rewrite map_app; simpl. apply NoDup_snoc; auto. intro Hi. apply LT in Hi. lia.
    + intros r Hi. rewrite map_app, in_app_iff in Hi; simpl in Hi.
      destruct Hi as [Hi|[<-|[]]]; [apply LT in Hi|]; lia.
  - (* REvWake Shutdown *)
    assert (F : flag s = true).
    { destruct (flag s); auto. exfalso; apply NS; simpl; auto. }
    assert (L : l = []).
    { destruct (SH F eq_refl) as [pre [E N]]. eapply sh_head; eauto. }
    constructor; simpl; easy1.
    + rewrite !in_app_iff; simpl. intros [Hi|[Hi|[Hi|[]]]]; try discriminate; auto.
      eapply not_in_drop_all_panic; eauto.
    + intro c. unfold get in *; simpl. rewrite !calls_on_app, calls_on_drop_all; simpl.
      rewrite app_nil_r. apply A.
    + constructor.
  - (* REvMsg *)
    constructor; simpl; easy1.
    intro c0. unfold get in *; simpl.
    assert (Hc : c < length (chans s)).
    { destruct (lt_dec c (length (chans s))); auto.
      rewrite nth_overflow in Heql by lia. discriminate. }
    rewrite calls_on_app; simpl.
    destruct (Nat.eq_dec c0 c) as [->|Hne].
    + rewrite nth_set_nth_eq by assumption. simpl. rewrite Nat.eqb_refl.
      rewrite <- app_assoc; simpl. rewrite <- Heql. apply A.
    + rewrite nth_set_nth_ne by assumption.
      destruct (Nat.eqb_spec c c0); [congruence|]. rewrite app_nil_r. apply A.
  - (* REvClosed *)
    constructor; simpl; easy1.
    + intro c0. unfold get in *; simpl. rewrite calls_on_app; simpl. rewrite app_nil_r. apply A.
    + apply remove_key_NoDup; auto.
    + intros r0 Hi. apply remove_key_keys in Hi. auto.
  - (* REvWakeClosed *)
    assert (Q : ctlq s = []) by (destruct (ctlq s); simpl in *; auto; lia).
    constructor; simpl; easy1.
    + intros F _. destruct (SH F H) as [pre [E N]]. rewrite Q in E.
      exfalso. eapply app_cons_not_nil; eauto.
    + rewrite in_app_iff. intros [Hi|Hi]; auto. eapply not_in_drop_all_panic; eauto.
    + intro c. unfold get in *; simpl. rewrite calls_on_app, calls_on_drop_all.
      rewrite app_nil_r. apply A.
    + constructor.
Qed.

Lemma run_InvS : forall ls s s', InvS s -> run s ls = Some s' -> InvS s'.
Proof.
  induction ls as [|l ls IH]; simpl; intros s s' I H.
  - inversion H; subst; auto.
  - destruct (step s l) eqn:E; [|discriminate]. apply (IH s0 s'); auto. eapply step_InvS; eauto.
Qed.

(* ------------------------------------------------------------------ *)
(* history invariant                                                   *)

Record InvH (hist : list label) (s : st) : Prop := {
  hB : forall h c x, In (Call h c x) (effects s) -> In (PAddRoute c h) hist;
  hR : forall r c h, In (r, (c, h)) (routes s) -> In (PAddRoute c h) hist;
  hQ : forall c h, In (AddRoute c h) (ctlq s) -> In (PAddRoute c h) hist;
  hC : forall h, cnt (isaddh h) hist
                 = cnt (isr h) (routes s) + cnt (isq h) (ctlq s) + cnt (isd h) (effects s) }.

Lemma InvH_init : InvH [] init.
Proof. constructor; simpl; intros; try contradiction. reflexivity. Qed.

Lemma isr_pair : forall h r c h', isr h (r, (c, h')) = Nat.eqb h' h.
Proof. reflexivity. Qed.

Ltac cnt_goal C :=
  let h0 := fresh "h0" in
  intro h0; specialize (C h0); rewrite ?cnt_cons in C; simpl in C;
  rewrite ?cnt_app, ?cnt_one, ?cnt_cons, ?cnt_drop_all, ?cnt_nil, ?isr_pair; simpl;
  repeat match goal with |- context [Nat.eqb ?a ?b] => destruct (Nat.eqb a b) end;
  try lia.

Lemma step_InvH : forall hist s l s', InvS s -> InvH hist s -> step s l = Some s' -> InvH (hist ++ [l]) s'.
Proof.
  intros hist s l s' IS [B R Q C] H.
  assert (B' : forall h c x, In (Call h c x) (effects s) -> In (PAddRoute c h) (hist ++ [l]))
    by (intros; apply in_or_app; left; eauto).
  assert (R' : forall r c h, In (r, (c, h)) (routes s) -> In (PAddRoute c h) (hist ++ [l]))
    by (intros; apply in_or_app; left; eauto).
  assert (Q' : forall c h, In (AddRoute c h) (ctlq s) -> In (PAddRoute c h) (hist ++ [l]))
    by (intros; apply in_or_app; left; eauto).
  pose proof (iND _ IS) as ND.
  destruct l; inv_step H; clean; unfold with_chans.
  all: constructor; simpl; try solve [cnt_goal C]; easy1.
  - intros r c1 h1 Hi. rewrite in_app_iff in Hi; simpl in Hi.
    destruct Hi as [Hi|[Hi|[]]]; eauto. inversion Hi; subst. apply Q'; left; auto.
  - intros h0 c0 x Hi. rewrite !in_app_iff in Hi; simpl in Hi.
    destruct Hi as [Hi|[Hi|[Hi|[]]]]; eauto; try discriminate.
    apply In_drop_all in Hi; destruct Hi; discriminate.
  - intros h0 c0 x Hi. rewrite in_app_iff in Hi; simpl in Hi.
    destruct Hi as [Hi|[Hi|[]]]; eauto. inversion Hi; subst.
    eapply R'. apply lookup_In; eauto.
  - intros r0 c0 h0 Hi. apply remove_key_In in Hi. eauto.
  - match goal with L : lookup _ _ = Some _ |- _ => pose proof (cnt_remove _ _ _ _ ND L) as CR end.
    intro h0. specialize (CR h0). specialize (C h0).
    rewrite ?cnt_app, ?cnt_one; simpl.
    destruct (Nat.eqb h h0); lia.
  - intros h0 c0 x Hi. rewrite !in_app_iff in Hi; simpl in Hi.
    destruct Hi as [Hi|Hi]; eauto.
    apply In_drop_all in Hi; destruct Hi; discriminate.
Qed.

Lemma run_InvH : forall ls2 ls1 s1 s,
  InvS s1 -> InvH ls1 s1 -> run s1 ls2 = Some s -> InvH (ls1 ++ ls2) s.
Proof.
  induction ls2 as [|l ls2 IH]; simpl; intros ls1 s1 s IS IH1 H.
  - inversion H; subst. rewrite app_nil_r. auto.
  - destruct (step s1 l) as [s2|] eqn:E; [|discriminate].
    replace (ls1 ++ l :: ls2) with ((ls1 ++ [l]) ++ ls2) by (rewrite <- app_assoc; reflexivity).
    apply (IH (ls1 ++ [l]) s2 s); auto.
    + eapply step_InvS; eauto.
    + eapply step_InvH; eauto.
Qed.

(* ------------------------------------------------------------------ *)
(* invariant that needs well-formed schedules                          *)

Record InvW (s : st) : Prop := {
  wN : NCAD (effects s);
  wD : forall h, In (DropArgs h) (effects s) -> calls_of h (effects s) = [] }.

Lemma InvW_init : InvW init.
Proof.
  constructor; simpl.
  - intros h pre post E D. destruct pre; [|discriminate]. destruct D as [[]|[]].
  - intros h [].
Qed.

Lemma InvW_nocalls : forall es new,
  NCAD es -> (forall h, In (DropArgs h) es -> calls_of h es = []) ->
  (forall h, calls_of h new = []) -> (forall h, ~ In (DropArgs h) new) ->
  NCAD (es ++ new) /\ (forall h, In (DropArgs h) (es ++ new) -> calls_of h (es ++ new) = []).
Proof.
  intros es new N D H1 H2. split.
  - apply ncad_app; auto.
  - intros h Hi. rewrite in_app_iff in Hi. destruct Hi as [Hi|Hi]; [|exfalso; eapply H2; eauto].
    rewrite calls_of_app, H1, app_nil_r. auto.
Qed.

Lemma step_InvW : forall hist s l s',
  (forall h, cnt (isaddh h) (hist ++ [l]) <= 1) ->
  InvS s -> InvH hist s -> InvW s -> step s l = Some s' -> InvW s'.
Proof.
  intros hist s l s' W IS [B R Q C] [N D] H.
  destruct l; inv_step H; clean; unfold with_chans.
  all: try solve [constructor; simpl; assumption].
  - (* PAddRoute, flag *)
    assert (H0 : cnt (isaddh h) hist = 0).
    { specialize (W h). rewrite cnt_app, cnt_one in W. simpl in W.
      rewrite Nat.eqb_refl in W. lia. }
    assert (NC : calls_of h (effects s) = []).
    { apply calls_of_none. intros c0 x Hi. apply B in Hi.
      pose proof (cnt_In _ (isaddh h) _ _ Hi) as X. simpl in X.
      rewrite Nat.eqb_refl in X. specialize (X eq_refl). lia. }
    constructor; simpl.
    + apply ncad_app; auto.
    + intros h' Hi. rewrite in_app_iff in Hi. rewrite calls_of_app; simpl; rewrite app_nil_r.
      destruct Hi as [Hi|[Hi|[]]]; auto. inversion Hi; subst; auto.
  - (* REvWake Shutdown *)
    destruct (InvW_nocalls (effects s) (drop_all (routes s) ++ [Ack]) N D) as [X Y].
    + intro h. rewrite calls_of_app, calls_of_drop_all. reflexivity.
    + intros h Hi. rewrite in_app_iff in Hi. destruct Hi as [Hi|[Hi|[]]]; [|discriminate].
      apply In_drop_all in Hi. destruct Hi; discriminate.
    + constructor; simpl; auto.
  - (* REvMsg *)
    assert (ND : ~ dropped h (effects s)).
    { intro Dh. apply dropped_cnt in Dh.
      match goal with L : lookup _ _ = Some _ |- _ => apply lookup_In in L;
        pose proof (cnt_In _ (isr h) _ _ L) as X end.
      rewrite isr_pair, Nat.eqb_refl in X. specialize (X eq_refl).
      specialize (W h). rewrite cnt_app in W. specialize (C h). lia. }
    constructor; simpl.
    + apply ncad_app; auto.
      * intros h' Dh; simpl. destruct (Nat.eqb_spec h h'); auto. subst; contradiction.
      * right. intros h' [[Hi|[]]|[Hi|[]]]; discriminate.
    + intros h' Hi. rewrite in_app_iff in Hi. destruct Hi as [Hi|[Hi|[]]]; [|discriminate].
      rewrite calls_of_app; simpl. destruct (Nat.eqb_spec h h').
      * subst. exfalso. apply ND. right; auto.
      * rewrite app_nil_r; auto.
  - (* REvClosed *)
    destruct (InvW_nocalls (effects s) [DropHandler h] N D) as [X Y].
    + reflexivity.
    + intros h' [Hi|[]]; discriminate.
    + constructor; simpl; auto.
  - (* REvWakeClosed *)
    destruct (InvW_nocalls (effects s) (drop_all (routes s)) N D) as [X Y].
    + intro h. apply calls_of_drop_all.
    + intros h Hi. apply In_drop_all in Hi. destruct Hi; discriminate.
    + constructor; simpl; auto.
Qed.

Lemma run_InvW : forall ls2 ls1 s1 s,
  (forall h, cnt (isaddh h) (ls1 ++ ls2) <= 1) ->
  InvS s1 -> InvH ls1 s1 -> InvW s1 -> run s1 ls2 = Some s -> InvW s.
Proof.
  induction ls2 as [|l ls2 IH]; simpl; intros ls1 s1 s W IS IH1 IW H.
  - inversion H; subst; auto.
  - destruct (step s1 l) as [s2|] eqn:E; [|discriminate].
    assert (W' : forall h, cnt (isaddh h) ((ls1 ++ [l]) ++ ls2) <= 1).
    { intro h. rewrite <- app_assoc. apply W. }
    apply (IH (ls1 ++ [l]) s2 s); auto.
    + eapply step_InvS; eauto.
    + eapply step_InvH; eauto.
    + eapply step_InvW; eauto.
      intro h. specialize (W' h). rewrite cnt_app in W'. lia.
Qed.

(* routes_once as counting facts *)
Lemma routes_once_h : forall ls cs hs, routes_once ls cs hs = true ->
  forall h, cnt (isaddh h) ls + (if existsb (Nat.eqb h) hs then 1 else 0) <= 1.
Proof.
  induction ls as [|l ls IH]; intros cs hs H h.
  - rewrite cnt_nil. destruct (existsb (Nat.eqb h) hs); lia.
  - rewrite cnt_cons. destruct l; simpl in H; simpl; try (apply (IH cs hs H h)).
    apply andb_prop in H; destruct H as [H H3]. apply andb_prop in H; destruct H as [H1 H2].
    apply negb_true_iff in H2. specialize (IH _ _ H3 h). simpl in IH.
    destruct (Nat.eqb_spec h0 h).
    + subst. rewrite Nat.eqb_refl in IH; simpl in IH. rewrite H2. lia.
    + destruct (Nat.eqb_spec h h0); [congruence|]. simpl in IH. lia.
Qed.

Lemma routes_once_c : forall ls cs hs, routes_once ls cs hs = true ->
  forall c, cnt (isaddc c) ls + (if existsb (Nat.eqb c) cs then 1 else 0) <= 1.
Proof.
  induction ls as [|l ls IH]; intros cs hs H c.
  - rewrite cnt_nil. destruct (existsb (Nat.eqb c) cs); lia.
  - rewrite cnt_cons. destruct l; simpl in H; simpl; try (apply (IH cs hs H c)).
    apply andb_prop in H; destruct H as [H H3]. apply andb_prop in H; destruct H as [H1 H2].
    apply negb_true_iff in H1. specialize (IH _ _ H3 c). simpl in IH.
    destruct (Nat.eqb_spec c0 c).
    + subst. rewrite Nat.eqb_refl in IH; simpl in IH. rewrite H1. lia.
    + destruct (Nat.eqb_spec c c0); [congruence|]. simpl in IH. lia.
Qed.

Lemma once_h : forall ls, routes_once ls [] [] = true -> forall h, cnt (isaddh h) ls <= 1.
Proof. intros ls H h. pose proof (routes_once_h ls [] [] H h) as X. simpl in X. lia. Qed.
Lemma once_c : forall ls, routes_once ls [] [] = true -> forall c, cnt (isaddc c) ls <= 1.
Proof. intros ls H c. pose proof (routes_once_c ls [] [] H c) as X. simpl in X. lia. Qed.

Lemma add_fun_h : forall ls c c' h, routes_once ls [] [] = true ->
  In (PAddRoute c h) ls -> In (PAddRoute c' h) ls -> c = c'.
Proof.
  intros ls c c' h W H1 H2. destruct (Nat.eq_dec c c') as [|Hne]; auto. exfalso.
  assert (X : 2 <= cnt (isaddh h) ls).
  { apply (cnt_two _ (isaddh h) ls _ _ H1 H2); simpl; try apply Nat.eqb_refl.
    intro E; inversion E; contradiction. }
  pose proof (once_h ls W h). lia.
Qed.

Lemma add_fun_c : forall ls c h h', routes_once ls [] [] = true ->
  In (PAddRoute c h) ls -> In (PAddRoute c h') ls -> h = h'.
Proof.
  intros ls c h h' W H1 H2. destruct (Nat.eq_dec h h') as [|Hne]; auto. exfalso.
  assert (X : 2 <= cnt (isaddc c) ls).
  { apply (cnt_two _ (isaddc c) ls _ _ H1 H2); simpl; try apply Nat.eqb_refl.
    intro E; inversion E; contradiction. }
  pose proof (once_c ls W c). lia.
Qed.

Lemma reach_S : forall ls s, run init ls = Some s -> InvS s.
Proof. intros. eapply run_InvS; eauto using InvS_init. Qed.
Lemma reach_H : forall ls s, run init ls = Some s -> InvH ls s.
Proof. intros ls s H. apply (run_InvH ls [] init s InvS_init InvH_init H). Qed.
Lemma reach_W : forall ls s, routes_once ls [] [] = true -> run init ls = Some s -> InvW s.
Proof.
  intros ls s W H.
  apply (run_InvW ls [] init s (once_h ls W) InvS_init InvH_init InvW_init H).
Qed.

(* ================================================================== *)
(* 1. pairing                                                          *)

Theorem pairing_always : forall ls s, run init ls = Some s -> wakeups s = length (ctlq s).
Proof. intros ls s H. apply iPair. eapply reach_S; eauto. Qed.

Theorem pairing : forall ls s, run init ls = Some s -> stopped s = false -> wakeups s = length (ctlq s).
Proof. intros ls s H _. eapply pairing_always; eauto. Qed.

Theorem wake_never_blocks : forall ls s, run init ls = Some s -> stopped s = false -> wakeups s > 0 ->
  exists s', step s REvWake = Some s'.
Proof.
  intros ls s H St W. pose proof (pairing ls s H St) as P.
  unfold step. rewrite St.
  destruct (wakeups s) eqn:Ew; [lia|].
  destruct (ctlq s) as [|m q] eqn:Eq; [simpl in P; lia|].
  destruct m; eexists; reflexivity.
Qed.

(* 2. *)
Theorem no_panic : forall ls s, run init ls = Some s -> ~ In Panic (effects s).
Proof. intros ls s H. apply iNP. eapply reach_S; eauto. Qed.

(* 3. routing *)
Theorem no_other_handler : forall ls s h c x, routes_once ls [] [] = true -> run init ls = Some s ->
  In (Call h c x) (effects s) -> In (PAddRoute c h) ls.
Proof. intros ls s h c x _ H Hi. eapply hB; eauto. apply reach_H; auto. Qed.

Theorem routed_exact : forall ls s c h, routes_once ls [] [] = true -> run init ls = Some s ->
  In (PAddRoute c h) ls -> calls_of h (effects s) ++ queue (get s c) = sent (get s c).
Proof.
  intros ls s c h W H Hi.
  rewrite (calls_of_on h c).
  - apply iA. eapply reach_S; eauto.
  - intros h' c' x Hc. apply (hB _ _ (reach_H ls s H)) in Hc. split; intro; subst.
    + eapply add_fun_h; eauto.
    + eapply add_fun_c; eauto.
Qed.

Theorem unrouted_exact : forall ls s c, run init ls = Some s ->
  (forall h, ~ In (PAddRoute c h) ls) -> queue (get s c) = sent (get s c).
Proof.
  intros ls s c H N. rewrite <- (iA _ (reach_S ls s H) c).
  rewrite calls_on_none; auto.
  intros h x Hc. apply (hB _ _ (reach_H ls s H)) in Hc. eapply N; eauto.
Qed.

Theorem routed_in_order : forall ls s c h, routes_once ls [] [] = true -> run init ls = Some s ->
  In (PAddRoute c h) ls ->
  (exists k, calls_of h (effects s) = firstn k (sent (get s c))) /\
  (forall h' c' x, In (Call h' c' x) (effects s) -> h' = h -> c' = c).
Proof.
  intros ls s c h W H Hi. split.
  - exists (length (calls_of h (effects s))).
    rewrite <- (routed_exact ls s c h W H Hi).
    rewrite firstn_app, Nat.sub_diag, firstn_all. simpl. rewrite app_nil_r. reflexivity.
  - intros h' c' x Hc E. subst. apply (hB _ _ (reach_H ls s H)) in Hc.
    eapply add_fun_h; eauto.
Qed.

(* 4. handler lifetime *)
Theorem dropped_at_most_once : forall ls s h, routes_once ls [] [] = true -> run init ls = Some s ->
  drops_of h (effects s) <= 1.
Proof.
  intros ls s h W H. rewrite drops_of_cnt.
  pose proof (hC _ _ (reach_H ls s H) h). pose proof (once_h ls W h). lia.
Qed.

Theorem no_call_after_drop : forall ls s h, routes_once ls [] [] = true -> run init ls = Some s ->
  forall pre post, effects s = pre ++ post -> In (DropHandler h) pre \/ In (DropArgs h) pre ->
  calls_of h post = [].
Proof.
  intros ls s h W H pre post E D. exact (wN _ (reach_W ls s W H) h pre post E D).
Qed.

(* 5. shutdown and proxy drop *)
Lemma stopped_step : forall s l s', stopped s = true -> step s l = Some s' ->
  stopped s' = true /\ (effects s' = effects s \/ exists h, effects s' = effects s ++ [DropArgs h]).
Proof.
  intros s l s' St Hs. destruct l; inv_step Hs; clean; simpl; auto; try congruence.
  split; auto. right; eexists; reflexivity.
Qed.

Theorem stopped_is_final : forall ls s, routes_once ls [] [] = true -> run init ls = Some s ->
  stopped s = true ->
  routes s = [] /\
  (forall l s', step s l = Some s' -> effects s' = effects s \/ exists h, effects s' = effects s ++ [DropArgs h]) /\
  (forall l s', step s l = Some s' -> stopped s' = true).
Proof.
  intros ls s _ H St. split; [|split].
  - apply iStR; auto. eapply reach_S; eauto.
  - intros l s' Hs. apply (stopped_step s l s' St Hs).
  - intros l s' Hs. apply (stopped_step s l s' St Hs).
Qed.

(* the same over any continuation of the schedule: once stopped, no handler is ever called again *)
Theorem stopped_forever : forall ls' s s', stopped s = true -> run s ls' = Some s' ->
  stopped s' = true /\ forall h, calls_of h (effects s') = calls_of h (effects s).
Proof.
  induction ls' as [|l ls' IH]; simpl; intros s s' St H.
  - inversion H; subst; auto.
  - destruct (step s l) as [s1|] eqn:E; [|discriminate].
    destruct (stopped_step s l s1 St E) as [St1 Ef].
    destruct (IH s1 s' St1 H) as [St' C]. split; auto.
    intro h. rewrite C. destruct Ef as [->|[h0 ->]]; auto.
    rewrite calls_of_app; simpl. apply app_nil_r.
Qed.

Theorem stopped_ctlq_empty : forall ls s, run init ls = Some s -> stopped s = true -> ctlq s = [].
Proof. intros ls s H St. apply iStQ; auto. eapply reach_S; eauto. Qed.

Theorem stop_drops_all_strong : forall ls s c h, routes_once ls [] [] = true -> run init ls = Some s ->
  stopped s = true -> In (PAddRoute c h) ls -> drops_of h (effects s) = 1.
Proof.
  intros ls s c h W H St Hi. rewrite drops_of_cnt.
  pose proof (hC _ _ (reach_H ls s H) h) as C.
  rewrite (iStR _ (reach_S ls s H) St), (iStQ _ (reach_S ls s H) St) in C.
  rewrite !cnt_nil in C.
  pose proof (once_h ls W h).
  assert (1 <= cnt (isaddh h) ls).
  { eapply cnt_In; eauto. simpl. apply Nat.eqb_refl. }
  lia.
Qed.

Theorem stop_drops_all : forall ls s c h, routes_once ls [] [] = true -> run init ls = Some s ->
  stopped s = true -> In (PAddRoute c h) ls ->
  (drops_of h (effects s) = 1 \/ In (AddRoute c h) (ctlq s)).
Proof. intros. left. eapply stop_drops_all_strong; eauto. Qed.

Theorem ack_then_stopped : forall ls s, run init ls = Some s -> In Ack (effects s) -> stopped s = true.
Proof. intros ls s H. apply iAck. eapply reach_S; eauto. Qed.

Theorem shutdown_idempotent : forall ls s s', run init ls = Some s -> flag s = true ->
  step s PShutdown = Some s' -> s' = s.
Proof.
  intros ls s s' _ F H. unfold step in H.
  destruct (negb (proxy_alive s)); [discriminate|]. rewrite F in H. inversion H; auto.
Qed.

Theorem add_after_shutdown_never_invoked : forall ls s h, routes_once ls [] [] = true ->
  run init ls = Some s -> In (DropArgs h) (effects s) -> calls_of h (effects s) = [].
Proof. intros ls s h W H. apply wD. eapply reach_W; eauto. Qed.

(* 6. *)
Theorem shutdown_progress : forall ls s, run init ls = Some s -> waiting_ack s > 0 ->
  (exists s', step s PAckWait = Some s') \/ (exists s', step s REvWake = Some s').
Proof.
  intros ls s H WA. pose proof (reach_S ls s H) as IS.
  pose proof (iWA _ IS WA) as F.
  destruct (stopped s) eqn:St.
  - left. pose proof (iFA _ IS F St) as HA. unfold step.
    destruct (waiting_ack s); [lia|].
    assert (X : existsb (fun e => match e with Ack => true | _ => false end) (effects s) = true).
    { apply existsb_exists. exists Ack; auto. }
    rewrite X. eexists; reflexivity.
  - right. destruct (iSh _ IS F St) as [pre [E N]].
    apply (wake_never_blocks ls s H St).
    rewrite (iPair _ IS), E, app_length. simpl. lia.
Qed.

(* non-vacuity: a well-formed schedule that registers a route after traffic was queued, delivers it, hangs up,
   shuts down, acknowledges, and offers a late route *)
Definition demo : list label :=
  [PNewChan; PSend 0 7; PAddRoute 0 5; PSend 0 8; REvWake; REvMsg 1; REvMsg 1; PHup 0; REvClosed 1;
   PNewChan; PAddRoute 1 6; PShutdown; REvWake; REvWake; PAckWait; PAddRoute 2 9; PProxyDrop].
Example demo_wf : routes_once demo [] [] = true.
Proof. reflexivity. Qed.
Example demo_effects : option_map effects (run init demo)
  = Some [Call 5 0 7; Call 5 0 8; DropHandler 5; DropHandler 6; Ack; DropArgs 9].
Proof. vm_compute. reflexivity. Qed.

Print Assumptions pairing.
Print Assumptions wake_never_blocks.
Print Assumptions no_panic.
Print Assumptions routed_in_order.
Print Assumptions routed_exact.
Print Assumptions unrouted_exact.
Print Assumptions no_other_handler.
Print Assumptions dropped_at_most_once.
Print Assumptions no_call_after_drop.
Print Assumptions stopped_is_final.
Print Assumptions stopped_forever.
Print Assumptions stopped_ctlq_empty.
Print Assumptions stop_drops_all_strong.
Print Assumptions stop_drops_all.
Print Assumptions ack_then_stopped.
Print Assumptions shutdown_idempotent.
Print Assumptions add_after_shutdown_never_invoked.
Print Assumptions shutdown_progress.
