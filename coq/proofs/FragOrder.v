(* FragOrder: inside OsIpcSender::send the sender gives up its own copy of the dedicated READ end before it transmits the
   first follow-up fragment on the dedicated socket.  This is what makes a follow-up `send` fail (EPIPE/ECONNRESET) instead
   of blocking for ever once the receiving process is gone: as long as the sender itself holds the read end, the kernel
   sees a live peer.  Holds for every length, buffer size, attachment count, fault oracle and outcome. *)
From Coq Require Import ZArith List Bool Lia.
From IPC Require Import U64 Params Frag.
Import ListNotations.
Open Scope Z_scope.

(* `seen`: the read end has been closed already *)
Fixpoint rx_before_send (seen : bool) (evs : list ev) : bool :=
  match evs with
  | [] => true
  | EvCloseDedRx :: r => rx_before_send true r
  | EvSend _ _ _ :: r => seen && rx_before_send seen r
  | _ :: r => rx_before_send seen r
  end.

Definition no_ded_send (evs : list ev) : bool :=
  forallb (fun e => match e with EvSend _ _ _ => false | _ => true end) evs.

Lemma rbs_true : forall evs, rx_before_send true evs = true.
Proof. induction evs as [|e evs IH]; [reflexivity|]. destruct e; cbn [rx_before_send andb]; exact IH. Qed.

Lemma rbs_no_send : forall evs s, no_ded_send evs = true -> rx_before_send s evs = true.
Proof.
  induction evs as [|e evs IH]; intros s H; [reflexivity|]. cbn [no_ded_send forallb] in H.
  apply andb_true_iff in H. destruct H as [H1 H2]. destruct e; cbn [rx_before_send]; try (apply IH; exact H2); try discriminate.
Qed.

Lemma rbs_app : forall a b s, rx_before_send s a = true -> no_ded_send b = true -> rx_before_send s (a ++ b) = true.
Proof.
  induction a as [|e a IH]; intros b s Ha Hb; cbn [app]; [apply rbs_no_send; exact Hb|].
  destruct e; cbn [rx_before_send] in *; try (apply IH; assumption).
  apply andb_true_iff in Ha. destruct Ha as [-> Ha]. cbn [andb]. apply IH; assumption.
Qed.

Lemma rbs_pre : forall a b s, no_ded_send a = true -> rx_before_send s b = true ->
  (forall e, In e a -> e <> EvCloseDedRx) -> rx_before_send s (a ++ b) = true.
Proof.
  induction a as [|e a IH]; intros b s Ha Hb Hn; cbn [app]; [exact Hb|].
  cbn [no_ded_send forallb] in Ha. apply andb_true_iff in Ha. destruct Ha as [H1 H2].
  assert (Hn' : forall e0, In e0 a -> e0 <> EvCloseDedRx) by (intros e0 I; apply Hn; right; exact I).
  destruct e; cbn [rx_before_send]; try (apply IH; assumption); try discriminate.
  exfalso. apply (Hn EvCloseDedRx); [left; reflexivity|reflexivity].
Qed.

(* the loop started at position 0: the first transmission is a sendmsg on the SHARED socket; when it succeeds the read
   end is closed at once, before the loop comes round again *)
Lemma first_order : forall fuel len nfds sb faults o evs,
  frag_loop fuel len nfds sb 0 faults = (o, evs) -> rx_before_send false evs = true.
Proof.
  induction fuel as [|f IH]; intros len nfds sb faults o evs H; cbn [frag_loop] in H.
  { injection H as <- <-. reflexivity. }
  destruct (0 <? len); [|injection H as <- <-; reflexivity].
  change (0 =? 0) with true in H. cbv iota in H.
  destruct (negb _); [injection H as <- <-; reflexivity|].
  destruct (_ && _); [injection H as <- <-; reflexivity|].
  destruct (next_fault faults) as [fl rest]. destruct fl.
  - destruct (frag_loop f len nfds sb _ rest) as [o' evs'] eqn:R. injection H as <- <-.
    cbn [rx_before_send]. apply rbs_true.
  - destruct (negb _); [injection H as <- <-; reflexivity|].
    destruct (downsize sb _) as [sb'|]; [|injection H as <- <-; reflexivity].
    destruct (frag_loop f len nfds sb' 0 rest) as [o' evs'] eqn:R. injection H as <- <-.
    cbn [rx_before_send]. apply (IH _ _ _ _ _ _ R).
  - injection H as <- <-. reflexivity.
Qed.

Lemma go_frag_order fuel len nfds sb faults pre o evs :
  go_frag fuel len nfds sb faults pre = (o, evs) -> no_ded_send pre = true ->
  (forall e, In e pre -> e <> EvCloseDedRx) -> rx_before_send false evs = true.
Proof.
  intros H Hp Hn. unfold go_frag in H.
  destruct (MAX_FDS_IN_CMSG <? nfds + 1); [injection H as <- <-; apply rbs_no_send; exact Hp|].
  destruct (frag_loop fuel len nfds sb 0 faults) as [o1 evs1] eqn:R. unfold finish_frag in H. injection H as <- <-.
  apply rbs_pre; [exact Hp| |exact Hn]. cbn [rx_before_send].
  apply rbs_app; [apply (first_order _ _ _ _ _ _ _ R)|]. destruct (has_close_rx evs1); reflexivity.
Qed.

Theorem send_rx_closed_before_follow_ups fuel S len nfds faults o evs :
  send fuel S len nfds faults = (o, evs) -> rx_before_send false evs = true.
Proof.
  unfold send. intros H.
  destruct (MAX_FDS_IN_CMSG <? nfds); [injection H as <- <-; reflexivity|].
  destruct (negb _); [injection H as <- <-; reflexivity|].
  destruct (send_single_packet len S).
  - destruct (next_fault faults) as [fl rest]. destruct fl; cbn [res_of] in H.
    + injection H as <- <-. reflexivity.
    + destruct (negb _); [injection H as <- <-; reflexivity|].
      destruct (downsize S len); [|injection H as <- <-; reflexivity].
      apply (go_frag_order _ _ _ _ _ _ _ _ H); [reflexivity|].
      intros e [<-|[]]; discriminate.
    + injection H as <- <-. reflexivity.
  - apply (go_frag_order _ _ _ _ _ _ _ _ H); [reflexivity|]. intros e [].
Qed.

(* the checker is not trivially true: a trace that transmits on the dedicated socket first is rejected, and a real
   fragmented send (with a retry) does transmit follow-ups *)
Example rbs_rejects : rx_before_send false [EvSocketpair; EvSendmsg 9 0 4 1 true SOk; EvSend 4 9 SOk; EvCloseDedRx; EvCloseDedTx] = false.
Proof. reflexivity. Qed.
Example rbs_ex : let evs := snd (send 100 4096 12185 2 [FNoBufs; FOk; FNoBufs]) in
  rx_before_send false evs = true /\ no_ded_send evs = false.
Proof. vm_compute. split; reflexivity. Qed.
