(* ApiProofs: theorems about the model of the whole public API (model/Api.v). *)
From Coq Require Import List Arith ZArith Bool Lia.
From IPC Require Import K Prog Ideal Api KProofs IdealProofs.
Import ListNotations.

(* ------------------------------------------------------------------------------------------ *)
(* 0. small tools                                                                               *)
(* ------------------------------------------------------------------------------------------ *)
Definition aobj_of (r : ref) : aobj := match r with RS c => OS c | RR c => OR c | RM o => OM o end.
Definition akind_of (r : ref) : akind := match r with RS _ => HTx | RR _ => HRx | RM _ => HMem end.

(* closed form of a_install *)
Lemma a_install_shape : forall rs hs n,
  a_install hs n rs =
  (hs ++ combine (seq n (length rs)) (map aobj_of rs), n + length rs,
   combine (map akind_of rs) (seq n (length rs))).
Proof.
  induction rs as [|[c|c|o] t IH]; intros hs n; cbn [a_install].
  - cbn [length seq map combine]. rewrite app_nil_r, Nat.add_0_r. reflexivity.
  - rewrite IH. cbn [length seq map combine aobj_of akind_of]. rewrite <- app_assoc. cbn [app].
    rewrite Nat.add_succ_r. reflexivity.
  - rewrite IH. cbn [length seq map combine aobj_of akind_of]. rewrite <- app_assoc. cbn [app].
    rewrite Nat.add_succ_r. reflexivity.
  - rewrite IH. cbn [length seq map combine aobj_of akind_of]. rewrite <- app_assoc. cbn [app].
    rewrite Nat.add_succ_r. reflexivity.
Qed.

Ltac step_cases :=
  repeat match goal with
         | |- context [match ?x with _ => _ end] => destruct x eqn:?
         end.

(* ------------------------------------------------------------------------------------------ *)
(* T3. regions never change                                                                     *)
(* ------------------------------------------------------------------------------------------ *)
Lemma a_step_amem : forall s o,
  amem (fst (a_step s o)) = amem s \/ exists x, amem (fst (a_step s o)) = amem s ++ [x].
Proof.
  intros s o. destruct o; cbn [a_step]; step_cases; cbn [fst amem]; eauto.
Qed.

Lemma a_run_cons : forall s o r,
  a_run s (o :: r) = (fst (a_run (fst (a_step s o)) r), snd (a_step s o) :: snd (a_run (fst (a_step s o)) r)).
Proof.
  intros s o r. cbn [a_run]. destruct (a_step s o) as [s' out]. cbn [fst snd].
  destruct (a_run s' r) as [s'' outs]. reflexivity.
Qed.

Theorem region_content_stable : forall ops s o v,
  nth_error (amem s) o = Some v -> nth_error (amem (fst (a_run s ops))) o = Some v.
Proof.
  induction ops as [|op r IH]; intros s o v H; [exact H|].
  rewrite a_run_cons. cbn [fst]. apply IH.
  destruct (a_step_amem s op) as [E|[x E]]; rewrite E; auto.
  rewrite nth_error_app1; auto. eapply nth_error_lt; eauto.
Qed.
Print Assumptions region_content_stable.

Theorem region_read_is_creation : forall s h o l sd,
  lookup (ah s) h = Some (OM o) -> nth_error (amem s) o = Some (l, sd) ->
  snd (a_step s (AShmRead h)) = QShmRead l sd.
Proof. intros s h o l sd Hl Hn. cbn [a_step]. rewrite Hl, Hn. reflexivity. Qed.
Print Assumptions region_read_is_creation.

(* ------------------------------------------------------------------------------------------ *)
(* T5. disconnection                                                                            *)
(* ------------------------------------------------------------------------------------------ *)
Theorem recv_disconnected_iff : forall s h c,
  lookup (ah s) h = Some (OR c) -> q (get_chan (ak s) c) = [] ->
  (snd (a_step s (ARecv h)) = QDisconnected <-> refs (ak s) (RS c) = 0).
Proof.
  intros s h c Hl Hq. cbn [a_step]. rewrite Hl. unfold k_recv. rewrite Hq.
  destruct (refs (ak s) (RS c) =? 0) eqn:E; cbn [snd].
  - apply Nat.eqb_eq in E. tauto.
  - apply Nat.eqb_neq in E. split; [discriminate|]. intros H. contradiction.
Qed.
Print Assumptions recv_disconnected_iff.

(* ------------------------------------------------------------------------------------------ *)
(* Examples                                                                                     *)
(* ------------------------------------------------------------------------------------------ *)
Definition ex_prog1 : list aop :=
  [ ANew;                       (* 0 tx, 1 rx *)
    ANew;                       (* 2 tx, 3 rx *)
    ASetNew;                    (* 4 *)
    ASetAdd 4 1;                (* member 0 *)
    ASetAdd 4 3;                (* member 1 *)
    AShm 16 7;                  (* 5 *)
    ASend 0 10%Z [XMem 5];
    ASend 2 (-1)%Z [XTx 0];
    ASend 2 20%Z [];
    ADrop 2;
    ASelectAll 4;
    AShmRead 6;
    ASelectAll 4 ].
Eval vm_compute in snd (a_run a_init ex_prog1).

Definition ex_prog2 : list aop :=
  [ AServer;                    (* 0 *)
    AConnect 0;                 (* 1 tx to server *)
    ANew;                       (* 2 tx, 3 rx *)
    AShm 8 3;                   (* 4 *)
    ASend 1 5%Z [XRx 3; XMem 4];
    AAccept 0;                  (* 5 rx, 6 rx(of 3), 7 mem *)
    AShmRead 7;
    ASend 2 (-4)%Z [XMem 4];
    ASend 2 9%Z [];
    ARecv 6;
    ARecv 6;
    ADrop 2;
    ARecv 6;
    ARecv 5;
    ADrop 1;
    ARecv 5 ].
Eval vm_compute in snd (a_run a_init ex_prog2).
