(* ApiProofs: theorems about the model of the whole public API (model/Api.v). *)
From Coq Require Import List Arith ZArith Bool Lia.
From IPC Require Import K Prog Ideal Api KProofs IdealProofs.
Import ListNotations.
