(* TlsProofs: the thread-local attachment lists of ipc.rs under nested sends and failing serialisers.
     ser_frame / ser_shift      serialising only appends; what is appended and emitted is independent of the start lists
     ipc_send_frame             after any send (ok, failed, nested to any depth) the thread-locals are as before
     ipc_send_own               a sent message carries exactly the channel attachments of its own level, in order
     ipc_send_err_releases(_all) a failed send releases everything it had collected
     ser_fuel_enough            fuel `size body` is enough: the result is stable for every larger fuel *)
From Coq Require Import List Arith Lia Bool ZArith.
From IPC Require Import Codec Tls.
Import ListNotations.
Local Open Scope nat_scope.   (* Codec opens Z_scope *)

Lemma tls_eta : forall t, {| t_chans := t_chans t; t_regions := t_regions t |} = t.
Proof. destruct t; reflexivity. Qed.

(* ---------- 1. frame / shift ---------- *)

(* functional form: running from t is running from the empty lists and prepending t *)
Lemma ser_shift_eq : forall fuel body t,
  ser fuel body t =
  let '(res, t0, e) := ser fuel body tls_empty in
  (res, {| t_chans := t_chans t ++ t_chans t0; t_regions := t_regions t ++ t_regions t0 |}, e).
Proof.
  induction fuel as [|f IH]; intros body t.
  - cbn. rewrite !app_nil_r, tls_eta. reflexivity.
  - destruct body as [|a r].
    + cbn. rewrite !app_nil_r, tls_eta. reflexivity.
    + destruct a as [|x|x|g|b p|]; cbn [ser].
      * apply IH.
      * pose proof (IH r {| t_chans := t_chans t ++ [AChan true x]; t_regions := t_regions t |}) as H1.
        pose proof (IH r {| t_chans := t_chans tls_empty ++ [AChan true x]; t_regions := t_regions tls_empty |}) as H2.
        rewrite H1, H2. destruct (ser f r tls_empty) as [[res0 t0] e0].
        cbn. rewrite <- app_assoc. reflexivity.
      * pose proof (IH r {| t_chans := t_chans t ++ [AChan false x]; t_regions := t_regions t |}) as H1.
        pose proof (IH r {| t_chans := t_chans tls_empty ++ [AChan false x]; t_regions := t_regions tls_empty |}) as H2.
        rewrite H1, H2. destruct (ser f r tls_empty) as [[res0 t0] e0].
        cbn. rewrite <- app_assoc. reflexivity.
      * pose proof (IH r {| t_chans := t_chans t; t_regions := t_regions t ++ [g] |}) as H1.
        pose proof (IH r {| t_chans := t_chans tls_empty; t_regions := t_regions tls_empty ++ [g] |}) as H2.
        rewrite H1, H2. destruct (ser f r tls_empty) as [[res0 t0] e0].
        cbn. rewrite <- app_assoc. reflexivity.
      * destruct (ser f b tls_empty) as [[res1 t1] e1].
        destruct res1.
        -- rewrite (IH r t). destruct (ser f r tls_empty) as [[res0 t0] e0]. cbn. reflexivity.
        -- destruct p.
           ++ cbn. rewrite !app_nil_r, tls_eta. reflexivity.
           ++ rewrite (IH r t). destruct (ser f r tls_empty) as [[res0 t0] e0]. cbn. reflexivity.
      * cbn. rewrite !app_nil_r, tls_eta. reflexivity.
Qed.

Theorem ser_shift : forall fuel body t res t' e,
  ser fuel body t = (res, t', e) ->
  exists cs rs, t_chans t' = t_chans t ++ cs /\ t_regions t' = t_regions t ++ rs /\
                ser fuel body tls_empty = (res, {| t_chans := cs; t_regions := rs |}, e).
Proof.
  intros fuel body t res t' e H.
  rewrite ser_shift_eq in H.
  destruct (ser fuel body tls_empty) as [[res0 t0] e0].
  inversion H; subst; clear H.
  exists (t_chans t0), (t_regions t0). cbn.
  rewrite tls_eta. repeat split; reflexivity.
Qed.

Theorem ser_frame : forall fuel body t res t' e,
  ser fuel body t = (res, t', e) ->
  exists cs rs, t_chans t' = t_chans t ++ cs /\ t_regions t' = t_regions t ++ rs.
Proof.
  intros fuel body t res t' e H.
  destruct (ser_shift _ _ _ _ _ _ H) as (cs & rs & Hc & Hr & _).
  exists cs, rs. split; assumption.
Qed.

(* ---------- 2. the thread-locals after a send ---------- *)

Theorem ipc_send_frame : forall fuel body t res t' e,
  ipc_send fuel body t = (res, t', e) -> t' = t.
Proof.
  intros fuel body t res t' e H. unfold ipc_send in H.
  destruct (ser fuel body tls_empty) as [[res1 t1] e1].
  destruct res1; inversion H; reflexivity.
Qed.

(* ---------- 3. a message carries the attachments of its own level ---------- *)

(* holds whatever the outcome: on failure too, the lists hold the own-level embeds made so far *)
Lemma ser_own_gen : forall fuel body t res t1 e1,
  ser fuel body t = (res, t1, e1) -> t_chans t1 = t_chans t ++ own_chans fuel body.
Proof.
  induction fuel as [|f IH]; intros body t res t1 e1 H.
  - cbn in H. inversion H; subst. cbn. rewrite app_nil_r. reflexivity.
  - destruct body as [|a r].
    + cbn in H. inversion H; subst. cbn. rewrite app_nil_r. reflexivity.
    + destruct a as [|x|x|g|b p|]; cbn [ser] in H; cbn [own_chans].
      * eapply IH; eassumption.
      * apply IH in H. cbn in H. rewrite H, <- app_assoc. reflexivity.
      * apply IH in H. cbn in H. rewrite H, <- app_assoc. reflexivity.
      * apply IH in H. cbn in H. exact H.
      * destruct (ser f b tls_empty) as [[res1 t2] e2] eqn:E1.
        destruct res1.
        -- destruct (ser f r t) as [[res' t'] e'] eqn:E2.
           inversion H; subst; clear H. apply IH in E2.
           destruct p; cbn; exact E2.
        -- destruct p.
           ++ inversion H; subst; clear H. cbn. rewrite app_nil_r. reflexivity.
           ++ destruct (ser f r t) as [[res' t'] e'] eqn:E2.
              inversion H; subst; clear H. apply IH in E2. exact E2.
      * inversion H; subst. rewrite app_nil_r. reflexivity.
Qed.

Lemma ser_own : forall fuel body t1 e1,
  ser fuel body tls_empty = (SerOk, t1, e1) -> t_chans t1 = own_chans fuel body.
Proof.
  intros fuel body t1 e1 H. apply ser_own_gen in H. exact H.
Qed.

Theorem ipc_send_own : forall fuel body t t' e,
  ipc_send fuel body t = (SerOk, t', e) ->
  exists e1 m, e = eff_app e1 {| msgs := [m]; released := [] |} /\ s_chans m = own_chans fuel body.
Proof.
  intros fuel body t t' e H. unfold ipc_send in H.
  destruct (ser fuel body tls_empty) as [[res1 t1] e1] eqn:E1.
  destruct res1; inversion H; subst; clear H.
  exists e1, {| s_chans := t_chans t1; s_regions := t_regions t1 |}.
  split; [reflexivity|]. cbn. eapply ser_own; eassumption.
Qed.

(* ---------- 4. a failed send releases what it collected ---------- *)

Theorem ipc_send_err_releases : forall fuel body t t' e,
  ipc_send fuel body t = (SerErr, t', e) ->
  exists e1 cs, e = eff_app e1 {| msgs := []; released := cs |}.
Proof.
  intros fuel body t t' e H. unfold ipc_send in H.
  destruct (ser fuel body tls_empty) as [[res1 t1] e1].
  destruct res1; inversion H; subst; clear H.
  exists e1, (t_chans t1). reflexivity.
Qed.

Theorem ipc_send_err_releases_all : forall fuel body t t1 e1,
  ser fuel body tls_empty = (SerErr, t1, e1) ->
  forall a, In a (t_chans t1) -> In a (released (snd (ipc_send fuel body t))).
Proof.
  intros fuel body t t1 e1 H a Ha. unfold ipc_send. rewrite H. cbn.
  apply in_or_app. right. exact Ha.
Qed.

(* sharper: the failed send emits no message of its own, and what it releases at its own level is own_chans *)
Theorem ipc_send_err_exact : forall fuel body t t' e,
  ipc_send fuel body t = (SerErr, t', e) ->
  exists e1, e = eff_app e1 {| msgs := []; released := own_chans fuel body |}.
Proof.
  intros fuel body t t' e H. unfold ipc_send in H.
  destruct (ser fuel body tls_empty) as [[res1 t1] e1] eqn:E1.
  destruct res1; inversion H; subst; clear H.
  exists e1. apply ser_own_gen in E1. cbn in E1. rewrite E1. reflexivity.
Qed.

(* ---------- 5. fuel ---------- *)

Lemma size_cons : forall a r, size (a :: r) = size_act a + size r.
Proof. intros a r. unfold size. cbn [fold_right]. lia. Qed.

Lemma size_pos : forall r, 1 <= size r.
Proof. intros r. unfold size. lia. Qed.

Lemma size_act_nest : forall b p, size_act (SNest b p) = size b.
Proof.
  (* the local fix in size_act is convertible with the fold_right in size *)
  intros b p. reflexivity.
Qed.

Lemma size_act_pos : forall a, 1 <= size_act a.
Proof. intros a. destruct a; cbn; lia. Qed.

Lemma ser_fuel_mono : forall f1 body t f2,
  size body <= f1 -> f1 <= f2 -> ser f1 body t = ser f2 body t.
Proof.
  induction f1 as [|f IH]; intros body t f2 Hs Hle.
  - pose proof (size_pos body). lia.
  - destruct f2 as [|g]; [lia|].
    destruct body as [|a r]; [reflexivity|].
    rewrite size_cons in Hs.
    pose proof (size_pos r) as Hr.
    destruct a as [|x|x|k|b p|]; cbn [ser].
    + cbn [size_act] in Hs. apply IH; lia.
    + cbn [size_act] in Hs. apply IH; lia.
    + cbn [size_act] in Hs. apply IH; lia.
    + cbn [size_act] in Hs. apply IH; lia.
    + rewrite size_act_nest in Hs. pose proof (size_pos b) as Hb.
      rewrite (IH b tls_empty g) by lia.
      destruct (ser g b tls_empty) as [[res1 t1] e1].
      destruct res1.
      * rewrite (IH r t g) by lia. reflexivity.
      * destruct p; [reflexivity|]. rewrite (IH r t g) by lia. reflexivity.
    + reflexivity.
Qed.

(* with fuel `size body` the out-of-fuel branch plays no role: every larger fuel gives the same result *)
Theorem ser_fuel_enough : forall body t fuel,
  size body <= fuel -> ser fuel body t = ser (size body) body t.
Proof.
  intros body t fuel H. symmetry. apply ser_fuel_mono; lia.
Qed.

Lemma own_chans_fuel_mono : forall f1 body f2,
  size body <= f1 -> f1 <= f2 -> own_chans f1 body = own_chans f2 body.
Proof.
  induction f1 as [|f IH]; intros body f2 Hs Hle.
  - pose proof (size_pos body). lia.
  - destruct f2 as [|g]; [lia|].
    destruct body as [|a r]; [reflexivity|].
    rewrite size_cons in Hs.
    pose proof (size_pos r) as Hr.
    destruct a as [|x|x|k|b p|]; cbn [own_chans].
    + cbn [size_act] in Hs. apply IH; lia.
    + cbn [size_act] in Hs. f_equal. apply IH; lia.
    + cbn [size_act] in Hs. f_equal. apply IH; lia.
    + cbn [size_act] in Hs. apply IH; lia.
    + rewrite size_act_nest in Hs. pose proof (size_pos b) as Hb.
      destruct p.
      * rewrite (ser_fuel_mono f b tls_empty g) by lia.
        destruct (ser g b tls_empty) as [[res1 t1] e1].
        destruct res1; [apply IH; lia | reflexivity].
      * apply IH; lia.
    + reflexivity.
Qed.

Theorem own_chans_fuel_enough : forall body fuel,
  size body <= fuel -> own_chans fuel body = own_chans (size body) body.
Proof.
  intros body fuel H. symmetry. apply own_chans_fuel_mono; lia.
Qed.

Theorem ipc_send_fuel_enough : forall body t fuel,
  size body <= fuel -> ipc_send fuel body t = ipc_send (size body) body t.
Proof.
  intros body t fuel H. unfold ipc_send. rewrite (ser_fuel_enough body tls_empty fuel H). reflexivity.
Qed.

(* ---------- 6. a concrete run ---------- *)

Example tls_ex :
  ipc_send 20 [STx 1; SNest [SRx 7; SEmit] false; STx 2; SNest [STx 9; SFail] false; SRegion 5]
           {| t_chans := [AChan true 99]; t_regions := [] |}
  = (SerOk, {| t_chans := [AChan true 99]; t_regions := [] |},
     {| msgs := [ {| s_chans := [AChan false 7]; s_regions := [] |};
                  {| s_chans := [AChan true 1; AChan true 2]; s_regions := [5] |} ];
        released := [AChan true 9] |}).
Proof. vm_compute. reflexivity. Qed.

(* the same body with the failing inner send propagated: nothing of the outer message is sent,
   its two collected attachments are released together with the inner one *)
Example tls_ex_err :
  ipc_send 20 [STx 1; SNest [SRx 7; SEmit] false; STx 2; SNest [STx 9; SFail] true; SRegion 5]
           {| t_chans := [AChan true 99]; t_regions := [] |}
  = (SerErr, {| t_chans := [AChan true 99]; t_regions := [] |},
     {| msgs := [ {| s_chans := [AChan false 7]; s_regions := [] |} ];
        released := [AChan true 9; AChan true 1; AChan true 2] |}).
Proof. vm_compute. reflexivity. Qed.

Example tls_ex_size :
  size [STx 1; SNest [SRx 7; SEmit] false; STx 2; SNest [STx 9; SFail] false; SRegion 5] = 10.
Proof. vm_compute. reflexivity. Qed.

Print Assumptions ser_frame.
Print Assumptions ser_shift.
Print Assumptions ipc_send_frame.
Print Assumptions ipc_send_own.
Print Assumptions ipc_send_err_releases.
Print Assumptions ipc_send_err_releases_all.
Print Assumptions ipc_send_err_exact.
Print Assumptions ser_fuel_enough.
Print Assumptions own_chans_fuel_enough.
Print Assumptions ipc_send_fuel_enough.
