(* TimedProofs: the blocking-mode flag never leaks out of a call; outcome table of the three receive variants. *)
From Coq Require Import ZArith List Bool Lia.
From IPC Require Import Timed.
Import ListNotations.
Open Scope Z_scope.
Ltac Zify.zify_post_hook ::= Z.div_mod_to_equations.

(* whatever the mode, the state of the queue, the result and what happened during a wait: a receiver whose
   description was blocking before a call is blocking after it *)
Theorem flag_restored : forall m q d, snd (recv_first m q d false) = false.
Proof. intros [| |us] q d; cbn; try reflexivity. destruct q; destruct d as [[]|]; cbn; try reflexivity; destruct (poll_arg us =? -1); reflexivity. Qed.

Theorem flag_restored_run : forall ops, snd (run false ops) = false.
Proof.
  induction ops as [|[[m q] d] r IH]; [reflexivity|]. cbn [run].
  pose proof (flag_restored m q d) as F. destruct (recv_first m q d false) as [[o cs] f1]. cbn [snd] in F. subst f1.
  destruct (run false r) as [[os cs'] f2]. cbn [snd] in *. exact IH.
Qed.

(* so a blocking receive issued after any mixture of the three variants really blocks (is read in blocking mode) *)
Theorem blocking_after_any : forall ops q, fst (fst (recv_first MBlocking q None (snd (run false ops)))) = read q false.
Proof. intros ops q. rewrite flag_restored_run. reflexivity. Qed.

(* try_recv never blocks and answers by the table *)
Theorem try_recv_table : forall q d f,
  fst (fst (recv_first MNonblocking q d f)) = match q with QMsg => OMsg | QIdle => OEmpty | QDead => ODisconnected end.
Proof. intros [] d f; reflexivity. Qed.

Theorem try_recv_never_blocks : forall q d f, fst (fst (recv_first MNonblocking q d f)) <> OBlocked.
Proof. intros [] d f; discriminate. Qed.

(* timed receive: 'empty' only after a full timeout (poll said nothing is ready), with the floor of the duration in
   milliseconds as the timeout; a message or a hang-up during the wait ends it with that result *)
Theorem timeout_empty_only_after_full_wait : forall us q d f o cs f',
  recv_first (MTimeout us) q d f = (o, cs, f') -> o = OEmpty ->
  cs = [CPoll (poll_arg us) false] /\ q = QIdle /\ (d = None \/ d = Some QIdle).
Proof.
  intros us q d f o cs f' H Ho. subst o. unfold recv_first in H.
  destruct q; destruct d as [[]|]; destruct f; cbn in H;
    try (destruct (poll_arg us =? -1)); inversion H; subst; repeat split; auto; discriminate.
Qed.

Theorem timeout_early_on_event : forall us x f, x <> QIdle ->
  fst (fst (recv_first (MTimeout us) QIdle (Some x) false)) = match x with QMsg => OMsg | _ => ODisconnected end /\
  fst (fst (recv_first (MTimeout us) x None f)) = read x f.
Proof. intros us [] f H; try congruence; split; reflexivity. Qed.

Theorem poll_arg_floor : forall us, 0 <= us -> us / 1000 < 2 ^ 31 -> poll_arg us = us / 1000 /\ 1000 * poll_arg us <= us < 1000 * (poll_arg us + 1).
Proof. intros us H0 H1. unfold poll_arg. destruct (us / 1000 <? 2 ^ 31) eqn:E; [|lia]. split; [reflexivity|lia]. Qed.

Theorem poll_arg_overflow : forall us, 2 ^ 31 <= us / 1000 -> poll_arg us = -1.
Proof. intros us H. unfold poll_arg. destruct (us / 1000 <? 2 ^ 31) eqn:E; [lia|reflexivity]. Qed.
