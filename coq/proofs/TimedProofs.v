(* TimedProofs: the blocking-mode flag never leaks out of a call; outcome table of the three receive variants. *)
From Coq Require Import ZArith List Bool Lia.
From IPC Require Import Timed.
Import ListNotations.
Open Scope Z_scope.
Ltac Zify.zify_post_hook ::= Z.div_mod_to_equations.

(* whatever the mode, the state of the queue, the result and what happened during a wait: a receiver whose
   description was blocking before a call is blocking after it *)
Theorem flag_restored : forall m q d, snd (recv_first m q d false) = false.
Proof. intros [| |us] q d; cbn; try reflexivity. destruct q; destruct d as [[]|]; cbn; try reflexivity; destruct (poll_arg us =? -1); reflexivity. Qed.

Theorem flag_restored_run : forall ops, snd (run false ops) = false.
Proof.
  induction ops as [|[[m q] d] r IH]; [reflexivity|]. cbn [run].
  pose proof (flag_restored m q d) as F. destruct (recv_first m q d false) as [[o cs] f1]. cbn [snd] in F. subst f1.
  destruct (run false r) as [[os cs'] f2]. cbn [snd] in *. exact IH.
Qed.

(* so a blocking receive issued after any mixture of the three variants really blocks (is read in blocking mode) *)
Theorem blocking_after_any : forall ops q, fst (fst (recv_first MBlocking q None (snd (run false ops)))) = read q false.
Proof. intros ops q. rewrite flag_restored_run. reflexivity. Qed.

(* try_recv never blocks and answers by the table *)
Theorem try_recv_table : forall q d f,
  fst (fst (recv_first MNonblocking q d f)) = match q with QMsg => OMsg | QIdle => OEmpty | QDead => ODisconnected end.
Proof. intros [] d f; reflexivity. Qed.

Theorem try_recv_never_blocks : forall q d f, fst (fst (recv_first MNonblocking q d f)) <> OBlocked.
Proof. intros [] d f; discriminate. Qed.

(* timed receive: 'empty' only after a full timeout (poll said nothing is ready), with the floor of the duration in
   milliseconds as the timeout; a message or a hang-up during the wait ends it with that result *)
Theorem timeout_empty_only_after_full_wait : forall us q d f o cs f',
  recv_first (MTimeout us) q d f = (o, cs, f') -> o = OEmpty ->
  cs = [CPoll (poll_arg us) false] /\ q = QIdle /\ (d = None \/ d = Some QIdle).
Proof.
  intros us q d f o cs f' H Ho. subst o. unfold recv_first in H.
  destruct q; destruct d as [[]|]; destruct f; cbn in H;
    try (destruct (poll_arg us =? -1)); inversion H; subst; repeat split; auto; discriminate.
Qed.

Theorem timeout_early_on_event : forall us x f, x <> QIdle ->
  fst (fst (recv_first (MTimeout us) QIdle (Some x) false)) = match x with QMsg => OMsg | _ => ODisconnected end /\
  fst (fst (recv_first (MTimeout us) x None f)) = read x f.
Proof. intros us [] f H; try congruence; split; reflexivity. Qed.

Theorem poll_arg_floor : forall us, 0 <= us -> us / 1000 < 2 ^ 31 -> poll_arg us = us / 1000 /\ 1000 * poll_arg us <= us < 1000 * (poll_arg us + 1).
Proof. intros us H0 H1. unfold poll_arg. destruct (us / 1000 <? 2 ^ 31) eqn:E; [|lia]. split; [reflexivity|lia]. Qed.

Theorem poll_arg_overflow : forall us, 2 ^ 31 <= us / 1000 -> poll_arg us = -1.
Proof. intros us H. unfold poll_arg. destruct (us / 1000 <? 2 ^ 31) eqn:E; [lia|reflexivity]. Qed.

(* ---- unfinished messages of a crashed sender at the head of the queue ---- *)
(* they are invisible: the result is the one the rest of the queue gives *)
Theorem torn_messages_invisible : forall m torn q d,
  fst (fst (recv_all m torn q d false)) = fst (fst (recv_first m q d false)) /\ snd (recv_all m torn q d false) = false.
Proof.
  intros m torn q d. induction torn as [|n IH]; cbn [recv_all].
  - split; [reflexivity|apply flag_restored].
  - pose proof (flag_restored m QMsg None) as F. destruct (recv_first m QMsg None false) as [[o0 cs0] f1]. cbn [snd] in F. subst f1.
    destruct (recv_all m n q d false) as [[o cs'] f2]. cbn [fst snd] in *. exact IH.
Qed.

(* in particular a non-blocking receive behind torn messages answers by the table and never blocks ... *)
Corollary torn_try_recv : forall torn q d,
  fst (fst (recv_all MNonblocking torn q d false)) = match q with QMsg => OMsg | QIdle => OEmpty | QDead => ODisconnected end.
Proof. intros torn q d. rewrite (proj1 (torn_messages_invisible _ _ _ _)). apply try_recv_table. Qed.

(* ... and a timed receive behind torn messages says 'empty' only after a poll with its FULL timeout found nothing: the last call
   of the whole receive is that poll *)
Theorem torn_timeout_full_wait : forall us torn q d o cs f',
  recv_all (MTimeout us) torn q d false = (o, cs, f') -> o = OEmpty ->
  exists pre, cs = pre ++ [CPoll (poll_arg us) false] /\ q = QIdle /\ (d = None \/ d = Some QIdle).
Proof.
  intros us torn. induction torn as [|n IH]; intros q d o cs f' H Ho; cbn [recv_all] in H.
  - destruct (timeout_empty_only_after_full_wait _ _ _ _ _ _ _ H Ho) as (-> & Hq & Hd). exists []. auto.
  - pose proof (flag_restored (MTimeout us) QMsg None) as F.
    destruct (recv_first (MTimeout us) QMsg None false) as [[o0 cs0] f1]. cbn [snd] in F. subst f1.
    destruct (recv_all (MTimeout us) n q d false) as [[o1 cs1] f2] eqn:E. injection H as <- <- <-.
    destruct (IH _ _ _ _ _ E Ho) as (pre & -> & Hq & Hd). exists (cs0 ++ pre). rewrite app_assoc. auto.
Qed.

(* every discarded message costs exactly one attempt in the caller's mode: the calls are `torn` repetitions of the attempt that
   finds a packet, followed by the attempt on the rest *)
Theorem torn_calls : forall m torn q d,
  snd (fst (recv_all m torn q d false)) =
  concat (repeat (snd (fst (recv_first m QMsg None false))) torn) ++ snd (fst (recv_first m q d false)).
Proof.
  intros m torn q d. induction torn as [|n IH]; cbn [recv_all repeat concat app]; [reflexivity|].
  pose proof (flag_restored m QMsg None) as F. destruct (recv_first m QMsg None false) as [[o0 cs0] f1] eqn:E0. cbn [snd] in F. subst f1.
  destruct (recv_all m n q d false) as [[o cs'] f2]. cbn [fst snd] in *. rewrite IH, <- app_assoc. reflexivity.
Qed.

(* ---- timed waits interrupted by a signal ---- *)
(* without a signal nothing changes *)
Theorem sig_conservative : forall m q d f,
  recv_first_sig m q d false f = (let '(o, cs, f') := recv_first m q d f in (SOut o, map SCall cs, f')).
Proof. intros [| |us] [] d f; reflexivity. Qed.

(* the flag never leaks out of a call, interrupted or not *)
Theorem sig_flag_restored : forall m q d i, snd (recv_first_sig m q d i false) = false.
Proof.
  intros m q d i. pose proof (flag_restored m q d) as F.
  destruct m as [| |us]; destruct q; destruct i; cbn [recv_first_sig]; try reflexivity;
    destruct (recv_first _ _ d false) as [[o cs] f1]; cbn [snd] in *; exact F.
Qed.

Theorem sig_flag_restored_run : forall ops, snd (run_sig false ops) = false.
Proof.
  induction ops as [|[[[m q] d] i] r IH]; [reflexivity|]. cbn [run_sig].
  pose proof (sig_flag_restored m q d i) as F. destruct (recv_first_sig m q d i false) as [[o cs] f1]. cbn [snd] in F. subst f1.
  destruct (run_sig false r) as [[os cs'] f2]. cbn [snd] in *. exact IH.
Qed.

(* an interrupted wait is reported as such: never as 'empty', never as a message or a disconnection; one poll, no recvmsg *)
Theorem sig_interrupted_wait : forall us d f,
  recv_first_sig (MTimeout us) QIdle d true f = (SInterrupted, [SPollIntr (poll_arg us)], f).
Proof. reflexivity. Qed.

(* 'empty' from a timed receive still means: one poll, with the full timeout, that found nothing - and no signal *)
Theorem sig_empty_only_after_full_wait : forall us q d i f cs f',
  recv_first_sig (MTimeout us) q d i f = (SOut OEmpty, cs, f') ->
  cs = [SCall (CPoll (poll_arg us) false)] /\ q = QIdle /\ i = false /\ (d = None \/ d = Some QIdle).
Proof.
  intros us q d i f cs f' H.
  destruct q; destruct i; cbn [recv_first_sig] in H; try discriminate;
    destruct (recv_first (MTimeout us) _ d f) as [[o cs0] f0] eqn:E; injection H as Ho <- <-; subst o;
    destruct (timeout_empty_only_after_full_wait _ _ _ _ _ _ _ E eq_refl) as (-> & Hq & Hd); try discriminate; auto.
Qed.

(* try_recv and the blocking receive do not wait in poll: a signal aimed at the wait changes nothing for them *)
Theorem sig_only_timed : forall m q d i f, (forall us, m <> MTimeout us) ->
  recv_first_sig m q d i f = recv_first_sig m q d false f.
Proof. intros [| |us] q d i f H; try reflexivity. exfalso; eapply H; reflexivity. Qed.

(* ---- the in-process transport gives the answers of the OS transport ---- *)
(* for every mode, queue state and event during a wait - as long as the timeout fits the poll argument (beyond that the OS transport
   waits without limit, the in-process one for the 24.8+ days asked for) *)
Theorem transports_agree : forall m q d,
  (forall us, m = MTimeout us -> poll_arg us <> -1) ->
  inproc_recv m q d = fst (fst (recv_first m q d false)).
Proof.
  intros [| |us] q d H; destruct q; try reflexivity.
  specialize (H us eq_refl). cbn [inproc_recv recv_first].
  destruct d as [[]|]; try reflexivity; destruct (poll_arg us =? -1) eqn:E; try reflexivity; apply Z.eqb_eq in E; contradiction.
Qed.

(* in particular: a timed receive of ANY duration (0 and sub-millisecond ones included) on a drained channel without senders says
   'disconnected', never 'empty' *)
Corollary inproc_dead_is_disconnected : forall m d, inproc_recv m QDead d = ODisconnected.
Proof. intros [] d; reflexivity. Qed.
