(* FragLife: life cycle of the dedicated socket pair inside OsIpcSender::send.  Whatever the fault oracle does and
   whatever the outcome (success, ENOBUFS given up, EPIPE, even the modelled panic/overflow/fuel exits), a send creates
   at most one dedicated pair and closes each of its two ends exactly once - never twice (no double close of a
   descriptor number that may have been reused) and never zero times (no leak). *)
From Coq Require Import ZArith List Bool Lia.
From IPC Require Import U64 Params Frag ParamsFacts FragProofs.
Import ListNotations.
Open Scope Z_scope.

Arguments first_fragment_size : simpl never.
Arguments fragment_size : simpl never.
Arguments send_first_end : simpl never.
Arguments send_follow_end : simpl never.
Arguments downsize : simpl never.

Definition is_sp (e : ev) : bool := match e with EvSocketpair => true | _ => false end.
Definition is_rx (e : ev) : bool := match e with EvCloseDedRx => true | _ => false end.
Definition is_tx (e : ev) : bool := match e with EvCloseDedTx => true | _ => false end.
Definition cnt (f : ev -> bool) (evs : list ev) : nat := length (filter f evs).

Lemma cnt_app f a b : cnt f (a ++ b) = (cnt f a + cnt f b)%nat.
Proof. unfold cnt. rewrite filter_app, app_length. reflexivity. Qed.

Lemma cnt_cons f e l : cnt f (e :: l) = ((if f e then 1 else 0) + cnt f l)%nat.
Proof. unfold cnt. cbn [filter]. destruct (f e); reflexivity. Qed.
Lemma cnt_nil f : cnt f [] = 0%nat. Proof. reflexivity. Qed.

Lemma has_close_rx_cnt evs : has_close_rx evs = negb (Nat.eqb (cnt is_rx evs) 0).
Proof.
  unfold has_close_rx, cnt. induction evs as [|e evs IH]; [reflexivity|].
  cbn [existsb filter]. destruct e; cbn [is_rx length orb]; try exact IH. reflexivity.
Qed.

Definition quiet (evs : list ev) : Prop := cnt is_sp evs = 0%nat /\ cnt is_tx evs = 0%nat.

Lemma mk_quiet (first : bool) len e nfds pos r :
  is_sp (if first then EvSendmsg len 0 e (nfds + 1) true r else EvSend pos e r) = false /\
  is_rx (if first then EvSendmsg len 0 e (nfds + 1) true r else EvSend pos e r) = false /\
  is_tx (if first then EvSendmsg len 0 e (nfds + 1) true r else EvSend pos e r) = false.
Proof. destruct first; repeat split. Qed.

(* follow-up part: no life-cycle event at all *)
Lemma follow_life : forall fuel len nfds sb pos faults o evs,
  frag_loop fuel len nfds sb pos faults = (o, evs) -> 0 < pos -> len < 2 ^ 62 -> 48 <= sb < 2 ^ 62 ->
  quiet evs /\ cnt is_rx evs = 0%nat.
Proof.
  induction fuel as [|f IH]; intros len nfds sb pos faults o evs H Hp Hlen Hsb.
  { cbn in H. injection H as <- <-. repeat split. }
  cbn [frag_loop] in H.
  destruct (pos <? len) eqn:E; [|injection H as <- <-; repeat split].
  assert (Hpos : (pos =? 0) = false) by lia. rewrite Hpos in H.
  destruct (send_follow_end_eq pos sb len ltac:(lia) ltac:(lia)) as [Ee Es]. rewrite Ee, Es in H.
  cbn [negb andb] in H. cbv iota in H.
  destruct (next_fault faults) as [fl rest]. destruct fl.
  - destruct (frag_loop f len nfds sb (Z.min (pos + fs sb) len) rest) as [o1 evs1] eqn:R.
    injection H as <- <-.
    assert (0 <= fs sb) by (unfold fs; rewrite RESERVED_SIZE_val; lia).
    destruct (IH _ _ _ _ _ _ _ R ltac:(lia) Hlen Hsb) as [[A B] C].
    unfold quiet, cnt in *. cbn [filter is_sp is_rx is_tx]. auto.
  - rewrite downsize_safe_true in H. rewrite andb_true_r in H.
    destruct (U.sub_ok (Z.min (pos + fs sb) len) pos) eqn:Ok1; cbn [negb] in H; [|injection H as <- <-; repeat split].
    destruct (downsize sb (U.sub (Z.min (pos + fs sb) len) pos)) as [sb'|] eqn:D; [|injection H as <- <-; repeat split].
    destruct (frag_loop f len nfds sb' pos rest) as [o1 evs1] eqn:R. injection H as <- <-.
    assert (0 <= fs sb) by (unfold fs; rewrite RESERVED_SIZE_val; lia).
    assert (Hsub : U.sub (Z.min (pos + fs sb) len) pos = Z.min (pos + fs sb) len - pos).
    { unfold U.sub. apply wrap_id. rewrite modulus_val. unfold fs in *. rewrite RESERVED_SIZE_val in *. lia. }
    rewrite Hsub in D.
    destruct (downsize_keeps _ _ _ sb D ltac:(lia) ltac:(lia)) as (K1 & K2 & _).
    destruct (IH _ _ _ _ _ _ _ R Hp Hlen ltac:(lia)) as [[A B] C].
    unfold quiet, cnt in *. cbn [filter is_sp is_rx is_tx]. auto.
  - injection H as <- <-. repeat split.
Qed.

(* first part: the read end is closed at most once, and only right after the first fragment went out *)
Lemma first_life : forall fuel len nfds sb faults o evs,
  frag_loop fuel len nfds sb 0 faults = (o, evs) -> len < 2 ^ 62 -> 48 <= sb < 2 ^ 62 ->
  quiet evs /\ (cnt is_rx evs <= 1)%nat.
Proof.
  induction fuel as [|f IH]; intros len nfds sb faults o evs H Hlen Hsb.
  { cbn in H. injection H as <- <-. repeat split. cbn. lia. }
  cbn [frag_loop] in H.
  destruct (0 <? len) eqn:E; [|injection H as <- <-; repeat split; cbn; lia].
  change (0 =? 0) with true in H. cbv iota in H.
  destruct (send_first_end_eq sb ltac:(lia)) as [Ee Es]. rewrite Ee, Es in H. cbn [negb andb] in H. cbv iota in H.
  destruct (len <? ffs sb) eqn:EP; [injection H as <- <-; repeat split; cbn; lia|].
  destruct (ffs_bounds sb ltac:(rewrite RESERVED_SIZE_val; lia)) as [F1 F2].
  destruct (next_fault faults) as [fl rest]. destruct fl.
  - destruct (frag_loop f len nfds sb (ffs sb) rest) as [o1 evs1] eqn:R. injection H as <- <-.
    destruct (follow_life _ _ _ _ _ _ _ _ R ltac:(lia) Hlen Hsb) as [[A B] C].
    unfold quiet, cnt in *. cbn [filter is_sp is_rx is_tx length]. rewrite A, B, C. repeat split; lia.
  - rewrite downsize_safe_true in H. rewrite andb_true_r in H.
    destruct (U.sub_ok (ffs sb) 0) eqn:Ok1; cbn [negb] in H; [|injection H as <- <-; repeat split; cbn; lia].
    assert (Hsub : U.sub (ffs sb) 0 = ffs sb).
    { unfold U.sub. rewrite Z.sub_0_r. apply wrap_id. rewrite modulus_val. lia. }
    rewrite Hsub in H.
    destruct (downsize sb (ffs sb)) as [sb'|] eqn:D; [|injection H as <- <-; repeat split; cbn; lia].
    destruct (frag_loop f len nfds sb' 0 rest) as [o1 evs1] eqn:R. injection H as <- <-.
    destruct (downsize_keeps _ _ _ sb D ltac:(lia) ltac:(unfold fs; rewrite RESERVED_SIZE_val; lia)) as (K1 & K2 & _).
    destruct (IH _ _ _ _ _ _ R Hlen ltac:(lia)) as [[A B] C].
    unfold quiet, cnt in *. cbn [filter is_sp is_rx is_tx]. auto.
  - injection H as <- <-. repeat split; cbn; lia.
Qed.

Definition balanced (evs : list ev) : Prop :=
  (cnt is_sp evs <= 1)%nat /\ cnt is_rx evs = cnt is_sp evs /\ cnt is_tx evs = cnt is_sp evs.

Lemma go_frag_life fuel len nfds sb faults pre o evs :
  go_frag fuel len nfds sb faults pre = (o, evs) -> len < 2 ^ 62 -> 48 <= sb < 2 ^ 62 ->
  cnt is_sp pre = 0%nat -> cnt is_rx pre = 0%nat -> cnt is_tx pre = 0%nat -> balanced evs.
Proof.
  intros H Hlen Hsb P1 P2 P3. unfold go_frag in H.
  destruct (MAX_FDS_IN_CMSG <? nfds + 1); [injection H as <- <-; unfold balanced; lia|].
  destruct (frag_loop fuel len nfds sb 0 faults) as [o1 evs1] eqn:R.
  destruct (first_life _ _ _ _ _ _ _ R Hlen Hsb) as [[A B] C].
  unfold finish_frag in H. injection H as <- <-.
  unfold balanced. rewrite has_close_rx_cnt.
  destruct (Nat.eqb (cnt is_rx evs1) 0) eqn:Z0; cbn [negb].
  - apply Nat.eqb_eq in Z0.
    rewrite !cnt_app, !cnt_cons, !cnt_app, !cnt_cons, !cnt_nil. cbn [is_sp is_rx is_tx]. lia.
  - apply Nat.eqb_neq in Z0.
    rewrite !cnt_app, !cnt_cons, !cnt_app, !cnt_cons, !cnt_nil. cbn [is_sp is_rx is_tx]. lia.
Qed.

Theorem send_ded_balanced fuel Ss len nfds faults o evs :
  48 <= Ss < 2 ^ 62 -> 0 <= len < 2 ^ 62 ->
  send fuel Ss len nfds faults = (o, evs) -> balanced evs.
Proof.
  intros HS Hlen H. unfold send in H.
  destruct (MAX_FDS_IN_CMSG <? nfds); [injection H as <- <-; unfold balanced; cbn; lia|].
  destruct (first_fragment_size_safe Ss); cbn [negb] in H; [|injection H as <- <-; unfold balanced; cbn; lia].
  destruct (send_single_packet len Ss) eqn:SP.
  - destruct (next_fault faults) as [fl rest]. destruct fl.
    + injection H as <- <-. unfold balanced; cbn; lia.
    + rewrite downsize_safe_true in H. cbn [negb] in H.
      destruct (downsize Ss len) as [sb'|] eqn:D; [|injection H as <- <-; unfold balanced; cbn; lia].
      rewrite send_single_packet_eq in SP by lia.
      destruct (ffs_bounds Ss ltac:(rewrite RESERVED_SIZE_val; lia)) as [F1 F2].
      destruct (downsize_keeps _ _ _ Ss D ltac:(lia) ltac:(unfold fs; rewrite RESERVED_SIZE_val; lia)) as (K1 & K2 & _).
      eapply go_frag_life; [exact H|lia|lia|reflexivity|reflexivity|reflexivity].
    + injection H as <- <-. unfold balanced; cbn; lia.
  - eapply go_frag_life; [exact H|lia|lia|reflexivity|reflexivity|reflexivity].
Qed.

(* non-vacuity: a fragmented send under faults really creates the pair and closes both ends once *)
Example send_ded_balanced_ex :
  let evs := snd (send 100 4096 12185 2 [FNoBufs; FOk; FNoBufs]) in cnt is_sp evs = 1%nat /\ cnt is_rx evs = 1%nat /\ cnt is_tx evs = 1%nat.
Proof. vm_compute. repeat split. Qed.
