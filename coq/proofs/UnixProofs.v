(* UnixProofs: property C11 for the unix back end model - no descriptor is leaked, closed twice, or closed
   without being owned.  The invariant u_inv is preserved by every step of every program. *)
From Coq Require Import List Arith Lia Bool ZArith Permutation.
From IPC Require Import K KProofs Prog Ideal Unix.
Import ListNotations.

(* ------------------------------------------------------------------------------------------ *)
(* association lists: lookup / update                                                           *)
(* ------------------------------------------------------------------------------------------ *)
Lemma lookup_app {B} : forall (l1 l2 : list (nat * B)) a,
  lookup (l1 ++ l2) a = match lookup l1 a with Some v => Some v | None => lookup l2 a end.
Proof.
  induction l1 as [|[x v] t IH]; intros l2 a; cbn [lookup app]; auto.
  destruct (Nat.eqb x a); auto.
Qed.

Lemma lookup_In {B} : forall (l : list (nat * B)) a v, lookup l a = Some v -> In (a, v) l.
Proof.
  induction l as [|[x w] t IH]; intros a v H; cbn [lookup] in H; [discriminate|].
  destruct (Nat.eqb_spec x a) as [->|Hne].
  - injection H as ->. now left.
  - right. auto.
Qed.

Lemma lookup_in_fst {B} : forall (l : list (nat * B)) a v, lookup l a = Some v -> In a (map fst l).
Proof. intros l a v H. apply lookup_In in H. apply (in_map fst) in H. exact H. Qed.

Lemma in_fst_lookup {B} : forall (l : list (nat * B)) a, In a (map fst l) -> exists v, lookup l a = Some v.
Proof.
  induction l as [|[x w] t IH]; intros a H; cbn [map fst In] in H; [destruct H|].
  cbn [lookup]. destruct (Nat.eqb_spec x a) as [->|Hne]; eauto.
  destruct H as [H|H]; [contradiction|]. auto.
Qed.

Lemma In_lookup {B} : forall (l : list (nat * B)) a v, NoDup (map fst l) -> In (a, v) l -> lookup l a = Some v.
Proof.
  induction l as [|[x w] t IH]; intros a v Hnd Hin; cbn [lookup]; [destruct Hin|].
  cbn [map fst] in Hnd. inversion Hnd as [|? ? Hni Hnd']; subst.
  destruct Hin as [E|Hin].
  - injection E as -> ->. now rewrite Nat.eqb_refl.
  - destruct (Nat.eqb_spec x a) as [->|Hne]; auto.
    exfalso. apply Hni. apply (in_map fst) in Hin. exact Hin.
Qed.

Lemma fresh_notin {B} : forall (l : list (nat * B)) n a,
  Forall (fun e => fst e < n) l -> n <= a -> ~ In a (map fst l).
Proof.
  intros l n a HF Hle Hin. apply in_map_iff in Hin. destruct Hin as (e & <- & Hin).
  rewrite Forall_forall in HF. specialize (HF e Hin). lia.
Qed.

Lemma lookup_fresh {B} : forall (l : list (nat * B)) n a,
  Forall (fun e => fst e < n) l -> n <= a -> lookup l a = None.
Proof.
  intros l n a HF Hle. destruct (lookup l a) as [v|] eqn:E; auto.
  exfalso. eapply fresh_notin; eauto. eapply lookup_in_fst; eauto.
Qed.

Lemma lookup_lt {B} : forall (l : list (nat * B)) n a v,
  Forall (fun e => fst e < n) l -> lookup l a = Some v -> a < n.
Proof.
  intros l n a v HF H. destruct (Nat.lt_ge_cases a n) as [|Hge]; auto.
  rewrite (lookup_fresh l n a HF Hge) in H. discriminate.
Qed.

Lemma lookup_update_eq {B} : forall (l : list (nat * B)) a v,
  lookup (update l a v) a = match lookup l a with Some _ => Some v | None => None end.
Proof.
  induction l as [|[x w] t IH]; intros a v; cbn [lookup update]; auto.
  destruct (Nat.eqb x a) eqn:E; cbn [lookup]; rewrite E; auto.
Qed.

Lemma lookup_update_neq {B} : forall (l : list (nat * B)) a b v,
  a <> b -> lookup (update l a v) b = lookup l b.
Proof.
  induction l as [|[x w] t IH]; intros a b v Hne; cbn [lookup update]; auto.
  destruct (Nat.eqb_spec x a) as [->|Hxa]; cbn [lookup].
  - destruct (Nat.eqb_spec a b); [contradiction|]. reflexivity.
  - destruct (Nat.eqb x b); auto.
Qed.

Lemma map_fst_update {B} : forall (l : list (nat * B)) a v, map fst (update l a v) = map fst l.
Proof.
  induction l as [|[x w] t IH]; intros a v; cbn [update map fst]; auto.
  destruct (Nat.eqb x a); cbn [map fst]; f_equal; auto.
Qed.

Lemma Forall_update {B} : forall (l : list (nat * B)) a v n,
  Forall (fun e => fst e < n) l -> Forall (fun e => fst e < n) (update l a v).
Proof.
  induction l as [|[x w] t IH]; intros a v n H; cbn [update]; auto.
  inversion H as [|? ? Hx Ht]; subst. destruct (Nat.eqb x a); constructor; auto.
Qed.

Lemma Forall_lt_weaken {B} : forall (l : list (nat * B)) n m,
  n <= m -> Forall (fun e => fst e < n) l -> Forall (fun e => fst e < m) l.
Proof. intros l n m Hle H. eapply Forall_impl; [|exact H]. cbn beta. intros e He. lia. Qed.

Lemma Forall_lt_snoc {B} : forall (l : list (nat * B)) n v,
  Forall (fun e => fst e < n) l -> Forall (fun e => fst e < S n) (l ++ [(n, v)]).
Proof.
  intros l n v H. apply Forall_app. split.
  - eapply Forall_lt_weaken; [|exact H]. lia.
  - constructor; [cbn [fst]; lia|constructor].
Qed.

Lemma NoDup_snoc {X} : forall (l : list X) x, NoDup l -> ~ In x l -> NoDup (l ++ [x]).
Proof.
  induction l as [|h t IH]; intros x Hnd Hni; cbn [app].
  - constructor; [intros []|constructor].
  - inversion Hnd as [|? ? Hh Ht]; subst. constructor.
    + intros Hin. apply in_app_or in Hin. destruct Hin as [Hin|[->|[]]]; [contradiction|].
      apply Hni. now left.
    + apply IH; auto. intros Hin. apply Hni. now right.
Qed.

Lemma NoDup_fst_snoc {B} : forall (l : list (nat * B)) n v,
  NoDup (map fst l) -> Forall (fun e => fst e < n) l -> NoDup (map fst (l ++ [(n, v)])).
Proof.
  intros l n v Hnd HF. rewrite map_app. cbn [map fst]. apply NoDup_snoc; auto.
  eapply fresh_notin; eauto.
Qed.

Lemma nodup_app_inv {X} : forall (l1 l2 : list X), NoDup (l1 ++ l2) ->
  NoDup l2 /\ forall x, In x l1 -> In x l2 -> False.
Proof.
  induction l1 as [|h t IH]; intros l2 H; cbn [app] in H.
  - split; [auto|intros x []].
  - inversion H as [|? ? Hh Ht]; subst. destruct (IH _ Ht) as [Hn Hd]. split; auto.
    intros x [->|Hin] Hin2; eauto. apply Hh. apply in_or_app. now right.
Qed.

(* ------------------------------------------------------------------------------------------ *)
(* remove_fd                                                                                    *)
(* ------------------------------------------------------------------------------------------ *)
Lemma lookup_remove_fd_other : forall t f g, f <> g -> lookup (remove_fd f t) g = lookup t g.
Proof.
  induction t as [|[x r] t IH]; intros f g Hne; cbn [remove_fd lookup]; auto.
  destruct (Nat.eqb_spec x f) as [->|Hxf].
  - destruct (Nat.eqb_spec f g); [contradiction|]. reflexivity.
  - cbn [lookup]. destruct (Nat.eqb x g); auto.
Qed.

Lemma remove_fd_incl : forall t f e, In e (remove_fd f t) -> In e t.
Proof.
  induction t as [|[x r] t IH]; intros f e H; cbn [remove_fd] in H; auto.
  destruct (Nat.eqb x f).
  - now right.
  - destruct H as [H|H]; [now left|right; eauto].
Qed.

Lemma remove_fd_fst_incl : forall t f x, In x (map fst (remove_fd f t)) -> In x (map fst t).
Proof.
  intros t f x H. apply in_map_iff in H. destruct H as (e & <- & Hin).
  apply in_map. eapply remove_fd_incl; eauto.
Qed.

Lemma remove_fd_perm : forall t f, In f (map fst t) ->
  Permutation (map fst t) (f :: map fst (remove_fd f t)).
Proof.
  induction t as [|[x r] t IH]; intros f H; cbn [map fst In] in H; [destruct H|].
  cbn [remove_fd map fst]. destruct (Nat.eqb_spec x f) as [->|Hne]; auto.
  destruct H as [H|H]; [contradiction|].
  cbn [map fst]. etransitivity; [apply perm_skip, IH, H|]. apply perm_swap.
Qed.

Lemma remove_fd_nodup : forall t f, NoDup (map fst t) -> NoDup (map fst (remove_fd f t)).
Proof.
  induction t as [|[x r] t IH]; intros f H; cbn [remove_fd map fst] in *; auto.
  inversion H as [|? ? Hx Ht]; subst. destruct (Nat.eqb x f); auto.
  cbn [map fst]. constructor; auto. intros Hin. apply Hx. eapply remove_fd_fst_incl; eauto.
Qed.

Lemma remove_fd_notin : forall t f, NoDup (map fst t) -> ~ In f (map fst (remove_fd f t)).
Proof.
  induction t as [|[x r] t IH]; intros f H; cbn [remove_fd map fst] in *; auto.
  inversion H as [|? ? Hx Ht]; subst. destruct (Nat.eqb_spec x f) as [->|Hne]; auto.
  cbn [map fst]. intros [E|Hin]; [contradiction|]. eapply IH; eauto.
Qed.

Lemma count_occ_remove_fd_le : forall t f r,
  count_occ ref_dec (map snd (remove_fd f t)) r <= count_occ ref_dec (map snd t) r.
Proof.
  induction t as [|[x y] t IH]; intros f r; cbn [remove_fd map snd count_occ]; auto.
  destruct (Nat.eqb x f).
  - destruct (ref_dec y r); lia.
  - cbn [map snd count_occ]. specialize (IH f r). destruct (ref_dec y r); lia.
Qed.

(* ------------------------------------------------------------------------------------------ *)
(* flat_map over the values of an association list                                              *)
(* ------------------------------------------------------------------------------------------ *)
Definition fm {B} (g : B -> list nat) (l : list (nat * B)) : list nat := flat_map (fun e => g (snd e)) l.

Lemma fm_app {B} (g : B -> list nat) : forall l1 l2, fm g (l1 ++ l2) = fm g l1 ++ fm g l2.
Proof. intros. unfold fm. apply flat_map_app. Qed.

Lemma fm_update_perm {B} (g : B -> list nat) : forall l a v v', lookup l a = Some v ->
  Permutation (g v ++ fm g (update l a v')) (g v' ++ fm g l).
Proof.
  induction l as [|[x w] t IH]; intros a v v' H; cbn [lookup] in H; [discriminate|].
  cbn [update]. destruct (Nat.eqb x a).
  - injection H as ->. unfold fm. cbn [flat_map snd]. apply Permutation_app_swap_app.
  - unfold fm in *. cbn [flat_map snd].
    etransitivity; [apply Permutation_app_swap_app|].
    etransitivity; [|apply Permutation_app_swap_app].
    apply Permutation_app_head. apply IH; auto.
Qed.

Lemma fm_in {B} (g : B -> list nat) : forall l a v x, lookup l a = Some v -> In x (g v) -> In x (fm g l).
Proof.
  induction l as [|[y w] t IH]; intros a v x H Hin; cbn [lookup] in H; [discriminate|].
  unfold fm in *. cbn [flat_map snd]. apply in_or_app. destruct (Nat.eqb y a).
  - injection H as ->. now left.
  - right. eauto.
Qed.

Lemma fm_distinct {B} (g : B -> list nat) : forall l a1 a2 v1 v2 x, NoDup (fm g l) ->
  lookup l a1 = Some v1 -> lookup l a2 = Some v2 -> a1 <> a2 -> In x (g v1) -> In x (g v2) -> False.
Proof.
  induction l as [|[y w] t IH]; intros a1 a2 v1 v2 x Hnd H1 H2 Hne I1 I2; cbn [lookup] in H1, H2; [discriminate|].
  unfold fm in Hnd. cbn [flat_map snd] in Hnd. destruct (nodup_app_inv _ _ Hnd) as [Hnt Hdis].
  destruct (Nat.eqb_spec y a1) as [->|N1]; destruct (Nat.eqb_spec a1 a2) as [E|N2]; try contradiction.
  - injection H1 as ->. destruct (Nat.eqb_spec a1 a2); [contradiction|].
    eapply (Hdis x); eauto. eapply fm_in; eauto.
  - destruct (Nat.eqb_spec y a2) as [->|N3].
    + injection H2 as ->. eapply (Hdis x); eauto. eapply fm_in; eauto.
    + eapply (IH a1 a2); eauto.
Qed.

Definition arco (v : fd * nat) : list fd := match v with (f, S _) => [f] | _ => [] end.
Definition rxo (o : uobj) : list fd := match o with UR (Some f) => [f] | _ => [] end.
Definition arc_fds := fm arco.
Definition rx_fds := fm rxo.

Lemma owned_fds_eq : forall u, owned_fds u = arc_fds (arcs u) ++ rx_fds (uh u).
Proof. reflexivity. Qed.

(* ------------------------------------------------------------------------------------------ *)
(* counting the sender handles of an arc                                                        *)
(* ------------------------------------------------------------------------------------------ *)
Definition is_us (a : aid) (e : hid * uobj) : bool := match snd e with US b => Nat.eqb b a | _ => false end.
Definition count_us (a : aid) (l : list (hid * uobj)) : nat := length (filter (is_us a) l).
Definition usb (a : aid) (o : uobj) : nat := match o with US b => if Nat.eqb b a then 1 else 0 | _ => 0 end.
Definition uso (o : uobj) : list aid := match o with US a => [a] | _ => [] end.

Lemma count_us_cons : forall a x o t, count_us a ((x, o) :: t) = usb a o + count_us a t.
Proof.
  intros a x o t. unfold count_us. cbn [filter]. unfold is_us at 1. cbn [snd].
  destruct o as [b| |]; cbn [usb]; auto. destruct (Nat.eqb b a); auto.
Qed.

Lemma count_us_app : forall a l1 l2, count_us a (l1 ++ l2) = count_us a l1 + count_us a l2.
Proof. intros. unfold count_us. now rewrite filter_app, app_length. Qed.

Lemma count_us_update : forall a l h o o', lookup l h = Some o ->
  count_us a (update l h o') + usb a o = count_us a l + usb a o'.
Proof.
  induction l as [|[x w] t IH]; intros h o o' H; cbn [lookup] in H; [discriminate|].
  cbn [update]. destruct (Nat.eqb x h).
  - injection H as ->. rewrite !count_us_cons. lia.
  - rewrite !count_us_cons. specialize (IH _ _ o' H). lia.
Qed.

Lemma count_us_zero : forall a l, (forall h, ~ In (h, US a) l) -> count_us a l = 0.
Proof.
  induction l as [|[x w] t IH]; intros H; auto.
  rewrite count_us_cons. rewrite IH by (intros h Hin; apply (H h); now right).
  destruct w as [b| |]; cbn [usb]; auto. destruct (Nat.eqb_spec b a) as [->|]; auto.
  exfalso. apply (H x). now left.
Qed.

Lemma count_uso : forall a o, count_occ Nat.eq_dec (uso o) a = usb a o.
Proof.
  intros a [b| |]; cbn [uso usb count_occ]; auto.
  destruct (Nat.eq_dec b a) as [->|Hne].
  - now rewrite Nat.eqb_refl.
  - destruct (Nat.eqb_spec b a); [contradiction|]. reflexivity.
Qed.

(* ------------------------------------------------------------------------------------------ *)
(* kernel well-formedness along the unix steps (independent of the descriptor bookkeeping)     *)
(* ------------------------------------------------------------------------------------------ *)
Ltac nlia := unfold aid, hid, fd in *; lia.
Ltac simp_u := cbn [with_k log set_uh set_arcs uchans fdt nextfd arcs anext uh unext utrace] in *.

Lemma k_wf_held_le : forall cs h1 h2,
  (forall c, count_occ ref_dec h2 (RR c) <= count_occ ref_dec h1 (RR c)) ->
  k_wf {| chans := cs; held := h1 |} -> k_wf {| chans := cs; held := h2 |}.
Proof.
  intros cs h1 h2 Hle W c ch Hn Hd. destruct (W c ch Hn Hd) as [Hq H0]. split; auto.
  unfold refs, inflight in *. cbn [held chans] in *. specialize (Hle c). lia.
Qed.

Lemma k_send_wf_held : forall k c m k', k_wf k -> k_send k c m = Some k' ->
  (forall c', In (RR c') (m_rights m) -> In (RR c') (held k)) -> k_wf k'.
Proof.
  intros k c m k' W Hs Hm. apply k_send_some in Hs. destruct Hs as (ch & Hn & Hd & ->).
  intros c' ch' Hn' Hd'. cbn [chans] in Hn'.
  destruct (Nat.eq_dec c c') as [<-|Hne].
  - rewrite nth_error_set_nth_eq in Hn' by (eapply nth_error_lt; eauto).
    injection Hn' as <-. discriminate.
  - rewrite nth_error_set_nth_neq in Hn' by auto.
    destruct (W c' ch' Hn' Hd') as [Hq H0]. split; auto.
    pose proof (refs_set_nth k c ch {| q := q ch ++ [m]; dead := false |} (held k) (RR c') Hn) as He.
    unfold live_rights in He. cbn [dead q] in He. rewrite Hd in He.
    rewrite flat_map_rights_app, count_occ_app in He. cbn [flat_map] in He. rewrite app_nil_r in He.
    assert (Hz : count_occ ref_dec (m_rights m) (RR c') = 0).
    { apply count_occ_not_In. intros Hin. apply Hm in Hin.
      apply (count_occ_In ref_dec) in Hin. unfold refs in H0. lia. }
    unfold refs in H0. lia.
Qed.

Lemma kwf_close : forall u f, k_wf (uk u) -> k_wf (uk (sys_close u f)).
Proof.
  intros u f W. unfold sys_close. destruct (lookup (fdt u) f) as [r|]; [|exact W].
  set (K0 := {| chans := uchans u; held := map snd (remove_fd f (fdt u)) |}).
  assert (W0 : k_wf K0).
  { unfold K0. eapply k_wf_held_le; [|exact W]. intros c. apply count_occ_remove_fd_le. }
  apply gc_wf in W0. pose proof (gc_held K0) as Hh.
  unfold uk. simp_u. destruct (gc K0) as [cs hs]. cbn [chans held] in *. subst hs. exact W0.
Qed.

Lemma uk_arc_inc : forall u a, uk (arc_inc u a) = uk u.
Proof. intros u a. unfold arc_inc. destruct (lookup (arcs u) a) as [[f n]|]; reflexivity. Qed.

Lemma kwf_arc_dec : forall u a, k_wf (uk u) -> k_wf (uk (arc_dec u a)).
Proof.
  intros u a W. unfold arc_dec. destruct (lookup (arcs u) a) as [[f [|[|n]]]|]; try exact W.
  apply kwf_close. exact W.
Qed.

Lemma kwf_drop_owned : forall os u, k_wf (uk u) -> k_wf (uk (drop_owned u os)).
Proof.
  induction os as [|[a|f] t IH]; intros u W; cbn [drop_owned]; auto.
  - apply IH, kwf_arc_dec, W.
  - apply IH, kwf_close, W.
Qed.

(* u_resolve only touches the strong counts and the handles *)
Lemma u_resolve_frame : forall atts u fs os u', u_resolve u atts = Some (fs, os, u') ->
  uchans u' = uchans u /\ fdt u' = fdt u /\ nextfd u' = nextfd u /\ utrace u' = utrace u.
Proof.
  induction atts as [|[x|x] r IH]; intros u fs os u' H; cbn [u_resolve] in H.
  - injection H as <- <- <-. auto.
  - destruct (lookup (uh u) x) as [[a| |]|]; try discriminate.
    destruct (lookup (arcs u) a) as [[f [|n]]|] eqn:E2; try discriminate.
    destruct (u_resolve (arc_inc u a) r) as [[[fs' os'] u'']|] eqn:E3; try discriminate.
    injection H as <- <- <-. apply IH in E3. unfold arc_inc in E3. rewrite E2 in E3. exact E3.
  - destruct (lookup (uh u) x) as [[a|[f|]|]|]; try discriminate.
    destruct (u_resolve (set_uh u (update (uh u) x (UR None))) r) as [[[fs' os'] u'']|] eqn:E3; try discriminate.
    injection H as <- <- <-. apply IH in E3. exact E3.
Qed.

Lemma refs_of_in : forall t fs r, In r (refs_of t fs) -> In r (map snd t).
Proof.
  induction fs as [|f fs IH]; intros r H; cbn [refs_of] in H; [destruct H|].
  destruct (lookup t f) as [x|] eqn:E; auto.
  destruct H as [<-|H]; auto. apply lookup_In in E. apply (in_map snd) in E. exact E.
Qed.

Lemma kwf_install : forall rs u,
  k_wf {| chans := uchans u; held := map snd (fdt u) ++ rs |} -> k_wf (uk (fst (u_install u rs))).
Proof.
  induction rs as [|[c|c|o] t IH]; intros u W; cbn [u_install].
  - cbn [fst]. unfold uk. now rewrite app_nil_r in W.
  - match goal with |- context [u_install ?x t] => specialize (IH x); destruct (u_install x t) as [u2 out] end.
    cbn [fst] in *. apply IH. cbn [uchans fdt]. rewrite map_app, <- app_assoc. exact W.
  - match goal with |- context [u_install ?x t] => specialize (IH x); destruct (u_install x t) as [u2 out] end.
    cbn [fst] in *. apply IH. cbn [uchans fdt]. rewrite map_app, <- app_assoc. exact W.
  - apply IH. eapply k_wf_held_le; [|exact W]. intros c. rewrite !count_occ_app.
    cbn [count_occ]. destruct (ref_dec (RM o) (RR c)); [discriminate|]. lia.
Qed.

Lemma kwf_step : forall u o, k_wf (uk u) -> k_wf (uk (fst (u_step u o))).
Proof.
  intros u o W. destruct o as [|h|h|h data atts|h]; cbn [u_step].
  - (* ONew *)
    unfold k_new. cbn [fst uk uchans fdt chans held].
    pose proof (k_new_wf _ W) as W1. unfold k_new in W1. cbn [fst uk chans held] in W1.
    eapply k_wf_held_le; [|exact W1]. intros c. cbn [fdt]. rewrite map_app, count_occ_app.
    cbn [map snd count_occ].
    destruct (ref_dec (RS (length (uchans u))) (RR c)); [discriminate|].
    destruct (ref_dec (RR (length (uchans u))) (RR c)); lia.
  - (* OClone *)
    destruct (lookup (uh u) h) as [[a| |]|]; try exact W.
    destruct (lookup (arcs u) a) as [[f [|n]]|]; try exact W.
    cbn [fst]. pose proof (uk_arc_inc u a) as E. unfold uk in *. cbn [uchans fdt]. rewrite E. exact W.
  - (* ODrop *)
    destruct (lookup (uh u) h) as [[a|[f|]|]|]; try exact W; cbn [fst].
    + apply kwf_arc_dec. exact W.
    + apply kwf_close. exact W.
  - (* OSend *)
    destruct (lookup (uh u) h) as [[a| |]|]; try exact W.
    destruct (lookup (arcs u) a) as [[f [|n]]|]; try exact W.
    destruct (lookup (fdt u) f) as [[c|c|ob]|]; try exact W.
    destruct (u_resolve u atts) as [[[fs os] u1]|] eqn:ER; try exact W.
    destruct (u_resolve_frame _ _ _ _ _ ER) as (Ec & Ef & _ & _).
    assert (W1 : k_wf (uk u1)) by (unfold uk; rewrite Ec, Ef; exact W).
    destruct (k_send (uk u1) c _) as [k'|] eqn:ES; cbn [fst]; apply kwf_drop_owned.
    + pose proof ES as ES2. apply k_send_some in ES2. destruct ES2 as (ch & _ & _ & Ek).
      assert (Wk : k_wf k').
      { eapply k_send_wf_held; eauto. cbn [m_rights uk held]. intros c' Hin. eapply refs_of_in; eauto. }
      subst k'. exact Wk.
    + exact W1.
  - (* ORecv *)
    destruct (lookup (uh u) h) as [[a|[f|]|]|]; try exact W.
    destruct (lookup (fdt u) f) as [[c|c|ob]|]; try exact W.
    destruct (q (get_chan (uk u) c)) as [|m rest] eqn:Eq.
    + destruct (refs (uk u) (RS c) =? 0); exact W.
    + match goal with |- context [u_install ?x ?r] =>
        pose proof (kwf_install r x) as HI; destruct (u_install x r) as [u2 out] end.
      cbn [fst] in *. apply HI. simp_u.
      assert (ER : k_recv (uk u) c = KMsg m {| chans := set_nth (chans (uk u)) c {| q := rest; dead := dead (get_chan (uk u) c) |};
                                               held := m_rights m ++ held (uk u) |}).
      { unfold k_recv. rewrite Eq. reflexivity. }
      apply k_recv_wf in ER; auto. eapply k_wf_held_le; [|exact ER].
      intros c0. cbn [uk held]. rewrite !count_occ_app. lia.
Qed.

(* ------------------------------------------------------------------------------------------ *)
(* the bookkeeping invariant, generalised by extra owners                                       *)
(*   xs : descriptors owned by something else than a live arc / receiver handle (about to be    *)
(*        closed, or held by the `channels` vector of a transmission: OwnFd)                    *)
(*   ea : extra strong references to arcs (clones in the `channels` vector: OwnArc)             *)
(* ------------------------------------------------------------------------------------------ *)
Definition closes (tr : list call) : list fd :=
  flat_map (fun c => match c with CClose f => [f] | _ => [] end) tr.

Record G (xs : list fd) (ea : list aid) (u : ust) : Prop := {
  g_fd_nodup : NoDup (map fst (fdt u));
  g_fd_lt : Forall (fun e => fst e < nextfd u) (fdt u);
  g_perm : Permutation (map fst (fdt u)) (xs ++ arc_fds (arcs u) ++ rx_fds (uh u));
  g_nbc : forall f, ~ In (CBadClose f) (utrace u);
  g_arc_nodup : NoDup (map fst (arcs u));
  g_arc_lt : Forall (fun e => fst e < anext u) (arcs u);
  g_arc_cnt : forall a f n, lookup (arcs u) a = Some (f, n) -> n = count_us a (uh u) + count_occ Nat.eq_dec ea a;
  g_arc_ty : forall a f n, lookup (arcs u) a = Some (f, S n) -> exists c, lookup (fdt u) f = Some (RS c);
  g_uh_nodup : NoDup (map fst (uh u));
  g_uh_lt : Forall (fun e => fst e < unext u) (uh u);
  g_us_arc : forall h a, lookup (uh u) h = Some (US a) -> exists f n, lookup (arcs u) a = Some (f, n);
  g_ur_ty : forall h f, lookup (uh u) h = Some (UR (Some f)) -> exists c, lookup (fdt u) f = Some (RR c);
  g_cl_lt : forall f, In f (closes (utrace u)) -> f < nextfd u /\ ~ In f (map fst (fdt u));
  g_cl_nodup : NoDup (closes (utrace u)) }.

(* permutation goals over nat lists, by counting *)
Ltac perm_nat :=
  apply (Permutation_count_occ Nat.eq_dec); intros ?x;
  repeat match goal with
  | H : Permutation ?l1 ?l2 |- _ =>
      let H' := fresh "Hcnt" in
      pose proof (proj1 (Permutation_count_occ Nat.eq_dec l1 l2) H x) as H'; clear H
  end;
  rewrite ?count_occ_app in *; cbn [count_occ app] in *; rewrite ?count_occ_app in *;
  repeat match goal with
  | |- context [Nat.eq_dec ?a ?b] => destruct (Nat.eq_dec a b)
  | H : context [Nat.eq_dec ?a ?b] |- _ => destruct (Nat.eq_dec a b)
  end; try nlia.

Lemma G_perm : forall xs xs' ea ea' u, Permutation xs xs' ->
  (forall a, count_occ Nat.eq_dec ea' a = count_occ Nat.eq_dec ea a) -> G xs ea u -> G xs' ea' u.
Proof.
  intros xs xs' ea ea' u Hp Hc [].
  constructor; auto.
  - etransitivity; [eassumption|]. apply Permutation_app_tail. exact Hp.
  - intros a f n Hl. rewrite Hc. eauto.
Qed.

Lemma closes_app : forall t1 t2, closes (t1 ++ t2) = closes t1 ++ closes t2.
Proof. intros. unfold closes. apply flat_map_app. Qed.

(* a step that neither touches the tables nor closes anything *)
Lemma G_frame : forall xs ea u u' c,
  fdt u' = fdt u -> nextfd u' = nextfd u -> arcs u' = arcs u -> anext u' = anext u ->
  uh u' = uh u -> unext u' = unext u -> utrace u' = utrace u ++ c ->
  (forall f, ~ In (CBadClose f) c) -> closes c = [] ->
  G xs ea u -> G xs ea u'.
Proof.
  intros xs ea u u' c E1 E2 E3 E4 E5 E6 E7 Hb Hc [].
  constructor; rewrite ?E1, ?E2, ?E3, ?E4, ?E5, ?E6, ?E7, ?closes_app, ?Hc, ?app_nil_r; auto.
  intros f Hin. apply in_app_or in Hin. destruct Hin as [Hin|Hin]; [eapply g_nbc0|eapply Hb]; eauto.
Qed.

(* facts derived from the invariant *)
Lemma G_owned_nodup : forall xs ea u, G xs ea u -> NoDup (xs ++ arc_fds (arcs u) ++ rx_fds (uh u)).
Proof. intros xs ea u H. eapply Permutation_NoDup; [apply (g_perm _ _ _ H)|apply (g_fd_nodup _ _ _ H)]. Qed.

Lemma G_arc_owned : forall u a f n, lookup (arcs u) a = Some (f, S n) -> In f (arc_fds (arcs u)).
Proof. intros u a f n H. eapply fm_in; eauto. cbn [arco]. now left. Qed.

Lemma G_rx_owned : forall u h f, lookup (uh u) h = Some (UR (Some f)) -> In f (rx_fds (uh u)).
Proof. intros u h f H. eapply fm_in; eauto. cbn [rxo]. now left. Qed.

(* close of an owned descriptor *)
Lemma G_close : forall xs ea u f, G (f :: xs) ea u -> G xs ea (sys_close u f).
Proof.
  intros xs ea u f H. pose proof (G_owned_nodup _ _ _ H) as Hnd. destruct H.
  assert (Hin : In f (map fst (fdt u))).
  { eapply Permutation_in; [apply Permutation_sym; eassumption|]. now left. }
  destruct (in_fst_lookup _ _ Hin) as [r Hr].
  cbn [app] in Hnd. inversion Hnd as [|? ? Hfresh _]; subst.
  assert (Hlt : f < nextfd u).
  { rewrite Forall_forall in g_fd_lt0. apply lookup_In in Hr. apply (g_fd_lt0 _ Hr). }
  unfold sys_close. rewrite Hr. constructor; simp_u; auto.
  - apply remove_fd_nodup; auto.
  - rewrite Forall_forall in *. intros e He. apply g_fd_lt0. eapply remove_fd_incl; eauto.
  - pose proof (remove_fd_perm _ _ Hin) as Hp. eapply Permutation_cons_inv.
    etransitivity; [apply Permutation_sym, Hp|]. exact g_perm0.
  - intros g Hg. apply in_app_or in Hg. destruct Hg as [Hg|[Hg|[]]]; [eapply g_nbc0; eauto|discriminate].
  - intros a f' n Hl. destruct (g_arc_ty0 _ _ _ Hl) as [c Hc]. exists c.
    rewrite lookup_remove_fd_other; auto. intros <-. apply Hfresh.
    apply in_or_app. right. apply in_or_app. left. eapply G_arc_owned; eauto.
  - intros h f' Hl. destruct (g_ur_ty0 _ _ Hl) as [c Hc]. exists c.
    rewrite lookup_remove_fd_other; auto. intros <-. apply Hfresh.
    apply in_or_app. right. apply in_or_app. right. eapply G_rx_owned; eauto.
  - intros g Hg. rewrite closes_app in Hg. apply in_app_or in Hg. destruct Hg as [Hg|[<-|[]]].
    + destruct (g_cl_lt0 _ Hg) as [Hl Hn]. split; auto. intros Hi. apply Hn. eapply remove_fd_fst_incl; eauto.
    + split; auto. apply remove_fd_notin; auto.
  - rewrite closes_app. cbn [closes flat_map app]. apply NoDup_snoc; auto.
    intros Hc. destruct (g_cl_lt0 _ Hc) as [_ Hn]. contradiction.
Qed.

(* changing a positive strong count to another positive one *)
Lemma arc_fds_update_pos : forall l a f n m, lookup l a = Some (f, S n) ->
  Permutation (arc_fds (update l a (f, S m))) (arc_fds l).
Proof.
  intros l a f n m H. pose proof (fm_update_perm arco l a _ (f, S m) H) as Hp.
  cbn [arco app] in Hp. eapply Permutation_cons_inv; eauto.
Qed.

Lemma G_arc_set : forall xs ea ea' u a f n m, lookup (arcs u) a = Some (f, S n) ->
  S m + count_occ Nat.eq_dec ea a = S n + count_occ Nat.eq_dec ea' a ->
  (forall a', a' <> a -> count_occ Nat.eq_dec ea' a' = count_occ Nat.eq_dec ea a') ->
  G xs ea u -> G xs ea' (set_arcs u (update (arcs u) a (f, S m))).
Proof.
  intros xs ea ea' u a f n m Hl Hc Ho []. constructor; simp_u; auto.
  - etransitivity; [eassumption|]. apply Permutation_app_head, Permutation_app_tail.
    apply Permutation_sym. eapply arc_fds_update_pos; eauto.
  - now rewrite map_fst_update.
  - now apply Forall_update.
  - intros a' f' n' Hl'. destruct (Nat.eq_dec a a') as [<-|Hne].
    + rewrite lookup_update_eq, Hl in Hl'. injection Hl' as <- <-.
      specialize (g_arc_cnt0 _ _ _ Hl). nlia.
    + rewrite lookup_update_neq in Hl' by auto. rewrite Ho by auto. eauto.
  - intros a' f' n' Hl'. destruct (Nat.eq_dec a a') as [<-|Hne].
    + rewrite lookup_update_eq, Hl in Hl'. injection Hl' as <- <-. eauto.
    + rewrite lookup_update_neq in Hl' by auto. eauto.
  - intros h a' Hh. destruct (g_us_arc0 _ _ Hh) as (f' & n' & E).
    destruct (Nat.eq_dec a a') as [<-|Hne].
    + exists f, (S m). now rewrite lookup_update_eq, Hl.
    + exists f', n'. now rewrite lookup_update_neq by auto.
Qed.

Lemma G_arc_inc : forall xs ea u a f n, lookup (arcs u) a = Some (f, S n) ->
  G xs ea u -> G xs (a :: ea) (arc_inc u a).
Proof.
  intros xs ea u a f n Hl H. unfold arc_inc. rewrite Hl.
  apply (G_arc_set xs ea (a :: ea) u a f n (S n)); auto.
  - rewrite count_occ_cons_eq by auto. nlia.
  - intros a' Hne. now rewrite count_occ_cons_neq by auto.
Qed.

Lemma G_arc_dec : forall xs ea u a, G xs (a :: ea) u -> G xs ea (arc_dec u a).
Proof.
  intros xs ea u a H. unfold arc_dec.
  destruct (lookup (arcs u) a) as [[f [|[|n]]]|] eqn:Hl.
  - exfalso. pose proof (g_arc_cnt _ _ _ H _ _ _ Hl) as E. rewrite count_occ_cons_eq in E by auto. nlia.
  - (* last reference: the descriptor is closed *)
    apply G_close. pose proof (g_arc_cnt _ _ _ H _ _ _ Hl) as E.
    rewrite count_occ_cons_eq in E by auto. destruct H. constructor; simp_u; auto.
    + pose proof (fm_update_perm arco _ _ _ (f, 0) Hl) as Hp. cbn [arco app] in Hp. fold arc_fds in Hp.
      clear - g_perm0 Hp. perm_nat.
    + now rewrite map_fst_update.
    + now apply Forall_update.
    + intros a' f' n' Hl'. destruct (Nat.eq_dec a a') as [<-|Hne].
      * rewrite lookup_update_eq, Hl in Hl'. injection Hl' as <- <-. nlia.
      * rewrite lookup_update_neq in Hl' by auto. specialize (g_arc_cnt0 _ _ _ Hl').
        rewrite count_occ_cons_neq in g_arc_cnt0 by auto. exact g_arc_cnt0.
    + intros a' f' n' Hl'. destruct (Nat.eq_dec a a') as [<-|Hne].
      * rewrite lookup_update_eq, Hl in Hl'. discriminate.
      * rewrite lookup_update_neq in Hl' by auto. eauto.
    + intros h a' Hh. destruct (g_us_arc0 _ _ Hh) as (f' & n' & E').
      destruct (Nat.eq_dec a a') as [<-|Hne].
      * exists f, 0. now rewrite lookup_update_eq, Hl.
      * exists f', n'. now rewrite lookup_update_neq by auto.
  - apply (G_arc_set xs (a :: ea) ea u a f (S n) n); auto.
    + rewrite count_occ_cons_eq by auto. nlia.
    + intros a' Hne. now rewrite count_occ_cons_neq by auto.
  - (* no such arc: nothing is counted for it *)
    destruct H. constructor; auto.
    intros a' f' n' Hl'. specialize (g_arc_cnt0 _ _ _ Hl').
    rewrite count_occ_cons_neq in g_arc_cnt0 by congruence. exact g_arc_cnt0.
Qed.

(* a handle gives up what it owns (dropped, or a receiver consumed by serialisation) *)
Lemma G_set_uh : forall xs ea u h o o', lookup (uh u) h = Some o -> o' = UGone \/ o' = UR None ->
  G xs ea u -> G (rxo o ++ xs) (uso o ++ ea) (set_uh u (update (uh u) h o')).
Proof.
  intros xs ea u h o o' Hl Ho' [].
  assert (Hr : rxo o' = []) by (destruct Ho' as [->| ->]; reflexivity).
  assert (Hu : forall a, usb a o' = 0) by (intros a; destruct Ho' as [->| ->]; reflexivity).
  constructor; simp_u; auto.
  - pose proof (fm_update_perm rxo _ _ _ o' Hl) as Hp. rewrite Hr in Hp. cbn [app] in Hp. fold rx_fds in Hp.
    clear - g_perm0 Hp. perm_nat.
  - intros a f n Ha. specialize (g_arc_cnt0 _ _ _ Ha). rewrite count_occ_app, count_uso.
    pose proof (count_us_update a _ _ _ o' Hl) as Hc. rewrite Hu in Hc. nlia.
  - now rewrite map_fst_update.
  - now apply Forall_update.
  - intros h' a Hh. destruct (Nat.eq_dec h h') as [<-|Hne].
    + rewrite lookup_update_eq, Hl in Hh. destruct Ho' as [->| ->]; discriminate.
    + rewrite lookup_update_neq in Hh by auto. eauto.
  - intros h' f Hh. destruct (Nat.eq_dec h h') as [<-|Hne].
    + rewrite lookup_update_eq, Hl in Hh. destruct Ho' as [->| ->]; discriminate.
    + rewrite lookup_update_neq in Hh by auto. eauto.
Qed.

Definition own_fds (os : list owned) : list fd := flat_map (fun o => match o with OwnFd f => [f] | _ => [] end) os.
Definition own_arcs (os : list owned) : list aid := flat_map (fun o => match o with OwnArc a => [a] | _ => [] end) os.

(* dropping the `channels` vector discharges the extra owners one by one *)
Lemma G_drop_owned : forall os xs ea u,
  G (own_fds os ++ xs) (own_arcs os ++ ea) u -> G xs ea (drop_owned u os).
Proof.
  induction os as [|[a|f] t IH]; intros xs ea u H; cbn [drop_owned own_fds own_arcs flat_map app] in *; auto.
  - apply IH. apply G_arc_dec. exact H.
  - apply IH. apply G_close. exact H.
Qed.

(* serialisation of the attachments creates them *)
Lemma G_resolve : forall atts xs ea u fs os u', G xs ea u -> u_resolve u atts = Some (fs, os, u') ->
  G (own_fds os ++ xs) (own_arcs os ++ ea) u'.
Proof.
  induction atts as [|[x|x] r IH]; intros xs ea u fs os u' H HR; cbn [u_resolve] in HR.
  - injection HR as <- <- <-. exact H.
  - destruct (lookup (uh u) x) as [[a| |]|]; try discriminate.
    destruct (lookup (arcs u) a) as [[f [|n]]|] eqn:E2; try discriminate.
    destruct (u_resolve (arc_inc u a) r) as [[[fs' os'] u'']|] eqn:E3; try discriminate.
    injection HR as <- <- <-. cbn [own_fds own_arcs flat_map app].
    eapply G_arc_inc in H; eauto. eapply IH in E3; eauto.
    eapply G_perm; [apply Permutation_refl| |exact E3].
    intros a'. fold (own_arcs os'). rewrite !count_occ_app. cbn [count_occ].
    destruct (Nat.eq_dec a a'); rewrite ?count_occ_app; nlia.
  - destruct (lookup (uh u) x) as [[a|[f|]|]|] eqn:E1; try discriminate.
    destruct (u_resolve (set_uh u (update (uh u) x (UR None))) r) as [[[fs' os'] u'']|] eqn:E3; try discriminate.
    injection HR as <- <- <-. cbn [own_fds own_arcs flat_map app].
    eapply (G_set_uh xs ea u x _ (UR None)) in H; eauto. cbn [rxo uso app] in H.
    eapply IH in E3; eauto.
    eapply G_perm; [|intros; reflexivity|exact E3].
    fold (own_fds os'). apply Permutation_sym, Permutation_middle.
Qed.

(* a new descriptor becomes a sender object (fresh arc, fresh handle) *)
Lemma G_add_tx : forall xs u cs c tr, (forall f, ~ In (CBadClose f) tr) -> closes tr = [] -> G xs [] u ->
  G xs [] {| uchans := cs; fdt := fdt u ++ [(nextfd u, RS c)]; nextfd := S (nextfd u);
             arcs := arcs u ++ [(anext u, (nextfd u, 1))]; anext := S (anext u);
             uh := uh u ++ [(unext u, US (anext u))]; unext := S (unext u); utrace := utrace u ++ tr |}.
Proof.
  intros xs u cs c tr Hb Hc H. destruct H. constructor; simp_u.
  - apply NoDup_fst_snoc; auto.
  - apply Forall_lt_snoc; auto.
  - rewrite map_app. unfold arc_fds, rx_fds in *. rewrite !fm_app. unfold fm at 2 4.
    cbn [map fst snd flat_map arco rxo app]. clear - g_perm0. perm_nat.
  - intros f Hin. apply in_app_or in Hin. destruct Hin as [Hin|Hin]; [eapply g_nbc0|eapply Hb]; eauto.
  - apply NoDup_fst_snoc; auto.
  - apply Forall_lt_snoc; auto.
  - intros a f n Hl. rewrite lookup_app in Hl. rewrite count_us_app, count_us_cons. cbn [usb count_us filter length count_occ].
    destruct (lookup (arcs u) a) as [v|] eqn:E.
    + injection Hl as ->. pose proof (lookup_lt _ _ _ _ g_arc_lt0 E) as Hlt.
      destruct (Nat.eqb_spec (anext u) a); [nlia|]. specialize (g_arc_cnt0 _ _ _ E). cbn [count_occ] in g_arc_cnt0. nlia.
    + cbn [lookup] in Hl. destruct (Nat.eqb_spec (anext u) a) as [<-|]; [|discriminate].
      injection Hl as <- <-. rewrite count_us_zero; [reflexivity|].
      intros h Hin. apply In_lookup in Hin; auto. destruct (g_us_arc0 _ _ Hin) as (f' & n' & E'). congruence.
  - intros a f n Hl. rewrite lookup_app in Hl. rewrite lookup_app.
    destruct (lookup (arcs u) a) as [v|] eqn:E.
    + injection Hl as ->. destruct (g_arc_ty0 _ _ _ E) as [c' Hc']. exists c'. now rewrite Hc'.
    + cbn [lookup] in Hl. destruct (Nat.eqb_spec (anext u) a) as [<-|]; [|discriminate].
      injection Hl as <- <-. exists c. rewrite (lookup_fresh _ _ _ g_fd_lt0) by lia.
      cbn [lookup]. now rewrite Nat.eqb_refl.
  - apply NoDup_fst_snoc; auto.
  - apply Forall_lt_snoc; auto.
  - intros h a Hl. rewrite lookup_app in Hl. destruct (lookup (uh u) h) as [v|] eqn:E.
    + injection Hl as ->. destruct (g_us_arc0 _ _ E) as (f' & n' & E'). exists f', n'. rewrite lookup_app. now rewrite E'.
    + cbn [lookup] in Hl. destruct (Nat.eqb (unext u) h); [|discriminate]. injection Hl as <-.
      exists (nextfd u), 1. rewrite lookup_app. rewrite (lookup_fresh _ _ _ g_arc_lt0) by lia.
      cbn [lookup]. now rewrite Nat.eqb_refl.
  - intros h f Hl. rewrite lookup_app in Hl. destruct (lookup (uh u) h) as [v|] eqn:E.
    + injection Hl as ->. destruct (g_ur_ty0 _ _ E) as [c' Hc']. exists c'. rewrite lookup_app. now rewrite Hc'.
    + cbn [lookup] in Hl. destruct (Nat.eqb (unext u) h); discriminate.
  - rewrite closes_app, Hc, app_nil_r. intros f Hin. destruct (g_cl_lt0 _ Hin) as [Hlt Hn]. split; [lia|].
    rewrite map_app. cbn [map fst]. intros Hi. apply in_app_or in Hi. destruct Hi as [Hi|[Hi|[]]]; [contradiction|lia].
  - now rewrite closes_app, Hc, app_nil_r.
Qed.

(* a new descriptor becomes a receiver object *)
Lemma G_add_rx : forall xs u cs c tr, (forall f, ~ In (CBadClose f) tr) -> closes tr = [] -> G xs [] u ->
  G xs [] {| uchans := cs; fdt := fdt u ++ [(nextfd u, RR c)]; nextfd := S (nextfd u);
             arcs := arcs u; anext := anext u;
             uh := uh u ++ [(unext u, UR (Some (nextfd u)))]; unext := S (unext u); utrace := utrace u ++ tr |}.
Proof.
  intros xs u cs c tr Hb Hc H. destruct H. constructor; simp_u; auto.
  - apply NoDup_fst_snoc; auto.
  - apply Forall_lt_snoc; auto.
  - rewrite map_app. unfold arc_fds, rx_fds in *. rewrite !fm_app. unfold fm at 3.
    cbn [map fst snd flat_map arco rxo app]. clear - g_perm0. perm_nat.
  - intros f Hin. apply in_app_or in Hin. destruct Hin as [Hin|Hin]; [eapply g_nbc0|eapply Hb]; eauto.
  - intros a f n Hl. rewrite count_us_app, count_us_cons. cbn [usb count_us filter length].
    specialize (g_arc_cnt0 _ _ _ Hl). nlia.
  - intros a f n Hl. destruct (g_arc_ty0 _ _ _ Hl) as [c' Hc']. exists c'. rewrite lookup_app. now rewrite Hc'.
  - apply NoDup_fst_snoc; auto.
  - apply Forall_lt_snoc; auto.
  - intros h a Hl. rewrite lookup_app in Hl. destruct (lookup (uh u) h) as [v|] eqn:E.
    + injection Hl as ->. eauto.
    + cbn [lookup] in Hl. destruct (Nat.eqb (unext u) h); discriminate.
  - intros h f Hl. rewrite lookup_app in Hl. rewrite lookup_app. destruct (lookup (uh u) h) as [v|] eqn:E.
    + injection Hl as ->. destruct (g_ur_ty0 _ _ E) as [c' Hc']. exists c'. now rewrite Hc'.
    + cbn [lookup] in Hl. destruct (Nat.eqb (unext u) h); [|discriminate]. injection Hl as <-.
      exists c. rewrite (lookup_fresh _ _ _ g_fd_lt0) by lia. cbn [lookup]. now rewrite Nat.eqb_refl.
  - rewrite closes_app, Hc, app_nil_r. intros f Hin. destruct (g_cl_lt0 _ Hin) as [Hlt Hn]. split; [lia|].
    rewrite map_app. cbn [map fst]. intros Hi. apply in_app_or in Hi. destruct Hi as [Hi|[Hi|[]]]; [contradiction|lia].
  - now rewrite closes_app, Hc, app_nil_r.
Qed.

(* a clone of a sender handle takes over one extra strong reference *)
Lemma G_add_us : forall xs ea u a f n, lookup (arcs u) a = Some (f, n) -> G xs (a :: ea) u ->
  G xs ea {| uchans := uchans u; fdt := fdt u; nextfd := nextfd u; arcs := arcs u; anext := anext u;
             uh := uh u ++ [(unext u, US a)]; unext := S (unext u); utrace := utrace u |}.
Proof.
  intros xs ea u a f n Hl H. destruct H. constructor; simp_u; auto.
  - unfold rx_fds in *. rewrite fm_app. unfold fm at 2. cbn [flat_map snd rxo app]. now rewrite app_nil_r.
  - intros a' f' n' Hl'. specialize (g_arc_cnt0 _ _ _ Hl'). rewrite count_us_app, count_us_cons.
    cbn [usb count_us filter length count_occ] in *.
    destruct (Nat.eq_dec a a') as [->|Hne].
    + rewrite Nat.eqb_refl. nlia.
    + destruct (Nat.eqb_spec a a'); [contradiction|]. nlia.
  - apply NoDup_fst_snoc; auto.
  - apply Forall_lt_snoc; auto.
  - intros h a' Hh. rewrite lookup_app in Hh. destruct (lookup (uh u) h) as [v|] eqn:E.
    + injection Hh as ->. eauto.
    + cbn [lookup] in Hh. destruct (Nat.eqb (unext u) h); [|discriminate]. injection Hh as <-. eauto.
  - intros h f' Hh. rewrite lookup_app in Hh. destruct (lookup (uh u) h) as [v|] eqn:E.
    + injection Hh as ->. eauto.
    + cbn [lookup] in Hh. destruct (Nat.eqb (unext u) h); discriminate.
Qed.

Lemma G_install : forall rs xs u, G xs [] u -> G xs [] (fst (u_install u rs)).
Proof.
  induction rs as [|[c|c|o] t IH]; intros xs u H; cbn [u_install]; auto.
  - match goal with |- context [u_install ?x t] => specialize (IH xs x); destruct (u_install x t) as [u2 out] end.
    cbn [fst] in *. apply IH. apply (G_add_tx xs u (uchans u) c [CInstall (nextfd u)]); auto.
    intros f [E|[]]. discriminate.
  - match goal with |- context [u_install ?x t] => specialize (IH xs x); destruct (u_install x t) as [u2 out] end.
    cbn [fst] in *. apply IH. apply (G_add_rx xs u (uchans u) c [CInstall (nextfd u)]); auto.
    intros f [E|[]]. discriminate.
Qed.

Lemma G_step : forall u o, G [] [] u -> G [] [] (fst (u_step u o)).
Proof.
  intros u o H. destruct o as [|h|h|h data atts|h]; cbn [u_step].
  - (* ONew *)
    unfold k_new. cbn [fst chans].
    set (cs := chans (uk u) ++ [{| q := []; dead := false |}]). set (c := length (chans (uk u))).
    assert (H1 := G_add_tx [] u cs c [] (fun f (x : In (CBadClose f) []) => x) eq_refl H).
    assert (H2 := G_add_rx [] _ cs c [CSocketpair (nextfd u) (S (nextfd u))]
                    (fun f (x : In (CBadClose f) [_]) => match x with or_introl e => ltac:(discriminate e) | or_intror e => e end)
                    eq_refl H1).
    simp_u. rewrite <- !app_assoc in H2. cbn [app] in H2. exact H2.
  - (* OClone *)
    destruct (lookup (uh u) h) as [[a| |]|]; try exact H.
    destruct (lookup (arcs u) a) as [[f [|n]]|] eqn:E2; try exact H.
    cbn [fst]. pose proof (G_arc_inc _ _ _ _ _ _ E2 H) as H1.
    eapply (G_add_us [] [] (arc_inc u a) a f (S (S n))); auto.
    unfold arc_inc. rewrite E2. simp_u. now rewrite lookup_update_eq, E2.
  - (* ODrop *)
    destruct (lookup (uh u) h) as [[a|[f|]|]|] eqn:E1; try exact H; cbn [fst].
    + apply G_arc_dec. apply (G_set_uh [] [] u h _ UGone E1) in H; auto.
    + apply G_close. apply (G_set_uh [] [] u h _ UGone E1) in H; auto.
  - (* OSend *)
    destruct (lookup (uh u) h) as [[a| |]|]; try exact H.
    destruct (lookup (arcs u) a) as [[f [|n]]|]; try exact H.
    destruct (lookup (fdt u) f) as [[c|c|ob]|]; try exact H.
    destruct (u_resolve u atts) as [[[fs os] u1]|] eqn:ER; try exact H.
    pose proof (G_resolve _ _ _ _ _ _ _ H ER) as H1.
    destruct (k_send (uk u1) c _) as [k'|]; cbn [fst]; apply G_drop_owned;
      (eapply G_frame; [..|exact H1]; simp_u; try reflexivity; [intros g [E|[]]; discriminate]).
  - (* ORecv *)
    destruct (lookup (uh u) h) as [[a|[f|]|]|]; try exact H.
    destruct (lookup (fdt u) f) as [[c|c|ob]|]; try exact H.
    destruct (q (get_chan (uk u) c)) as [|m rest].
    + destruct (refs (uk u) (RS c) =? 0); cbn [fst];
        (eapply G_frame; [..|exact H]; simp_u; try reflexivity; [intros g [E|[]]; discriminate]).
    + match goal with |- context [u_install ?x ?r] =>
        pose proof (G_install r [] x) as HI; destruct (u_install x r) as [u2 out] end.
      cbn [fst] in *. apply HI.
      eapply G_frame; [..|exact H]; simp_u; try reflexivity. intros g [E|[]]; discriminate.
Qed.

(* ------------------------------------------------------------------------------------------ *)
(* the invariant of the unix back end                                                           *)
(* ------------------------------------------------------------------------------------------ *)
Record u_inv (u : ust) : Prop := {
  (* (a) the descriptor table *)
  ui_fd_nodup : NoDup (map fst (fdt u));
  ui_fd_lt : Forall (fun e => fst e < nextfd u) (fdt u);
  (* (b) open descriptors = descriptors owned by live library objects *)
  ui_perm : Permutation (map fst (fdt u)) (owned_fds u);
  (* (c) *)
  ui_nbc : no_bad_close u;
  (* (d) arcs *)
  ui_arc_nodup : NoDup (map fst (arcs u));
  ui_arc_lt : Forall (fun e => fst e < anext u) (arcs u);
  ui_arc_cnt : forall a f n, In (a, (f, n)) (arcs u) -> n = count_us a (uh u);
  ui_arc_ty : forall a f n, In (a, (f, n)) (arcs u) -> n > 0 -> exists c, lookup (fdt u) f = Some (RS c);
  ui_arc_distinct : forall a1 f1 n1 a2 f2 n2, In (a1, (f1, n1)) (arcs u) -> In (a2, (f2, n2)) (arcs u) ->
    n1 > 0 -> n2 > 0 -> a1 <> a2 -> f1 <> f2;
  (* (e) handles *)
  ui_uh_nodup : NoDup (map fst (uh u));
  ui_uh_lt : Forall (fun e => fst e < unext u) (uh u);
  ui_us_arc : forall h a, In (h, US a) (uh u) -> exists f n, In (a, (f, n)) (arcs u);
  ui_ur_ty : forall h f, In (h, UR (Some f)) (uh u) -> exists c, lookup (fdt u) f = Some (RR c);
  ui_ur_distinct : forall h1 f1 h2 f2, In (h1, UR (Some f1)) (uh u) -> In (h2, UR (Some f2)) (uh u) ->
    h1 <> h2 -> f1 <> f2;
  ui_ur_arc_distinct : forall h f a f' n, In (h, UR (Some f)) (uh u) -> In (a, (f', n)) (arcs u) -> n > 0 -> f <> f';
  (* (f) the kernel *)
  ui_kwf : k_wf (uk u);
  (* the trace: closed descriptors are old and no longer open; each is closed once *)
  ui_cl_lt : forall f, In f (closes (utrace u)) -> f < nextfd u /\ ~ In f (map fst (fdt u));
  ui_cl_nodup : NoDup (closes (utrace u)) }.

Lemma nodup_app_l {X} : forall (l1 l2 : list X), NoDup (l1 ++ l2) -> NoDup l1.
Proof.
  induction l1 as [|h t IH]; intros l2 H; [constructor|].
  cbn [app] in H. inversion H as [|? ? Hh Ht]; subst. constructor; eauto.
  intros Hin. apply Hh. apply in_or_app. now left.
Qed.

Lemma G_of_inv : forall u, u_inv u -> G [] [] u.
Proof.
  intros u []. constructor; auto.
  - intros a f n Hl. apply lookup_In in Hl. cbn [count_occ]. rewrite Nat.add_0_r. eauto.
  - intros a f n Hl. apply lookup_In in Hl. eapply ui_arc_ty0; eauto. lia.
  - intros h a Hl. apply lookup_In in Hl. destruct (ui_us_arc0 _ _ Hl) as (f & n & Hin).
    exists f, n. apply In_lookup; auto.
  - intros h f Hl. apply lookup_In in Hl. eauto.
Qed.

Lemma inv_of_G : forall u, G [] [] u -> k_wf (uk u) -> u_inv u.
Proof.
  intros u H W. pose proof (G_owned_nodup _ _ _ H) as Hnd. cbn [app] in Hnd.
  pose proof (nodup_app_l _ _ Hnd) as Hna. destruct (nodup_app_inv _ _ Hnd) as [Hnr Hdis].
  destruct H. constructor; auto.
  - intros a f n Hin. apply In_lookup in Hin; auto. specialize (g_arc_cnt0 _ _ _ Hin).
    cbn [count_occ] in g_arc_cnt0. lia.
  - intros a f n Hin Hn. apply In_lookup in Hin; auto. destruct n as [|n]; [lia|]. eauto.
  - intros a1 f1 n1 a2 f2 n2 I1 I2 P1 P2 Hne ->. apply In_lookup in I1; auto. apply In_lookup in I2; auto.
    apply (fm_distinct arco (arcs u) a1 a2 _ _ f2 Hna I1 I2 Hne).
    + destruct n1; [lia|]. now left.
    + destruct n2; [lia|]. now left.
  - intros h a Hin. apply In_lookup in Hin; auto. destruct (g_us_arc0 _ _ Hin) as (f & n & E).
    exists f, n. eapply lookup_In; eauto.
  - intros h f Hin. apply In_lookup in Hin; auto. eauto.
  - intros h1 f1 h2 f2 I1 I2 Hne ->. apply In_lookup in I1; auto. apply In_lookup in I2; auto.
    apply (fm_distinct rxo (uh u) h1 h2 _ _ f2 Hnr I1 I2 Hne); now left.
  - intros h f a f' n I1 I2 Hn ->. apply In_lookup in I1; auto. apply In_lookup in I2; auto.
    destruct n as [|n]; [lia|]. apply (Hdis f').
    + eapply G_arc_owned; eauto.
    + eapply G_rx_owned; eauto.
Qed.

Theorem u_inv_init : u_inv u_init.
Proof.
  apply inv_of_G.
  - constructor; cbn; try constructor; try (intros; discriminate); try (intros ? []); try (intros; contradiction); auto.
  - exact k_init_wf.
Qed.

Theorem u_inv_step : forall u o, u_inv u -> u_inv (fst (u_step u o)).
Proof.
  intros u o H. apply inv_of_G.
  - apply G_step, G_of_inv, H.
  - apply kwf_step, (ui_kwf _ H).
Qed.

Lemma u_inv_run_from : forall ops u, u_inv u -> u_inv (fst (u_run u ops)).
Proof.
  induction ops as [|o r IH]; intros u H; cbn [u_run fst]; auto.
  pose proof (u_inv_step u o H) as H1. destruct (u_step u o) as [u' out]. cbn [fst] in H1.
  specialize (IH u' H1). destruct (u_run u' r) as [u'' outs]. exact IH.
Qed.

Theorem u_inv_run : forall ops, u_inv (fst (u_run u_init ops)).
Proof. intros ops. apply u_inv_run_from, u_inv_init. Qed.

(* ------------------------------------------------------------------------------------------ *)
(* C11                                                                                          *)
(* ------------------------------------------------------------------------------------------ *)
Theorem C11_no_leak : forall ops, let u := fst (u_run u_init ops) in
  Permutation (map fst (fdt u)) (owned_fds u) /\ NoDup (map fst (fdt u)).
Proof. intros ops u. pose proof (u_inv_run ops) as H. fold u in H. split; [apply (ui_perm _ H)|apply (ui_fd_nodup _ H)]. Qed.

Theorem C11_no_bad_close : forall ops, no_bad_close (fst (u_run u_init ops)).
Proof. intros ops. apply (ui_nbc _ (u_inv_run ops)). Qed.

Theorem C11_close_once : forall ops,
  NoDup (flat_map (fun c => match c with CClose f => [f] | _ => [] end) (utrace (fst (u_run u_init ops)))).
Proof. intros ops. exact (ui_cl_nodup _ (u_inv_run ops)). Qed.

Lemma fm_rxo_nil : forall l, (forall h o, In (h, o) l -> o = UGone \/ o = UR None) -> fm rxo l = [].
Proof.
  induction l as [|[h o] t IH]; intros H; auto.
  unfold fm in *. cbn [flat_map snd]. rewrite IH by (intros h' o' Hin; apply (H h'); now right).
  destruct (H h o (or_introl eq_refl)) as [->| ->]; reflexivity.
Qed.

Lemma fm_arco_nil : forall l, (forall a f n, In (a, (f, n)) l -> n = 0) -> fm arco l = [].
Proof.
  induction l as [|[a [f n]] t IH]; intros H; auto.
  unfold fm in *. cbn [flat_map snd]. rewrite IH by (intros a' f' n' Hin; apply (H a' f'); now right).
  rewrite (H a f n (or_introl eq_refl)). reflexivity.
Qed.

Theorem C11_quiescent : forall ops, let u := fst (u_run u_init ops) in
  (forall h o, In (h, o) (uh u) -> o = UGone \/ o = UR None) -> fdt u = [].
Proof.
  intros ops u Hq. pose proof (u_inv_run ops) as H. fold u in H.
  pose proof (ui_perm _ H) as Hp. rewrite owned_fds_eq in Hp.
  unfold arc_fds, rx_fds in Hp. rewrite fm_rxo_nil in Hp by exact Hq.
  rewrite fm_arco_nil in Hp.
  - cbn [app] in Hp. apply Permutation_sym, Permutation_nil in Hp.
    apply map_eq_nil in Hp. exact Hp.
  - intros a f n Hin. rewrite (ui_arc_cnt _ H _ _ _ Hin). apply count_us_zero.
    intros h Hh. destruct (Hq _ _ Hh); discriminate.
Qed.

Print Assumptions u_inv_init.
Print Assumptions u_inv_step.
Print Assumptions u_inv_run.
Print Assumptions C11_no_leak.
Print Assumptions C11_no_bad_close.
Print Assumptions C11_close_once.
Print Assumptions C11_quiescent.
