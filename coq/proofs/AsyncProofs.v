(* AsyncProofs: safety of the routing thread behind to_stream (model/Async.v).
   1. a queued registration always has a wake-up pending or about to be sent   (registered_or_woken, not_stranded)
   2. a stream yields exactly the messages sent on ITS channel, once, in order (stream_exact, independent)
   3. end-of-stream only after hang-up and after everything was yielded        (end_after_all, closes_only_when_drained)
   4. progress of the drain loop and of poll_next                              (batch_progress, poll_total)
   The association channel -> stream is computed from the schedule: the k-th PToStreamEnq of a schedule creates
   stream k (assoc, assoc_is_creation). *)
From Coq Require Import List Arith Bool Lia.
Import ListNotations.
From IPC Require Import Async.

(* ------------------------------------------------------------------ lists *)

Lemma length_set_nth {X} (l : list X) i v : length (set_nth l i v) = length l.
Proof. revert i; induction l as [|a l IH]; intros [|i]; simpl; auto. Qed.

Lemma nth_set_nth_eq {X} (l : list X) i v d : i < length l -> nth i (set_nth l i v) d = v.
Proof.
  revert i; induction l as [|a l IH]; intros [|i] H; simpl in *; try lia; auto.
  apply IH; lia.
Qed.

Lemma nth_set_nth_neq {X} (l : list X) i j v d : i <> j -> nth j (set_nth l i v) d = nth j l d.
Proof.
  revert i j; induction l as [|a l IH]; intros [|i] [|j] H; simpl; auto; lia.
Qed.

Lemma lookup_In {B} (l : list (nat * B)) k v : lookup l k = Some v -> In (k, v) l.
Proof.
  induction l as [|[x w] l IH]; simpl; intros H; [discriminate|].
  destruct (Nat.eqb x k) eqn:E.
  - apply Nat.eqb_eq in E; subst; inversion H; subst; auto.
  - right; auto.
Qed.

Lemma Forall_filter {X} (P : X -> Prop) f (l : list X) : Forall P l -> Forall P (filter f l).
Proof.
  rewrite !Forall_forall; intros H x Hx; apply filter_In in Hx; apply H; tauto.
Qed.

(* ------------------------------------------------------------------ case analysis of a step *)

Ltac step_cases :=
  unfold step; cbv beta iota zeta;
  repeat (match goal with
          | |- context [match ?x with _ => _ end] => destruct x eqn:?
          end; cbv beta iota zeta).

Ltac prj := cbn [mk chans regq inflight wakeups routes nextrid ph streams].
Ltac prj_in H := cbn [mk chans regq inflight wakeups routes nextrid ph streams] in H.

Lemma run_app s ls1 ls2 :
  run s (ls1 ++ ls2) = match run s ls1 with Some s1 => run s1 ls2 | None => None end.
Proof.
  revert s; induction ls1 as [|l ls1 IH]; intros s; simpl; auto.
  destruct (step s l); auto.
Qed.

(* ------------------------------------------------------------------ 1. never stranded *)

Definition Inv1 (s : st) : Prop := ph s = AtWait -> length (regq s) <= wakeups s + inflight s.

Lemma inv1_step s l s' : Inv1 s -> step s l = Some s' -> Inv1 s'.
Proof.
  intros I H; revert H; destruct l; step_cases; intros H; try discriminate H;
    inversion H; subst; clear H; auto; unfold Inv1 in *; prj; intros P;
    try discriminate P; try rewrite app_length; simpl length; try specialize (I P); try lia;
    try congruence.
Qed.

Lemma inv1_run ls : forall s s', Inv1 s -> run s ls = Some s' -> Inv1 s'.
Proof.
  induction ls as [|l ls IH]; simpl; intros s s' I H.
  - inversion H; subst; auto.
  - destruct (step s l) as [s1|] eqn:E; [|discriminate].
    apply (IH s1 s'); [eapply inv1_step; eauto | exact H].
Qed.

Theorem registered_or_woken : forall ls s,
  run init ls = Some s -> ph s = AtWait -> length (regq s) <= wakeups s + inflight s.
Proof.
  intros ls s H. apply (inv1_run ls init s); auto. unfold Inv1; simpl; lia.
Qed.

Theorem not_stranded : forall ls s,
  run init ls = Some s -> ph s = AtWait -> regq s <> [] -> inflight s = 0 ->
  exists s', step s RSelect = Some s'.
Proof.
  intros ls s H P Q F. pose proof (registered_or_woken ls s H P) as L.
  assert (W : wakeups s <> 0).
  { destruct (regq s); [congruence|]. simpl in L. lia. }
  unfold step. rewrite P. unfold something_ready.
  apply Nat.eqb_neq in W. rewrite W. simpl. eauto.
Qed.

(* ------------------------------------------------------------------ 2/3. association channel -> stream *)

(* the channels converted by a schedule, in order: the k-th one owns stream k *)
Definition enq_of (l : label) : list cid := match l with PToStreamEnq c => [c] | _ => [] end.
Definition enqs (ls : list label) : list cid := flat_map enq_of ls.

Fixpoint index_of (c : nat) (l : list nat) : option nat :=
  match l with
  | [] => None
  | x :: t => if Nat.eqb x c then Some 0 else option_map S (index_of c t)
  end.

(* assoc ls c = Some i : in schedule ls, receiver c was converted by the (i+1)-th to_stream call, creating stream i *)
Definition assoc (ls : list label) (c : cid) : option sid := index_of c (enqs ls).

Lemma index_of_spec c l i : index_of c l = Some i -> i < length l /\ nth i l 0 = c.
Proof.
  revert i; induction l as [|x t IH]; simpl; intros i H; [discriminate|].
  destruct (Nat.eqb x c) eqn:E.
  - inversion H; subst. apply Nat.eqb_eq in E. split; [lia|auto].
  - destruct (index_of c t) as [j|]; [|discriminate]. inversion H; subst.
    destruct (IH j eq_refl). split; [lia|auto].
Qed.

Lemma index_of_middle c l1 l2 : ~ In c l1 -> index_of c (l1 ++ c :: l2) = Some (length l1).
Proof.
  induction l1 as [|x t IH]; simpl; intros N.
  - rewrite Nat.eqb_refl; auto.
  - destruct (Nat.eqb x c) eqn:E.
    + apply Nat.eqb_eq in E; tauto.
    + rewrite IH by tauto. reflexivity.
Qed.

Lemma index_of_None c l : ~ In c l -> index_of c l = None.
Proof.
  induction l as [|x t IH]; simpl; intros N; auto.
  destruct (Nat.eqb x c) eqn:E.
  - apply Nat.eqb_eq in E; tauto.
  - rewrite IH by tauto. reflexivity.
Qed.

Lemma enqs_app l1 l2 : enqs (l1 ++ l2) = enqs l1 ++ enqs l2.
Proof. apply flat_map_app. Qed.

Lemma converts_once_spec ls : forall cs,
  converts_once ls cs = true -> NoDup (enqs ls) /\ (forall c, In c (enqs ls) -> ~ In c cs).
Proof.
  induction ls as [|l ls IH]; intros cs H.
  - simpl. split; [constructor|tauto].
  - destruct l; simpl in H; try (apply IH in H; exact H).
    apply andb_true_iff in H; destruct H as [N H]. apply IH in H; destruct H as [ND D].
    assert (NC : ~ In c cs).
    { intros HC. apply negb_true_iff in N.
      assert (existsb (Nat.eqb c) cs = true); [|congruence].
      apply existsb_exists. exists c. split; auto. apply Nat.eqb_refl. }
    simpl. split.
    + constructor; auto. intros HI. apply (D c HI). left; auto.
    + intros c0 [->|HI]; auto. intros HC. apply (D c0 HI). right; auto.
Qed.

(* ------------------------------------------------------------------ data invariant: channels and streams *)

Definition dch : chanst := {| queue := []; hup := false; sent := [] |}.
Definition dst : stream := {| items := []; open := false; yielded := []; ended := false |}.
Definition gc (cs : list chanst) (c : cid) : chanst := nth c cs dch.
Definition gs (ss : list stream) (i : sid) : stream := nth i ss dst.

Record InvD (E : list cid) (cs : list chanst) (ss : list stream) : Prop := {
  dLen : length ss = length E;
  (* a receiver that was never converted has lost nothing *)
  dUnconv : forall c, ~ In c E -> queue (gc cs c) = sent (gc cs c);
  dExact : forall i, i < length E ->
      yielded (gs ss i) ++ items (gs ss i) ++ queue (gc cs (nth i E 0)) = sent (gc cs (nth i E 0));
  dClosed : forall i, i < length E -> open (gs ss i) = false ->
      hup (gc cs (nth i E 0)) = true /\ queue (gc cs (nth i E 0)) = [];
  dEnded : forall i, i < length E -> ended (gs ss i) = true ->
      open (gs ss i) = false /\ items (gs ss i) = [] }.

Lemma gc_nil c : gc [] c = dch.
Proof. unfold gc; destruct c; reflexivity. Qed.

Lemma gc_snoc cs c : gc (cs ++ [dch]) c = gc cs c.
Proof.
  unfold gc. destruct (lt_dec c (length cs)) as [L|L].
  - apply app_nth1; auto.
  - rewrite app_nth2 by lia. rewrite (nth_overflow cs) by lia.
    destruct (c - length cs) as [|[|n]]; reflexivity.
Qed.

Lemma gc_range_queue cs c : queue (gc cs c) <> [] -> c < length cs.
Proof.
  intros H. destruct (lt_dec c (length cs)); auto. exfalso; apply H.
  unfold gc; rewrite nth_overflow by lia; reflexivity.
Qed.

Lemma invD_init : InvD [] [] [].
Proof.
  constructor; simpl; intros; try lia. rewrite gc_nil; reflexivity.
Qed.

Lemma invD_newchan E cs ss : InvD E cs ss -> InvD E (cs ++ [dch]) ss.
Proof.
  intros [L U X C N]; constructor; intros; rewrite ?gc_snoc; auto.
Qed.

(* update of one channel *)
Lemma invD_chan E cs ss c v :
  InvD E cs ss -> c < length cs ->
  (~ In c E -> queue v = sent v) ->
  (forall i, i < length E -> nth i E 0 = c ->
     yielded (gs ss i) ++ items (gs ss i) ++ queue v = sent v /\
     (open (gs ss i) = false -> hup v = true /\ queue v = [])) ->
  InvD E (set_nth cs c v) ss.
Proof.
  intros [L U X C N] Hc HU HX. constructor; auto.
  - intros c0 H0. unfold gc. destruct (Nat.eq_dec c0 c) as [->|Hne].
    + rewrite nth_set_nth_eq by auto. auto.
    + rewrite nth_set_nth_neq by auto. apply U; auto.
  - intros i Hi. unfold gc. destruct (Nat.eq_dec (nth i E 0) c) as [He|Hne].
    + rewrite He, nth_set_nth_eq by auto. destruct (HX i Hi He) as [HH _]. exact HH.
    + rewrite nth_set_nth_neq by auto. apply X; auto.
  - intros i Hi Ho. unfold gc. destruct (Nat.eq_dec (nth i E 0) c) as [He|Hne].
    + rewrite He, nth_set_nth_eq by auto. destruct (HX i Hi He) as [_ HH]. apply HH; auto.
    + rewrite nth_set_nth_neq by auto. apply C; auto.
Qed.

(* update of one stream *)
Lemma invD_stream E cs ss i w :
  InvD E cs ss -> i < length E ->
  yielded w ++ items w ++ queue (gc cs (nth i E 0)) = sent (gc cs (nth i E 0)) ->
  (open w = false -> hup (gc cs (nth i E 0)) = true /\ queue (gc cs (nth i E 0)) = []) ->
  (ended w = true -> open w = false /\ items w = []) ->
  InvD E cs (set_nth ss i w).
Proof.
  intros [L U X C N] Hi HX HC HN. constructor; auto.
  - rewrite length_set_nth; auto.
  - intros j Hj. unfold gs. destruct (Nat.eq_dec j i) as [->|Hne].
    + rewrite nth_set_nth_eq by lia. auto.
    + rewrite nth_set_nth_neq by auto. apply X; auto.
  - intros j Hj. unfold gs. destruct (Nat.eq_dec j i) as [->|Hne].
    + rewrite nth_set_nth_eq by lia. auto.
    + rewrite nth_set_nth_neq by auto. apply C; auto.
  - intros j Hj. unfold gs. destruct (Nat.eq_dec j i) as [->|Hne].
    + rewrite nth_set_nth_eq by lia. auto.
    + rewrite nth_set_nth_neq by auto. apply N; auto.
Qed.

(* a message moves from channel c into its stream i *)
Lemma invD_both E cs ss c i v w :
  InvD E cs ss -> NoDup E -> i < length E -> nth i E 0 = c -> c < length cs ->
  yielded w ++ items w ++ queue v = sent v ->
  (open w = false -> hup v = true /\ queue v = []) ->
  (ended w = true -> open w = false /\ items w = []) ->
  InvD E (set_nth cs c v) (set_nth ss i w).
Proof.
  intros [L U X C N] ND Hi He Hc HX HC HN.
  assert (INJ : forall j, j < length E -> j <> i -> nth j E 0 <> c).
  { intros j Hj Hne Hj2. apply Hne. rewrite <- He in Hj2.
    apply (proj1 (NoDup_nth E 0) ND j i Hj Hi Hj2). }
  constructor; auto.
  - rewrite length_set_nth; auto.
  - intros c0 H0. unfold gc. destruct (Nat.eq_dec c0 c) as [->|Hne].
    + exfalso; apply H0. rewrite <- He. apply nth_In; auto.
    + rewrite nth_set_nth_neq by auto. apply U; auto.
  - intros j Hj. unfold gs, gc. destruct (Nat.eq_dec j i) as [->|Hne].
    + rewrite He, !nth_set_nth_eq by lia. auto.
    + assert (c <> nth j E 0) by (intros Q; apply (INJ j Hj Hne); auto).
      rewrite !nth_set_nth_neq by auto. apply X; auto.
  - intros j Hj. unfold gs, gc. destruct (Nat.eq_dec j i) as [->|Hne].
    + rewrite He, !nth_set_nth_eq by lia. auto.
    + assert (c <> nth j E 0) by (intros Q; apply (INJ j Hj Hne); auto).
      rewrite !nth_set_nth_neq by auto. apply C; auto.
  - intros j Hj. unfold gs. destruct (Nat.eq_dec j i) as [->|Hne].
    + rewrite nth_set_nth_eq by lia. auto.
    + rewrite nth_set_nth_neq by auto. apply N; auto.
Qed.

(* to_stream, first half: a fresh empty open stream for a so far unconverted receiver *)
Lemma invD_enq E cs ss c :
  InvD E cs ss -> ~ In c E ->
  InvD (E ++ [c]) cs (ss ++ [{| items := []; open := true; yielded := []; ended := false |}]).
Proof.
  intros [L U X C N] NI.
  assert (OLD : forall i, i < length E ->
            nth i (E ++ [c]) 0 = nth i E 0 /\
            gs (ss ++ [{| items := []; open := true; yielded := []; ended := false |}]) i = gs ss i).
  { intros i Hi. split; [apply app_nth1; auto | unfold gs; apply app_nth1; lia]. }
  assert (NEW : nth (length E) (E ++ [c]) 0 = c /\
            gs (ss ++ [{| items := []; open := true; yielded := []; ended := false |}]) (length E) =
            {| items := []; open := true; yielded := []; ended := false |}).
  { split; [apply nth_middle | unfold gs; rewrite <- L; apply nth_middle]. }
  destruct NEW as [N1 N2].
  assert (SPLIT : forall i, i < length (E ++ [c]) -> i < length E \/ i = length E).
  { intros i; rewrite app_length; simpl; lia. }
  constructor.
  - rewrite !app_length; simpl; lia.
  - intros c0 H0. apply U. intros HI; apply H0; apply in_or_app; auto.
  - intros i Hi. destruct (SPLIT i Hi) as [Hl| ->].
    + destruct (OLD i Hl) as [-> ->]. auto.
    + rewrite N1, N2. simpl. auto.
  - intros i Hi. destruct (SPLIT i Hi) as [Hl| ->].
    + destruct (OLD i Hl) as [-> ->]. auto.
    + rewrite N1, N2. simpl. discriminate.
  - intros i Hi. destruct (SPLIT i Hi) as [Hl| ->].
    + destruct (OLD i Hl) as [_ ->]. auto.
    + rewrite N2. simpl. discriminate.
Qed.

(* ------------------------------------------------------------------ control invariant: registrations and routes *)

(* a registration / route (c, i) always pairs a receiver with the stream created for it *)
Definition okpair (E : list cid) (p : cid * sid) : Prop := snd p < length E /\ nth (snd p) E 0 = fst p.
Definition InvC (E : list cid) (rq : list (cid * sid)) (rt : list (rid * (cid * sid))) : Prop :=
  Forall (okpair E) rq /\ Forall (fun e => okpair E (snd e)) rt.

Lemma okpair_snoc E c p : okpair E p -> okpair (E ++ [c]) p.
Proof. intros [A B]; split; [rewrite app_length; lia | rewrite app_nth1; auto]. Qed.

Definition Inv (E : list cid) (s : st) : Prop :=
  InvD E (chans s) (streams s) /\ InvC E (regq s) (routes s).

Lemma get_gc s c : get s c = gc (chans s) c.
Proof. reflexivity. Qed.
Lemma gets_gs s i : gets s i = gs (streams s) i.
Proof. reflexivity. Qed.

Lemma inv_init : Inv [] init.
Proof. split; [exact invD_init | split; constructor]. Qed.

Lemma inv_step E s l s' :
  Inv E s -> NoDup (E ++ enq_of l) -> step s l = Some s' -> Inv (E ++ enq_of l) s'.
Proof.
  intros [D [Q R]] ND H; revert H.
  destruct l; cbn [enq_of] in *; try rewrite app_nil_r in *;
    step_cases; intros H; try discriminate H; inversion H; subst; clear H;
    unfold Inv, InvC; prj; rewrite ?get_gc, ?gets_gs in *.
  - (* PNewChan *)
    split; [exact (invD_newchan _ _ _ D) | split; auto].
  - (* PSend *)
    match goal with H : _ && _ = true |- _ => apply andb_true_iff in H; destruct H as [A B] end.
    apply Nat.ltb_lt in A. apply negb_true_iff in B.
    split; [|split; auto]. apply invD_chan; auto; cbn [queue sent hup].
    + intros NI. f_equal. apply (dUnconv _ _ _ D); auto.
    + intros i Hi He. pose proof (dExact _ _ _ D i Hi) as X. rewrite He in X. split.
      * rewrite <- X. rewrite <- !app_assoc. reflexivity.
      * intros Ho. destruct (dClosed _ _ _ D i Hi Ho) as [Hh _]. rewrite He in Hh. congruence.
  - (* PHup *)
    match goal with H : _ && _ = true |- _ => apply andb_true_iff in H; destruct H as [A B] end.
    apply Nat.ltb_lt in A. apply negb_true_iff in B.
    split; [|split; auto]. apply invD_chan; auto; cbn [queue sent hup].
    + intros NI. apply (dUnconv _ _ _ D); auto.
    + intros i Hi He. pose proof (dExact _ _ _ D i Hi) as X. rewrite He in X. split; auto.
      intros Ho. destruct (dClosed _ _ _ D i Hi Ho) as [_ Hq]. rewrite He in Hq. auto.
  - (* PToStreamEnq *)
    assert (NI : ~ In c E).
    { apply NoDup_remove_2 in ND. rewrite app_nil_r in ND. exact ND. }
    split; [apply invD_enq; auto|]. split.
    + apply Forall_app. split.
      * eapply Forall_impl; [|exact Q]. intros p; apply okpair_snoc.
      * constructor; [|constructor]. split; cbn [fst snd].
        -- rewrite (dLen _ _ _ D), app_length; simpl; lia.
        -- rewrite (dLen _ _ _ D). apply nth_middle.
    + eapply Forall_impl; [|exact R]. intros p; apply okpair_snoc.
  - (* PToStreamWake *) split; [exact D | split; auto].
  - (* RSelect *) split; [exact D | split; auto].
  - (* REvWake *) split; [exact D | split; auto].
  - (* REvMsg *)
    match goal with H : lookup _ _ = Some _ |- _ => apply lookup_In in H; rename H into HI end.
    pose proof (proj1 (Forall_forall _ _) R _ HI) as [Hi He]. cbn [fst snd] in Hi, He.
    match goal with H : queue _ = _ :: _ |- _ => rename H into Hq end.
    assert (Hc : c < length (chans s)).
    { apply gc_range_queue. rewrite Hq. discriminate. }
    split; [|split; auto].
    pose proof (dExact _ _ _ D _ Hi) as X. rewrite He, Hq in X.
    apply invD_both; auto; cbn [yielded items queue sent open hup ended].
    + rewrite <- X. rewrite <- app_assoc. reflexivity.
    + intros Ho. destruct (dClosed _ _ _ D _ Hi Ho) as [_ Hq2]. rewrite He in Hq2. congruence.
    + intros Hn. destruct (dEnded _ _ _ D _ Hi Hn) as [Ho _].
      destruct (dClosed _ _ _ D _ Hi Ho) as [_ Hq2]. rewrite He in Hq2. congruence.
  - (* REvClosed *)
    match goal with H : lookup _ _ = Some _ |- _ => apply lookup_In in H; rename H into HI end.
    pose proof (proj1 (Forall_forall _ _) R _ HI) as [Hi He]. cbn [fst snd] in Hi, He.
    split; [|split; auto].
    + apply invD_stream; auto; cbn [yielded items queue sent open hup ended].
      * apply (dExact _ _ _ D); auto.
      * intros _. rewrite He. split; auto.
      * intros Hn. split; auto. apply (dEnded _ _ _ D); auto.
    + unfold remove_key. apply Forall_filter; auto.
  - (* REndBatch *) split; [exact D | split; auto].
  - (* RDrainOne *)
    try match goal with H : regq s = _ :: _ |- _ => rewrite H in Q end.
    inversion Q; subst.
    split; [exact D | split; auto]. apply Forall_app. split; auto.
  - (* RDrainDone *) split; [exact D | split; auto].
  - (* CPoll, pending *) split; [exact D | split; auto].
  - (* CPoll, end of stream *)
    match goal with H : (_ <? _) = true |- _ => apply Nat.ltb_lt in H; rename H into Hi end.
    rewrite (dLen _ _ _ D) in Hi.
    match goal with H : items _ = [] |- _ => rename H into Hq end.
    match goal with H : open _ = false |- _ => rename H into Ho end.
    pose proof (dExact _ _ _ D _ Hi) as X. rewrite Hq in X.
    split; [|split; auto].
    apply invD_stream; auto; cbn [yielded items queue sent open hup ended].
    intros _. apply (dClosed _ _ _ D); auto.
  - (* CPoll, an item *)
    match goal with H : (_ <? _) = true |- _ => apply Nat.ltb_lt in H; rename H into Hi end.
    rewrite (dLen _ _ _ D) in Hi.
    match goal with H : items _ = _ :: _ |- _ => rename H into Hq end.
    pose proof (dExact _ _ _ D _ Hi) as X. rewrite Hq in X.
    split; [|split; auto].
    apply invD_stream; auto; cbn [yielded items queue sent open hup ended].
    + rewrite <- X. rewrite <- app_assoc. reflexivity.
    + apply (dClosed _ _ _ D); auto.
    + intros Hn. destruct (dEnded _ _ _ D _ Hi Hn) as [_ Hq2]. congruence.
Qed.

Lemma NoDup_app_l {X} (l1 l2 : list X) : NoDup (l1 ++ l2) -> NoDup l1.
Proof.
  induction l1 as [|a l1 IH]; simpl; intros H; [constructor|].
  inversion H; subst. constructor; auto. intros HI; apply H2; apply in_or_app; auto.
Qed.

Lemma inv_run ls : forall E s s',
  Inv E s -> NoDup (E ++ enqs ls) -> run s ls = Some s' -> Inv (E ++ enqs ls) s'.
Proof.
  induction ls as [|l ls IH]; intros E s s' I ND H; simpl in *.
  - rewrite app_nil_r. inversion H; subst; auto.
  - destruct (step s l) as [s1|] eqn:S1; [|discriminate].
    rewrite app_assoc in *. apply (IH _ s1 s'); auto.
    apply inv_step with (s := s); auto.
    apply NoDup_app_l in ND. exact ND.
Qed.

Lemma inv_reach ls s :
  converts_once ls [] = true -> run init ls = Some s -> NoDup (enqs ls) /\ Inv (enqs ls) s.
Proof.
  intros CO H. apply converts_once_spec in CO. destruct CO as [ND _]. split; auto.
  apply (inv_run ls [] init s inv_init ND H).
Qed.

Lemma streams_step s l s' : step s l = Some s' -> length (streams s') = length (streams s) + length (enq_of l).
Proof.
  intros H; revert H; destruct l; step_cases; intros H; try discriminate H;
    inversion H; subst; clear H; prj; cbn [enq_of length];
    rewrite ?length_set_nth, ?app_length; simpl; lia.
Qed.

Lemma streams_run ls : forall s s', run s ls = Some s' -> length (streams s') = length (streams s) + length (enqs ls).
Proof.
  induction ls as [|l ls IH]; intros s s' H; simpl in *.
  - inversion H; subst; lia.
  - destruct (step s l) as [s1|] eqn:S1; [|discriminate].
    apply IH in H. apply streams_step in S1. rewrite app_length. lia.
Qed.

(* assoc is the intended association: the stream created by `PToStreamEnq c` (id = length streams at that
   moment) is the one assoc gives for c, for every extension of the schedule *)
Theorem assoc_is_creation : forall ls1 ls2 c s1,
  converts_once (ls1 ++ PToStreamEnq c :: ls2) [] = true -> run init ls1 = Some s1 ->
  assoc (ls1 ++ PToStreamEnq c :: ls2) c = Some (length (streams s1)).
Proof.
  intros ls1 ls2 c s1 CO H. apply converts_once_spec in CO. destruct CO as [ND _].
  unfold assoc. rewrite enqs_app in *. simpl in *.
  apply streams_run in H. simpl in H. rewrite H.
  apply index_of_middle. apply NoDup_remove_2 in ND. intros HI; apply ND; apply in_or_app; auto.
Qed.

(* before its conversion a receiver has no stream *)
Theorem assoc_before : forall ls c, ~ In (PToStreamEnq c) ls -> assoc ls c = None.
Proof.
  intros ls c N. unfold assoc. apply index_of_None. intros HI. apply N.
  unfold enqs in HI. apply in_flat_map in HI. destruct HI as [l [HL HI]].
  destruct l; simpl in HI; try tauto. destruct HI as [->|[]]. exact HL.
Qed.

Lemma assoc_ok ls s c i :
  converts_once ls [] = true -> run init ls = Some s -> assoc ls c = Some i ->
  InvD (enqs ls) (chans s) (streams s) /\ i < length (enqs ls) /\ nth i (enqs ls) 0 = c.
Proof.
  intros CO H A. destruct (inv_reach ls s CO H) as [_ [D _]].
  apply index_of_spec in A. tauto.
Qed.

Theorem assoc_in_range : forall ls s c i,
  converts_once ls [] = true -> run init ls = Some s -> assoc ls c = Some i -> i < length (streams s).
Proof.
  intros ls s c i CO H A. destruct (assoc_ok ls s c i CO H A) as [D [Hi _]].
  rewrite (dLen _ _ _ D). exact Hi.
Qed.

(* ------------------------------------------------------------------ 2. stream contents *)

Theorem stream_exact : forall ls s c i,
  converts_once ls [] = true -> run init ls = Some s -> assoc ls c = Some i ->
  yielded (gets s i) ++ items (gets s i) ++ queue (get s c) = sent (get s c).
Proof.
  intros ls s c i CO H A. destruct (assoc_ok ls s c i CO H A) as [D [Hi He]].
  pose proof (dExact _ _ _ D i Hi) as X. rewrite He in X. exact X.
Qed.

Theorem independent : forall ls s c i x,
  converts_once ls [] = true -> run init ls = Some s -> assoc ls c = Some i ->
  In x (yielded (gets s i) ++ items (gets s i)) -> In x (sent (get s c)).
Proof.
  intros ls s c i x CO H A HI. rewrite <- (stream_exact ls s c i CO H A).
  rewrite app_assoc. apply in_or_app. left. exact HI.
Qed.

(* a receiver that was never converted keeps everything queued *)
Theorem unconverted_untouched : forall ls s c,
  converts_once ls [] = true -> run init ls = Some s -> assoc ls c = None ->
  queue (get s c) = sent (get s c).
Proof.
  intros ls s c CO H A. destruct (inv_reach ls s CO H) as [_ [D _]].
  apply (dUnconv _ _ _ D). intros HI. unfold assoc in A.
  apply In_nth with (d := 0) in HI. destruct HI as [n [Hn He]].
  assert (NI : forall l, In c l -> index_of c l <> None).
  { induction l as [|y t IH]; simpl; [tauto|]. intros [->|HT].
    - rewrite Nat.eqb_refl; discriminate.
    - destruct (Nat.eqb y c); [discriminate|]. specialize (IH HT).
      destruct (index_of c t); [discriminate|tauto]. }
  apply (NI (enqs ls)); auto. rewrite <- He. apply nth_In; auto.
Qed.

(* ------------------------------------------------------------------ 3. end of stream *)

Theorem closes_only_when_drained_strong : forall ls s c i,
  converts_once ls [] = true -> run init ls = Some s -> assoc ls c = Some i ->
  open (gets s i) = false -> hup (get s c) = true /\ queue (get s c) = [].
Proof.
  intros ls s c i CO H A Ho. destruct (assoc_ok ls s c i CO H A) as [D [Hi He]].
  pose proof (dClosed _ _ _ D i Hi Ho) as X. rewrite He in X. exact X.
Qed.

Theorem closes_only_when_drained : forall ls s c i,
  converts_once ls [] = true -> run init ls = Some s -> assoc ls c = Some i ->
  open (gets s i) = false ->
  (hup (get s c) = true /\ queue (get s c) = []) \/ i >= length (streams s).
Proof.
  intros; left; eapply closes_only_when_drained_strong; eauto.
Qed.

Theorem end_after_all : forall ls s c i,
  converts_once ls [] = true -> run init ls = Some s -> assoc ls c = Some i ->
  ended (gets s i) = true ->
  hup (get s c) = true /\ queue (get s c) = [] /\ items (gets s i) = [] /\ yielded (gets s i) = sent (get s c).
Proof.
  intros ls s c i CO H A Hn. destruct (assoc_ok ls s c i CO H A) as [D [Hi He]].
  destruct (dEnded _ _ _ D i Hi Hn) as [Ho Hit].
  change (gs (streams s) i) with (gets s i) in Ho, Hit.
  destruct (closes_only_when_drained_strong ls s c i CO H A Ho) as [Hh Hq].
  pose proof (stream_exact ls s c i CO H A) as X.
  rewrite Hit, Hq in X. simpl in X. rewrite app_nil_r in X. auto.
Qed.

(* ------------------------------------------------------------------ 4. progress *)

Theorem batch_progress : forall ls s,
  run init ls = Some s -> ph s = Drain ->
  (exists s', step s RDrainOne = Some s') \/ (exists s', step s RDrainDone = Some s').
Proof.
  intros ls s _ P. unfold step. rewrite P. destruct (regq s) as [|[c i] rest]; eauto.
Qed.

Theorem poll_total : forall ls s i,
  run init ls = Some s -> i < length (streams s) -> exists s', step s (CPoll i) = Some s'.
Proof.
  intros ls s i _ L. unfold step. apply Nat.ltb_lt in L. rewrite L. cbv zeta.
  destruct (items (gets s i)); [destruct (open (gets s i))|]; eauto.
Qed.

(* ------------------------------------------------------------------ sanity: the hypotheses are satisfiable / needed *)

(* a full life cycle: message before conversion, conversion, message after, hang-up, end of stream *)
Example life_cycle :
  let ls := [PNewChan; PNewChan; PSend 1 7; PToStreamEnq 1; PToStreamWake; RSelect; REvWake; REndBatch;
             RDrainOne; RDrainDone; PSend 1 8; PHup 1; RSelect; REvMsg 1; REvMsg 1; REvClosed 1; REndBatch;
             RDrainDone; CPoll 0; CPoll 0; CPoll 0] in
  converts_once ls [] = true /\ assoc ls 1 = Some 0 /\ assoc ls 0 = None /\
  option_map (fun s => (yielded (gets s 0), ended (gets s 0))) (run init ls) = Some ([7; 8], true).
Proof. vm_compute. repeat split. Qed.

(* converts_once is needed: a receiver converted twice has its messages split over two streams *)
Example twice_splits :
  let ls := [PNewChan; PSend 0 7; PSend 0 8; PToStreamEnq 0; PToStreamEnq 0; PToStreamWake; RSelect; REvWake;
             REndBatch; RDrainOne; RDrainOne; RDrainDone; PToStreamWake; RSelect; REvMsg 1; REvMsg 2] in
  converts_once ls [] = false /\
  option_map (fun s => (items (gets s 0), items (gets s 1), queue (get s 0))) (run init ls) = Some ([7], [8], []).
Proof. vm_compute. repeat split. Qed.

Print Assumptions registered_or_woken.
Print Assumptions not_stranded.
Print Assumptions assoc_is_creation.
Print Assumptions assoc_before.
Print Assumptions assoc_in_range.
Print Assumptions stream_exact.
Print Assumptions independent.
Print Assumptions unconverted_untouched.
Print Assumptions end_after_all.
Print Assumptions closes_only_when_drained_strong.
Print Assumptions closes_only_when_drained.
Print Assumptions batch_progress.
Print Assumptions poll_total.
