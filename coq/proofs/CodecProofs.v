(* CodecProofs: the bincode-1 codec model of model/Codec.v.
     1. le_value / le_bytes round trip
     2. dec_enc          : decoding an encoding gives the value back, attachments identified by position
     3. decode_encode_msg: the same for whole messages
     4. dec_conserves    : for ARBITRARY bytes and tables, what the decoder hands out is exactly what it
                           takes out of the tables (no forgery, no duplication, nothing lost)
     5. dec_total, dec_suffix
   No axioms. *)
From Coq Require Import List Arith Lia Bool ZArith Permutation.
From IPC Require Import Codec.
Import ListNotations.
Open Scope Z_scope.

Ltac zlia := Z.div_mod_to_equations; lia.
Ltac red_match := cbv beta match zeta.

(* ------------------------------------------------------------------ *)
(* 1. little-endian integers                                           *)
(* ------------------------------------------------------------------ *)

Lemma le_bytes_length : forall n x, length (le_bytes n x) = n.
Proof. induction n; intros; cbn [le_bytes length]; auto. Qed.

Lemma le_bytes_range : forall n x, Forall (fun b => 0 <= b < 256) (le_bytes n x).
Proof.
  induction n; intros; cbn [le_bytes]; constructor; auto.
  apply Z.mod_pos_bound; lia.
Qed.

Lemma le_value_le_bytes : forall n x, 0 <= x < 256 ^ Z.of_nat n -> le_value (le_bytes n x) = x.
Proof.
  induction n; intros x H.
  - change (Z.of_nat 0) with 0 in H. rewrite Z.pow_0_r in H. cbn [le_bytes le_value]. lia.
  - rewrite Nat2Z.inj_succ, Z.pow_succ_r in H by lia.
    cbn [le_bytes le_value]. rewrite IHn.
    + zlia.
    + split.
      * apply Z.div_pos; lia.
      * apply Z.div_lt_upper_bound; lia.
Qed.

Lemma le_value_le_bytes8 : forall x, 0 <= x < 2 ^ 64 -> le_value (le_bytes 8 x) = x.
Proof. intros. apply le_value_le_bytes. change (256 ^ Z.of_nat 8) with (2 ^ 64). assumption. Qed.

Lemma le_value_le_bytes4 : forall x, 0 <= x < 2 ^ 32 -> le_value (le_bytes 4 x) = x.
Proof. intros. apply le_value_le_bytes. change (256 ^ Z.of_nat 4) with (2 ^ 32). assumption. Qed.

(* ------------------------------------------------------------------ *)
(* take                                                                *)
(* ------------------------------------------------------------------ *)

Lemma take_app : forall a b, take (length a) (a ++ b) = Some (a, b).
Proof.
  induction a as [|x a IH]; intros b.
  - reflexivity.
  - specialize (IH b). unfold take in *. cbn [length app Nat.leb firstn skipn].
    destruct (Nat.leb (length a) (length (a ++ b))); [|discriminate].
    injection IH as E1 E2. now rewrite E1, E2.
Qed.

Lemma take_split : forall n bs h r, take n bs = Some (h, r) -> bs = h ++ r.
Proof.
  unfold take; intros n bs h r H. destruct (Nat.leb n (length bs)); [|discriminate].
  injection H as <- <-. symmetry; apply firstn_skipn.
Qed.

Lemma take_le_bytes : forall n x rest, take n (le_bytes n x ++ rest) = Some (le_bytes n x, rest).
Proof. intros. rewrite <- (le_bytes_length n x) at 1. apply take_app. Qed.

Lemma dec_index_le_bytes : forall x rest, 0 <= x < 2 ^ 64 -> dec_index (le_bytes 8 x ++ rest) = Some (x, rest).
Proof. intros. unfold dec_index. rewrite take_le_bytes, le_value_le_bytes8; auto. Qed.

(* ------------------------------------------------------------------ *)
(* induction principle for the nested inductive val                    *)
(* ------------------------------------------------------------------ *)

Section ValInd.
  Variable P : val -> Prop.
  Hypothesis H_unit : P VUnit.
  Hypothesis H_bool : forall b, P (VBool b).
  Hypothesis H_u8 : forall n, P (VU8 n).
  Hypothesis H_u32 : forall n, P (VU32 n).
  Hypothesis H_u64 : forall n, P (VU64 n).
  Hypothesis H_i64 : forall n, P (VI64 n).
  Hypothesis H_f64 : forall n, P (VF64 n).
  Hypothesis H_string : forall bs, P (VString bs).
  Hypothesis H_seq : forall vs, Forall P vs -> P (VSeq vs).
  Hypothesis H_none : P VNone.
  Hypothesis H_some : forall v, P v -> P (VSome v).
  Hypothesis H_tuple : forall vs, Forall P vs -> P (VTuple vs).
  Hypothesis H_enum : forall i v, P v -> P (VEnum i v).
  Hypothesis H_sender : forall e, P (VSender e).
  Hypothesis H_receiver : forall e, P (VReceiver e).
  Hypothesis H_region : forall r, P (VRegion r).

  Fixpoint val_ind' (v : val) : P v :=
    match v with
    | VUnit => H_unit
    | VBool b => H_bool b
    | VU8 n => H_u8 n
    | VU32 n => H_u32 n
    | VU64 n => H_u64 n
    | VI64 n => H_i64 n
    | VF64 n => H_f64 n
    | VString bs => H_string bs
    | VSeq vs => H_seq vs ((fix go (l : list val) : Forall P l :=
                              match l with
                              | [] => @Forall_nil _ P
                              | x :: r => @Forall_cons _ P x r (val_ind' x) (go r)
                              end) vs)
    | VNone => H_none
    | VSome x => H_some x (val_ind' x)
    | VTuple vs => H_tuple vs ((fix go (l : list val) : Forall P l :=
                              match l with
                              | [] => @Forall_nil _ P
                              | x :: r => @Forall_cons _ P x r (val_ind' x) (go r)
                              end) vs)
    | VEnum i x => H_enum i x (val_ind' x)
    | VSender e => H_sender e
    | VReceiver e => H_receiver e
    | VRegion r => H_region r
    end.
End ValInd.

(* ------------------------------------------------------------------ *)
(* definitions: typing, attachments of a value, fuel need               *)
(* ------------------------------------------------------------------ *)

(* typing, with the range constraints the Rust types impose.
   (lengths of strings and sequences are usize: < 2^64; without that the length prefix wraps) *)
Inductive has_type : val -> ty -> Prop :=
| HT_unit : has_type VUnit TUnit
| HT_bool b : has_type (VBool b) TBool
| HT_u8 n : 0 <= n < 256 -> has_type (VU8 n) TU8
| HT_u32 n : 0 <= n < 2^32 -> has_type (VU32 n) TU32
| HT_u64 n : 0 <= n < 2^64 -> has_type (VU64 n) TU64
| HT_i64 n : - 2^63 <= n < 2^63 -> has_type (VI64 n) TI64
| HT_f64 b : 0 <= b < 2^64 -> has_type (VF64 b) TF64
| HT_string (bs : list byte) : Forall (fun b => 0 <= b < 256) bs -> utf8_ok (S (length bs)) bs = true ->
                 Z.of_nat (length bs) < 2^64 -> has_type (VString bs) TString
| HT_seq vs t : Forall (fun v => has_type v t) vs -> Z.of_nat (length vs) < 2^64 -> has_type (VSeq vs) (TSeq t)
| HT_none t : has_type VNone (TOption t)
| HT_some v t : has_type v t -> has_type (VSome v) (TOption t)
| HT_tuple vs ts : Forall2 has_type vs ts -> has_type (VTuple vs) (TTuple ts)
| HT_enum i v vars t : nth_error vars i = Some t -> has_type v t -> Z.of_nat i < 2^32 -> has_type (VEnum i v) (TEnum vars)
| HT_sender e : has_type (VSender e) TSender
| HT_receiver e : has_type (VReceiver e) TReceiver
| HT_region r : has_type (VRegion r) TRegion.

(* channel-list entries / regions a value contributes, in serialisation (left-to-right) order *)
Fixpoint atts (v : val) : list att :=
  match v with
  | VSeq vs | VTuple vs => flat_map atts vs
  | VSome x | VEnum _ x => atts x
  | VSender e => [AChan true e]
  | VReceiver e => [AChan false e]
  | _ => []
  end.

Fixpoint regions_of (v : val) : list nat :=
  match v with
  | VSeq vs | VTuple vs => flat_map regions_of vs
  | VSome x | VEnum _ x => regions_of x
  | VRegion (Some r) => [r]
  | _ => []
  end.

Fixpoint endpoints (v : val) : list nat :=
  match v with
  | VSeq vs | VTuple vs => flat_map endpoints vs
  | VSome x | VEnum _ x => endpoints x
  | VSender e | VReceiver e => [e]
  | _ => []
  end.

Definition chan_id (a : att) : nat := match a with AChan _ e => e end.

(* fuel needed by dec: nesting depth, and every sequence length must be below the fuel left at its level *)
Fixpoint need (v : val) : nat :=
  match v with
  | VSeq vs => S (Nat.max (length vs) (list_max (map need vs)))
  | VTuple vs => S (list_max (map need vs))
  | VSome x | VEnum _ x => S (need x)
  | _ => 1%nat
  end.

Fixpoint depth (v : val) : nat :=
  match v with
  | VSeq vs | VTuple vs => S (list_max (map depth vs))
  | VSome x | VEnum _ x => S (depth x)
  | _ => 1%nat
  end.

(* longest sequence anywhere in the value *)
Fixpoint maxseq (v : val) : nat :=
  match v with
  | VSeq vs => Nat.max (length vs) (list_max (map maxseq vs))
  | VTuple vs => list_max (map maxseq vs)
  | VSome x | VEnum _ x => maxseq x
  | _ => 0%nat
  end.

Lemma list_max_cons : forall a l, list_max (a :: l) = Nat.max a (list_max l).
Proof. reflexivity. Qed.

Lemma list_max_map_sum : forall (f g h : val -> nat) vs,
  Forall (fun x => f x <= g x + h x)%nat vs ->
  (list_max (map f vs) <= list_max (map g vs) + list_max (map h vs))%nat.
Proof.
  induction 1; cbn [map]; rewrite ?list_max_cons.
  - cbn. lia.
  - lia.
Qed.

Lemma need_le_depth_maxseq : forall v, (need v <= depth v + maxseq v)%nat.
Proof.
  induction v using val_ind'; cbn [need depth maxseq]; try lia.
  - apply list_max_map_sum in H. lia.
  - apply list_max_map_sum in H. lia.
Qed.

Lemma need_list_le : forall vs f, (list_max (map need vs) <= f)%nat -> Forall (fun v => need v <= f)%nat vs.
Proof.
  induction vs; intros f H; constructor; cbn [map] in H; rewrite list_max_cons in H.
  - lia.
  - apply IHvs. lia.
Qed.

Lemma need_pos : forall v, (1 <= need v)%nat.
Proof. destruct v; cbn [need]; lia. Qed.

Lemma endpoints_atts : forall v, endpoints v = map chan_id (atts v).
Proof.
  induction v using val_ind'; cbn [endpoints atts map chan_id]; auto.
  - induction H; cbn [flat_map map]; auto. rewrite map_app. congruence.
  - induction H; cbn [flat_map map]; auto. rewrite map_app. congruence.
Qed.

(* ------------------------------------------------------------------ *)
(* top-level names for the local fixpoints of enc / dec                *)
(* ------------------------------------------------------------------ *)

Fixpoint enc_list (vs : list val) (st : enc_state) : list byte * enc_state :=
  match vs with
  | [] => ([], st)
  | x :: r => let (b1, s1) := enc x st in let (b2, s2) := enc_list r s1 in (b1 ++ b2, s2)
  end.

Lemma enc_seq_eq : forall vs st,
  enc (VSeq vs) st = (le_bytes 8 (Z.of_nat (length vs)) ++ fst (enc_list vs st), snd (enc_list vs st)).
Proof.
  intros. change (enc (VSeq vs) st) with (let (body, st') := enc_list vs st in (le_bytes 8 (Z.of_nat (length vs)) ++ body, st')).
  destruct (enc_list vs st); reflexivity.
Qed.

Lemma enc_tuple_eq : forall vs st, enc (VTuple vs) st = enc_list vs st.
Proof. reflexivity. Qed.

Lemma enc_some_eq : forall x st, enc (VSome x) st = (1 :: fst (enc x st), snd (enc x st)).
Proof. intros. cbn [enc]. destruct (enc x st); reflexivity. Qed.

Lemma enc_enum_eq : forall i x st, enc (VEnum i x) st = (le_bytes 4 (Z.of_nat i) ++ fst (enc x st), snd (enc x st)).
Proof. intros. cbn [enc]. destruct (enc x st); reflexivity. Qed.

Lemma enc_list_cons : forall x r st,
  enc_list (x :: r) st = (fst (enc x st) ++ fst (enc_list r (snd (enc x st))), snd (enc_list r (snd (enc x st)))).
Proof.
  intros. cbn [enc_list]. destruct (enc x st) as [b1 s1]. cbn [fst snd].
  destruct (enc_list r s1); reflexivity.
Qed.

Section DecLists.
  Variable f : nat.
  Section Seq.
    Variable t : ty.
    Fixpoint dec_seq (k : nat) (bs : list byte) (st : dec_state) (acc : list val)
      : dres (val * list byte * dec_state) :=
      match k with
      | O => DOk (VSeq (rev acc), bs, st)
      | S k' => match dec f t bs st with DOk (v, bs', st') => dec_seq k' bs' st' (v :: acc) | DErr => DErr end
      end.
  End Seq.
  Fixpoint dec_tuple (ts : list ty) (bs : list byte) (st : dec_state) (acc : list val)
    : dres (val * list byte * dec_state) :=
    match ts with
    | [] => DOk (VTuple (rev acc), bs, st)
    | t' :: r => match dec f t' bs st with DOk (v, bs', st') => dec_tuple r bs' st' (v :: acc) | DErr => DErr end
    end.
End DecLists.

Lemma dec_seq_eq : forall f t bs st,
  dec (S f) (TSeq t) bs st =
  match take 8 bs with
  | Some (h, r) => if Z.of_nat f <? le_value h then DErr else dec_seq f t (Z.to_nat (le_value h)) r st []
  | None => DErr
  end.
Proof. reflexivity. Qed.

Lemma dec_tuple_eq : forall f ts bs st, dec (S f) (TTuple ts) bs st = dec_tuple f ts bs st [].
Proof. reflexivity. Qed.

Lemma dec_option_eq : forall f t bs st,
  dec (S f) (TOption t) bs st =
  match bs with
  | 0 :: r => DOk (VNone, r, st)
  | 1 :: r => match dec f t r st with DOk (v, r', st') => DOk (VSome v, r', st') | DErr => DErr end
  | _ => DErr
  end.
Proof. reflexivity. Qed.

Lemma dec_enum_eq : forall f vars bs st,
  dec (S f) (TEnum vars) bs st =
  match take 4 bs with
  | Some (h, r) =>
      if Z.of_nat (length vars) <=? le_value h then DErr else
      match nth_error vars (Z.to_nat (le_value h)) with
      | Some t' => match dec f t' r st with DOk (v, r', st') => DOk (VEnum (Z.to_nat (le_value h)) v, r', st') | DErr => DErr end
      | None => DErr
      end
  | None => DErr
  end.
Proof. reflexivity. Qed.

(* ------------------------------------------------------------------ *)
(* what enc does to the side tables                                    *)
(* ------------------------------------------------------------------ *)

Definition enc_tables (v : val) : Prop := forall st,
  e_chans (snd (enc v st)) = e_chans st ++ atts v /\ e_regions (snd (enc v st)) = e_regions st ++ regions_of v.

Lemma enc_list_tables : forall vs, Forall enc_tables vs -> forall st,
  e_chans (snd (enc_list vs st)) = e_chans st ++ flat_map atts vs /\
  e_regions (snd (enc_list vs st)) = e_regions st ++ flat_map regions_of vs.
Proof.
  induction 1 as [|x r Hx Hr IH]; intros st.
  - cbn [enc_list snd flat_map]. now rewrite !app_nil_r.
  - rewrite enc_list_cons. cbn [snd flat_map].
    destruct (IH (snd (enc x st))) as [E1 E2]. destruct (Hx st) as [E3 E4].
    rewrite E1, E2, E3, E4, <- !app_assoc. auto.
Qed.

Lemma enc_tables_all : forall v, enc_tables v.
Proof.
  induction v using val_ind'; intros st;
    try (cbn [enc snd atts regions_of e_chans e_regions]; rewrite ?app_nil_r; auto; fail).
  - rewrite enc_seq_eq. cbn [snd atts regions_of]. now apply enc_list_tables.
  - rewrite enc_some_eq. cbn [snd atts regions_of]. apply IHv.
  - rewrite enc_tuple_eq. cbn [atts regions_of]. now apply enc_list_tables.
  - rewrite enc_enum_eq. cbn [snd atts regions_of]. apply IHv.
  - destruct r; cbn [enc snd atts regions_of e_chans e_regions]; rewrite ?app_nil_r; auto.
Qed.

Lemma enc_chans : forall v st, e_chans (snd (enc v st)) = e_chans st ++ atts v.
Proof. intros. apply enc_tables_all. Qed.
Lemma enc_regions : forall v st, e_regions (snd (enc v st)) = e_regions st ++ regions_of v.
Proof. intros. apply enc_tables_all. Qed.
Lemma enc_list_chans : forall vs st, e_chans (snd (enc_list vs st)) = e_chans st ++ flat_map atts vs.
Proof. intros. apply enc_list_tables. apply Forall_forall. intros; apply enc_tables_all. Qed.
Lemma enc_list_regions : forall vs st, e_regions (snd (enc_list vs st)) = e_regions st ++ flat_map regions_of vs.
Proof. intros. apply enc_list_tables. apply Forall_forall. intros; apply enc_tables_all. Qed.

(* ------------------------------------------------------------------ *)
(* 2. round trip                                                       *)
(* ------------------------------------------------------------------ *)

Definition cmap (cs : list att) : list (option nat) := map (fun a => match a with AChan _ e => Some e end) cs.
Definition nmap {A} (l : list A) : list (option nat) := map (fun _ => None) l.

Lemma cmap_app : forall a b, cmap (a ++ b) = cmap a ++ cmap b.
Proof. intros; apply map_app. Qed.
Lemma nmap_app : forall A (a b : list A), nmap (a ++ b) = nmap a ++ nmap b.
Proof. intros; apply map_app. Qed.
Lemma nmap_length : forall A (a : list A), length (nmap a) = length a.
Proof. intros; apply map_length. Qed.

Lemma take_nth_app : forall X (pc : list (option X)) x tc,
  take_nth (pc ++ Some x :: tc) (length pc) = Some (x, pc ++ None :: tc).
Proof.
  induction pc as [|h pc IH]; intros x tc.
  - reflexivity.
  - cbn [app length take_nth]. rewrite IH. destruct h; reflexivity.
Qed.

(* the round-trip statement for one value at one type *)
Definition rt (v : val) (t : ty) : Prop :=
  forall st fuel rest pc tc pr tr,
    Z.of_nat (length (e_chans st) + length (atts v)) < 2 ^ 64 ->
    Z.of_nat (length (e_regions st) + length (regions_of v)) < 2 ^ 64 ->
    (need v <= fuel)%nat ->
    length pc = length (e_chans st) -> length pr = length (e_regions st) ->
    dec fuel t (fst (enc v st) ++ rest)
        {| d_chans := pc ++ cmap (atts v) ++ tc; d_regions := pr ++ map Some (regions_of v) ++ tr |}
    = DOk (v, rest, {| d_chans := pc ++ nmap (atts v) ++ tc; d_regions := pr ++ nmap (regions_of v) ++ tr |}).

Lemma rt_step : forall x t f st rest' pc tc pr tr A R,
  rt x t -> (need x <= f)%nat ->
  Z.of_nat (length (e_chans st) + length (atts x ++ A)) < 2 ^ 64 ->
  Z.of_nat (length (e_regions st) + length (regions_of x ++ R)) < 2 ^ 64 ->
  length pc = length (e_chans st) -> length pr = length (e_regions st) ->
  dec f t (fst (enc x st) ++ rest')
      {| d_chans := pc ++ cmap (atts x ++ A) ++ tc; d_regions := pr ++ map Some (regions_of x ++ R) ++ tr |}
  = DOk (x, rest', {| d_chans := (pc ++ nmap (atts x)) ++ cmap A ++ tc;
                      d_regions := (pr ++ nmap (regions_of x)) ++ map Some R ++ tr |}).
Proof.
  intros x t f st rest' pc tc pr tr A R Hrt Hn Hc Hr Hpc Hpr.
  rewrite cmap_app, map_app, <- !app_assoc. rewrite app_length in Hc, Hr.
  apply Hrt; auto; lia.
Qed.

Lemma rt_seq_list : forall t f vs,
  Forall (fun v => rt v t) vs -> Forall (fun v => need v <= f)%nat vs ->
  forall st rest pc tc pr tr acc,
    Z.of_nat (length (e_chans st) + length (flat_map atts vs)) < 2 ^ 64 ->
    Z.of_nat (length (e_regions st) + length (flat_map regions_of vs)) < 2 ^ 64 ->
    length pc = length (e_chans st) -> length pr = length (e_regions st) ->
    dec_seq f t (length vs) (fst (enc_list vs st) ++ rest)
        {| d_chans := pc ++ cmap (flat_map atts vs) ++ tc; d_regions := pr ++ map Some (flat_map regions_of vs) ++ tr |} acc
    = DOk (VSeq (rev acc ++ vs), rest,
           {| d_chans := pc ++ nmap (flat_map atts vs) ++ tc; d_regions := pr ++ nmap (flat_map regions_of vs) ++ tr |}).
Proof.
  intros t f vs Hrt. induction Hrt as [|x r Hx Hr IH]; intros Hneed st rest pc tc pr tr acc Hc Hrg Hpc Hpr.
  - cbn [enc_list fst length dec_seq flat_map cmap nmap map app]. now rewrite app_nil_r.
  - inversion Hneed as [|? ? Hnx Hnr]; subst.
    rewrite enc_list_cons. cbn [fst length dec_seq flat_map] in *. rewrite <- app_assoc.
    rewrite (rt_step x t f st _ pc tc pr tr _ _ Hx Hnx Hc Hrg Hpc Hpr). red_match.
    rewrite app_length in Hc, Hrg.
    rewrite IH; auto.
    + cbn [rev]. rewrite !nmap_app, <- !app_assoc. reflexivity.
    + rewrite enc_chans, app_length. lia.
    + rewrite enc_regions, app_length. lia.
    + rewrite enc_chans, !app_length, nmap_length. lia.
    + rewrite enc_regions, !app_length, nmap_length. lia.
Qed.

Lemma rt_tuple_list : forall f vs ts,
  Forall2 rt vs ts -> Forall (fun v => need v <= f)%nat vs ->
  forall st rest pc tc pr tr acc,
    Z.of_nat (length (e_chans st) + length (flat_map atts vs)) < 2 ^ 64 ->
    Z.of_nat (length (e_regions st) + length (flat_map regions_of vs)) < 2 ^ 64 ->
    length pc = length (e_chans st) -> length pr = length (e_regions st) ->
    dec_tuple f ts (fst (enc_list vs st) ++ rest)
        {| d_chans := pc ++ cmap (flat_map atts vs) ++ tc; d_regions := pr ++ map Some (flat_map regions_of vs) ++ tr |} acc
    = DOk (VTuple (rev acc ++ vs), rest,
           {| d_chans := pc ++ nmap (flat_map atts vs) ++ tc; d_regions := pr ++ nmap (flat_map regions_of vs) ++ tr |}).
Proof.
  intros f vs ts Hrt. induction Hrt as [|x t r ts Hx Hr IH]; intros Hneed st rest pc tc pr tr acc Hc Hrg Hpc Hpr.
  - cbn [enc_list fst dec_tuple flat_map cmap nmap map app]. now rewrite app_nil_r.
  - inversion Hneed as [|? ? Hnx Hnr]; subst.
    rewrite enc_list_cons. cbn [fst dec_tuple flat_map] in *. rewrite <- app_assoc.
    rewrite (rt_step x t f st _ pc tc pr tr _ _ Hx Hnx Hc Hrg Hpc Hpr). red_match.
    rewrite app_length in Hc, Hrg.
    rewrite IH; auto.
    + cbn [rev]. rewrite !nmap_app, <- !app_assoc. reflexivity.
    + rewrite enc_chans, app_length. lia.
    + rewrite enc_regions, app_length. lia.
    + rewrite enc_chans, !app_length, nmap_length. lia.
    + rewrite enc_regions, !app_length, nmap_length. lia.
Qed.

Lemma Forall_rt_seq : forall vs t,
  Forall (fun v => forall t', has_type v t' -> rt v t') vs -> Forall (fun v => has_type v t) vs ->
  Forall (fun v => rt v t) vs.
Proof. induction 1; intros HT; inversion HT; subst; constructor; auto. Qed.

Lemma Forall_rt_tuple : forall vs ts,
  Forall (fun v => forall t', has_type v t' -> rt v t') vs -> Forall2 has_type vs ts -> Forall2 rt vs ts.
Proof. intros vs ts H HT; revert H. induction HT; intros HF; inversion HF; subst; constructor; auto. Qed.

Ltac rt_start :=
  let st := fresh "st" in let fuel := fresh "fuel" in
  intros st fuel rest pc tc pr tr Hc Hr Hf Hpc Hpr;
  destruct fuel as [|f]; [cbn [need] in Hf; lia|].

Lemma rt_all : forall v t, has_type v t -> rt v t.
Proof.
  induction v using val_ind'; intros t HT; inversion HT; subst; clear HT; unfold rt.
  - (* unit *) rt_start. reflexivity.
  - (* bool *) rt_start. destruct b; reflexivity.
  - (* u8 *) rt_start. cbn [enc fst atts regions_of cmap nmap map app dec]. rewrite Z.mod_small by lia. reflexivity.
  - (* u32 *) rt_start. cbn [enc fst atts regions_of cmap nmap map app dec].
    rewrite take_le_bytes, le_value_le_bytes4 by assumption. reflexivity.
  - (* u64 *) rt_start. cbn [enc fst atts regions_of cmap nmap map app dec].
    rewrite take_le_bytes, le_value_le_bytes8 by assumption. reflexivity.
  - (* i64 *) rt_start. cbn [enc fst atts regions_of cmap nmap map app dec].
    rewrite take_le_bytes. red_match. rewrite le_value_le_bytes8 by (apply Z.mod_pos_bound; lia).
    replace (if n mod 2 ^ 64 <? 2 ^ 63 then n mod 2 ^ 64 else n mod 2 ^ 64 - 2 ^ 64) with n; [reflexivity|].
    destruct (Z.ltb_spec (n mod 2 ^ 64) (2 ^ 63)); zlia.
  - (* f64 *) rt_start. cbn [enc fst atts regions_of cmap nmap map app dec].
    rewrite take_le_bytes, le_value_le_bytes8 by assumption. reflexivity.
  - (* string *) rt_start. cbn [enc fst atts regions_of cmap nmap map app dec].
    rewrite <- app_assoc, take_le_bytes. red_match. rewrite le_value_le_bytes8 by lia.
    destruct (Z.ltb_spec (Z.of_nat (length (bs ++ rest))) (Z.of_nat (length bs))) as [Hlt|_].
    { rewrite app_length in Hlt. lia. }
    rewrite Nat2Z.id, take_app. red_match.
    match goal with H : utf8_ok _ _ = true |- _ => rewrite H end. reflexivity.
  - (* seq *) rt_start. rewrite enc_seq_eq. cbn [fst atts regions_of need] in *.
    rewrite <- app_assoc, dec_seq_eq, take_le_bytes. red_match. rewrite le_value_le_bytes8 by lia.
    destruct (Z.ltb_spec (Z.of_nat f) (Z.of_nat (length vs))) as [Hlt|_]; [lia|].
    rewrite Nat2Z.id.
    apply (rt_seq_list t0 f vs); auto.
    + apply Forall_rt_seq; auto.
    + apply need_list_le. lia.
  - (* none *) rt_start. reflexivity.
  - (* some *) rt_start. rewrite enc_some_eq. cbn [fst atts regions_of need app] in *.
    rewrite dec_option_eq. red_match.
    match goal with H : has_type v _ |- _ => rewrite (IHv _ H); auto; lia end.
  - (* tuple *) rt_start. rewrite enc_tuple_eq. cbn [atts regions_of need] in *.
    rewrite dec_tuple_eq.
    apply (rt_tuple_list f vs ts); auto.
    + apply Forall_rt_tuple; auto.
    + apply need_list_le. lia.
  - (* enum *) rt_start. rewrite enc_enum_eq. cbn [fst atts regions_of need] in *.
    rewrite <- app_assoc, dec_enum_eq, take_le_bytes. red_match. rewrite le_value_le_bytes4 by lia.
    destruct (Z.leb_spec (Z.of_nat (length vars)) (Z.of_nat i)) as [Hle|_].
    { assert (Hi : (i < length vars)%nat) by (apply nth_error_Some; congruence). lia. }
    rewrite Nat2Z.id.
    match goal with H : nth_error _ _ = Some _ |- _ => rewrite H end.
    match goal with H : has_type v _ |- _ => rewrite (IHv _ H); auto; lia end.
  - (* sender *) rt_start. cbn [enc fst atts regions_of cmap nmap map app dec length] in *.
    rewrite dec_index_le_bytes by lia. red_match. cbn [d_chans d_regions].
    destruct (Z.leb_spec (Z.of_nat (length (pc ++ Some e :: tc))) (Z.of_nat (length (e_chans st)))) as [Hle|_].
    { rewrite app_length in Hle. cbn [length] in Hle. lia. }
    rewrite Nat2Z.id, <- Hpc, take_nth_app. reflexivity.
  - (* receiver *) rt_start. cbn [enc fst atts regions_of cmap nmap map app dec length] in *.
    rewrite dec_index_le_bytes by lia. red_match. cbn [d_chans d_regions].
    destruct (Z.leb_spec (Z.of_nat (length (pc ++ Some e :: tc))) (Z.of_nat (length (e_chans st)))) as [Hle|_].
    { rewrite app_length in Hle. cbn [length] in Hle. lia. }
    rewrite Nat2Z.id, <- Hpc, take_nth_app. reflexivity.
  - (* region *) rt_start. destruct r as [r|]; cbn [enc fst atts regions_of cmap nmap map app dec length] in *.
    + rewrite dec_index_le_bytes by lia. red_match. cbn [d_chans d_regions].
      destruct (Z.eqb_spec (Z.of_nat (length (e_regions st))) usize_max) as [He|_].
      { unfold usize_max in He. lia. }
      destruct (Z.leb_spec (Z.of_nat (length (pr ++ Some r :: tr))) (Z.of_nat (length (e_regions st)))) as [Hle|_].
      { rewrite app_length in Hle. cbn [length] in Hle. lia. }
      rewrite Nat2Z.id, <- Hpr, take_nth_app. reflexivity.
    + rewrite dec_index_le_bytes by (unfold usize_max; lia). red_match.
      rewrite Z.eqb_refl. reflexivity.
Qed.

(* Theorem 2.  Fuel bound: need v <= fuel. *)
Theorem dec_enc : forall v t, has_type v t ->
  forall st bs st', enc v st = (bs, st') ->
  Z.of_nat (length (e_chans st')) < 2 ^ 64 -> Z.of_nat (length (e_regions st')) < 2 ^ 64 ->
  exists cs rs,
    e_chans st' = e_chans st ++ cs /\ e_regions st' = e_regions st ++ rs /\
    forall fuel rest pc tc pr tr,
      (need v <= fuel)%nat ->
      length pc = length (e_chans st) -> length pr = length (e_regions st) ->
      dec fuel t (bs ++ rest)
          {| d_chans := pc ++ map (fun a => match a with AChan _ e => Some e end) cs ++ tc;
             d_regions := pr ++ map Some rs ++ tr |}
      = DOk (v, rest, {| d_chans := pc ++ map (fun _ => None) cs ++ tc;
                         d_regions := pr ++ map (fun _ => None) rs ++ tr |}).
Proof.
  intros v t HT st bs st' E Hc Hr.
  exists (atts v), (regions_of v).
  pose proof (enc_chans v st) as E1. pose proof (enc_regions v st) as E2.
  rewrite E in E1, E2. cbn [snd] in E1, E2.
  split; [exact E1|]. split; [exact E2|].
  intros fuel rest pc tc pr tr Hf Hpc Hpr.
  rewrite E1, app_length in Hc. rewrite E2, app_length in Hr.
  pose proof (rt_all v t HT st fuel rest pc tc pr tr Hc Hr Hf Hpc Hpr) as R.
  rewrite E in R. exact R.
Qed.

(* the attachments written by enc are exactly atts v / regions_of v (so cs, rs above are these) *)
Lemma enc_attachments : forall v st bs st', enc v st = (bs, st') ->
  e_chans st' = e_chans st ++ atts v /\ e_regions st' = e_regions st ++ regions_of v.
Proof.
  intros v st bs st' E. pose proof (enc_chans v st) as E1. pose proof (enc_regions v st) as E2.
  rewrite E in E1, E2. auto.
Qed.

(* ------------------------------------------------------------------ *)
(* 3. whole messages                                                   *)
(* ------------------------------------------------------------------ *)

(* decode_msg with an explicit fuel *)
Definition decode_msg_fuel (fuel : nat) (t : ty) (bs : list byte) (chans regions : list nat) : dres (val * dec_state) :=
  match dec fuel t bs {| d_chans := map Some chans; d_regions := map Some regions |} with
  | DOk (v, _, st) => DOk (v, st)
  | DErr => DErr
  end.

Lemma decode_msg_is_fuel : forall t bs chans regions,
  decode_msg t bs chans regions = decode_msg_fuel (S (length bs) + 64) t bs chans regions.
Proof. reflexivity. Qed.

Theorem decode_encode_msg_fuel : forall v t, has_type v t ->
  let '(bs, cs, rs) := encode_msg v in
  Z.of_nat (length cs) < 2 ^ 64 -> Z.of_nat (length rs) < 2 ^ 64 ->
  forall fuel, (need v <= fuel)%nat ->
  decode_msg_fuel fuel t bs (map (fun a => match a with AChan _ e => e end) cs) rs
  = DOk (v, {| d_chans := map (fun _ => None) cs; d_regions := map (fun _ => None) rs |}).
Proof.
  intros v t HT. unfold encode_msg. destruct (enc v enc_init) as [bs st'] eqn:E.
  intros Hc Hr fuel Hf.
  destruct (enc_attachments _ _ _ _ E) as [E1 E2]. cbn [enc_init e_chans e_regions app] in E1, E2.
  pose proof (rt_all v t HT enc_init fuel [] [] [] [] []) as R.
  rewrite E in R. cbn [fst enc_init e_chans e_regions app length Nat.add] in R.
  rewrite !app_nil_r in R. rewrite E1 in Hc. rewrite E2 in Hr.
  specialize (R Hc Hr Hf eq_refl eq_refl).
  unfold decode_msg_fuel. rewrite E1, E2.
  replace (map Some (map (fun a => match a with AChan _ e => e end) (atts v))) with (cmap (atts v)).
  2:{ unfold cmap. rewrite map_map. apply map_ext. intros []; reflexivity. }
  rewrite R. reflexivity.
Qed.

(* Theorem 3: with the built-in fuel of decode_msg, S (length bs) + 64.
   That fuel is NOT enough for every well-typed value (e.g. a sequence of 1000 units is 8 bytes long,
   a 100-deep tuple nest of unit is 0 bytes long), so the bound is a hypothesis. *)
Theorem decode_encode_msg : forall v t, has_type v t ->
  let '(bs, cs, rs) := encode_msg v in
  Z.of_nat (length cs) < 2 ^ 64 -> Z.of_nat (length rs) < 2 ^ 64 ->
  (need v <= S (length bs) + 64)%nat ->
  decode_msg t bs (map (fun a => match a with AChan _ e => e end) cs) rs
  = DOk (v, {| d_chans := map (fun _ => None) cs; d_regions := map (fun _ => None) rs |}).
Proof.
  intros v t HT. pose proof (decode_encode_msg_fuel v t HT) as H.
  destruct (encode_msg v) as [[bs cs] rs]. intros Hc Hr Hf.
  rewrite decode_msg_is_fuel. apply H; auto.
Qed.

(* the bound is really needed: 100 units in a sequence are well typed, encode to 8 bytes, and the
   built-in fuel 8 + 65 = 73 makes the element-count guard of TSeq reject them *)
Example decode_msg_fuel_too_small :
  let v := VSeq (repeat VUnit 100) in
  has_type v (TSeq TUnit) /\
  (let '(bs, cs, rs) := encode_msg v in
   decode_msg (TSeq TUnit) bs (map (fun a => match a with AChan _ e => e end) cs) rs = DErr).
Proof.
  split.
  - constructor.
    + repeat constructor.
    + rewrite repeat_length. lia.
  - vm_compute. reflexivity.
Qed.

(* a more readable sufficient condition: nesting depth at most 64 and no sequence longer than the message *)
Corollary decode_encode_msg_depth : forall v t, has_type v t ->
  let '(bs, cs, rs) := encode_msg v in
  Z.of_nat (length cs) < 2 ^ 64 -> Z.of_nat (length rs) < 2 ^ 64 ->
  (depth v <= 64)%nat -> (maxseq v <= S (length bs))%nat ->
  decode_msg t bs (map (fun a => match a with AChan _ e => e end) cs) rs
  = DOk (v, {| d_chans := map (fun _ => None) cs; d_regions := map (fun _ => None) rs |}).
Proof.
  intros v t HT. pose proof (decode_encode_msg v t HT) as H.
  destruct (encode_msg v) as [[bs cs] rs]. intros Hc Hr Hd Hm.
  apply H; auto. pose proof (need_le_depth_maxseq v). lia.
Qed.

(* ------------------------------------------------------------------ *)
(* 4. conservation: arbitrary bytes, arbitrary tables                  *)
(* ------------------------------------------------------------------ *)

Definition lo (l : list (option nat)) : list nat :=
  flat_map (fun o => match o with Some e => [e] | None => [] end) l.

Definition crel (es rs : list nat) (st st' : dec_state) : Prop :=
  Permutation (es ++ lo (d_chans st')) (lo (d_chans st)) /\
  Permutation (rs ++ lo (d_regions st')) (lo (d_regions st)) /\
  length (d_chans st') = length (d_chans st) /\
  length (d_regions st') = length (d_regions st).

Lemma crel_refl : forall st, crel [] [] st st.
Proof. intros; unfold crel; cbn [app]; auto. Qed.

Lemma crel_trans : forall e1 r1 e2 r2 st st1 st2,
  crel e1 r1 st st1 -> crel e2 r2 st1 st2 -> crel (e1 ++ e2) (r1 ++ r2) st st2.
Proof.
  unfold crel; intros e1 r1 e2 r2 st st1 st2 (A1 & A2 & A3 & A4) (B1 & B2 & B3 & B4).
  repeat split; try congruence.
  - rewrite <- app_assoc. etransitivity; [|exact A1]. now apply Permutation_app_head.
  - rewrite <- app_assoc. etransitivity; [|exact A2]. now apply Permutation_app_head.
Qed.

Lemma take_nth_perm : forall (l : list (option nat)) i x l',
  take_nth l i = Some (x, l') -> Permutation (x :: lo l') (lo l) /\ length l' = length l.
Proof.
  induction l as [|h t IH]; intros i x l' H.
  - destruct i; discriminate.
  - destruct i as [|j].
    + destruct h as [y|]; cbn [take_nth] in H; [|discriminate].
      injection H as <- <-. cbn. auto.
    + assert (H' : match take_nth t j with Some (x, t') => Some (x, h :: t') | None => None end = Some (x, l')).
      { destruct h; exact H. }
      destruct (take_nth t j) as [[x' t']|] eqn:E; [|discriminate].
      injection H' as <- <-. destruct (IH _ _ _ E) as [P L].
      split; [|cbn [length]; congruence].
      unfold lo in *. cbn [flat_map].
      etransitivity; [apply Permutation_middle|]. now apply Permutation_app_head.
Qed.

Ltac destr_dec H :=
  cbv zeta in H;
  repeat match type of H with
         | match ?x with _ => _ end = DOk _ => destruct x eqn:?; try discriminate H
         end.

Section Conserve.
  Variable f : nat.
  Hypothesis IH : forall t bs st v rest st', dec f t bs st = DOk (v, rest, st') ->
                  crel (endpoints v) (regions_of v) st st'.

  Lemma dec_seq_crel : forall t k bs st acc v rest st',
    dec_seq f t k bs st acc = DOk (v, rest, st') ->
    exists vs, v = VSeq (rev acc ++ vs) /\ crel (flat_map endpoints vs) (flat_map regions_of vs) st st'.
  Proof.
    induction k as [|k IHk]; intros bs st acc v rest st' H; cbn [dec_seq] in H.
    - injection H as <- <- <-. exists []. rewrite app_nil_r. split; auto. apply crel_refl.
    - destruct (dec f t bs st) as [[[x bs1] st1]|] eqn:E; [|discriminate].
      apply IH in E. apply IHk in H as [vs [-> C]].
      exists (x :: vs). cbn [rev flat_map]. rewrite <- app_assoc. split; [reflexivity|].
      eapply crel_trans; eauto.
  Qed.

  Lemma dec_tuple_crel : forall ts bs st acc v rest st',
    dec_tuple f ts bs st acc = DOk (v, rest, st') ->
    exists vs, v = VTuple (rev acc ++ vs) /\ crel (flat_map endpoints vs) (flat_map regions_of vs) st st'.
  Proof.
    induction ts as [|t ts IHk]; intros bs st acc v rest st' H; cbn [dec_tuple] in H.
    - injection H as <- <- <-. exists []. rewrite app_nil_r. split; auto. apply crel_refl.
    - destruct (dec f t bs st) as [[[x bs1] st1]|] eqn:E; [|discriminate].
      apply IH in E. apply IHk in H as [vs [-> C]].
      exists (x :: vs). cbn [rev flat_map]. rewrite <- app_assoc. split; [reflexivity|].
      eapply crel_trans; eauto.
  Qed.
End Conserve.

Lemma crel_take_chan : forall st i e cs,
  take_nth (d_chans st) i = Some (e, cs) ->
  crel [e] [] st {| d_chans := cs; d_regions := d_regions st |}.
Proof.
  intros st i e cs H. apply take_nth_perm in H as [P L].
  unfold crel; cbn [d_chans d_regions app]. auto.
Qed.

Lemma crel_take_region : forall st i g rs,
  take_nth (d_regions st) i = Some (g, rs) ->
  crel [] [g] st {| d_chans := d_chans st; d_regions := rs |}.
Proof.
  intros st i g rs H. apply take_nth_perm in H as [P L].
  unfold crel; cbn [d_chans d_regions app]. auto.
Qed.

Lemma dec_crel : forall fuel t bs st v rest st',
  dec fuel t bs st = DOk (v, rest, st') -> crel (endpoints v) (regions_of v) st st'.
Proof.
  induction fuel as [|f IH]; intros t bs st v rest st' H; [discriminate|].
  destruct t.
  - (* unit *) cbn [dec] in H. injection H as <- <- <-. apply crel_refl.
  - (* bool *) cbn [dec] in H. destr_dec H; injection H as <- <- <-; apply crel_refl.
  - (* u8 *) cbn [dec] in H. destr_dec H; injection H as <- <- <-; apply crel_refl.
  - cbn [dec] in H. destr_dec H; injection H as <- <- <-; apply crel_refl.
  - cbn [dec] in H. destr_dec H; injection H as <- <- <-; apply crel_refl.
  - cbn [dec] in H. destr_dec H; injection H as <- <- <-; apply crel_refl.
  - cbn [dec] in H. destr_dec H; injection H as <- <- <-; apply crel_refl.
  - (* string *) cbn [dec] in H. destr_dec H; injection H as <- <- <-; apply crel_refl.
  - (* seq *) rewrite dec_seq_eq in H. destr_dec H.
    apply (dec_seq_crel f IH) in H as [vs [-> C]]. exact C.
  - (* option *) rewrite dec_option_eq in H. destr_dec H; injection H as <- <- <-.
    + apply crel_refl.
    + match goal with E : dec f _ _ _ = DOk _ |- _ => apply IH in E; exact E end.
  - (* tuple *) rewrite dec_tuple_eq in H.
    apply (dec_tuple_crel f IH) in H as [vs [-> C]]. exact C.
  - (* enum *) rewrite dec_enum_eq in H. destr_dec H; injection H as <- <- <-.
    match goal with E : dec f _ _ _ = DOk _ |- _ => apply IH in E; exact E end.
  - (* sender *) cbn [dec] in H. destr_dec H; injection H as <- <- <-.
    eapply crel_take_chan; eauto.
  - (* receiver *) cbn [dec] in H. destr_dec H; injection H as <- <- <-.
    eapply crel_take_chan; eauto.
  - (* region *) cbn [dec] in H. destr_dec H; injection H as <- <- <-.
    + apply crel_refl.
    + eapply crel_take_region; eauto.
Qed.

Theorem dec_conserves : forall fuel t bs st v rest st',
  dec fuel t bs st = DOk (v, rest, st') ->
  Permutation (endpoints v ++ fst (leftovers st')) (fst (leftovers st)) /\
  Permutation (regions_of v ++ snd (leftovers st')) (snd (leftovers st)) /\
  length (d_chans st') = length (d_chans st) /\
  length (d_regions st') = length (d_regions st).
Proof. intros fuel t bs st v rest st' H. apply dec_crel in H. exact H. Qed.

(* ------------------------------------------------------------------ *)
(* 5. totality, consumed prefix                                        *)
(* ------------------------------------------------------------------ *)

Theorem dec_total : forall fuel t bs st, (exists r, dec fuel t bs st = DOk r) \/ dec fuel t bs st = DErr.
Proof. intros. destruct (dec fuel t bs st) as [r|]; eauto. Qed.

Definition suffix (bs rest : list byte) : Prop := exists used, bs = used ++ rest.

Lemma suffix_refl : forall bs, suffix bs bs.
Proof. intros; exists []; reflexivity. Qed.
Lemma suffix_trans : forall a b c, suffix a b -> suffix b c -> suffix a c.
Proof. intros a b c [u ->] [w ->]. exists (u ++ w). now rewrite app_assoc. Qed.
Lemma suffix_cons : forall x a b, suffix a b -> suffix (x :: a) b.
Proof. intros x a b [u ->]. exists (x :: u); reflexivity. Qed.
Lemma suffix_take : forall n bs h r rest, take n bs = Some (h, r) -> suffix r rest -> suffix bs rest.
Proof. intros n bs h r rest H [u ->]. apply take_split in H as ->. exists (h ++ u). now rewrite app_assoc. Qed.

Lemma suffix_dec_index : forall bs i r, dec_index bs = Some (i, r) -> suffix bs r.
Proof.
  unfold dec_index; intros bs i r H. destruct (take 8 bs) as [[h r']|] eqn:E; [|discriminate].
  injection H as _ <-. apply take_split in E as ->. exists h; reflexivity.
Qed.

Section Suffix.
  Variable f : nat.
  Hypothesis IH : forall t bs st v rest st', dec f t bs st = DOk (v, rest, st') -> suffix bs rest.

  Lemma dec_seq_suffix : forall t k bs st acc v rest st',
    dec_seq f t k bs st acc = DOk (v, rest, st') -> suffix bs rest.
  Proof.
    induction k as [|k IHk]; intros bs st acc v rest st' H; cbn [dec_seq] in H.
    - injection H as <- <- <-. apply suffix_refl.
    - destruct (dec f t bs st) as [[[x bs1] st1]|] eqn:E; [|discriminate].
      apply IH in E. apply IHk in H. eapply suffix_trans; eauto.
  Qed.

  Lemma dec_tuple_suffix : forall ts bs st acc v rest st',
    dec_tuple f ts bs st acc = DOk (v, rest, st') -> suffix bs rest.
  Proof.
    induction ts as [|t ts IHk]; intros bs st acc v rest st' H; cbn [dec_tuple] in H.
    - injection H as <- <- <-. apply suffix_refl.
    - destruct (dec f t bs st) as [[[x bs1] st1]|] eqn:E; [|discriminate].
      apply IH in E. apply IHk in H. eapply suffix_trans; eauto.
  Qed.
End Suffix.

Ltac suffix_solve IH :=
  repeat match goal with
         | E : dec _ _ _ _ = DOk _ |- _ => apply IH in E
         | E : dec_index _ = Some _ |- _ => apply suffix_dec_index in E
         end;
  repeat first [ apply suffix_refl | assumption | apply suffix_cons
               | match goal with E : take _ ?b = Some _ |- suffix ?b _ => eapply (suffix_take _ _ _ _ _ E) end ].

Theorem dec_suffix : forall fuel t bs st v rest st',
  dec fuel t bs st = DOk (v, rest, st') -> exists used, bs = used ++ rest.
Proof.
  change (forall fuel t bs st v rest st', dec fuel t bs st = DOk (v, rest, st') -> suffix bs rest).
  induction fuel as [|f IH]; intros t bs st v rest st' H; [discriminate|].
  destruct t.
  - cbn [dec] in H. injection H as <- <- <-. apply suffix_refl.
  - cbn [dec] in H. destr_dec H; injection H as <- <- <-; suffix_solve IH.
  - cbn [dec] in H. destr_dec H; injection H as <- <- <-; suffix_solve IH.
  - cbn [dec] in H. destr_dec H; injection H as <- <- <-; suffix_solve IH.
  - cbn [dec] in H. destr_dec H; injection H as <- <- <-; suffix_solve IH.
  - cbn [dec] in H. destr_dec H; injection H as <- <- <-; suffix_solve IH.
  - cbn [dec] in H. destr_dec H; injection H as <- <- <-; suffix_solve IH.
  - cbn [dec] in H. destr_dec H; injection H as <- <- <-; suffix_solve IH.
  - rewrite dec_seq_eq in H. destr_dec H. apply (dec_seq_suffix f IH) in H. suffix_solve IH.
  - rewrite dec_option_eq in H. destr_dec H; injection H as <- <- <-; suffix_solve IH.
  - rewrite dec_tuple_eq in H. apply (dec_tuple_suffix f IH) in H. exact H.
  - rewrite dec_enum_eq in H. destr_dec H; injection H as <- <- <-; suffix_solve IH.
  - cbn [dec] in H. destr_dec H; injection H as <- <- <-; suffix_solve IH.
  - cbn [dec] in H. destr_dec H; injection H as <- <- <-; suffix_solve IH.
  - cbn [dec] in H. destr_dec H; injection H as <- <- <-; suffix_solve IH.
Qed.

(* message-level reading of conservation: whatever bytes arrive, the endpoints / regions in the decoded
   value together with what is left in the message are exactly the attachments that arrived *)
Lemma lo_map_Some : forall l, lo (map Some l) = l.
Proof. unfold lo. induction l; cbn [map flat_map app]; congruence. Qed.

Corollary decode_msg_conserves : forall t bs chans regions v st',
  decode_msg t bs chans regions = DOk (v, st') ->
  Permutation (endpoints v ++ fst (leftovers st')) chans /\
  Permutation (regions_of v ++ snd (leftovers st')) regions.
Proof.
  unfold decode_msg. intros t bs chans regions v st' H.
  destruct (dec _ t bs _) as [[[v0 r0] st0]|] eqn:E; [|discriminate].
  injection H as <- <-. apply dec_conserves in E as (P1 & P2 & _ & _).
  unfold leftovers in *. cbn [fst snd d_chans d_regions] in *.
  fold (lo (map Some chans)) in P1. fold (lo (map Some regions)) in P2.
  rewrite lo_map_Some in P1, P2. auto.
Qed.

Print Assumptions le_value_le_bytes.
Print Assumptions dec_enc.
Print Assumptions decode_encode_msg.
Print Assumptions decode_encode_msg_fuel.
Print Assumptions decode_encode_msg_depth.
Print Assumptions dec_conserves.
Print Assumptions decode_msg_conserves.
Print Assumptions dec_total.
Print Assumptions dec_suffix.
