(* RSetProofs: the receiver set over an edge-triggered epoll ready list, for every interleaving.
   Global invariant InvP (on the components of the state), preserved label by label; then the theorems:
   no_lost_wakeup, select_does_not_block, recv_knows_its_member, ids_distinct, events_fifo,
   closed_once_last, eintr_is_noop.  No axioms. *)
From Coq Require Import List Arith Bool Lia.
Import ListNotations.
From IPC Require Import RSet.

(* ------------------------------------------------------------------------- *)
(* component view of the state                                               *)

Definition dflt : chanst := {| queue := []; hup := false; sent := [] |}.
Definition getc (ch : list chanst) (c : cid) : chanst := nth c ch dflt.
Definition pendc (ch : list chanst) (c : cid) : bool :=
  match queue (getc ch c) with [] => hup (getc ch c) | _ => true end.
Definition batch_of (s : st) : list mid := match where_ s with Draining b _ => b | _ => [] end.
Definition hist (s : st) : list event := log s ++ acc_of s.
Definition ev_id (e : event) : mid := match e with EvMsg m _ | EvClosed m => m end.
Definition fid (m : mid) (e : event) : bool := match e with EvMsg m' _ | EvClosed m' => Nat.eqb m' m end.
Definition msgs_of (es : list event) : list nat :=
  flat_map (fun e => match e with EvMsg _ x => [x] | EvClosed _ => [] end) es.
Definition closed_last (es : list event) (m : mid) : Prop :=
  exists pre, es = pre ++ [EvClosed m] /\ ~ In (EvClosed m) pre.
Definition edgeP (mb : list (mid * cid)) (rd : list mid) (c : cid) : list mid :=
  match member_of mb c with Some m => if mem m rd then rd else rd ++ [m] | None => rd end.

Lemma get_getc s c : get s c = getc (chans s) c. Proof. reflexivity. Qed.
Lemma pending_pendc s c : pending s c = pendc (chans s) c. Proof. reflexivity. Qed.
Lemma events_of_hist s m : events_of s m = filter (fid m) (hist s). Proof. reflexivity. Qed.
Lemma edge_edgeP s c : edge s c = edgeP (members s) (ready s) c. Proof. reflexivity. Qed.

(* ------------------------------------------------------------------------- *)
(* list facts                                                                *)

Lemma set_nth_length {X} (l : list X) i v : length (set_nth l i v) = length l.
Proof. revert i; induction l as [|a l IH]; intros [|i]; cbn; auto. Qed.

Lemma nth_set_same {X} (l : list X) i v d : i < length l -> nth i (set_nth l i v) d = v.
Proof.
  revert i; induction l as [|a l IH]; intros [|i] H; cbn in *; try lia; auto.
  apply IH; lia.
Qed.

Lemma nth_set_other {X} (l : list X) i j v d : i <> j -> nth j (set_nth l i v) d = nth j l d.
Proof.
  revert i j; induction l as [|a l IH]; intros [|i] [|j] H; cbn; auto; try congruence.
Qed.

Lemma nth_snoc_dflt {X} (l : list X) d c : nth c (l ++ [d]) d = nth c l d.
Proof.
  revert c; induction l as [|a l IH]; intros c.
  - destruct c as [|[|c]]; reflexivity.
  - destruct c as [|c]; cbn; auto.
Qed.

Lemma lookup_In l m c : lookup l m = Some c -> In (m, c) l.
Proof.
  induction l as [|[x c'] t IH]; cbn; intros H; try discriminate.
  destruct (Nat.eqb x m) eqn:E.
  - apply Nat.eqb_eq in E. inversion H; subst; auto.
  - auto.
Qed.

Lemma In_lookup l m c : In (m, c) l -> exists c', lookup l m = Some c'.
Proof.
  induction l as [|[x c'] t IH]; cbn; intros H; [tauto|].
  destruct (Nat.eqb x m) eqn:E; eauto.
  destruct H as [H|H]; auto.
  inversion H; subst. rewrite Nat.eqb_refl in E; discriminate.
Qed.

Lemma member_of_In l m c : member_of l c = Some m -> In (m, c) l.
Proof.
  induction l as [|[x c'] t IH]; cbn; intros H; try discriminate.
  destruct (Nat.eqb c' c) eqn:E.
  - apply Nat.eqb_eq in E. inversion H; subst; auto.
  - auto.
Qed.

Lemma In_member_of l m c : In (m, c) l -> exists m', member_of l c = Some m'.
Proof.
  induction l as [|[x c'] t IH]; cbn; intros H; [tauto|].
  destruct (Nat.eqb c' c) eqn:E; eauto.
  destruct H as [H|H]; auto.
  inversion H; subst. rewrite Nat.eqb_refl in E; discriminate.
Qed.

Lemma mem_In x l : mem x l = true <-> In x l.
Proof.
  unfold mem. rewrite existsb_exists. split.
  - intros [y [H E]]. apply Nat.eqb_eq in E; subst; auto.
  - intros H; exists x; split; auto. apply Nat.eqb_refl.
Qed.

Lemma mem_false x l : mem x l = false <-> ~ In x l.
Proof.
  rewrite <- mem_In. destruct (mem x l); split; intros; congruence.
Qed.

Lemma nodup_fst_uniq (l : list (mid * cid)) m c c' :
  NoDup (map fst l) -> In (m, c) l -> In (m, c') l -> c = c'.
Proof.
  induction l as [|[x y] t IH]; cbn; intros N H1 H2; [tauto|].
  inversion N as [|? ? NI N']; subst.
  destruct H1 as [H1|H1]; destruct H2 as [H2|H2].
  - congruence.
  - inversion H1; subst. exfalso; apply NI. change m with (fst (m, c')). apply in_map; auto.
  - inversion H2; subst. exfalso; apply NI. change m with (fst (m, c)). apply in_map; auto.
  - auto.
Qed.

Lemma nodup_snd_uniq (l : list (mid * cid)) m m' c :
  NoDup (map snd l) -> In (m, c) l -> In (m', c) l -> m = m'.
Proof.
  induction l as [|[x y] t IH]; cbn; intros N H1 H2; [tauto|].
  inversion N as [|? ? NI N']; subst.
  destruct H1 as [H1|H1]; destruct H2 as [H2|H2].
  - congruence.
  - inversion H1; subst. exfalso; apply NI. change c with (snd (m', c)). apply in_map; auto.
  - inversion H2; subst. exfalso; apply NI. change c with (snd (m, c)). apply in_map; auto.
  - auto.
Qed.

Lemma NoDup_snoc {X} (l : list X) x : NoDup l -> ~ In x l -> NoDup (l ++ [x]).
Proof.
  induction l as [|a l IH]; cbn; intros N H.
  - constructor; auto; constructor.
  - inversion N as [|? ? NI N']; subst. constructor.
    + rewrite in_app_iff; cbn. intros [?|[?|[]]]; subst; tauto.
    + apply IH; tauto.
Qed.

Lemma NoDup_app_l {X} (a b : list X) : NoDup (a ++ b) -> NoDup a.
Proof.
  induction a as [|x a IH]; cbn; intros N; [constructor|].
  inversion N as [|? ? NI N']; subst. constructor; auto.
  intros H; apply NI; apply in_app_iff; auto.
Qed.

Lemma NoDup_app_r {X} (a b : list X) : NoDup (a ++ b) -> NoDup b.
Proof.
  induction a as [|x a IH]; cbn; intros N; auto.
  inversion N; subst; auto.
Qed.

Lemma NoDup_firstn {X} n (l : list X) : NoDup l -> NoDup (firstn n l).
Proof. intros N. rewrite <- (firstn_skipn n l) in N. eapply NoDup_app_l; eauto. Qed.

Lemma NoDup_skipn {X} n (l : list X) : NoDup l -> NoDup (skipn n l).
Proof. intros N. rewrite <- (firstn_skipn n l) in N. eapply NoDup_app_r; eauto. Qed.

Lemma In_firstn_skipn {X} n (l : list X) x : In x l <-> In x (firstn n l) \/ In x (skipn n l).
Proof. rewrite <- in_app_iff, firstn_skipn. tauto. Qed.

Lemma NoDup_map_filter {X Y} (f : X -> Y) p (l : list X) :
  NoDup (map f l) -> NoDup (map f (filter p l)).
Proof.
  induction l as [|a l IH]; cbn; intros N; auto.
  inversion N as [|? ? NI N']; subst.
  destruct (p a); cbn; auto. constructor; auto.
  intros H; apply NI. apply in_map_iff in H. destruct H as [z [E Hz]].
  apply filter_In in Hz. apply in_map_iff; exists z; tauto.
Qed.

Lemma neqb_true x m : negb (Nat.eqb x m) = true <-> x <> m.
Proof. rewrite negb_true_iff. apply Nat.eqb_neq. Qed.

Lemma fid_id m e : fid m e = Nat.eqb (ev_id e) m.
Proof. destruct e; reflexivity. Qed.

Lemma filter_none m hs : (forall e, In e hs -> ev_id e <> m) -> filter (fid m) hs = [].
Proof.
  induction hs as [|e hs IH]; cbn; intros H; auto.
  rewrite fid_id. destruct (Nat.eqb_spec (ev_id e) m) as [E|E].
  - exfalso; eapply H; eauto.
  - apply IH; auto.
Qed.

Lemma filter_snoc m hs e :
  filter (fid m) (hs ++ [e]) =
  if Nat.eqb (ev_id e) m then filter (fid m) hs ++ [e] else filter (fid m) hs.
Proof.
  rewrite filter_app. cbn. rewrite fid_id.
  destruct (Nat.eqb (ev_id e) m); auto using app_nil_r.
Qed.

Lemma msgs_of_app a b : msgs_of (a ++ b) = msgs_of a ++ msgs_of b.
Proof. apply flat_map_app. Qed.

(* edge *)
Lemma edge_incl mb rd c m : In m rd -> In m (edgeP mb rd c).
Proof.
  unfold edgeP. destruct (member_of mb c) as [m'|]; auto.
  destruct (mem m' rd); auto. intros; apply in_app_iff; auto.
Qed.

Lemma edge_nd mb rd c : NoDup rd -> NoDup (edgeP mb rd c).
Proof.
  unfold edgeP. destruct (member_of mb c) as [m'|]; auto.
  destruct (mem m' rd) eqn:E; auto. intros; apply NoDup_snoc; auto. apply mem_false; auto.
Qed.

Lemma edge_mem mb rd c :
  (forall m, In m rd -> exists c', In (m, c') mb) ->
  forall m, In m (edgeP mb rd c) -> exists c', In (m, c') mb.
Proof.
  unfold edgeP. intros H m. destruct (member_of mb c) as [m'|] eqn:M; auto.
  destruct (mem m' rd); auto. intros Hi. apply in_app_iff in Hi.
  destruct Hi as [Hi|[Hi|[]]]; auto. subst. exists c. apply member_of_In; auto.
Qed.

Lemma edge_hit mb rd c m : NoDup (map snd mb) -> In (m, c) mb -> In m (edgeP mb rd c).
Proof.
  unfold edgeP. intros N Hi. destruct (In_member_of _ _ _ Hi) as [m' M]. rewrite M.
  assert (m' = m) by (apply (nodup_snd_uniq mb m' m c); auto using member_of_In). subst.
  destruct (mem m rd) eqn:E. apply mem_In; auto. apply in_app_iff; cbn; auto.
Qed.

(* ------------------------------------------------------------------------- *)
(* the invariant                                                             *)

Section WithTorn.
Variable tornp : nat -> bool.
Notation step := (RSet.step tornp).
Notation run := (RSet.run tornp).
Notation strip := (RSet.strip tornp).
Notation good := (RSet.good tornp).

Lemma good_app a b : good (a ++ b) = good a ++ good b.
Proof. apply filter_app. Qed.

Lemma good_strip l : good (strip l) = good l.
Proof.
  induction l as [|x r IH]; cbn; auto.
  destruct (tornp x) eqn:E; cbn; auto. rewrite E; reflexivity.
Qed.

Lemma strip_head l x r : strip l = x :: r -> tornp x = false.
Proof.
  induction l as [|y t IH]; cbn; intros H; try discriminate.
  destruct (tornp y) eqn:E; auto. inversion H; subst; auto.
Qed.

Lemma strip_nil_good l : strip l = [] -> good l = [].
Proof. intros H. rewrite <- good_strip, H. reflexivity. Qed.

Record InvP (ch : list chanst) (mb : list (mid * cid)) (rd : list mid) (nx : mid) (bt : list mid)
            (hs : list event) (ad : list cid) (ev : list (mid * cid)) : Prop := {
  P_sub : forall m c, In (m, c) mb -> In (m, c) ev;
  P_ndf : NoDup (map fst ev);
  P_nds : NoDup (map snd ev);
  P_mndf : NoDup (map fst mb);
  P_mnds : NoDup (map snd mb);
  P_add : forall c, In c ad <-> In c (map snd ev);
  P_nx : forall m c, In (m, c) ev -> m < nx;
  P_bd : forall m c, In (m, c) ev -> c < length ch;
  P_rnd : NoDup rd;
  P_rmem : forall m, In m rd -> exists c, In (m, c) mb;
  P_bnd : NoDup bt;
  P_bmem : forall m, In m bt -> exists c, In (m, c) mb;
  P_wake : forall m c, In (m, c) mb -> pendc ch c = true -> In m rd \/ In m bt;
  P_evid : forall e, In e hs -> ev_id e < nx;
  P_fifo : forall m c, In (m, c) ev ->
           msgs_of (filter (fid m) hs) ++ good (queue (getc ch c)) = good (sent (getc ch c));
  P_vis : forall m x, In (EvMsg m x) hs -> tornp x = false;
  P_unadd : forall c, ~ In c ad -> queue (getc ch c) = sent (getc ch c);
  P_live : forall m c, In (m, c) mb -> ~ In (EvClosed m) hs;
  P_dead : forall m c, In (m, c) ev -> ~ In (m, c) mb ->
           closed_last (filter (fid m) hs) m /\ queue (getc ch c) = [] /\ hup (getc ch c) = true
}.

Ltac dI H :=
  destruct H as [Hsub Hndf Hnds Hmndf Hmnds Hadd Hnx Hbd Hrnd Hrmem Hbnd Hbmem Hwake Hevid
                 Hfifo Hvis Hunadd Hlive Hdead].

Definition Inv (s : st) : Prop :=
  InvP (chans s) (members s) (ready s) (nextid s) (batch_of s) (hist s) (added s) (ever s).

(* LNewChan *)
Lemma getc_snoc ch c : getc (ch ++ [dflt]) c = getc ch c.
Proof. apply nth_snoc_dflt. Qed.

Lemma InvP_newchan ch mb rd nx bt hs ad ev :
  InvP ch mb rd nx bt hs ad ev -> InvP (ch ++ [dflt]) mb rd nx bt hs ad ev.
Proof.
  intros H. dI H. constructor; try assumption.
  - intros m c Hi. rewrite app_length; cbn. apply Hbd in Hi. lia.
  - intros m c Hi Hp. unfold pendc in Hp. rewrite getc_snoc in Hp. eauto.
  - intros m c Hi. rewrite getc_snoc. auto.
  - intros c Hn. rewrite getc_snoc. auto.
  - intros m c Hi Hn. rewrite getc_snoc. auto.
Qed.

(* LSend / LHup *)
Lemma InvP_chan ch mb rd nx bt hs ad ev c v k :
  InvP ch mb rd nx bt hs ad ev ->
  c < length ch -> hup (getc ch c) = false ->
  queue v = queue (getc ch c) ++ k -> sent v = sent (getc ch c) ++ k ->
  InvP (set_nth ch c v) mb (edgeP mb rd c) nx bt hs ad ev.
Proof.
  intros H Hc Hh Hq Hs. dI H.
  assert (Gs : getc (set_nth ch c v) c = v) by (apply nth_set_same; auto).
  assert (Go : forall c', c' <> c -> getc (set_nth ch c v) c' = getc ch c')
    by (intros; apply nth_set_other; auto).
  constructor; try assumption.
  - intros m c' Hi. rewrite set_nth_length. eauto.
  - apply edge_nd; auto.
  - apply edge_mem; auto.
  - intros m c' Hi Hp. destruct (Nat.eq_dec c' c) as [->|Hne].
    + left. apply edge_hit; auto.
    + unfold pendc in Hp. rewrite Go in Hp by auto.
      destruct (Hwake _ _ Hi Hp); auto. left; apply edge_incl; auto.
  - intros m c' Hi. destruct (Nat.eq_dec c' c) as [->|Hne].
    + rewrite Gs, Hq, Hs, !good_app, app_assoc. f_equal. auto.
    + rewrite Go by auto. auto.
  - intros c' Hn. destruct (Nat.eq_dec c' c) as [->|Hne].
    + rewrite Gs, Hq, Hs. f_equal; auto.
    + rewrite Go by auto. auto.
  - intros m c' Hi Hn. destruct (Hdead _ _ Hi Hn) as (A & B & C).
    assert (c' <> c) by (intro; subst; congruence).
    rewrite Go by auto. auto.
Qed.

(* LAdd *)
Lemma InvP_add ch mb rd nx hs ad ev c :
  InvP ch mb rd nx [] hs ad ev -> c < length ch -> ~ In c ad ->
  InvP ch (mb ++ [(nx, c)]) (if pendc ch c then rd ++ [nx] else rd) (S nx) [] hs (c :: ad)
       (ev ++ [(nx, c)]).
Proof.
  intros H Hc Hna. dI H.
  assert (Fm : forall c', ~ In (nx, c') ev) by (intros c' Hi; apply Hnx in Hi; lia).
  constructor.
  - intros m c' Hi. apply in_app_iff in Hi. apply in_app_iff. destruct Hi; auto.
  - rewrite map_app; cbn. apply NoDup_snoc; auto. intros Hi. apply in_map_iff in Hi.
    destruct Hi as [[a b] [E Hi]]; cbn in E; subst. eapply Fm; eauto.
  - rewrite map_app; cbn. apply NoDup_snoc; auto. intros Hi. apply Hna. apply Hadd; auto.
  - rewrite map_app; cbn. apply NoDup_snoc; auto. intros Hi. apply in_map_iff in Hi.
    destruct Hi as [[a b] [E Hi]]; cbn in E; subst. eapply Fm; eauto.
  - rewrite map_app; cbn. apply NoDup_snoc; auto. intros Hi. apply in_map_iff in Hi.
    destruct Hi as [[a b] [E Hi]]; cbn in E; subst. apply Hna, Hadd.
    apply in_map_iff. exists (a, c); split; auto.
  - intros c'. rewrite map_app, in_app_iff; cbn. rewrite <- (Hadd c'). tauto.
  - intros m c' Hi. apply in_app_iff in Hi. destruct Hi as [Hi|[Hi|[]]].
    + apply Hnx in Hi; lia.
    + inversion Hi; lia.
  - intros m c' Hi. apply in_app_iff in Hi. destruct Hi as [Hi|[Hi|[]]].
    + eauto.
    + inversion Hi; subst; auto.
  - destruct (pendc ch c); auto. apply NoDup_snoc; auto. intros Hi.
    destruct (Hrmem _ Hi) as [c' Hm]. eapply Fm; eauto.
  - intros m Hi. assert (In m rd \/ m = nx) as [Hi'| ->].
    { destruct (pendc ch c); auto. apply in_app_iff in Hi. destruct Hi as [|[|[]]]; auto. }
    + destruct (Hrmem _ Hi') as [c' Hm]. exists c'. apply in_app_iff; auto.
    + exists c. apply in_app_iff; cbn; auto.
  - constructor.
  - intros m [].
  - intros m c' Hi Hp. left. apply in_app_iff in Hi. destruct Hi as [Hi|[Hi|[]]].
    + destruct (Hwake _ _ Hi Hp) as [Hr|[]]. destruct (pendc ch c); auto. apply in_app_iff; auto.
    + inversion Hi; subst. rewrite Hp. apply in_app_iff; cbn; auto.
  - intros e Hi. apply Hevid in Hi. lia.
  - intros m c' Hi. apply in_app_iff in Hi. destruct Hi as [Hi|[Hi|[]]]; auto.
    inversion Hi; subst. rewrite filter_none.
    + cbn. f_equal. apply Hunadd; auto.
    + intros e He. apply Hevid in He. lia.
  - exact Hvis.
  - intros c' Hn. apply Hunadd. intros Hi; apply Hn; right; auto.
  - intros m c' Hi. apply in_app_iff in Hi. destruct Hi as [Hi|[Hi|[]]]; eauto.
    inversion Hi; subst. intros He. apply Hevid in He. cbn in He. lia.
  - intros m c' Hi Hn. apply in_app_iff in Hi. destruct Hi as [Hi|Hi].
    + apply Hdead; auto. intros Hm; apply Hn; apply in_app_iff; auto.
    + exfalso; apply Hn; apply in_app_iff; auto.
Qed.

(* LWait *)
Lemma InvP_wait ch mb rd nx hs ad ev n :
  InvP ch mb rd nx [] hs ad ev -> InvP ch mb (skipn n rd) nx (firstn n rd) hs ad ev.
Proof.
  intros H. dI H. constructor; try assumption.
  - apply NoDup_skipn; auto.
  - intros m Hi. apply Hrmem. apply (In_firstn_skipn n); auto.
  - apply NoDup_firstn; auto.
  - intros m Hi. apply Hrmem. apply (In_firstn_skipn n); auto.
  - intros m c Hi Hp. destruct (Hwake _ _ Hi Hp) as [Hr|[]].
    apply (In_firstn_skipn n) in Hr. tauto.
Qed.

(* LRecv: the torn messages at the head of the member's queue are dropped *)
Lemma strip_pend l : strip l <> [] -> l <> [].
Proof. destruct l; cbn; congruence. Qed.

Lemma InvP_strip ch mb rd nx bt hs ad ev m c :
  InvP ch mb rd nx bt hs ad ev -> In (m, c) mb ->
  InvP (set_nth ch c {| queue := strip (queue (getc ch c)); hup := hup (getc ch c); sent := sent (getc ch c) |})
       mb rd nx bt hs ad ev.
Proof.
  intros H Hm. dI H.
  assert (Hme := Hsub _ _ Hm).
  assert (Hc := Hbd _ _ Hme).
  set (v := {| queue := strip (queue (getc ch c)); hup := hup (getc ch c); sent := sent (getc ch c) |}).
  assert (Gs : getc (set_nth ch c v) c = v) by (apply nth_set_same; auto).
  assert (Go : forall c', c' <> c -> getc (set_nth ch c v) c' = getc ch c')
    by (intros; apply nth_set_other; auto).
  assert (U2 : forall m', In (m', c) ev -> m' = m)
    by (intros m' Hx; apply (nodup_snd_uniq ev m' m c); auto).
  constructor; try assumption.
  - intros m' c' Hi. rewrite set_nth_length. eauto.
  - intros m' c' Hi Hp. destruct (Nat.eq_dec c' c) as [->|Hne].
    + apply (Hwake m' c Hi). unfold pendc in *. rewrite Gs in Hp. cbn [queue hup v] in Hp.
      destruct (queue (getc ch c)) as [|y t] eqn:Q; auto.
    + unfold pendc in Hp. rewrite Go in Hp by auto. eauto.
  - intros m' c' Hi. destruct (Nat.eq_dec c' c) as [->|Hne].
    + rewrite Gs. cbn [queue sent v]. rewrite good_strip. auto.
    + rewrite Go by auto. auto.
  - intros c' Hn. assert (c' <> c).
    { intro; subst. apply Hn. apply Hadd. apply in_map_iff. exists (m, c); auto. }
    rewrite Go by auto. auto.
  - intros m' c' Hi Hn. destruct (Hdead _ _ Hi Hn) as (A & B & C).
    assert (c' <> c).
    { intro; subst c'. assert (m' = m) by auto. subst. auto. }
    rewrite Go by auto. auto.
Qed.

(* LRecv: a message *)
Lemma InvP_recv_msg ch mb rd nx m rest hs ad ev c x q' :
  InvP ch mb rd nx (m :: rest) hs ad ev -> In (m, c) mb -> queue (getc ch c) = x :: q' -> tornp x = false ->
  InvP (set_nth ch c {| queue := q'; hup := hup (getc ch c); sent := sent (getc ch c) |})
       mb rd nx (m :: rest) (hs ++ [EvMsg m x]) ad ev.
Proof.
  intros H Hm Hq Htx. dI H.
  assert (Hme := Hsub _ _ Hm).
  assert (Hc := Hbd _ _ Hme).
  set (v := {| queue := q'; hup := hup (getc ch c); sent := sent (getc ch c) |}).
  assert (Gs : getc (set_nth ch c v) c = v) by (apply nth_set_same; auto).
  assert (Go : forall c', c' <> c -> getc (set_nth ch c v) c' = getc ch c')
    by (intros; apply nth_set_other; auto).
  assert (U1 : forall c', In (m, c') ev -> c' = c)
    by (intros c' Hx; apply (nodup_fst_uniq ev m c' c); auto).
  assert (U2 : forall m', In (m', c) ev -> m' = m)
    by (intros m' Hx; apply (nodup_snd_uniq ev m' m c); auto).
  constructor; try assumption.
  - intros m' c' Hi. rewrite set_nth_length. eauto.
  - intros m' c' Hi Hp. destruct (Nat.eq_dec c' c) as [->|Hne].
    + right. left. symmetry. apply U2; auto.
    + unfold pendc in Hp. rewrite Go in Hp by auto. eauto.
  - intros e Hi. apply in_app_iff in Hi. destruct Hi as [Hi|[<-|[]]]; auto. cbn. eauto.
  - intros m' c' Hi. rewrite filter_snoc; cbn [ev_id].
    destruct (Nat.eqb_spec m m') as [E|E].
    + subst m'. assert (c' = c) by auto. subst c'.
      rewrite msgs_of_app, Gs. cbn [msgs_of flat_map queue sent app]. rewrite <- app_assoc. cbn [app].
      subst v; cbn [queue sent]. rewrite <- (Hfifo _ _ Hi), Hq. cbn. rewrite Htx. reflexivity.
    + assert (c' <> c) by (intro; subst; apply E; symmetry; auto).
      rewrite Go by auto. auto.
  - intros m' x' Hi. apply in_app_iff in Hi. destruct Hi as [Hi|[Hi|[]]]; eauto. inversion Hi; subst; auto.
  - intros c' Hn. assert (c' <> c).
    { intro; subst. apply Hn. apply Hadd. apply in_map_iff. exists (m, c); auto. }
    rewrite Go by auto. auto.
  - intros m' c' Hi He. apply in_app_iff in He. destruct He as [He|[He|[]]].
    + eapply Hlive; eauto.
    + discriminate.
  - intros m' c' Hi Hn. destruct (Hdead _ _ Hi Hn) as (A & B & C).
    assert (Nm : m <> m').
    { intro; subst m'. apply Hn. assert (c' = c) by auto. subst; auto. }
    assert (Nc : c' <> c) by (intro; subst; apply Nm; symmetry; apply U2; auto).
    rewrite filter_snoc; cbn [ev_id]. destruct (Nat.eqb_spec m m'); try contradiction.
    rewrite Go by auto. auto.
Qed.

(* LRecv: end of file *)
Lemma InvP_recv_closed ch mb rd nx m rest hs ad ev c :
  InvP ch mb rd nx (m :: rest) hs ad ev -> In (m, c) mb ->
  queue (getc ch c) = [] -> hup (getc ch c) = true ->
  InvP ch (filter (fun e => negb (Nat.eqb (fst e) m)) mb)
       (filter (fun x => negb (Nat.eqb x m)) rd) nx rest (hs ++ [EvClosed m]) ad ev.
Proof.
  intros H Hm Hq Hh. dI H.
  assert (Hme := Hsub _ _ Hm).
  assert (U1 : forall c', In (m, c') ev -> c' = c)
    by (intros c' Hx; apply (nodup_fst_uniq ev m c' c); auto).
  assert (Fin : forall m' c', In (m', c') (filter (fun e => negb (Nat.eqb (fst e) m)) mb) <->
                              In (m', c') mb /\ m' <> m).
  { intros. rewrite filter_In. cbn. rewrite neqb_true. tauto. }
  inversion Hbnd as [|? ? Hnr Hnd]; subst.
  constructor; try assumption.
  - intros m' c' Hi. apply Fin in Hi. apply Hsub; tauto.
  - apply NoDup_map_filter; auto.
  - apply NoDup_map_filter; auto.
  - apply NoDup_filter; auto.
  - intros m' Hi. apply filter_In in Hi. destruct Hi as [Hi Hne]. apply neqb_true in Hne.
    destruct (Hrmem _ Hi) as [c' Hc']. exists c'. apply Fin; auto.
  - intros m' Hi. assert (m' <> m) by (intro; subst; auto).
    destruct (Hbmem m') as [c' Hc']; [right; auto|]. exists c'. apply Fin; auto.
  - intros m' c' Hi Hp. apply Fin in Hi. destruct Hi as [Hi Hne].
    destruct (Hwake _ _ Hi Hp) as [Hr|[Hr|Hr]].
    + left. apply filter_In. split; auto. apply neqb_true; auto.
    + congruence.
    + auto.
  - intros e Hi. apply in_app_iff in Hi. destruct Hi as [Hi|[<-|[]]]; auto. cbn. eauto.
  - intros m' c' Hi. rewrite filter_snoc; cbn [ev_id].
    destruct (Nat.eqb m m'); auto.
    rewrite msgs_of_app. cbn. rewrite app_nil_r. auto.
  - intros m' x' Hi. apply in_app_iff in Hi. destruct Hi as [Hi|[Hi|[]]]; eauto. discriminate.
  - intros m' c' Hi He. apply Fin in Hi. destruct Hi as [Hi Hne].
    apply in_app_iff in He. destruct He as [He|[He|[]]].
    + eapply Hlive; eauto.
    + inversion He; auto.
  - intros m' c' Hi Hn. rewrite filter_snoc; cbn [ev_id].
    destruct (Nat.eqb_spec m m') as [E|E].
    + subst m'. assert (c' = c) by auto. subst c'. repeat split; auto.
      exists (filter (fid m) hs). split; auto.
      intros Hx. apply filter_In in Hx. destruct Hx as [Hx _]. eapply Hlive; eauto.
    + apply Hdead; auto. intros Hx. apply Hn. apply Fin; auto.
Qed.

(* LRecv: EWOULDBLOCK *)
Lemma InvP_recv_block ch mb rd nx m rest hs ad ev c :
  InvP ch mb rd nx (m :: rest) hs ad ev -> In (m, c) mb -> pendc ch c = false ->
  InvP ch mb rd nx rest hs ad ev.
Proof.
  intros H Hm Hp. dI H.
  inversion Hbnd as [|? ? Hnr Hnd]; subst.
  constructor; try assumption.
  - intros m' Hi. apply Hbmem; right; auto.
  - intros m' c' Hi Hp'. destruct (Hwake _ _ Hi Hp') as [Hr|[Hr|Hr]]; auto.
    subst m'. assert (c' = c) by (apply (nodup_fst_uniq mb m c' c); auto). subst. congruence.
Qed.

(* ------------------------------------------------------------------------- *)
(* preservation                                                              *)

Lemma Inv_init : Inv init.
Proof.
  unfold Inv; cbn. constructor; cbn; try (intros; tauto); try constructor.
  intros c _. destruct c; reflexivity.
Qed.

Ltac unf := unfold Inv, upd_chan, batch_of, hist, acc_of in *;
            cbn [chans members ready nextid where_ log added ever] in *.

Ltac unfw W H := unf; rewrite W in H; cbv iota in H |- *.

Lemma step_Inv s l s' : Inv s -> step s l = Some s' -> Inv s'.
Proof.
  intros H St. destruct l; cbn [step] in St; cbv zeta in St.
  - (* LNewChan *)
    inversion St; subst; clear St. unf. apply InvP_newchan; auto.
  - (* LSend *)
    destruct ((c <? length (chans s)) && negb (hup (get s c))) eqn:G; [|discriminate].
    apply andb_true_iff in G; destruct G as [G1 G2].
    apply Nat.ltb_lt in G1. apply negb_true_iff in G2.
    inversion St; subst; clear St. unf.
    apply InvP_chan with (k := [x]); [exact H | exact G1 | exact G2 | reflexivity | reflexivity].
  - (* LHup *)
    destruct ((c <? length (chans s)) && negb (hup (get s c))) eqn:G; [|discriminate].
    apply andb_true_iff in G; destruct G as [G1 G2].
    apply Nat.ltb_lt in G1. apply negb_true_iff in G2.
    inversion St; subst; clear St. unf.
    apply InvP_chan with (k := []); [exact H | exact G1 | exact G2 | | ];
      cbn; rewrite app_nil_r; reflexivity.
  - (* LAdd *)
    destruct (where_ s) eqn:W; try discriminate.
    destruct ((c <? length (chans s)) && negb (mem c (added s))) eqn:G; [|discriminate].
    apply andb_true_iff in G; destruct G as [G1 G2].
    apply Nat.ltb_lt in G1. apply negb_true_iff in G2. apply mem_false in G2.
    inversion St; subst; clear St. unfw W H.
    apply (InvP_add _ _ _ _ _ _ _ c H G1 G2).
  - (* LSelect *)
    destruct (where_ s) eqn:W; try discriminate.
    inversion St; subst; clear St. unfw W H. exact H.
  - (* LWaitEintr *)
    destruct (where_ s) eqn:W; try discriminate.
    inversion St; subst; auto.
  - (* LWait *)
    destruct (where_ s) eqn:W; try discriminate.
    destruct (ready s) as [|r0 rl] eqn:R; try discriminate. rewrite <- R in St.
    inversion St; subst; clear St. unfw W H.
    exact (InvP_wait _ _ _ _ _ _ _ CAP H).
  - (* LRecv *)
    destruct (where_ s) as [| |b acc] eqn:W; try discriminate.
    destruct b as [|m rest]; try discriminate.
    destruct (lookup (members s) m) as [c|] eqn:L; try discriminate.
    apply lookup_In in L.
    cbn [queue hup sent] in St.
    change (get s c) with (getc (chans s) c) in St.
    assert (HS : InvP (set_nth (chans s) c {| queue := strip (queue (getc (chans s) c)); hup := hup (getc (chans s) c);
                                              sent := sent (getc (chans s) c) |})
                      (members s) (ready s) (nextid s) (m :: rest) (log s ++ acc) (added s) (ever s)).
    { unfw W H. eapply InvP_strip; eauto. }
    assert (Hc : c < length (chans s)).
    { unfw W H. dI H. eauto. }
    assert (Gs : forall v, getc (set_nth (chans s) c v) c = v) by (intros; apply nth_set_same; auto).
    destruct (strip (queue (getc (chans s) c))) as [|x q'] eqn:Q.
    + destruct (hup (getc (chans s) c)) eqn:Hu.
      * inversion St; subst; clear St. unf. rewrite app_assoc.
        eapply InvP_recv_closed; eauto; rewrite Gs; reflexivity.
      * inversion St; subst; clear St. unf.
        eapply InvP_recv_block; eauto.
        unfold pendc. rewrite Gs. reflexivity.
    + inversion St; subst; clear St. unf. rewrite app_assoc.
      match goal with |- InvP (set_nth (set_nth ?ch ?c ?v0) _ _) _ _ _ _ _ _ _ =>
        replace {| queue := q'; hup := hup (getc (chans s) c); sent := sent (getc (chans s) c) |}
          with {| queue := q'; hup := hup (getc (set_nth ch c v0) c); sent := sent (getc (set_nth ch c v0) c) |}
          by (rewrite Gs; reflexivity) end.
      eapply InvP_recv_msg; eauto.
      * rewrite Gs. reflexivity.
      * eapply strip_head; eauto.
  - (* LReturn *)
    destruct (where_ s) as [| |b acc] eqn:W; try discriminate.
    destruct b as [|m rest]; try discriminate.
    inversion St; subst; clear St. unfw W H. rewrite app_nil_r. exact H.
Qed.

Lemma run_Inv ls : forall s s', Inv s -> run s ls = Some s' -> Inv s'.
Proof.
  induction ls as [|l ls IH]; cbn; intros s s' H R.
  - inversion R; subst; auto.
  - destruct (step s l) as [s1|] eqn:E; try discriminate.
    apply (IH s1 s'); [eapply step_Inv; eauto | exact R].
Qed.

Theorem reach_Inv ls s : run init ls = Some s -> Inv s.
Proof. apply run_Inv, Inv_init. Qed.

(* ------------------------------------------------------------------------- *)
(* the theorems                                                              *)

(* 1 *)
Theorem no_lost_wakeup : forall ls s, run init ls = Some s ->
  forall m c, In (m, c) (members s) -> pending s c = true ->
  In m (ready s) \/ (exists batch acc, where_ s = Draining batch acc /\ In m batch).
Proof.
  intros ls s R m c Hm Hp. apply reach_Inv in R. dI R.
  destruct (Hwake _ _ Hm Hp) as [Hr|Hb]; auto.
  right. unfold batch_of in Hb. destruct (where_ s) as [| |b acc]; try contradiction. eauto.
Qed.

Theorem select_does_not_block : forall ls s, run init ls = Some s -> where_ s = Waiting ->
  (exists m c, In (m, c) (members s) /\ pending s c = true) -> exists s', step s LWait = Some s'.
Proof.
  intros ls s R W (m & c & Hm & Hp).
  destruct (no_lost_wakeup _ _ R _ _ Hm Hp) as [Hr|(b & acc & W' & _)]; [|congruence].
  cbn [step]. rewrite W. destruct (ready s); [contradiction|]. eauto.
Qed.

(* 2 *)
Theorem recv_knows_its_member : forall ls s m rest acc, run init ls = Some s ->
  where_ s = Draining (m :: rest) acc -> exists c, lookup (members s) m = Some c.
Proof.
  intros ls s m rest acc R W. apply reach_Inv in R. dI R.
  unfold batch_of in Hbmem. rewrite W in Hbmem.
  destruct (Hbmem m) as [c Hc]; [left; auto|]. eapply In_lookup; eauto.
Qed.

Theorem structure : forall ls s, run init ls = Some s ->
  NoDup (ready s) /\ NoDup (batch_of s) /\
  (forall m, In m (ready s) -> exists c, In (m, c) (members s)) /\
  (forall m, In m (batch_of s) -> exists c, In (m, c) (members s)) /\
  NoDup (map fst (members s)) /\ NoDup (map snd (members s)).
Proof.
  intros ls s R. apply reach_Inv in R. dI R. repeat split; auto.
Qed.

(* 3 *)
Theorem ids_distinct : forall ls s, run init ls = Some s ->
  NoDup (map fst (ever s)) /\ (forall m c, In (m, c) (members s) -> In (m, c) (ever s)) /\
  NoDup (map snd (ever s)).
Proof.
  intros ls s R. apply reach_Inv in R. dI R. auto.
Qed.

(* 4 *)
Theorem events_fifo : forall ls s m c, run init ls = Some s -> In (m, c) (ever s) ->
  msgs_of (events_of s m) ++ good (queue (get s c)) = good (sent (get s c)).
Proof.
  intros ls s m c R Hi. apply reach_Inv in R. dI R. exact (Hfifo _ _ Hi).
Qed.

(* 4' an unfinished message of a crashed sender is never reported *)
Theorem torn_invisible : forall ls s m x, run init ls = Some s -> In (EvMsg m x) (log s ++ acc_of s) -> tornp x = false.
Proof.
  intros ls s m x R Hi. apply reach_Inv in R. dI R. eauto.
Qed.

(* 4'' what one non-blocking receive on the head of the batch does when torn messages head the member's queue: it reports the first
   complete message behind them; with none behind them, the closure when every sender is gone - in the SAME call - and
   otherwise it moves on (EWOULDBLOCK) having consumed them *)
Theorem recv_skips_torn : forall s m rest acc c, where_ s = Draining (m :: rest) acc -> lookup (members s) m = Some c ->
  exists s', step s LRecv = Some s' /\
    match strip (queue (get s c)) with
    | x :: q' => where_ s' = Draining (m :: rest) (acc ++ [EvMsg m x]) /\ tornp x = false
    | [] => if hup (get s c) then where_ s' = Draining rest (acc ++ [EvClosed m])
            else where_ s' = Draining rest acc
    end.
Proof.
  intros s m rest acc c W L. cbn [step]. rewrite W, L. cbv zeta. cbn [queue hup sent].
  destruct (strip (queue (get s c))) as [|x q'] eqn:Q.
  - destruct (hup (get s c)); eexists; split; reflexivity.
  - eexists; split; [reflexivity|]. cbn [where_]. split; auto. eapply strip_head; eauto.
Qed.

(* 5 *)
Lemma pair_eq_dec : forall x y : mid * cid, {x = y} + {x <> y}.
Proof. decide equality; apply Nat.eq_dec. Qed.

Theorem closed_once_last : forall ls s m c, run init ls = Some s -> In (m, c) (ever s) ->
  In (EvClosed m) (events_of s m) ->
  (exists pre, events_of s m = pre ++ [EvClosed m] /\ ~ In (EvClosed m) pre) /\
  queue (get s c) = [] /\ hup (get s c) = true /\ ~ In (m, c) (members s).
Proof.
  intros ls s m c R Hi He. apply reach_Inv in R. dI R.
  rewrite events_of_hist in He. apply filter_In in He. destruct He as [He _].
  destruct (in_dec pair_eq_dec (m, c) (members s)) as [Hm|Hm].
  - exfalso. eapply Hlive; eauto.
  - destruct (Hdead _ _ Hi Hm) as (A & B & C). repeat split; auto.
Qed.

(* 6 *)
Theorem eintr_is_noop : forall s s', step s LWaitEintr = Some s' -> s' = s.
Proof.
  intros s s' H. cbn [step] in H. destruct (where_ s); try discriminate. congruence.
Qed.

(* non-vacuity: a message queued before the add, then the hang-up, are both delivered, in order *)

End WithTorn.

(* without crashed senders the statement is the plain one *)
Corollary events_fifo_plain : forall ls s m c, run (fun _ => false) init ls = Some s -> In (m, c) (ever s) ->
  msgs_of (events_of s m) ++ queue (get s c) = sent (get s c).
Proof.
  intros ls s m c R Hi. generalize (events_fifo _ ls s m c R Hi).
  assert (G : forall l, good (fun _ => false) l = l).
  { induction l as [|x l IH]; [reflexivity|]. unfold good in *. cbn [filter negb]. f_equal. exact IH. }
  rewrite !G. auto.
Qed.

(* non-vacuity: a message queued before the add, then the hang-up, are both delivered, in order *)
Example demo_run :
  option_map log (run (fun _ => false) init [LNewChan; LSend 0 7; LAdd 0; LHup 0; LSelect; LWaitEintr; LWait;
                            LRecv; LRecv; LReturn]) = Some [EvMsg 0 7; EvClosed 0].
Proof. vm_compute. reflexivity. Qed.
(* ... and with the sender killed inside its second message (id 8): the first is reported, the torn one is not, the closure is *)
Example demo_run_torn :
  option_map log (run (fun x => Nat.eqb x 8) init [LNewChan; LSend 0 7; LSend 0 8; LAdd 0; LHup 0; LSelect; LWait;
                            LRecv; LRecv; LReturn]) = Some [EvMsg 0 7; EvClosed 0].
Proof. vm_compute. reflexivity. Qed.

Print Assumptions no_lost_wakeup.
Print Assumptions torn_invisible.
Print Assumptions recv_skips_torn.
Print Assumptions events_fifo_plain.
Print Assumptions select_does_not_block.
Print Assumptions recv_knows_its_member.
Print Assumptions structure.
Print Assumptions ids_distinct.
Print Assumptions events_fifo.
Print Assumptions closed_once_last.
Print Assumptions eintr_is_noop.
