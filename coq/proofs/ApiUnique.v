(* ApiUnique: a receiving end exists once.  After any program over the whole API every reference count of a receiving end -
   references held by the process plus references in flight in live queues - is at most one: receivers are moved, never
   duplicated.  Consequences: no two handles (receiver handles, members of sets, servers) denote the same receiving end, the
   members of a set are pairwise distinct channels, and the whole-set theorem of ApiSelect holds for every reachable state
   without a side condition. *)
From Coq Require Import List Arith Lia Bool ZArith Permutation.
From IPC Require Import K KProofs Prog Ideal IdealProofs Api ApiProofs ApiInv ApiSelect.
Import ListNotations.

Definition rr_once (k : kst) : Prop := forall c, refs k (RR c) <= 1.

(* ---- reference counts under the kernel calls ---- *)
Lemma refs_close_le : forall k r x, refs (k_close k r) x <= refs k x.
Proof.
  intros k r x. unfold k_close. etransitivity; [apply gc_refs_le|]. unfold refs, inflight. cbn [chans held].
  pose proof (count_occ_remove_one_le r (held k) x). lia.
Qed.

Lemma count_occ_remove_one_self : forall r l, In r l -> S (count_occ ref_dec (remove_one r l) r) = count_occ ref_dec l r.
Proof.
  induction l as [|h t IH]; intros H; [contradiction|]. cbn [remove_one count_occ].
  destruct (ref_dec r h) as [<-|Hne].
  - destruct (ref_dec r r); [reflexivity|contradiction].
  - destruct H as [->|H]; [contradiction|]. cbn [count_occ]. destruct (ref_dec h r); [congruence|]. now apply IH.
Qed.

Lemma refs_close_self : forall k r, In r (held k) -> S (refs (k_close k r) r) <= refs k r.
Proof.
  intros k r Hin. unfold k_close. pose proof (gc_refs_le {| chans := chans k; held := remove_one r (held k) |} r) as H.
  unfold refs at 2 in H. unfold refs at 2. cbn [chans held] in *. unfold inflight in *. cbn [chans] in *.
  pose proof (count_occ_remove_one_self r (held k) Hin). lia.
Qed.

Lemma refs_close_moved : forall rs k X x, kinvG k (moved rs ++ X) ->
  refs (close_moved k rs) x + count_occ ref_dec (moved rs) x <= refs k x.
Proof.
  induction rs as [|[c|c|o] t IH]; intros k X x I; cbn [close_moved moved filter] in *; try (cbn [count_occ]; lia); try (eapply IH; eauto; fail).
  cbn [app] in I.
  assert (Hin : In (RR c) (held k)) by (eapply kinvG_in_held; [exact I|now left]).
  assert (I' : kinvG (k_close k (RR c)) (moved t ++ X)) by (eapply k_close_kinvG; [exact I|reflexivity]).
  specialize (IH _ X x I'). cbn [count_occ]. destruct (ref_dec (RR c) x) as [<-|Hne].
  - pose proof (refs_close_self k (RR c) Hin). fold (moved t) in *. lia.
  - pose proof (refs_close_le k (RR c) x). fold (moved t) in *. lia.
Qed.

Lemma refs_close_all_le : forall rs k x, refs (close_all k rs) x <= refs k x.
Proof.
  induction rs as [|r t IH]; intros k x; cbn [close_all]; [lia|]. etransitivity; [apply IH|apply refs_close_le].
Qed.

Lemma refs_close_members_le : forall ms k x, refs (close_members k ms) x <= refs k x.
Proof.
  induction ms as [|[c|] t IH]; intros k x; cbn [close_members]; try lia; auto. etransitivity; [apply IH|apply refs_close_le].
Qed.

Lemma count_moved_RR : forall rs c, count_occ ref_dec (moved rs) (RR c) = count_occ ref_dec rs (RR c).
Proof.
  induction rs as [|[a|a|o] t IH]; intros c; cbn [moved filter count_occ]; auto.
  - destruct (ref_dec (RS a) (RR c)); [discriminate|auto].
  - cbn [count_occ]. destruct (ref_dec (RR a) (RR c)); rewrite IH; reflexivity.
  - destruct (ref_dec (RM o) (RR c)); [discriminate|auto].
Qed.

Lemma refs_new_RR : forall k c, refs (fst (k_new k)) (RR c) = refs k (RR c) + (if Nat.eqb c (length (chans k)) then 1 else 0).
Proof.
  intros k c. unfold k_new, refs, inflight. cbn [fst chans held]. rewrite flat_map_app, count_occ_app.
  cbn [flat_map live_rights dead q app count_occ].
  destruct (ref_dec (RS (length (chans k))) (RR c)); [discriminate|].
  destruct (ref_dec (RR (length (chans k))) (RR c)) as [E|Hne].
  - injection E as <-. rewrite Nat.eqb_refl. lia.
  - destruct (Nat.eqb_spec c (length (chans k))) as [->|]; [congruence|lia].
Qed.

Lemma refs_dup_other : forall k r x, x <> r -> refs (k_dup k r) x = refs k x.
Proof. intros k r x H. unfold refs, k_dup, inflight. cbn [chans held count_occ]. destruct (ref_dec r x); [congruence|reflexivity]. Qed.

(* a reference to a channel that does not exist yet is not counted anywhere *)
Lemma refs_out_of_range : forall k hr c, kinvG k hr -> length (chans k) <= c -> refs k (RR c) = 0.
Proof.
  intros k hr c I Hc. apply refs_zero_iff. split.
  - intros Hin. pose proof (gv_ok_h _ _ I) as Oh. rewrite Forall_forall in Oh. specialize (Oh _ Hin). cbn [okG] in Oh. lia.
  - intros Hin. apply in_inflight in Hin. destruct Hin as (c' & ch & m & Hn & Hd & Hm & Hr).
    pose proof (gv_ok_q _ _ I c' ch m (RR c) Hn Hm Hr) as Ok. cbn [okG] in Ok. lia.
Qed.

(* ---- serving a set never increases a reference count ---- *)
Lemma drain_refs_le : forall sh fuel k hs n i c Y,
  lookup hs sh <> None -> kinvG k (RR c :: Y ++ Hm sh hs) -> aids_ok hs n ->
  match drain fuel k hs n i c with (k2, _, _, _, _, _) => forall x, refs k2 x <= refs k x end.
Proof.
  intros sh. induction fuel as [|f IH]; intros k hs n i c Y Hl I Hids; cbn [drain]; [auto|].
  pose proof (gv_wf _ _ I) as W.
  destruct (k_recv k c) as [m k'| |] eqn:Er.
  - pose proof (k_recv_kinvG _ _ _ _ _ I Er) as I'. destruct (k_recv_queue _ _ _ _ W Er) as (_ & Fr).
    destruct (undecodable m).
    + specialize (IH k' hs n i c (m_rights m ++ Y) Hl).
      destruct (drain f k' hs n i c) as [[[[[k2 hs2] n2] evs] closed] later].
      intros x. rewrite <- Fr. apply IH; auto. eapply kinvG_perm; [exact I'|]. perm_refs.
    + pose proof (Hm_install sh (m_rights m) hs n Hl) as HH.
      pose proof (lookup_install sh (m_rights m) hs n Hl) as HL.
      pose proof (aids_install (m_rights m) hs n Hids) as HI.
      destruct (a_install hs n (m_rights m)) as [[hs' n'] out]. cbn [fst snd] in HH, HL, HI.
      specialize (IH k' hs' n' i c Y).
      destruct (drain f k' hs' n' i c) as [[[[[k2 hs2] n2] evs] closed] later].
      intros x. rewrite <- Fr. apply IH; auto; [congruence|]. eapply kinvG_perm; [exact I'|]. rewrite HH. perm_refs.
  - auto.
  - intros x. apply refs_close_le.
Qed.

Lemma select_all_refs_le : forall sh ms k hs n i Y,
  lookup hs sh <> None -> kinvG k (member_refs ms ++ Y ++ Hm sh hs) -> aids_ok hs n ->
  match select_all k hs n i ms with (k2, _, _, _, _, _) => forall x, refs k2 x <= refs k x end.
Proof.
  intros sh. induction ms as [|[c|] r IH]; intros k hs n i Y Hl I Hids; cbn [select_all]; auto.
  - assert (I0 : kinvG k (RR c :: (member_refs r ++ Y) ++ Hm sh hs)).
    { eapply kinvG_perm; [exact I|]. cbn [member_refs flat_map]. fold (member_refs r). perm_refs. }
    pose proof (drain_inv sh (S (length (q (get_chan k c)))) k hs n i c (member_refs r ++ Y) Hl I0 Hids) as D.
    pose proof (drain_refs_le sh (S (length (q (get_chan k c)))) k hs n i c (member_refs r ++ Y) Hl I0 Hids) as L.
    destruct (drain (S (length (q (get_chan k c)))) k hs n i c) as [[[[[k1 hs1] n1] ev1] closed] l1].
    destruct D as (J1 & Hids1 & Hl1).
    specialize (IH k1 hs1 n1 (S i) ((if closed then [] else [RR c]) ++ l1 ++ Y)).
    destruct (select_all k1 hs1 n1 (S i) r) as [[[[[k2 hs2] n2] evs] ms2] l2].
    intros x. etransitivity; [apply IH|apply L]; auto; [congruence|].
    eapply kinvG_perm; [exact J1|]. destruct closed; perm_refs.
  - specialize (IH k hs n (S i) Y Hl I Hids).
    destruct (select_all k hs n (S i) r) as [[[[[k2 hs2] n2] evs] ms2] later]. exact IH.
Qed.

(* ---- the invariant ---- *)
Theorem rr_once_step : forall s o, a_inv s -> rr_once (ak s) -> rr_once (ak (fst (a_step s o))).
Proof.
  intros s o I U. pose proof I as [K Hids].
  destruct o as [|h|h|h data atts|h|len seed|h|h| |sh rh|sh| |sh|sh]; cbn [a_step].
  - (* ANew *) cbn [k_new fst ak]. intros c0. pose proof (refs_new_RR (ak s) c0) as E. unfold k_new in E. cbn [fst] in E. rewrite E.
    destruct (Nat.eq_dec c0 (length (chans (ak s)))) as [Heq|Hne].
    + rewrite Heq, Nat.eqb_refl. rewrite (refs_out_of_range _ _ _ K) by lia. lia.
    + rewrite (proj2 (Nat.eqb_neq _ _) Hne). specialize (U c0). lia.
  - (* AClone *) destruct (lookup (ah s) h) as [[c|c|o|ms|c b|]|]; cbn [fst ak]; auto;
    intros c'; rewrite refs_dup_other by discriminate; apply U.
  - (* ADrop *) destruct (lookup (ah s) h) as [[c|c|o|ms|c b|]|]; cbn [fst ak]; auto; intros c'.
    + etransitivity; [apply refs_close_le|apply U].
    + etransitivity; [apply refs_close_le|apply U].
    + etransitivity; [apply refs_close_le|apply U].
    + etransitivity; [apply refs_close_members_le|apply U].
    + etransitivity; [apply refs_close_le|apply U].
  - (* ASend *)
    destruct (lookup (ah s) h) as [[c|c|o|ms|c b|]|] eqn:El; cbn [fst ak]; auto.
    destruct (a_resolve (ah s) atts) as [[rs hs']|] eqn:Er; cbn [fst ak]; auto.
    destruct (a_resolve_spec _ _ _ _ Er) as (Hp & Hf & Hin).
    destruct (k_send (ak s) c {| m_data := data; m_rights := rs |}) as [k'|] eqn:Es; cbn [fst ak]; intros c'.
    + assert (K' : kinvG k' (moved rs ++ ahandle_refs hs')).
      { eapply kinvG_perm; [|exact Hp]. eapply k_send_kinvG; [exact K|exact Es|exact Hin]. }
      pose proof (refs_close_moved rs k' (ahandle_refs hs') (RR c') K') as L.
      apply k_send_some in Es. destruct Es as (ch & Hn & Hd & ->).
      rewrite (refs_send (ak s) c ch _ (RR c') Hn Hd) in L. cbn [m_rights] in L. rewrite count_moved_RR in L.
      specialize (U c'). lia.
    + assert (K' : kinvG (ak s) (moved rs ++ ahandle_refs hs')) by (eapply kinvG_perm; [exact K|exact Hp]).
      pose proof (refs_close_moved rs (ak s) (ahandle_refs hs') (RR c') K') as L. specialize (U c'). lia.
  - (* ARecv *)
    destruct (lookup (ah s) h) as [[c|c|o|ms|c b|]|]; cbn [fst ak]; auto.
    destruct (k_recv (ak s) c) as [m k'| |] eqn:Er; cbn [fst ak]; auto.
    destruct (k_recv_queue _ _ _ _ (gv_wf _ _ K) Er) as (_ & Fr).
    destruct (undecodable m); cbn [fst ak].
    + intros c'. etransitivity; [apply refs_close_all_le|]. rewrite Fr. apply U.
    + destruct (a_install (ah s) (anext s) (m_rights m)) as [[hs' n'] out]. cbn [fst ak]. intros c'. rewrite Fr. apply U.
  - (* AShm *) cbn [fst ak]. intros c'. try (rewrite refs_dup_other by discriminate). apply U.
  - (* AShmClone *) destruct (lookup (ah s) h) as [[c|c|o|ms|c b|]|]; cbn [fst ak]; auto;
    intros c'; rewrite refs_dup_other by discriminate; apply U.
  - (* AShmRead *) destruct (lookup (ah s) h) as [[c|c|o|ms|c b|]|]; cbn [fst ak]; auto.
    destruct (nth_error (amem s) o) as [[l sd]|]; cbn [fst ak]; auto.
  - (* ASetNew *) cbn [fst ak]. auto.
  - (* ASetAdd *)
    destruct (lookup (ah s) sh) as [[c|c|o|ms|c b|]|]; cbn [fst ak]; auto.
    destruct (lookup (ah s) rh) as [[c|c|o|ms'|c b|]|]; cbn [fst ak]; auto.
  - (* ASelectAll *)
    destruct (lookup (ah s) sh) as [[c|c|o|ms|c b|]|] eqn:El; cbn [fst ak]; auto.
    pose proof (select_all_refs_le sh ms (ak s) (ah s) (anext s) 0 []) as L.
    destruct (select_all (ak s) (ah s) (anext s) 0 ms) as [[[[[k' hs'] n'] evs] ms'] later]. cbn [fst ak].
    intros c'. etransitivity; [apply refs_close_all_le|]. etransitivity; [apply L|apply U]; auto; [congruence|].
    eapply kinvG_perm; [exact K|]. cbn [app]. exact (Hm_self sh (ah s) (OSet ms) El).
  - (* AServer *)
    cbn [k_new fst ak]. intros c'. etransitivity; [apply refs_close_le|]. pose proof (refs_new_RR (ak s) c') as E. unfold k_new in E. cbn [fst] in E. rewrite E.
    destruct (Nat.eq_dec c' (length (chans (ak s)))) as [Heq|Hne].
    + rewrite Heq, Nat.eqb_refl. rewrite (refs_out_of_range _ _ _ K) by lia. lia.
    + rewrite (proj2 (Nat.eqb_neq _ _) Hne). specialize (U c'). lia.
  - (* AConnect *)
    destruct (lookup (ah s) sh) as [[c|c|o|ms|c [|]|]|]; cbn [fst ak]; auto;
    intros c'; rewrite refs_dup_other by discriminate; apply U.
  - (* AAccept *)
    destruct (lookup (ah s) sh) as [[c|c|o|ms|c [|]|]|]; cbn [fst ak]; auto.
    destruct (k_recv (ak s) c) as [m k'| |] eqn:Er; cbn [fst ak]; auto;
      [|intros c'; etransitivity; [apply refs_close_le|apply U]].
    destruct (undecodable m); cbn [fst ak]; auto.
    destruct (k_recv_queue _ _ _ _ (gv_wf _ _ K) Er) as (_ & Fr).
    destruct (a_install (update (ah s) sh OGone ++ [(anext s, OR c)]) (S (anext s)) (m_rights m)) as [[hs' n'] out]. cbn [fst ak].
    intros c'. rewrite Fr. apply U.
Qed.

Theorem rr_once_run : forall ops, rr_once (ak (fst (a_run a_init ops))).
Proof.
  assert (G : forall ops s, a_inv s -> rr_once (ak s) -> rr_once (ak (fst (a_run s ops)))).
  { induction ops as [|o r IH]; intros s I U; [exact U|]. rewrite a_run_cons. cbn [fst].
    apply IH; [now apply a_inv_step|now apply rr_once_step]. }
  intros ops. apply G; [exact a_inv_init|]. intros c. cbn. lia.
Qed.
Print Assumptions rr_once_run.

(* ---- consequences ---- *)
Lemma count_member_refs : forall ms c, count_occ ref_dec (member_refs ms) (RR c) = count_occ Nat.eq_dec (member_chans ms) c.
Proof.
  induction ms as [|[a|] t IH]; intros c; cbn [member_refs member_chans flat_map app count_occ]; auto.
  fold (member_refs t). fold (member_chans t). rewrite IH.
  destruct (ref_dec (RR a) (RR c)) as [E|Hne], (Nat.eq_dec a c) as [E2|Hne2]; auto; [injection E as ->; contradiction|subst; contradiction].
Qed.

Lemma count_in_handles : forall hs h o x, lookup hs h = Some o ->
  count_occ ref_dec (aobj_refs o) x <= count_occ ref_dec (ahandle_refs hs) x.
Proof.
  intros hs h o x Hl. destruct (lookup_split hs h o Hl) as (l1 & l2 & -> & _).
  rewrite ahandle_refs_app, ahandle_refs_cons, !count_occ_app. lia.
Qed.

(* the members of a set are pairwise distinct channels *)
Theorem members_distinct : forall s sh ms, a_inv s -> rr_once (ak s) -> lookup (ah s) sh = Some (OSet ms) -> NoDup (member_chans ms).
Proof.
  intros s sh ms [K _] U Hl. apply (NoDup_count_occ Nat.eq_dec). intros c.
  rewrite <- count_member_refs. pose proof (count_in_handles _ _ _ (RR c) Hl) as H1. cbn [aobj_refs] in H1.
  pose proof (proj1 (Permutation_count_occ ref_dec _ _) (gv_held _ _ K) (RR c)) as P.
  specialize (U c). unfold refs in U. lia.
Qed.

(* no two handles denote the same receiving end *)
Theorem receivers_unique : forall ops c,
  count_occ ref_dec (ahandle_refs (ah (fst (a_run a_init ops)))) (RR c) <= 1.
Proof.
  intros ops c. pose proof (a_inv_run ops) as [K _]. pose proof (rr_once_run ops c) as U.
  pose proof (proj1 (Permutation_count_occ ref_dec _ _) (gv_held _ _ K) (RR c)) as P. unfold refs in U. lia.
Qed.
Print Assumptions receivers_unique.

(* the whole-set theorem for every reachable state, without a side condition *)
Theorem api_select_events_reachable : forall ops sh ms,
  let s := fst (a_run a_init ops) in
  lookup (ah s) sh = Some (OSet ms) ->
  exists evs, snd (a_step s (ASelectAll sh)) = QSelect evs /\ map proj_ev evs = member_events (ak s) 0 ms.
Proof.
  intros ops sh ms s Hl. apply api_select_events; auto.
  - apply a_inv_run.
  - eapply members_distinct; eauto; [apply a_inv_run|apply rr_once_run].
Qed.
Print Assumptions api_select_events_reachable.
