(* ApiConservative: the ideal channel model (Ideal.v: create / clone / drop / send with embedded endpoints / receive) is the
   restriction of the model of the whole public API (Api.v) to channel programs: embedding a channel program into the API model
   gives, operation by operation, the same answers.  Together with RefineProofs.unix_refines_ideal this chains
   Unix (descriptors, Arc sharing)  =  Ideal  =  Api restricted to channels.
   Payloads of the embedded programs are non-negative: Api uses negative payloads to denote undecodable messages. *)
From Coq Require Import List Arith Lia Bool ZArith Permutation.
From IPC Require Import K KProofs Prog Ideal IdealProofs Api ApiProofs.
Import ListNotations.

Definition emb_entry (e : hid * iobj) : hid * aobj := (fst e, emb_obj (snd e)).
Definition emb_hs (hs : list (hid * iobj)) : list (hid * aobj) := map emb_entry hs.

Definition Rc (i : ist) (a : ast) : Prop := ak a = ik i /\ ah a = emb_hs (ih i) /\ anext a = inext i.

Definition op_nn (o : op) : Prop := match o with OSend _ d _ => (0 <= d)%Z | _ => True end.
Definition qnn (k : kst) : Prop :=
  forall c ch m, nth_error (chans k) c = Some ch -> In m (q ch) -> (0 <= m_data m)%Z.

(* ---- tables ---- *)
Lemma lookup_emb : forall hs h, lookup (emb_hs hs) h = option_map emb_obj (lookup hs h).
Proof.
  induction hs as [|[x v] t IH]; intros h; cbn [emb_hs map emb_entry fst snd lookup]; auto.
  destruct (Nat.eqb x h); auto.
Qed.

Lemma update_emb : forall hs h v, update (emb_hs hs) h (emb_obj v) = emb_hs (update hs h v).
Proof.
  induction hs as [|[x w] t IH]; intros h v; cbn [emb_hs map emb_entry fst snd update]; auto.
  destruct (Nat.eqb x h); cbn [map emb_entry fst snd]; auto. f_equal. apply IH.
Qed.

Lemma emb_hs_app : forall a b, emb_hs (a ++ b) = emb_hs a ++ emb_hs b.
Proof. intros. apply map_app. Qed.

Lemma a_resolve_emb : forall atts hs,
  a_resolve (emb_hs hs) (map emb_att atts) =
  match i_resolve hs atts with Some (rs, hs') => Some (rs, emb_hs hs') | None => None end.
Proof.
  induction atts as [|[x|x] t IH]; intros hs; cbn [map emb_att a_resolve i_resolve]; auto.
  - rewrite lookup_emb. destruct (lookup hs x) as [[c|c|]|]; cbn [option_map emb_obj]; auto.
    rewrite IH. destruct (i_resolve hs t) as [[rs hs']|]; auto.
  - rewrite lookup_emb. destruct (lookup hs x) as [[c|c|]|]; cbn [option_map emb_obj]; auto.
    change OGone with (emb_obj IGone). rewrite update_emb, IH.
    destruct (i_resolve (update hs x IGone) t) as [[rs hs']|]; auto.
Qed.

Definition emb_outs (out : list (hkind * hid)) : list (akind * hid) := map (fun p => (emb_kind (fst p), snd p)) out.

Lemma a_install_emb : forall rs hs n, (forall o, ~ In (RM o) rs) ->
  a_install (emb_hs hs) n rs =
  let '(hs', n', out) := i_install hs n rs in (emb_hs hs', n', emb_outs out).
Proof.
  induction rs as [|[c|c|o] t IH]; intros hs n Hn; cbn [a_install i_install]; auto.
  - change [(n, OS c)] with (emb_hs [(n, IS c)]). rewrite <- emb_hs_app, IH by (intros o Hin; apply (Hn o); now right).
    destruct (i_install (hs ++ [(n, IS c)]) (S n) t) as [[hs' n'] out]. reflexivity.
  - change [(n, OR c)] with (emb_hs [(n, IR c)]). rewrite <- emb_hs_app, IH by (intros o Hin; apply (Hn o); now right).
    destruct (i_install (hs ++ [(n, IR c)]) (S n) t) as [[hs' n'] out]. reflexivity.
  - exfalso. apply (Hn o). now left.
Qed.

(* ---- queues only ever lose messages through close / gc ---- *)
Definition qsub (k' k : kst) : Prop :=
  forall c ch' m, nth_error (chans k') c = Some ch' -> In m (q ch') ->
  exists ch, nth_error (chans k) c = Some ch /\ In m (q ch).

Lemma qsub_refl : forall k, qsub k k.
Proof. intros k c ch m Hn Hm. eauto. Qed.
Lemma qsub_trans : forall a b c, qsub a b -> qsub b c -> qsub a c.
Proof. intros a b c H1 H2 x ch m Hn Hm. destruct (H1 _ _ _ Hn Hm) as (ch2 & Hn2 & Hm2). eauto. Qed.
Lemma qnn_sub : forall k k', qnn k -> qsub k' k -> qnn k'.
Proof. intros k k' Q S c ch m Hn Hm. destruct (S _ _ _ Hn Hm) as (ch2 & Hn2 & Hm2). eauto. Qed.

Lemma qsub_close : forall k r, qsub (k_close k r) k.
Proof.
  intros k r c ch' m Hn Hm. unfold k_close in Hn. apply gc_chan_cases in Hn. cbn [chans] in Hn.
  destruct Hn as (ch & Hn & [->|Hq]); eauto. rewrite Hq in Hm. contradiction.
Qed.
Lemma qsub_close_moved : forall rs k, qsub (close_moved k rs) k.
Proof.
  induction rs as [|[c|c|o] t IH]; intros k; cbn [close_moved]; try apply qsub_refl; auto.
  eapply qsub_trans; [apply IH|apply qsub_close].
Qed.

Lemma qnn_step : forall i o, qnn (ik i) -> op_nn o -> qnn (ik (fst (i_step i o))).
Proof.
  intros i o Q Hnn. destruct o as [|h|h|h data atts|h]; cbn [i_step].
  - cbn [k_new fst ik]. intros c ch m Hn Hm. cbn [chans] in Hn.
    destruct (Nat.lt_ge_cases c (length (chans (ik i)))) as [Hlt|Hge].
    + rewrite nth_error_app1 in Hn by auto. eauto.
    + rewrite nth_error_app2 in Hn by auto. destruct (c - length (chans (ik i))) as [|j]; cbn [nth_error] in Hn.
      * injection Hn as <-. contradiction.
      * destruct j; discriminate.
  - destruct (lookup (ih i) h) as [[c|c|]|]; cbn [fst ik]; auto.
  - destruct (lookup (ih i) h) as [[c|c|]|]; cbn [fst ik]; auto; eapply qnn_sub; eauto; apply qsub_close.
  - destruct (lookup (ih i) h) as [[c|c|]|]; cbn [fst ik]; auto.
    destruct (i_resolve (ih i) atts) as [[rs hs']|]; cbn [fst ik]; auto.
    destruct (k_send (ik i) c {| m_data := data; m_rights := rs |}) as [k'|] eqn:Es; cbn [fst ik].
    + eapply qnn_sub; [|apply qsub_close_moved]. apply k_send_some in Es. destruct Es as (ch & Hn & Hd & ->).
      intros c' ch' m Hn' Hm. cbn [chans] in Hn'. destruct (Nat.eq_dec c c') as [<-|Hne].
      * rewrite nth_error_set_nth_eq in Hn' by (eapply nth_error_lt; eauto). injection Hn' as <-. cbn [q] in Hm.
        apply in_app_or in Hm. destruct Hm as [Hm|[<-|[]]]; [eauto|exact Hnn].
      * rewrite nth_error_set_nth_neq in Hn' by auto. eauto.
    + eapply qnn_sub; eauto. apply qsub_close_moved.
  - destruct (lookup (ih i) h) as [[c|c|]|]; cbn [fst ik]; auto.
    destruct (k_recv (ik i) c) as [m k'| |] eqn:Er; cbn [fst ik]; auto.
    destruct (i_install (ih i) (inext i) (m_rights m)) as [[hs' n'] out]. cbn [fst ik].
    apply k_recv_msg in Er. destruct Er as (ch & rest & Hn & Hq & ->).
    intros c' ch' m' Hn' Hm. cbn [chans] in Hn'. destruct (Nat.eq_dec c c') as [<-|Hne].
    + rewrite nth_error_set_nth_eq in Hn' by (eapply nth_error_lt; eauto). injection Hn' as <-. cbn [q] in Hm.
      eapply Q; eauto. rewrite Hq. now right.
    + rewrite nth_error_set_nth_neq in Hn' by auto. eauto.
Qed.

(* ---- one operation ---- *)
Lemma Rc_intro : forall k hs n, Rc {| ik := k; ih := hs; inext := n |} {| ak := k; ah := emb_hs hs; anext := n; amem := [] |}.
Proof. intros. repeat split. Qed.

Lemma sim_step_api : forall i a o, Rc i a -> amem a = [] -> i_inv i -> qnn (ik i) -> op_nn o ->
  snd (a_step a (emb_op o)) = emb_out (snd (i_step i o)) /\
  Rc (fst (i_step i o)) (fst (a_step a (emb_op o))) /\ amem (fst (a_step a (emb_op o))) = [].
Proof.
  intros i a o (Ek & Eh & En) Em I Q Hnn. destruct a as [k0 hs0 n0 mem0]. cbn [ak ah anext amem] in *. subst k0 hs0 n0 mem0.
  destruct o as [|h|h|h data atts|h]; cbn [emb_op a_step i_step ak ah anext amem].
  - cbn [k_new fst snd emb_out]. split; [reflexivity|]. split; [|reflexivity].
    replace (emb_hs (ih i) ++ [(inext i, OS (length (chans (ik i)))); (S (inext i), OR (length (chans (ik i))))])
      with (emb_hs (ih i ++ [(inext i, IS (length (chans (ik i)))); (S (inext i), IR (length (chans (ik i))))]))
      by (rewrite emb_hs_app; reflexivity).
    apply Rc_intro.
  - rewrite lookup_emb. destruct (lookup (ih i) h) as [[c|c|]|]; cbn [option_map emb_obj fst snd emb_out]; try (repeat split; reflexivity).
    split; [reflexivity|]. split; [|reflexivity].
    replace (emb_hs (ih i) ++ [(inext i, OS c)]) with (emb_hs (ih i ++ [(inext i, IS c)])) by (rewrite emb_hs_app; reflexivity).
    apply Rc_intro.
  - rewrite lookup_emb. destruct (lookup (ih i) h) as [[c|c|]|]; cbn [option_map emb_obj fst snd emb_out]; try (repeat split; reflexivity).
    + split; [reflexivity|]. split; [|reflexivity]. change OGone with (emb_obj IGone). rewrite update_emb. apply Rc_intro.
    + split; [reflexivity|]. split; [|reflexivity]. change OGone with (emb_obj IGone). rewrite update_emb. apply Rc_intro.
  - rewrite lookup_emb. destruct (lookup (ih i) h) as [[c|c|]|]; cbn [option_map emb_obj fst snd emb_out]; try (repeat split; reflexivity).
    rewrite a_resolve_emb. destruct (i_resolve (ih i) atts) as [[rs hs']|]; cbn [fst snd emb_out]; try (repeat split; reflexivity).
    destruct (k_send (ik i) c {| m_data := data; m_rights := rs |}) as [k'|]; cbn [fst snd emb_out]; (split; [reflexivity|split; [apply Rc_intro|reflexivity]]).
  - rewrite lookup_emb. destruct (lookup (ih i) h) as [[c|c|]|]; cbn [option_map emb_obj fst snd emb_out]; try (repeat split; reflexivity).
    destruct (k_recv (ik i) c) as [m k'| |] eqn:Er; cbn [fst snd emb_out]; try (repeat split; reflexivity).
    pose proof Er as Er2. apply k_recv_msg in Er2. destruct Er2 as (ch & rest & Hn & Hq & _).
    assert (Hm : In m (q ch)) by (rewrite Hq; now left).
    assert (Hu : undecodable m = false).
    { unfold undecodable. apply Z.ltb_ge. eapply Q; eauto. }
    rewrite Hu. rewrite a_install_emb by (intros o; eapply (iv_norm_q i I); eauto).
    destruct (i_install (ih i) (inext i) (m_rights m)) as [[hs' n'] out]. cbn [fst snd emb_out].
    split; [reflexivity|]. split; [apply Rc_intro|reflexivity].
Qed.

(* ---- whole programs ---- *)
Lemma api_conservative_from : forall ops i a, Rc i a -> amem a = [] -> i_inv i -> qnn (ik i) -> Forall op_nn ops ->
  snd (a_run a (map emb_op ops)) = map emb_out (snd (i_run i ops)).
Proof.
  induction ops as [|o r IH]; intros i a R Em I Q Hall; [reflexivity|].
  inversion Hall as [|? ? Ho Hr]; subst.
  destruct (sim_step_api i a o R Em I Q Ho) as (Eo & R' & Em').
  pose proof (i_inv_step i o I) as I'. pose proof (qnn_step i o Q Ho) as Q'.
  cbn [map a_run i_run]. destruct (a_step a (emb_op o)) as [a' out]. destruct (i_step i o) as [i' iout].
  cbn [fst snd] in *. specialize (IH i' a' R' Em' I' Q' Hr).
  destruct (a_run a' (map emb_op r)) as [a'' outs]. destruct (i_run i' r) as [i'' iouts].
  cbn [snd map] in *. now rewrite Eo, IH.
Qed.

Theorem api_conservative : forall ops, Forall op_nn ops ->
  snd (a_run a_init (map emb_op ops)) = map emb_out (snd (i_run i_init ops)).
Proof.
  intros ops H. apply api_conservative_from; auto.
  - repeat split.
  - exact i_inv_init.
  - intros c ch m Hn. destruct c; discriminate.
Qed.
Print Assumptions api_conservative.
