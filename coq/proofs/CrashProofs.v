(* Proofs about Crash: for EVERY schedule (including senders dying in the middle of a fragmented send),
   what the receiver has delivered is, message by message and in order, exactly the non-aborted messages
   among a prefix of the linearisation order - whole messages, never shortened, never mixed. *)
From Coq Require Import List Arith Lia Bool.
From IPC Require Import Crash.
Import ListNotations.

Section CrashProofs.
Context {A : Type}.
Notation sys := (@Crash.sys A).
Notation chunk := (@Crash.chunk A).
Notation firstpkt := (@Crash.firstpkt A).
Notation rstate := (@Crash.rstate A).
Notation plan := (@Crash.plan A).
Notation label := (@Crash.label A).

Lemma upd_same {B} (f : mid -> B) k v : upd f k v k = v.
Proof. unfold upd. now rewrite Nat.eqb_refl. Qed.
Lemma upd_other {B} (f : mid -> B) k v x : x <> k -> upd f k v x = f x.
Proof. unfold upd. intros H. destruct (Nat.eqb_spec x k); congruence. Qed.

(* per-message relation between what is physically in the sockets and the ghost data *)
Definition owed (s : sys) (m : mid) : list A := concat (dedq s m) ++ concat (tosend s m).
(* [got] is what the receiver (or the first packet) already holds of message m *)
Definition data_ok (s : sys) (m : mid) (data got : list A) : Prop :=
  if is_aborted s m then exists lost, lost <> [] /\ data = got ++ concat (dedq s m) ++ lost
  else data = got ++ owed s m.
Definition pk_ok (s : sys) (pk : firstpkt) (d : mid * list A) : Prop :=
  f_mid pk = fst d /\ f_total pk = length (snd d) /\ data_ok s (fst d) (snd d) (f_chunk pk).
Definition rcv_ok (s : sys) (r : rstate) (d : mid * list A) : Prop :=
  r_mid r = fst d /\ r_total r = length (snd d) /\ data_ok s (fst d) (snd d) (r_buf r) /\ length (r_buf r) < r_total r.

Definition pend_ok (s : sys) (pend : list (mid * list A)) : Prop :=
  match rcv s with
  | None => Forall2 (pk_ok s) (mainq s) pend
  | Some r => exists d pend', pend = d :: pend' /\ rcv_ok s r d /\ Forall2 (pk_ok s) (mainq s) pend'
  end.

Record Inv (s : sys) : Prop := {
  i_lin : exists done pend, lin s = done ++ pend /\ delivered s = survivors s done /\ pend_ok s pend
            /\ (forall m, ~ In m (map fst pend) -> dedq s m = [] /\ tosend s m = []);
  i_nodup : NoDup (map fst (lin s));
  i_fresh : forall m, In m (map fst (lin s)) -> m < next s;
  i_ne : forall m, nonempty (dedq s m) /\ nonempty (tosend s m);
  i_ab : forall m, is_aborted s m = true -> In m (map fst (lin s)) /\ tosend s m = [] }.

Lemma concat_nonempty_nil (cs : list chunk) : nonempty cs -> concat cs = [] -> cs = [].
Proof. destruct cs as [|c cs]; [easy|]. intros H E. inversion H; subst. simpl in E.
  apply app_eq_nil in E. tauto. Qed.

Lemma owed_nil s m : nonempty (dedq s m) -> nonempty (tosend s m) -> owed s m = [] -> dedq s m = [] /\ tosend s m = [].
Proof. unfold owed. intros H1 H2 E. apply app_eq_nil in E. destruct E. split; now apply concat_nonempty_nil. Qed.

Lemma survivors_app (s : sys) l1 l2 : survivors s (l1 ++ l2) = survivors s l1 ++ survivors s l2.
Proof. unfold survivors. now rewrite filter_app, map_app. Qed.

Lemma survivors_single (s : sys) d : survivors s [d] = if is_aborted s (fst d) then [] else [snd d].
Proof. unfold survivors. simpl. destruct (is_aborted s (fst d)); reflexivity. Qed.

Lemma survivors_ext (s s' : sys) l :
  (forall d, In d l -> is_aborted s' (fst d) = is_aborted s (fst d)) -> survivors s' l = survivors s l.
Proof. intros H. unfold survivors. f_equal. apply filter_ext_in. intros d Hd. now rewrite H. Qed.

Lemma data_ok_same (s s' : sys) m data got :
  aborted s' = aborted s -> dedq s' m = dedq s m -> tosend s' m = tosend s m ->
  data_ok s m data got -> data_ok s' m data got.
Proof. unfold data_ok, owed, is_aborted. intros E1 E2 E3. rewrite E1, E2, E3. auto. Qed.

Lemma data_ok_len (s : sys) m data got : data_ok s m data got -> length got <= length data.
Proof. unfold data_ok. destruct (is_aborted s m); [intros (lost & _ & ->)|intros ->]; rewrite !app_length; lia. Qed.

(* frame: a change that preserves data_ok of the listed messages leaves pk_ok untouched *)
Lemma Forall2_pk_frame (s s' : sys) q pend :
  (forall m data got, In m (map fst pend) -> data_ok s m data got -> data_ok s' m data got) ->
  Forall2 (pk_ok s) q pend -> Forall2 (pk_ok s') q pend.
Proof.
  intros F H. induction H as [|pk d q pend Hd H IH]; constructor.
  - destruct Hd as (a & b & c). split; [exact a|]. split; [exact b|]. apply F; auto. simpl; auto.
  - apply IH. intros m data got Hm. apply F. simpl; auto.
Qed.

Lemma Inv_init : Inv init.
Proof. constructor; simpl.
  - exists [], []. repeat split; auto. constructor.
  - constructor.
  - tauto.
  - intros; split; constructor.
  - unfold is_aborted; simpl. discriminate. Qed.

Lemma NoDup_app_not_in {B} (l1 l2 : list B) x : NoDup (l1 ++ l2) -> In x l1 -> ~ In x l2.
Proof. induction l1 as [|a l1 IH]; simpl; [tauto|]. intros N [->|H].
  - inversion N; subst. intro. apply H1. apply in_or_app; auto.
  - inversion N; subst. auto. Qed.

Lemma NoDup_snoc {B} (l : list B) x : NoDup l -> ~ In x l -> NoDup (l ++ [x]).
Proof. induction l as [|a l IH]; simpl; intros N H; [constructor; [tauto|constructor]|].
  inversion N; subst. constructor; [|apply IH; tauto]. intro Hi. apply in_app_or in Hi. simpl in Hi. intuition; subst; tauto. Qed.

Lemma NoDup_app_r {B} (l1 l2 : list B) : NoDup (l1 ++ l2) -> NoDup l2.
Proof. induction l1; simpl; auto. intros N. inversion N; auto. Qed.

Lemma Inv_step s l s' : Inv s -> wf_label l -> step s l = Some s' -> Inv s'.
Proof.
  intros [ (done & pend & Hlin & Hdone & Hpend & Hout) Hnd Hfresh Hne Hab ] Hwf Hs.
  destruct l as [p | m | m | | | ]; simpl in Hs.
  - (* LStart *)
    injection Hs as <-. simpl in Hwf.
    match goal with |- Inv ?x => set (s' := x) end.
    assert (Hnew : ~ In (next s) (map fst (lin s))) by (intro Hi; apply Hfresh in Hi; lia).
    assert (Hnp : ~ In (next s) (map fst pend)).
    { intro Hi. apply Hnew. rewrite Hlin, map_app. apply in_or_app; auto. }
    assert (Hna : is_aborted s (next s) = false).
    { destruct (is_aborted s (next s)) eqn:E; auto. apply Hab in E. destruct E as [E _]. contradiction. }
    assert (Hframe : forall m data got, m <> next s -> data_ok s m data got -> data_ok s' m data got).
    { intros m data got Hm. apply data_ok_same; subst s'; simpl; auto; rewrite upd_other; auto. }
    assert (Hnewok : data_ok s' (next s) (pdata p) (p_first p)).
    { unfold data_ok. change (is_aborted s' (next s)) with (is_aborted s (next s)). rewrite Hna.
      unfold owed; subst s'; simpl. rewrite !upd_same. reflexivity. }
    constructor.
    + exists done, (pend ++ [(next s, pdata p)]). split; [|split; [|split]].
      * subst s'; simpl. rewrite Hlin, app_assoc; auto.
      * exact Hdone.
      * unfold pend_ok in *; simpl. destruct (rcv s) as [r|].
        -- destruct Hpend as (d & pend' & -> & Hr & Hq). exists d, (pend' ++ [(next s, pdata p)]). split; [reflexivity|]. split.
           ++ destruct Hr as (a & b & c & e). split; [exact a|]. split; [exact b|]. split; [|exact e].
              apply Hframe; auto. intro E. apply Hnp. simpl; auto.
           ++ apply Forall2_app.
              ** eapply Forall2_pk_frame; [|exact Hq]. intros m data got Hm. apply Hframe.
                 intro; subst. apply Hnp. simpl; auto.
              ** constructor; [|constructor]. split; [reflexivity|]. split; [reflexivity|]. exact Hnewok.
        -- apply Forall2_app.
           ++ eapply Forall2_pk_frame; [|exact Hpend]. intros m data got Hm. apply Hframe. intro; subst; auto.
           ++ constructor; [|constructor]. split; [reflexivity|]. split; [reflexivity|]. exact Hnewok.
      * intros m H. rewrite map_app in H. simpl in H.
        assert (m <> next s) by (intro; subst; apply H; apply in_or_app; simpl; auto).
        subst s'; simpl. rewrite !upd_other by auto. apply Hout. intro; apply H; apply in_or_app; auto.
    + subst s'; simpl. rewrite map_app; simpl. apply NoDup_snoc; auto.
    + subst s'; simpl. intros m Hm. rewrite map_app in Hm. apply in_app_or in Hm. simpl in Hm.
      destruct Hm as [Hm|[Hm|[]]]; [apply Hfresh in Hm; lia | subst; lia].
    + subst s'; simpl. intros m. unfold upd. destruct (Nat.eqb m (next s)); [split; [constructor|auto]|apply Hne].
    + intros m Hm. change (is_aborted s m = true) in Hm. destruct (Hab m Hm) as [H1 H2]. split.
      * subst s'; simpl. rewrite map_app. apply in_or_app; auto.
      * subst s'; simpl. rewrite upd_other; auto. apply Hfresh in H1. lia.
  - (* LFollow *)
    destruct (tosend s m) as [|c cs] eqn:Et; [discriminate|]. injection Hs as <-.
    match goal with |- Inv ?x => set (s' := x) end.
    assert (Hin : In m (map fst pend)).
    { destruct (in_dec Nat.eq_dec m (map fst pend)) as [H|H]; auto. apply Hout in H. destruct H. congruence. }
    assert (Hna : is_aborted s m = false).
    { destruct (is_aborted s m) eqn:E; auto. apply Hab in E. destruct E as [_ E]. congruence. }
    assert (Hframe : forall x data got, data_ok s x data got -> data_ok s' x data got).
    { intros x data got. destruct (Nat.eq_dec x m) as [->|Hx].
      - unfold data_ok. change (is_aborted s' m) with (is_aborted s m). rewrite Hna. intros ->. f_equal.
        unfold owed; subst s'; simpl. rewrite !upd_same, Et, concat_app. simpl. rewrite app_nil_r, <- app_assoc. reflexivity.
      - apply data_ok_same; subst s'; simpl; auto; rewrite upd_other; auto. }
    constructor.
    + exists done, pend. split; [exact Hlin|]. split; [exact Hdone|]. split.
      * unfold pend_ok in *; simpl. destruct (rcv s) as [r|].
        -- destruct Hpend as (d & pend' & -> & Hr & Hq). exists d, pend'. split; [reflexivity|]. split.
           ++ destruct Hr as (a & b & c0 & e). split; [exact a|]. split; [exact b|]. split; [|exact e]. apply Hframe; auto.
           ++ eapply Forall2_pk_frame; [|exact Hq]. auto.
        -- eapply Forall2_pk_frame; [|exact Hpend]. auto.
      * intros x H. assert (x <> m) by (intro; subst; auto).
        subst s'; simpl. rewrite !upd_other by auto. now apply Hout.
    + exact Hnd.
    + exact Hfresh.
    + subst s'; simpl. intros x. unfold upd. destruct (Nat.eqb_spec x m) as [->|]; [|apply Hne].
      destruct (Hne m) as [H1 H2]. rewrite Et in H2. inversion H2; subst. split; auto.
      apply Forall_app; split; auto.
    + intros x Hx. change (is_aborted s x = true) in Hx. destruct (Hab x Hx) as [H1 H2]. split; [exact H1|].
      subst s'; simpl. rewrite upd_other; auto. intro; subst. congruence.
  - (* LCrash *)
    destruct (tosend s m) as [|c cs] eqn:Et; [discriminate|]. injection Hs as <-.
    match goal with |- Inv ?x => set (s' := x) end.
    assert (Hin : In m (map fst pend)).
    { destruct (in_dec Nat.eq_dec m (map fst pend)) as [H|H]; auto. apply Hout in H. destruct H. congruence. }
    assert (Hna : is_aborted s m = false).
    { destruct (is_aborted s m) eqn:E; auto. apply Hab in E. destruct E as [_ E]. congruence. }
    assert (Hab_m : is_aborted s' m = true).
    { unfold is_aborted; subst s'; simpl. rewrite Nat.eqb_refl. reflexivity. }
    assert (Hab_o : forall x, x <> m -> is_aborted s' x = is_aborted s x).
    { intros x Hx. unfold is_aborted; subst s'; simpl. destruct (Nat.eqb_spec x m); [contradiction|reflexivity]. }
    assert (Hc : c <> []). { destruct (Hne m) as [_ N]. rewrite Et in N. inversion N; auto. }
    assert (Hframe : forall x data got, data_ok s x data got -> data_ok s' x data got).
    { intros x data got. destruct (Nat.eq_dec x m) as [->|Hx].
      - unfold data_ok. rewrite Hab_m, Hna. intros ->. exists (concat (c :: cs)). split.
        + simpl. intro E. apply app_eq_nil in E. tauto.
        + unfold owed. rewrite Et. reflexivity.
      - unfold data_ok. rewrite Hab_o by auto. unfold owed. subst s'; simpl. rewrite upd_other by auto. auto. }
    constructor.
    + exists done, pend. split; [exact Hlin|]. split; [|split].
      * change (delivered s') with (delivered s). rewrite Hdone. symmetry. apply survivors_ext.
        intros d Hd. apply Hab_o. intro E. rewrite Hlin, map_app in Hnd.
        eapply NoDup_app_not_in; [exact Hnd| |exact Hin]. rewrite <- E. apply in_map; auto.
      * unfold pend_ok in *; simpl. destruct (rcv s) as [r|].
        -- destruct Hpend as (d & pend' & -> & Hr & Hq). exists d, pend'. split; [reflexivity|]. split.
           ++ destruct Hr as (a & b & c0 & e). split; [exact a|]. split; [exact b|]. split; [|exact e]. apply Hframe; auto.
           ++ eapply Forall2_pk_frame; [|exact Hq]. auto.
        -- eapply Forall2_pk_frame; [|exact Hpend]. auto.
      * intros x H. assert (x <> m) by (intro; subst; auto).
        subst s'; simpl. rewrite !upd_other by auto. now apply Hout.
    + exact Hnd.
    + exact Hfresh.
    + subst s'; simpl. intros x. unfold upd. destruct (Nat.eqb_spec x m) as [->|]; [|apply Hne].
      split; [apply Hne|constructor].
    + intros x Hx. destruct (Nat.eq_dec x m) as [->|Hxm].
      * split.
        -- change (lin s') with (lin s). rewrite Hlin, map_app. apply in_or_app; auto.
        -- subst s'; simpl. apply upd_same.
      * rewrite Hab_o in Hx by auto. destruct (Hab x Hx) as [H1 H2]. split; [exact H1|].
        subst s'; simpl. rewrite upd_other; auto.
  - (* LRFirst *)
    destruct (rcv s) as [r|] eqn:Er; [discriminate|]. destruct (mainq s) as [|pk q] eqn:Eq; [discriminate|].
    unfold pend_ok in Hpend. rewrite Er, Eq in Hpend. inversion Hpend as [|? d ? pend' Hd Hq]; subst.
    destruct Hd as (Hm & Htot & Hdata).
    assert (Hdn : ~ In (fst d) (map fst pend')).
    { rewrite Hlin, map_app in Hnd. apply NoDup_app_r in Hnd. simpl in Hnd. now inversion Hnd. }
    destruct (Nat.eqb_spec (f_total pk) (length (f_chunk pk))) as [E|E]; injection Hs as <-;
      match goal with |- Inv ?x => set (s' := x) end.
    + assert (Hna : is_aborted s (fst d) = false).
      { destruct (is_aborted s (fst d)) eqn:Ea; auto. exfalso. unfold data_ok in Hdata. rewrite Ea in Hdata.
        destruct Hdata as (lost & Hl & Hd). rewrite Htot, Hd, !app_length in E.
        destruct lost; [congruence|simpl in E; lia]. }
      unfold data_ok in Hdata. rewrite Hna in Hdata.
      assert (Ho : owed s (fst d) = []).
      { rewrite Htot, Hdata, app_length in E. destruct (owed s (fst d)); auto. simpl in E. lia. }
      destruct (Hne (fst d)) as [N1 N2]. destruct (owed_nil _ _ N1 N2 Ho) as [D1 D2].
      constructor; [|exact Hnd|exact Hfresh|exact Hne|exact Hab].
      exists (done ++ [d]), pend'. split; [|split; [|split]].
      * change (lin s') with (lin s). rewrite Hlin, <- app_assoc. reflexivity.
      * change (delivered s ++ [f_chunk pk] = survivors s (done ++ [d])).
        rewrite survivors_app, survivors_single, Hna, Hdone. f_equal. rewrite Hdata, Ho, app_nil_r. reflexivity.
      * unfold pend_ok; simpl. eapply Forall2_pk_frame; [|exact Hq].
        intros m data got _. apply data_ok_same; reflexivity.
      * intros m H. change (dedq s m = [] /\ tosend s m = []).
        destruct (Nat.eq_dec m (fst d)) as [->|Hx]; auto. apply Hout. simpl. intros [?|?]; auto.
    + constructor; [|exact Hnd|exact Hfresh|exact Hne|exact Hab].
      exists done, (d :: pend'). split; [exact Hlin|]. split; [exact Hdone|]. split; [|exact Hout].
      unfold pend_ok; simpl. exists d, pend'. split; [reflexivity|]. split.
      * split; [exact Hm|]. split; [exact Htot|]. split; [eapply data_ok_same; [..|exact Hdata]; reflexivity|].
        simpl. pose proof (data_ok_len _ _ _ _ Hdata) as Hl. lia.
      * eapply Forall2_pk_frame; [|exact Hq]. intros m data got _. apply data_ok_same; reflexivity.
  - (* LRFollow *)
    destruct (rcv s) as [r|] eqn:Er; [|discriminate]. destruct (dedq s (r_mid r)) as [|c cs] eqn:Ed; [discriminate|].
    unfold pend_ok in Hpend. rewrite Er in Hpend. destruct Hpend as (d & pend' & -> & (Hm & Htot & Hdata & Hlt) & Hq).
    assert (Hdn : ~ In (fst d) (map fst pend')).
    { rewrite Hlin, map_app in Hnd. apply NoDup_app_r in Hnd. simpl in Hnd. now inversion Hnd. }
    assert (Hframe : forall t : sys, aborted t = aborted s -> dedq t = upd (dedq s) (r_mid r) cs -> tosend t = tosend s ->
       forall x data got, In x (map fst pend') -> data_ok s x data got -> data_ok t x data got).
    { intros t E1 E2 E3 x data got Hx. apply data_ok_same; auto; [|now rewrite E3].
      rewrite E2, upd_other; auto. rewrite Hm. intro; subst; auto. }
    destruct (Nat.leb_spec (r_total r) (length (r_buf r ++ c))) as [E|E]; injection Hs as <-;
      match goal with |- Inv ?x => set (s' := x) end.
    + assert (Hna : is_aborted s (fst d) = false).
      { destruct (is_aborted s (fst d)) eqn:Ea; auto. exfalso. unfold data_ok in Hdata. rewrite Ea in Hdata.
        destruct Hdata as (lost & Hl & Hd). rewrite <- Hm, Ed in Hd. simpl in Hd.
        rewrite Htot, Hd, !app_length in E. destruct lost; [congruence|simpl in E; lia]. }
      unfold data_ok in Hdata. rewrite Hna in Hdata.
      assert (Howed : owed s (fst d) = c ++ concat cs ++ concat (tosend s (fst d))).
      { unfold owed. rewrite <- Hm, Ed. simpl. now rewrite <- app_assoc. }
      assert (Hrest : concat cs ++ concat (tosend s (fst d)) = []).
      { remember (concat cs ++ concat (tosend s (fst d))) as X eqn:HX in *.
        rewrite Htot, Hdata, Howed in E. rewrite !app_length in E. destruct X; auto. simpl in E. lia. }
      apply app_eq_nil in Hrest. destruct Hrest as [R1 R2].
      destruct (Hne (fst d)) as [N1 N2]. rewrite <- Hm, Ed in N1. inversion N1; subst.
      apply concat_nonempty_nil in R1; auto. apply concat_nonempty_nil in R2; auto. subst cs.
      constructor; [|exact Hnd|exact Hfresh| |exact Hab].
      * exists (done ++ [d]), pend'. split; [|split; [|split]].
        -- change (lin s') with (lin s). rewrite Hlin, <- app_assoc. reflexivity.
        -- change (delivered s ++ [r_buf r ++ c] = survivors s (done ++ [d])).
           rewrite survivors_app, survivors_single, Hna, Hdone. f_equal.
           rewrite Hdata, Howed, R2. simpl. now rewrite app_nil_r.
        -- unfold pend_ok; simpl. eapply Forall2_pk_frame; [|exact Hq]. apply Hframe; reflexivity.
        -- intros m H. subst s'; simpl. split.
           ++ destruct (Nat.eq_dec m (r_mid r)) as [->|Hx]; [now rewrite upd_same|]. rewrite upd_other by auto.
              apply Hout. simpl. rewrite <- Hm. intros [?|?]; auto.
           ++ destruct (Nat.eq_dec m (fst d)) as [->|Hx]; auto. apply Hout. simpl. intros [?|?]; auto.
      * subst s'; simpl. intros x. unfold upd. destruct (Nat.eqb_spec x (r_mid r)) as [->|]; [|apply Hne].
        split; [constructor|apply Hne].
    + assert (Hdata' : data_ok s' (fst d) (snd d) (r_buf r ++ c)).
      { unfold data_ok in *. change (is_aborted s' (fst d)) with (is_aborted s (fst d)).
        destruct (is_aborted s (fst d)).
        - destruct Hdata as (lost & Hl & Hd). exists lost. split; auto. rewrite Hd.
          subst s'; simpl. rewrite <- Hm, upd_same, Ed. simpl. rewrite <- !app_assoc. reflexivity.
        - rewrite Hdata. unfold owed. subst s'; simpl. rewrite <- Hm, upd_same, Ed. simpl.
          rewrite <- !app_assoc. reflexivity. }
      constructor; [|exact Hnd|exact Hfresh| |exact Hab].
      * exists done, (d :: pend'). split; [exact Hlin|]. split; [exact Hdone|]. split.
        -- unfold pend_ok; simpl. exists d, pend'. split; [reflexivity|]. split.
           ++ split; [exact Hm|]. split; [exact Htot|]. split; [exact Hdata'|]. simpl. exact E.
           ++ eapply Forall2_pk_frame; [|exact Hq]. apply Hframe; reflexivity.
        -- intros m H. subst s'; simpl. split.
           ++ rewrite upd_other; [now apply Hout|]. rewrite Hm. intro; subst. apply H. simpl; auto.
           ++ now apply Hout.
      * subst s'; simpl. intros x. unfold upd. destruct (Nat.eqb_spec x (r_mid r)) as [->|]; [|apply Hne].
        destruct (Hne (r_mid r)) as [N1 N2]. rewrite Ed in N1. inversion N1; subst. split; auto.
  - (* LRSkip *)
    destruct (rcv s) as [r|] eqn:Er; [|discriminate].
    destruct (dedq s (r_mid r)) as [|? ?] eqn:Ed; simpl in Hs; [|discriminate].
    destruct (tosend s (r_mid r)) as [|? ?] eqn:Et; simpl in Hs; [|discriminate].
    injection Hs as <-.
    match goal with |- Inv ?x => set (s' := x) end.
    unfold pend_ok in Hpend. rewrite Er in Hpend. destruct Hpend as (d & pend' & -> & (Hm & Htot & Hdata & Hlt) & Hq).
    assert (Ha : is_aborted s (fst d) = true).
    { destruct (is_aborted s (fst d)) eqn:Ea; auto. exfalso. unfold data_ok in Hdata. rewrite Ea in Hdata.
      unfold owed in Hdata. rewrite <- Hm, Ed, Et in Hdata. simpl in Hdata. rewrite app_nil_r in Hdata.
      rewrite Htot, Hdata in Hlt. lia. }
    constructor; [|exact Hnd|exact Hfresh|exact Hne|exact Hab].
    exists (done ++ [d]), pend'. split; [|split; [|split]].
    + change (lin s') with (lin s). rewrite Hlin, <- app_assoc. reflexivity.
    + change (delivered s = survivors s (done ++ [d])).
      rewrite survivors_app, survivors_single, Ha, app_nil_r. exact Hdone.
    + unfold pend_ok; simpl. eapply Forall2_pk_frame; [|exact Hq].
      intros m data got _. apply data_ok_same; reflexivity.
    + intros m H. change (dedq s m = [] /\ tosend s m = []).
      destruct (Nat.eq_dec m (fst d)) as [->|Hx]; [rewrite <- Hm; auto|]. apply Hout. simpl. intros [?|?]; auto.
Qed.

Lemma Inv_run : forall (ls : list label) (s0 s : sys), Inv s0 -> Forall wf_label ls -> run s0 ls = Some s -> Inv s.
Proof.
  induction ls as [|l ls IH]; simpl; intros s0 s I W R; [now injection R as <-|].
  inversion W; subst. destruct (step s0 l) as [s1|] eqn:E; [|discriminate]. apply (IH s1 s); auto. eapply Inv_step; eauto.
Qed.

Lemma Inv_reach (ls : list label) (s : sys) : Forall wf_label ls -> run init ls = Some s -> Inv s.
Proof. intros W R. exact (Inv_run ls init s Inv_init W R). Qed.

Theorem crash_delivered : forall (ls : list label) (s : sys), Forall wf_label ls -> run init ls = Some s ->
  exists k, k <= length (lin s) /\ delivered s = survivors s (firstn k (lin s)).
Proof.
  intros ls s W R. destruct (Inv_reach ls s W R) as [ (done & pend & Hlin & Hdone & _) _ _ _ _ ].
  exists (length done). split.
  - rewrite Hlin, app_length. lia.
  - rewrite Hlin, firstn_app, Nat.sub_diag, firstn_all. simpl. rewrite app_nil_r. exact Hdone.
Qed.

Theorem crash_quiescent_complete : forall (ls : list label) (s : sys), Forall wf_label ls -> run init ls = Some s ->
  quiescent s -> delivered s = survivors s (lin s).
Proof.
  intros ls s W R (Q1 & Q2 & _). destruct (Inv_reach ls s W R) as [ (done & pend & Hlin & Hdone & Hpend & _) _ _ _ _ ].
  unfold pend_ok in Hpend. rewrite Q2, Q1 in Hpend. inversion Hpend; subst.
  rewrite Hlin, app_nil_r. exact Hdone.
Qed.

Theorem crash_receiver_never_stuck : forall (ls : list label) (s : sys) (r : rstate),
  Forall wf_label ls -> run init ls = Some s -> rcv s = Some r ->
  (exists s', step s LRFollow = Some s') \/ (exists s', step s LRSkip = Some s') \/
  (exists s', step s (LFollow (r_mid r)) = Some s').
Proof.
  intros ls s r _ _ Er. unfold step. rewrite Er. destruct (dedq s (r_mid r)) as [|c cs] eqn:Ed.
  - destruct (tosend s (r_mid r)) as [|c cs] eqn:Et.
    + right; left. simpl. eauto.
    + right; right. eauto.
  - left. destruct (Nat.leb (r_total r) (length (r_buf r ++ c))); eauto.
Qed.

Theorem crash_skip_only_aborted : forall (ls : list label) (s : sys) (r : rstate) (s' : sys),
  Forall wf_label ls -> run init ls = Some s -> rcv s = Some r -> step s LRSkip = Some s' ->
  is_aborted s (r_mid r) = true.
Proof.
  intros ls s r s' W R Er Hs. destruct (Inv_reach ls s W R) as [ (done & pend & Hlin & Hdone & Hpend & _) _ _ _ _ ].
  unfold step in Hs. rewrite Er in Hs.
  destruct (dedq s (r_mid r)) as [|? ?] eqn:Ed; simpl in Hs; [|discriminate].
  destruct (tosend s (r_mid r)) as [|? ?] eqn:Et; simpl in Hs; [|discriminate].
  unfold pend_ok in Hpend. rewrite Er in Hpend. destruct Hpend as (d & pend' & -> & (Hm & Htot & Hdata & Hlt) & Hq).
  rewrite Hm. destruct (is_aborted s (fst d)) eqn:Ea; auto. exfalso. unfold data_ok in Hdata. rewrite Ea in Hdata.
  unfold owed in Hdata. rewrite <- Hm, Ed, Et in Hdata. simpl in Hdata. rewrite app_nil_r in Hdata.
  rewrite Htot, Hdata in Hlt. lia.
Qed.

Theorem crash_aborted_unfinished : forall (ls : list label) (s : sys) (m : mid),
  Forall wf_label ls -> run init ls = Some s -> is_aborted s m = true ->
  In m (map fst (lin s)) /\ tosend s m = [].
Proof.
  intros ls s m W R Ha. destruct (Inv_reach ls s W R) as [ _ _ _ _ Hab ]. exact (Hab m Ha).
Qed.
End CrashProofs.

Print Assumptions crash_delivered.
Print Assumptions crash_quiescent_complete.
Print Assumptions crash_receiver_never_stuck.
Print Assumptions crash_skip_only_aborted.
Print Assumptions crash_aborted_unfinished.
