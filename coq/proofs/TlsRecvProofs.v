(* TlsRecvProofs: the receive-side attachment tables (model/TlsRecv.v), mirror of TlsProofs.v (send side).
     to_frame               after ANY decode (ok, failed at any point, nested to any depth) the thread-locals are as before
     des_own / own_des      a decode succeeds iff its own level, run in isolation on its own message, succeeds, and then it
                            obtains exactly the attachments its own level asks for (nested decodes do not disturb it)
     des_nest_eq            a nested decode contributes `nested_part fuel b msg` and nothing else: full equation
     nested_independent     the `inner` entries of a nested decode are a function of (fuel, inner body, inner message) only
     nested_self_contained  the result of a DNest step, for any enclosing tables
     des_conserves(_r)      everything handed out at this level was attached to THIS message
     des_conserves_perm(_r) multiset form: taken + left = what was there (holds for failed decodes as well)
     des_fuel_enough        fuel `size body` is enough *)
From Coq Require Import List Arith Lia Bool Permutation.
From IPC Require Import TlsRecv.
Import ListNotations.

Lemma tabs_eta : forall t, {| tc := tc t; tr := tr t |} = t.
Proof. destruct t; reflexivity. Qed.

(* ---------- 1. frame ---------- *)

Theorem to_frame : forall fuel msg body tl res tl' o,
  to_ fuel msg body tl = (res, tl', o) -> tl' = tl.
Proof.
  intros fuel msg body tl res tl' o H. unfold to_ in H.
  destruct (des fuel body msg) as [[res0 t0] o0]. inversion H. reflexivity.
Qed.

(* the decode itself never looks at the thread-locals it was called with *)
Theorem to_tl_irrelevant : forall fuel msg body tl1 tl2,
  fst (fst (to_ fuel msg body tl1)) = fst (fst (to_ fuel msg body tl2)) /\
  snd (to_ fuel msg body tl1) = snd (to_ fuel msg body tl2).
Proof.
  intros. unfold to_. destruct (des fuel body msg) as [[res0 t0] o0]. cbn. split; reflexivity.
Qed.

(* ---------- 2. own level ---------- *)

Theorem des_own : forall fuel body msg tl' o,
  des fuel body msg = (DecOk, tl', o) -> own fuel body msg = Some (got_c o, got_r o).
Proof.
  induction fuel as [|f IH]; intros body msg tl' o H.
  - cbn in H. discriminate.
  - destruct body as [|a r].
    + cbn in H. inversion H; subst. reflexivity.
    + destruct a as [|i|i|m b p|]; cbn [des] in H; cbn [own].
      * eapply IH; eauto.
      * destruct (take_nth (tc msg) i) as [[e c']|]; [|discriminate].
        destruct (des f r {| tc := c'; tr := tr msg |}) as [[res0 t0] o0] eqn:D.
        inversion H; subst. apply IH in D. rewrite D. reflexivity.
      * destruct (take_nth (tr msg) i) as [[g r']|]; [|discriminate].
        destruct (des f r {| tc := tc msg; tr := r' |}) as [[res0 t0] o0] eqn:D.
        inversion H; subst. apply IH in D. rewrite D. reflexivity.
      * destruct (des f b m) as [[res1 t1] o1].
        destruct res1, p;
          try discriminate;
          destruct (des f r msg) as [[res0 t0] o0] eqn:D;
          inversion H; subst; apply IH in D; exact D.
      * discriminate.
Qed.

(* the converse: if the own level succeeds in isolation, the decode succeeds and hands out exactly that *)
Theorem own_des : forall fuel body msg cs rs,
  own fuel body msg = Some (cs, rs) ->
  exists tl' o, des fuel body msg = (DecOk, tl', o) /\ got_c o = cs /\ got_r o = rs.
Proof.
  induction fuel as [|f IH]; intros body msg cs rs H.
  - cbn in H. discriminate.
  - destruct body as [|a r].
    + cbn in H. inversion H; subst. cbn. eexists _, _. repeat split.
    + destruct a as [|i|i|m b p|]; cbn [own] in H; cbn [des].
      * apply IH; exact H.
      * destruct (take_nth (tc msg) i) as [[e c']|]; [|discriminate].
        destruct (own f r {| tc := c'; tr := tr msg |}) as [[cs0 rs0]|] eqn:O; [|discriminate].
        inversion H; subst. apply IH in O. destruct O as (t0 & o0 & D & Hc & Hr).
        rewrite D. eexists _, _. split; [reflexivity|]. cbn. subst. split; reflexivity.
      * destruct (take_nth (tr msg) i) as [[g r']|]; [|discriminate].
        destruct (own f r {| tc := tc msg; tr := r' |}) as [[cs0 rs0]|] eqn:O; [|discriminate].
        inversion H; subst. apply IH in O. destruct O as (t0 & o0 & D & Hc & Hr).
        rewrite D. eexists _, _. split; [reflexivity|]. cbn. subst. split; reflexivity.
      * destruct (des f b m) as [[res1 t1] o1].
        destruct res1, p; try discriminate;
          apply IH in H; destruct H as (t0 & o0 & D & Hc & Hr);
          rewrite D; eexists _, _; (split; [reflexivity|]); cbn; split; assumption.
      * discriminate.
Qed.

Corollary des_ok_iff_own : forall fuel body msg,
  fst (fst (des fuel body msg)) = DecOk <-> own fuel body msg <> None.
Proof.
  intros fuel body msg. split.
  - destruct (des fuel body msg) as [[res t0] o0] eqn:D. cbn. intros ->.
    apply des_own in D. rewrite D. discriminate.
  - destruct (own fuel body msg) as [[cs rs]|] eqn:O; [|intros H; contradiction H; reflexivity].
    intros _. apply own_des in O. destruct O as (t0 & o0 & D & _). rewrite D. reflexivity.
Qed.

Corollary to_own : forall fuel msg body tl tl' o,
  to_ fuel msg body tl = (DecOk, tl', o) -> own fuel body msg = Some (got_c o, got_r o).
Proof.
  intros fuel msg body tl tl' o H. unfold to_ in H.
  destruct (des fuel body msg) as [[res0 t0] o0] eqn:D. inversion H; subst.
  eapply des_own; eauto.
Qed.

(* ---------- 3. nested decodes are self-contained ---------- *)

(* everything a DNest step uses of the nested decode; note: no mention of the enclosing tables *)
Definition nested_part (fuel : nat) (b : list dact) (msg : tabs) : dres * list nat * list nat * list (list nat * list nat) :=
  let '(res1, _, o1) := des fuel b msg in (res1, got_c o1, got_r o1, inner o1).

(* the `inner` entries the nested decode contributes: those of its own nested decodes, then its own if it succeeded *)
Definition nested_entries (fuel : nat) (b : list dact) (msg : tabs) : list (list nat * list nat) :=
  let '(res1, gc, gr, inn) := nested_part fuel b msg in
  inn ++ (match res1 with DecOk => [(gc, gr)] | DecErr => [] end).

(* does the nested decode abort the enclosing one? *)
Definition nested_aborts (fuel : nat) (b : list dact) (msg : tabs) (prop : bool) : bool :=
  match fst (fst (fst (nested_part fuel b msg))), prop with DecErr, true => true | _, _ => false end.

(* full equation of a DNest step: the enclosing tables `tl` reach only the continuation `r`, unchanged *)
Theorem des_nest_eq : forall f msg b prop r tl,
  des (S f) (DNest msg b prop :: r) tl =
  if nested_aborts f b msg prop
  then (DecErr, tl, {| got_c := []; got_r := []; inner := nested_entries f b msg |})
  else let '(res, tl', o) := des f r tl in
       (res, tl', {| got_c := got_c o; got_r := got_r o; inner := nested_entries f b msg ++ inner o |}).
Proof.
  intros f msg b prop r tl. cbn [des]. unfold nested_aborts, nested_entries, nested_part.
  destruct (des f b msg) as [[res1 t1] o1]. cbn.
  destruct res1, prop; cbn.
  - destruct (des f r tl) as [[res0 t0] o0]. rewrite <- app_assoc. reflexivity.
  - destruct (des f r tl) as [[res0 t0] o0]. rewrite <- app_assoc. reflexivity.
  - rewrite app_nil_r. reflexivity.
  - destruct (des f r tl) as [[res0 t0] o0]. rewrite app_nil_r. reflexivity.
Qed.

(* what the nested decode obtained is a function of (fuel, inner body, inner message): the first summand does not
   mention `tl`; the enclosing tables influence only what the continuation contributes afterwards *)
Theorem nested_independent : forall f msg b prop r tl,
  inner (snd (des (S f) (DNest msg b prop :: r) tl)) =
  nested_entries f b msg ++ (if nested_aborts f b msg prop then [] else inner (snd (des f r tl))).
Proof.
  intros f msg b prop r tl. rewrite des_nest_eq.
  destruct (nested_aborts f b msg prop).
  - cbn. rewrite app_nil_r. reflexivity.
  - destruct (des f r tl) as [[res0 t0] o0]. reflexivity.
Qed.

(* two-run form: under any two enclosing tables the nested decode contributes the same entries, in front *)
Corollary nested_independent2 : forall f msg b prop r tl1 tl2,
  exists rest1 rest2,
    inner (snd (des (S f) (DNest msg b prop :: r) tl1)) = nested_entries f b msg ++ rest1 /\
    inner (snd (des (S f) (DNest msg b prop :: r) tl2)) = nested_entries f b msg ++ rest2.
Proof.
  intros. eexists _, _. split; apply nested_independent.
Qed.

(* whether the enclosing decode is aborted is likewise decided by the nested decode alone *)
Corollary nested_result : forall f msg b prop r tl,
  fst (fst (des (S f) (DNest msg b prop :: r) tl)) =
  if nested_aborts f b msg prop then DecErr else fst (fst (des f r tl)).
Proof.
  intros. rewrite des_nest_eq. destruct (nested_aborts f b msg prop); [reflexivity|].
  destruct (des f r tl) as [[res0 t0] o0]. reflexivity.
Qed.

(* the statement as first proposed (the hypothesis is not needed) *)
Theorem nested_self_contained : forall fuel msg b prop r tl res tl' o,
  des (S fuel) (DNest msg b prop :: r) tl = (res, tl', o) ->
  forall tl2, exists tl2' o2,
    des (S fuel) (DNest msg b prop :: r) tl2 =
    (match des fuel b msg with
     | (DecErr, _, _) => if prop then DecErr else fst (fst (des fuel r tl2))
     | _ => fst (fst (des fuel r tl2))
     end, tl2', o2).
Proof.
  intros fuel msg b prop r tl res tl' o _ tl2. cbn [des].
  destruct (des fuel b msg) as [[res1 t1] o1].
  destruct res1, prop; try (eexists _, _; reflexivity);
    destruct (des fuel r tl2) as [[res0 t0] o0]; eexists _, _; reflexivity.
Qed.

(* ---------- 4. conservation ---------- *)

Definition is_some (x : option nat) : bool := match x with Some _ => true | None => false end.

Lemma take_nth_perm : forall l i x l',
  take_nth l i = Some (x, l') ->
  Permutation (Some x :: filter is_some l') (filter is_some l).
Proof.
  induction l as [|h t IH]; intros i x l' H.
  - destruct i; discriminate.
  - destruct h as [y|], i as [|j]; cbn in H.
    + inversion H; subst. cbn. reflexivity.
    + destruct (take_nth t j) as [[x0 t']|] eqn:E; [|discriminate].
      inversion H; subst. cbn. etransitivity; [apply perm_swap|].
      apply perm_skip. eapply IH; eauto.
    + discriminate.
    + destruct (take_nth t j) as [[x0 t']|] eqn:E; [|discriminate].
      inversion H; subst. cbn. eapply IH; eauto.
Qed.

(* taking leaves the table's shape alone: same length *)
Lemma take_nth_length : forall l i x l', take_nth l i = Some (x, l') -> length l' = length l.
Proof.
  induction l as [|h t IH]; intros i x l' H.
  - destruct i; discriminate.
  - destruct h as [y|], i as [|j]; cbn in H; try discriminate.
    + inversion H; subst. reflexivity.
    + destruct (take_nth t j) as [[x0 t']|] eqn:E; [|discriminate].
      inversion H; subst. cbn. f_equal. eapply IH; eauto.
    + destruct (take_nth t j) as [[x0 t']|] eqn:E; [|discriminate].
      inversion H; subst. cbn. f_equal. eapply IH; eauto.
Qed.

(* what was taken at this level + what is left = what was there; for every outcome, failed decodes included *)
Lemma des_perm : forall fuel body tl res tl' o,
  des fuel body tl = (res, tl', o) ->
  Permutation (map Some (got_c o) ++ filter is_some (tc tl')) (filter is_some (tc tl)) /\
  Permutation (map Some (got_r o) ++ filter is_some (tr tl')) (filter is_some (tr tl)).
Proof.
  induction fuel as [|f IH]; intros body tl res tl' o H.
  - cbn in H. inversion H; subst. cbn. split; reflexivity.
  - destruct body as [|a r].
    + cbn in H. inversion H; subst. cbn. split; reflexivity.
    + destruct a as [|i|i|m b p|]; cbn [des] in H.
      * eapply IH; eauto.
      * destruct (take_nth (tc tl) i) as [[e c']|] eqn:E.
        -- destruct (des f r {| tc := c'; tr := tr tl |}) as [[res0 t0] o0] eqn:D.
           inversion H; subst. apply IH in D. cbn in D. destruct D as [D1 D2]. cbn.
           split; [|exact D2].
           etransitivity; [apply perm_skip; exact D1|]. eapply take_nth_perm; eauto.
        -- inversion H; subst. cbn. split; reflexivity.
      * destruct (take_nth (tr tl) i) as [[g r']|] eqn:E.
        -- destruct (des f r {| tc := tc tl; tr := r' |}) as [[res0 t0] o0] eqn:D.
           inversion H; subst. apply IH in D. cbn in D. destruct D as [D1 D2]. cbn.
           split; [exact D1|].
           etransitivity; [apply perm_skip; exact D2|]. eapply take_nth_perm; eauto.
        -- inversion H; subst. cbn. split; reflexivity.
      * destruct (des f b m) as [[res1 t1] o1].
        destruct res1, p;
          try (inversion H; subst; cbn; split; reflexivity);
          destruct (des f r tl) as [[res0 t0] o0] eqn:D;
          inversion H; subst; apply IH in D; exact D.
      * inversion H; subst. cbn. split; reflexivity.
Qed.

Theorem des_conserves_perm : forall fuel body tl res tl' o,
  des fuel body tl = (res, tl', o) ->
  Permutation (map Some (got_c o) ++ filter is_some (tc tl')) (filter is_some (tc tl)).
Proof. intros. eapply des_perm; eauto. Qed.

Theorem des_conserves_perm_r : forall fuel body tl res tl' o,
  des fuel body tl = (res, tl', o) ->
  Permutation (map Some (got_r o) ++ filter is_some (tr tl')) (filter is_some (tr tl)).
Proof. intros. eapply des_perm; eauto. Qed.

Lemma perm_conserves_in : forall (g : list nat) (rest l : list (option nat)),
  Permutation (map Some g ++ filter is_some rest) (filter is_some l) ->
  forall x, In x g -> In (Some x) l.
Proof.
  intros g rest l P x Hx.
  assert (In (Some x) (filter is_some l)) as Hin.
  { eapply Permutation_in; [exact P|]. apply in_or_app. left. apply in_map. exact Hx. }
  apply filter_In in Hin. tauto.
Qed.

Theorem des_conserves : forall fuel body tl res tl' o,
  des fuel body tl = (res, tl', o) -> res = DecOk ->
  forall x, In x (got_c o) -> In (Some x) (tc tl).
Proof.
  intros fuel body tl res tl' o H _. eapply perm_conserves_in. eapply des_conserves_perm; eauto.
Qed.

Theorem des_conserves_r : forall fuel body tl res tl' o,
  des fuel body tl = (res, tl', o) -> res = DecOk ->
  forall x, In x (got_r o) -> In (Some x) (tr tl).
Proof.
  intros fuel body tl res tl' o H _. eapply perm_conserves_in. eapply des_conserves_perm_r; eauto.
Qed.

(* no attachment is handed out twice at one level when the table had no duplicates *)
Corollary des_no_dup : forall fuel body tl res tl' o,
  des fuel body tl = (res, tl', o) ->
  NoDup (filter is_some (tc tl)) -> NoDup (got_c o).
Proof.
  intros fuel body tl res tl' o H N.
  apply des_conserves_perm in H. apply Permutation_sym in H.
  pose proof (Permutation_NoDup H N) as N2.
  revert N2. generalize (filter is_some (tc tl')) as rest. generalize (got_c o) as g.
  induction g as [|x g IHg]; intros rest N2; [constructor|].
  cbn in N2. inversion N2 as [|y l' Hnin Hnd]; subst. constructor.
  - intros Hx. apply Hnin. apply in_or_app. left. apply in_map. exact Hx.
  - eapply IHg. exact Hnd.
Qed.

(* at the top level: everything the decoded value holds was attached to the message being decoded *)
Corollary to_conserves : forall fuel msg body tl res tl' o,
  to_ fuel msg body tl = (res, tl', o) ->
  (forall x, In x (got_c o) -> In (Some x) (tc msg)) /\
  (forall x, In x (got_r o) -> In (Some x) (tr msg)).
Proof.
  intros fuel msg body tl res tl' o H. unfold to_ in H.
  destruct (des fuel body msg) as [[res0 t0] o0] eqn:D. inversion H; subst.
  pose proof (des_perm _ _ _ _ _ _ D) as [P1 P2].
  split; eapply perm_conserves_in; eauto.
Qed.

(* ---------- 5. fuel ---------- *)

Lemma size_cons : forall a r, size (a :: r) = size_act a + size r.
Proof. intros a r. unfold size. cbn [fold_right]. lia. Qed.

Lemma size_pos : forall r, 1 <= size r.
Proof. intros r. unfold size. lia. Qed.

Lemma size_act_nest : forall m b p, size_act (DNest m b p) = size b.
Proof.
  (* the local fix in size_act is convertible with the fold_right in size *)
  intros m b p. reflexivity.
Qed.

Lemma des_fuel_mono : forall f1 body tl f2,
  size body <= f1 -> f1 <= f2 -> des f1 body tl = des f2 body tl.
Proof.
  induction f1 as [|f IH]; intros body tl f2 Hs Hle.
  - pose proof (size_pos body). lia.
  - destruct f2 as [|g]; [lia|].
    destruct body as [|a r]; [reflexivity|].
    rewrite size_cons in Hs.
    pose proof (size_pos r) as Hr.
    destruct a as [|i|i|m b p|]; cbn [des].
    + cbn [size_act] in Hs. apply IH; lia.
    + cbn [size_act] in Hs. destruct (take_nth (tc tl) i) as [[e c']|]; [|reflexivity].
      rewrite (IH r _ g) by lia. reflexivity.
    + cbn [size_act] in Hs. destruct (take_nth (tr tl) i) as [[e c']|]; [|reflexivity].
      rewrite (IH r _ g) by lia. reflexivity.
    + rewrite size_act_nest in Hs. pose proof (size_pos b) as Hb.
      rewrite (IH b m g) by lia. rewrite (IH r tl g) by lia. reflexivity.
    + reflexivity.
Qed.

(* with fuel `size body` the out-of-fuel branch plays no role: every larger fuel gives the same result *)
Theorem des_fuel_enough : forall body tl fuel,
  size body <= fuel -> des fuel body tl = des (size body) body tl.
Proof.
  intros body tl fuel H. symmetry. apply des_fuel_mono; lia.
Qed.

Lemma own_fuel_mono : forall f1 body msg f2,
  size body <= f1 -> f1 <= f2 -> own f1 body msg = own f2 body msg.
Proof.
  induction f1 as [|f IH]; intros body msg f2 Hs Hle.
  - pose proof (size_pos body). lia.
  - destruct f2 as [|g]; [lia|].
    destruct body as [|a r]; [reflexivity|].
    rewrite size_cons in Hs.
    pose proof (size_pos r) as Hr.
    destruct a as [|i|i|m b p|]; cbn [own].
    + cbn [size_act] in Hs. apply IH; lia.
    + cbn [size_act] in Hs. destruct (take_nth (tc msg) i) as [[e c']|]; [|reflexivity].
      rewrite (IH r _ g) by lia. reflexivity.
    + cbn [size_act] in Hs. destruct (take_nth (tr msg) i) as [[e c']|]; [|reflexivity].
      rewrite (IH r _ g) by lia. reflexivity.
    + rewrite size_act_nest in Hs. pose proof (size_pos b) as Hb.
      destruct p.
      * rewrite (des_fuel_mono f b m g) by lia. rewrite (IH r msg g) by lia. reflexivity.
      * apply IH; lia.
    + reflexivity.
Qed.

Theorem own_fuel_enough : forall body msg fuel,
  size body <= fuel -> own fuel body msg = own (size body) body msg.
Proof.
  intros body msg fuel H. symmetry. apply own_fuel_mono; lia.
Qed.

Theorem to_fuel_enough : forall msg body tl fuel,
  size body <= fuel -> to_ fuel msg body tl = to_ (size body) msg body tl.
Proof.
  intros msg body tl fuel H. unfold to_. rewrite (des_fuel_enough body msg fuel H). reflexivity.
Qed.

(* ---------- 6. concrete runs ---------- *)

Example tlsrecv_ex :
  to_ 20 {| tc := [Some 10; Some 11]; tr := [] |}
      [DChan 1; DNest {| tc := [Some 20]; tr := [Some 5] |} [DChan 0; DRegion 0] false; DChan 0]
      {| tc := [Some 99]; tr := [] |}
  = (DecOk, {| tc := [Some 99]; tr := [] |},
     {| got_c := [11; 10]; got_r := []; inner := [([20], [5])] |}).
Proof. vm_compute. reflexivity. Qed.

(* the nested decode fails (takes its only channel twice): not propagated, the outer decode is undisturbed and
   nothing is recorded for the inner one *)
Example tlsrecv_ex_inner_err :
  to_ 20 {| tc := [Some 10; Some 11]; tr := [] |}
      [DChan 1; DNest {| tc := [Some 20]; tr := [Some 5] |} [DChan 0; DChan 0] false; DChan 0]
      {| tc := [Some 99]; tr := [] |}
  = (DecOk, {| tc := [Some 99]; tr := [] |},
     {| got_c := [11; 10]; got_r := []; inner := [] |}).
Proof. vm_compute. reflexivity. Qed.

(* the same, propagated: the outer decode fails, the thread-locals are still as before *)
Example tlsrecv_ex_inner_err_prop :
  to_ 20 {| tc := [Some 10; Some 11]; tr := [] |}
      [DChan 1; DNest {| tc := [Some 20]; tr := [Some 5] |} [DChan 0; DChan 0] true; DChan 0]
      {| tc := [Some 99]; tr := [] |}
  = (DecErr, {| tc := [Some 99]; tr := [] |},
     {| got_c := [11]; got_r := []; inner := [] |}).
Proof. vm_compute. reflexivity. Qed.

(* the outer level cannot take from the inner message: index 0 of the OUTER table is taken twice -> error,
   although the inner message had a channel at index 0 *)
Example tlsrecv_ex_no_cross :
  to_ 20 {| tc := [Some 10]; tr := [] |}
      [DChan 0; DNest {| tc := [Some 20]; tr := [] |} [] false; DChan 0]
      {| tc := []; tr := [] |}
  = (DecErr, {| tc := []; tr := [] |},
     {| got_c := [10]; got_r := []; inner := [([], [])] |}).
Proof. vm_compute. reflexivity. Qed.

Example tlsrecv_ex_size :
  size [DChan 1; DNest {| tc := [Some 20]; tr := [Some 5] |} [DChan 0; DRegion 0] false; DChan 0] = 6.
Proof. vm_compute. reflexivity. Qed.

Print Assumptions to_frame.
Print Assumptions to_tl_irrelevant.
Print Assumptions des_own.
Print Assumptions own_des.
Print Assumptions des_ok_iff_own.
Print Assumptions to_own.
Print Assumptions des_nest_eq.
Print Assumptions nested_independent.
Print Assumptions nested_independent2.
Print Assumptions nested_result.
Print Assumptions nested_self_contained.
Print Assumptions des_conserves.
Print Assumptions des_conserves_r.
Print Assumptions des_conserves_perm.
Print Assumptions des_conserves_perm_r.
Print Assumptions des_no_dup.
Print Assumptions to_conserves.
Print Assumptions des_fuel_enough.
Print Assumptions own_fuel_enough.
Print Assumptions to_fuel_enough.
