(* Frag-level facts for C09: a transmission attempt that finds the receiving end gone (EPIPE/ECONNRESET)
   ends the send with an error at once; success is never reported after such an attempt; if the
   receiver is gone before the send starts, nothing at all is queued. *)
From Coq Require Import ZArith List Bool Lia.
From IPC Require Import U64 Params Frag ParamsFacts FragProofs.
Import ListNotations.
Open Scope Z_scope.

Definition is_pipe (e : ev) : bool :=
  match e with EvSendmsg _ _ _ _ _ SPipe | EvSend _ _ SPipe => true | _ => false end.
Definition has_pipe (evs : list ev) : bool := existsb is_pipe evs.

Lemma loop_pipe : forall fuel len nfds sb pos faults o evs,
  frag_loop fuel len nfds sb pos faults = (o, evs) -> has_pipe evs = true -> o = ErrPipe.
Proof.
  induction fuel as [|f IH]; intros len nfds sb pos faults o evs H Hp; cbn [frag_loop] in H.
  { injection H as <- <-. discriminate. }
  destruct (pos <? len); [|injection H as <- <-; discriminate].
  destruct (negb _); [injection H as <- <-; discriminate|].
  destruct (_ && _); [injection H as <- <-; discriminate|].
  destruct (next_fault faults) as [fl rest]. destruct fl.
  - destruct (frag_loop f len nfds sb _ rest) as [o' evs'] eqn:R. injection H as <- <-.
    apply (IH _ _ _ _ _ _ _ R). unfold has_pipe in *. cbn [existsb] in Hp.
    destruct (pos =? 0); cbn [is_pipe orb existsb] in Hp; exact Hp.
  - destruct (negb _).
    + injection H as <- <-. unfold has_pipe in Hp. cbn [existsb] in Hp. destruct (pos =? 0); discriminate.
    + destruct (downsize sb _).
      * destruct (frag_loop f len nfds z pos rest) as [o' evs'] eqn:R. injection H as <- <-.
        apply (IH _ _ _ _ _ _ _ R). unfold has_pipe in *. cbn [existsb] in Hp.
        destruct (pos =? 0); cbn [is_pipe orb] in Hp; exact Hp.
      * injection H as <- <-. unfold has_pipe in Hp. cbn [existsb] in Hp. destruct (pos =? 0); discriminate.
  - injection H as <- <-. reflexivity.
Qed.

Lemma has_pipe_app a b : has_pipe (a ++ b) = has_pipe a || has_pipe b.
Proof. unfold has_pipe. apply existsb_app. Qed.

Theorem send_pipe_is_error fuel S len nfds faults o evs :
  send fuel S len nfds faults = (o, evs) -> has_pipe evs = true -> o = ErrPipe.
Proof.
  unfold send. intros H Hp.
  destruct (MAX_FDS_IN_CMSG <? nfds); [injection H as <- <-; discriminate|].
  destruct (negb _); [injection H as <- <-; discriminate|].
  assert (G : forall sb fl pre o evs, go_frag fuel len nfds sb fl pre = (o, evs) -> has_pipe pre = false ->
            has_pipe evs = true -> o = ErrPipe).
  { intros sb fl pre o' evs' Hg Hpre Hp'. unfold go_frag in Hg.
    destruct (MAX_FDS_IN_CMSG <? nfds + 1); [injection Hg as <- <-; congruence|].
    destruct (frag_loop fuel len nfds sb 0 fl) as [o1 evs1] eqn:R. unfold finish_frag in Hg.
    injection Hg as <- <-. apply (loop_pipe _ _ _ _ _ _ _ _ R).
    rewrite has_pipe_app, Hpre in Hp'. cbn [orb] in Hp'. unfold has_pipe in Hp'. cbn [existsb is_pipe orb] in Hp'.
    fold (has_pipe (evs1 ++ (if has_close_rx evs1 then [EvCloseDedTx] else [EvCloseDedRx; EvCloseDedTx]))) in Hp'.
    rewrite has_pipe_app in Hp'. apply orb_true_iff in Hp'. destruct Hp' as [Q|Q]; [exact Q|].
    destruct (has_close_rx evs1); discriminate. }
  destruct (send_single_packet len S).
  - destruct (next_fault faults) as [fl rest]. destruct fl; cbn [res_of] in H.
    + injection H as <- <-. discriminate.
    + destruct (negb _); [injection H as <- <-; discriminate|].
      destruct (downsize S len); [|injection H as <- <-; discriminate].
      apply (G _ _ _ _ _ H); [reflexivity|exact Hp].
    + injection H as <- <-. reflexivity.
  - apply (G _ _ _ _ _ H); [reflexivity|exact Hp].
Qed.

(* receiver gone before the send starts: the very first attempt fails, the send returns the error
   and neither queue has received anything *)
Theorem send_to_vanished fuel S len nfds rest :
  48 <= S < 2 ^ 62 -> 0 <= len < 2 ^ 62 -> 0 <= nfds ->
  nfds + (if len <=? ffs S then 0 else 1) <= MAX_FDS_IN_CMSG -> (0 < fuel)%nat ->
  exists evs, send fuel S len nfds (FPipe :: rest) = (ErrPipe, evs) /\ shared_pkts evs = [] /\ ded_pkts evs = [].
Proof.
  intros HS Hlen Hn Hc Hf. unfold send. pose proof MAX_FDS_val as MV.
  destruct (first_fragment_size_eq S ltac:(rewrite RESERVED_SIZE_val; lia)) as [E1 E2].
  pose proof (ffs_bounds S ltac:(rewrite RESERVED_SIZE_val; lia)) as Hb.
  destruct (MAX_FDS_IN_CMSG <? nfds) eqn:EM; [destruct (len <=? ffs S); lia|].
  rewrite E2. cbn [negb]. rewrite send_single_packet_eq by lia.
  destruct (len <=? ffs S) eqn:ES; cbn [next_fault res_of].
  - eexists. split; [reflexivity|]. split; reflexivity.
  - unfold go_frag. destruct (MAX_FDS_IN_CMSG <? nfds + 1) eqn:EM2; [lia|].
    destruct fuel as [|f]; [lia|]. cbn [frag_loop].
    destruct (0 <? len) eqn:E0; [|lia]. change (0 =? 0) with true. cbv iota.
    destruct (send_first_end_eq S ltac:(lia)) as [Ee Es]. rewrite Ee, Es. cbn [negb andb next_fault].
    destruct (len <? ffs S) eqn:E2'; [lia|].
    unfold finish_frag. cbn [app has_close_rx existsb orb].
    eexists. split; [reflexivity|]. split; reflexivity.
Qed.
