(* IdealProofs: the ideal channel model keeps the kernel core well-formed and stable, and its observable
   outcomes (Disconnected / Empty / message first / send error) are characterised exactly by the handles
   that exist and the rights that are in transit.  C03, C04, C09 at specification level. *)
From Coq Require Import List Arith Lia Bool ZArith Permutation.
From IPC Require Import K KProofs Prog Ideal.
Import ListNotations.

(* ------------------------------------------------------------------------------------------ *)
(* definitions                                                                                  *)
(* ------------------------------------------------------------------------------------------ *)
Definition handle_refs (hs : list (hid * iobj)) : list ref :=
  flat_map (fun e => match snd e with IS c => [RS c] | IR c => [RR c] | IGone => [] end) hs.

Definition chan_in_range (k : kst) (r : ref) : Prop :=
  match r with RS c | RR c => c < length (chans k) | RM _ => True end.

Record i_inv (s : ist) : Prop := {
  iv_wf : k_wf (ik s);
  iv_stable : k_stable (ik s);
  iv_held : Permutation (held (ik s)) (handle_refs (ih s));
  iv_range_h : Forall (chan_in_range (ik s)) (held (ik s));
  iv_range_q : forall c ch m r, nth_error (chans (ik s)) c = Some ch -> In m (q ch) -> In r (m_rights m) ->
               chan_in_range (ik s) r;
  iv_ids : NoDup (map fst (ih s)) /\ Forall (fun e => fst e < inext s) (ih s);
  (* strengthening: the ideal model never puts a shared-memory right in transit *)
  iv_norm_q : forall c ch m o, nth_error (chans (ik s)) c = Some ch -> In m (q ch) -> ~ In (RM o) (m_rights m) }.

(* ------------------------------------------------------------------------------------------ *)
(* lookup / update                                                                              *)
(* ------------------------------------------------------------------------------------------ *)
Lemma lookup_In {B} : forall (l : list (hid * B)) h v, lookup l h = Some v -> In (h, v) l.
Proof.
  induction l as [|[x w] t IH]; intros h v H; cbn [lookup] in H; [discriminate|].
  destruct (Nat.eqb x h) eqn:E.
  - apply Nat.eqb_eq in E. injection H as ->. subst. now left.
  - right. now apply IH.
Qed.

Lemma lookup_not_in {B} : forall (l : list (hid * B)) h, ~ In h (map fst l) -> lookup l h = None.
Proof.
  induction l as [|[x w] t IH]; intros h H; cbn [lookup]; auto.
  cbn [map fst In] in H. destruct (Nat.eqb x h) eqn:E.
  - apply Nat.eqb_eq in E. exfalso. apply H. now left.
  - apply IH. intros Hin. apply H. now right.
Qed.

Lemma In_lookup {B} : forall (l : list (hid * B)) h v, NoDup (map fst l) -> In (h, v) l -> lookup l h = Some v.
Proof.
  induction l as [|[x w] t IH]; intros h v Hnd Hin; [contradiction|].
  cbn [map fst] in Hnd. inversion Hnd as [|? ? Hni Hnd']; subst.
  cbn [lookup]. destruct Hin as [E|Hin].
  - injection E as -> ->. now rewrite Nat.eqb_refl.
  - destruct (Nat.eqb x h) eqn:E.
    + apply Nat.eqb_eq in E. subst. exfalso. apply Hni.
      change h with (fst (h, v)). now apply in_map.
    + now apply IH.
Qed.

Lemma lookup_app {B} : forall (l1 l2 : list (hid * B)) h,
  lookup (l1 ++ l2) h = match lookup l1 h with Some v => Some v | None => lookup l2 h end.
Proof.
  induction l1 as [|[x w] t IH]; intros l2 h; cbn [lookup app]; auto.
  destruct (Nat.eqb x h); auto.
Qed.

Lemma lookup_split {B} : forall (l : list (hid * B)) h v, lookup l h = Some v ->
  exists l1 l2, l = l1 ++ (h, v) :: l2 /\ forall w, update l h w = l1 ++ (h, w) :: l2.
Proof.
  induction l as [|[x u] t IH]; intros h v H; cbn [lookup] in H; [discriminate|].
  destruct (Nat.eqb x h) eqn:E.
  - apply Nat.eqb_eq in E. injection H as ->. subst. exists [], t. split; auto.
    intros w. cbn [update app]. now rewrite Nat.eqb_refl.
  - destruct (IH h v H) as (l1 & l2 & -> & Hu). exists ((x, u) :: l1), l2. split; auto.
    intros w. cbn [update app]. rewrite E, Hu. reflexivity.
Qed.

Lemma map_fst_update {B} : forall (l : list (hid * B)) h v, map fst (update l h v) = map fst l.
Proof.
  induction l as [|[x w] t IH]; intros h v; cbn [update map fst]; auto.
  destruct (Nat.eqb x h); cbn [map fst]; auto. now rewrite IH.
Qed.

Lemma Forall_fst_map {B} : forall (l : list (hid * B)) n,
  Forall (fun e => fst e < n) l <-> Forall (fun x => x < n) (map fst l).
Proof. intros l n. symmetry. apply Forall_map. Qed.

(* ------------------------------------------------------------------------------------------ *)
(* handle_refs                                                                                  *)
(* ------------------------------------------------------------------------------------------ *)
Definition obj_refs (o : iobj) : list ref := match o with IS c => [RS c] | IR c => [RR c] | IGone => [] end.

Lemma handle_refs_app : forall l1 l2, handle_refs (l1 ++ l2) = handle_refs l1 ++ handle_refs l2.
Proof. intros. unfold handle_refs. apply flat_map_app. Qed.

Lemma handle_refs_cons : forall h o l, handle_refs ((h, o) :: l) = obj_refs o ++ handle_refs l.
Proof. intros. reflexivity. Qed.

Lemma in_handle_refs : forall l r, In r (handle_refs l) <-> exists h o, In (h, o) l /\ In r (obj_refs o).
Proof.
  intros l r. unfold handle_refs. rewrite in_flat_map. split.
  - intros ([h o] & Hin & Hr). exists h, o. auto.
  - intros (h & o & Hin & Hr). exists (h, o). auto.
Qed.

Lemma handle_refs_no_RM : forall l o, ~ In (RM o) (handle_refs l).
Proof.
  intros l o H. apply in_handle_refs in H. destruct H as (h & ob & _ & Hr).
  destruct ob; cbn [obj_refs In] in Hr; intuition discriminate.
Qed.

Lemma in_handle_refs_RS : forall l c, NoDup (map fst l) ->
  (In (RS c) (handle_refs l) <-> exists h, lookup l h = Some (IS c)).
Proof.
  intros l c Hnd. rewrite in_handle_refs. split.
  - intros (h & o & Hin & Hr). exists h. destruct o; cbn [obj_refs In] in Hr; try intuition discriminate.
    destruct Hr as [E|[]]. injection E as ->. now apply In_lookup.
  - intros (h & Hl). exists h, (IS c). split; [now apply lookup_In|now left].
Qed.

Lemma in_handle_refs_RR : forall l c, NoDup (map fst l) ->
  (In (RR c) (handle_refs l) <-> exists h, lookup l h = Some (IR c)).
Proof.
  intros l c Hnd. rewrite in_handle_refs. split.
  - intros (h & o & Hin & Hr). exists h. destruct o; cbn [obj_refs In] in Hr; try intuition discriminate.
    destruct Hr as [E|[]]. injection E as ->. now apply In_lookup.
  - intros (h & Hl). exists h, (IR c). split; [now apply lookup_In|now left].
Qed.

Lemma handle_refs_update_gone : forall l h o, lookup l h = Some o ->
  Permutation (handle_refs l) (obj_refs o ++ handle_refs (update l h IGone)).
Proof.
  intros l h o H. destruct (lookup_split l h o H) as (l1 & l2 & -> & Hu). rewrite Hu.
  rewrite !handle_refs_app, !handle_refs_cons. cbn [obj_refs app].
  apply Permutation_app_swap_app.
Qed.

(* ------------------------------------------------------------------------------------------ *)
(* remove_one                                                                                   *)
(* ------------------------------------------------------------------------------------------ *)
Lemma remove_one_perm : forall r l, In r l -> Permutation l (r :: remove_one r l).
Proof.
  induction l as [|x t IH]; intros H; [contradiction|]. cbn [remove_one].
  destruct (ref_dec r x) as [->|Hne]; [reflexivity|].
  destruct H as [E|H]; [congruence|].
  rewrite (IH H) at 1. apply perm_swap.
Qed.

Lemma remove_one_incl : forall r l x, In x (remove_one r l) -> In x l.
Proof.
  induction l as [|y t IH]; intros x H; cbn [remove_one] in H; auto.
  destruct (ref_dec r y); [now right|]. destruct H as [->|H]; [now left|right; auto].
Qed.

(* ------------------------------------------------------------------------------------------ *)
(* references: membership                                                                       *)
(* ------------------------------------------------------------------------------------------ *)
Lemma in_inflight : forall k r, In r (inflight k) <->
  exists c ch m, nth_error (chans k) c = Some ch /\ dead ch = false /\ In m (q ch) /\ In r (m_rights m).
Proof.
  intros k r. unfold inflight. rewrite in_flat_map. split.
  - intros (ch & Hin & Hr). apply In_nth_error in Hin. destruct Hin as [c Hc].
    unfold live_rights in Hr. destruct (dead ch) eqn:Hd; [contradiction|].
    apply in_flat_map in Hr. destruct Hr as (m & Hm & Hr). exists c, ch, m. auto.
  - intros (c & ch & m & Hc & Hd & Hm & Hr). exists ch. split; [eapply nth_error_In; eauto|].
    unfold live_rights. rewrite Hd. apply in_flat_map. exists m. auto.
Qed.

Lemma refs_zero_iff : forall k r, refs k r = 0 <-> ~ In r (held k) /\ ~ In r (inflight k).
Proof.
  intros k r. unfold refs. rewrite !(count_occ_not_In ref_dec). lia.
Qed.

Lemma refs_held_pos : forall k r, In r (held k) -> refs k r <> 0.
Proof. intros k r H E. apply refs_zero_iff in E. tauto. Qed.

Lemma refs_send : forall k c ch m r, nth_error (chans k) c = Some ch -> dead ch = false ->
  refs {| chans := set_nth (chans k) c {| q := q ch ++ [m]; dead := false |}; held := held k |} r
  = refs k r + count_occ ref_dec (m_rights m) r.
Proof.
  intros k c ch m r Hn Hd.
  pose proof (refs_set_nth k c ch {| q := q ch ++ [m]; dead := false |} (held k) r Hn) as He.
  unfold live_rights in He. cbn [dead q] in He. rewrite Hd in He.
  rewrite flat_map_rights_app, count_occ_app in He. cbn [flat_map] in He. rewrite app_nil_r in He.
  unfold refs at 2. lia.
Qed.

Lemma gc_chan_cases : forall k c ch', nth_error (chans (gc k)) c = Some ch' ->
  exists ch, nth_error (chans k) c = Some ch /\ (ch' = ch \/ q ch' = []).
Proof.
  intros k c ch' Hn'. pose proof (nth_error_lt _ _ _ Hn') as Hlt. rewrite gc_length in Hlt.
  destruct (nth_error (chans k) c) as [ch|] eqn:Hn; [|apply nth_error_None in Hn; lia].
  exists ch. split; auto. destruct (dead ch') eqn:Hd'.
  - destruct (dead ch) eqn:Hd.
    + left. pose proof (gc_dead_unchanged k c ch Hn Hd). congruence.
    + right. eapply gc_killed_unreferenced; eauto.
  - left. eapply gc_live_unchanged; eauto.
Qed.

(* ------------------------------------------------------------------------------------------ *)
(* the kernel part of the invariant, relative to a list of references the process should hold   *)
(* ------------------------------------------------------------------------------------------ *)
Definition ref_okn (n : nat) (r : ref) : Prop := match r with RS c | RR c => c < n | RM _ => False end.

Lemma ref_okn_mono : forall n n' r, n <= n' -> ref_okn n r -> ref_okn n' r.
Proof. intros n n' [c|c|o] Hle H; cbn [ref_okn] in *; auto; lia. Qed.

Record kinv (k : kst) (hr : list ref) : Prop := {
  kv_wf : k_wf k;
  kv_stable : k_stable k;
  kv_held : Permutation (held k) hr;
  kv_ok_h : Forall (ref_okn (length (chans k))) (held k);
  kv_ok_q : forall c ch m r, nth_error (chans k) c = Some ch -> In m (q ch) -> In r (m_rights m) ->
            ref_okn (length (chans k)) r }.

Lemma kinv_perm : forall k hr hr', kinv k hr -> Permutation hr hr' -> kinv k hr'.
Proof. intros k hr hr' [W St P Oh Oq] Hp. constructor; auto. now rewrite P. Qed.

Lemma kinv_in_ok : forall k hr r, kinv k hr -> In r hr -> ref_okn (length (chans k)) r.
Proof.
  intros k hr r [W St P Oh Oq] Hin. rewrite Forall_forall in Oh. apply Oh.
  eapply Permutation_in; [symmetry; exact P|exact Hin].
Qed.

Lemma kinv_in_held : forall k hr r, kinv k hr -> In r hr -> In r (held k).
Proof. intros k hr r [W St P Oh Oq] Hin. eapply Permutation_in; [symmetry; exact P|exact Hin]. Qed.

(* a receiving end the process holds belongs to a live channel *)
Lemma kinv_RR_live : forall k hr c, kinv k hr -> In (RR c) hr ->
  exists ch, nth_error (chans k) c = Some ch /\ dead ch = false.
Proof.
  intros k hr c I Hin. pose proof (kinv_in_ok _ _ _ I Hin) as Hok. cbn [ref_okn] in Hok.
  destruct (nth_error (chans k) c) as [ch|] eqn:Hn; [|apply nth_error_None in Hn; lia].
  exists ch. split; auto. destruct (dead ch) eqn:Hd; auto. exfalso.
  destruct (kv_wf _ _ I c ch Hn Hd) as [_ H0]. revert H0. apply refs_held_pos.
  eapply kinv_in_held; eauto.
Qed.

Lemma k_init_kinv : kinv k_init [].
Proof.
  constructor; cbn [k_init held chans].
  - apply k_init_wf.
  - intros c ch Hn. destruct c; discriminate.
  - constructor.
  - constructor.
  - intros c ch m r Hn. destruct c; discriminate.
Qed.

Lemma k_new_kinv : forall k hr, kinv k hr ->
  kinv (fst (k_new k)) (RS (length (chans k)) :: RR (length (chans k)) :: hr).
Proof.
  intros k hr I. pose proof I as [W St P Oh Oq].
  assert (Hrefs : forall r, refs k r <= refs (fst (k_new k)) r).
  { intros r. unfold k_new, refs, inflight. cbn [fst chans held].
    rewrite flat_map_app, count_occ_app. cbn [flat_map live_rights dead q app count_occ].
    destruct (ref_dec (RS (length (chans k))) r), (ref_dec (RR (length (chans k))) r); lia. }
  constructor.
  - now apply k_new_wf.
  - intros c ch Hn Hd. unfold k_new in Hn. cbn [fst chans] in Hn.
    destruct (Nat.lt_ge_cases c (length (chans k))) as [Hlt|Hge].
    + rewrite nth_error_app1 in Hn by auto. specialize (St c ch Hn Hd). specialize (Hrefs (RR c)). lia.
    + assert (c = length (chans k)) as ->.
      { pose proof (nth_error_lt _ _ _ Hn) as Hl. rewrite app_length in Hl. cbn [length] in Hl. lia. }
      apply refs_held_pos. unfold k_new. cbn [fst held]. right. now left.
  - unfold k_new. cbn [fst held]. now do 2 apply perm_skip.
  - unfold k_new. cbn [fst held chans]. rewrite app_length. cbn [length].
    repeat constructor; cbn [ref_okn]; try lia.
    eapply Forall_impl; [|exact Oh]. intros r. apply ref_okn_mono. lia.
  - intros c ch m r Hn Hm Hr. unfold k_new in *. cbn [fst chans] in *. rewrite app_length. cbn [length].
    destruct (Nat.lt_ge_cases c (length (chans k))) as [Hlt|Hge].
    + rewrite nth_error_app1 in Hn by auto. eapply ref_okn_mono; [|eapply Oq; eauto]. lia.
    + rewrite nth_error_app2 in Hn by auto. destruct (c - length (chans k)) as [|j]; cbn [nth_error] in Hn.
      * injection Hn as <-. contradiction.
      * destruct j; discriminate.
Qed.

Lemma k_dup_kinv : forall k hr c, kinv k hr -> In (RS c) hr -> kinv (k_dup k (RS c)) (RS c :: hr).
Proof.
  intros k hr c I Hin. pose proof I as [W St P Oh Oq]. constructor.
  - apply k_dup_wf; auto. intros c0 E. discriminate.
  - intros c0 ch Hn Hd. cbn [k_dup chans] in Hn. specialize (St c0 ch Hn Hd).
    unfold refs, inflight, k_dup in *. cbn [chans held count_occ]. destruct (ref_dec (RS c) (RR c0)); lia.
  - cbn [k_dup held]. now apply perm_skip.
  - cbn [k_dup held chans]. constructor; auto. eapply kinv_in_ok; eauto.
  - exact Oq.
Qed.

Lemma k_close_kinv : forall k hr r hr', kinv k hr -> Permutation hr (r :: hr') -> kinv (k_close k r) hr'.
Proof.
  intros k hr r hr' I Hp. pose proof I as [W St P Oh Oq]. unfold k_close. constructor.
  - now apply k_close_wf.
  - apply gc_stable.
  - rewrite gc_held. cbn [held].
    assert (Hin : In r (held k)).
    { eapply kinv_in_held; eauto. eapply Permutation_in; [symmetry; exact Hp|now left]. }
    apply Permutation_cons_inv with (a := r).
    rewrite <- (remove_one_perm r (held k) Hin). now rewrite P.
  - rewrite gc_held, gc_length. cbn [held chans]. rewrite Forall_forall in *.
    intros x Hx. apply Oh. eapply remove_one_incl; eauto.
  - intros c ch' m x Hn' Hm Hx. rewrite gc_length. cbn [chans].
    apply gc_chan_cases in Hn'. cbn [chans] in Hn'. destruct Hn' as (ch & Hn & [->|Hq]).
    + eapply Oq; eauto.
    + rewrite Hq in Hm. contradiction.
Qed.

Definition moved (rs : list ref) : list ref := filter (fun r => match r with RR _ => true | _ => false end) rs.

Lemma close_moved_kinv : forall rs k X, kinv k (moved rs ++ X) -> kinv (close_moved k rs) X.
Proof.
  induction rs as [|[c|c|o] t IH]; intros k X I; cbn [close_moved moved filter app] in *; auto.
  apply IH. eapply k_close_kinv; eauto.
Qed.

Lemma k_send_kinv : forall k hr c m k', kinv k hr -> k_send k c m = Some k' ->
  (forall r, In r (m_rights m) -> In r hr) -> kinv k' hr.
Proof.
  intros k hr c m k' I Hs Hm. pose proof I as [W St P Oh Oq].
  pose proof Hs as Hs'. apply k_send_some in Hs'. destruct Hs' as (ch & Hn & Hd & Hk').
  constructor.
  - eapply k_send_wf; eauto. intros c' Hin. eapply kinv_RR_live; eauto.
  - subst k'. intros c' ch' Hn' Hd'. rewrite (refs_send k c ch m _ Hn Hd). cbn [chans] in Hn'.
    destruct (Nat.eq_dec c c') as [<-|Hne].
    + specialize (St c ch Hn Hd). lia.
    + rewrite nth_error_set_nth_neq in Hn' by auto. specialize (St c' ch' Hn' Hd'). lia.
  - subst k'. exact P.
  - subst k'. cbn [held chans]. now rewrite length_set_nth.
  - subst k'. cbn [chans]. rewrite length_set_nth. intros c' ch' m' r Hn' Hm' Hr.
    destruct (Nat.eq_dec c c') as [<-|Hne].
    + rewrite nth_error_set_nth_eq in Hn' by (eapply nth_error_lt; eauto). injection Hn' as <-.
      cbn [q] in Hm'. apply in_app_or in Hm'. destruct Hm' as [Hm'|[<-|[]]].
      * eapply Oq; eauto.
      * eapply kinv_in_ok; eauto.
    + rewrite nth_error_set_nth_neq in Hn' by auto. eapply Oq; eauto.
Qed.

Lemma k_recv_kinv : forall k hr c m k', kinv k hr -> k_recv k c = KMsg m k' -> kinv k' (m_rights m ++ hr).
Proof.
  intros k hr c m k' I Hr. pose proof I as [W St P Oh Oq].
  pose proof Hr as Hr'. apply k_recv_msg in Hr'. destruct Hr' as (ch & rest & Hn & Hq & Hk').
  assert (Hd : dead ch = false).
  { destruct (dead ch) eqn:Hd; auto. destruct (W c ch Hn Hd) as [Hq0 _]. congruence. }
  assert (Hrefs : forall r, refs k' r = refs k r).
  { intros r. eapply refs_recv_preserved; eauto.
    - now rewrite (get_chan_some _ _ _ Hn).
    - eapply nth_error_lt; eauto. }
  constructor.
  - eapply k_recv_wf; eauto.
  - intros c' ch' Hn' Hd'. rewrite Hrefs. subst k'. cbn [chans] in Hn'.
    destruct (Nat.eq_dec c c') as [<-|Hne].
    + eapply St; eauto.
    + rewrite nth_error_set_nth_neq in Hn' by auto. eapply St; eauto.
  - subst k'. cbn [held]. now apply Permutation_app_head.
  - subst k'. cbn [held chans]. rewrite length_set_nth. apply Forall_app. split; auto.
    apply Forall_forall. intros r Hin. eapply Oq; eauto. rewrite Hq. now left.
  - subst k'. cbn [chans]. rewrite length_set_nth. intros c' ch' m' r Hn' Hm' Hr'.
    destruct (Nat.eq_dec c c') as [<-|Hne].
    + rewrite nth_error_set_nth_eq in Hn' by (eapply nth_error_lt; eauto). injection Hn' as <-.
      cbn [q] in Hm'. eapply Oq; eauto. rewrite Hq. now right.
    + rewrite nth_error_set_nth_neq in Hn' by auto. eapply Oq; eauto.
Qed.

(* ------------------------------------------------------------------------------------------ *)
(* i_inv  <->  kinv + identifiers                                                               *)
(* ------------------------------------------------------------------------------------------ *)
Definition ids_ok (hs : list (hid * iobj)) (n : hid) : Prop :=
  NoDup (map fst hs) /\ Forall (fun e => fst e < n) hs.

Lemma ref_okn_range : forall k r, ref_okn (length (chans k)) r -> chan_in_range k r.
Proof. intros k [c|c|o]; cbn [ref_okn chan_in_range]; auto. Qed.

Lemma i_inv_of_kinv : forall s, kinv (ik s) (handle_refs (ih s)) -> ids_ok (ih s) (inext s) -> i_inv s.
Proof.
  intros s [W St P Oh Oq] Hids. constructor; auto.
  - eapply Forall_impl; [|exact Oh]. intros r. apply ref_okn_range.
  - intros c ch m r Hn Hm Hr. apply ref_okn_range. eapply Oq; eauto.
  - intros c ch m o Hn Hm Hr. exact (Oq c ch m (RM o) Hn Hm Hr).
Qed.

Lemma kinv_of_i_inv : forall s, i_inv s -> kinv (ik s) (handle_refs (ih s)).
Proof.
  intros s [W St P Rh Rq Hids Nq]. constructor; auto.
  - rewrite Forall_forall in *. intros r Hin. specialize (Rh r Hin).
    destruct r as [c|c|o]; cbn [ref_okn chan_in_range] in *; auto.
    eapply handle_refs_no_RM. eapply Permutation_in; [exact P|exact Hin].
  - intros c ch m r Hn Hm Hr. specialize (Rq c ch m r Hn Hm Hr).
    destruct r as [c'|c'|o]; cbn [ref_okn chan_in_range] in *; auto.
    eapply Nq; eauto.
Qed.

(* ------------------------------------------------------------------------------------------ *)
(* i_resolve and i_install                                                                      *)
(* ------------------------------------------------------------------------------------------ *)
Lemma i_resolve_spec : forall atts hs rs hs', i_resolve hs atts = Some (rs, hs') ->
  Permutation (handle_refs hs) (moved rs ++ handle_refs hs') /\ map fst hs' = map fst hs /\
  (forall r, In r rs -> In r (handle_refs hs)).
Proof.
  induction atts as [|[x|x] t IH]; intros hs rs hs' H; cbn [i_resolve] in H.
  - injection H as <- <-. cbn [moved filter app]. repeat split; auto. intros r [].
  - destruct (lookup hs x) as [[c|c|]|] eqn:El; try discriminate.
    destruct (i_resolve hs t) as [[rs0 hs0]|] eqn:Er; [|discriminate]. injection H as <- <-.
    destruct (IH _ _ _ Er) as (Hp & Hf & Hin). cbn [moved filter]. repeat split; auto.
    intros r [<-|Hr]; auto. apply in_handle_refs. exists x, (IS c). split; [now apply lookup_In|now left].
  - destruct (lookup hs x) as [[c|c|]|] eqn:El; try discriminate.
    destruct (i_resolve (update hs x IGone) t) as [[rs0 hs0]|] eqn:Er; [|discriminate]. injection H as <- <-.
    destruct (IH _ _ _ Er) as (Hp & Hf & Hin).
    pose proof (handle_refs_update_gone hs x (IR c) El) as Hu. cbn [obj_refs app] in Hu.
    cbn [moved filter app]. repeat split.
    + rewrite Hu. apply perm_skip. exact Hp.
    + rewrite Hf. apply map_fst_update.
    + intros r [<-|Hr].
      * eapply Permutation_in; [symmetry; exact Hu|now left].
      * eapply Permutation_in; [symmetry; exact Hu|right; auto].
Qed.

Definition chan_rights (rs : list ref) : list ref :=
  filter (fun r => match r with RM _ => false | _ => true end) rs.
Definition obj_of (r : ref) : iobj := match r with RS c => IS c | RR c => IR c | RM _ => IGone end.
Definition kind_of (r : ref) : hkind := match r with RS _ => KTx | _ => KRx end.

(* closed form of i_install *)
Lemma i_install_shape : forall rs hs n hs' n' out, i_install hs n rs = (hs', n', out) ->
  let cr := chan_rights rs in
  hs' = hs ++ combine (seq n (length cr)) (map obj_of cr) /\
  n' = n + length cr /\
  out = combine (map kind_of cr) (seq n (length cr)).
Proof.
  induction rs as [|[c|c|o] t IH]; intros hs n hs' n' out H; cbn [i_install] in H.
  - injection H as <- <- <-. cbn. rewrite app_nil_r. auto.
  - destruct (i_install (hs ++ [(n, IS c)]) (S n) t) as [[hs0 n0] out0] eqn:E. injection H as <- <- <-.
    destruct (IH _ _ _ _ _ E) as (-> & -> & ->).
    cbn [chan_rights filter length seq map combine obj_of kind_of]. fold (chan_rights t).
    rewrite <- app_assoc. cbn [app]. repeat split; auto. lia.
  - destruct (i_install (hs ++ [(n, IR c)]) (S n) t) as [[hs0 n0] out0] eqn:E. injection H as <- <- <-.
    destruct (IH _ _ _ _ _ E) as (-> & -> & ->).
    cbn [chan_rights filter length seq map combine obj_of kind_of]. fold (chan_rights t).
    rewrite <- app_assoc. cbn [app]. repeat split; auto. lia.
  - cbn [chan_rights filter]. fold (chan_rights t). eapply IH; eauto.
Qed.

Lemma map_fst_combine {A B} : forall (l1 : list A) (l2 : list B), length l1 = length l2 ->
  map fst (combine l1 l2) = l1.
Proof. induction l1 as [|a t IH]; intros [|b u] H; cbn in *; try discriminate; auto. f_equal. auto. Qed.

Lemma map_snd_combine {A B} : forall (l1 : list A) (l2 : list B), length l1 = length l2 ->
  map snd (combine l1 l2) = l2.
Proof. induction l1 as [|a t IH]; intros [|b u] H; cbn in *; try discriminate; auto. f_equal. auto. Qed.

Lemma handle_refs_combine : forall ids cr, length ids = length cr -> (forall o, ~ In (RM o) cr) ->
  handle_refs (combine ids (map obj_of cr)) = cr.
Proof.
  induction ids as [|i t IH]; intros [|r u] H Hn; cbn [length] in H; try discriminate; auto.
  cbn [map combine]. rewrite handle_refs_cons. rewrite IH; auto.
  - destruct r as [c|c|o]; cbn [obj_of obj_refs app]; auto. exfalso. apply (Hn o). now left.
  - intros o Hin. apply (Hn o). now right.
Qed.

Lemma chan_rights_no_RM : forall rs o, ~ In (RM o) (chan_rights rs).
Proof. intros rs o H. unfold chan_rights in H. apply filter_In in H. destruct H; discriminate. Qed.

Lemma chan_rights_id : forall rs, (forall o, ~ In (RM o) rs) -> chan_rights rs = rs.
Proof.
  induction rs as [|[c|c|o] t IH]; intros H; cbn [chan_rights filter]; auto.
  - f_equal. apply IH. intros o Hin. apply (H o). now right.
  - f_equal. apply IH. intros o Hin. apply (H o). now right.
  - exfalso. apply (H o). now left.
Qed.

Lemma i_install_handle_refs : forall rs hs n hs' n' out, i_install hs n rs = (hs', n', out) ->
  handle_refs hs' = handle_refs hs ++ chan_rights rs.
Proof.
  intros rs hs n hs' n' out H. apply i_install_shape in H. cbn zeta in H. destruct H as (-> & _ & _).
  rewrite handle_refs_app. f_equal. apply handle_refs_combine.
  - apply seq_length.
  - apply chan_rights_no_RM.
Qed.

Lemma NoDup_app_intro {A} : forall (l1 l2 : list A), NoDup l1 -> NoDup l2 ->
  (forall x, In x l1 -> ~ In x l2) -> NoDup (l1 ++ l2).
Proof.
  induction l1 as [|a t IH]; intros l2 H1 H2 Hd; cbn [app]; auto.
  inversion H1 as [|? ? Hni Hnd]; subst. constructor.
  - intros Hin. apply in_app_or in Hin. destruct Hin as [Hin|Hin]; [auto|]. apply (Hd a); [now left|auto].
  - apply IH; auto. intros x Hx. apply Hd. now right.
Qed.

Lemma i_install_ids : forall rs hs n hs' n' out, i_install hs n rs = (hs', n', out) ->
  ids_ok hs n -> ids_ok hs' n'.
Proof.
  intros rs hs n hs' n' out H [Hnd Hlt]. apply i_install_shape in H. cbn zeta in H. destruct H as (-> & -> & _).
  set (cr := chan_rights rs). apply Forall_fst_map in Hlt. unfold ids_ok. rewrite Forall_fst_map.
  rewrite map_app, map_fst_combine by (now rewrite seq_length, map_length).
  rewrite Forall_forall in Hlt. split.
  - apply NoDup_app_intro; auto.
    + apply seq_NoDup.
    + intros x Hx Hs. apply in_seq in Hs. specialize (Hlt x Hx). lia.
  - apply Forall_app. split; apply Forall_forall; intros x Hx.
    + specialize (Hlt x Hx). lia.
    + apply in_seq in Hx. lia.
Qed.

Lemma ids_ok_snoc : forall hs n o, ids_ok hs n -> ids_ok (hs ++ [(n, o)]) (S n).
Proof.
  intros hs n o [Hnd Hlt]. apply Forall_fst_map in Hlt. unfold ids_ok. rewrite Forall_fst_map.
  rewrite map_app. cbn [map fst]. rewrite Forall_forall in Hlt. split.
  - apply NoDup_app_intro; auto.
    + constructor; [intros []|constructor].
    + intros x Hx [E|[]]. specialize (Hlt x Hx). lia.
  - apply Forall_app. split.
    + apply Forall_forall. intros x Hx. specialize (Hlt x Hx). lia.
    + repeat constructor.
Qed.

Lemma ids_ok_ext : forall hs hs' n, map fst hs' = map fst hs -> ids_ok hs n -> ids_ok hs' n.
Proof.
  intros hs hs' n E [Hnd Hlt]. apply Forall_fst_map in Hlt. unfold ids_ok. rewrite Forall_fst_map, E. auto.
Qed.

(* ------------------------------------------------------------------------------------------ *)
(* 1. the invariant                                                                             *)
(* ------------------------------------------------------------------------------------------ *)
Theorem i_inv_init : i_inv i_init.
Proof.
  apply i_inv_of_kinv; cbn [i_init ik ih inext].
  - exact k_init_kinv.
  - split; constructor.
Qed.

Theorem i_inv_step : forall s o, i_inv s -> i_inv (fst (i_step s o)).
Proof.
  intros s o I. pose proof (kinv_of_i_inv s I) as K. pose proof (iv_ids s I) as Hids.
  fold (ids_ok (ih s) (inext s)) in Hids.
  destruct o as [|h|h|h data atts|h]; cbn [i_step].
  - (* ONew *)
    cbn [k_new fst]. apply i_inv_of_kinv; cbn [ik ih inext].
    + eapply kinv_perm; [exact (k_new_kinv _ _ K)|].
      rewrite handle_refs_app. cbn [handle_refs flat_map snd app].
      apply (Permutation_app_comm [RS (length (chans (ik s))); RR (length (chans (ik s)))]).
    + change (ih s ++ [(inext s, IS (length (chans (ik s)))); (S (inext s), IR (length (chans (ik s))))])
        with (ih s ++ [(inext s, IS (length (chans (ik s))))] ++ [(S (inext s), IR (length (chans (ik s))))]).
      rewrite app_assoc. now do 2 apply ids_ok_snoc.
  - (* OClone *)
    destruct (lookup (ih s) h) as [[c|c|]|] eqn:El; cbn [fst]; auto.
    apply i_inv_of_kinv; cbn [ik ih inext].
    + eapply kinv_perm.
      * apply k_dup_kinv; [exact K|]. apply in_handle_refs. exists h, (IS c). split; [now apply lookup_In|now left].
      * rewrite handle_refs_app. cbn [handle_refs flat_map snd app]. apply Permutation_cons_append.
    + now apply ids_ok_snoc.
  - (* ODrop *)
    destruct (lookup (ih s) h) as [[c|c|]|] eqn:El; cbn [fst]; auto.
    + apply i_inv_of_kinv; cbn [ik ih inext].
      * eapply k_close_kinv; [exact K|]. exact (handle_refs_update_gone _ _ _ El).
      * eapply ids_ok_ext; [apply map_fst_update|exact Hids].
    + apply i_inv_of_kinv; cbn [ik ih inext].
      * eapply k_close_kinv; [exact K|]. exact (handle_refs_update_gone _ _ _ El).
      * eapply ids_ok_ext; [apply map_fst_update|exact Hids].
  - (* OSend *)
    destruct (lookup (ih s) h) as [[c|c|]|] eqn:El; cbn [fst]; auto.
    destruct (i_resolve (ih s) atts) as [[rs hs']|] eqn:Er; cbn [fst]; auto.
    destruct (i_resolve_spec _ _ _ _ Er) as (Hp & Hf & Hin).
    destruct (k_send (ik s) c {| m_data := data; m_rights := rs |}) as [k'|] eqn:Es; cbn [fst].
    + apply i_inv_of_kinv; cbn [ik ih inext].
      * apply close_moved_kinv. eapply kinv_perm; [|exact Hp].
        eapply k_send_kinv; [exact K|exact Es|exact Hin].
      * eapply ids_ok_ext; eauto.
    + apply i_inv_of_kinv; cbn [ik ih inext].
      * apply close_moved_kinv. eapply kinv_perm; [exact K|exact Hp].
      * eapply ids_ok_ext; eauto.
  - (* ORecv *)
    destruct (lookup (ih s) h) as [[c|c|]|] eqn:El; cbn [fst]; auto.
    destruct (k_recv (ik s) c) as [m k'| |] eqn:Er; cbn [fst]; auto.
    destruct (i_install (ih s) (inext s) (m_rights m)) as [[hs' n'] out] eqn:Ei. cbn [fst].
    apply i_inv_of_kinv; cbn [ik ih inext].
    + eapply kinv_perm; [exact (k_recv_kinv _ _ _ _ _ K Er)|].
      rewrite (i_install_handle_refs _ _ _ _ _ _ Ei). rewrite chan_rights_id.
      * apply Permutation_app_comm.
      * apply k_recv_msg in Er. destruct Er as (ch & rest & Hn & Hq & _).
        intros o. eapply (iv_norm_q s I); eauto. rewrite Hq. now left.
    + eapply i_install_ids; eauto.
Qed.

Lemma i_inv_run_from : forall ops s, i_inv s -> i_inv (fst (i_run s ops)).
Proof.
  induction ops as [|o r IH]; intros s I; cbn [i_run fst]; auto.
  pose proof (i_inv_step s o I) as I'. destruct (i_step s o) as [s' out]. cbn [fst] in I'.
  specialize (IH s' I'). destruct (i_run s' r) as [s'' outs]. exact IH.
Qed.

Theorem i_inv_run : forall ops, i_inv (fst (i_run i_init ops)).
Proof. intros ops. apply i_inv_run_from. exact i_inv_init. Qed.

(* ------------------------------------------------------------------------------------------ *)
(* reference count zero, in terms of handles and messages in transit                            *)
(* ------------------------------------------------------------------------------------------ *)
Lemma refs_zero_handles : forall s r, i_inv s ->
  (refs (ik s) r = 0 <->
   ~ In r (handle_refs (ih s)) /\
   (forall c' ch m, nth_error (chans (ik s)) c' = Some ch -> dead ch = false -> In m (q ch) -> ~ In r (m_rights m))).
Proof.
  intros s r I. rewrite refs_zero_iff, in_inflight. pose proof (iv_held s I) as P. split; intros [A B]; split.
  - intros Hin. apply A. eapply Permutation_in; [symmetry; exact P|exact Hin].
  - intros c' ch m Hn Hd Hm Hr. apply B. exists c', ch, m. auto.
  - intros Hin. apply A. eapply Permutation_in; [exact P|exact Hin].
  - intros (c' & ch & m & Hn & Hd & Hm & Hr). exact (B c' ch m Hn Hd Hm Hr).
Qed.

Lemma no_handle_RS : forall s c, i_inv s ->
  (~ In (RS c) (handle_refs (ih s)) <-> forall h', lookup (ih s) h' <> Some (IS c)).
Proof.
  intros s c I. rewrite in_handle_refs_RS by (apply (iv_ids s I)). split.
  - intros H h' E. apply H. now exists h'.
  - intros H [h' E]. exact (H h' E).
Qed.

Lemma no_handle_RR : forall s c, i_inv s ->
  (~ In (RR c) (handle_refs (ih s)) <-> forall h', lookup (ih s) h' <> Some (IR c)).
Proof.
  intros s c I. rewrite in_handle_refs_RR by (apply (iv_ids s I)). split.
  - intros H h' E. apply H. now exists h'.
  - intros H [h' E]. exact (H h' E).
Qed.

(* ------------------------------------------------------------------------------------------ *)
(* 2-4. C03: Disconnected / Empty / messages first                                              *)
(* ------------------------------------------------------------------------------------------ *)
Theorem C03_disconnected_iff : forall s h c, i_inv s -> lookup (ih s) h = Some (IR c) ->
  (snd (i_step s (ORecv h)) = RDisconnected <->
   q (get_chan (ik s) c) = [] /\
   (forall h', lookup (ih s) h' <> Some (IS c)) /\
   (forall c' ch m, nth_error (chans (ik s)) c' = Some ch -> dead ch = false -> In m (q ch) -> ~ In (RS c) (m_rights m))).
Proof.
  intros s h c I Hl. rewrite <- (no_handle_RS s c I), <- (refs_zero_handles s (RS c) I).
  cbn [i_step]. rewrite Hl. unfold k_recv. destruct (q (get_chan (ik s) c)) as [|m rest] eqn:Hq.
  - destruct (refs (ik s) (RS c) =? 0) eqn:E; cbn [snd].
    + apply Nat.eqb_eq in E. tauto.
    + apply Nat.eqb_neq in E. split; [discriminate|]. intros [_ H]. contradiction.
  - destruct (i_install (ih s) (inext s) (m_rights m)) as [[hs' n'] out]. cbn [snd].
    split; [discriminate|]. intros [H _]. discriminate.
Qed.

Theorem C03_idle_is_empty : forall s h c h', i_inv s -> lookup (ih s) h = Some (IR c) ->
  lookup (ih s) h' = Some (IS c) -> q (get_chan (ik s) c) = [] -> snd (i_step s (ORecv h)) = REmpty.
Proof.
  intros s h c h' I Hl Hl' Hq. cbn [i_step]. rewrite Hl. unfold k_recv. rewrite Hq.
  destruct (refs (ik s) (RS c) =? 0) eqn:E; cbn [snd]; auto. exfalso.
  apply Nat.eqb_eq in E. apply (refs_zero_handles s (RS c) I) in E. destruct E as [E _].
  destruct (no_handle_RS s c I) as [F _]. exact (F E h' Hl').
Qed.

Theorem C03_messages_first : forall s h c m rest, lookup (ih s) h = Some (IR c) ->
  q (get_chan (ik s) c) = m :: rest ->
  exists hs, snd (i_step s (ORecv h)) = RMsg (m_data m) hs /\
             q (get_chan (ik (fst (i_step s (ORecv h)))) c) = rest.
Proof.
  intros s h c m rest Hl Hq. cbn [i_step]. rewrite Hl. unfold k_recv. rewrite Hq.
  destruct (i_install (ih s) (inext s) (m_rights m)) as [[hs' n'] out]. cbn [fst snd ik].
  exists out. split; auto.
  destruct (nth_error (chans (ik s)) c) as [ch|] eqn:Hn.
  - unfold get_chan at 1. cbn [chans]. erewrite nth_error_nth.
    2: { apply nth_error_set_nth_eq. eapply nth_error_lt; eauto. }
    reflexivity.
  - rewrite (get_chan_none _ _ Hn) in Hq. discriminate.
Qed.

(* ------------------------------------------------------------------------------------------ *)
(* 5. C09: send errors                                                                          *)
(* ------------------------------------------------------------------------------------------ *)
Lemma sender_handle_chan : forall s h c, i_inv s -> lookup (ih s) h = Some (IS c) ->
  exists ch, nth_error (chans (ik s)) c = Some ch.
Proof.
  intros s h c I Hl. pose proof (kinv_of_i_inv s I) as K.
  assert (Hin : In (RS c) (handle_refs (ih s))).
  { apply in_handle_refs. exists h, (IS c). split; [now apply lookup_In|now left]. }
  pose proof (kinv_in_ok _ _ _ K Hin) as Hok. cbn [ref_okn] in Hok.
  destruct (nth_error (chans (ik s)) c) as [ch|] eqn:Hn; [eauto|]. apply nth_error_None in Hn. lia.
Qed.

Theorem C09_send_err_iff : forall s h c data, i_inv s -> lookup (ih s) h = Some (IS c) ->
  (snd (i_step s (OSend h data [])) = RSendErr <->
   (forall h', lookup (ih s) h' <> Some (IR c)) /\
   (forall c' ch m, nth_error (chans (ik s)) c' = Some ch -> dead ch = false -> In m (q ch) -> ~ In (RR c) (m_rights m))).
Proof.
  intros s h c data I Hl. rewrite <- (no_handle_RR s c I), <- (refs_zero_handles s (RR c) I).
  destruct (sender_handle_chan s h c I Hl) as [ch Hn].
  rewrite <- (stable_dead_iff (ik s) c ch (iv_wf s I) (iv_stable s I) Hn).
  rewrite <- (get_chan_some _ _ _ Hn).
  rewrite <- (send_fails_iff_dead (ik s) c {| m_data := data; m_rights := [] |}).
  cbn [i_step i_resolve]. rewrite Hl.
  destruct (k_send (ik s) c {| m_data := data; m_rights := [] |}) as [k'|]; cbn [snd].
  - split; discriminate.
  - tauto.
Qed.

Theorem C09_send_ok_queues : forall s h c data, i_inv s -> lookup (ih s) h = Some (IS c) ->
  snd (i_step s (OSend h data [])) = RSent ->
  q (get_chan (ik (fst (i_step s (OSend h data [])))) c)
  = q (get_chan (ik s) c) ++ [{| m_data := data; m_rights := [] |}].
Proof.
  intros s h c data I Hl. cbn [i_step i_resolve]. rewrite Hl.
  destruct (k_send (ik s) c {| m_data := data; m_rights := [] |}) as [k'|] eqn:Es; cbn [snd fst ik close_moved];
    [intros _|discriminate].
  apply k_send_some in Es. destruct Es as (ch & Hn & Hd & ->).
  rewrite (get_chan_some _ _ _ Hn). unfold get_chan. cbn [chans]. erewrite nth_error_nth.
  2: { apply nth_error_set_nth_eq. eapply nth_error_lt; eauto. }
  reflexivity.
Qed.

(* ------------------------------------------------------------------------------------------ *)
(* 6. C04: received rights become handles of the same channel, in order                         *)
(* ------------------------------------------------------------------------------------------ *)
Lemma lookup_self : forall (l : list (hid * iobj)), NoDup (map fst l) ->
  map (fun e => lookup l (fst e)) l = map (fun e => Some (snd e)) l.
Proof.
  intros l Hnd. apply map_ext_in. intros [x v] Hin. cbn [fst snd]. now apply In_lookup.
Qed.

Theorem C04_install_positions : forall hs n rs hs' n' out,
  i_install hs n rs = (hs', n', out) -> Forall (fun e => fst e < n) hs ->
  let cr := filter (fun r => match r with RM _ => false | _ => true end) rs in
  map (fun p => lookup hs' (snd p)) out
    = map (fun r => match r with RS c => Some (IS c) | RR c => Some (IR c) | RM _ => None end) cr /\
  map fst out = map (fun r => match r with RS _ => KTx | _ => KRx end) cr /\
  map snd out = seq n (length out) /\
  length out = length cr /\ n' = n + length out /\
  (forall x, x < n -> lookup hs' x = lookup hs x).
Proof.
  intros hs n rs hs' n' out H Hlt. apply i_install_shape in H. cbn zeta in *. unfold hid in *.
  fold (chan_rights rs). set (cr := chan_rights rs) in *. destruct H as (Hhs & Hn' & Hout).
  assert (Hlen : length out = length cr).
  { rewrite Hout, combine_length, map_length, seq_length. lia. }
  assert (Hfo : map fst out = map kind_of cr).
  { rewrite Hout. apply map_fst_combine. now rewrite seq_length, map_length. }
  assert (Hso : map snd out = seq n (length cr)).
  { rewrite Hout. apply map_snd_combine. now rewrite seq_length, map_length. }
  set (ext := combine (seq n (length cr)) (map obj_of cr)) in *.
  assert (Hfe : map fst ext = seq n (length cr)).
  { unfold ext. apply map_fst_combine. now rewrite seq_length, map_length. }
  assert (Hse : map snd ext = map obj_of cr).
  { unfold ext. apply map_snd_combine. now rewrite seq_length, map_length. }
  apply Forall_fst_map in Hlt. rewrite Forall_forall in Hlt.
  rewrite Hlen, Hfo, Hso. subst hs' n'. clear Hout.
  split; [|split; [reflexivity|split; [reflexivity|split; [reflexivity|split; [reflexivity|]]]]].
  - rewrite <- (map_map (@snd hkind nat) (lookup (hs ++ ext))). rewrite Hso.
    rewrite <- Hfe. rewrite map_map.
    transitivity (map (fun e => lookup ext (fst e)) ext).
    + apply map_ext_in. intros e He. rewrite lookup_app. rewrite lookup_not_in; auto.
      intros Hin. specialize (Hlt _ Hin).
      assert (Hs : In (fst e) (seq n (length cr))) by (rewrite <- Hfe; now apply in_map).
      apply in_seq in Hs. unfold hid in *. lia.
    + assert (Hnd : NoDup (map fst ext)) by (rewrite Hfe; apply seq_NoDup).
      rewrite (lookup_self ext Hnd).
      rewrite <- (map_map (@snd nat iobj) Some), Hse, !map_map. apply map_ext_in.
      intros r Hr. destruct r as [c|c|o]; cbn [obj_of]; auto.
      exfalso. exact (chan_rights_no_RM rs o Hr).
  - intros x Hx. rewrite lookup_app. destruct (lookup hs x) eqn:E; auto.
    apply lookup_not_in. intros Hs. unfold hid in Hs. rewrite Hfe in Hs. apply in_seq in Hs. lia.
Qed.

(* membership form: every handle reported by a receive is a fresh handle of the matching kind on a channel
   whose right was in the message.  The hypothesis on identifiers is necessary: with hs = [(0, IGone)], n = 0,
   rs = [RR 5] the new handle 0 is shadowed by the stale entry. *)
Theorem C04_transfer_same_channel_strong : forall rs hs n hs' n' out,
  i_install hs n rs = (hs', n', out) -> Forall (fun e => fst e < n) hs ->
  forall k h, In (k, h) out ->
    (k = KTx -> exists c, In (RS c) rs /\ lookup hs' h = Some (IS c)) /\
    (k = KRx -> exists c, In (RR c) rs /\ lookup hs' h = Some (IR c)).
Proof.
  induction rs as [|[c|c|o] t IH]; intros hs n hs' n' out H Hlt k h Hin; cbn [i_install] in H.
  - injection H as <- <- <-. contradiction.
  - destruct (i_install (hs ++ [(n, IS c)]) (S n) t) as [[hs0 n0] out0] eqn:E. injection H as <- <- <-.
    assert (Hlt' : Forall (fun e => fst e < S n) (hs ++ [(n, IS c)])).
    { apply Forall_app. split; [|repeat constructor]. eapply Forall_impl; [|exact Hlt]. cbn beta. intros; lia. }
    destruct Hin as [Eq|Hin].
    + injection Eq as <- <-. split; [intros _|discriminate]. exists c. split; [now left|].
      destruct (C04_install_positions _ _ _ _ _ _ E Hlt') as (_ & _ & _ & _ & _ & Hold).
      rewrite (Hold n) by lia. rewrite lookup_app, lookup_not_in.
      * cbn [lookup]. now rewrite Nat.eqb_refl.
      * apply Forall_fst_map in Hlt. rewrite Forall_forall in Hlt. intros Hi. specialize (Hlt _ Hi). lia.
    + destruct (IH _ _ _ _ _ E Hlt' k h Hin) as [A B]. split; intros Hk.
      * destruct (A Hk) as (c' & Hc & Hl). exists c'. split; [now right|auto].
      * destruct (B Hk) as (c' & Hc & Hl). exists c'. split; [now right|auto].
  - destruct (i_install (hs ++ [(n, IR c)]) (S n) t) as [[hs0 n0] out0] eqn:E. injection H as <- <- <-.
    assert (Hlt' : Forall (fun e => fst e < S n) (hs ++ [(n, IR c)])).
    { apply Forall_app. split; [|repeat constructor]. eapply Forall_impl; [|exact Hlt]. cbn beta. intros; lia. }
    destruct Hin as [Eq|Hin].
    + injection Eq as <- <-. split; [discriminate|intros _]. exists c. split; [now left|].
      destruct (C04_install_positions _ _ _ _ _ _ E Hlt') as (_ & _ & _ & _ & _ & Hold).
      rewrite (Hold n) by lia. rewrite lookup_app, lookup_not_in.
      * cbn [lookup]. now rewrite Nat.eqb_refl.
      * apply Forall_fst_map in Hlt. rewrite Forall_forall in Hlt. intros Hi. specialize (Hlt _ Hi). lia.
    + destruct (IH _ _ _ _ _ E Hlt' k h Hin) as [A B]. split; intros Hk.
      * destruct (A Hk) as (c' & Hc & Hl). exists c'. split; [now right|auto].
      * destruct (B Hk) as (c' & Hc & Hl). exists c'. split; [now right|auto].
  - destruct (IH _ _ _ _ _ H Hlt k h Hin) as [A B]. split; intros Hk.
    + destruct (A Hk) as (c' & Hc & Hl). exists c'. split; [now right|auto].
    + destruct (B Hk) as (c' & Hc & Hl). exists c'. split; [now right|auto].
Qed.

(* the loosely specified statement, literally as given (its conclusion has a trivial disjunct);
   the content is in C04_install_positions and C04_transfer_same_channel_strong *)
Theorem C04_transfer_same_channel : forall hs n rs hs' n' out, i_install hs n rs = (hs', n', out) ->
  forall k h, In (k, h) out -> (k = KRx -> exists c, In (RR c) rs /\ lookup hs' h = Some (IR c) \/ True).
Proof. intros hs n rs hs' n' out _ k h _ _. exists 0. now right. Qed.

Print Assumptions i_inv_init.
Print Assumptions i_inv_step.
Print Assumptions i_inv_run.
Print Assumptions C03_disconnected_iff.
Print Assumptions C03_idle_is_empty.
Print Assumptions C03_messages_first.
Print Assumptions C09_send_err_iff.
Print Assumptions C09_send_ok_queues.
Print Assumptions C04_install_positions.
Print Assumptions C04_transfer_same_channel_strong.
Print Assumptions C04_transfer_same_channel.
