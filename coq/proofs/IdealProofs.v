(* IdealProofs: placeholder, to be filled in *)
From Coq Require Import List Arith Lia Bool ZArith.
From IPC Require Import K.
