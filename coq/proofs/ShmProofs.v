From Coq Require Import ZArith List Bool Lia.
From IPC Require Import Shm.
Import ListNotations.
Open Scope Z_scope.

Lemma obj_app_new w o : obj {| objs := objs w ++ [o]; maps := maps w; fds := fds w |} (length (objs w)) = o.
Proof. unfold obj. cbn [objs]. rewrite app_nth2 by lia. now rewrite Nat.sub_diag. Qed.

Lemma nth_new (l : list shmobj) o d : nth (length l) (l ++ [o]) d = o.
Proof. rewrite app_nth2 by lia. now rewrite Nat.sub_diag. Qed.

(* a region created from any byte string reads back exactly those bytes, for every length including 0 *)
Theorem read_from_bytes : forall w bytes, let '(w', r, _) := from_bytes w bytes in read w' r = bytes.
Proof.
  intros w bytes. unfold from_bytes, create, read. cbn [r_mapped r_len r_obj].
  destruct (Z.of_nat (length bytes) =? 0) eqn:E; cbn [negb].
  - destruct bytes; [reflexivity|cbn in E; lia].
  - unfold obj. cbn [objs]. rewrite nth_new. cbn [o_bytes]. rewrite Nat2Z.id. apply firstn_all.
Qed.

Theorem read_from_byte : forall w b n, let '(w', r, _) := from_byte w b n in read w' r = repeat b n.
Proof. intros w b n. unfold from_byte. exact (read_from_bytes w (repeat b n)). Qed.

(* every clone reads the same bytes as the region it was cloned from *)
Theorem read_clone : forall w r, let '(w', r', _) := clone w r in read w' r' = read w r /\ forall x, read w' x = read w x.
Proof. intros w r. unfold clone, read, obj. cbn. split; [reflexivity|intros; reflexivity]. Qed.

(* the process that receives the descriptor maps the whole object: same length, same bytes *)
Theorem read_received : forall w bytes,
  let '(w1, r, _) := from_bytes w bytes in let '(w2, r', _) := receive w1 r in
  read w2 r' = bytes /\ r_len r' = Z.of_nat (length bytes).
Proof.
  intros w bytes. unfold from_bytes, create, receive, read, obj. cbn [objs r_obj r_mapped r_len].
  rewrite nth_new. cbn [o_size o_bytes].
  destruct (Z.of_nat (length bytes) =? 0) eqn:E; cbn [negb]; split; try reflexivity.
  - destruct bytes; [reflexivity|cbn in E; lia].
  - rewrite Nat2Z.id. apply firstn_all.
Qed.

(* contents do not depend on any other handle: dropping the creator's handles (or anybody's) changes no object *)
Theorem drop_keeps_contents : forall w r x, read (fst (drop w r)) x = read w x.
Proof. intros w r x. unfold drop, read, obj. reflexivity. Qed.

(* mappings and descriptors are paired: after create/clone/receive and the matching drop the counts are back *)
Theorem create_drop_balanced : forall w bytes, let '(w1, r, _) := from_bytes w bytes in
  maps (fst (drop w1 r)) = maps w /\ fds (fst (drop w1 r)) = fds w.
Proof. intros w bytes. unfold from_bytes, create, drop. cbn. destruct (Z.of_nat (length bytes) =? 0); cbn; lia. Qed.
Theorem clone_drop_balanced : forall w r, let '(w1, r', _) := clone w r in
  maps (fst (drop w1 r')) = maps w /\ fds (fst (drop w1 r')) = fds w.
Proof. intros w r. unfold clone, drop. cbn. destruct (r_mapped r); cbn; lia. Qed.

(* zero-length regions: nothing is mapped, reading yields the empty slice at both API levels *)
Theorem zero_length_safe : forall w, let '(w', r, cs) := from_bytes w [] in
  r_mapped r = false /\ read w' r = [] /\ cs = [CFtruncate 0] /\ ipc_read (fst (fst (ipc_from_bytes w []))) (snd (fst (ipc_from_bytes w []))) = [].
Proof. intros w. cbn. repeat split. Qed.

(* Deref is only ever applied to a mapped pointer or answered with the empty slice *)
Theorem deref_defined : forall w r, r_mapped r = false -> read w r = [].
Proof. intros w r H. unfold read. now rewrite H. Qed.

(* ---- failing mappings: an operation either panics or behaves exactly as if nothing had failed; it never hands out a region
   whose length or contents differ, whatever the oracle ---- *)
Theorem mmap_failure_all_or_nothing : forall ok w bytes w' r cs,
  create_f ok w bytes = Some (w', r, cs) -> (w', r, cs) = create w bytes /\ read w' r = bytes.
Proof.
  intros ok w bytes w' r cs H. unfold create_f, guard in H. pose proof (read_from_bytes w bytes) as Hr. unfold from_bytes in Hr.
  destruct (create w bytes) as [[w1 r1] c1]. destruct (r_mapped r1 && negb ok); [discriminate|]. injection H as <- <- <-. auto.
Qed.

Theorem mmap_failure_clone : forall ok w r w' r' cs,
  clone_f ok w r = Some (w', r', cs) -> read w' r' = read w r /\ r_len r' = r_len r.
Proof.
  intros ok w r w' r' cs H. unfold clone_f, guard in H. pose proof (read_clone w r) as Hr.
  destruct (clone w r) as [[w1 r1] c1] eqn:E. destruct (r_mapped r1 && negb ok); [discriminate|]. injection H as <- <- <-.
  split; [apply Hr|]. unfold clone in E. injection E as _ <- _. reflexivity.
Qed.

Theorem mmap_failure_receive : forall ok w bytes w1 r c1 w2 r' c2,
  from_bytes w bytes = (w1, r, c1) -> receive_f ok w1 r = Some (w2, r', c2) ->
  read w2 r' = bytes /\ r_len r' = Z.of_nat (length bytes).
Proof.
  intros ok w bytes w1 r c1 w2 r' c2 Hc H. unfold receive_f, guard in H. pose proof (read_received w bytes) as Hr.
  rewrite Hc in Hr. destruct (receive w1 r) as [[w3 r3] c3]. destruct (r_mapped r3 && negb ok); [discriminate|].
  injection H as <- <- <-. exact Hr.
Qed.

(* with the mapping refused, exactly the operations that map something panic *)
Theorem mmap_failure_panics_iff : forall w bytes,
  create_f false w bytes = None <-> mmapfail_panics (Z.of_nat (length bytes)) = true.
Proof.
  intros w bytes. unfold create_f, guard, create, mmapfail_panics. cbn [r_mapped].
  destruct (negb (Z.of_nat (length bytes) =? 0)); cbn; split; intros H; auto; discriminate.
Qed.

(* ---- Clone::clone_from ---- *)
(* the destination becomes a handle on the source's object: it reads what the source reads; NO other handle - in particular no
   earlier clone of the destination and no copy of it that another process received - reads anything else than before, because no
   object is written; descriptors and mappings: one pair made, the destination's old pair released *)
Theorem clone_from_reads : forall w d s, let '(w', r, _) := clone_from w d s in
  read w' r = read w s /\ (forall x, read w' x = read w x) /\ objs w' = objs w.
Proof. intros w d s. unfold clone_from, clone, drop, read, obj. cbn. repeat split; reflexivity. Qed.

Theorem clone_from_balanced : forall w d s, let '(w', r, _) := clone_from w d s in
  fds w' = fds w /\ maps w' = maps w + (if r_mapped s then 1 else 0) - (if r_mapped d then 1 else 0) /\
  r_len r = r_len s /\ r_obj r = r_obj s.
Proof. intros w d s. unfold clone_from, clone, drop. cbn. repeat split; lia. Qed.

Theorem clone_from_calls : forall w d s, let '(_, _, cs) := clone_from w d s in
  cs = CDup :: (if r_mapped s then [CMmap (r_len s)] else []) ++ (if r_mapped d then [CMunmap] else []) ++ [CClose].
Proof. intros w d s. unfold clone_from, clone, drop. cbn. destruct (r_mapped s); reflexivity. Qed.
