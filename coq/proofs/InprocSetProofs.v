(* InprocSetProofs: the in-process receiver set, for EVERY schedule of adds, sends, hang-ups and select results (whichever ready
   member crossbeam's Select picks): ids are distinct for ever; for every member, the messages reported under its id followed by
   what is still queued are exactly what was sent on its channel, in order (messages queued before the add included); a closure is
   reported at most once, only with the queue empty and the senders gone, and nothing is reported for that id afterwards;
   whenever a member is ready, select is enabled. *)
From Coq Require Import List Arith Bool Lia.
From IPC Require Import InprocSet.
Import ListNotations.

(* ---- lists ---- *)
Lemma nth_set_nth_eq {X} : forall (l : list X) i v d, i < length l -> nth i (set_nth l i v) d = v.
Proof. induction l as [|h t IH]; intros [|i] v d H; cbn in *; try lia; auto; try (apply IH; lia). Qed.
Lemma nth_set_nth_neq {X} : forall (l : list X) i j v d, i <> j -> nth j (set_nth l i v) d = nth j l d.
Proof. induction l as [|h t IH]; intros [|i] [|j] v d H; cbn; auto; try lia; try (apply IH; lia). Qed.
Lemma length_set_nth {X} : forall (l : list X) i v, length (set_nth l i v) = length l.
Proof. induction l as [|h t IH]; intros [|i] v; cbn; auto. Qed.

Lemma in_remove_nth {X} : forall (l : list X) i x, In x (remove_nth l i) -> In x l.
Proof. induction l as [|h t IH]; intros [|i] x H; cbn in *; auto. destruct H; auto. right. eapply IH; eauto. Qed.

Lemma in_remove_nth_iff {X} : forall (l : list X) i m x, NoDup l -> nth_error l i = Some m ->
  (In x (remove_nth l i) <-> In x l /\ x <> m).
Proof.
  induction l as [|h t IH]; intros [|i] m x Hnd Hn; cbn in *; try discriminate.
  - injection Hn as ->. inversion Hnd; subst. split.
    + intros H. split; auto. intros ->. contradiction.
    + intros [[->|H] Hne]; [contradiction|auto].
  - inversion Hnd; subst. rewrite (IH i m x) by auto. split.
    + intros [->|[H Hne]]; split; auto. intros ->. apply H1. eapply nth_error_In; eauto.
    + intros [[->|H] Hne]; auto.
Qed.

Lemma NoDup_remove_nth {X} : forall (l : list X) i, NoDup l -> NoDup (remove_nth l i).
Proof.
  induction l as [|h t IH]; intros [|i] H; cbn; auto; inversion H; subst; auto.
  constructor; auto. intros Hin. apply H2. eapply in_remove_nth; eauto.
Qed.

Lemma NoDup_app_snoc {X} : forall (l : list X) x, NoDup l -> ~ In x l -> NoDup (l ++ [x]).
Proof.
  induction l as [|a t IH]; intros x Hnd Hn; cbn; [constructor; [intros []|constructor]|].
  inversion Hnd; subst. constructor.
  - intros Hin. apply in_app_or in Hin. destruct Hin as [Hin|[->|[]]]; [contradiction|]. apply Hn. now left.
  - apply IH; auto. intros Hin. apply Hn. now right.
Qed.

Lemma map_remove_nth {X Y} (f : X -> Y) : forall (l : list X) i, map f (remove_nth l i) = remove_nth (map f l) i.
Proof. induction l as [|h t IH]; intros [|i]; cbn; auto. f_equal. apply IH. Qed.

(* ---- channels ---- *)
Definition upd_chans (s : st) (cs : list chan) : st :=
  {| chans := cs; members := members s; next_id := next_id s; events := events s; added := added s |}.

Lemma gchan_set_eq : forall s c v, c < length (chans s) -> gchan (upd_chans s (set_nth (chans s) c v)) c = v.
Proof. intros. unfold gchan. cbn [chans upd_chans]. now apply nth_set_nth_eq. Qed.
Lemma gchan_set_neq : forall s c c' v, c <> c' -> gchan (upd_chans s (set_nth (chans s) c v)) c' = gchan s c'.
Proof. intros. unfold gchan. cbn [chans upd_chans]. now apply nth_set_nth_neq. Qed.

(* ---- events ---- *)
Definition ev_id (e : event) : nat := match e with EMsg i _ | EClosed i => i end.

Lemma msgs_of_app : forall id a b, msgs_of id (a ++ b) = msgs_of id a ++ msgs_of id b.
Proof. intros. unfold msgs_of. apply flat_map_app. Qed.
Lemma closed_count_app : forall id a b, closed_count id (a ++ b) = closed_count id a + closed_count id b.
Proof. intros. unfold closed_count. rewrite filter_app, app_length. reflexivity. Qed.
Lemma msgs_of_fresh : forall id evs, (forall e, In e evs -> ev_id e <> id) -> msgs_of id evs = [].
Proof.
  induction evs as [|e t IH]; intros H; [reflexivity|]. unfold msgs_of in *. cbn [flat_map].
  rewrite IH by (intros; apply H; now right).
  destruct e as [i x|i]; auto. destruct (Nat.eqb_spec i id); auto. exfalso. apply (H (EMsg i x)); [now left|auto].
Qed.
Lemma closed_count_fresh : forall id evs, (forall e, In e evs -> ev_id e <> id) -> closed_count id evs = 0.
Proof.
  induction evs as [|e t IH]; intros H; [reflexivity|]. unfold closed_count in *. cbn [filter].
  destruct e as [i x|i]; [apply IH; intros; apply H; now right|].
  destruct (Nat.eqb_spec i id); [exfalso; apply (H (EClosed i)); [now left|auto]|]. apply IH. intros. apply H. now right.
Qed.

(* ---- the invariant ---- *)
Record Inv (s : st) : Prop := {
  i_ids : NoDup (map fst (added s));
  i_chs : NoDup (map snd (added s));
  i_bounds : forall id c, In (id, c) (added s) -> id < next_id s /\ c < length (chans s);
  i_sub : forall m, In m (members s) -> In m (added s);
  i_mnd : NoDup (members s);
  i_evs : forall e, In e (events s) -> ev_id e < next_id s;
  i_fifo : forall id c, In (id, c) (added s) -> msgs_of id (events s) ++ queue (gchan s c) = sent (gchan s c);
  i_unadded : forall c, c < length (chans s) -> ~ In c (map snd (added s)) -> queue (gchan s c) = sent (gchan s c);
  i_live : forall id c, In (id, c) (members s) -> closed_count id (events s) = 0;
  i_closed : forall id c, In (id, c) (added s) -> ~ In (id, c) (members s) ->
             closed_count id (events s) = 1 /\ queue (gchan s c) = [] /\ hup (gchan s c) = true }.

Lemma Inv_init : forall n, Inv (init n).
Proof.
  intros n. constructor; cbn; try constructor; try (intros; contradiction).
  intros c Hc _. unfold gchan. cbn. rewrite repeat_length in Hc.
  rewrite nth_indep with (d' := {| queue := []; hup := false; sent := [] |}) by now rewrite repeat_length.
  now rewrite nth_repeat.
Qed.

Lemma added_fst_eq : forall s id c id' c', Inv s -> In (id, c) (added s) -> In (id', c') (added s) -> id = id' -> c = c'.
Proof.
  intros s id c id' c' I H1 H2 ->. pose proof (i_ids s I) as Hnd.
  induction (added s) as [|[a b] t IH]; [contradiction|]. cbn in *. inversion Hnd; subst.
  destruct H1 as [E1|H1], H2 as [E2|H2].
  - congruence.
  - injection E1 as -> ->. exfalso. apply H3. change id' with (fst (id', c')). now apply in_map.
  - injection E2 as -> ->. exfalso. apply H3. change id' with (fst (id', c)). now apply in_map.
  - auto.
Qed.

Lemma added_snd_eq : forall s id c id' c', Inv s -> In (id, c) (added s) -> In (id', c') (added s) -> c = c' -> id = id'.
Proof.
  intros s id c id' c' I H1 H2 ->. pose proof (i_chs s I) as Hnd.
  induction (added s) as [|[a b] t IH]; [contradiction|]. cbn in *. inversion Hnd; subst.
  destruct H1 as [E1|H1], H2 as [E2|H2].
  - congruence.
  - injection E1 as -> ->. exfalso. apply H3. change c' with (snd (id', c')). now apply in_map.
  - injection E2 as -> ->. exfalso. apply H3. change c' with (snd (id, c')). now apply in_map.
  - auto.
Qed.

Lemma existsb_added_false : forall l c, existsb (fun m : nat * nat => snd m =? c) l = false -> ~ In c (map snd l).
Proof.
  induction l as [|[a b] t IH]; intros c H; cbn in *; auto. apply orb_false_iff in H. destruct H as [H1 H2].
  intros [->|Hin]; [rewrite Nat.eqb_refl in H1; discriminate|]. eapply IH; eauto.
Qed.

Ltac stfields := cbn [chans members next_id events added upd_chans] in *.

Lemma Inv_step : forall s l s', Inv s -> step s l = Some s' -> Inv s'.
Proof.
  intros s l s' I H. destruct l as [c|c x|c|i]; unfold step in H.
  - (* LAdd *)
    destruct (c <? length (chans s)) eqn:Ec; [|discriminate]. apply Nat.ltb_lt in Ec.
    destruct (existsb (fun m => snd m =? c) (added s)) eqn:Ex; [discriminate|]. cbn [negb andb] in H. injection H as <-.
    pose proof (existsb_added_false _ _ Ex) as Hfresh.
    destruct I as [Iid Ich Ib Isub Imnd Iev Iff Iun Ilive Icl].
    assert (Hidfresh : ~ In (next_id s) (map fst (added s))).
    { intros Hin. apply in_map_iff in Hin. destruct Hin as ([a b] & E & Hin). cbn in E. subst a. destruct (Ib _ _ Hin). lia. }
    assert (Hevfresh : forall e, In e (events s) -> ev_id e <> next_id s) by (intros e He; specialize (Iev e He); lia).
    constructor; stfields.
    + rewrite map_app. cbn. apply NoDup_app_snoc; auto.
    + rewrite map_app. cbn. apply NoDup_app_snoc; auto.
    + intros id c' Hin. apply in_app_or in Hin. destruct Hin as [Hin|[E|[]]].
      * destruct (Ib _ _ Hin). lia.
      * injection E as <- <-. lia.
    + intros m Hin. apply in_app_or in Hin. apply in_or_app. destruct Hin as [Hin|Hin]; auto.
    + apply NoDup_app_snoc; auto. intros Hin. apply Hidfresh. change (next_id s) with (fst (next_id s, c)). apply in_map. auto.
    + intros e He. specialize (Iev e He). lia.
    + intros id c' Hin. apply in_app_or in Hin. destruct Hin as [Hin|[E|[]]]; [now apply Iff|].
      injection E as <- <-. rewrite (msgs_of_fresh _ _ Hevfresh). cbn [app]. unfold gchan. cbn [chans]. apply Iun; auto.
    + intros c' Hc Hn. apply Iun; auto. intros Hin. apply Hn. rewrite map_app. apply in_or_app. auto.
    + intros id c' Hin. apply in_app_or in Hin. destruct Hin as [Hin|[E|[]]]; [eapply Ilive; eauto|].
      injection E as <- <-. now apply closed_count_fresh.
    + intros id c' Hin Hnm. apply in_app_or in Hin. destruct Hin as [Hin|[E|[]]].
      * apply Icl; auto. intros Hm. apply Hnm. apply in_or_app. auto.
      * exfalso. apply Hnm. apply in_or_app. right. now left.
  - (* LSend *)
    destruct (c <? length (chans s)) eqn:Ec; [|discriminate]. apply Nat.ltb_lt in Ec.
    destruct (hup (gchan s c)) eqn:Eh; [discriminate|]. cbn [negb andb] in H. injection H as <-.
    set (ch' := {| queue := queue (gchan s c) ++ [x]; hup := false; sent := sent (gchan s c) ++ [x] |}).
    change (Inv (upd_chans s (set_nth (chans s) c ch'))).
    destruct I as [Iid Ich Ib Isub Imnd Iev Iff Iun Ilive Icl].
    constructor; stfields; auto.
    + intros id c' Hin. destruct (Ib _ _ Hin). rewrite length_set_nth. auto.
    + intros id c' Hin. destruct (Nat.eq_dec c c') as [<-|Hne].
      * rewrite gchan_set_eq by auto. unfold ch'. cbn [queue sent]. rewrite app_assoc, (Iff _ _ Hin). reflexivity.
      * rewrite gchan_set_neq by auto. now apply Iff.
    + intros c' Hc Hn. rewrite length_set_nth in Hc. destruct (Nat.eq_dec c c') as [<-|Hne].
      * rewrite gchan_set_eq by auto. unfold ch'. cbn [queue sent]. rewrite (Iun c) by auto. reflexivity.
      * rewrite gchan_set_neq by auto. now apply Iun.
    + intros id c' Hin Hnm. destruct (Icl _ _ Hin Hnm) as (A & B & D). destruct (Nat.eq_dec c c') as [<-|Hne]; [congruence|].
      rewrite gchan_set_neq by auto. auto.
  - (* LHup *)
    destruct (c <? length (chans s)) eqn:Ec; [|discriminate]. apply Nat.ltb_lt in Ec.
    destruct (hup (gchan s c)) eqn:Eh; [discriminate|]. cbn [negb andb] in H. injection H as <-.
    set (ch' := {| queue := queue (gchan s c); hup := true; sent := sent (gchan s c) |}).
    change (Inv (upd_chans s (set_nth (chans s) c ch'))).
    destruct I as [Iid Ich Ib Isub Imnd Iev Iff Iun Ilive Icl].
    constructor; stfields; auto.
    + intros id c' Hin. destruct (Ib _ _ Hin). rewrite length_set_nth. auto.
    + intros id c' Hin. destruct (Nat.eq_dec c c') as [<-|Hne].
      * rewrite gchan_set_eq by auto. unfold ch'. cbn [queue sent]. now apply Iff.
      * rewrite gchan_set_neq by auto. now apply Iff.
    + intros c' Hc Hn. rewrite length_set_nth in Hc. destruct (Nat.eq_dec c c') as [<-|Hne].
      * rewrite gchan_set_eq by auto. unfold ch'. cbn [queue sent]. now apply Iun.
      * rewrite gchan_set_neq by auto. now apply Iun.
    + intros id c' Hin Hnm. destruct (Icl _ _ Hin Hnm) as (A & B & D). destruct (Nat.eq_dec c c') as [<-|Hne]; [congruence|].
      rewrite gchan_set_neq by auto. auto.
  - (* LSelect *)
    destruct (nth_error (members s) i) as [[id c]|] eqn:En; [|discriminate].
    pose proof (nth_error_In _ _ En) as Hmem. pose proof (i_sub s I _ Hmem) as Hadd.
    destruct (i_bounds s I _ _ Hadd) as [Hidlt Hclt].
    destruct (queue (gchan s c)) as [|x q] eqn:Eq.
    + (* closure *)
      destruct (hup (gchan s c)) eqn:Eh; [|discriminate]. injection H as <-.
      pose proof I as [Iid Ich Ib Isub Imnd Iev Iff Iun Ilive Icl].
      constructor; stfields; auto.
      * intros m Hin. apply Isub. eapply in_remove_nth; eauto.
      * now apply NoDup_remove_nth.
      * intros e He. apply in_app_or in He. destruct He as [He|[<-|[]]]; auto.
      * intros id' c' Hin. rewrite msgs_of_app. cbn [msgs_of flat_map app]. rewrite app_nil_r. now apply Iff.
      * intros id' c' Hin. apply (in_remove_nth_iff _ _ _ _ Imnd En) in Hin. destruct Hin as [Hin Hne].
        rewrite closed_count_app. rewrite (Ilive _ _ Hin). unfold closed_count. cbn [filter].
        destruct (Nat.eqb_spec id id') as [->|]; [|reflexivity].
        exfalso. apply Hne. f_equal. eapply added_fst_eq; eauto.
      * intros id' c' Hin Hnm. rewrite closed_count_app.
        destruct (Nat.eq_dec id id') as [<-|Hne].
        -- assert (c' = c) as -> by (eapply added_fst_eq; eauto).
           rewrite (Ilive _ _ Hmem). unfold closed_count. cbn [filter]. rewrite Nat.eqb_refl. cbn. auto.
        -- assert (Hnm0 : ~ In (id', c') (members s)).
           { intros Hm. apply Hnm. apply (in_remove_nth_iff _ _ _ _ Imnd En). split; auto. congruence. }
           destruct (Icl _ _ Hin Hnm0) as (A & B & D). rewrite A. unfold closed_count. cbn [filter].
           destruct (Nat.eqb_spec id id'); [contradiction|]. cbn. auto.
    + (* a message *)
      injection H as <-.
      set (ch' := {| queue := q; hup := hup (gchan s c); sent := sent (gchan s c) |}).
      pose proof I as [Iid Ich Ib Isub Imnd Iev Iff Iun Ilive Icl].
      constructor; stfields; auto.
      * intros id' c' Hin. destruct (Ib _ _ Hin). rewrite length_set_nth. auto.
      * intros e He. apply in_app_or in He. destruct He as [He|[<-|[]]]; auto.
      * intros id' c' Hin. rewrite msgs_of_app. cbn [msgs_of flat_map app]. rewrite app_nil_r.
        change (gchan {| chans := set_nth (chans s) c ch'; members := members s; next_id := next_id s;
                         events := events s ++ [EMsg id x]; added := added s |} c')
          with (gchan (upd_chans s (set_nth (chans s) c ch')) c').
        destruct (Nat.eq_dec c c') as [<-|Hne].
        -- assert (id' = id) as -> by (eapply added_snd_eq; eauto).
           rewrite Nat.eqb_refl, gchan_set_eq by auto. unfold ch'. cbn [queue sent].
           rewrite <- (Iff _ _ Hadd), Eq, <- app_assoc. reflexivity.
        -- rewrite gchan_set_neq by auto.
           destruct (Nat.eqb_spec id id') as [->|]; [exfalso; apply Hne; eapply added_fst_eq; eauto|].
           rewrite app_nil_r. now apply Iff.
      * intros c' Hc Hn. rewrite length_set_nth in Hc.
        change (gchan {| chans := set_nth (chans s) c ch'; members := members s; next_id := next_id s;
                         events := events s ++ [EMsg id x]; added := added s |} c')
          with (gchan (upd_chans s (set_nth (chans s) c ch')) c').
        assert (c <> c').
        { intros <-. apply Hn. change c with (snd (id, c)). now apply in_map. }
        rewrite gchan_set_neq by auto. now apply Iun.
      * intros id' c' Hin. rewrite closed_count_app. unfold closed_count at 2. cbn [filter length]. rewrite Nat.add_0_r. eapply Ilive; eauto.
      * intros id' c' Hin Hnm. rewrite closed_count_app. unfold closed_count at 2. cbn [filter length]. rewrite Nat.add_0_r.
        change (gchan {| chans := set_nth (chans s) c ch'; members := members s; next_id := next_id s;
                         events := events s ++ [EMsg id x]; added := added s |} c')
          with (gchan (upd_chans s (set_nth (chans s) c ch')) c').
        destruct (Icl _ _ Hin Hnm) as (A & B & D).
        assert (c <> c').
        { intros <-. assert (id' = id) as -> by (eapply added_snd_eq; eauto). contradiction. }
        rewrite gchan_set_neq by auto. auto.
Qed.

Lemma Inv_run : forall ls s s', Inv s -> run s ls = Some s' -> Inv s'.
Proof.
  induction ls as [|l r IH]; intros s s' I H; cbn [run] in H; [injection H as <-; exact I|].
  destruct (step s l) as [s1|] eqn:Es; [|discriminate]. eapply IH; [eapply Inv_step; eauto|exact H].
Qed.

Theorem reachable_inv : forall n ls s, run (init n) ls = Some s -> Inv s.
Proof. intros n ls s H. eapply Inv_run; [apply Inv_init|exact H]. Qed.

(* ids handed out by add are pairwise distinct, for ever (not only among the members currently in the set) *)
Theorem iset_ids_distinct : forall n ls s, run (init n) ls = Some s -> NoDup (map fst (added s)).
Proof. intros n ls s H. exact (i_ids _ (reachable_inv _ _ _ H)). Qed.

(* per member: what was reported under its id, then what is still queued, is what was sent on its channel - in order, once each,
   messages queued before the add included *)
Theorem iset_member_fifo : forall n ls s id c, run (init n) ls = Some s -> In (id, c) (added s) ->
  msgs_of id (events s) ++ queue (gchan s c) = sent (gchan s c).
Proof. intros n ls s id c H Hin. exact (i_fifo _ (reachable_inv _ _ _ H) id c Hin). Qed.

(* a closure is reported at most once; when it has been reported the queue was empty, the senders gone, and the member is out of
   the set for good: everything reported under that id is everything that was ever sent *)
Theorem iset_closed_once_last : forall n ls s id c, run (init n) ls = Some s -> In (id, c) (added s) ->
  closed_count id (events s) <= 1 /\
  (closed_count id (events s) = 1 -> ~ In (id, c) (members s) /\ msgs_of id (events s) = sent (gchan s c) /\ hup (gchan s c) = true).
Proof.
  intros n ls s id c H Hin. pose proof (reachable_inv _ _ _ H) as I.
  destruct (in_dec (fun a b : nat * nat => ltac:(decide equality; apply Nat.eq_dec)) (id, c) (members s)) as [Hm|Hm].
  - rewrite (i_live _ I _ _ Hm). split; [lia|discriminate].
  - destruct (i_closed _ I _ _ Hin Hm) as (A & B & D). rewrite A. split; [lia|]. intros _. split; auto. split; auto.
    pose proof (i_fifo _ I _ _ Hin) as F. rewrite B, app_nil_r in F. exact F.
Qed.

(* no event carries an id that add never returned *)
Theorem iset_events_known : forall n ls s e, run (init n) ls = Some s -> In e (events s) -> ev_id e < next_id s.
Proof. intros n ls s e H He. exact (i_evs _ (reachable_inv _ _ _ H) e He). Qed.

(* select is enabled exactly for the ready members: it never blocks while a member has a message queued or has been hung up *)
Theorem iset_select_enabled : forall s i id c, nth_error (members s) i = Some (id, c) ->
  ((exists s', step s (LSelect i) = Some s') <-> (queue (gchan s c) <> [] \/ hup (gchan s c) = true)).
Proof.
  intros s i id c Hn. unfold step. rewrite Hn. destruct (queue (gchan s c)) as [|x q].
  - destruct (hup (gchan s c)); split; eauto.
    + intros (s' & E). discriminate.
    + intros [E|E]; [contradiction|discriminate].
  - split; eauto. intros _. left. discriminate.
Qed.
