(* Proofs about Conc: for EVERY schedule, what the receiver has delivered is, message by message and
   in order, a prefix of the linearisation order - whole messages, never mixed. *)
From Coq Require Import List Arith Lia Bool.
From IPC Require Import Conc.
Import ListNotations.

Section ConcProofs.
Context {A : Type}.
Notation sys := (@Conc.sys A).
Notation chunk := (@Conc.chunk A).
Notation firstpkt := (@Conc.firstpkt A).
Notation rstate := (@Conc.rstate A).
Notation plan := (@Conc.plan A).
Notation label := (@Conc.label A).
(* per-message relation between what is physically in the sockets and the ghost data *)
Definition owed (s : sys) (m : mid) : list A := concat (dedq s m) ++ concat (tosend s m).
Definition pk_ok (s : sys) (pk : firstpkt) (d : mid * list A) : Prop :=
  f_mid pk = fst d /\ f_total pk = length (snd d) /\ snd d = f_chunk pk ++ owed s (fst d).
Definition rcv_ok (s : sys) (r : rstate) (d : mid * list A) : Prop :=
  r_mid r = fst d /\ r_total r = length (snd d) /\ snd d = r_buf r ++ owed s (fst d) /\ length (r_buf r) < r_total r.

Definition pend_ok (s : sys) (pend : list (mid * list A)) : Prop :=
  match rcv s with
  | None => Forall2 (pk_ok s) (mainq s) pend
  | Some r => exists d pend', pend = d :: pend' /\ rcv_ok s r d /\ Forall2 (pk_ok s) (mainq s) pend'
  end.

Record Inv (s : sys) : Prop := {
  i_lin : exists done pend, lin s = done ++ pend /\ map snd done = delivered s /\ pend_ok s pend
            /\ (forall m, ~ In m (map fst pend) -> dedq s m = [] /\ tosend s m = []);
  i_nodup : NoDup (map fst (lin s));
  i_fresh : forall m, In m (map fst (lin s)) -> m < next s;
  i_ne : forall m, nonempty (dedq s m) /\ nonempty (tosend s m) }.

Lemma concat_nonempty_nil (cs : list chunk) : nonempty cs -> concat cs = [] -> cs = [].
Proof. destruct cs as [|c cs]; [easy|]. intros H E. inversion H; subst. simpl in E.
  apply app_eq_nil in E. tauto. Qed.

Lemma owed_nil s m : nonempty (dedq s m) -> nonempty (tosend s m) -> owed s m = [] -> dedq s m = [] /\ tosend s m = [].
Proof. unfold owed. intros H1 H2 E. apply app_eq_nil in E. destruct E. split; now apply concat_nonempty_nil. Qed.

(* frame: changing queues of a message that is not in the list leaves pk_ok untouched *)
Lemma Forall2_pk_frame s s' q pend :
  (forall m, In m (map fst pend) -> owed s' m = owed s m) ->
  Forall2 (pk_ok s) q pend -> Forall2 (pk_ok s') q pend.
Proof.
  intros F H. induction H as [|pk d q pend Hd H IH]; constructor.
  - destruct Hd as (a & b & c). repeat split; auto. rewrite F; auto. simpl; auto.
  - apply IH. intros m Hm. apply F. simpl; auto.
Qed.

Lemma Inv_init : Inv init.
Proof. constructor; simpl.
  - exists [], []. repeat split; auto. constructor.
  - constructor. - tauto. - intros; split; constructor. Qed.

Lemma NoDup_app_not_in {B} (l1 l2 : list B) x : NoDup (l1 ++ l2) -> In x l1 -> ~ In x l2.
Proof. induction l1 as [|a l1 IH]; simpl; [tauto|]. intros N [->|H].
  - inversion N; subst. intro. apply H1. apply in_or_app; auto.
  - inversion N; subst. auto. Qed.

Lemma NoDup_snoc {B} (l : list B) x : NoDup l -> ~ In x l -> NoDup (l ++ [x]).
Proof. induction l as [|a l IH]; simpl; intros N H; [constructor; [tauto|constructor]|].
  inversion N; subst. constructor; [|apply IH; tauto]. intro Hi. apply in_app_or in Hi. simpl in Hi. intuition; subst; tauto. Qed.

Lemma NoDup_app_r {B} (l1 l2 : list B) : NoDup (l1 ++ l2) -> NoDup l2.
Proof. induction l1; simpl; auto. intros N. inversion N; auto. Qed.

Lemma Inv_step s l s' : Inv s -> wf_label l -> step s l = Some s' -> Inv s'.
Proof.
  intros [ (done & pend & Hlin & Hdone & Hpend & Hout) Hnd Hfresh Hne ] Hwf Hs.
  destruct l as [p | m | | ]; simpl in Hs.
  - (* LStart *)
    injection Hs as <-. simpl in Hwf.
    assert (Hnew : ~ In (next s) (map fst (lin s))) by (intro Hi; apply Hfresh in Hi; lia).
    assert (Hnp : ~ In (next s) (map fst pend)).
    { intro Hi. apply Hnew. rewrite Hlin, map_app. apply in_or_app; auto. }
    assert (Hframe : forall m, In m (map fst pend) ->
       owed {| mainq := mainq s ++ [{| f_mid := next s; f_total := length (pdata p); f_chunk := p_first p |}];
               dedq := upd (dedq s) (next s) []; tosend := upd (tosend s) (next s) (p_rest p);
               rcv := rcv s; delivered := delivered s; lin := lin s ++ [(next s, pdata p)]; next := S (next s) |} m = owed s m).
    { intros m Hm. unfold owed; simpl. rewrite !upd_other; auto; intro; subst; auto. }
    constructor; simpl.
    + exists done, (pend ++ [(next s, pdata p)]). repeat split.
      * rewrite Hlin, app_assoc; auto.
      * auto.
      * unfold pend_ok in *; simpl. destruct (rcv s) as [r|].
        -- destruct Hpend as (d & pend' & -> & Hr & Hq). exists d, (pend' ++ [(next s, pdata p)]). split; [reflexivity|]. split.
           ++ destruct Hr as (a & b & c & e). repeat split; auto. rewrite Hframe; simpl; auto.
           ++ apply Forall2_app.
              ** eapply Forall2_pk_frame; [|exact Hq]. intros m Hm. apply Hframe. simpl; auto.
              ** constructor; [|constructor]. repeat split; simpl; auto. unfold owed; simpl. rewrite !upd_same. reflexivity.
        -- apply Forall2_app.
           ++ eapply Forall2_pk_frame; [|exact Hpend]. auto.
           ++ constructor; [|constructor]. repeat split; simpl; auto. unfold owed; simpl. rewrite !upd_same. reflexivity.
      * rewrite map_app in H. simpl in H. assert (m <> next s) by (intro; subst; apply H; apply in_or_app; simpl; auto).
        rewrite upd_other by auto. apply Hout. intro; apply H; apply in_or_app; auto.
      * rewrite map_app in H. simpl in H. assert (m <> next s) by (intro; subst; apply H; apply in_or_app; simpl; auto).
        rewrite upd_other by auto. apply Hout. intro; apply H; apply in_or_app; auto.
    + rewrite map_app; simpl. apply NoDup_snoc; auto.
    + intros m Hm. rewrite map_app in Hm. apply in_app_or in Hm. simpl in Hm. destruct Hm as [Hm|[Hm|[]]]; [apply Hfresh in Hm; lia | subst; lia].
    + intros m. unfold upd. destruct (Nat.eqb m (next s)); [split; [constructor|auto]|apply Hne].
  - (* LFollow *)
    destruct (tosend s m) as [|c cs] eqn:Et; [discriminate|]. injection Hs as <-.
    assert (Hin : In m (map fst pend)).
    { destruct (in_dec Nat.eq_dec m (map fst pend)) as [H|H]; auto. apply Hout in H. destruct H. congruence. }
    set (s' := {| mainq := mainq s; dedq := upd (dedq s) m (dedq s m ++ [c]); tosend := upd (tosend s) m cs;
                  rcv := rcv s; delivered := delivered s; lin := lin s; next := next s |}).
    assert (Hframe : forall x, owed s' x = owed s x).
    { intros x. unfold owed; simpl. destruct (Nat.eq_dec x m) as [->|Hx].
      - rewrite !upd_same, Et, concat_app. simpl. rewrite app_nil_r, <- app_assoc. reflexivity.
      - rewrite !upd_other; auto. }
    constructor; simpl; auto.
    + exists done, pend. repeat split; auto.
      * unfold pend_ok in *; simpl. destruct (rcv s) as [r|].
        -- destruct Hpend as (d & pend' & -> & Hr & Hq). exists d, pend'. split; [reflexivity|]. split.
           ++ destruct Hr as (a & b & c0 & e). repeat split; auto. rewrite Hframe; auto.
           ++ eapply Forall2_pk_frame; [|exact Hq]. auto.
        -- eapply Forall2_pk_frame; [|exact Hpend]. auto.
      * rewrite upd_other by (intro; subst; auto). now apply Hout.
      * rewrite upd_other by (intro; subst; auto). now apply Hout.
    + intros x. unfold upd. destruct (Nat.eqb_spec x m) as [->|]; [|apply Hne].
      destruct (Hne m) as [H1 H2]. rewrite Et in H2. inversion H2; subst. split; auto.
      apply Forall_app; split; auto.
  - (* LRFirst *)
    destruct (rcv s) as [r|] eqn:Er; [discriminate|]. destruct (mainq s) as [|pk q] eqn:Eq; [discriminate|].
    unfold pend_ok in Hpend. rewrite Er, Eq in Hpend. inversion Hpend as [|? d ? pend' Hd Hq]; subst.
    destruct Hd as (Hm & Htot & Hdata).
    assert (Hdn : ~ In (fst d) (map fst pend')).
    { rewrite Hlin, map_app in Hnd. apply NoDup_app_r in Hnd. simpl in Hnd. now inversion Hnd. }
    destruct (Nat.eqb_spec (f_total pk) (length (f_chunk pk))) as [E|E]; injection Hs as <-.
    + assert (Ho : owed s (fst d) = []).
      { rewrite Htot, Hdata, app_length in E. destruct (owed s (fst d)); auto. simpl in E. lia. }
      destruct (Hne (fst d)) as [N1 N2]. destruct (owed_nil _ _ N1 N2 Ho) as [D1 D2].
      constructor; simpl; auto.
      exists (done ++ [d]), pend'. repeat split.
      * rewrite Hlin, <- app_assoc. reflexivity.
      * rewrite map_app, Hdone. simpl. rewrite Hdata, Ho, app_nil_r. reflexivity.
      * unfold pend_ok; simpl. eapply Forall2_pk_frame; [|exact Hq]. auto.
      * destruct (Nat.eq_dec m (fst d)) as [->|Hx]; auto. apply Hout. simpl. intros [?|?]; auto.
      * destruct (Nat.eq_dec m (fst d)) as [->|Hx]; auto. apply Hout. simpl. intros [?|?]; auto.
    + constructor; simpl; auto.
      exists done, (d :: pend'). split; [auto|]. split; [auto|]. split; [|exact Hout].
      unfold pend_ok; simpl. exists d, pend'. split; [reflexivity|]. split.
      * split; [exact Hm|]. split; [exact Htot|]. split; [exact Hdata|].
        simpl. rewrite Htot in *. rewrite Hdata, app_length in E |- *. lia.
      * eapply Forall2_pk_frame; [|exact Hq]. auto.
  - (* LRFollow *)
    destruct (rcv s) as [r|] eqn:Er; [|discriminate]. destruct (dedq s (r_mid r)) as [|c cs] eqn:Ed; [discriminate|].
    unfold pend_ok in Hpend. rewrite Er in Hpend. destruct Hpend as (d & pend' & -> & (Hm & Htot & Hdata & Hlt) & Hq).
    assert (Hdn : ~ In (fst d) (map fst pend')).
    { rewrite Hlin, map_app in Hnd. apply NoDup_app_r in Hnd. simpl in Hnd. now inversion Hnd. }
    assert (Howed : owed s (fst d) = c ++ concat cs ++ concat (tosend s (fst d))).
    { unfold owed. rewrite <- Hm, Ed. simpl. now rewrite <- app_assoc. }
    destruct (Nat.leb_spec (r_total r) (length (r_buf r ++ c))) as [E|E]; injection Hs as <-.
    + assert (Hrest : concat cs ++ concat (tosend s (fst d)) = []).
      { remember (concat cs ++ concat (tosend s (fst d))) as X eqn:HX in *.
        rewrite Htot, Hdata, Howed in E. rewrite !app_length in E. destruct X; auto. simpl in E. lia. }
      apply app_eq_nil in Hrest. destruct Hrest as [R1 R2].
      destruct (Hne (fst d)) as [N1 N2]. rewrite <- Hm, Ed in N1. inversion N1; subst.
      apply concat_nonempty_nil in R1; auto. apply concat_nonempty_nil in R2; auto. subst cs.
      constructor; simpl; auto.
      * exists (done ++ [d]), pend'. repeat split.
        -- rewrite Hlin, <- app_assoc. reflexivity.
        -- rewrite map_app, Hdone. simpl. rewrite Hdata, Howed, R2. simpl. now rewrite app_nil_r.
        -- unfold pend_ok; simpl. eapply Forall2_pk_frame; [|exact Hq].
           intros x Hx. unfold owed; simpl. rewrite upd_other; auto. rewrite Hm. intro; subst; auto.
        -- destruct (Nat.eq_dec m (r_mid r)) as [->|Hx]; [now rewrite upd_same|]. rewrite upd_other by auto.
           apply Hout. simpl. rewrite <- Hm. intros [?|?]; auto.
        -- destruct (Nat.eq_dec m (fst d)) as [->|Hx]; auto. apply Hout. simpl. intros [?|?]; auto.
      * intros x. unfold upd. destruct (Nat.eqb_spec x (r_mid r)) as [->|]; [|apply Hne]. split; [constructor|apply Hne].
    + constructor; simpl; auto.
      * exists done, (d :: pend'). repeat split; auto.
        -- unfold pend_ok; simpl. exists d, pend'. repeat split; auto.
           ++ simpl. rewrite Hdata, Howed. unfold owed; simpl. rewrite <- Hm, upd_same, <- !app_assoc. reflexivity.
           ++ eapply Forall2_pk_frame; [|exact Hq].
              intros x Hx. unfold owed; simpl. rewrite upd_other; auto. rewrite Hm. intro; subst; auto.
        -- rewrite upd_other; [now apply Hout|]. rewrite Hm. intro; subst. apply H. simpl; auto.
        -- now apply Hout.
      * intros x. unfold upd. destruct (Nat.eqb_spec x (r_mid r)) as [->|]; [|apply Hne].
        destruct (Hne (r_mid r)) as [N1 N2]. rewrite Ed in N1. inversion N1; subst. split; auto.
Qed.

Theorem delivered_prefix : forall (ls : list label) (s : sys), Forall wf_label ls -> run init ls = Some s ->
  delivered s = map snd (firstn (length (delivered s)) (lin s)).
Proof.
  assert (G : forall (ls : list label) (s0 s : sys), Inv s0 -> Forall wf_label ls -> run s0 ls = Some s -> Inv s).
  { induction ls as [|l ls IH]; simpl; intros s0 s I W R; [now injection R as <-|].
    inversion W; subst. destruct (step s0 l) as [s1|] eqn:E; [|discriminate]. apply (IH s1 s); auto. eapply Inv_step; eauto. }
  intros ls s W R. destruct (G ls init s Inv_init W R) as [ (done & pend & Hlin & Hdone & _) _ _ _ ].
  rewrite Hlin, <- Hdone, map_length, firstn_app, Nat.sub_diag, firstn_all. simpl. now rewrite app_nil_r.
Qed.
End ConcProofs.
