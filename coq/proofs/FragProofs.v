(* Proofs about Frag: every successful send is reassembled exactly, for every length, every buffer
   size, every fault oracle; no panic, no overflow; termination with explicit fuel. *)
From Coq Require Import ZArith List Bool Lia.
From IPC Require Import U64 Params Frag ParamsFacts.
Import ListNotations.
Open Scope Z_scope.
Ltac Zify.zify_post_hook ::= Z.div_mod_to_equations.

Arguments first_fragment_size : simpl never.
Arguments fragment_size : simpl never.
Arguments send_first_end : simpl never.
Arguments send_follow_end : simpl never.
Arguments recv_follow_end : simpl never.
Arguments downsize : simpl never.

(* ranges laid end to end from a to b *)
Fixpoint tiles (buf : list range) (a b : Z) : Prop :=
  match buf with
  | [] => a = b
  | r :: rest => fst r = a /\ a <= snd r /\ tiles rest (snd r) b
  end.

(* every follow-up packet fits the buffer the receiver (estimate Sr) offers at that position *)
Definition fits (Sr len : Z) (r : range) : Prop :=
  snd r - fst r <= Z.min (fst r + fs Sr) len - fst r.

Lemma blen_app b1 b2 : blen (b1 ++ b2) = blen b1 + blen b2.
Proof. unfold blen. induction b1 as [|r b1 IH]; cbn [app fold_right]; [lia|]. rewrite IH. lia. Qed.

Lemma blen_single lo hi : blen [(lo, hi)] = hi - lo.
Proof. unfold blen. cbn. lia. Qed.

Lemma shared_pkts_app a b : shared_pkts (a ++ b) = shared_pkts a ++ shared_pkts b.
Proof.
  induction a as [|e a IH]; [reflexivity|]. cbn [app].
  destruct e as [t lo hi n d r| |lo hi r| |]; cbn [shared_pkts]; try exact IH.
  destruct r; cbn [app]; rewrite ?IH; reflexivity.
Qed.

Lemma ded_pkts_app a b : ded_pkts (a ++ b) = ded_pkts a ++ ded_pkts b.
Proof.
  induction a as [|e a IH]; [reflexivity|]. cbn [app].
  destruct e as [t lo hi n d r| |lo hi r| |]; cbn [ded_pkts]; try exact IH.
  destruct r; cbn [app]; rewrite ?IH; reflexivity.
Qed.

Lemma downsize_keeps sb sent sb' Ss : downsize sb sent = Some sb' -> 48 <= sb <= Ss -> 0 <= sent <= fs sb ->
  48 <= sb' <= Ss /\ sb' < sb /\ sb' < sent + 32 /\ 2000 < sent.
Proof.
  intros D Hsb Hs.
  assert (2000 < sent) by (unfold downsize in D; destruct (sent >? 2000) eqn:E; [lia|discriminate]).
  assert (1000 <= sb) by (unfold fs in Hs; rewrite RESERVED_SIZE_val in Hs; lia).
  destruct (downsize_spec _ _ _ D H0 Hs) as (_ & A & B & C & _). rewrite RESERVED_SIZE_val in C. lia.
Qed.

(* ---------- the follow-up part of the loop (pos > 0) ---------- *)
Lemma follow_loop : forall fuel len nfds sb pos faults o evs Ss Sr,
  frag_loop fuel len nfds sb pos faults = (o, evs) ->
  0 < pos -> pos <= len -> len < 2 ^ 62 -> 48 <= sb <= Ss -> Ss <= Sr < 2 ^ 62 ->
  o <> Panic /\ o <> Overflow /\ shared_pkts evs = [] /\
  Forall (fits Sr len) (ded_pkts evs) /\
  (o = Ok -> tiles (ded_pkts evs) pos len /\
     forall buf cap fuel2, blen buf = pos -> len <= cap -> (length (ded_pkts evs) < fuel2)%nat ->
       recv_loop fuel2 Sr len cap buf (ded_pkts evs) = RMsg (buf ++ ded_pkts evs) 0 []).
Proof.
  induction fuel as [|f IH]; intros len nfds sb pos faults o evs Ss Sr H Hp Hl Hlen Hsb HS.
  { cbn in H. injection H as <- <-. repeat split; try discriminate; constructor. }
  cbn [frag_loop] in H.
  destruct (pos <? len) eqn:E.
  2:{ injection H as <- <-. assert (pos = len) by lia. subst pos.
      repeat split; try discriminate; try constructor.
      intros buf cap fuel2 Hb Hc Hf. destruct fuel2 as [|fuel2]; [cbn in Hf; lia|].
      cbn [recv_loop ded_pkts]. rewrite Hb, Z.ltb_irrefl, app_nil_r. reflexivity. }
  assert (Hpos : (pos =? 0) = false) by lia. rewrite Hpos in H.
  destruct (send_follow_end_eq pos sb len ltac:(lia) ltac:(lia)) as [Ee Es]. rewrite Ee, Es in H.
  cbn [negb andb] in H.
  set (e := Z.min (pos + fs sb) len) in *.
  assert (Hfs : fs sb = sb - 32) by (unfold fs; rewrite RESERVED_SIZE_val; lia).
  assert (Hfr : fs Sr = Sr - 32) by (unfold fs; rewrite RESERVED_SIZE_val; lia).
  assert (He : pos < e <= len) by (subst e; lia).
  destruct (next_fault faults) as [fl rest]. destruct fl.
  - (* transmitted *)
    destruct (frag_loop f len nfds sb e rest) as [o' evs'] eqn:R. injection H as <- <-.
    destruct (IH _ _ _ _ _ _ _ Ss Sr R ltac:(lia) ltac:(lia) Hlen Hsb HS) as (A & B & C & D & G).
    cbn [shared_pkts ded_pkts].
    split; [exact A|]. split; [exact B|]. split; [exact C|]. split.
    + constructor; [|exact D]. unfold fits; cbn [fst snd]. subst e. lia.
    + intros Ho. destruct (G Ho) as [T Rv]. split.
      * cbn [tiles fst snd]. split; [reflexivity|split; [lia|exact T]].
      * intros buf cap fuel2 Hb Hc Hf.
        destruct fuel2 as [|fuel2]; [cbn in Hf; lia|]. cbn [length] in Hf.
        cbn [recv_loop]. rewrite Hb, E.
        destruct (recv_follow_end_eq pos Sr len ltac:(lia) ltac:(lia)) as [Re Rs]. rewrite Re, Rs.
        cbn [negb].
        destruct (cap <? Z.min (pos + fs Sr) len) eqn:C1; [lia|].
        destruct (Z.min (pos + fs Sr) len <? pos) eqn:C2; [lia|].
        destruct (Z.min (pos + fs Sr) len - pos <? e - pos) eqn:C3; [subst e; lia|].
        rewrite (Rv (buf ++ [(pos, e)]) cap fuel2); [now rewrite <- app_assoc| |lia|lia].
        rewrite blen_app, blen_single, Hb. lia.
  - (* ENOBUFS *)
    assert (Hsub : U.sub e pos = e - pos) by (unfold U.sub; apply wrap_id; rewrite modulus_val; lia).
    rewrite Hsub in H.
    assert (Hok : U.sub_ok e pos = true) by (unfold U.sub_ok; lia). rewrite Hok, downsize_safe_true in H.
    cbn [negb andb] in H.
    destruct (downsize sb (e - pos)) as [sb'|] eqn:D.
    + destruct (downsize_keeps _ _ _ Ss D Hsb ltac:(subst e; lia)) as (K1 & K2 & K3 & K4).
      destruct (frag_loop f len nfds sb' pos rest) as [o' evs'] eqn:R. injection H as <- <-.
      destruct (IH _ _ _ _ _ _ _ Ss Sr R Hp Hl Hlen K1 HS) as (A & B & C & D' & G).
      cbn [shared_pkts ded_pkts]. split; [exact A|]. split; [exact B|]. split; [exact C|]. split; [exact D'|exact G].
    + injection H as <- <-. cbn [shared_pkts ded_pkts]. repeat split; try discriminate; constructor.
  - injection H as <- <-. cbn [shared_pkts ded_pkts]. repeat split; try discriminate; constructor.
Qed.

(* ---------- the first fragment (pos = 0), possibly retried with smaller estimates ---------- *)
Definition first_of (len e nfds : Z) : first_pkt :=
  {| fp_total := len; fp_lo := 0; fp_hi := e; fp_rights := nfds + 1; fp_ded := true |}.

Lemma first_loop : forall fuel len nfds sb faults o evs Ss Sr,
  frag_loop fuel len nfds sb 0 faults = (o, evs) ->
  0 < len < 2 ^ 62 -> ffs sb < len -> 48 <= sb <= Ss -> Ss <= Sr < 2 ^ 62 ->
  o <> Panic /\ o <> Overflow /\
  Forall (fun p => fp_hi p - fp_lo p <= ffs Sr) (shared_pkts evs) /\
  Forall (fits Sr len) (ded_pkts evs) /\
  (o = Ok -> exists e, 0 < e < len /\ e <= ffs Sr /\ shared_pkts evs = [first_of len e nfds] /\
     has_close_rx evs = true /\
     tiles (ded_pkts evs) e len /\
     forall buf cap fuel2, blen buf = e -> len <= cap -> (length (ded_pkts evs) < fuel2)%nat ->
       recv_loop fuel2 Sr len cap buf (ded_pkts evs) = RMsg (buf ++ ded_pkts evs) 0 []).
Proof.
  induction fuel as [|f IH]; intros len nfds sb faults o evs Ss Sr H Hlen Hffs Hsb HS.
  { cbn in H. injection H as <- <-. repeat split; try discriminate; constructor. }
  cbn [frag_loop] in H.
  destruct (0 <? len) eqn:E; [|lia].
  change (0 =? 0) with true in H. cbv iota in H.
  destruct (send_first_end_eq sb ltac:(lia)) as [Ee Es]. rewrite Ee, Es in H. cbn [negb andb] in H.
  destruct (len <? ffs sb) eqn:E2; [lia|].
  pose proof (ffs_bounds sb ltac:(rewrite RESERVED_SIZE_val; lia)) as Hb.
  pose proof (ffs_bounds Sr ltac:(rewrite RESERVED_SIZE_val; lia)) as Hbr.
  assert (Hmono : ffs sb <= ffs Sr) by (unfold ffs; rewrite RESERVED_SIZE_val; lia).
  destruct (next_fault faults) as [fl rest]. destruct fl.
  - destruct (frag_loop f len nfds sb (ffs sb) rest) as [o' evs'] eqn:R. injection H as <- <-.
    destruct (follow_loop _ _ _ _ _ _ _ _ Ss Sr R ltac:(lia) ltac:(lia) ltac:(lia) Hsb HS) as (A & B & C & D & G).
    cbn [shared_pkts ded_pkts]. rewrite C.
    split; [exact A|]. split; [exact B|]. split; [|split; [exact D|]].
    + constructor; [cbn [fp_hi fp_lo]; lia|constructor].
    + intros Ho. exists (ffs sb). destruct (G Ho) as [T Rv].
      split; [lia|]. split; [lia|]. split; [reflexivity|]. split; [reflexivity|]. split; [exact T|exact Rv].
  - assert (Hsub : U.sub (ffs sb) 0 = ffs sb) by (unfold U.sub; rewrite Z.sub_0_r; apply wrap_id; rewrite modulus_val; lia).
    rewrite Hsub in H.
    assert (Hok : U.sub_ok (ffs sb) 0 = true) by (unfold U.sub_ok; lia). rewrite Hok, downsize_safe_true in H.
    cbn [negb andb] in H.
    destruct (downsize sb (ffs sb)) as [sb'|] eqn:D.
    + assert (Hfs : fs sb = sb - 32) by (unfold fs; rewrite RESERVED_SIZE_val; lia).
      destruct (downsize_keeps _ _ _ Ss D Hsb ltac:(lia)) as (K1 & K2 & K3 & K4).
      destruct (frag_loop f len nfds sb' 0 rest) as [o' evs'] eqn:R. injection H as <- <-.
      assert (Hffs' : ffs sb' < len) by (unfold ffs in *; rewrite RESERVED_SIZE_val in *; lia).
      destruct (IH _ _ _ _ _ _ Ss Sr R Hlen Hffs' K1 HS) as (A & B & C & D' & G).
      cbn [shared_pkts ded_pkts has_close_rx existsb orb].
      split; [exact A|]. split; [exact B|]. split; [exact C|]. split; [exact D'|exact G].
    + injection H as <- <-. cbn [shared_pkts ded_pkts]. repeat split; try discriminate; constructor.
  - injection H as <- <-. cbn [shared_pkts ded_pkts]. repeat split; try discriminate; constructor.
Qed.

(* ---------- termination: explicit fuel suffices ---------- *)
Lemma frag_loop_fuel : forall fuel len nfds sb pos faults Ss,
  (length faults + Z.to_nat (len - pos) < fuel)%nat ->
  0 <= pos -> len < 2 ^ 62 -> 48 <= sb <= Ss -> Ss < 2 ^ 62 -> (pos = 0 -> ffs sb < len) ->
  fst (frag_loop fuel len nfds sb pos faults) <> OutOfFuel.
Proof.
  induction fuel as [|f IH]; intros len nfds sb pos faults Ss Hf Hp Hlen Hsb HS H0; [lia|].
  cbn [frag_loop]. destruct (pos <? len) eqn:E; [|cbn; discriminate].
  assert (Hfs : fs sb = sb - 32) by (unfold fs; rewrite RESERVED_SIZE_val; lia).
  pose proof (ffs_bounds sb ltac:(rewrite RESERVED_SIZE_val; lia)) as Hb.
  destruct (pos =? 0) eqn:Ez.
  - assert (pos = 0) by lia. subst pos. specialize (H0 eq_refl).
    destruct (send_first_end_eq sb ltac:(lia)) as [Ee Es]. rewrite Ee, Es. cbn [negb andb].
    destruct (len <? ffs sb) eqn:E2; [lia|].
    destruct faults as [|fl rest]; cbn [next_fault].
    + destruct (frag_loop f len nfds sb (ffs sb) []) as [o' evs'] eqn:R. cbn [fst].
      change o' with (fst (o', evs')). rewrite <- R. apply (IH _ _ _ _ _ Ss); cbn [length] in *; lia.
    + destruct fl.
      * destruct (frag_loop f len nfds sb (ffs sb) rest) as [o' evs'] eqn:R. cbn [fst].
        change o' with (fst (o', evs')). rewrite <- R. apply (IH _ _ _ _ _ Ss); cbn [length] in *; lia.
      * assert (Hsub : U.sub (ffs sb) 0 = ffs sb) by (unfold U.sub; rewrite Z.sub_0_r; apply wrap_id; rewrite modulus_val; lia).
        rewrite Hsub.
        assert (Hok : U.sub_ok (ffs sb) 0 = true) by (unfold U.sub_ok; lia). rewrite Hok, downsize_safe_true.
        cbn [negb andb].
        destruct (downsize sb (ffs sb)) as [sb'|] eqn:D; [|cbn; discriminate].
        destruct (downsize_keeps _ _ _ Ss D Hsb ltac:(lia)) as (K1 & K2 & K3 & K4).
        destruct (frag_loop f len nfds sb' 0 rest) as [o' evs'] eqn:R. cbn [fst].
        change o' with (fst (o', evs')). rewrite <- R. apply (IH _ _ _ _ _ Ss); cbn [length] in *; try lia.
        intros _. unfold ffs in *. rewrite RESERVED_SIZE_val in *. lia.
      * cbn; discriminate.
  - destruct (send_follow_end_eq pos sb len ltac:(lia) ltac:(lia)) as [Ee Es]. rewrite Ee, Es. cbn [negb andb].
    set (e := Z.min (pos + fs sb) len) in *.
    assert (He : pos < e <= len) by (subst e; lia).
    destruct faults as [|fl rest]; cbn [next_fault].
    + destruct (frag_loop f len nfds sb e []) as [o' evs'] eqn:R. cbn [fst].
      change o' with (fst (o', evs')). rewrite <- R. apply (IH _ _ _ _ _ Ss); cbn [length] in *; lia.
    + destruct fl.
      * destruct (frag_loop f len nfds sb e rest) as [o' evs'] eqn:R. cbn [fst].
        change o' with (fst (o', evs')). rewrite <- R. apply (IH _ _ _ _ _ Ss); cbn [length] in *; lia.
      * assert (Hsub : U.sub e pos = e - pos) by (unfold U.sub; apply wrap_id; rewrite modulus_val; lia).
        rewrite Hsub.
        assert (Hok : U.sub_ok e pos = true) by (unfold U.sub_ok; lia). rewrite Hok, downsize_safe_true.
        cbn [negb andb].
        destruct (downsize sb (e - pos)) as [sb'|] eqn:D; [|cbn; discriminate].
        destruct (downsize_keeps _ _ _ Ss D Hsb ltac:(subst e; lia)) as (K1 & K2 & K3 & K4).
        destruct (frag_loop f len nfds sb' pos rest) as [o' evs'] eqn:R. cbn [fst].
        change o' with (fst (o', evs')). rewrite <- R. apply (IH _ _ _ _ _ Ss); cbn [length] in *; lia.
      * cbn; discriminate.
Qed.

(* ---------- ranges denote data ---------- *)
Section Interp.
  Context {A : Type}.

  Lemma firstn_add (n m : nat) (l : list A) : firstn (n + m) l = firstn n l ++ firstn m (skipn n l).
  Proof. revert l. induction n as [|n IH]; intros l; [reflexivity|]. destruct l as [|x l]; cbn.
    - now destruct m. - now rewrite IH. Qed.

  Lemma skipn_add (n m : nat) (l : list A) : skipn (n + m) l = skipn m (skipn n l).
  Proof. revert l. induction n as [|n IH]; intros l; [reflexivity|]. destruct l as [|x l]; cbn.
    - now destruct m. - now rewrite IH. Qed.

  Lemma tiles_le : forall buf a b, tiles buf a b -> a <= b.
  Proof.
    induction buf as [|[lo hi] buf IH]; cbn [tiles fst snd]; intros a b T; [lia|].
    destruct T as (_ & Hle & T). specialize (IH _ _ T). lia.
  Qed.

  Lemma interp_tiles (data : list A) : forall buf a b,
    tiles buf a b -> 0 <= a ->
    interp data buf = firstn (Z.to_nat (b - a)) (skipn (Z.to_nat a) data).
  Proof.
    unfold interp. induction buf as [|[lo hi] buf IH]; intros a b T Ha; cbn [map concat tiles fst snd] in *.
    - subst b. rewrite Z.sub_diag. reflexivity.
    - destruct T as (-> & Hle & T). pose proof (tiles_le _ _ _ T) as Hhb.
      rewrite (IH hi b T ltac:(lia)). unfold slice. cbn [fst snd].
      replace (Z.to_nat (b - a)) with (Z.to_nat (hi - a) + Z.to_nat (b - hi))%nat by lia.
      replace (Z.to_nat hi) with (Z.to_nat a + Z.to_nat (hi - a))%nat by lia.
      rewrite firstn_add, skipn_add. reflexivity.
  Qed.

  (* a buffer tiling [0, length data) denotes exactly data *)
  Theorem interp_full (data : list A) buf :
    tiles buf 0 (Z.of_nat (length data)) -> interp data buf = data.
  Proof.
    intros T. rewrite (interp_tiles data buf 0 _ T ltac:(lia)).
    rewrite Z.sub_0_r, Nat2Z.id. cbn [Z.to_nat skipn]. apply firstn_all.
  Qed.
End Interp.

(* ---------- the whole of send() ---------- *)
Lemma finish_frag_pkts o evs :
  shared_pkts (snd (finish_frag (o, evs))) = shared_pkts evs /\
  ded_pkts (snd (finish_frag (o, evs))) = ded_pkts evs /\ fst (finish_frag (o, evs)) = o.
Proof.
  unfold finish_frag. cbn [fst snd shared_pkts ded_pkts].
  rewrite shared_pkts_app, ded_pkts_app. destruct (has_close_rx evs); cbn [shared_pkts ded_pkts]; rewrite !app_nil_r; auto.
Qed.

Definition good (o : outcome) : Prop := o = Ok \/ o = ErrNoBufs \/ o = ErrPipe \/ o = ErrTooMany \/ o = OutOfFuel.

(* what send() leaves in the two queues, and how recv() reads it back *)
Definition delivered_exactly (Sr len nfds : Z) (evs : list ev) : Prop :=
  exists p buf, shared_pkts evs = [p] /\ tiles buf 0 len /\
    forall fuel2, (length (ded_pkts evs) < fuel2)%nat -> recv fuel2 Sr p (ded_pkts evs) = RMsg buf nfds [].

Lemma go_frag_ok fuel len nfds sb faults pre o evs Ss Sr :
  go_frag fuel len nfds sb faults pre = (o, evs) ->
  0 < len < 2 ^ 62 -> ffs sb < len -> 48 <= sb <= Ss -> Ss <= Sr < 2 ^ 62 -> 0 <= nfds ->
  shared_pkts pre = [] -> ded_pkts pre = [] ->
  o <> Panic /\ o <> Overflow /\
  Forall (fun p => fp_hi p - fp_lo p <= ffs Sr) (shared_pkts evs) /\
  Forall (fits Sr len) (ded_pkts evs) /\
  (o = ErrTooMany <-> MAX_FDS_IN_CMSG < nfds + 1) /\
  (o = ErrTooMany -> evs = pre) /\
  (o = Ok -> delivered_exactly Sr len nfds evs).
Proof.
  unfold go_frag. intros H Hlen Hffs Hsb HS Hn P1 P2.
  destruct (MAX_FDS_IN_CMSG <? nfds + 1) eqn:EM.
  { injection H as <- <-. rewrite P1, P2. repeat split; try discriminate; try constructor; try lia; auto. }
  destruct (frag_loop fuel len nfds sb 0 faults) as [o1 evs1] eqn:R.
  destruct (finish_frag_pkts o1 evs1) as (F1 & F2 & F3).
  destruct (finish_frag (o1, evs1)) as [o2 evs2]. cbn [fst snd] in *. subst o2. injection H as <- <-.
  unfold delivered_exactly. rewrite shared_pkts_app, ded_pkts_app, P1, P2, F1, F2. cbn [app].
  destruct (first_loop _ _ _ _ _ _ _ Ss Sr R Hlen Hffs Hsb HS) as (A & B & C & D & G).
  split; [exact A|]. split; [exact B|]. split; [exact C|]. split; [exact D|].
  assert (NT : o1 <> ErrTooMany).
  { clear - R. revert len nfds sb faults o1 evs1 R. generalize 0 at 1 as pos.
    induction fuel as [|f IH]; intros pos len nfds sb faults o1 evs1 R; cbn [frag_loop] in R.
    - injection R as <- <-. discriminate.
    - repeat match type of R with
        | context [if ?c then _ else _] => destruct c
        | context [let (_, _) := ?x in _] => destruct x eqn:?
        | context [match ?x with FOk => _ | _ => _ end] => destruct x
        | context [match ?x with Some _ => _ | None => _ end] => destruct x
        end; try (injection R as <- <-; try discriminate);
        match goal with Q : frag_loop f _ _ _ _ _ = (?o, _) |- ?o <> _ => exact (IH _ _ _ _ _ _ _ Q) end. }
  split; [split; [intro; contradiction|lia]|]. split; [intro; contradiction|].
  intros Ho. destruct (G Ho) as (e & He & Hle & Hs & _ & T & Rv).
  exists (first_of len e nfds), ((0, e) :: ded_pkts evs1). split; [exact Hs|]. split.
  - cbn [tiles fst snd]. split; [reflexivity|split; [lia|exact T]].
  - intros fuel2 Hf. unfold recv.
    pose proof MAX_FDS_val as MV.
    destruct (first_fragment_size_eq Sr ltac:(rewrite RESERVED_SIZE_val; lia)) as [E1 E2]. rewrite E1, E2.
    cbn [negb first_of fp_hi fp_lo fp_rights fp_total]. rewrite Z.sub_0_r.
    destruct (ffs Sr <? e) eqn:C1; [lia|].
    destruct (len =? e) eqn:C2; [lia|].
    replace (Z.min (nfds + 1) MAX_FDS_IN_CMSG) with (nfds + 1) by lia.
    destruct (nfds + 1 <=? 0) eqn:C3; [lia|].
    destruct (len <? e) eqn:C4; [lia|].
    rewrite (Rv [(0, e)] (Z.max (ffs Sr) len) fuel2); [|rewrite blen_single; lia|lia|exact Hf].
    cbn [app]. f_equal. lia.
Qed.

Theorem send_correct fuel Ss Sr len nfds faults o evs :
  send fuel Ss len nfds faults = (o, evs) ->
  48 <= Ss <= Sr -> Sr < 2 ^ 62 -> 0 <= len < 2 ^ 62 -> 0 <= nfds ->
  o <> Panic /\ o <> Overflow /\
  Forall (fun p => fp_hi p - fp_lo p <= ffs Sr) (shared_pkts evs) /\
  Forall (fits Sr len) (ded_pkts evs) /\
  (o = Ok -> delivered_exactly Sr len nfds evs).
Proof.
  unfold send. intros H HS HSr Hlen Hn. pose proof MAX_FDS_val as MV.
  destruct (MAX_FDS_IN_CMSG <? nfds) eqn:EM.
  { injection H as <- <-. repeat split; try discriminate; constructor. }
  destruct (first_fragment_size_eq Ss ltac:(rewrite RESERVED_SIZE_val; lia)) as [E1 E2].
  rewrite E2 in H. cbn [negb] in H. rewrite send_single_packet_eq in H by lia.
  pose proof (ffs_bounds Ss ltac:(rewrite RESERVED_SIZE_val; lia)) as Hb.
  assert (Hmono : ffs Ss <= ffs Sr) by (unfold ffs; rewrite RESERVED_SIZE_val; lia).
  destruct (len <=? ffs Ss) eqn:ES.
  - destruct (next_fault faults) as [fl rest]. destruct fl; cbn [res_of] in H.
    + injection H as <- <-. cbn [shared_pkts ded_pkts].
      split; [discriminate|]. split; [discriminate|]. split; [constructor; [cbn [fp_hi fp_lo]; lia|constructor]|].
      split; [constructor|]. intros _.
      exists {| fp_total := len; fp_lo := 0; fp_hi := len; fp_rights := nfds; fp_ded := false |}, [(0, len)].
      split; [reflexivity|]. split; [cbn [tiles fst snd]; lia|].
      intros fuel2 _. unfold recv.
      destruct (first_fragment_size_eq Sr ltac:(rewrite RESERVED_SIZE_val; lia)) as [R1 R2]. rewrite R1, R2.
      cbn [negb fp_hi fp_lo fp_rights fp_total]. rewrite Z.sub_0_r.
      destruct (ffs Sr <? len) eqn:C1; [lia|]. rewrite Z.eqb_refl. f_equal. lia.
    + rewrite downsize_safe_true in H. cbn [negb] in H.
      destruct (downsize Ss len) as [sb'|] eqn:D.
      * assert (Hfs : fs Ss = Ss - 32) by (unfold fs; rewrite RESERVED_SIZE_val; lia).
        destruct (downsize_keeps _ _ _ Ss D ltac:(lia) ltac:(lia)) as (K1 & K2 & K3 & K4).
        assert (Hffs' : ffs sb' < len) by (unfold ffs in *; rewrite RESERVED_SIZE_val in *; lia).
        destruct (go_frag_ok _ _ _ _ _ _ _ _ Ss Sr H ltac:(lia) Hffs' K1 ltac:(lia) Hn eq_refl eq_refl)
          as (A & B & C & D' & _ & _ & G).
        split; [exact A|]. split; [exact B|]. split; [exact C|]. split; [exact D'|exact G].
      * injection H as <- <-. repeat split; try discriminate; constructor.
    + injection H as <- <-. repeat split; try discriminate; constructor.
  - destruct (go_frag_ok _ _ _ _ _ _ _ _ Ss Sr H ltac:(lia) ltac:(lia) ltac:(lia) ltac:(lia) Hn eq_refl eq_refl)
      as (A & B & C & D' & _ & _ & G).
    split; [exact A|]. split; [exact B|]. split; [exact C|]. split; [exact D'|exact G].
Qed.

(* enough fuel: one unit per oracle entry plus one per byte is (more than) sufficient *)
Theorem send_terminates fuel Ss len nfds faults :
  48 <= Ss < 2 ^ 62 -> 0 <= len < 2 ^ 62 ->
  (length faults + Z.to_nat len < fuel)%nat ->
  fst (send fuel Ss len nfds faults) <> OutOfFuel.
Proof.
  unfold send. intros HS Hlen Hf.
  destruct (MAX_FDS_IN_CMSG <? nfds); [cbn; discriminate|].
  destruct (first_fragment_size_eq Ss ltac:(rewrite RESERVED_SIZE_val; lia)) as [E1 E2].
  rewrite E2. cbn [negb]. rewrite send_single_packet_eq by lia.
  pose proof (ffs_bounds Ss ltac:(rewrite RESERVED_SIZE_val; lia)) as Hb.
  assert (G : forall sb fl pre, 48 <= sb <= Ss -> ffs sb < len -> (length fl <= length faults)%nat ->
            fst (go_frag fuel len nfds sb fl pre) <> OutOfFuel).
  { intros sb fl pre Hsb Hffs Hl. unfold go_frag.
    destruct (MAX_FDS_IN_CMSG <? nfds + 1); [cbn; discriminate|].
    pose proof (frag_loop_fuel fuel len nfds sb 0 fl Ss ltac:(rewrite Z.sub_0_r; lia) ltac:(lia) ltac:(lia) Hsb ltac:(lia) (fun _ => Hffs)) as N.
    destruct (frag_loop fuel len nfds sb 0 fl) as [o1 evs1]. cbn [fst] in N.
    destruct (finish_frag_pkts o1 evs1) as (_ & _ & F3).
    destruct (finish_frag (o1, evs1)) as [o2 evs2]. cbn [fst] in *. now subst o2. }
  destruct (len <=? ffs Ss) eqn:ES.
  - destruct faults as [|fl rest]; cbn [next_fault]; [cbn; discriminate|].
    destruct fl; cbn [res_of]; try (cbn; discriminate).
    rewrite downsize_safe_true. cbn [negb].
    destruct (downsize Ss len) as [sb'|] eqn:D; [|cbn; discriminate].
    assert (Hfs : fs Ss = Ss - 32) by (unfold fs; rewrite RESERVED_SIZE_val; lia).
    destruct (downsize_keeps _ _ _ Ss D ltac:(lia) ltac:(lia)) as (K1 & K2 & K3 & K4).
    apply G; [exact K1| |cbn [length]; lia]. unfold ffs in *. rewrite RESERVED_SIZE_val in *. lia.
  - apply G; [lia|lia|lia].
Qed.

Theorem send_bytes : forall (A : Type) (data : list A) fuel Ss Sr nfds faults evs,
  48 <= Ss <= Sr -> Sr < 2 ^ 62 -> Z.of_nat (length data) < 2 ^ 62 -> 0 <= nfds ->
  send fuel Ss (Z.of_nat (length data)) nfds faults = (Ok, evs) ->
  exists p buf, shared_pkts evs = [p] /\
    (forall fuel2, (length (ded_pkts evs) < fuel2)%nat -> recv fuel2 Sr p (ded_pkts evs) = RMsg buf nfds []) /\
    interp data buf = data.
Proof.
  intros A data fuel Ss Sr nfds faults evs HS HSr Hlen Hn H.
  destruct (send_correct _ _ Sr _ _ _ _ _ H HS HSr ltac:(lia) Hn) as (_ & _ & _ & _ & G).
  destruct (G eq_refl) as (p & buf & E & T & R).
  exists p, buf. split; [exact E|]. split; [exact R|]. exact (interp_full data buf T).
Qed.

Theorem send_no_panic : forall fuel Ss len nfds faults o evs,
  48 <= Ss < 2 ^ 62 -> 0 <= len < 2 ^ 62 -> 0 <= nfds ->
  send fuel Ss len nfds faults = (o, evs) -> o <> Panic /\ o <> Overflow.
Proof.
  intros fuel Ss len nfds faults o evs HS Hlen Hn H.
  destruct (send_correct _ _ Ss _ _ _ _ _ H ltac:(lia) ltac:(lia) Hlen Hn) as (A & B & _). split; assumption.
Qed.

Theorem send_single_iff : forall fuel Ss len nfds,
  48 <= Ss < 2 ^ 62 -> 0 <= len < 2 ^ 62 -> 0 <= nfds <= MAX_FDS_IN_CMSG ->
  (exists e, snd (send fuel Ss len nfds []) = [e]) <-> len <= ffs Ss.
Proof.
  intros fuel Ss len nfds HS Hlen Hn. unfold send.
  destruct (MAX_FDS_IN_CMSG <? nfds) eqn:EM; [lia|].
  destruct (first_fragment_size_eq Ss ltac:(rewrite RESERVED_SIZE_val; lia)) as [E1 E2].
  rewrite E2. cbn [negb]. rewrite send_single_packet_eq by lia.
  destruct (len <=? ffs Ss) eqn:ES.
  - cbn [next_fault res_of snd]. split; [lia|]. intros _. eexists. reflexivity.
  - split; [|lia]. intros [e He]. exfalso. unfold go_frag in He.
    destruct (MAX_FDS_IN_CMSG <? nfds + 1); [discriminate|].
    destruct (frag_loop fuel len nfds Ss 0 []) as [o1 evs1]. unfold finish_frag in He.
    cbn [snd app] in He. injection He as _ He. destruct evs1; cbn [app] in He; [destruct (has_close_rx []); discriminate|discriminate].
Qed.
