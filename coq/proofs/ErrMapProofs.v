(* ErrMapProofs: the generated error conversions say 'empty' for EAGAIN and nothing else, 'disconnected' for ChannelClosed and nothing else. *)
From Coq Require Import ZArith List Bool Lia.
From IPC Require Import U64 Params Timed ErrMap.
Open Scope Z_scope.

Ltac cases_eqb :=
  repeat match goal with
         | |- context [Z.eqb ?a ?b] => destruct (Z.eqb_spec a b)
         | H : context [Z.eqb ?a ?b] |- _ => destruct (Z.eqb_spec a b)
         end.

Theorem try_empty_iff_eagain : forall code, try_recv_class_errno code = 0 <-> code = EAGAIN.
Proof.
  intros code. unfold try_recv_class_errno, EAGAIN. split; intros H; cases_eqb; cbn in *; try lia; try discriminate.
Qed.

Theorem try_disconnected_iff_closed : forall e, class_try e = 1 <-> e = UClosed.
Proof.
  intros [|code]; cbn [class_try].
  - split; [reflexivity|]. intros _. reflexivity.
  - unfold try_recv_class_errno. split; intros H; [|discriminate]. cases_eqb; cbn in *; try lia; try discriminate.
Qed.

Theorem recv_disconnected_iff_closed : forall e, class_recv e = 1 <-> e = UClosed.
Proof.
  intros [|code]; cbn [class_recv].
  - split; [reflexivity|]. intros _. reflexivity.
  - unfold recv_class_errno. split; intros H; [|discriminate]. cases_eqb; cbn in *; try lia; try discriminate.
Qed.

(* the public result is the model's outcome: 'empty' exactly for OEmpty, 'disconnected' exactly for ODisconnected, and the
   interrupted wait is an I/O error *)
Theorem reported_try_faithful : forall o,
  (reported_try o = Some 0 <-> o = SOut OEmpty) /\ (reported_try o = Some 1 <-> o = SOut ODisconnected) /\
  (o = SInterrupted -> reported_try o = Some 2).
Proof.
  assert (E0 : try_recv_class_errno EAGAIN = 0) by (apply try_empty_iff_eagain; reflexivity).
  assert (E1 : try_recv_class_errno EINTR <> 0) by (intro H; apply try_empty_iff_eagain in H; discriminate H).
  assert (D0 : forall c, try_recv_class_errno c <> 1).
  { intros c H. assert (X : class_try (UErrno c) = 1) by exact H. apply try_disconnected_iff_closed in X. discriminate X. }
  assert (C1 : try_recv_class_closed = 1) by (apply (try_disconnected_iff_closed UClosed); reflexivity).
  assert (I2 : try_recv_class_errno EINTR = 2) by (vm_compute; reflexivity).
  intros [[| | |]|]; unfold reported_try; cbn [err_of option_map class_try]; repeat split; intros H;
    try discriminate H; try reflexivity; try (inversion H; congruence);
    try (injection H as H; first [exfalso; apply (D0 _ H) | exfalso; apply (E1 H) | rewrite C1 in H; discriminate H]);
    try (f_equal; assumption).
Qed.

Theorem reported_recv_faithful : forall o,
  (reported_recv o = Some 1 <-> o = SOut ODisconnected) /\ reported_recv o <> Some 0.
Proof.
  assert (C1 : recv_class_closed = 1) by (apply (recv_disconnected_iff_closed UClosed); reflexivity).
  assert (D0 : forall c, recv_class_errno c <> 1).
  { intros c H. assert (X : class_recv (UErrno c) = 1) by exact H. apply recv_disconnected_iff_closed in X. discriminate X. }
  assert (Z0 : forall c, recv_class_errno c <> 0).
  { intros c. unfold recv_class_errno. cases_eqb; cbn; try lia; discriminate. }
  intros [[| | |]|]; unfold reported_recv; cbn [err_of option_map class_recv]; repeat split; try intros H;
    try discriminate H; try reflexivity; try (inversion H; congruence);
    try (injection H as H; first [exfalso; apply (D0 _ H) | exfalso; apply (Z0 _ H) | rewrite C1 in H; discriminate H]);
    try (f_equal; assumption).
Qed.
