(* placeholder *)
From IPC Require Import Server.
