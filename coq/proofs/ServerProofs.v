(* ServerProofs: invariants and theorems for the one-shot server rendezvous model (model/Server.v).  No axioms. *)
From Coq Require Import List Arith Bool Lia Setoid.
Import ListNotations.
From IPC Require Import Server.

Notation dsrv := {| listening := false; backlog := []; dir := false; accepted := None |}.
Notation dconn := {| queue := []; hup := true; sent := []; got := [] |}.
Notation newsrv := {| listening := true; backlog := []; dir := true; accepted := None |}.

(* ---------- list facts ---------- *)

Lemma length_set_nth {X} (l : list X) i v : length (set_nth l i v) = length l.
Proof. revert i; induction l; destruct i; simpl; auto. Qed.

Lemma nth_set_nth {X} (l : list X) i j v d :
  i < length l -> nth j (set_nth l i v) d = if Nat.eqb j i then v else nth j l d.
Proof.
  revert i j; induction l; intros i j H; simpl in *; [lia|].
  destruct i, j; simpl; auto. apply IHl; lia.
Qed.

Lemma nth_set_nth_eq {X} (l : list X) i v d : i < length l -> nth i (set_nth l i v) d = v.
Proof. intros H. rewrite nth_set_nth by auto. rewrite Nat.eqb_refl. reflexivity. Qed.

Lemma nth_set_nth_neq {X} (l : list X) i j v d : i < length l -> j <> i -> nth j (set_nth l i v) d = nth j l d.
Proof. intros H N. rewrite nth_set_nth by auto. apply Nat.eqb_neq in N. rewrite N. reflexivity. Qed.

Lemma In_remove x y l : In y (remove x l) <-> In y l /\ y <> x.
Proof.
  unfold remove. rewrite filter_In, negb_true_iff, Nat.eqb_neq.
  split; intros [A B]; split; auto.
Qed.

Lemma NoDup_rm x l : NoDup l -> NoDup (remove x l).
Proof. apply NoDup_filter. Qed.

Lemma remove_notin x l : ~ In x l -> remove x l = l.
Proof.
  unfold remove. induction l as [|a l IH]; simpl; intros H; auto.
  destruct (Nat.eqb x a) eqn:E; simpl.
  - apply Nat.eqb_eq in E. subst. tauto.
  - f_equal. apply IH. tauto.
Qed.

Lemma length_remove x l : NoDup l -> In x l -> length (remove x l) = pred (length l).
Proof.
  induction 1 as [|a t Hn Hd IH]; intros Hin; [destruct Hin|].
  unfold remove in *. simpl. destruct (Nat.eqb x a) eqn:E; simpl.
  - apply Nat.eqb_eq in E. subst. f_equal. apply remove_notin; auto.
  - apply Nat.eqb_neq in E. destruct Hin as [Hin|Hin]; [congruence|].
    rewrite IH by auto. destruct t; simpl in *; [tauto|lia].
Qed.

Lemma NoDup_snoc (x : nat) l : NoDup l -> ~ In x l -> NoDup (l ++ [x]).
Proof.
  induction 1 as [|a t Hn Hd IH]; simpl; intros Hx.
  - constructor; auto. constructor.
  - constructor.
    + rewrite in_app_iff. simpl. intuition.
    + apply IH. tauto.
Qed.

Ltac grd H :=
  match type of H with
  | (if ?b then _ else _) = _ => let G := fresh "G" in destruct b eqn:G; [|discriminate H]
  end.
Ltac splitG :=
  repeat match goal with G : _ && _ = true |- _ => apply andb_true_iff in G; destruct G end;
  repeat match goal with G : (_ <? _) = true |- _ => apply Nat.ltb_lt in G end.
Ltac inv H := inversion H; subst; clear H.

(* ---------- model facts ---------- *)

Lemma queue_nonempty_lt s k x q : queue (gconn s k) = x :: q -> k < length (conns s).
Proof.
  intros H. destruct (lt_dec k (length (conns s))); auto.
  unfold gconn in H. rewrite nth_overflow in H by lia. discriminate.
Qed.

Lemma snoc_bl l m : backlog (nth m (l ++ [newsrv]) dsrv) = backlog (nth m l dsrv).
Proof.
  destruct (lt_dec m (length l)).
  - rewrite app_nth1 by auto. reflexivity.
  - rewrite (nth_overflow l) by lia. destruct (Nat.eq_dec m (length l)).
    + subst. rewrite app_nth2 by lia. rewrite Nat.sub_diag. reflexivity.
    + rewrite nth_overflow; auto. rewrite app_length. simpl. lia.
Qed.

Lemma snoc_acc l m : accepted (nth m (l ++ [newsrv]) dsrv) = accepted (nth m l dsrv).
Proof.
  destruct (lt_dec m (length l)).
  - rewrite app_nth1 by auto. reflexivity.
  - rewrite (nth_overflow l) by lia. destruct (Nat.eq_dec m (length l)).
    + subst. rewrite app_nth2 by lia. rewrite Nat.sub_diag. reflexivity.
    + rewrite nth_overflow; auto. rewrite app_length. simpl. lia.
Qed.

Lemma run_inv (P : st -> Prop) :
  (forall s l s', P s -> step s l = Some s' -> P s') ->
  forall ls s0 s, P s0 -> run s0 ls = Some s -> P s.
Proof.
  intros Hstep. induction ls as [|a ls IH]; simpl; intros s0 s H0 H.
  - inv H. auto.
  - destruct (step s0 a) eqn:E; [|discriminate]. eapply IH; [|eauto]. eauto.
Qed.

(* ---------- invariant 1: per-connection FIFO ---------- *)

Definition Fifo s := forall k, k < length (conns s) -> got (gconn s k) ++ queue (gconn s k) = sent (gconn s k).

Lemma Fifo_step s l s' : Fifo s -> step s l = Some s' -> Fifo s'.
Proof.
  intros I H k Hk. destruct l; unfold step in H.
  - inv H. apply I. auto.
  - grd H. inv H. unfold gconn. simpl in *. rewrite app_length in Hk. simpl in Hk.
    destruct (lt_dec k (length (conns s))).
    + rewrite app_nth1 by lia. apply I. auto.
    + rewrite app_nth2 by lia. replace (k - length (conns s)) with 0 by lia. reflexivity.
  - grd H. splitG. cbv zeta in H. inv H. unfold gconn. simpl in *. rewrite length_set_nth in Hk.
    rewrite nth_set_nth by lia. destruct (Nat.eqb k k0) eqn:E.
    + apply Nat.eqb_eq in E. subst. simpl. rewrite app_assoc. f_equal. apply I. auto.
    + apply I. auto.
  - grd H. splitG. cbv zeta in H. inv H. unfold gconn. simpl in *. rewrite length_set_nth in Hk.
    rewrite nth_set_nth by lia. destruct (Nat.eqb k k0) eqn:E.
    + apply Nat.eqb_eq in E. subst. simpl. apply I. auto.
    + apply I. auto.
  - grd H. splitG.
    destruct (backlog (gsrv s n)) as [|k0 rest] eqn:Eb; [discriminate|].
    destruct (queue (gconn s k0)) as [|x q'] eqn:Eq; [discriminate|].
    pose proof (queue_nonempty_lt _ _ _ _ Eq) as Hk0.
    cbv zeta in H. inv H. unfold gconn. simpl in *. rewrite length_set_nth in Hk.
    rewrite nth_set_nth by lia. destruct (Nat.eqb k k0) eqn:E.
    + apply Nat.eqb_eq in E. subst. simpl. rewrite <- app_assoc. simpl.
      specialize (I k0 Hk). rewrite Eq in I. exact I.
    + apply I. auto.
  - grd H. inv H. apply I. auto.
  - grd H. splitG.
    destruct (queue (gconn s k0)) as [|x q'] eqn:Eq; [discriminate|].
    cbv zeta in H. inv H. unfold gconn. simpl in *. rewrite length_set_nth in Hk.
    rewrite nth_set_nth by lia. destruct (Nat.eqb k k0) eqn:E.
    + apply Nat.eqb_eq in E. subst. simpl. rewrite <- app_assoc. simpl.
      specialize (I k0 Hk). rewrite Eq in I. exact I.
    + apply I. auto.
Qed.

Lemma Fifo_init : Fifo init.
Proof. intros k Hk. simpl in Hk. lia. Qed.

(* ---------- invariant 2: file system / listeners / temp dirs ---------- *)

Definition InvFS s :=
  NoDup (fs s) /\
  (forall n, In n (fs s) <-> n < length (servers s) /\ listening (gsrv s n) = true) /\
  open_listeners s = length (fs s) /\
  (forall n, n < length (servers s) -> dir (gsrv s n) = listening (gsrv s n)).

Lemma InvFS_same s s' :
  InvFS s -> length (servers s') = length (servers s) ->
  (forall m, listening (gsrv s' m) = listening (gsrv s m)) ->
  (forall m, dir (gsrv s' m) = dir (gsrv s m)) ->
  fs s' = fs s -> open_listeners s' = open_listeners s -> InvFS s'.
Proof.
  intros (Hnd & Hiff & Hol & Hdir) El L D Ef Eo. unfold InvFS. rewrite Ef, Eo, El.
  split; [|split; [|split]]; auto.
  - intros m. rewrite L. apply Hiff.
  - intros m Hm. rewrite L, D. auto.
Qed.

Lemma InvFS_close s s' n v :
  InvFS s -> n < length (servers s) -> listening (gsrv s n) = true ->
  listening v = false -> dir v = false ->
  servers s' = set_nth (servers s) n v -> fs s' = remove n (fs s) ->
  open_listeners s' = pred (open_listeners s) -> InvFS s'.
Proof.
  intros (Hnd & Hiff & Hol & Hdir) Hn Hl Hv Hd Es Ef Eo.
  assert (HS : forall m, gsrv s' m = if Nat.eqb m n then v else gsrv s m).
  { intro m. unfold gsrv. rewrite Es. apply nth_set_nth. auto. }
  unfold InvFS. rewrite Ef, Eo, Es, length_set_nth.
  split; [|split; [|split]].
  - apply NoDup_rm. auto.
  - intros m. rewrite In_remove, Hiff, HS. destruct (Nat.eqb m n) eqn:E.
    + apply Nat.eqb_eq in E. subst. rewrite Hv. split; [intros [_ C]; congruence|intros [_ C]; discriminate].
    + apply Nat.eqb_neq in E. tauto.
  - rewrite length_remove; auto. apply Hiff. auto.
  - intros m Hm. rewrite HS. destruct (Nat.eqb m n); [congruence|auto].
Qed.

Lemma InvFS_step s l s' : InvFS s -> step s l = Some s' -> InvFS s'.
Proof.
  intros I H. destruct l; unfold step in H.
  - inv H. destruct I as (Hnd & Hiff & Hol & Hdir). unfold InvFS, gsrv in *. simpl.
    split; [|split; [|split]].
    + constructor; auto. intro Hin. apply Hiff in Hin. lia.
    + intros m. rewrite app_length. simpl. split.
      * intros [<-|Hin].
        -- split; [lia|]. rewrite app_nth2 by lia. rewrite Nat.sub_diag. reflexivity.
        -- apply Hiff in Hin. destruct Hin. split; [lia|]. rewrite app_nth1 by lia. auto.
      * intros [Hlt Hl]. destruct (lt_dec m (length (servers s))).
        -- right. apply Hiff. split; auto. rewrite app_nth1 in Hl by lia. auto.
        -- left. lia.
    + congruence.
    + intros m. rewrite app_length. simpl. intros Hm. destruct (lt_dec m (length (servers s))).
      * rewrite app_nth1 by lia. auto.
      * rewrite app_nth2 by lia. replace (m - length (servers s)) with 0 by lia. reflexivity.
  - grd H. splitG. cbv zeta in H. inv H. apply (InvFS_same s); simpl; auto.
    + apply length_set_nth.
    + intros m. unfold gsrv. simpl. rewrite nth_set_nth by auto. destruct (Nat.eqb m n) eqn:E; auto.
      apply Nat.eqb_eq in E. subst. simpl. symmetry. assumption.
    + intros m. unfold gsrv. simpl. rewrite nth_set_nth by auto. destruct (Nat.eqb m n) eqn:E; auto.
      apply Nat.eqb_eq in E. subst. reflexivity.
  - grd H. cbv zeta in H. inv H. apply (InvFS_same s); simpl; auto.
  - grd H. cbv zeta in H. inv H. apply (InvFS_same s); simpl; auto.
  - grd H. splitG.
    destruct (backlog (gsrv s n)) as [|k0 rest] eqn:Eb; [discriminate|].
    destruct (queue (gconn s k0)) as [|x q'] eqn:Eq; [discriminate|].
    cbv zeta in H. inv H. eapply (InvFS_close s _ n); simpl; eauto; reflexivity.
  - grd H. splitG. inv H. eapply (InvFS_close s _ n); simpl; eauto; reflexivity.
  - grd H. destruct (queue (gconn s k)) as [|x q'] eqn:Eq; [discriminate|].
    cbv zeta in H. inv H. apply (InvFS_same s); simpl; auto.
Qed.

Lemma InvFS_init : InvFS init.
Proof.
  unfold InvFS. simpl. split; [constructor|split; [|split]]; auto.
  - intros n. split; [tauto|lia].
  - intros n Hn. lia.
Qed.

(* ---------- invariant 3: structure of the backlogs (unconditional) ---------- *)

Definition InvBS s :=
  (forall n k, In k (backlog (gsrv s n)) -> k < length (conns s)) /\
  (forall n, NoDup (backlog (gsrv s n))) /\
  (forall n1 n2 k, In k (backlog (gsrv s n1)) -> In k (backlog (gsrv s n2)) -> n1 = n2) /\
  (forall n k, accepted (gsrv s n) = Some k -> k < length (conns s) /\ forall m, ~ In k (backlog (gsrv s m))).

Lemma InvBS_same s s' :
  InvBS s -> length (conns s') = length (conns s) ->
  (forall m, backlog (gsrv s' m) = backlog (gsrv s m)) ->
  (forall m, accepted (gsrv s' m) = accepted (gsrv s m) \/ accepted (gsrv s' m) = None) ->
  InvBS s'.
Proof.
  intros (B1 & B2 & B3 & B4) El B A. unfold InvBS. rewrite El.
  split; [|split; [|split]].
  - intros n k. rewrite B. apply B1.
  - intros n. rewrite B. apply B2.
  - intros n1 n2 k. rewrite !B. apply B3.
  - intros n k Hk. destruct (A n) as [E|E]; rewrite E in Hk; [|discriminate].
    destruct (B4 n k Hk) as [L N]. split; auto. intros m. rewrite B. apply N.
Qed.

Lemma InvBS_step s l s' : InvBS s -> step s l = Some s' -> InvBS s'.
Proof.
  intros I H. destruct l; unfold step in H.
  - inv H. apply (InvBS_same s); simpl; auto.
    + intros m. unfold gsrv. simpl. apply snoc_bl.
    + intros m. left. unfold gsrv. simpl. apply snoc_acc.
  - grd H. splitG. cbv zeta in H. destruct I as (B1 & B2 & B3 & B4).
    assert (HS : forall m, gsrv s' m =
       if Nat.eqb m n then {| listening := true; backlog := backlog (gsrv s n) ++ [length (conns s)];
                              dir := dir (gsrv s n); accepted := accepted (gsrv s n) |} else gsrv s m).
    { intros m. inv H. unfold gsrv. simpl. apply nth_set_nth. auto. }
    assert (L : length (conns s') = S (length (conns s))).
    { inv H. simpl. rewrite app_length. simpl. lia. }
    clear H. unfold InvBS. rewrite L.
    assert (Hfresh : forall m, ~ In (length (conns s)) (backlog (gsrv s m))).
    { intros m Hin. apply B1 in Hin. lia. }
    split; [|split; [|split]].
    + intros m k. rewrite HS. destruct (Nat.eqb m n) eqn:E; simpl.
      * rewrite in_app_iff. simpl. intros [Hin|[<-|[]]]; [apply B1 in Hin|]; lia.
      * intros Hin. apply B1 in Hin. lia.
    + intros m. rewrite HS. destruct (Nat.eqb m n) eqn:E; simpl; auto.
      apply NoDup_snoc; auto.
    + intros n1 n2 k. rewrite !HS.
      destruct (Nat.eqb n1 n) eqn:E1; destruct (Nat.eqb n2 n) eqn:E2; simpl;
        try apply Nat.eqb_eq in E1; try apply Nat.eqb_eq in E2; subst; auto;
        rewrite ?in_app_iff; simpl.
      * intros [Hin|[<-|[]]] Hin2; [eapply B3; eauto|]. exfalso. eapply Hfresh; eauto.
      * intros Hin1 [Hin|[<-|[]]]; [eapply B3; eauto|]. exfalso. eapply Hfresh; eauto.
      * apply B3.
    + intros m k. rewrite HS. intros Hk.
      assert (Hk' : exists m', accepted (gsrv s m') = Some k).
      { destruct (Nat.eqb m n); simpl in Hk; eauto. }
      destruct Hk' as [m' Hk']. destruct (B4 _ _ Hk') as [Lk N]. split; [lia|].
      intros m2. rewrite HS. destruct (Nat.eqb m2 n); simpl; auto.
      rewrite in_app_iff. simpl. intros [Hin|[Heq|[]]]; [eapply N; eauto|lia].
  - grd H. cbv zeta in H. inv H. apply (InvBS_same s); simpl; auto. apply length_set_nth.
  - grd H. cbv zeta in H. inv H. apply (InvBS_same s); simpl; auto. apply length_set_nth.
  - grd H. splitG.
    destruct (backlog (gsrv s n)) as [|k0 rest] eqn:Eb; [discriminate|].
    destruct (queue (gconn s k0)) as [|x q'] eqn:Eq; [discriminate|].
    cbv zeta in H. destruct I as (B1 & B2 & B3 & B4).
    assert (HS : forall m, gsrv s' m =
       if Nat.eqb m n then {| listening := false; backlog := rest; dir := false; accepted := Some k0 |}
       else gsrv s m).
    { intros m. inv H. unfold gsrv. simpl. apply nth_set_nth. auto. }
    assert (L : length (conns s') = length (conns s)).
    { inv H. simpl. apply length_set_nth. }
    clear H. unfold InvBS. rewrite L.
    assert (Sub : forall m k, In k (backlog (gsrv s' m)) -> In k (backlog (gsrv s m))).
    { intros m k. rewrite HS. destruct (Nat.eqb m n) eqn:E; simpl; auto.
      apply Nat.eqb_eq in E. subst. rewrite Eb. simpl. auto. }
    pose proof (B2 n) as Hnd. rewrite Eb in Hnd. inversion Hnd as [|? ? Hnotin Hnd']. subst.
    split; [|split; [|split]].
    + intros m k Hin. eapply B1. eapply Sub. eauto.
    + intros m. rewrite HS. destruct (Nat.eqb m n); simpl; auto.
    + intros n1 n2 k Hi1 Hi2. eapply B3; eapply Sub; eauto.
    + intros m k. rewrite HS. destruct (Nat.eqb m n) eqn:E; simpl.
      * intros Hk. inv Hk. split.
        -- apply (B1 n). rewrite Eb. simpl. auto.
        -- intros m2. rewrite HS. destruct (Nat.eqb m2 n) eqn:E2; simpl; auto.
           apply Nat.eqb_neq in E2. intros Hin. apply E2. apply (B3 m2 n k); auto.
           rewrite Eb. simpl. auto.
      * intros Hk. destruct (B4 _ _ Hk) as [Lk N]. split; auto.
        intros m2 Hin. apply Sub in Hin. eapply N; eauto.
  - grd H. splitG. inv H. apply (InvBS_same s); simpl; auto.
    + intros m. unfold gsrv. simpl. rewrite nth_set_nth by auto. destruct (Nat.eqb m n) eqn:E; auto.
      apply Nat.eqb_eq in E. subst. reflexivity.
    + intros m. unfold gsrv. simpl. rewrite nth_set_nth by auto. destruct (Nat.eqb m n) eqn:E; auto.
  - grd H. destruct (queue (gconn s k)) as [|x q'] eqn:Eq; [discriminate|].
    cbv zeta in H. inv H. apply (InvBS_same s); simpl; auto. apply length_set_nth.
Qed.

Lemma InvBS_init : InvBS init.
Proof.
  unfold InvBS, gsrv. simpl.
  split; [|split; [|split]].
  - intros n k. destruct n; simpl; tauto.
  - intros n. destruct n; simpl; constructor.
  - intros n1 n2 k. destruct n1; simpl; tauto.
  - intros n k. destruct n; simpl; discriminate.
Qed.

(* ---------- invariant 4: connections still queued in a backlog are untouched ---------- *)

Lemma existsb_accepted s k :
  existsb (fun sv => match accepted sv with Some k' => Nat.eqb k' k | None => false end) (servers s) = true ->
  exists n, accepted (gsrv s n) = Some k.
Proof.
  intros H. apply existsb_exists in H. destruct H as (sv & Hin & Hm).
  destruct (accepted sv) as [k'|] eqn:E; [|discriminate]. apply Nat.eqb_eq in Hm. subst.
  destruct (In_nth _ _ dsrv Hin) as (n & Hn & En). exists n. unfold gsrv. rewrite En. auto.
Qed.

Definition InvGot s := forall n k, In k (backlog (gsrv s n)) -> got (gconn s k) = [].

Lemma InvGot_step s l s' : InvBS s -> InvGot s -> step s l = Some s' -> InvGot s'.
Proof.
  intros (B1 & B2 & B3 & B4) I H. destruct l; unfold step in H.
  - inv H. intros m k. unfold gsrv, gconn. simpl. rewrite snoc_bl. apply I.
  - grd H. splitG. cbv zeta in H. inv H. intros m k. unfold gsrv, gconn. simpl.
    rewrite nth_set_nth by auto.
    assert (Old : forall m, In k (backlog (gsrv s m)) ->
              got (nth k (conns s ++ [{| queue := []; hup := false; sent := []; got := [] |}]) dconn) = []).
    { intros m' Hin. rewrite app_nth1 by (eapply B1; eauto). eapply I; eauto. }
    destruct (Nat.eqb m n) eqn:E; simpl; [|apply Old].
    rewrite in_app_iff. simpl. intros [Hin|[<-|[]]]; [eapply Old; eauto|].
    rewrite app_nth2 by lia. rewrite Nat.sub_diag. reflexivity.
  - grd H. splitG. cbv zeta in H. inv H. intros m k1. unfold gsrv, gconn. simpl. intros Hin.
    rewrite nth_set_nth by auto. destruct (Nat.eqb k1 k) eqn:E; simpl.
    + apply Nat.eqb_eq in E. subst. eapply I; eauto.
    + eapply I; eauto.
  - grd H. splitG. cbv zeta in H. inv H. intros m k1. unfold gsrv, gconn. simpl. intros Hin.
    rewrite nth_set_nth by auto. destruct (Nat.eqb k1 k) eqn:E; simpl.
    + apply Nat.eqb_eq in E. subst. eapply I; eauto.
    + eapply I; eauto.
  - grd H. splitG.
    destruct (backlog (gsrv s n)) as [|k0 rest] eqn:Eb; [discriminate|].
    destruct (queue (gconn s k0)) as [|x q'] eqn:Eq; [discriminate|].
    pose proof (queue_nonempty_lt _ _ _ _ Eq) as Hk0.
    pose proof (B2 n) as Hnd. rewrite Eb in Hnd. inversion Hnd as [|? ? Hnotin Hnd']. subst.
    cbv zeta in H. inv H. intros m k. unfold gsrv, gconn. simpl.
    rewrite nth_set_nth by auto. intros Hin.
    assert (Hin' : In k (backlog (gsrv s m)) /\ k <> k0).
    { destruct (Nat.eqb m n) eqn:E; simpl in Hin.
      - apply Nat.eqb_eq in E. subst. rewrite Eb. simpl. split; auto. intros ->. auto.
      - split; auto. intros ->. apply Nat.eqb_neq in E. apply E. apply (B3 m n k0); auto.
        rewrite Eb. simpl. auto. }
    destruct Hin' as [Hin' Hne]. rewrite nth_set_nth by auto.
    apply Nat.eqb_neq in Hne. rewrite Hne. eapply I; eauto.
  - grd H. splitG. inv H. intros m k. unfold gsrv, gconn. simpl.
    rewrite nth_set_nth by auto. intros Hin. apply (I m).
    destruct (Nat.eqb m n) eqn:E; auto. apply Nat.eqb_eq in E. subst. exact Hin.
  - grd H. splitG. destruct (queue (gconn s k)) as [|x q'] eqn:Eq; [discriminate|].
    match goal with E : existsb _ _ = true |- _ => destruct (existsb_accepted _ _ E) as [n0 Hacc] end.
    destruct (B4 _ _ Hacc) as [_ N]. cbv zeta in H. inv H.
    intros m k1. unfold gsrv, gconn. simpl. intros Hin.
    rewrite nth_set_nth by auto. destruct (Nat.eqb k1 k) eqn:E; simpl.
    + apply Nat.eqb_eq in E. subst. exfalso. eapply N; eauto.
    + eapply I; eauto.
Qed.

Lemma InvGot_init : InvGot init.
Proof. intros n k. unfold gsrv. simpl. destruct n; simpl; tauto. Qed.

(* ---------- reachable-state packaging ---------- *)

Lemma reach_Fifo ls s : run init ls = Some s -> Fifo s.
Proof. apply (run_inv Fifo Fifo_step). apply Fifo_init. Qed.

Lemma reach_InvFS ls s : run init ls = Some s -> InvFS s.
Proof. apply (run_inv InvFS InvFS_step). apply InvFS_init. Qed.

Lemma reach_InvBS ls s : run init ls = Some s -> InvBS s.
Proof. apply (run_inv InvBS InvBS_step). apply InvBS_init. Qed.

Lemma reach_InvGot ls s : run init ls = Some s -> InvBS s /\ InvGot s.
Proof.
  apply (run_inv (fun s => InvBS s /\ InvGot s)).
  - intros s1 l s1' [A B] Hs. split.
    + eapply InvBS_step; eauto.
    + eapply InvGot_step; eauto.
  - split; [apply InvBS_init|apply InvGot_init].
Qed.

(* The backlog invariant. *)
Theorem backlog_ids_wf : forall ls s, run init ls = Some s ->
  (forall n k, In k (backlog (gsrv s n)) -> k < length (conns s)) /\
  (forall n, NoDup (backlog (gsrv s n))) /\
  (forall n1 n2 k, In k (backlog (gsrv s n1)) -> In k (backlog (gsrv s n2)) -> n1 = n2) /\
  (forall n k, accepted (gsrv s n) = Some k -> k < length (conns s) /\ forall m, ~ In k (backlog (gsrv s m))).
Proof. intros ls s H. exact (reach_InvBS ls s H). Qed.

Theorem backlog_untouched : forall ls s n k, run init ls = Some s ->
  In k (backlog (gsrv s n)) -> got (gconn s k) = [].
Proof. intros ls s n k H. destruct (reach_InvGot ls s H) as [_ G]. apply G. Qed.

(* ---------- 1 ---------- *)

Theorem conn_fifo : forall ls s k, run init ls = Some s -> k < length (conns s) ->
  got (gconn s k) ++ queue (gconn s k) = sent (gconn s k).
Proof. intros ls s k H. apply (reach_Fifo ls s H). Qed.

(* ---------- 2 ---------- *)

Theorem accept_returns_first : forall ls s n s', run init ls = Some s -> step s (SAccept n) = Some s' ->
  exists k x rest, backlog (gsrv s n) = k :: rest /\ accepted (gsrv s' n) = Some k /\
    sent (gconn s k) = x :: skipn 1 (sent (gconn s k)) /\ got (gconn s k) = [] /\ got (gconn s' k) = [x].
Proof.
  intros ls s n s' Hr H.
  destruct (reach_InvGot ls s Hr) as [_ G]. pose proof (reach_Fifo ls s Hr) as F.
  unfold step in H. grd H. splitG.
  destruct (backlog (gsrv s n)) as [|k0 rest] eqn:Eb; [discriminate|].
  destruct (queue (gconn s k0)) as [|x q'] eqn:Eq; [discriminate|].
  pose proof (queue_nonempty_lt _ _ _ _ Eq) as Hk0.
  assert (Hg : got (gconn s k0) = []). { apply (G n). rewrite Eb. simpl. auto. }
  assert (Hs : sent (gconn s k0) = x :: q'). { rewrite <- (F k0 Hk0), Hg, Eq. reflexivity. }
  cbv zeta in H. inv H. exists k0, x, rest.
  split; [reflexivity|]. split; [|split; [|split]].
  - unfold gsrv. simpl. rewrite nth_set_nth_eq by auto. reflexivity.
  - rewrite Hs. reflexivity.
  - exact Hg.
  - unfold gconn at 1. simpl. rewrite nth_set_nth_eq by auto. simpl. rewrite Hg. reflexivity.
Qed.

(* ---------- 3 ---------- *)

Theorem names_distinct : forall ls s, run init ls = Some s ->
  NoDup (fs s) /\ (forall n, In n (fs s) <-> n < length (servers s) /\ listening (gsrv s n) = true).
Proof. intros ls s H. destruct (reach_InvFS ls s H) as (A & B & _). auto. Qed.

(* ---------- 4 ---------- *)

Theorem clean_after : forall ls s n, run init ls = Some s -> n < length (servers s) ->
  listening (gsrv s n) = false -> ~ In n (fs s) /\ dir (gsrv s n) = false.
Proof.
  intros ls s n H Hn Hl. destruct (reach_InvFS ls s H) as (A & B & C & D). split.
  - intros Hin. apply B in Hin. destruct Hin. congruence.
  - rewrite D; auto.
Qed.

Theorem listeners_counted : forall ls s, run init ls = Some s -> open_listeners s = length (fs s).
Proof. intros ls s H. destruct (reach_InvFS ls s H) as (A & B & C & D). auto. Qed.

(* ---------- 5 ---------- *)

Theorem connect_needs_live_server : forall ls s n s', run init ls = Some s ->
  step s (CConnect n) = Some s' -> n < length (servers s) /\ listening (gsrv s n) = true.
Proof. intros ls s n s' _ H. unfold step in H. grd H. splitG. auto. Qed.

Theorem no_connect_after_accept : forall ls s n, run init ls = Some s -> n < length (servers s) ->
  listening (gsrv s n) = false -> step s (CConnect n) = None.
Proof.
  intros ls s n _ Hn Hl. unfold step. rewrite Hl. rewrite andb_false_r. reflexivity.
Qed.

(* ---------- 6 ---------- *)

Theorem accept_enabled_when_ready : forall ls s n k rest x q, run init ls = Some s ->
  n < length (servers s) -> listening (gsrv s n) = true -> backlog (gsrv s n) = k :: rest ->
  queue (gconn s k) = x :: q -> exists s', step s (SAccept n) = Some s'.
Proof.
  intros ls s n k rest x q _ Hn Hl Hb Hq. unfold step.
  apply Nat.ltb_lt in Hn. rewrite Hn, Hl, Hb, Hq. simpl. eauto.
Qed.

Print Assumptions conn_fifo.
Print Assumptions accept_returns_first.
Print Assumptions backlog_ids_wf.
Print Assumptions backlog_untouched.
Print Assumptions names_distinct.
Print Assumptions clean_after.
Print Assumptions listeners_counted.
Print Assumptions connect_needs_live_server.
Print Assumptions no_connect_after_accept.
Print Assumptions accept_enabled_when_ready.
