(* ApiInv: the invariant of the model of the WHOLE public API (model/Api.v): after any sequence of channel, region,
   receiver-set and one-shot-server operations the references the process holds are exactly those backing a live
   handle (senders, receivers, regions, members of sets, servers), the kernel core is well-formed and stable.
   Consequences: nothing is left once every handle is gone (C11 at reference level, whole API), `closed` is reported
   by a set exactly when no sender reference exists (C06), accept yields the head of the rendezvous queue (C08),
   and Ideal is the restriction of Api to channels (api_conservative; C19). *)
From Coq Require Import List Arith Lia Bool ZArith Permutation.
From IPC Require Import K KProofs Prog Ideal IdealProofs Api ApiProofs.
Import ListNotations.

(* ------------------------------------------------------------------------------------------ *)
(* 1. the kernel invariant relative to the references the process should hold, regions allowed  *)
(* ------------------------------------------------------------------------------------------ *)
Definition okG (n : nat) (r : ref) : Prop := match r with RS c | RR c => c < n | RM _ => True end.

Lemma okG_mono : forall n n' r, n <= n' -> okG n r -> okG n' r.
Proof. intros n n' [c|c|o] Hle H; cbn [okG] in *; auto; lia. Qed.

Record kinvG (k : kst) (hr : list ref) : Prop := {
  gv_wf : k_wf k;
  gv_stable : k_stable k;
  gv_held : Permutation (held k) hr;
  gv_ok_h : Forall (okG (length (chans k))) (held k);
  gv_ok_q : forall c ch m r, nth_error (chans k) c = Some ch -> In m (q ch) -> In r (m_rights m) ->
            okG (length (chans k)) r }.

Lemma kinvG_perm : forall k hr hr', kinvG k hr -> Permutation hr hr' -> kinvG k hr'.
Proof. intros k hr hr' [W St P Oh Oq] Hp. constructor; auto. now rewrite P. Qed.

Lemma kinvG_in_ok : forall k hr r, kinvG k hr -> In r hr -> okG (length (chans k)) r.
Proof.
  intros k hr r [W St P Oh Oq] Hin. rewrite Forall_forall in Oh. apply Oh.
  eapply Permutation_in; [symmetry; exact P|exact Hin].
Qed.

Lemma kinvG_in_held : forall k hr r, kinvG k hr -> In r hr -> In r (held k).
Proof. intros k hr r [W St P Oh Oq] Hin. eapply Permutation_in; [symmetry; exact P|exact Hin]. Qed.

Lemma kinvG_RR_live : forall k hr c, kinvG k hr -> In (RR c) hr ->
  exists ch, nth_error (chans k) c = Some ch /\ dead ch = false.
Proof.
  intros k hr c I Hin. pose proof (kinvG_in_ok _ _ _ I Hin) as Hok. cbn [okG] in Hok.
  destruct (nth_error (chans k) c) as [ch|] eqn:Hn; [|apply nth_error_None in Hn; lia].
  exists ch. split; auto. destruct (dead ch) eqn:Hd; auto. exfalso.
  destruct (gv_wf _ _ I c ch Hn Hd) as [_ H0]. revert H0. apply refs_held_pos.
  eapply kinvG_in_held; eauto.
Qed.

Lemma k_init_kinvG : kinvG k_init [].
Proof.
  constructor; cbn [k_init held chans].
  - apply k_init_wf.
  - intros c ch Hn. destruct c; discriminate.
  - constructor.
  - constructor.
  - intros c ch m r Hn. destruct c; discriminate.
Qed.

Lemma k_new_kinvG : forall k hr, kinvG k hr ->
  kinvG (fst (k_new k)) (RS (length (chans k)) :: RR (length (chans k)) :: hr).
Proof.
  intros k hr I. pose proof I as [W St P Oh Oq].
  assert (Hrefs : forall r, refs k r <= refs (fst (k_new k)) r).
  { intros r. unfold k_new, refs, inflight. cbn [fst chans held].
    rewrite flat_map_app, count_occ_app. cbn [flat_map live_rights dead q app count_occ].
    destruct (ref_dec (RS (length (chans k))) r), (ref_dec (RR (length (chans k))) r); lia. }
  constructor.
  - now apply k_new_wf.
  - intros c ch Hn Hd. unfold k_new in Hn. cbn [fst chans] in Hn.
    destruct (Nat.lt_ge_cases c (length (chans k))) as [Hlt|Hge].
    + rewrite nth_error_app1 in Hn by auto. specialize (St c ch Hn Hd). specialize (Hrefs (RR c)). lia.
    + assert (c = length (chans k)) as ->.
      { pose proof (nth_error_lt _ _ _ Hn) as Hl. rewrite app_length in Hl. cbn [length] in Hl. lia. }
      apply refs_held_pos. unfold k_new. cbn [fst held]. right. now left.
  - unfold k_new. cbn [fst held]. now do 2 apply perm_skip.
  - unfold k_new. cbn [fst held chans]. rewrite app_length. cbn [length].
    repeat constructor; cbn [okG]; try lia.
    eapply Forall_impl; [|exact Oh]. intros r. apply okG_mono. lia.
  - intros c ch m r Hn Hm Hr. unfold k_new in *. cbn [fst chans] in *. rewrite app_length. cbn [length].
    destruct (Nat.lt_ge_cases c (length (chans k))) as [Hlt|Hge].
    + rewrite nth_error_app1 in Hn by auto. eapply okG_mono; [|eapply Oq; eauto]. lia.
    + rewrite nth_error_app2 in Hn by auto. destruct (c - length (chans k)) as [|j]; cbn [nth_error] in Hn.
      * injection Hn as <-. contradiction.
      * destruct j; discriminate.
Qed.

(* duplicating a reference: to a sending end of a live channel, to a region, or to anything already held *)
Lemma k_dup_kinvG : forall k hr r, kinvG k hr ->
  (forall c, r <> RR c) -> okG (length (chans k)) r -> kinvG (k_dup k r) (r :: hr).
Proof.
  intros k hr r I Hnr Hok. pose proof I as [W St P Oh Oq]. constructor.
  - apply k_dup_wf; auto. intros c0 E. exfalso. eapply Hnr; eauto.
  - intros c0 ch Hn Hd. cbn [k_dup chans] in Hn. specialize (St c0 ch Hn Hd).
    unfold refs, inflight, k_dup in *. cbn [chans held count_occ]. destruct (ref_dec r (RR c0)); lia.
  - cbn [k_dup held]. now apply perm_skip.
  - cbn [k_dup held chans]. constructor; auto.
  - exact Oq.
Qed.

Lemma k_close_kinvG : forall k hr r hr', kinvG k hr -> Permutation hr (r :: hr') -> kinvG (k_close k r) hr'.
Proof.
  intros k hr r hr' I Hp. pose proof I as [W St P Oh Oq]. unfold k_close. constructor.
  - now apply k_close_wf.
  - apply gc_stable.
  - rewrite gc_held. cbn [held].
    assert (Hin : In r (held k)).
    { eapply kinvG_in_held; eauto. eapply Permutation_in; [symmetry; exact Hp|now left]. }
    apply Permutation_cons_inv with (a := r).
    rewrite <- (remove_one_perm r (held k) Hin). now rewrite P.
  - rewrite gc_held, gc_length. cbn [held chans]. rewrite Forall_forall in *.
    intros x Hx. apply Oh. eapply remove_one_incl; eauto.
  - intros c ch' m x Hn' Hm Hx. rewrite gc_length. cbn [chans].
    apply gc_chan_cases in Hn'. cbn [chans] in Hn'. destruct Hn' as (ch & Hn & [->|Hq]).
    + eapply Oq; eauto.
    + rewrite Hq in Hm. contradiction.
Qed.

Lemma close_moved_kinvG : forall rs k X, kinvG k (moved rs ++ X) -> kinvG (close_moved k rs) X.
Proof.
  induction rs as [|[c|c|o] t IH]; intros k X I; cbn [close_moved moved filter app] in *; auto.
  apply IH. eapply k_close_kinvG; eauto.
Qed.

Lemma close_all_kinvG : forall rs k X, kinvG k (rs ++ X) -> kinvG (close_all k rs) X.
Proof.
  induction rs as [|r t IH]; intros k X I; cbn [close_all app] in *; auto.
  apply IH. eapply k_close_kinvG; eauto.
Qed.

Lemma k_send_kinvG : forall k hr c m k', kinvG k hr -> k_send k c m = Some k' ->
  (forall r, In r (m_rights m) -> In r hr) -> kinvG k' hr.
Proof.
  intros k hr c m k' I Hs Hm. pose proof I as [W St P Oh Oq].
  pose proof Hs as Hs'. apply k_send_some in Hs'. destruct Hs' as (ch & Hn & Hd & Hk').
  constructor.
  - eapply k_send_wf; eauto. intros c' Hin. eapply kinvG_RR_live; eauto.
  - subst k'. intros c' ch' Hn' Hd'. rewrite (refs_send k c ch m _ Hn Hd). cbn [chans] in Hn'.
    destruct (Nat.eq_dec c c') as [<-|Hne].
    + specialize (St c ch Hn Hd). lia.
    + rewrite nth_error_set_nth_neq in Hn' by auto. specialize (St c' ch' Hn' Hd'). lia.
  - subst k'. exact P.
  - subst k'. cbn [held chans]. now rewrite length_set_nth.
  - subst k'. cbn [chans]. rewrite length_set_nth. intros c' ch' m' r Hn' Hm' Hr.
    destruct (Nat.eq_dec c c') as [<-|Hne].
    + rewrite nth_error_set_nth_eq in Hn' by (eapply nth_error_lt; eauto). injection Hn' as <-.
      cbn [q] in Hm'. apply in_app_or in Hm'. destruct Hm' as [Hm'|[<-|[]]].
      * eapply Oq; eauto.
      * eapply kinvG_in_ok; eauto.
    + rewrite nth_error_set_nth_neq in Hn' by auto. eapply Oq; eauto.
Qed.

Lemma k_recv_kinvG : forall k hr c m k', kinvG k hr -> k_recv k c = KMsg m k' -> kinvG k' (m_rights m ++ hr).
Proof.
  intros k hr c m k' I Hr. pose proof I as [W St P Oh Oq].
  pose proof Hr as Hr'. apply k_recv_msg in Hr'. destruct Hr' as (ch & rest & Hn & Hq & Hk').
  assert (Hd : dead ch = false).
  { destruct (dead ch) eqn:Hd; auto. destruct (W c ch Hn Hd) as [Hq0 _]. congruence. }
  assert (Hrefs : forall r, refs k' r = refs k r).
  { intros r. eapply refs_recv_preserved; eauto.
    - now rewrite (get_chan_some _ _ _ Hn).
    - eapply nth_error_lt; eauto. }
  constructor.
  - eapply k_recv_wf; eauto.
  - intros c' ch' Hn' Hd'. rewrite Hrefs. subst k'. cbn [chans] in Hn'.
    destruct (Nat.eq_dec c c') as [<-|Hne].
    + eapply St; eauto.
    + rewrite nth_error_set_nth_neq in Hn' by auto. eapply St; eauto.
  - subst k'. cbn [held]. now apply Permutation_app_head.
  - subst k'. cbn [held chans]. rewrite length_set_nth. apply Forall_app. split; auto.
    apply Forall_forall. intros r Hin. eapply Oq; eauto. rewrite Hq. now left.
  - subst k'. cbn [chans]. rewrite length_set_nth. intros c' ch' m' r Hn' Hm' Hr'.
    destruct (Nat.eq_dec c c') as [<-|Hne].
    + rewrite nth_error_set_nth_eq in Hn' by (eapply nth_error_lt; eauto). injection Hn' as <-.
      cbn [q] in Hm'. eapply Oq; eauto. rewrite Hq. now right.
    + rewrite nth_error_set_nth_neq in Hn' by auto. eapply Oq; eauto.
Qed.

(* ------------------------------------------------------------------------------------------ *)
(* 2. references backing the handles of an Api state                                            *)
(* ------------------------------------------------------------------------------------------ *)
Definition member_refs (ms : list (option nat)) : list ref :=
  flat_map (fun m => match m with Some c => [RR c] | None => [] end) ms.

Definition aobj_refs (o : aobj) : list ref :=
  match o with
  | OS c => [RS c] | OR c => [RR c] | OM o => [RM o]
  | OSet ms => member_refs ms
  | OSrv c _ => [RR c]
  | OGone => []
  end.

Definition ahandle_refs (hs : list (hid * aobj)) : list ref := flat_map (fun e => aobj_refs (snd e)) hs.

Lemma ahandle_refs_app : forall l1 l2, ahandle_refs (l1 ++ l2) = ahandle_refs l1 ++ ahandle_refs l2.
Proof. intros. unfold ahandle_refs. apply flat_map_app. Qed.

Lemma ahandle_refs_cons : forall h o l, ahandle_refs ((h, o) :: l) = aobj_refs o ++ ahandle_refs l.
Proof. reflexivity. Qed.

Lemma in_ahandle_refs : forall l r, In r (ahandle_refs l) <-> exists h o, In (h, o) l /\ In r (aobj_refs o).
Proof.
  intros l r. unfold ahandle_refs. rewrite in_flat_map. split.
  - intros ([h o] & Hin & Hr). exists h, o. auto.
  - intros (h & o & Hin & Hr). exists (h, o). auto.
Qed.

Lemma member_refs_app : forall a b, member_refs (a ++ b) = member_refs a ++ member_refs b.
Proof. intros. unfold member_refs. apply flat_map_app. Qed.

(* replacing the object of a handle *)
Lemma ahandle_refs_update : forall l h o o', lookup l h = Some o ->
  Permutation (aobj_refs o ++ ahandle_refs (update l h o')) (aobj_refs o' ++ ahandle_refs l).
Proof.
  intros l h o o' H. destruct (lookup_split l h o H) as (l1 & l2 & -> & Hu). rewrite Hu.
  rewrite !ahandle_refs_app, !ahandle_refs_cons.
  rewrite (Permutation_app_swap_app (aobj_refs o) (ahandle_refs l1)).
  rewrite (Permutation_app_swap_app (aobj_refs o') (ahandle_refs l1)).
  apply Permutation_app_head.
  rewrite (Permutation_app_swap_app (aobj_refs o) (aobj_refs o')). reflexivity.
Qed.

Lemma ahandle_refs_update_gone : forall l h o, lookup l h = Some o ->
  Permutation (ahandle_refs l) (aobj_refs o ++ ahandle_refs (update l h OGone)).
Proof.
  intros l h o H. pose proof (ahandle_refs_update l h o OGone H) as P. cbn [aobj_refs app] in P. now symmetry.
Qed.

Definition aids_ok (hs : list (hid * aobj)) (n : hid) : Prop :=
  NoDup (map fst hs) /\ Forall (fun e => fst e < n) hs.

Lemma aids_ok_snoc : forall hs n o, aids_ok hs n -> aids_ok (hs ++ [(n, o)]) (S n).
Proof.
  intros hs n o [Hnd Hlt]. apply Forall_fst_map in Hlt. unfold aids_ok. rewrite Forall_fst_map.
  rewrite map_app. cbn [map fst]. rewrite Forall_forall in Hlt. split.
  - apply NoDup_app_intro; auto.
    + constructor; [intros []|constructor].
    + intros x Hx [E|[]]. specialize (Hlt x Hx). lia.
  - apply Forall_app. split.
    + apply Forall_forall. intros x Hx. specialize (Hlt x Hx). lia.
    + repeat constructor.
Qed.

Lemma aids_ok_ext : forall hs hs' n, map fst hs' = map fst hs -> aids_ok hs n -> aids_ok hs' n.
Proof.
  intros hs hs' n E [Hnd Hlt]. apply Forall_fst_map in Hlt. unfold aids_ok. rewrite Forall_fst_map, E. auto.
Qed.

Lemma aids_ok_install : forall rs hs n, aids_ok hs n ->
  aids_ok (hs ++ combine (seq n (length rs)) (map aobj_of rs)) (n + length rs).
Proof.
  intros rs hs n [Hnd Hlt]. apply Forall_fst_map in Hlt. unfold aids_ok. rewrite Forall_fst_map.
  rewrite map_app, map_fst_combine by (now rewrite seq_length, map_length).
  rewrite Forall_forall in Hlt. split.
  - apply NoDup_app_intro; auto.
    + apply seq_NoDup.
    + intros x Hx Hs. apply in_seq in Hs. specialize (Hlt x Hx). lia.
  - apply Forall_app. split; apply Forall_forall; intros x Hx.
    + specialize (Hlt x Hx). lia.
    + apply in_seq in Hx. lia.
Qed.

Lemma ahandle_refs_combine : forall ids rs, length ids = length rs ->
  ahandle_refs (combine ids (map aobj_of rs)) = rs.
Proof.
  induction ids as [|i t IH]; intros [|r u] H; cbn [length] in H; try discriminate; auto.
  cbn [map combine]. rewrite ahandle_refs_cons. rewrite IH by lia.
  destruct r; reflexivity.
Qed.

Lemma a_install_refs : forall rs hs n,
  ahandle_refs (fst (fst (a_install hs n rs))) = ahandle_refs hs ++ rs.
Proof.
  intros rs hs n. rewrite a_install_shape. cbn [fst]. rewrite ahandle_refs_app. f_equal.
  apply ahandle_refs_combine. apply seq_length.
Qed.

(* ------------------------------------------------------------------------------------------ *)
(* 3. the invariant                                                                             *)
(* ------------------------------------------------------------------------------------------ *)
Record a_inv (s : ast) : Prop := {
  av_k : kinvG (ak s) (ahandle_refs (ah s));
  av_ids : aids_ok (ah s) (anext s) }.

Theorem a_inv_init : a_inv a_init.
Proof. constructor; cbn [a_init ak ah anext]; [exact k_init_kinvG|split; constructor]. Qed.

Lemma a_resolve_spec : forall atts hs rs hs', a_resolve hs atts = Some (rs, hs') ->
  Permutation (ahandle_refs hs) (moved rs ++ ahandle_refs hs') /\ map fst hs' = map fst hs /\
  (forall r, In r rs -> In r (ahandle_refs hs)).
Proof.
  induction atts as [|[x|x|x] t IH]; intros hs rs hs' H; cbn [a_resolve] in H.
  - injection H as <- <-. cbn [moved filter app]. repeat split; auto. intros r [].
  - destruct (lookup hs x) as [[c|c|o|ms|c b|]|] eqn:El; try discriminate.
    destruct (a_resolve hs t) as [[rs0 hs0]|] eqn:Er; [|discriminate]. injection H as <- <-.
    destruct (IH _ _ _ Er) as (Hp & Hf & Hin). cbn [moved filter]. repeat split; auto.
    intros r [<-|Hr]; auto. apply in_ahandle_refs. exists x, (OS c). split; [now apply lookup_In|now left].
  - destruct (lookup hs x) as [[c|c|o|ms|c b|]|] eqn:El; try discriminate.
    destruct (a_resolve (update hs x OGone) t) as [[rs0 hs0]|] eqn:Er; [|discriminate]. injection H as <- <-.
    destruct (IH _ _ _ Er) as (Hp & Hf & Hin).
    pose proof (ahandle_refs_update_gone hs x (OR c) El) as Hu. cbn [aobj_refs app] in Hu.
    cbn [moved filter app]. repeat split.
    + rewrite Hu. apply perm_skip. exact Hp.
    + rewrite Hf. apply map_fst_update.
    + intros r [<-|Hr].
      * eapply Permutation_in; [symmetry; exact Hu|now left].
      * eapply Permutation_in; [symmetry; exact Hu|right; auto].
  - destruct (lookup hs x) as [[c|c|o|ms|c b|]|] eqn:El; try discriminate.
    destruct (a_resolve hs t) as [[rs0 hs0]|] eqn:Er; [|discriminate]. injection H as <- <-.
    destruct (IH _ _ _ Er) as (Hp & Hf & Hin). cbn [moved filter]. repeat split; auto.
    intros r [<-|Hr]; auto. apply in_ahandle_refs. exists x, (OM o). split; [now apply lookup_In|now left].
Qed.

(* ------------------------------------------------------------------------------------------ *)
(* 4. permutations of reference lists, decided by counting                                      *)
(* ------------------------------------------------------------------------------------------ *)
Ltac perm_refs :=
  apply (Permutation_count_occ ref_dec); intros ?x;
  repeat rewrite ?count_occ_app; cbn [count_occ app];
  repeat (match goal with |- context [ref_dec ?a ?b] => destruct (ref_dec a b) end;
          repeat rewrite ?count_occ_app; cbn [count_occ app]);
  try lia; try congruence.

Lemma update_app_in {B} : forall (l ext : list (hid * B)) h v, lookup l h <> None ->
  update (l ++ ext) h v = update l h v ++ ext.
Proof.
  induction l as [|[x w] t IH]; intros ext h v H; cbn [lookup] in H; [congruence|].
  cbn [app update]. destruct (Nat.eqb x h); auto. cbn [app]. f_equal. auto.
Qed.

Lemma lookup_app_in {B} : forall (l ext : list (hid * B)) h, lookup l h <> None -> lookup (l ++ ext) h = lookup l h.
Proof. intros l ext h H. rewrite lookup_app. destruct (lookup l h); congruence. Qed.

(* the handles with the entry of one handle (the set being served) masked *)
Definition Hm (sh : hid) (hs : list (hid * aobj)) : list ref := ahandle_refs (update hs sh OGone).

Lemma Hm_install : forall sh rs hs n, lookup hs sh <> None ->
  Hm sh (fst (fst (a_install hs n rs))) = Hm sh hs ++ rs.
Proof.
  intros sh rs hs n H. unfold Hm. rewrite a_install_shape. cbn [fst].
  rewrite update_app_in by auto. rewrite ahandle_refs_app. f_equal.
  apply ahandle_refs_combine. apply seq_length.
Qed.

Lemma lookup_install : forall sh rs hs n, lookup hs sh <> None ->
  lookup (fst (fst (a_install hs n rs))) sh = lookup hs sh.
Proof. intros. rewrite a_install_shape. cbn [fst]. now apply lookup_app_in. Qed.

Lemma aids_install : forall rs hs n, aids_ok hs n ->
  aids_ok (fst (fst (a_install hs n rs))) (snd (fst (a_install hs n rs))).
Proof. intros. rewrite a_install_shape. cbn [fst snd]. now apply aids_ok_install. Qed.

Lemma Hm_split : forall sh hs o o', lookup hs sh = Some o ->
  Permutation (ahandle_refs (update hs sh o')) (aobj_refs o' ++ Hm sh hs).
Proof.
  intros sh hs o o' H. unfold Hm. destruct (lookup_split hs sh o H) as (l1 & l2 & -> & Hu).
  rewrite !Hu, !ahandle_refs_app, !ahandle_refs_cons. cbn [aobj_refs app].
  apply Permutation_app_swap_app.
Qed.

Lemma Hm_self : forall sh hs o, lookup hs sh = Some o ->
  Permutation (ahandle_refs hs) (aobj_refs o ++ Hm sh hs).
Proof.
  intros sh hs o H. unfold Hm. destruct (lookup_split hs sh o H) as (l1 & l2 & E & Hu).
  rewrite Hu. rewrite E at 1. rewrite !ahandle_refs_app, !ahandle_refs_cons. cbn [aobj_refs app].
  apply Permutation_app_swap_app.
Qed.

(* ------------------------------------------------------------------------------------------ *)
(* 5. serving a receiver set                                                                    *)
(* ------------------------------------------------------------------------------------------ *)
Lemma drain_inv : forall sh fuel k hs n i c Y,
  lookup hs sh <> None -> kinvG k (RR c :: Y ++ Hm sh hs) -> aids_ok hs n ->
  match drain fuel k hs n i c with
  | (k2, hs2, n2, evs, closed, later) =>
      kinvG k2 ((if closed then [] else [RR c]) ++ later ++ Y ++ Hm sh hs2) /\ aids_ok hs2 n2 /\
      lookup hs2 sh = lookup hs sh
  end.
Proof.
  intros sh. induction fuel as [|f IH]; intros k hs n i c Y Hl I Hids; cbn [drain].
  - cbn [app]. auto.
  - destruct (k_recv k c) as [m k'| |] eqn:Er.
    + pose proof (k_recv_kinvG _ _ _ _ _ I Er) as I'.
      destruct (undecodable m).
      * specialize (IH k' hs n i c (m_rights m ++ Y) Hl).
        destruct (drain f k' hs n i c) as [[[[[k2 hs2] n2] evs] closed] later].
        destruct IH as (J & Hids2 & Hl2); auto.
        { eapply kinvG_perm; [exact I'|]. perm_refs. }
        split; [|split; auto]. eapply kinvG_perm; [exact J|]. destruct closed; perm_refs.
      * pose proof (Hm_install sh (m_rights m) hs n Hl) as HH.
        pose proof (lookup_install sh (m_rights m) hs n Hl) as HL.
        pose proof (aids_install (m_rights m) hs n Hids) as HI.
        destruct (a_install hs n (m_rights m)) as [[hs' n'] out]. cbn [fst snd] in HH, HL, HI.
        specialize (IH k' hs' n' i c Y).
        destruct (drain f k' hs' n' i c) as [[[[[k2 hs2] n2] evs] closed] later].
        destruct IH as (J & Hids2 & Hl2); auto.
        { congruence. }
        { eapply kinvG_perm; [exact I'|]. rewrite HH. perm_refs. }
        split; [exact J|split; auto]. congruence.
    + cbn [app]. auto.
    + cbn [app]. split; [|split; auto]. eapply k_close_kinvG; [exact I|]. reflexivity.
Qed.

Lemma select_all_inv : forall sh ms k hs n i Y,
  lookup hs sh <> None -> kinvG k (member_refs ms ++ Y ++ Hm sh hs) -> aids_ok hs n ->
  match select_all k hs n i ms with
  | (k2, hs2, n2, evs, ms2, later) =>
      kinvG k2 (member_refs ms2 ++ later ++ Y ++ Hm sh hs2) /\ aids_ok hs2 n2 /\
      lookup hs2 sh = lookup hs sh
  end.
Proof.
  intros sh. induction ms as [|[c|] r IH]; intros k hs n i Y Hl I Hids; cbn [select_all].
  - cbn [member_refs flat_map app] in *. auto.
  - pose proof (drain_inv sh (S (length (q (get_chan k c)))) k hs n i c (member_refs r ++ Y) Hl) as D.
    destruct (drain (S (length (q (get_chan k c)))) k hs n i c) as [[[[[k1 hs1] n1] ev1] closed] l1].
    destruct D as (J1 & Hids1 & Hl1); auto.
    { eapply kinvG_perm; [exact I|]. cbn [member_refs flat_map]. fold (member_refs r). perm_refs. }
    specialize (IH k1 hs1 n1 (S i) ((if closed then [] else [RR c]) ++ l1 ++ Y)).
    destruct (select_all k1 hs1 n1 (S i) r) as [[[[[k2 hs2] n2] evs] ms2] l2].
    destruct IH as (J2 & Hids2 & Hl2); auto.
    { congruence. }
    { eapply kinvG_perm; [exact J1|]. destruct closed; perm_refs. }
    split; [|split; auto; congruence].
    eapply kinvG_perm; [exact J2|]. cbn [member_refs flat_map]. fold (member_refs ms2).
    destruct closed; perm_refs.
  - specialize (IH k hs n (S i) Y Hl).
    destruct (select_all k hs n (S i) r) as [[[[[k2 hs2] n2] evs] ms2] later].
    destruct IH as (J & Hids2 & Hl2); auto.
Qed.

Lemma close_members_kinvG : forall ms k X, kinvG k (member_refs ms ++ X) -> kinvG (close_members k ms) X.
Proof.
  induction ms as [|[c|] r IH]; intros k X I; cbn [close_members member_refs flat_map app] in *; auto.
  apply IH. eapply k_close_kinvG; [exact I|]. reflexivity.
Qed.

(* ------------------------------------------------------------------------------------------ *)
(* 6. every operation of the public API preserves the invariant                                 *)
(* ------------------------------------------------------------------------------------------ *)
Lemma a_inv_intro : forall k hs n mem, kinvG k (ahandle_refs hs) -> aids_ok hs n ->
  a_inv {| ak := k; ah := hs; anext := n; amem := mem |}.
Proof. intros. constructor; cbn [ak ah anext]; auto. Qed.

Lemma handle_in_refs : forall hs h o r, lookup hs h = Some o -> In r (aobj_refs o) -> In r (ahandle_refs hs).
Proof. intros hs h o r Hl Hr. apply in_ahandle_refs. exists h, o. split; auto. now apply lookup_In. Qed.

Theorem a_inv_step : forall s o, a_inv s -> a_inv (fst (a_step s o)).
Proof.
  intros s o [K Hids].
  destruct o as [|h|h|h data atts|h|len seed|h|h| |sh rh|sh| |sh|sh]; cbn [a_step].
  - (* ANew *)
    cbn [k_new fst]. apply a_inv_intro.
    + eapply kinvG_perm; [exact (k_new_kinvG _ _ K)|].
      rewrite ahandle_refs_app. cbn [ahandle_refs flat_map snd aobj_refs app]. perm_refs.
    + change (ah s ++ [(anext s, OS (length (chans (ak s)))); (S (anext s), OR (length (chans (ak s))))])
        with (ah s ++ [(anext s, OS (length (chans (ak s))))] ++ [(S (anext s), OR (length (chans (ak s))))]).
      rewrite app_assoc. now do 2 apply aids_ok_snoc.
  - (* AClone *)
    destruct (lookup (ah s) h) as [[c|c|o|ms|c b|]|] eqn:El; cbn [fst]; try (constructor; auto; fail).
    apply a_inv_intro.
    + eapply kinvG_perm.
      * apply (k_dup_kinvG _ _ (RS c) K); [discriminate|].
        eapply kinvG_in_ok; [exact K|]. eapply handle_in_refs; eauto. now left.
      * rewrite ahandle_refs_app. cbn [ahandle_refs flat_map snd aobj_refs app]. perm_refs.
    + now apply aids_ok_snoc.
  - (* ADrop *)
    destruct (lookup (ah s) h) as [[c|c|o|ms|c b|]|] eqn:El; cbn [fst]; try (constructor; auto; fail).
    + apply a_inv_intro; [|eapply aids_ok_ext; [apply map_fst_update|exact Hids]].
      eapply k_close_kinvG; [exact K|]. exact (ahandle_refs_update_gone _ _ _ El).
    + apply a_inv_intro; [|eapply aids_ok_ext; [apply map_fst_update|exact Hids]].
      eapply k_close_kinvG; [exact K|]. exact (ahandle_refs_update_gone _ _ _ El).
    + apply a_inv_intro; [|eapply aids_ok_ext; [apply map_fst_update|exact Hids]].
      eapply k_close_kinvG; [exact K|]. exact (ahandle_refs_update_gone _ _ _ El).
    + apply a_inv_intro; [|eapply aids_ok_ext; [apply map_fst_update|exact Hids]].
      apply close_members_kinvG. eapply kinvG_perm; [exact K|].
      exact (ahandle_refs_update_gone _ _ _ El).
    + apply a_inv_intro; [|eapply aids_ok_ext; [apply map_fst_update|exact Hids]].
      eapply k_close_kinvG; [exact K|]. exact (ahandle_refs_update_gone _ _ _ El).
  - (* ASend *)
    destruct (lookup (ah s) h) as [[c|c|o|ms|c b|]|] eqn:El; cbn [fst]; try (constructor; auto; fail).
    destruct (a_resolve (ah s) atts) as [[rs hs']|] eqn:Er; cbn [fst]; [|constructor; auto].
    destruct (a_resolve_spec _ _ _ _ Er) as (Hp & Hf & Hin).
    destruct (k_send (ak s) c {| m_data := data; m_rights := rs |}) as [k'|] eqn:Es; cbn [fst].
    + apply a_inv_intro; [|eapply aids_ok_ext; eauto].
      apply close_moved_kinvG. eapply kinvG_perm; [|exact Hp].
      eapply k_send_kinvG; [exact K|exact Es|exact Hin].
    + apply a_inv_intro; [|eapply aids_ok_ext; eauto].
      apply close_moved_kinvG. eapply kinvG_perm; [exact K|exact Hp].
  - (* ARecv *)
    destruct (lookup (ah s) h) as [[c|c|o|ms|c b|]|] eqn:El; cbn [fst]; try (constructor; auto; fail).
    destruct (k_recv (ak s) c) as [m k'| |] eqn:Er; cbn [fst]; try (constructor; auto; fail).
    pose proof (k_recv_kinvG _ _ _ _ _ K Er) as K'.
    destruct (undecodable m); cbn [fst].
    + apply a_inv_intro; auto. now apply close_all_kinvG.
    + pose proof (a_install_refs (m_rights m) (ah s) (anext s)) as HR.
      pose proof (aids_install (m_rights m) (ah s) (anext s) Hids) as HI.
      destruct (a_install (ah s) (anext s) (m_rights m)) as [[hs' n'] out]. cbn [fst snd] in *.
      apply a_inv_intro; auto. eapply kinvG_perm; [exact K'|]. rewrite HR. perm_refs.
  - (* AShm *)
    cbn [fst]. constructor; cbn [ak ah anext].
    + eapply kinvG_perm.
      * apply (k_dup_kinvG _ _ (RM (length (amem s))) K); [discriminate|exact I].
      * rewrite ahandle_refs_app. cbn [ahandle_refs flat_map snd aobj_refs app]. perm_refs.
    + now apply aids_ok_snoc.
  - (* AShmClone *)
    destruct (lookup (ah s) h) as [[c|c|o|ms|c b|]|] eqn:El; cbn [fst]; try (constructor; auto; fail).
    apply a_inv_intro.
    + eapply kinvG_perm.
      * apply (k_dup_kinvG _ _ (RM o) K); [discriminate|exact I].
      * rewrite ahandle_refs_app. cbn [ahandle_refs flat_map snd aobj_refs app]. perm_refs.
    + now apply aids_ok_snoc.
  - (* AShmRead *)
    destruct (lookup (ah s) h) as [[c|c|o|ms|c b|]|] eqn:El; cbn [fst]; try (constructor; auto; fail).
    destruct (nth_error (amem s) o) as [[l sd]|]; cbn [fst]; constructor; auto.
  - (* ASetNew *)
    cbn [fst]. apply a_inv_intro.
    + eapply kinvG_perm; [exact K|]. rewrite ahandle_refs_app.
      cbn [ahandle_refs flat_map snd aobj_refs member_refs app]. now rewrite app_nil_r.
    + now apply aids_ok_snoc.
  - (* ASetAdd *)
    destruct (lookup (ah s) sh) as [[c|c|o|ms|c b|]|] eqn:Els; cbn [fst]; try (constructor; auto; fail).
    destruct (lookup (ah s) rh) as [[c|c|o|ms'|c b|]|] eqn:Elr; cbn [fst]; try (constructor; auto; fail).
    apply a_inv_intro.
    + eapply kinvG_perm; [exact K|].
      pose proof (ahandle_refs_update_gone _ _ _ Elr) as P1. cbn [aobj_refs app] in P1.
      assert (Els' : lookup (update (ah s) rh OGone) sh = Some (OSet ms)).
      { destruct (Nat.eq_dec rh sh) as [->|Hne]; [congruence|].
        destruct (lookup_split _ _ _ Elr) as (l1 & l2 & E & Hu). rewrite Hu. rewrite E in Els.
        rewrite lookup_app in *. destruct (lookup l1 sh); auto. cbn [lookup] in *.
        destruct (Nat.eqb rh sh) eqn:E2; auto. apply Nat.eqb_eq in E2. contradiction. }
      pose proof (ahandle_refs_update _ sh _ (OSet (ms ++ [Some c])) Els') as P2.
      cbn [aobj_refs] in P2. rewrite member_refs_app in P2. cbn [member_refs flat_map app] in P2.
      rewrite P1. apply Permutation_app_inv_l with (l := member_refs ms).
      rewrite P2. perm_refs.
    + eapply aids_ok_ext; [|exact Hids]. now rewrite !map_fst_update.
  - (* ASelectAll *)
    destruct (lookup (ah s) sh) as [[c|c|o|ms|c b|]|] eqn:El; cbn [fst]; try (constructor; auto; fail).
    pose proof (select_all_inv sh ms (ak s) (ah s) (anext s) 0 []) as SA.
    destruct (select_all (ak s) (ah s) (anext s) 0 ms) as [[[[[k' hs'] n'] evs] ms'] later].
    destruct SA as (J & Hids' & Hl'); [congruence| |exact Hids|].
    { eapply kinvG_perm; [exact K|]. cbn [app]. exact (Hm_self sh (ah s) (OSet ms) El). }
    cbn [fst]. apply a_inv_intro.
    + apply close_all_kinvG. eapply kinvG_perm; [exact J|].
      rewrite El in Hl'. rewrite (Hm_split sh hs' (OSet ms) (OSet ms') Hl'). cbn [aobj_refs app]. perm_refs.
    + eapply aids_ok_ext; [apply map_fst_update|exact Hids'].
  - (* AServer *)
    cbn [k_new fst]. apply a_inv_intro.
    + eapply k_close_kinvG; [exact (k_new_kinvG _ _ K)|].
      rewrite ahandle_refs_app. cbn [ahandle_refs flat_map snd aobj_refs app]. perm_refs.
    + now apply aids_ok_snoc.
  - (* AConnect *)
    destruct (lookup (ah s) sh) as [[c|c|o|ms|c [|]|]|] eqn:El; cbn [fst]; try (constructor; auto; fail).
    apply a_inv_intro.
    + eapply kinvG_perm.
      * apply (k_dup_kinvG _ _ (RS c) K); [discriminate|].
        assert (Hok : okG (length (chans (ak s))) (RR c)).
        { eapply kinvG_in_ok; [exact K|]. eapply handle_in_refs; eauto. now left. }
        exact Hok.
      * rewrite ahandle_refs_app. cbn [ahandle_refs flat_map snd aobj_refs app].
        pose proof (ahandle_refs_update _ sh _ (OSrv c true) El) as P. cbn [aobj_refs] in P.
        apply Permutation_app_inv_l with (l := [RR c]). cbn [app].
        transitivity (RS c :: [RR c] ++ ahandle_refs (update (ah s) sh (OSrv c true))); [|perm_refs].
        rewrite P. perm_refs.
    + apply aids_ok_snoc. eapply aids_ok_ext; [apply map_fst_update|exact Hids].
  - (* AAccept *)
    destruct (lookup (ah s) sh) as [[c|c|o|ms|c [|]|]|] eqn:El; cbn [fst]; try (constructor; auto; fail).
    destruct (k_recv (ak s) c) as [m k'| |] eqn:Er; cbn [fst]; try (constructor; auto; fail);
      [|apply a_inv_intro; [|eapply aids_ok_ext; [apply map_fst_update|exact Hids]];
        eapply k_close_kinvG; [exact K|]; exact (ahandle_refs_update_gone _ _ _ El)].
    destruct (undecodable m); cbn [fst]; [constructor; auto|].
    pose proof (k_recv_kinvG _ _ _ _ _ K Er) as K'.
    set (hs0 := update (ah s) sh OGone ++ [(anext s, OR c)]).
    assert (Hids0 : aids_ok hs0 (S (anext s))).
    { apply aids_ok_snoc. eapply aids_ok_ext; [apply map_fst_update|exact Hids]. }
    pose proof (a_install_refs (m_rights m) hs0 (S (anext s))) as HR.
    pose proof (aids_install (m_rights m) hs0 (S (anext s)) Hids0) as HI.
    destruct (a_install hs0 (S (anext s)) (m_rights m)) as [[hs' n'] out]. cbn [fst snd] in *.
    apply a_inv_intro; auto. eapply kinvG_perm; [exact K'|]. rewrite HR. unfold hs0.
    rewrite ahandle_refs_app. cbn [ahandle_refs flat_map snd aobj_refs app].
    pose proof (ahandle_refs_update_gone _ _ _ El) as P. cbn [aobj_refs app] in P. rewrite P. perm_refs.
Qed.

Lemma a_inv_run_from : forall ops s, a_inv s -> a_inv (fst (a_run s ops)).
Proof.
  induction ops as [|o r IH]; intros s I; [exact I|].
  rewrite a_run_cons. cbn [fst]. apply IH. now apply a_inv_step.
Qed.

Theorem a_inv_run : forall ops, a_inv (fst (a_run a_init ops)).
Proof. intros. apply a_inv_run_from. exact a_inv_init. Qed.
Print Assumptions a_inv_run.

(* ------------------------------------------------------------------------------------------ *)
(* 7. consequences                                                                              *)
(* ------------------------------------------------------------------------------------------ *)

(* C11 at reference level, for the whole API: once every handle the program obtained is gone, the process holds no reference
   at all - whatever mixture of channels, regions, sets and servers was used, failing operations included *)
Lemma ahandle_refs_nil : forall l, (forall h o, In (h, o) l -> aobj_refs o = []) -> ahandle_refs l = [].
Proof.
  induction l as [|[h o] t IH]; intros H; [reflexivity|]. rewrite ahandle_refs_cons.
  rewrite (H h o) by (now left). cbn [app]. apply IH. intros h' o' Hin. apply (H h' o'). now right.
Qed.

Theorem api_quiescent : forall ops,
  let s := fst (a_run a_init ops) in
  (forall h o, In (h, o) (ah s) -> aobj_refs o = []) -> held (ak s) = [].
Proof.
  intros ops s Hgone. pose proof (a_inv_run ops) as [K _]. fold s in K.
  pose proof (gv_held _ _ K) as P. rewrite (ahandle_refs_nil _ Hgone) in P. symmetry in P. now apply Permutation_nil in P.
Qed.
Print Assumptions api_quiescent.

(* ... and while handles exist, the references held are exactly those backing them *)
Theorem api_held_exact : forall ops,
  let s := fst (a_run a_init ops) in Permutation (held (ak s)) (ahandle_refs (ah s)).
Proof. intros ops s. exact (gv_held _ _ (av_k _ (a_inv_run ops))). Qed.
Print Assumptions api_held_exact.

(* a receiver handle, a set member or a server always denotes a live channel: receiving from it is defined *)
Theorem api_receiver_live : forall ops h o c,
  let s := fst (a_run a_init ops) in
  lookup (ah s) h = Some o -> In (RR c) (aobj_refs o) ->
  exists ch, nth_error (chans (ak s)) c = Some ch /\ dead ch = false.
Proof.
  intros ops h o c s Hl Hin. eapply kinvG_RR_live; [exact (av_k _ (a_inv_run ops))|].
  eapply handle_in_refs; eauto.
Qed.
Print Assumptions api_receiver_live.

(* ---- one member of a set being served (C06 at the level of the public API) ---- *)
Inductive pev := PMsg (i : nat) (d : Z) (kinds : list akind) | PBad (i : nat) | PClosed (i : nat).
Definition proj_ev (e : sev) : pev :=
  match e with SMsg i d hs => PMsg i d (map fst hs) | SBad i => PBad i | SClosed i => PClosed i end.
Definition msg_ev (i : nat) (m : msg) : pev :=
  if undecodable m then PBad i else PMsg i (m_data m) (map akind_of (m_rights m)).

Lemma a_install_kinds : forall rs hs n, map fst (snd (a_install hs n rs)) = map akind_of rs.
Proof.
  intros. rewrite a_install_shape. cbn [snd]. apply map_fst_combine. now rewrite map_length, seq_length.
Qed.

Lemma k_recv_queue : forall k c m k', k_wf k -> k_recv k c = KMsg m k' ->
  q (get_chan k c) = m :: q (get_chan k' c) /\ (forall r, refs k' r = refs k r).
Proof.
  intros k c m k' W H. pose proof H as H2. apply k_recv_msg in H2. destruct H2 as (ch & rest & Hn & Hq & Hk').
  assert (Hd : dead ch = false).
  { destruct (dead ch) eqn:Hd; auto. destruct (W c ch Hn Hd) as [Hq0 _]. congruence. }
  split.
  - rewrite (get_chan_some _ _ _ Hn), Hq. f_equal.
    assert (E : get_chan k' c = {| q := rest; dead := dead ch |}).
    { apply get_chan_some. subst k'. cbn [chans]. apply nth_error_set_nth_eq. eapply nth_error_lt; eauto. }
    rewrite E. reflexivity.
  - intros r. eapply refs_recv_preserved; eauto.
    + now rewrite (get_chan_some _ _ _ Hn).
    + eapply nth_error_lt; eauto.
Qed.

(* every queued message is reported exactly once, in queue order (an undecodable one as such), and the closure is reported,
   last, exactly when no reference to the sending end exists anywhere - held by the process or in flight in a live queue *)
Theorem drain_events : forall fuel k hs n i c, k_wf k -> length (q (get_chan k c)) < fuel ->
  match drain fuel k hs n i c with
  | (_, _, _, evs, closed, _) =>
      map proj_ev evs = map (msg_ev i) (q (get_chan k c)) ++ (if closed then [PClosed i] else []) /\
      closed = (refs k (RS c) =? 0)
  end.
Proof.
  induction fuel as [|f IH]; intros k hs n i c W Hlen; [lia|]. cbn [drain].
  destruct (k_recv k c) as [m k'| |] eqn:Er.
  - destruct (k_recv_queue _ _ _ _ W Er) as (Hq & Hrefs). pose proof (k_recv_wf _ _ _ _ W Er) as W'.
    rewrite Hq in *. cbn [length] in Hlen. unfold msg_ev at 1. cbn [map].
    destruct (undecodable m) eqn:Eu.
    + specialize (IH k' hs n i c W' ltac:(lia)).
      destruct (drain f k' hs n i c) as [[[[[k2 hs2] n2] evs] closed] later].
      destruct IH as (E1 & E2). cbn [map proj_ev app]. rewrite E1, E2, Hrefs. auto.
    + pose proof (a_install_kinds (m_rights m) hs n) as Hk.
      destruct (a_install hs n (m_rights m)) as [[hs' n'] out]. cbn [snd] in Hk.
      specialize (IH k' hs' n' i c W' ltac:(lia)).
      destruct (drain f k' hs' n' i c) as [[[[[k2 hs2] n2] evs] closed] later].
      destruct IH as (E1 & E2). cbn [map proj_ev app]. rewrite E1, E2, Hrefs, Hk. auto.
  - unfold k_recv in Er. destruct (q (get_chan k c)) eqn:Eq; [|discriminate].
    destruct (refs k (RS c) =? 0) eqn:E0; [discriminate|]. cbn [map app]. auto.
  - unfold k_recv in Er. destruct (q (get_chan k c)) eqn:Eq; [|discriminate].
    destruct (refs k (RS c) =? 0) eqn:E0; [|discriminate]. cbn [map proj_ev app]. auto.
Qed.
Print Assumptions drain_events.

(* members keep their index (= the id `add` returned) for ever: serving the set never renumbers, adds never reuse *)
Lemma select_all_length : forall ms k hs n i,
  match select_all k hs n i ms with (_, _, _, _, ms2, _) => length ms2 = length ms end.
Proof.
  induction ms as [|[c|] r IH]; intros k hs n i; cbn [select_all]; auto.
  - destruct (drain (S (length (q (get_chan k c)))) k hs n i c) as [[[[[k1 hs1] n1] ev1] closed] l1].
    specialize (IH k1 hs1 n1 (S i)). destruct (select_all k1 hs1 n1 (S i) r) as [[[[[k2 hs2] n2] evs] ms2] l2].
    cbn [length]. auto.
  - specialize (IH k hs n (S i)). destruct (select_all k hs n (S i) r) as [[[[[k2 hs2] n2] evs] ms2] later].
    cbn [length]. auto.
Qed.

Theorem add_returns_fresh_index : forall s sh rh ms c,
  lookup (ah s) sh = Some (OSet ms) -> lookup (ah s) rh = Some (OR c) ->
  snd (a_step s (ASetAdd sh rh)) = QAdded (length ms).
Proof. intros s sh rh ms c H1 H2. cbn [a_step]. rewrite H1, H2. reflexivity. Qed.

(* ---- one-shot server (C08 at the level of the public API) ---- *)
Theorem accept_returns_first : forall s sh c m rest k', a_inv s ->
  lookup (ah s) sh = Some (OSrv c true) -> k_recv (ak s) c = KMsg m k' -> undecodable m = false ->
  q (get_chan (ak s) c) = m :: rest ->
  exists hs, snd (a_step s (AAccept sh)) = QAccepted (anext s) (m_data m) hs /\ map fst hs = map akind_of (m_rights m) /\
             lookup (ah (fst (a_step s (AAccept sh)))) (anext s) = Some (OR c).
Proof.
  intros s sh c m rest k' [_ [Hnd Hlt]] Hl Hr Hu Hq. cbn [a_step]. rewrite Hl, Hr, Hu.
  pose proof (a_install_kinds (m_rights m) (update (ah s) sh OGone ++ [(anext s, OR c)]) (S (anext s))) as Hk.
  pose proof (a_install_shape (m_rights m) (update (ah s) sh OGone ++ [(anext s, OR c)]) (S (anext s))) as Hs.
  destruct (a_install (update (ah s) sh OGone ++ [(anext s, OR c)]) (S (anext s)) (m_rights m)) as [[hs' n'] out].
  cbn [snd fst] in *. exists out. split; [reflexivity|]. split; [exact Hk|].
  injection Hs as -> _ _. cbn [ah].
  rewrite !lookup_app.
  assert (E : lookup (update (ah s) sh OGone) (anext s) = None).
  { apply lookup_not_in. rewrite map_fst_update. intros Hin. apply Forall_fst_map in Hlt.
    rewrite Forall_forall in Hlt. specialize (Hlt _ Hin). lia. }
  rewrite E. cbn [lookup]. now rewrite Nat.eqb_refl.
Qed.
Print Assumptions accept_returns_first.

Lemma lookup_update_same {B} : forall (l : list (hid * B)) h v w, lookup l h = Some w -> lookup (update l h v) h = Some v.
Proof.
  induction l as [|[x w0] t IH]; intros h v w H; cbn [lookup update] in *; [discriminate|].
  destruct (Nat.eqb x h) eqn:E; cbn [lookup]; rewrite E; eauto.
Qed.

(* a client that connected and went away without sending (no reference to the sending end is left anywhere, nothing is queued):
   accept neither blocks nor panics - it reports 'disconnected', the server is consumed and nothing of it stays behind *)
Theorem accept_of_a_departed_client : forall s sh c, a_inv s ->
  lookup (ah s) sh = Some (OSrv c true) -> q (get_chan (ak s) c) = [] -> refs (ak s) (RS c) = 0 ->
  snd (a_step s (AAccept sh)) = QDisconnected /\
  lookup (ah (fst (a_step s (AAccept sh)))) sh = Some OGone /\
  ak (fst (a_step s (AAccept sh))) = k_close (ak s) (RR c) /\
  a_inv (fst (a_step s (AAccept sh))).
Proof.
  intros s sh c I Hl Hq Hr. pose proof (a_inv_step s (AAccept sh) I) as I'.
  assert (E : k_recv (ak s) c = KClosed) by (unfold k_recv; rewrite Hq, Hr; reflexivity).
  cbn [a_step] in *. rewrite Hl, E in *. cbn [fst snd ak ah] in *.
  split; [reflexivity|]. split; [eapply lookup_update_same; eauto|]. split; [reflexivity|exact I'].
Qed.
Print Assumptions accept_of_a_departed_client.
