(* RefineProofs (C03 / C19): the unix back end gives exactly the answers of the ideal channel model.
   A simulation relation R between Unix states and Ideal states is established initially and preserved by
   every operation, with equal outcomes. *)
From Coq Require Import List Arith Lia Bool ZArith.
From IPC Require Import K KProofs Prog Ideal Unix.
Import ListNotations.

(* ------------------------------------------------------------------------------------------ *)
(* association tables: lookup / update / weighted totals                                        *)
(* ------------------------------------------------------------------------------------------ *)
Section Tab.
Context {B : Type}.
Implicit Types (l : list (nat * B)) (h : nat) (v : B).

Lemma lookup_app : forall l l' h,
  lookup (l ++ l') h = match lookup l h with Some v => Some v | None => lookup l' h end.
Proof.
  induction l as [|[x w] t IH]; intros l' h; cbn [lookup app]; auto.
  destruct (Nat.eqb x h); auto.
Qed.

Lemma lookup_In : forall l h v, lookup l h = Some v -> In (h, v) l.
Proof.
  induction l as [|[x w] t IH]; intros h v H; cbn [lookup] in H; [discriminate|].
  destruct (Nat.eqb_spec x h) as [->|Hne].
  - injection H as ->. now left.
  - right. auto.
Qed.

Lemma lookup_none : forall l h, lookup l h = None -> forall v, ~ In (h, v) l.
Proof.
  induction l as [|[x w] t IH]; intros h H v Hin; cbn [lookup] in H; [contradiction|].
  destruct (Nat.eqb_spec x h) as [->|Hne]; [discriminate|].
  destruct Hin as [E|Hin]; [injection E as -> _; congruence|]. eapply IH; eauto.
Qed.

Lemma notin_lookup : forall l h, (forall v, ~ In (h, v) l) -> lookup l h = None.
Proof.
  intros l h H. destruct (lookup l h) as [v|] eqn:E; auto.
  exfalso. apply (H v). now apply lookup_In.
Qed.

Lemma In_lookup_nd : forall l h v, NoDup (map fst l) -> In (h, v) l -> lookup l h = Some v.
Proof.
  induction l as [|[x w] t IH]; intros h v Hnd Hin; [contradiction|].
  cbn [map fst] in Hnd. inversion Hnd as [|? ? Hx Hnd']; subst.
  cbn [lookup]. destruct Hin as [E|Hin].
  - injection E as -> ->. now rewrite Nat.eqb_refl.
  - destruct (Nat.eqb_spec x h) as [->|Hne]; auto.
    exfalso. apply Hx. change h with (fst (h, v)). now apply in_map.
Qed.

Lemma map_fst_update : forall l h v, map fst (update l h v) = map fst l.
Proof.
  induction l as [|[x w] t IH]; intros h v; cbn [update map]; auto.
  destruct (Nat.eqb x h); cbn [map fst]; auto. now rewrite IH.
Qed.

Lemma lookup_update_eq : forall l h v w, lookup l h = Some w -> lookup (update l h v) h = Some v.
Proof.
  induction l as [|[x w0] t IH]; intros h v w H; cbn [lookup update] in *; [discriminate|].
  destruct (Nat.eqb x h) eqn:E; cbn [lookup]; rewrite E; eauto.
Qed.

Lemma lookup_update_neq : forall l h h' v, h' <> h -> lookup (update l h v) h' = lookup l h'.
Proof.
  induction l as [|[x w0] t IH]; intros h h' v Hne; cbn [lookup update]; auto.
  destruct (Nat.eqb_spec x h) as [->|Hx]; cbn [lookup].
  - destruct (Nat.eqb_spec h h'); [congruence|auto].
  - destruct (Nat.eqb x h'); auto.
Qed.

Lemma In_update : forall l h v x w, In (x, w) (update l h v) -> In (x, w) l \/ (x = h /\ w = v).
Proof.
  induction l as [|[y w0] t IH]; intros h v x w H; cbn [update] in H; [contradiction|].
  destruct (Nat.eqb_spec y h) as [->|Hy].
  - destruct H as [E|H]; [injection E as <- <-; auto|]. left. now right.
  - destruct H as [E|H]; [left; now left|]. apply IH in H. destruct H; auto. left. now right.
Qed.

Fixpoint tot (w : B -> nat) (l : list (nat * B)) : nat :=
  match l with [] => 0 | (_, v) :: t => w v + tot w t end.

Lemma tot_app : forall w l l', tot w (l ++ l') = tot w l + tot w l'.
Proof. induction l as [|[x v] t IH]; intros l'; cbn [tot app]; auto. rewrite IH. lia. Qed.

Lemma tot_update : forall w l h v v', lookup l h = Some v ->
  tot w (update l h v') + w v = tot w l + w v'.
Proof.
  induction l as [|[x v0] t IH]; intros h v v' H; cbn [lookup update] in *; [discriminate|].
  destruct (Nat.eqb x h); cbn [tot].
  - injection H as ->. lia.
  - specialize (IH _ _ v' H). lia.
Qed.

Lemma tot_In : forall w l x v, In (x, v) l -> w v <= tot w l.
Proof.
  induction l as [|[y v0] t IH]; intros x v H; [contradiction|]. cbn [tot].
  destruct H as [E|H].
  - injection E as E1 E2. subst. lia.
  - specialize (IH _ _ H). lia.
Qed.

Lemma tot_pos : forall w l, 1 <= tot w l -> exists x v, In (x, v) l /\ 1 <= w v.
Proof.
  induction l as [|[y v0] t IH]; cbn [tot]; intros H; [lia|].
  destruct (w v0) eqn:E.
  - destruct IH as (x & v & Hin & Hw); [lia|]. exists x, v. split; auto. now right.
  - exists y, v0. split; [now left|lia].
Qed.

Lemma NoDup_fst_snoc : forall l n v, NoDup (map fst l) -> (forall x w, In (x, w) l -> x < n) ->
  NoDup (map fst (l ++ [(n, v)])).
Proof.
  induction l as [|[y v0] t IH]; intros n v Hnd Hlt; cbn [app map fst].
  - constructor; [intros []|constructor].
  - cbn [map fst] in Hnd. inversion Hnd as [|? ? Hy Hnd']; subst. constructor.
    + rewrite map_app, in_app_iff. cbn [map fst In]. intros [H|[H|[]]]; [auto|].
      specialize (Hlt y v0 (or_introl eq_refl)). lia.
    + apply IH; auto. intros x w H. apply (Hlt x w). now right.
Qed.

Lemma In_snoc_lt : forall l n v m, (forall x w, In (x, w) l -> x < n) -> n < m ->
  forall x w, In (x, w) (l ++ [(n, v)]) -> x < m.
Proof.
  intros l n v m H Hm x w Hin. apply in_app_iff in Hin. destruct Hin as [Hin|[E|[]]].
  - specialize (H _ _ Hin). lia.
  - injection E as <- _. lia.
Qed.
End Tab.

(* ------------------------------------------------------------------------------------------ *)
(* descriptor table and reference lists                                                         *)
(* ------------------------------------------------------------------------------------------ *)
Ltac nlia := unfold fd, aid, hid in *; lia.
Lemma lookup_remove_fd_neq : forall t f f', f' <> f -> lookup (remove_fd f t) f' = lookup t f'.
Proof.
  induction t as [|[x r] t IH]; intros f f' Hne; cbn [remove_fd lookup]; auto.
  destruct (Nat.eqb_spec x f) as [->|Hx].
  - destruct (Nat.eqb_spec f f'); [congruence|auto].
  - cbn [lookup]. destruct (Nat.eqb x f'); auto.
Qed.

Lemma In_remove_fd : forall t f e, In e (remove_fd f t) -> In e t.
Proof.
  induction t as [|[x r] t IH]; intros f e H; cbn [remove_fd] in H; auto.
  destruct (Nat.eqb x f); [now right|]. destruct H as [H|H]; [now left|right; eauto].
Qed.

Lemma NoDup_remove_fd : forall t f, NoDup (map fst t) -> NoDup (map fst (remove_fd f t)).
Proof.
  induction t as [|[x r] t IH]; intros f H; cbn [remove_fd map fst] in *; auto.
  inversion H as [|? ? Hx Hnd]; subst. destruct (Nat.eqb x f); auto.
  cbn [map fst]. constructor; auto. intros Hin. apply Hx.
  apply in_map_iff in Hin. destruct Hin as ([y s] & E & Hin). cbn [fst] in E. subst y.
  apply In_remove_fd in Hin. change x with (fst (x, s)). now apply in_map.
Qed.

Lemma lookup_remove_fd_eq : forall t f, NoDup (map fst t) -> lookup (remove_fd f t) f = None.
Proof.
  induction t as [|[x r] t IH]; intros f H; cbn [remove_fd map fst] in *; auto.
  inversion H as [|? ? Hx Hnd]; subst. destruct (Nat.eqb_spec x f) as [->|Hne].
  - apply notin_lookup. intros v Hin. apply Hx. change f with (fst (f, v)). now apply in_map.
  - cbn [lookup]. destruct (Nat.eqb_spec x f); [congruence|auto].
Qed.

Definition ind (r r' : ref) : nat := if ref_dec r r' then 1 else 0.

Lemma count_remove_fd : forall t f r r', lookup t f = Some r ->
  count_occ ref_dec (map snd (remove_fd f t)) r' + ind r r' = count_occ ref_dec (map snd t) r'.
Proof.
  unfold ind. induction t as [|[x s] t IH]; intros f r r' H; cbn [lookup remove_fd] in *; [discriminate|].
  destruct (Nat.eqb x f).
  - injection H as ->. cbn [map snd count_occ]. destruct (ref_dec r r'); nlia.
  - cbn [map snd count_occ]. specialize (IH _ _ r' H). destruct (ref_dec s r'); nlia.
Qed.

Lemma count_remove_one_neq : forall r l r', r <> r' ->
  count_occ ref_dec (remove_one r l) r' = count_occ ref_dec l r'.
Proof.
  induction l as [|x t IH]; intros r' Hne; cbn [remove_one count_occ]; auto.
  destruct (ref_dec r x) as [<-|Hx].
  - destruct (ref_dec r r'); [congruence|auto].
  - cbn [count_occ]. rewrite IH by auto. reflexivity.
Qed.

Lemma count_remove_one_eq : forall r l, 1 <= count_occ ref_dec l r ->
  S (count_occ ref_dec (remove_one r l) r) = count_occ ref_dec l r.
Proof.
  induction l as [|x t IH]; cbn [remove_one count_occ]; intros H; [lia|].
  destruct (ref_dec r x) as [<-|Hx].
  - destruct (ref_dec r r); [auto|congruence].
  - cbn [count_occ]. destruct (ref_dec x r); [congruence|]. auto.
Qed.

Lemma count_remove_one : forall r l r', 1 <= count_occ ref_dec l r ->
  count_occ ref_dec (remove_one r l) r' + ind r r' = count_occ ref_dec l r'.
Proof.
  intros r l r' H. unfold ind. destruct (ref_dec r r') as [<-|Hne].
  - pose proof (count_remove_one_eq r l H). lia.
  - rewrite count_remove_one_neq by auto. lia.
Qed.

Lemma lookup_count : forall (t : list (fd * ref)) f r, lookup t f = Some r -> 1 <= count_occ ref_dec (map snd t) r.
Proof.
  intros t f r H. apply lookup_In in H. apply (in_map snd) in H. cbn [snd] in H.
  apply (count_occ_In ref_dec) in H. nlia.
Qed.

Lemma count_lookup : forall (t : list (fd * ref)) r, NoDup (map fst t) -> 1 <= count_occ ref_dec (map snd t) r ->
  exists f, lookup t f = Some r.
Proof.
  intros t r Hnd H. assert (Hin : In r (map snd t)) by (apply (count_occ_In ref_dec); lia).
  apply in_map_iff in Hin. destruct Hin as ([f s] & E & Hin). cbn [snd] in E. subst s.
  exists f. now apply In_lookup_nd.
Qed.

(* ------------------------------------------------------------------------------------------ *)
(* weights: how many handles / arcs / pending owners refer to an arc or a descriptor             *)
(* ------------------------------------------------------------------------------------------ *)
Definition wUS (a : nat) (o : uobj) : nat := match o with US a' => if Nat.eqb a' a then 1 else 0 | _ => 0 end.
Definition wRX (f : nat) (o : uobj) : nat := match o with UR (Some f') => if Nat.eqb f' f then 1 else 0 | _ => 0 end.
Definition wAF (f : nat) (e : fd * nat) : nat := match e with (f', S _) => if Nat.eqb f' f then 1 else 0 | _ => 0 end.
Definition wIS (c : nat) (o : iobj) : nat := match o with IS c' => if Nat.eqb c' c then 1 else 0 | _ => 0 end.

Fixpoint cntA (a : nat) (os : list owned) : nat :=
  match os with [] => 0 | OwnArc a' :: t => (if Nat.eqb a' a then 1 else 0) + cntA a t | OwnFd _ :: t => cntA a t end.
Fixpoint cntF (f : nat) (os : list owned) : nat :=
  match os with [] => 0 | OwnFd f' :: t => (if Nat.eqb f' f then 1 else 0) + cntF f t | OwnArc _ :: t => cntF f t end.

Lemma cntA_app : forall a l l', cntA a (l ++ l') = cntA a l + cntA a l'.
Proof. induction l as [|[b|g] t IH]; intros l'; cbn [cntA app]; auto. rewrite IH. lia. Qed.
Lemma cntF_app : forall f l l', cntF f (l ++ l') = cntF f l + cntF f l'.
Proof. induction l as [|[b|g] t IH]; intros l'; cbn [cntF app]; auto. rewrite IH. lia. Qed.

Lemma wUS_self : forall a, wUS a (US a) = 1.
Proof. intros a. cbn [wUS]. now rewrite Nat.eqb_refl. Qed.
Lemma wRX_self : forall f, wRX f (UR (Some f)) = 1.
Proof. intros f. cbn [wRX]. now rewrite Nat.eqb_refl. Qed.
Lemma wAF_self : forall f n, wAF f (f, S n) = 1.
Proof. intros f n. cbn [wAF]. now rewrite Nat.eqb_refl. Qed.
Lemma wIS_self : forall c, wIS c (IS c) = 1.
Proof. intros c. cbn [wIS]. now rewrite Nat.eqb_refl. Qed.

Lemma tot_US_handle : forall a us, 1 <= tot (wUS a) us -> exists x, In (x, US a) us.
Proof.
  intros a us H. apply tot_pos in H. destruct H as (x & v & Hin & Hw). exists x.
  destruct v as [a'|o|]; cbn [wUS] in Hw; try lia.
  destruct (Nat.eqb_spec a' a); [subst; auto|lia].
Qed.

Lemma tot_RX_handle : forall f us, 1 <= tot (wRX f) us -> exists x, In (x, UR (Some f)) us.
Proof.
  intros f us H. apply tot_pos in H. destruct H as (x & v & Hin & Hw). exists x.
  destruct v as [a'|[g|]|]; cbn [wRX] in Hw; try lia.
  destruct (Nat.eqb_spec g f); [subst; auto|lia].
Qed.

Lemma tot_AF_arc : forall f (A : list (aid * (fd * nat))), 1 <= tot (wAF f) A -> exists a n, In (a, (f, S n)) A.
Proof.
  intros f A H. apply tot_pos in H. destruct H as (a & [g [|n]] & Hin & Hw); cbn [wAF] in Hw; try lia.
  exists a, n. destruct (Nat.eqb_spec g f); [subst; auto|lia].
Qed.

Lemma tot_IS_handle : forall c js, 1 <= tot (wIS c) js -> exists x, In (x, IS c) js.
Proof.
  intros c js H. apply tot_pos in H. destruct H as (x & v & Hin & Hw). exists x.
  destruct v as [c'|c'|]; cbn [wIS] in Hw; try lia.
  destruct (Nat.eqb_spec c' c); [subst; auto|lia].
Qed.

Lemma handle_tot_US : forall a us x, In (x, US a) us -> 1 <= tot (wUS a) us.
Proof. intros a us x H. apply (tot_In (wUS a)) in H. now rewrite wUS_self in H. Qed.
Lemma handle_tot_RX : forall f us x, In (x, UR (Some f)) us -> 1 <= tot (wRX f) us.
Proof. intros f us x H. apply (tot_In (wRX f)) in H. now rewrite wRX_self in H. Qed.
Lemma arc_tot_AF : forall f (A : list (aid * (fd * nat))) a n, In (a, (f, S n)) A -> 1 <= tot (wAF f) A.
Proof. intros f A a n H. apply (tot_In (wAF f)) in H. now rewrite wAF_self in H. Qed.
Lemma handle_tot_IS : forall c js x, In (x, IS c) js -> 1 <= tot (wIS c) js.
Proof. intros c js x H. apply (tot_In (wIS c)) in H. now rewrite wIS_self in H. Qed.

(* ------------------------------------------------------------------------------------------ *)
(* correspondence of handle tables                                                              *)
(* ------------------------------------------------------------------------------------------ *)
Definition obj_rel (A : list (aid * (fd * nat))) (T : list (fd * ref)) (uo : uobj) (io : iobj) : Prop :=
  match uo, io with
  | US a, IS c => exists f n, lookup A a = Some (f, S n) /\ lookup T f = Some (RS c)
  | UR (Some f), IR c => lookup T f = Some (RR c)
  | UR None, IGone => True
  | UGone, IGone => True
  | _, _ => False
  end.
Definition hrel A T (p : nat * uobj) (q : nat * iobj) : Prop := fst p = fst q /\ obj_rel A T (snd p) (snd q).

Lemma F2_lookup A T : forall us js, Forall2 (hrel A T) us js -> forall h,
  match lookup us h, lookup js h with
  | Some uo, Some io => obj_rel A T uo io
  | None, None => True
  | _, _ => False
  end.
Proof.
  induction 1 as [|[x uo] [y io] us js [Hf Ho] HF IH]; intros h; cbn [lookup]; auto.
  cbn [fst snd] in *. subst y. destruct (Nat.eqb x h); [exact Ho|apply IH].
Qed.

Lemma F2_update A T : forall us js, Forall2 (hrel A T) us js -> forall h uo io, obj_rel A T uo io ->
  Forall2 (hrel A T) (update us h uo) (update js h io).
Proof.
  induction 1 as [|[x uo0] [y io0] us js [Hf Ho] HF IH]; intros h uo io Hr; cbn [update]; auto.
  cbn [fst snd] in *. subst y. destruct (Nat.eqb x h); constructor; auto; split; auto.
Qed.

Lemma F2_mono A T A' T' : forall us js, Forall2 (hrel A T) us js ->
  (forall x uo io, In (x, uo) us -> obj_rel A T uo io -> obj_rel A' T' uo io) ->
  Forall2 (hrel A' T') us js.
Proof.
  induction 1 as [|[x uo] [y io] us js [Hf Ho] HF IH]; intros Hm; constructor.
  - split; auto. cbn [snd] in *. apply (Hm x); auto. now left.
  - apply IH. intros x0 uo0 io0 Hin. apply (Hm x0). now right.
Qed.

Lemma F2_In A T : forall us js, Forall2 (hrel A T) us js -> forall x uo, In (x, uo) us ->
  exists io, In (x, io) js /\ obj_rel A T uo io.
Proof.
  induction 1 as [|[x0 uo0] [y io0] us js [Hf Ho] HF IH]; intros x uo Hin; [contradiction|].
  cbn [fst snd] in *. subst y. destruct Hin as [E|Hin].
  - injection E as -> ->. exists io0. split; auto. now left.
  - destruct (IH _ _ Hin) as (io & Hi & Hr). exists io. split; auto. now right.
Qed.

Lemma F2_In_r A T : forall us js, Forall2 (hrel A T) us js -> forall x io, In (x, io) js ->
  exists uo, In (x, uo) us /\ obj_rel A T uo io.
Proof.
  induction 1 as [|[x0 uo0] [y io0] us js [Hf Ho] HF IH]; intros x io Hin; [contradiction|].
  cbn [fst snd] in *. subst y. destruct Hin as [E|Hin].
  - injection E as -> ->. exists uo0. split; auto. now left.
  - destruct (IH _ _ Hin) as (uo & Hi & Hr). exists uo. split; auto. now right.
Qed.

(* ------------------------------------------------------------------------------------------ *)
(* the simulation relation, generalised by the owners pending in a `channels` vector            *)
(* ------------------------------------------------------------------------------------------ *)
Record Rg (os : list owned) (u : ust) (i : ist) : Prop := {
  r_chans : uchans u = chans (ik i);
  r_next : unext u = inext i;
  r_h : Forall2 (hrel (arcs u) (fdt u)) (uh u) (ih i);
  r_rr : forall c, count_occ ref_dec (map snd (fdt u)) (RR c) = count_occ ref_dec (held (ik i)) (RR c);
  r_rs : forall c, count_occ ref_dec (held (ik i)) (RS c) = tot (wIS c) (ih i);
  r_fd_nd : NoDup (map fst (fdt u));
  r_fd_lt : forall f r, In (f, r) (fdt u) -> f < nextfd u;
  r_arc_nd : NoDup (map fst (arcs u));
  r_arc_lt : forall a v, In (a, v) (arcs u) -> a < anext u;
  r_cnt : forall a f n, lookup (arcs u) a = Some (f, n) -> n = tot (wUS a) (uh u) + cntA a os;
  r_dis : forall f, tot (wAF f) (arcs u) + tot (wRX f) (uh u) + cntF f os <= 1;
  r_stray : forall f c, lookup (fdt u) f = Some (RS c) -> 1 <= tot (wAF f) (arcs u);
  r_ownA : forall a, 1 <= cntA a os -> 1 <= tot (wUS a) (uh u)
}.

Definition R0 (u : ust) (i : ist) : Prop := Rg [] u i.

Lemma Rg_ext os u i u' i' : Rg os u i ->
  uchans u' = chans (ik i') -> fdt u' = fdt u -> nextfd u' = nextfd u -> arcs u' = arcs u -> anext u' = anext u ->
  uh u' = uh u -> unext u' = unext u -> ih i' = ih i -> inext i' = inext i ->
  (forall c, count_occ ref_dec (held (ik i')) (RR c) = count_occ ref_dec (held (ik i)) (RR c)) ->
  (forall c, count_occ ref_dec (held (ik i')) (RS c) = count_occ ref_dec (held (ik i)) (RS c)) ->
  Rg os u' i'.
Proof.
  intros [] Hc Hf Hn Ha Han Hu Hun Hi Hin Hrr Hrs.
  constructor; rewrite ?Hf, ?Hn, ?Ha, ?Han, ?Hu, ?Hun, ?Hi, ?Hin; auto.
  - intros c. rewrite Hrr. auto.
  - intros c. rewrite Hrs. auto.
Qed.

Lemma arc_handle os u i a f n : Rg os u i -> lookup (arcs u) a = Some (f, S n) -> 1 <= tot (wUS a) (uh u).
Proof.
  intros H Hl. pose proof (r_cnt _ _ _ H _ _ _ Hl) as Hc.
  destruct (cntA a os) eqn:E; [lia|]. apply (r_ownA _ _ _ H). lia.
Qed.

Lemma arc_open os u i a f n : Rg os u i -> lookup (arcs u) a = Some (f, S n) ->
  exists c, lookup (fdt u) f = Some (RS c).
Proof.
  intros H Hl. pose proof (arc_handle _ _ _ _ _ _ H Hl) as Ht.
  apply tot_US_handle in Ht. destruct Ht as (x & Hin).
  destruct (F2_In _ _ _ _ (r_h _ _ _ H) _ _ Hin) as (io & _ & Hr).
  destruct io as [c|c|]; cbn [obj_rel] in Hr; try contradiction.
  destruct Hr as (f' & n' & Hl' & Hf). rewrite Hl in Hl'. injection Hl' as <- _. eauto.
Qed.

Lemma fresh_fd os u i g : Rg os u i -> nextfd u <= g ->
  tot (wAF g) (arcs u) = 0 /\ tot (wRX g) (uh u) = 0.
Proof.
  intros H Hg. split.
  - destruct (tot (wAF g) (arcs u)) eqn:E; auto. exfalso.
    assert (Ht : 1 <= tot (wAF g) (arcs u)) by lia.
    apply tot_AF_arc in Ht. destruct Ht as (a & n0 & Hin).
    apply In_lookup_nd in Hin; [|apply (r_arc_nd _ _ _ H)].
    destruct (arc_open _ _ _ _ _ _ H Hin) as (c & Hl). apply lookup_In in Hl.
    apply (r_fd_lt _ _ _ H) in Hl. lia.
  - destruct (tot (wRX g) (uh u)) eqn:E; auto. exfalso.
    assert (Ht : 1 <= tot (wRX g) (uh u)) by lia.
    apply tot_RX_handle in Ht. destruct Ht as (x & Hin).
    destruct (F2_In _ _ _ _ (r_h _ _ _ H) _ _ Hin) as (io & _ & Hr).
    destruct io as [c|c|]; cbn [obj_rel] in Hr; try contradiction.
    apply lookup_In in Hr. apply (r_fd_lt _ _ _ H) in Hr. lia.
Qed.

Lemma fresh_fd_lookup os u i g : Rg os u i -> nextfd u <= g -> lookup (fdt u) g = None.
Proof.
  intros H Hg. apply notin_lookup. intros v Hin. apply (r_fd_lt _ _ _ H) in Hin. lia.
Qed.

Lemma fresh_arc os u i b : Rg os u i -> anext u <= b ->
  lookup (arcs u) b = None /\ tot (wUS b) (uh u) = 0.
Proof.
  intros H Hb.
  assert (Hn : lookup (arcs u) b = None).
  { apply notin_lookup. intros v Hin. apply (r_arc_lt _ _ _ H) in Hin. lia. }
  split; auto.
  destruct (tot (wUS b) (uh u)) eqn:E; auto. exfalso.
  assert (Ht : 1 <= tot (wUS b) (uh u)) by lia.
  apply tot_US_handle in Ht. destruct Ht as (x & Hin).
  destruct (F2_In _ _ _ _ (r_h _ _ _ H) _ _ Hin) as (io & _ & Hr).
  destruct io as [c|c|]; cbn [obj_rel] in Hr; try contradiction.
  destruct Hr as (f' & n' & Hl' & _). congruence.
Qed.

(* ------------------------------------------------------------------------------------------ *)
(* the ideal kernel state stays stable (gc has nothing to do except right after a close)        *)
(* ------------------------------------------------------------------------------------------ *)
Lemma stable_held : forall k k', chans k' = chans k ->
  (forall c, count_occ ref_dec (held k) (RR c) <= count_occ ref_dec (held k') (RR c)) ->
  k_stable k -> k_stable k'.
Proof.
  intros k k' Hc Hh St c ch Hn Hd. rewrite Hc in Hn. pose proof (St c ch Hn Hd) as Hs.
  unfold refs, inflight in *. rewrite Hc. specialize (Hh c). lia.
Qed.

Lemma k_new_stable : forall k, k_stable k ->
  k_stable {| chans := chans k ++ [{| q := []; dead := false |}];
              held := RS (length (chans k)) :: RR (length (chans k)) :: held k |}.
Proof.
  intros k St j ch' Hn Hd. cbn [chans] in Hn.
  unfold refs, inflight. cbn [chans held]. rewrite flat_map_app, count_occ_app.
  cbn [flat_map live_rights dead q app count_occ].
  destruct (ref_dec (RS (length (chans k))) (RR j)) as [E|_]; [discriminate|].
  destruct (Nat.lt_ge_cases j (length (chans k))) as [Hlt|Hge].
  - rewrite nth_error_app1 in Hn by auto. pose proof (St j ch' Hn Hd) as Hs.
    unfold refs, inflight in Hs. destruct (ref_dec (RR (length (chans k))) (RR j)); lia.
  - rewrite nth_error_app2 in Hn by auto.
    destruct (j - length (chans k)) as [|d] eqn:E; [|destruct d; discriminate].
    destruct (ref_dec (RR (length (chans k))) (RR j)) as [_|Hne]; [lia|].
    exfalso. apply Hne. f_equal. lia.
Qed.

Lemma refs_send : forall k c m k' r, k_send k c m = Some k' ->
  refs k' r = refs k r + count_occ ref_dec (m_rights m) r.
Proof.
  intros k c m k' r H. apply k_send_some in H. destruct H as (ch & Hn & Hd & ->).
  pose proof (refs_set_nth k c ch {| q := q ch ++ [m]; dead := false |} (held k) r Hn) as He.
  unfold live_rights in He. cbn [dead q] in He. rewrite Hd in He.
  rewrite flat_map_app, count_occ_app in He. cbn [flat_map] in He. rewrite app_nil_r in He.
  unfold refs at 2. lia.
Qed.

Lemma k_send_stable : forall k c m k', k_send k c m = Some k' -> k_stable k -> k_stable k'.
Proof.
  intros k c m k' H St j ch' Hn Hd. rewrite (refs_send _ _ _ _ (RR j) H).
  apply k_send_some in H. destruct H as (ch & Hc & Hdc & ->). cbn [chans] in Hn.
  destruct (Nat.eq_dec c j) as [<-|Hne].
  - pose proof (St c ch Hc Hdc). lia.
  - rewrite nth_error_set_nth_neq in Hn by auto. pose proof (St j ch' Hn Hd). lia.
Qed.

Lemma k_recv_stable : forall k c m k', k_recv k c = KMsg m k' -> k_stable k -> k_stable k'.
Proof.
  intros k c m k' H St j ch' Hn Hd. apply k_recv_msg in H.
  destruct H as (ch & rest & Hc & Hq & ->). cbn [chans] in Hn.
  assert (Hle : refs k (RR j) <=
    refs {| chans := set_nth (chans k) c {| q := rest; dead := dead ch |}; held := m_rights m ++ held k |} (RR j)).
  { pose proof (refs_set_nth k c ch {| q := rest; dead := dead ch |} (m_rights m ++ held k) (RR j) Hc) as He.
    unfold live_rights in He. cbn [dead q] in He. rewrite Hq in He.
    rewrite count_occ_app in He. unfold refs at 1.
    destruct (dead ch); cbn [flat_map count_occ] in He; rewrite ?count_occ_app in He; lia. }
  destruct (Nat.eq_dec c j) as [<-|Hne].
  - rewrite nth_error_set_nth_eq in Hn by (eapply nth_error_lt; eauto).
    injection Hn as <-. cbn [dead] in Hd. pose proof (St c ch Hc Hd). lia.
  - rewrite nth_error_set_nth_neq in Hn by auto. pose proof (St j ch' Hn Hd). lia.
Qed.

Lemma close_moved_stable : forall rs k, k_stable k -> k_stable (close_moved k rs).
Proof.
  induction rs as [|[c|c|o] t IH]; intros k St; cbn [close_moved]; auto.
  apply IH. unfold k_close. apply gc_stable.
Qed.

Lemma get_chan_ext : forall k k' c, chans k = chans k' -> get_chan k c = get_chan k' c.
Proof. intros k k' c H. unfold get_chan. now rewrite H. Qed.

(* ------------------------------------------------------------------------------------------ *)
(* installing a fresh sender / receiver endpoint (socketpair, received rights)                   *)
(* ------------------------------------------------------------------------------------------ *)
Ltac prj := cbn [uchans fdt nextfd arcs anext uh unext utrace ik ih inext chans held].
Ltac prj_in H := cbn [uchans fdt nextfd arcs anext uh unext utrace ik ih inext chans held] in H.

Lemma add_tx u i c tr : R0 u i ->
  R0 {| uchans := uchans u; fdt := fdt u ++ [(nextfd u, RS c)]; nextfd := S (nextfd u);
       arcs := arcs u ++ [(anext u, (nextfd u, 1))]; anext := S (anext u);
       uh := uh u ++ [(unext u, US (anext u))]; unext := S (unext u); utrace := tr |}
    {| ik := {| chans := chans (ik i); held := RS c :: held (ik i) |};
       ih := ih i ++ [(inext i, IS c)]; inext := S (inext i) |}.
Proof.
  intros H.
  destruct (fresh_fd _ _ _ (nextfd u) H (le_n _)) as [Faf Frx].
  pose proof (fresh_fd_lookup _ _ _ (nextfd u) H (le_n _)) as Ffd.
  destruct (fresh_arc _ _ _ (anext u) H (le_n _)) as [Fa Fus].
  constructor; prj.
  - apply (r_chans _ _ _ H).
  - f_equal. apply (r_next _ _ _ H).
  - apply Forall2_app.
    + eapply F2_mono; [apply (r_h _ _ _ H)|]. intros x uo io Hin Hr.
      destruct uo as [a|[f|]|], io as [c'|c'|]; cbn [obj_rel] in *; auto.
      * destruct Hr as (f & n & Hl & Hf). exists f, n. rewrite !lookup_app, Hl, Hf. auto.
      * rewrite lookup_app, Hr. auto.
    + constructor; [|constructor]. split; cbn [fst snd]; [apply (r_next _ _ _ H)|].
      cbn [obj_rel]. exists (nextfd u), 0. rewrite !lookup_app, Fa, Ffd. cbn [lookup].
      rewrite !Nat.eqb_refl. auto.
  - intros c'. rewrite map_app, count_occ_app. cbn [map snd count_occ].
    destruct (ref_dec (RS c) (RR c')); [discriminate|]. rewrite <- (r_rr _ _ _ H). nlia.
  - intros c'. cbn [count_occ]. rewrite tot_app. cbn [tot wIS]. rewrite <- (r_rs _ _ _ H).
    destruct (Nat.eqb_spec c c') as [E0|Hne]; destruct (ref_dec (RS c) (RS c')) as [E|E]; try lia; exfalso; congruence.
  - apply NoDup_fst_snoc; [apply (r_fd_nd _ _ _ H)|apply (r_fd_lt _ _ _ H)].
  - eapply In_snoc_lt; [apply (r_fd_lt _ _ _ H)|lia].
  - apply NoDup_fst_snoc; [apply (r_arc_nd _ _ _ H)|apply (r_arc_lt _ _ _ H)].
  - eapply In_snoc_lt; [apply (r_arc_lt _ _ _ H)|lia].
  - intros a f n Hl. cbn [cntA]. rewrite lookup_app in Hl. rewrite tot_app. cbn [tot wUS].
    destruct (lookup (arcs u) a) as [v|] eqn:E.
    + injection Hl as ->. pose proof (r_cnt _ _ _ H _ _ _ E) as Hc. cbn [cntA] in Hc.
      assert (a < anext u) by (apply lookup_In in E; apply (r_arc_lt _ _ _ H) in E; auto).
      destruct (Nat.eqb_spec (anext u) a); lia.
    + cbn [lookup] in Hl. destruct (Nat.eqb_spec (anext u) a) as [<-|]; [|discriminate].
      injection Hl as <- <-. rewrite Fus. lia.
  - intros f. cbn [cntF]. rewrite !tot_app. cbn [tot wAF wUS wRX].
    pose proof (r_dis _ _ _ H f) as Hd. cbn [cntF] in Hd.
    destruct (Nat.eqb_spec (nextfd u) f) as [<-|]; lia.
  - intros f c' Hl. rewrite lookup_app in Hl. rewrite tot_app.
    destruct (lookup (fdt u) f) eqn:E.
    + injection Hl as ->. pose proof (r_stray _ _ _ H _ _ E). lia.
    + cbn [lookup] in Hl. destruct (Nat.eqb_spec (nextfd u) f) as [<-|]; [|discriminate].
      cbn [tot]. rewrite wAF_self. lia.
  - cbn [cntA]. intros; lia.
Qed.

Lemma add_rx u i c tr : R0 u i ->
  R0 {| uchans := uchans u; fdt := fdt u ++ [(nextfd u, RR c)]; nextfd := S (nextfd u);
       arcs := arcs u; anext := anext u;
       uh := uh u ++ [(unext u, UR (Some (nextfd u)))]; unext := S (unext u); utrace := tr |}
    {| ik := {| chans := chans (ik i); held := RR c :: held (ik i) |};
       ih := ih i ++ [(inext i, IR c)]; inext := S (inext i) |}.
Proof.
  intros H.
  destruct (fresh_fd _ _ _ (nextfd u) H (le_n _)) as [Faf Frx].
  pose proof (fresh_fd_lookup _ _ _ (nextfd u) H (le_n _)) as Ffd.
  constructor; prj.
  - apply (r_chans _ _ _ H).
  - f_equal. apply (r_next _ _ _ H).
  - apply Forall2_app.
    + eapply F2_mono; [apply (r_h _ _ _ H)|]. intros x uo io Hin Hr.
      destruct uo as [a|[f|]|], io as [c'|c'|]; cbn [obj_rel] in *; auto.
      * destruct Hr as (f & n & Hl & Hf). exists f, n. rewrite !lookup_app, Hf. auto.
      * rewrite lookup_app, Hr. auto.
    + constructor; [|constructor]. split; cbn [fst snd]; [apply (r_next _ _ _ H)|].
      cbn [obj_rel]. rewrite !lookup_app, Ffd. cbn [lookup]. rewrite !Nat.eqb_refl. auto.
  - intros c'. rewrite map_app, count_occ_app. cbn [map snd count_occ].
    rewrite <- (r_rr _ _ _ H). destruct (ref_dec (RR c) (RR c')); nlia.
  - intros c'. cbn [count_occ]. rewrite tot_app. cbn [tot wIS]. rewrite <- (r_rs _ _ _ H).
    destruct (ref_dec (RR c) (RS c')); [discriminate|lia].
  - apply NoDup_fst_snoc; [apply (r_fd_nd _ _ _ H)|apply (r_fd_lt _ _ _ H)].
  - eapply In_snoc_lt; [apply (r_fd_lt _ _ _ H)|lia].
  - apply (r_arc_nd _ _ _ H).
  - apply (r_arc_lt _ _ _ H).
  - intros a f n Hl. cbn [cntA]. rewrite tot_app. cbn [tot wUS].
    pose proof (r_cnt _ _ _ H _ _ _ Hl) as Hc. cbn [cntA] in Hc. lia.
  - intros f. cbn [cntF]. rewrite !tot_app. cbn [tot wRX].
    pose proof (r_dis _ _ _ H f) as Hd. cbn [cntF] in Hd.
    destruct (Nat.eqb_spec (nextfd u) f) as [<-|]; lia.
  - intros f c' Hl. rewrite lookup_app in Hl.
    destruct (lookup (fdt u) f) eqn:E.
    + injection Hl as ->. apply (r_stray _ _ _ H _ _ E).
    + cbn [lookup] in Hl. destruct (Nat.eqb (nextfd u) f); discriminate.
  - cbn [cntA]. intros; lia.
Qed.

Lemma R_held u i K : R0 u i -> chans K = chans (ik i) ->
  (forall c, count_occ ref_dec (held K) (RR c) = count_occ ref_dec (held (ik i)) (RR c)) ->
  (forall c, count_occ ref_dec (held K) (RS c) = count_occ ref_dec (held (ik i)) (RS c)) ->
  R0 u {| ik := K; ih := ih i; inext := inext i |}.
Proof.
  intros H Hc Hrr Hrs. eapply (Rg_ext _ _ _ _ _ H); prj; auto.
  rewrite Hc. apply (r_chans _ _ _ H).
Qed.

Lemma install_sim : forall rs u i, R0 u i ->
  snd (u_install u rs) = snd (i_install (ih i) (inext i) rs) /\
  R0 (fst (u_install u rs))
    {| ik := {| chans := chans (ik i); held := rs ++ held (ik i) |};
       ih := fst (fst (i_install (ih i) (inext i) rs)); inext := snd (fst (i_install (ih i) (inext i) rs)) |}.
Proof.
  induction rs as [|[c|c|o] t IH]; intros u i H; cbn [u_install i_install].
  - cbn [fst snd app]. split; auto. apply (R_held u i); prj; auto.
  - pose proof (add_tx u i c (utrace u ++ [CInstall (nextfd u)]) H) as H1.
    specialize (IH _ _ H1). prj_in IH.
    destruct (u_install _ t) as [u2 out].
    destruct (i_install _ _ t) as [[hs' n'] out'].
    cbn [fst snd] in *. destruct IH as [Eo HR]. split.
    + rewrite (r_next _ _ _ H). now rewrite Eo.
    + pose proof (R_held _ _ {| chans := chans (ik i); held := (RS c :: t) ++ held (ik i) |} HR) as HR'.
      prj_in HR'. apply HR'; auto; intros c0; cbn [app count_occ]; rewrite !count_occ_app; cbn [count_occ];
        destruct (ref_dec (RS c) _); lia.
  - pose proof (add_rx u i c (utrace u ++ [CInstall (nextfd u)]) H) as H1.
    specialize (IH _ _ H1). prj_in IH.
    destruct (u_install _ t) as [u2 out].
    destruct (i_install _ _ t) as [[hs' n'] out'].
    cbn [fst snd] in *. destruct IH as [Eo HR]. split.
    + rewrite (r_next _ _ _ H). now rewrite Eo.
    + pose proof (R_held _ _ {| chans := chans (ik i); held := (RR c :: t) ++ held (ik i) |} HR) as HR'.
      prj_in HR'. apply HR'; auto; intros c0; cbn [app count_occ]; rewrite !count_occ_app; cbn [count_occ];
        destruct (ref_dec (RR c) _); lia.
  - specialize (IH _ _ H). destruct IH as [Eo HR]. split; auto.
    pose proof (R_held _ _ {| chans := chans (ik i); held := (RM o :: t) ++ held (ik i) |} HR) as HR'.
    prj_in HR'. apply HR'; auto.
Qed.

(* ------------------------------------------------------------------------------------------ *)
(* ONew                                                                                         *)
(* ------------------------------------------------------------------------------------------ *)
Lemma step_new u i : R0 u i ->
  snd (u_step u ONew) = snd (i_step i ONew) /\ R0 (fst (u_step u ONew)) (fst (i_step i ONew)).
Proof.
  intros H. cbn [u_step i_step k_new uk]. cbn [fst snd chans held]. split.
  - now rewrite (r_next _ _ _ H).
  - rewrite <- (r_chans _ _ _ H).
    pose proof (add_tx u i (length (uchans u)) [] H) as H1.
    pose proof (add_rx _ _ (length (uchans u)) [] H1) as H2. prj_in H2.
    eapply (Rg_ext _ _ _ _ _ H2); prj; rewrite <- ?app_assoc; cbn [app]; auto.
Qed.

(* ------------------------------------------------------------------------------------------ *)
(* changing a positive strong count to another positive strong count                            *)
(* ------------------------------------------------------------------------------------------ *)
Lemma arcs_bump (A : list (aid * (fd * nat))) a f n m : lookup A a = Some (f, S n) ->
  forall g, tot (wAF g) (update A a (f, S m)) = tot (wAF g) A.
Proof.
  intros Hl g. pose proof (tot_update (wAF g) A a (f, S n) (f, S m) Hl) as E. cbn [wAF] in E. lia.
Qed.

Lemma F2_bump (A : list (aid * (fd * nat))) T a f n m : forall us js, Forall2 (hrel A T) us js ->
  lookup A a = Some (f, S n) -> Forall2 (hrel (update A a (f, S m)) T) us js.
Proof.
  intros us js HF Hl. eapply F2_mono; [exact HF|]. intros x uo io _ Hr.
  destruct uo as [a'|[g|]|], io as [c'|c'|]; cbn [obj_rel] in *; auto.
  destruct Hr as (f' & n' & Hl' & Hf). destruct (Nat.eq_dec a' a) as [->|Hne].
  - rewrite Hl in Hl'. injection Hl' as <- <-. exists f, m. split; auto.
    eapply lookup_update_eq; eauto.
  - exists f', n'. split; auto. rewrite lookup_update_neq; auto.
Qed.

Lemma In_update_lt {B} (l : list (nat * B)) h v w n : lookup l h = Some w ->
  (forall x y, In (x, y) l -> x < n) -> forall x y, In (x, y) (update l h v) -> x < n.
Proof.
  intros Hl Hlt x y Hin. apply In_update in Hin. destruct Hin as [Hin|[-> _]]; eauto.
  apply lookup_In in Hl. eauto.
Qed.

Ltac prju := cbn [set_arcs set_uh with_k log uchans fdt nextfd arcs anext uh unext utrace ik ih inext chans held].
Ltac prju_in H := cbn [set_arcs set_uh with_k log uchans fdt nextfd arcs anext uh unext utrace ik ih inext chans held] in H.

(* ------------------------------------------------------------------------------------------ *)
(* OClone                                                                                       *)
(* ------------------------------------------------------------------------------------------ *)
Lemma step_clone u i h : R0 u i ->
  snd (u_step u (OClone h)) = snd (i_step i (OClone h)) /\
  R0 (fst (u_step u (OClone h))) (fst (i_step i (OClone h))).
Proof.
  intros H. cbn [u_step i_step].
  pose proof (F2_lookup _ _ _ _ (r_h _ _ _ H) h) as Hl.
  destruct (lookup (uh u) h) as [uo|] eqn:Eu, (lookup (ih i) h) as [io|] eqn:Ei; try contradiction.
  2: { split; [reflexivity|exact H]. }
  destruct uo as [a|[f|]|], io as [c|c|]; cbn [obj_rel] in Hl; try contradiction;
    try (split; [reflexivity|exact H]).
  destruct Hl as (f & n & Hla & Hf). rewrite Hla. unfold arc_inc. rewrite Hla. prju. cbn [fst snd].
  split; [now rewrite (r_next _ _ _ H)|].
  constructor; unfold k_dup; prju.
  - apply (r_chans _ _ _ H).
  - f_equal. apply (r_next _ _ _ H).
  - apply Forall2_app; [eapply F2_bump; [apply (r_h _ _ _ H)|exact Hla]|].
    constructor; [|constructor]. split; cbn [fst snd]; [apply (r_next _ _ _ H)|].
    cbn [obj_rel]. exists f, (S n). split; [eapply lookup_update_eq; eauto|exact Hf].
  - intros c'. cbn [count_occ]. destruct (ref_dec (RS c) (RR c')); [discriminate|apply (r_rr _ _ _ H)].
  - intros c'. cbn [count_occ]. rewrite tot_app. cbn [tot wIS]. rewrite <- (r_rs _ _ _ H).
    destruct (Nat.eqb_spec c c') as [E0|Hne]; destruct (ref_dec (RS c) (RS c')) as [E|E]; try lia; exfalso; congruence.
  - apply (r_fd_nd _ _ _ H).
  - apply (r_fd_lt _ _ _ H).
  - rewrite map_fst_update. apply (r_arc_nd _ _ _ H).
  - eapply In_update_lt; [exact Hla|apply (r_arc_lt _ _ _ H)].
  - intros a0 f0 n0 Hl0. cbn [cntA]. rewrite tot_app. cbn [tot wUS].
    destruct (Nat.eq_dec a0 a) as [->|Hne].
    + rewrite (lookup_update_eq _ _ _ _ Hla) in Hl0. injection Hl0 as <- <-.
      pose proof (r_cnt _ _ _ H _ _ _ Hla) as Hc. cbn [cntA] in Hc. rewrite Nat.eqb_refl. lia.
    + rewrite lookup_update_neq in Hl0 by auto. pose proof (r_cnt _ _ _ H _ _ _ Hl0) as Hc. cbn [cntA] in Hc.
      destruct (Nat.eqb_spec a a0); [congruence|]. lia.
  - intros g. rewrite (arcs_bump _ _ _ _ _ Hla). rewrite tot_app. cbn [tot wRX cntF].
    pose proof (r_dis _ _ _ H g) as Hd. cbn [cntF] in Hd. lia.
  - intros g c' Hg. rewrite (arcs_bump _ _ _ _ _ Hla). apply (r_stray _ _ _ H g c' Hg).
  - cbn [cntA]. intros; lia.
Qed.

(* ------------------------------------------------------------------------------------------ *)
(* ORecv                                                                                        *)
(* ------------------------------------------------------------------------------------------ *)
Lemma rs_pos u i c : R0 u i ->
  (1 <= count_occ ref_dec (map snd (fdt u)) (RS c) <-> 1 <= count_occ ref_dec (held (ik i)) (RS c)).
Proof.
  intros H. split; intros Hc.
  - apply count_lookup in Hc; [|apply (r_fd_nd _ _ _ H)]. destruct Hc as (f & Hf).
    pose proof (r_stray _ _ _ H _ _ Hf) as Ht. apply tot_AF_arc in Ht. destruct Ht as (a & n & Hin).
    apply In_lookup_nd in Hin; [|apply (r_arc_nd _ _ _ H)].
    pose proof (arc_handle _ _ _ _ _ _ H Hin) as Ht. apply tot_US_handle in Ht. destruct Ht as (x & Hx).
    destruct (F2_In _ _ _ _ (r_h _ _ _ H) _ _ Hx) as (io & Hio & Hr).
    destruct io as [c'|c'|]; cbn [obj_rel] in Hr; try contradiction.
    destruct Hr as (f' & n' & Hl' & Hf').
    assert (E := eq_trans (eq_sym Hin) Hl'). injection E as <- _.
    assert (E2 := eq_trans (eq_sym Hf) Hf'). injection E2 as <-.
    rewrite (r_rs _ _ _ H). eapply handle_tot_IS; eauto.
  - rewrite (r_rs _ _ _ H) in Hc. apply tot_IS_handle in Hc. destruct Hc as (x & Hx).
    destruct (F2_In_r _ _ _ _ (r_h _ _ _ H) _ _ Hx) as (uo & _ & Hr).
    destruct uo as [a|[f|]|]; cbn [obj_rel] in Hr; try contradiction.
    destruct Hr as (f & n & _ & Hf). eapply lookup_count; eauto.
Qed.

Lemma refs_rs_zero u i c : R0 u i -> (refs (uk u) (RS c) =? 0) = (refs (ik i) (RS c) =? 0).
Proof.
  intros H. pose proof (rs_pos u i c H) as Hp. unfold refs, inflight. cbn [uk chans held].
  rewrite (r_chans _ _ _ H).
  destruct (Nat.eqb_spec (count_occ ref_dec (map snd (fdt u)) (RS c) +
                          count_occ ref_dec (flat_map live_rights (chans (ik i))) (RS c)) 0) as [E1|E1];
  destruct (Nat.eqb_spec (count_occ ref_dec (held (ik i)) (RS c) +
                          count_occ ref_dec (flat_map live_rights (chans (ik i))) (RS c)) 0) as [E2|E2];
  auto; exfalso; lia.
Qed.

Lemma R0_log u i c : R0 u i -> R0 (log u c) i.
Proof. intros H. eapply (Rg_ext _ _ _ _ _ H); prju; auto. apply (r_chans _ _ _ H). Qed.

Lemma step_recv u i h : R0 u i ->
  snd (u_step u (ORecv h)) = snd (i_step i (ORecv h)) /\
  R0 (fst (u_step u (ORecv h))) (fst (i_step i (ORecv h))).
Proof.
  intros H. cbn [u_step i_step].
  pose proof (F2_lookup _ _ _ _ (r_h _ _ _ H) h) as Hl.
  destruct (lookup (uh u) h) as [uo|] eqn:Eu, (lookup (ih i) h) as [io|] eqn:Ei; try contradiction.
  2: { split; [reflexivity|exact H]. }
  destruct uo as [a|[f|]|], io as [c|c|]; cbn [obj_rel] in Hl; try contradiction;
    try (split; [reflexivity|exact H]).
  rewrite Hl. unfold k_recv.
  assert (Hg : get_chan (uk u) c = get_chan (ik i) c).
  { apply get_chan_ext. cbn [uk chans]. apply (r_chans _ _ _ H). }
  rewrite Hg. destruct (q (get_chan (ik i) c)) as [|m rest] eqn:Eq.
  - rewrite (refs_rs_zero u i c H). destruct (refs (ik i) (RS c) =? 0); cbn [fst snd];
      (split; [reflexivity|now apply R0_log]).
  - cbv zeta.
    set (u1 := log (with_k u (set_nth (uchans u) c {| q := rest; dead := dead (get_chan (ik i) c) |}) (fdt u)) [CRecvmsg f 1]).
    set (i1 := {| ik := {| chans := set_nth (chans (ik i)) c {| q := rest; dead := dead (get_chan (ik i) c) |};
                           held := held (ik i) |}; ih := ih i; inext := inext i |}).
    assert (H1 : R0 u1 i1).
    { eapply (Rg_ext _ _ _ _ _ H); subst u1 i1; prju; auto. now rewrite (r_chans _ _ _ H). }
    pose proof (install_sim (m_rights m) u1 i1 H1) as HI. subst i1. prj_in HI.
    destruct (u_install u1 (m_rights m)) as [u2 out].
    destruct (i_install (ih i) (inext i) (m_rights m)) as [[hs' n'] out'].
    cbn [fst snd] in *. destruct HI as [Eo HR]. split; [now rewrite Eo|exact HR].
Qed.

(* ------------------------------------------------------------------------------------------ *)
(* releasing what a `channels` vector owns                                                       *)
(* ------------------------------------------------------------------------------------------ *)
Lemma drop_fd os u i f c : Rg (OwnFd f :: os) u i -> lookup (fdt u) f = Some (RR c) ->
  Rg os (sys_close u f) {| ik := k_close (ik i) (RR c); ih := ih i; inext := inext i |}.
Proof.
  intros H Hl. unfold sys_close. rewrite Hl. unfold k_close.
  pose proof (r_dis _ _ _ H f) as Hd0. cbn [cntF] in Hd0. rewrite Nat.eqb_refl in Hd0.
  assert (Hcnt : 1 <= count_occ ref_dec (held (ik i)) (RR c)).
  { rewrite <- (r_rr _ _ _ H). eapply lookup_count; eauto. }
  assert (Hcounts : forall c', count_occ ref_dec (map snd (remove_fd f (fdt u))) (RR c') =
                               count_occ ref_dec (remove_one (RR c) (held (ik i))) (RR c')).
  { intros c'. pose proof (count_remove_fd _ _ _ (RR c') Hl).
    pose proof (count_remove_one (RR c) (held (ik i)) (RR c') Hcnt).
    pose proof (r_rr _ _ _ H c'). nlia. }
  constructor; prju; rewrite ?gc_held; cbn [held].
  - apply gc_chans_ext; cbn [chans held]; [apply (r_chans _ _ _ H)|exact Hcounts].
  - apply (r_next _ _ _ H).
  - eapply F2_mono; [apply (r_h _ _ _ H)|]. intros x uo io Hin Hr.
    destruct uo as [a|[g|]|], io as [c'|c'|]; cbn [obj_rel] in *; auto.
    + destruct Hr as (f' & n' & Hla & Hf'). exists f', n'. split; auto.
      rewrite lookup_remove_fd_neq; auto. intros ->.
      apply lookup_In in Hla. apply arc_tot_AF in Hla. lia.
    + rewrite lookup_remove_fd_neq; auto. intros ->. apply handle_tot_RX in Hin. lia.
  - exact Hcounts.
  - intros c'. rewrite count_remove_one_neq by discriminate. apply (r_rs _ _ _ H).
  - apply NoDup_remove_fd. apply (r_fd_nd _ _ _ H).
  - intros g r Hin. apply In_remove_fd in Hin. eapply (r_fd_lt _ _ _ H); eauto.
  - apply (r_arc_nd _ _ _ H).
  - apply (r_arc_lt _ _ _ H).
  - intros a g n Hla. pose proof (r_cnt _ _ _ H _ _ _ Hla) as Hc. cbn [cntA] in Hc. exact Hc.
  - intros g. pose proof (r_dis _ _ _ H g) as Hd. cbn [cntF] in Hd. destruct (Nat.eqb f g); lia.
  - intros g c' Hg. destruct (Nat.eq_dec g f) as [->|Hne].
    + rewrite lookup_remove_fd_eq in Hg by (apply (r_fd_nd _ _ _ H)). discriminate.
    + rewrite lookup_remove_fd_neq in Hg by auto. apply (r_stray _ _ _ H _ _ Hg).
  - intros a Ha. apply (r_ownA _ _ _ H). cbn [cntA]. exact Ha.
Qed.

Lemma pending_arc os u i a : Rg os u i -> 1 <= cntA a os ->
  exists f n, lookup (arcs u) a = Some (f, S (S n)).
Proof.
  intros H Ha. pose proof (r_ownA _ _ _ H _ Ha) as Ht.
  pose proof Ht as Ht'. apply tot_US_handle in Ht'. destruct Ht' as (x & Hin).
  destruct (F2_In _ _ _ _ (r_h _ _ _ H) _ _ Hin) as (io & _ & Hr).
  destruct io as [c|c|]; cbn [obj_rel] in Hr; try contradiction.
  destruct Hr as (f & n & Hla & _). pose proof (r_cnt _ _ _ H _ _ _ Hla) as Hc.
  destruct n as [|n]; [lia|]. eauto.
Qed.

Lemma drop_arc os u i a : Rg (OwnArc a :: os) u i ->
  Rg os (arc_dec u a) i /\ fdt (arc_dec u a) = fdt u.
Proof.
  intros H.
  assert (Ha : 1 <= cntA a (OwnArc a :: os)) by (cbn [cntA]; rewrite Nat.eqb_refl; lia).
  destruct (pending_arc _ _ _ _ H Ha) as (f & n & Hla).
  unfold arc_dec. rewrite Hla. split; [|reflexivity].
  pose proof (r_cnt _ _ _ H _ _ _ Hla) as Hc0. cbn [cntA] in Hc0. rewrite Nat.eqb_refl in Hc0.
  constructor; prju.
  - apply (r_chans _ _ _ H).
  - apply (r_next _ _ _ H).
  - eapply F2_bump; [apply (r_h _ _ _ H)|exact Hla].
  - apply (r_rr _ _ _ H).
  - apply (r_rs _ _ _ H).
  - apply (r_fd_nd _ _ _ H).
  - apply (r_fd_lt _ _ _ H).
  - rewrite map_fst_update. apply (r_arc_nd _ _ _ H).
  - eapply In_update_lt; [exact Hla|apply (r_arc_lt _ _ _ H)].
  - intros a0 f0 n0 Hl0. destruct (Nat.eq_dec a0 a) as [->|Hne].
    + rewrite (lookup_update_eq _ _ _ _ Hla) in Hl0. injection Hl0 as <- <-. lia.
    + rewrite lookup_update_neq in Hl0 by auto. pose proof (r_cnt _ _ _ H _ _ _ Hl0) as Hc. cbn [cntA] in Hc.
      destruct (Nat.eqb_spec a a0); [congruence|]. lia.
  - intros g. rewrite (arcs_bump _ _ _ _ _ Hla). pose proof (r_dis _ _ _ H g) as Hd. cbn [cntF] in Hd. exact Hd.
  - intros g c' Hg. rewrite (arcs_bump _ _ _ _ _ Hla). apply (r_stray _ _ _ H g c' Hg).
  - intros a0 Ha0. apply (r_ownA _ _ _ H). cbn [cntA]. lia.
Qed.

Definition orel (T : list (fd * ref)) (o : owned) (r : ref) : Prop :=
  match o, r with
  | OwnArc _, RS _ => True
  | OwnFd f, RR c => lookup T f = Some (RR c)
  | _, _ => False
  end.

Lemma orel_mono T T' : forall os rs, Forall2 (orel T) os rs ->
  (forall g, 1 <= cntF g os -> lookup T' g = lookup T g) -> Forall2 (orel T') os rs.
Proof.
  induction 1 as [|o r os rs Ho HF IH]; intros Hm; constructor.
  - destruct o as [a|g], r as [c|c|m]; cbn [orel] in *; auto.
    rewrite Hm; auto. cbn [cntF]. rewrite Nat.eqb_refl. lia.
  - apply IH. intros g Hg. apply Hm. destruct o; cbn [cntF]; lia.
Qed.

Lemma drop_sim : forall os rs u i, Rg os u i -> Forall2 (orel (fdt u)) os rs ->
  Rg [] (drop_owned u os) {| ik := close_moved (ik i) rs; ih := ih i; inext := inext i |}.
Proof.
  induction os as [|o os IH]; intros rs u i H HF; inversion HF as [|o0 r os0 rs' Ho HF']; subst.
  - cbn [drop_owned close_moved]. destruct i; exact H.
  - destruct o as [a|f], r as [c|c|m]; cbn [orel] in Ho; try contradiction; cbn [drop_owned close_moved].
    + destruct (drop_arc _ _ _ _ H) as [H' Hfd]. apply IH; auto. now rewrite Hfd.
    + pose proof (drop_fd _ _ _ _ _ H Ho) as H'.
      specialize (IH rs' _ _ H'). prj_in IH. apply IH.
      eapply orel_mono; [exact HF'|]. intros g Hg.
      unfold sys_close. rewrite Ho. prju. apply lookup_remove_fd_neq. intros ->.
      pose proof (r_dis _ _ _ H f) as Hd. cbn [cntF] in Hd. rewrite Nat.eqb_refl in Hd. lia.
Qed.

(* ------------------------------------------------------------------------------------------ *)
(* serialising the attachments                                                                  *)
(* ------------------------------------------------------------------------------------------ *)
Lemma res_tx P u i x a f n : Rg P u i -> lookup (uh u) x = Some (US a) -> lookup (arcs u) a = Some (f, S n) ->
  Rg (P ++ [OwnArc a]) (arc_inc u a) i.
Proof.
  intros H Hx Hla. unfold arc_inc. rewrite Hla. constructor; prju.
  - apply (r_chans _ _ _ H).
  - apply (r_next _ _ _ H).
  - eapply F2_bump; [apply (r_h _ _ _ H)|exact Hla].
  - apply (r_rr _ _ _ H).
  - apply (r_rs _ _ _ H).
  - apply (r_fd_nd _ _ _ H).
  - apply (r_fd_lt _ _ _ H).
  - rewrite map_fst_update. apply (r_arc_nd _ _ _ H).
  - eapply In_update_lt; [exact Hla|apply (r_arc_lt _ _ _ H)].
  - intros a0 f0 n0 Hl0. rewrite cntA_app. cbn [cntA]. destruct (Nat.eq_dec a0 a) as [->|Hne].
    + rewrite (lookup_update_eq _ _ _ _ Hla) in Hl0. injection Hl0 as <- <-.
      pose proof (r_cnt _ _ _ H _ _ _ Hla) as Hc. rewrite Nat.eqb_refl. lia.
    + rewrite lookup_update_neq in Hl0 by auto. pose proof (r_cnt _ _ _ H _ _ _ Hl0) as Hc.
      destruct (Nat.eqb_spec a a0); [congruence|]. lia.
  - intros g. rewrite (arcs_bump _ _ _ _ _ Hla). rewrite cntF_app. cbn [cntF].
    pose proof (r_dis _ _ _ H g) as Hd. lia.
  - intros g c' Hg. rewrite (arcs_bump _ _ _ _ _ Hla). apply (r_stray _ _ _ H g c' Hg).
  - intros a0 Ha0. rewrite cntA_app in Ha0. cbn [cntA] in Ha0.
    destruct (Nat.eqb_spec a a0) as [E|Hne].
    + subst a0. apply lookup_In in Hx. eapply handle_tot_US; eauto.
    + apply (r_ownA _ _ _ H). lia.
Qed.

Lemma res_rx_gen v P u i x f c :
  (forall A T, obj_rel A T v IGone) -> (forall a, wUS a v = 0) -> (forall g, wRX g v = 0) ->
  Rg P u i -> lookup (uh u) x = Some (UR (Some f)) -> lookup (ih i) x = Some (IR c) ->
  Rg (P ++ [OwnFd f]) (set_uh u (update (uh u) x v))
     {| ik := ik i; ih := update (ih i) x IGone; inext := inext i |}.
Proof.
  intros Hv Hus Hrx H Hx Hix. constructor; prju.
  - apply (r_chans _ _ _ H).
  - apply (r_next _ _ _ H).
  - apply F2_update; [apply (r_h _ _ _ H)|apply Hv].
  - apply (r_rr _ _ _ H).
  - intros c'. rewrite (r_rs _ _ _ H).
    pose proof (tot_update (wIS c') _ _ _ IGone Hix) as E. cbn [wIS] in E. lia.
  - apply (r_fd_nd _ _ _ H).
  - apply (r_fd_lt _ _ _ H).
  - apply (r_arc_nd _ _ _ H).
  - apply (r_arc_lt _ _ _ H).
  - intros a g n Hla. rewrite cntA_app. cbn [cntA].
    pose proof (tot_update (wUS a) _ _ _ v Hx) as E. rewrite Hus in E. cbn [wUS] in E.
    pose proof (r_cnt _ _ _ H _ _ _ Hla). lia.
  - intros g. rewrite cntF_app. cbn [cntF].
    pose proof (tot_update (wRX g) _ _ _ v Hx) as E. rewrite Hrx in E. cbn [wRX] in E.
    pose proof (r_dis _ _ _ H g). lia.
  - apply (r_stray _ _ _ H).
  - intros a Ha. rewrite cntA_app in Ha. cbn [cntA] in Ha.
    pose proof (tot_update (wUS a) _ _ _ v Hx) as E. rewrite Hus in E. cbn [wUS] in E.
    assert (1 <= tot (wUS a) (uh u)) by (apply (r_ownA _ _ _ H); lia). lia.
Qed.

Lemma res_rx P u i x f c : Rg P u i -> lookup (uh u) x = Some (UR (Some f)) -> lookup (ih i) x = Some (IR c) ->
  Rg (P ++ [OwnFd f]) (set_uh u (update (uh u) x (UR None)))
     {| ik := ik i; ih := update (ih i) x IGone; inext := inext i |}.
Proof. apply res_rx_gen; intros; reflexivity || exact I. Qed.

Lemma resolve_sim : forall atts P u i, Rg P u i ->
  match u_resolve u atts, i_resolve (ih i) atts with
  | Some (fs, os, u1), Some (rs, hs') =>
      Rg (P ++ os) u1 {| ik := ik i; ih := hs'; inext := inext i |} /\
      fdt u1 = fdt u /\ uchans u1 = uchans u /\
      refs_of (fdt u) fs = rs /\ Forall2 (orel (fdt u)) os rs
  | None, None => True
  | _, _ => False
  end.
Proof.
  induction atts as [|[x|x] r IH]; intros P u i H; cbn [u_resolve i_resolve].
  - rewrite app_nil_r. split; [destruct i; exact H|]. split; [reflexivity|]. split; [reflexivity|].
    split; [reflexivity|constructor].
  - pose proof (F2_lookup _ _ _ _ (r_h _ _ _ H) x) as Hl.
    destruct (lookup (uh u) x) as [uo|] eqn:Eu, (lookup (ih i) x) as [io|] eqn:Ei; try contradiction; auto.
    destruct uo as [a|[f|]|], io as [c|c|]; cbn [obj_rel] in Hl; try contradiction; auto.
    destruct Hl as (f & n & Hla & Hf). rewrite Hla.
    pose proof (res_tx _ _ _ _ _ _ _ H Eu Hla) as H1. specialize (IH _ _ _ H1).
    assert (Efd : fdt (arc_inc u a) = fdt u) by (unfold arc_inc; rewrite Hla; reflexivity).
    assert (Ech : uchans (arc_inc u a) = uchans u) by (unfold arc_inc; rewrite Hla; reflexivity).
    destruct (u_resolve (arc_inc u a) r) as [[[fs os] u1]|], (i_resolve (ih i) r) as [[rs hs']|]; auto.
    destruct IH as (HR & E1 & E2 & E3 & E4). rewrite <- app_assoc in HR. cbn [app] in HR.
    rewrite Efd in *. rewrite Ech in *. split; [exact HR|]. split; [exact E1|]. split; [exact E2|]. split.
    + cbn [refs_of]. rewrite Hf. now rewrite E3.
    + constructor; auto. exact I.
  - pose proof (F2_lookup _ _ _ _ (r_h _ _ _ H) x) as Hl.
    destruct (lookup (uh u) x) as [uo|] eqn:Eu, (lookup (ih i) x) as [io|] eqn:Ei; try contradiction; auto.
    destruct uo as [a|[f|]|], io as [c|c|]; cbn [obj_rel] in Hl; try contradiction; auto.
    pose proof (res_rx _ _ _ _ _ _ H Eu Ei) as H1. specialize (IH _ _ _ H1). prju_in IH.
    destruct (u_resolve (set_uh u (update (uh u) x (UR None))) r) as [[[fs os] u1]|],
             (i_resolve (update (ih i) x IGone) r) as [[rs hs']|]; auto.
    destruct IH as (HR & E1 & E2 & E3 & E4). rewrite <- app_assoc in HR. cbn [app] in HR.
    split; [exact HR|]. split; [exact E1|]. split; [exact E2|]. split.
    + cbn [refs_of]. rewrite Hl. now rewrite E3.
    + constructor; auto.
Qed.

(* ------------------------------------------------------------------------------------------ *)
(* OSend                                                                                        *)
(* ------------------------------------------------------------------------------------------ *)
Lemma Rg_log os u i c : Rg os u i -> Rg os (log u c) i.
Proof. intros H. eapply (Rg_ext _ _ _ _ _ H); prju; auto. apply (r_chans _ _ _ H). Qed.

Lemma step_send u i h d atts : R0 u i ->
  snd (u_step u (OSend h d atts)) = snd (i_step i (OSend h d atts)) /\
  R0 (fst (u_step u (OSend h d atts))) (fst (i_step i (OSend h d atts))).
Proof.
  intros H. cbn [u_step i_step].
  pose proof (F2_lookup _ _ _ _ (r_h _ _ _ H) h) as Hl.
  destruct (lookup (uh u) h) as [uo|] eqn:Eu, (lookup (ih i) h) as [io|] eqn:Ei; try contradiction.
  2: { split; [reflexivity|exact H]. }
  destruct uo as [a|[f|]|], io as [c|c|]; cbn [obj_rel] in Hl; try contradiction;
    try (split; [reflexivity|exact H]).
  destruct Hl as (f & n & Hla & Hf). rewrite Hla, Hf.
  pose proof (resolve_sim atts [] u i H) as HR.
  destruct (u_resolve u atts) as [[[fs os] u1]|], (i_resolve (ih i) atts) as [[rs hs']|]; try contradiction.
  2: { split; [reflexivity|exact H]. }
  destruct HR as (HR & E1 & E2 & E3 & E4). cbn [app] in HR.
  replace (refs_of (fdt u1) fs) with rs by (rewrite E1; auto).
  unfold k_send.
  assert (Hg : get_chan (uk u1) c = get_chan (ik i) c).
  { apply get_chan_ext. cbn [uk chans]. rewrite E2. apply (r_chans _ _ _ H). }
  rewrite Hg. destruct (dead (get_chan (ik i) c)); cbn [fst snd chans held uk]; (split; [reflexivity|]).
  - pose proof (drop_sim os rs (log u1 [CSendmsg f (length fs) false]) _ (Rg_log _ _ _ _ HR)) as HD.
    prju_in HD. apply HD. now rewrite E1.
  - set (m := {| m_data := d; m_rights := rs |}).
    set (cs := set_nth (uchans u1) c {| q := q (get_chan (ik i) c) ++ [m]; dead := false |}).
    assert (H2 : Rg os (log (with_k u1 cs (fdt u1)) [CSendmsg f (length fs) true])
                   {| ik := {| chans := set_nth (chans (ik i)) c {| q := q (get_chan (ik i) c) ++ [m]; dead := false |};
                               held := held (ik i) |}; ih := hs'; inext := inext i |}).
    { eapply (Rg_ext _ _ _ _ _ HR); prju; auto. subst cs. rewrite E2. now rewrite (r_chans _ _ _ H). }
    pose proof (drop_sim os rs _ _ H2) as HD. prju_in HD. apply HD. now rewrite E1.
Qed.

(* ------------------------------------------------------------------------------------------ *)
(* ODrop                                                                                        *)
(* ------------------------------------------------------------------------------------------ *)
Lemma ind_wIS c c' : ind (RS c) (RS c') = wIS c' (IS c).
Proof.
  unfold ind. cbn [wIS]. destruct (ref_dec (RS c) (RS c')) as [E|E], (Nat.eqb_spec c c'); auto; exfalso; congruence.
Qed.

Lemma step_drop u i h : R0 u i -> k_stable (ik i) ->
  snd (u_step u (ODrop h)) = snd (i_step i (ODrop h)) /\
  R0 (fst (u_step u (ODrop h))) (fst (i_step i (ODrop h))).
Proof.
  intros H St. cbn [u_step i_step].
  pose proof (F2_lookup _ _ _ _ (r_h _ _ _ H) h) as Hl.
  destruct (lookup (uh u) h) as [uo|] eqn:Eu, (lookup (ih i) h) as [io|] eqn:Ei; try contradiction.
  2: { split; [reflexivity|exact H]. }
  destruct uo as [a|[f|]|], io as [c|c|]; cbn [obj_rel] in Hl; try contradiction;
    try (split; [reflexivity|exact H]); cbn [fst snd]; (split; [reflexivity|]).
  - (* a sender handle *)
    destruct Hl as (f & n & Hla & Hf).
    assert (Hcnt : 1 <= count_occ ref_dec (held (ik i)) (RS c)).
    { rewrite (r_rs _ _ _ H). apply lookup_In in Ei. eapply handle_tot_IS; eauto. }
    assert (Hrs : forall c', count_occ ref_dec (remove_one (RS c) (held (ik i))) (RS c') =
                             tot (wIS c') (update (ih i) h IGone)).
    { intros c'. pose proof (count_remove_one (RS c) (held (ik i)) (RS c') Hcnt) as E1.
      rewrite ind_wIS in E1. pose proof (tot_update (wIS c') _ _ _ IGone Ei) as E2. cbn [wIS] in E2.
      pose proof (r_rs _ _ _ H c'). cbn [wIS] in E1. lia. }
    assert (Hus : forall a0, tot (wUS a0) (update (uh u) h UGone) + wUS a0 (US a) = tot (wUS a0) (uh u)).
    { intros a0. pose proof (tot_update (wUS a0) _ _ _ UGone Eu) as E. cbn [wUS] in E. cbn [wUS]. lia. }
    assert (Hrx : forall g, tot (wRX g) (update (uh u) h UGone) = tot (wRX g) (uh u)).
    { intros g. pose proof (tot_update (wRX g) _ _ _ UGone Eu) as E. cbn [wRX] in E. lia. }
    pose proof (F2_update _ _ _ _ (r_h _ _ _ H) h UGone IGone I) as HF.
    pose proof (r_cnt _ _ _ H _ _ _ Hla) as Hc0. cbn [cntA] in Hc0.
    pose proof (Hus a) as Husa. rewrite wUS_self in Husa.
    unfold arc_dec. prju. rewrite Hla. destruct n as [|n].
    + (* last handle of the arc: the descriptor is closed *)
      unfold sys_close. prju. rewrite Hf. unfold k_close.
      pose proof (tot_update (wAF f) _ _ _ (f, 0) Hla) as Eaf. rewrite wAF_self in Eaf. cbn [wAF] in Eaf.
      pose proof (r_dis _ _ _ H f) as Hdf. cbn [cntF] in Hdf.
      assert (Hcounts : forall c', count_occ ref_dec (map snd (remove_fd f (fdt u))) (RR c') =
                                   count_occ ref_dec (remove_one (RS c) (held (ik i))) (RR c')).
      { intros c'. pose proof (count_remove_fd _ _ _ (RR c') Hf) as E1. unfold ind in E1.
        destruct (ref_dec (RS c) (RR c')); [discriminate|].
        rewrite count_remove_one_neq by discriminate. pose proof (r_rr _ _ _ H c'). nlia. }
      constructor; prju; rewrite ?gc_held; cbn [held].
      * apply gc_chans_ext; cbn [chans held]; [apply (r_chans _ _ _ H)|exact Hcounts].
      * apply (r_next _ _ _ H).
      * eapply F2_mono; [exact HF|]. intros x uo io Hin Hr.
        destruct uo as [a'|[g|]|], io as [c'|c'|]; cbn [obj_rel] in *; auto.
        -- destruct Hr as (f' & n' & Hla' & Hf').
           assert (Hne : a' <> a).
           { intros ->. apply handle_tot_US in Hin. lia. }
           exists f', n'. split; [rewrite lookup_update_neq; auto|].
           rewrite lookup_remove_fd_neq; auto. intros ->.
           assert (Hin' : In (a', (f, S n')) (update (arcs u) a (f, 0))).
           { apply lookup_In. rewrite lookup_update_neq; auto. }
           apply arc_tot_AF in Hin'. lia.
        -- rewrite lookup_remove_fd_neq; auto. intros ->.
           apply handle_tot_RX in Hin. rewrite Hrx in Hin.
           apply lookup_In in Hla. apply arc_tot_AF in Hla. lia.
      * exact Hcounts.
      * exact Hrs.
      * apply NoDup_remove_fd. apply (r_fd_nd _ _ _ H).
      * intros g r Hin. apply In_remove_fd in Hin. eapply (r_fd_lt _ _ _ H); eauto.
      * rewrite map_fst_update. apply (r_arc_nd _ _ _ H).
      * eapply In_update_lt; [exact Hla|apply (r_arc_lt _ _ _ H)].
      * intros a0 f0 n0 Hl0. cbn [cntA]. destruct (Nat.eq_dec a0 a) as [->|Hne].
        -- rewrite (lookup_update_eq _ _ _ _ Hla) in Hl0. injection Hl0 as <- <-. lia.
        -- rewrite lookup_update_neq in Hl0 by auto. pose proof (r_cnt _ _ _ H _ _ _ Hl0) as Hc. cbn [cntA] in Hc.
           pose proof (Hus a0) as E. cbn [wUS] in E. destruct (Nat.eqb_spec a a0); [congruence|]. lia.
      * intros g. cbn [cntF]. rewrite Hrx.
        pose proof (tot_update (wAF g) _ _ _ (f, 0) Hla) as E. cbn [wAF] in E.
        pose proof (r_dis _ _ _ H g) as Hd. cbn [cntF] in Hd. lia.
      * intros g c' Hg. destruct (Nat.eq_dec g f) as [->|Hne].
        -- rewrite lookup_remove_fd_eq in Hg by (apply (r_fd_nd _ _ _ H)). discriminate.
        -- rewrite lookup_remove_fd_neq in Hg by auto. pose proof (r_stray _ _ _ H _ _ Hg) as Hs.
           pose proof (tot_update (wAF g) _ _ _ (f, 0) Hla) as E. cbn [wAF] in E.
           destruct (Nat.eqb_spec f g); [congruence|]. lia.
      * cbn [cntA]. intros; lia.
    + (* other handles remain: only the count changes *)
      unfold k_close.
      constructor; prju; rewrite ?gc_held; cbn [held].
      * rewrite (r_chans _ _ _ H).
        rewrite <- (gc_fixpoint _ St) at 1. apply gc_chans_ext; cbn [chans held]; auto.
        intros c'. rewrite count_remove_one_neq by discriminate. reflexivity.
      * apply (r_next _ _ _ H).
      * eapply F2_bump; [exact HF|exact Hla].
      * intros c'. rewrite count_remove_one_neq by discriminate. apply (r_rr _ _ _ H).
      * exact Hrs.
      * apply (r_fd_nd _ _ _ H).
      * apply (r_fd_lt _ _ _ H).
      * rewrite map_fst_update. apply (r_arc_nd _ _ _ H).
      * eapply In_update_lt; [exact Hla|apply (r_arc_lt _ _ _ H)].
      * intros a0 f0 n0 Hl0. cbn [cntA]. destruct (Nat.eq_dec a0 a) as [->|Hne].
        -- rewrite (lookup_update_eq _ _ _ _ Hla) in Hl0. injection Hl0 as <- <-. lia.
        -- rewrite lookup_update_neq in Hl0 by auto. pose proof (r_cnt _ _ _ H _ _ _ Hl0) as Hc. cbn [cntA] in Hc.
           pose proof (Hus a0) as E. cbn [wUS] in E. destruct (Nat.eqb_spec a a0); [congruence|]. lia.
      * intros g. rewrite (arcs_bump _ _ _ _ _ Hla). rewrite Hrx. apply (r_dis _ _ _ H g).
      * intros g c' Hg. rewrite (arcs_bump _ _ _ _ _ Hla). apply (r_stray _ _ _ H g c' Hg).
      * cbn [cntA]. intros; lia.
  - (* a receiver handle *)
    assert (H1 : Rg ([] ++ [OwnFd f]) (set_uh u (update (uh u) h UGone))
                    {| ik := ik i; ih := update (ih i) h IGone; inext := inext i |}).
    { apply (res_rx_gen UGone [] u i h f c); auto; intros; reflexivity || exact I. }
    cbn [app] in H1.
    assert (Hf' : lookup (fdt (set_uh u (update (uh u) h UGone))) f = Some (RR c)) by (prju; exact Hl).
    pose proof (drop_fd _ _ _ _ _ H1 Hf') as HD. prju_in HD. exact HD.
Qed.

(* ------------------------------------------------------------------------------------------ *)
(* stability of the ideal kernel state along a run                                              *)
(* ------------------------------------------------------------------------------------------ *)
Lemma k_init_stable : k_stable k_init.
Proof. intros c ch Hn. destruct c; discriminate. Qed.

Lemma i_step_stable : forall i o, k_stable (ik i) -> k_stable (ik (fst (i_step i o))).
Proof.
  intros i o St. destruct o as [|h|h|h d atts|h]; cbn [i_step].
  - cbn [k_new fst ik]. apply k_new_stable. exact St.
  - destruct (lookup (ih i) h) as [[c|c|]|]; cbn [fst ik]; auto.
  - destruct (lookup (ih i) h) as [[c|c|]|]; cbn [fst ik]; auto; unfold k_close; apply gc_stable.
  - destruct (lookup (ih i) h) as [[c|c|]|]; cbn [fst ik]; auto.
    destruct (i_resolve (ih i) atts) as [[rs hs']|]; cbn [fst ik]; auto.
    destruct (k_send (ik i) c {| m_data := d; m_rights := rs |}) as [k'|] eqn:Es; cbn [fst ik];
      apply close_moved_stable; auto.
    eapply k_send_stable; eauto.
  - destruct (lookup (ih i) h) as [[c|c|]|]; cbn [fst ik]; auto.
    destruct (k_recv (ik i) c) as [m k'| |] eqn:Er; cbn [fst ik]; auto.
    destruct (i_install (ih i) (inext i) (m_rights m)) as [[hs' n'] out]. cbn [fst ik].
    eapply k_recv_stable; eauto.
Qed.

(* ------------------------------------------------------------------------------------------ *)
(* the simulation                                                                               *)
(* ------------------------------------------------------------------------------------------ *)
Definition R (u : ust) (i : ist) : Prop := Rg [] u i /\ k_stable (ik i).

Theorem sim_init : R u_init i_init.
Proof.
  split; [|apply k_init_stable].
  constructor; cbn; auto; try (intros; contradiction); try (intros; discriminate); try constructor;
    try (intros; lia).
Qed.

Theorem sim_step : forall u i o, R u i ->
  snd (u_step u o) = snd (i_step i o) /\ R (fst (u_step u o)) (fst (i_step i o)).
Proof.
  intros u i o [H St].
  assert (HS : snd (u_step u o) = snd (i_step i o) /\ R0 (fst (u_step u o)) (fst (i_step i o))).
  { destruct o as [|h|h|h d atts|h].
    - now apply step_new.
    - now apply step_clone.
    - now apply step_drop.
    - now apply step_send.
    - now apply step_recv. }
  destruct HS as [Ho HR]. split; [exact Ho|]. split; [exact HR|]. now apply i_step_stable.
Qed.

Theorem sim_run : forall ops u i, R u i ->
  snd (u_run u ops) = snd (i_run i ops) /\ R (fst (u_run u ops)) (fst (i_run i ops)).
Proof.
  induction ops as [|o ops IH]; intros u i H; cbn [u_run i_run].
  - split; [reflexivity|exact H].
  - destruct (sim_step u i o H) as [Ho HR].
    destruct (u_step u o) as [u' out], (i_step i o) as [i' out']. cbn [fst snd] in Ho, HR.
    destruct (IH u' i' HR) as [Hos HR'].
    destruct (u_run u' ops) as [u'' outs], (i_run i' ops) as [i'' outs']. cbn [fst snd] in *.
    split; [congruence|exact HR'].
Qed.

(* C03 / C19: the unix back end gives exactly the answers of the ideal channel model *)
Theorem unix_refines_ideal : forall ops, snd (u_run u_init ops) = snd (i_run i_init ops).
Proof. intros ops. exact (proj1 (sim_run ops u_init i_init sim_init)). Qed.

Print Assumptions sim_init.
Print Assumptions sim_step.
Print Assumptions sim_run.
Print Assumptions unix_refines_ideal.
