(* Link between the two levels: the packets a successful Frag.send queues form a Conc/Crash plan
   (first chunk + non-empty follow-up chunks) whose concatenation is exactly the message.  So one
   Conc message = one send() of the library, for every length, buffer size and fault oracle. *)
From Coq Require Import ZArith List Bool Lia.
From IPC Require Import U64 Params Frag ParamsFacts FragProofs FragMore Conc.
Import ListNotations.
Open Scope Z_scope.
Ltac Zify.zify_post_hook ::= Z.div_mod_to_equations.

Lemma loop_strict : forall fuel len nfds sb pos faults o evs Ss,
  frag_loop fuel len nfds sb pos faults = (o, evs) ->
  0 <= pos <= len -> len < 2 ^ 62 -> 48 <= sb <= Ss -> Ss < 2 ^ 62 -> (pos = 0 -> ffs sb < len) ->
  Forall (fun r => 0 <= fst r < snd r /\ snd r <= len) (ded_pkts evs).
Proof.
  induction fuel as [|f IH]; intros len nfds sb pos faults o evs Ss H Hp Hlen Hsb HS H0.
  { cbn in H. injection H as <- <-. constructor. }
  cbn [frag_loop] in H.
  destruct (pos <? len) eqn:E.
  2:{ injection H as <- <-. constructor. }
  assert (Hfs : fs sb = sb - 32) by (unfold fs; rewrite RESERVED_SIZE_val; lia).
  pose proof (ffs_bounds sb ltac:(rewrite RESERVED_SIZE_val; lia)) as Hb.
  destruct (pos =? 0) eqn:Ez.
  - assert (pos = 0) by lia. subst pos. specialize (H0 eq_refl).
    destruct (send_first_end_eq sb ltac:(lia)) as [Ee Es]. rewrite Ee, Es in H. cbn [negb andb] in H.
    destruct (len <? ffs sb) eqn:E2; [lia|].
    destruct (next_fault faults) as [fl rest]. destruct fl.
    + destruct (frag_loop f len nfds sb (ffs sb) rest) as [o' evs'] eqn:R. injection H as <- <-.
      cbn [ded_pkts]. apply (IH _ _ _ _ _ _ _ Ss R); lia.
    + assert (Hsub : U.sub (ffs sb) 0 = ffs sb) by (unfold U.sub; rewrite Z.sub_0_r; apply wrap_id; rewrite modulus_val; lia).
      rewrite Hsub in H.
      assert (Hok : U.sub_ok (ffs sb) 0 = true) by (unfold U.sub_ok; lia). rewrite Hok, downsize_safe_true in H.
      cbn [negb andb] in H.
      destruct (downsize sb (ffs sb)) as [sb'|] eqn:D.
      * destruct (downsize_keeps _ _ _ Ss D Hsb ltac:(lia)) as (K1 & K2 & K3 & K4).
        destruct (frag_loop f len nfds sb' 0 rest) as [o' evs'] eqn:R. injection H as <- <-.
        cbn [ded_pkts]. apply (IH _ _ _ _ _ _ _ Ss R); try lia.
        intros _. unfold ffs in *. rewrite RESERVED_SIZE_val in *. lia.
      * injection H as <- <-. constructor.
    + injection H as <- <-. constructor.
  - destruct (send_follow_end_eq pos sb len ltac:(lia) ltac:(lia)) as [Ee Es]. rewrite Ee, Es in H.
    cbn [negb andb] in H. set (e := Z.min (pos + fs sb) len) in *.
    assert (He : pos < e <= len) by (subst e; lia).
    destruct (next_fault faults) as [fl rest]. destruct fl.
    + destruct (frag_loop f len nfds sb e rest) as [o' evs'] eqn:R. injection H as <- <-.
      cbn [ded_pkts]. constructor; [cbn [fst snd]; lia|]. apply (IH _ _ _ _ _ _ _ Ss R); lia.
    + assert (Hsub : U.sub e pos = e - pos) by (unfold U.sub; apply wrap_id; rewrite modulus_val; lia).
      rewrite Hsub in H.
      assert (Hok : U.sub_ok e pos = true) by (unfold U.sub_ok; lia). rewrite Hok, downsize_safe_true in H.
      cbn [negb andb] in H.
      destruct (downsize sb (e - pos)) as [sb'|] eqn:D.
      * destruct (downsize_keeps _ _ _ Ss D Hsb ltac:(subst e; lia)) as (K1 & K2 & K3 & K4).
        destruct (frag_loop f len nfds sb' pos rest) as [o' evs'] eqn:R. injection H as <- <-.
        cbn [ded_pkts]. apply (IH _ _ _ _ _ _ _ Ss R); lia.
      * injection H as <- <-. constructor.
    + injection H as <- <-. constructor.
Qed.

Lemma send_strict fuel Ss len nfds faults o evs :
  send fuel Ss len nfds faults = (o, evs) -> 48 <= Ss < 2 ^ 62 -> 0 <= len < 2 ^ 62 ->
  Forall (fun r => 0 <= fst r < snd r /\ snd r <= len) (ded_pkts evs).
Proof.
  unfold send. intros H HS Hlen.
  destruct (MAX_FDS_IN_CMSG <? nfds). { injection H as <- <-. constructor. }
  destruct (first_fragment_size_eq Ss ltac:(rewrite RESERVED_SIZE_val; lia)) as [E1 E2].
  rewrite E2 in H. cbn [negb] in H. rewrite send_single_packet_eq in H by lia.
  pose proof (ffs_bounds Ss ltac:(rewrite RESERVED_SIZE_val; lia)) as Hb.
  assert (G : forall sb fl pre o evs, go_frag fuel len nfds sb fl pre = (o, evs) ->
             48 <= sb <= Ss -> ffs sb < len -> ded_pkts pre = [] ->
             Forall (fun r => 0 <= fst r < snd r /\ snd r <= len) (ded_pkts evs)).
  { intros sb fl pre o' evs' Hg Hsb Hffs P2. unfold go_frag in Hg.
    destruct (MAX_FDS_IN_CMSG <? nfds + 1). { injection Hg as <- <-. rewrite P2. constructor. }
    destruct (frag_loop fuel len nfds sb 0 fl) as [o1 evs1] eqn:R.
    destruct (finish_frag_pkts o1 evs1) as (F1 & F2 & F3).
    destruct (finish_frag (o1, evs1)) as [o2 evs2]. cbn [fst snd] in *. subst o2. injection Hg as <- <-.
    rewrite ded_pkts_app, P2, F2. cbn [app].
    apply (loop_strict _ _ _ _ _ _ _ _ Ss R); try lia. }
  destruct (len <=? ffs Ss) eqn:ES.
  - destruct (next_fault faults) as [fl rest]. destruct fl; cbn [res_of] in H.
    + injection H as <- <-. constructor.
    + rewrite downsize_safe_true in H. cbn [negb] in H.
      destruct (downsize Ss len) as [sb'|] eqn:D.
      * assert (Hfs : fs Ss = Ss - 32) by (unfold fs; rewrite RESERVED_SIZE_val; lia).
        destruct (downsize_keeps _ _ _ Ss D ltac:(lia) ltac:(lia)) as (K1 & K2 & K3 & K4).
        apply (G _ _ _ _ _ H K1); [unfold ffs in *; rewrite RESERVED_SIZE_val in *; lia|reflexivity].
      * injection H as <- <-. constructor.
    + injection H as <- <-. constructor.
  - apply (G _ _ _ _ _ H); [lia|lia|reflexivity].
Qed.

Section Link.
  Context {A : Type}.

  Lemma slice_nonempty (data : list A) r : 0 <= fst r < snd r -> snd r <= Z.of_nat (length data) -> slice data r <> [].
  Proof.
    intros H1 H2 E. apply (f_equal (@length A)) in E. unfold slice in E.
    rewrite firstn_length, skipn_length in E. cbn [length] in E. lia.
  Qed.

  (* the Conc plan of one successful send() *)
  Definition plan_of (data : list A) (evs : list ev) : @Conc.plan A :=
    match shared_pkts evs with
    | p :: _ => {| p_first := slice data (fp_lo p, fp_hi p); p_rest := map (slice data) (ded_pkts evs) |}
    | [] => {| p_first := []; p_rest := [] |}
    end.

  Theorem send_is_a_plan : forall (data : list A) fuel Ss nfds faults evs,
    48 <= Ss < 2 ^ 62 -> Z.of_nat (length data) < 2 ^ 62 -> 0 <= nfds ->
    send fuel Ss (Z.of_nat (length data)) nfds faults = (Ok, evs) ->
    pdata (plan_of data evs) = data /\ wf_label (LStart (plan_of data evs)).
  Proof.
    intros data fuel Ss nfds faults evs HS Hlen Hn H.
    destruct (send_no_dup _ _ _ _ _ _ _ H HS ltac:(lia)) as (e & He & T & Ok').
    specialize (Ok' eq_refl). subst e.
    destruct (send_correct _ _ Ss _ _ _ _ _ H ltac:(lia) ltac:(lia) ltac:(lia) Hn) as (_ & _ & _ & _ & G).
    destruct (G eq_refl) as (p & buf & E & _ & _).
    unfold plan_of. rewrite E. unfold transmitted in T. rewrite E in T. cbn [map app] in T.
    split.
    - unfold pdata. cbn [p_first p_rest].
      change (slice data (fp_lo p, fp_hi p) ++ concat (map (slice data) (ded_pkts evs)))
        with (interp data ((fp_lo p, fp_hi p) :: ded_pkts evs)).
      apply interp_full. exact T.
    - cbn [wf_label p_rest]. unfold nonempty. apply Forall_forall. intros c Hc.
      apply in_map_iff in Hc. destruct Hc as (r & <- & Hr).
      pose proof (send_strict _ _ _ _ _ _ _ H HS ltac:(lia)) as St.
      rewrite Forall_forall in St. destruct (St r Hr) as [S1 S2].
      apply slice_nonempty; assumption.
  Qed.
End Link.
