(* KProofs: theory of the reference-counting kernel core K.
   gc reaches a stable state, never touches held references, never resurrects or alters channels it does
   not kill, only kills unreferenced channels, preserves well-formedness; the calls preserve well-formedness. *)
From Coq Require Import List Arith Lia Bool ZArith.
From IPC Require Import K.
Import ListNotations.

(* ------------------------------------------------------------------------------------------ *)
(* set_nth                                                                                      *)
(* ------------------------------------------------------------------------------------------ *)
Lemma length_set_nth {X} : forall (l : list X) i v, length (set_nth l i v) = length l.
Proof. induction l as [|h t IH]; intros [|i] v; cbn; auto. Qed.

Lemma nth_error_set_nth_eq {X} : forall (l : list X) i v,
  i < length l -> nth_error (set_nth l i v) i = Some v.
Proof.
  induction l as [|h t IH]; intros [|i] v Hl; cbn in *; try (exfalso; lia); auto.
  apply IH; lia.
Qed.

Lemma nth_error_set_nth_neq {X} : forall (l : list X) i j v,
  i <> j -> nth_error (set_nth l i v) j = nth_error l j.
Proof.
  induction l as [|h t IH]; intros [|i] [|j] v Hn; cbn; auto; try (exfalso; lia); try (apply IH; lia).
Qed.

Lemma set_nth_none {X} : forall (l : list X) i v, nth_error l i = None -> set_nth l i v = l.
Proof.
  induction l as [|h t IH]; intros [|i] v H; cbn in *; auto; try discriminate.
  f_equal; auto.
Qed.

Lemma nth_error_lt {X} : forall (l : list X) i x, nth_error l i = Some x -> i < length l.
Proof. intros l i x H. apply nth_error_Some. congruence. Qed.

Lemma get_chan_some : forall k c ch, nth_error (chans k) c = Some ch -> get_chan k c = ch.
Proof. intros k c ch H. unfold get_chan. now apply nth_error_nth. Qed.

Lemma get_chan_none : forall k c, nth_error (chans k) c = None -> get_chan k c = {| q := []; dead := true |}.
Proof. intros k c H. unfold get_chan. apply nth_overflow. now apply nth_error_None. Qed.

(* ------------------------------------------------------------------------------------------ *)
(* reference counts after replacing one channel                                                 *)
(* ------------------------------------------------------------------------------------------ *)
Lemma count_flat_set_nth : forall cs i old v r, nth_error cs i = Some old ->
  count_occ ref_dec (flat_map live_rights (set_nth cs i v)) r + count_occ ref_dec (live_rights old) r
  = count_occ ref_dec (flat_map live_rights cs) r + count_occ ref_dec (live_rights v) r.
Proof.
  induction cs as [|h t IH]; intros [|i] old v r H; cbn [nth_error set_nth flat_map] in *; try discriminate.
  - injection H as ->. rewrite !count_occ_app. lia.
  - rewrite !count_occ_app. specialize (IH _ _ v r H). lia.
Qed.

Lemma refs_set_nth : forall k i old v h r, nth_error (chans k) i = Some old ->
  refs {| chans := set_nth (chans k) i v; held := h |} r + count_occ ref_dec (live_rights old) r
  = count_occ ref_dec h r + count_occ ref_dec (inflight k) r + count_occ ref_dec (live_rights v) r.
Proof.
  intros k i old v h r H. unfold refs, inflight. cbn [chans held].
  pose proof (count_flat_set_nth _ _ _ v r H). lia.
Qed.

Lemma refs_kill_le : forall k i r, refs (kill k i) r <= refs k r.
Proof.
  intros k i r. unfold kill. destruct (nth_error (chans k) i) as [old|] eqn:E.
  - pose proof (refs_set_nth k i old {| q := []; dead := true |} (held k) r E) as H.
    unfold live_rights at 2 in H. cbn [dead count_occ] in H. unfold refs at 2. lia.
  - rewrite set_nth_none by auto. unfold refs. cbn [chans held]. unfold inflight. cbn [chans]. lia.
Qed.

(* ------------------------------------------------------------------------------------------ *)
(* find_kill                                                                                    *)
(* ------------------------------------------------------------------------------------------ *)
Lemma find_kill_none s : forall cs k, find_kill s k cs = None ->
  forall i ch, nth_error cs i = Some ch -> dead ch = false -> refs s (RR (k + i)) <> 0.
Proof.
  induction cs as [|c cs IH]; intros k H i ch Hn Hd; [destruct i; discriminate|].
  cbn [find_kill] in H. destruct (negb (dead c) && (refs s (RR k) =? 0)) eqn:E; [discriminate|].
  destruct i as [|i]; cbn [nth_error] in Hn.
  - injection Hn as ->. rewrite Hd in E. cbn [negb andb] in E. rewrite Nat.add_0_r. now apply Nat.eqb_neq.
  - replace (k + S i) with (S k + i) by lia. eapply IH; eauto.
Qed.

Lemma find_kill_some s : forall cs k j, find_kill s k cs = Some j ->
  exists i ch, j = k + i /\ nth_error cs i = Some ch /\ dead ch = false /\ refs s (RR j) = 0.
Proof.
  induction cs as [|c cs IH]; intros k j H; [discriminate|]. cbn [find_kill] in H.
  destruct (negb (dead c) && (refs s (RR k) =? 0)) eqn:E.
  - injection H as <-. apply andb_true_iff in E. destruct E as [E1 E2]. exists 0, c.
    rewrite Nat.add_0_r. repeat split; auto. now apply negb_true_iff. now apply Nat.eqb_eq.
  - apply IH in H. destruct H as (i & ch & -> & Hn & Hd & Hr). exists (S i), ch.
    replace (k + S i) with (S k + i) by lia. auto.
Qed.

Lemma find_kill_some0 s j : find_kill s 0 (chans s) = Some j ->
  exists ch, nth_error (chans s) j = Some ch /\ dead ch = false /\ refs s (RR j) = 0.
Proof.
  intros H. apply find_kill_some in H. destruct H as (i & ch & -> & Hn & Hd & Hr).
  exists ch. auto.
Qed.

Lemma find_kill_ext k1 k2 : (forall c, refs k1 (RR c) = refs k2 (RR c)) ->
  forall cs i, find_kill k1 i cs = find_kill k2 i cs.
Proof. intros H; induction cs as [|c cs IH]; intros i; cbn [find_kill]; auto. rewrite H, IH. reflexivity. Qed.

(* ------------------------------------------------------------------------------------------ *)
(* gc reaches a stable state                                                                    *)
(* ------------------------------------------------------------------------------------------ *)
Definition live_count (cs : list chan) : nat := length (filter (fun ch => negb (dead ch)) cs).

Lemma live_count_kill : forall cs i ch, nth_error cs i = Some ch -> dead ch = false ->
  S (live_count (set_nth cs i {| q := []; dead := true |})) = live_count cs.
Proof.
  unfold live_count. induction cs as [|c cs IH]; intros i ch Hn Hd; [destruct i; discriminate|].
  destruct i as [|i]; cbn [nth_error set_nth filter] in *.
  - injection Hn as ->. rewrite Hd. cbn. reflexivity.
  - destruct (negb (dead c)); cbn [length]; erewrite <- IH; eauto.
Qed.

Lemma live_count_le : forall cs, live_count cs <= length cs.
Proof.
  unfold live_count. induction cs as [|c cs IH]; cbn [filter length]; auto.
  destruct (negb (dead c)); cbn [length]; lia.
Qed.

Lemma gc_fuel_stable : forall fuel s, live_count (chans s) <= fuel -> k_stable (gc_fuel fuel s).
Proof.
  induction fuel as [|f IH]; intros s Hl.
  - cbn [gc_fuel]. intros i ch Hn Hd. exfalso.
    assert (Hin : In ch (filter (fun c => negb (dead c)) (chans s))).
    { apply filter_In. split; [eapply nth_error_In; eauto|now rewrite Hd]. }
    unfold live_count in Hl. destruct (filter _ (chans s)); [contradiction|cbn [length] in Hl; lia].
  - cbn [gc_fuel]. destruct (find_kill s 0 (chans s)) as [j|] eqn:E.
    + apply IH. apply find_kill_some0 in E. destruct E as (ch & Hn & Hd & _). unfold kill. cbn [chans].
      pose proof (live_count_kill _ _ _ Hn Hd). lia.
    + intros i ch Hn Hd. exact (find_kill_none s _ 0 E i ch Hn Hd).
Qed.

Theorem gc_stable : forall k, k_stable (gc k).
Proof. intros k. unfold gc. apply gc_fuel_stable. apply live_count_le. Qed.

(* ------------------------------------------------------------------------------------------ *)
(* gc as a sequence of kill steps                                                               *)
(* ------------------------------------------------------------------------------------------ *)
Inductive gcs : kst -> kst -> Prop :=
| gcs_refl : forall k, gcs k k
| gcs_step : forall k i ch k', nth_error (chans k) i = Some ch -> dead ch = false -> refs k (RR i) = 0 ->
    gcs (kill k i) k' -> gcs k k'.

Lemma gc_fuel_gcs : forall fuel k, gcs k (gc_fuel fuel k).
Proof.
  induction fuel as [|f IH]; intros k; cbn [gc_fuel]; [constructor|].
  destruct (find_kill k 0 (chans k)) as [j|] eqn:E; [|constructor].
  apply find_kill_some0 in E. destruct E as (ch & Hn & Hd & Hr).
  eapply gcs_step; eauto.
Qed.

Lemma gc_gcs : forall k, gcs k (gc k).
Proof. intros k. apply gc_fuel_gcs. Qed.

Lemma gcs_held : forall k k', gcs k k' -> held k' = held k.
Proof. induction 1; auto. Qed.

Lemma gcs_length : forall k k', gcs k k' -> length (chans k') = length (chans k).
Proof.
  induction 1 as [|k i ch k' Hn Hd Hr Hg IH]; auto.
  rewrite IH. unfold kill. cbn [chans]. apply length_set_nth.
Qed.

Lemma gcs_refs_le : forall k k', gcs k k' -> forall r, refs k' r <= refs k r.
Proof.
  induction 1 as [|k i ch k' Hn Hd Hr Hg IH]; intros r; auto.
  specialize (IH r). pose proof (refs_kill_le k i r). lia.
Qed.

Lemma gcs_dead_unchanged : forall k k', gcs k k' ->
  forall c ch, nth_error (chans k) c = Some ch -> dead ch = true -> nth_error (chans k') c = Some ch.
Proof.
  induction 1 as [|k i chi k' Hn Hd Hr Hg IH]; intros c ch Hc Hdc; auto.
  apply IH; auto. unfold kill. cbn [chans].
  rewrite nth_error_set_nth_neq; auto. intros ->. congruence.
Qed.

Lemma gcs_live_unchanged : forall k k', gcs k k' ->
  forall c ch ch', nth_error (chans k) c = Some ch -> nth_error (chans k') c = Some ch' ->
  dead ch' = false -> ch' = ch.
Proof.
  induction 1 as [|k i chi k' Hn Hd Hr Hg IH]; intros c ch ch' Hc Hc' Hdc; [congruence|].
  destruct (Nat.eq_dec i c) as [->|Hne].
  - exfalso.
    assert (Hk : nth_error (chans (kill k c)) c = Some {| q := []; dead := true |}).
    { unfold kill. cbn [chans]. apply nth_error_set_nth_eq. eapply nth_error_lt; eauto. }
    pose proof (gcs_dead_unchanged _ _ Hg _ _ Hk eq_refl) as Hk'.
    rewrite Hk' in Hc'. injection Hc' as <-. discriminate.
  - eapply IH; eauto. unfold kill. cbn [chans]. rewrite nth_error_set_nth_neq; auto.
Qed.

Lemma gcs_killed_unreferenced : forall k k', gcs k k' ->
  forall c ch ch', nth_error (chans k) c = Some ch -> dead ch = false ->
  nth_error (chans k') c = Some ch' -> dead ch' = true -> refs k' (RR c) = 0 /\ q ch' = [].
Proof.
  induction 1 as [|k i chi k' Hn Hd Hr Hg IH]; intros c ch ch' Hc Hdc Hc' Hdc'; [congruence|].
  destruct (Nat.eq_dec i c) as [->|Hne].
  - assert (Hk : nth_error (chans (kill k c)) c = Some {| q := []; dead := true |}).
    { unfold kill. cbn [chans]. apply nth_error_set_nth_eq. eapply nth_error_lt; eauto. }
    pose proof (gcs_dead_unchanged _ _ Hg _ _ Hk eq_refl) as Hk'.
    rewrite Hk' in Hc'. injection Hc' as <-. split; [|reflexivity].
    pose proof (gcs_refs_le _ _ Hg (RR c)). pose proof (refs_kill_le k c (RR c)). lia.
  - eapply IH; eauto. unfold kill. cbn [chans]. rewrite nth_error_set_nth_neq; auto.
Qed.

(* ------------------------------------------------------------------------------------------ *)
(* the numbered theorems about gc                                                               *)
(* ------------------------------------------------------------------------------------------ *)
Theorem gc_held : forall k, held (gc k) = held k.
Proof. intros k. apply gcs_held, gc_gcs. Qed.

Theorem gc_length : forall k, length (chans (gc k)) = length (chans k).
Proof. intros k. apply gcs_length, gc_gcs. Qed.

(* a dead channel is literally unchanged by gc *)
Theorem gc_dead_unchanged : forall k c ch, nth_error (chans k) c = Some ch -> dead ch = true ->
  nth_error (chans (gc k)) c = Some ch.
Proof. intros k. apply gcs_dead_unchanged, gc_gcs. Qed.

Theorem gc_dead_mono : forall k c ch, nth_error (chans k) c = Some ch -> dead ch = true ->
  nth_error (chans (gc k)) c = Some {| q := []; dead := true |} \/ nth_error (chans (gc k)) c = Some ch.
Proof. intros k c ch Hn Hd. right. now apply gc_dead_unchanged. Qed.

Theorem gc_dead_stays : forall k c ch, nth_error (chans k) c = Some ch -> dead ch = true ->
  exists ch', nth_error (chans (gc k)) c = Some ch' /\ dead ch' = true.
Proof. intros k c ch Hn Hd. exists ch. split; auto. now apply gc_dead_unchanged. Qed.

Theorem gc_live_unchanged : forall k c ch ch', nth_error (chans k) c = Some ch ->
  nth_error (chans (gc k)) c = Some ch' -> dead ch' = false -> ch' = ch.
Proof. intros k. apply gcs_live_unchanged, gc_gcs. Qed.

Theorem gc_killed_unreferenced : forall k c ch ch', nth_error (chans k) c = Some ch -> dead ch = false ->
  nth_error (chans (gc k)) c = Some ch' -> dead ch' = true -> refs (gc k) (RR c) = 0 /\ q ch' = [].
Proof. intros k. apply gcs_killed_unreferenced, gc_gcs. Qed.

Theorem gc_refs_le : forall k r, refs (gc k) r <= refs k r.
Proof. intros k. apply gcs_refs_le, gc_gcs. Qed.

Theorem gc_wf : forall k, k_wf k -> k_wf (gc k).
Proof.
  intros k W c ch' Hn' Hd'.
  destruct (nth_error (chans k) c) as [ch|] eqn:Hn.
  - destruct (dead ch) eqn:Hd.
    + pose proof (gc_dead_unchanged k c ch Hn Hd) as Hu. rewrite Hu in Hn'. injection Hn' as <-.
      destruct (W c ch Hn Hd) as [Hq Hr]. split; auto.
      pose proof (gc_refs_le k (RR c)). lia.
    + destruct (gc_killed_unreferenced k c ch ch' Hn Hd Hn' Hd'). auto.
  - exfalso. apply nth_error_None in Hn. apply nth_error_lt in Hn'. rewrite gc_length in Hn'. lia.
Qed.

Lemma stable_find_kill_none s : k_stable s -> forall cs k,
  (forall i ch, nth_error cs i = Some ch -> nth_error (chans s) (k + i) = Some ch) ->
  find_kill s k cs = None.
Proof.
  intros St. induction cs as [|c cs IH]; intros k Hsub; cbn [find_kill]; auto.
  destruct (dead c) eqn:Hd; cbn [negb andb].
  - apply IH. intros i ch Hi. replace (S k + i) with (k + S i) by lia. apply Hsub. exact Hi.
  - assert (Hk : nth_error (chans s) (k + 0) = Some c) by (apply Hsub; reflexivity).
    rewrite Nat.add_0_r in Hk. pose proof (St k c Hk Hd) as Hnz.
    apply Nat.eqb_neq in Hnz. rewrite Hnz.
    apply IH. intros i ch Hi. replace (S k + i) with (k + S i) by lia. apply Hsub. exact Hi.
Qed.

Theorem gc_fixpoint : forall k, k_stable k -> gc k = k.
Proof.
  intros k St. unfold gc. destruct (length (chans k)) as [|f]; cbn [gc_fuel]; auto.
  rewrite (stable_find_kill_none k St (chans k) 0); auto.
Qed.

Lemma gc_fuel_ext : forall fuel k1 k2, chans k1 = chans k2 ->
  (forall c, count_occ ref_dec (held k1) (RR c) = count_occ ref_dec (held k2) (RR c)) ->
  chans (gc_fuel fuel k1) = chans (gc_fuel fuel k2).
Proof.
  induction fuel as [|f IH]; intros k1 k2 Hc Hh; cbn [gc_fuel]; auto.
  assert (Hr : forall c, refs k1 (RR c) = refs k2 (RR c)).
  { intro c. unfold refs, inflight. rewrite Hc, Hh. reflexivity. }
  rewrite (find_kill_ext k1 k2 Hr), Hc.
  destruct (find_kill k2 0 (chans k2)) as [j|]; auto.
  apply IH; unfold kill; cbn [chans held]; auto. rewrite Hc. reflexivity.
Qed.

Theorem gc_chans_ext : forall k1 k2, chans k1 = chans k2 ->
  (forall c, count_occ ref_dec (held k1) (RR c) = count_occ ref_dec (held k2) (RR c)) ->
  chans (gc k1) = chans (gc k2).
Proof. intros k1 k2 Hc Hh. unfold gc. rewrite Hc. now apply gc_fuel_ext. Qed.

(* ------------------------------------------------------------------------------------------ *)
(* the calls preserve well-formedness                                                           *)
(* ------------------------------------------------------------------------------------------ *)
Theorem k_init_wf : k_wf k_init.
Proof. intros c ch Hn. destruct c; discriminate. Qed.

Theorem k_new_wf : forall k, k_wf k -> k_wf (fst (k_new k)).
Proof.
  intros k W c ch Hn Hd. unfold k_new in *. cbn [fst chans held] in *.
  destruct (Nat.lt_ge_cases c (length (chans k))) as [Hlt|Hge].
  - rewrite nth_error_app1 in Hn by auto. destruct (W c ch Hn Hd) as [Hq Hr]. split; auto.
    unfold refs, inflight in *. cbn [chans held].
    rewrite flat_map_app, count_occ_app. cbn [flat_map live_rights dead q app].
    rewrite count_occ_cons_neq by discriminate.
    rewrite count_occ_cons_neq by (intros E; injection E; lia).
    cbn [count_occ]. lia.
  - exfalso. rewrite nth_error_app2 in Hn by auto.
    destruct (c - length (chans k)) as [|n]; cbn [nth_error] in Hn.
    + injection Hn as <-. discriminate.
    + destruct n; discriminate.
Qed.

Theorem k_dup_wf : forall k r, k_wf k ->
  (forall c, r = RR c -> exists ch, nth_error (chans k) c = Some ch /\ dead ch = false) ->
  k_wf (k_dup k r).
Proof.
  intros k r W Hr c ch Hn Hd. unfold k_dup in *. cbn [chans] in Hn.
  destruct (W c ch Hn Hd) as [Hq H0]. split; auto.
  unfold refs, inflight in *. cbn [chans held].
  destruct (ref_dec r (RR c)) as [->|Hne].
  - destruct (Hr c eq_refl) as (ch2 & Hn2 & Hd2). congruence.
  - rewrite count_occ_cons_neq by auto. exact H0.
Qed.

Lemma count_occ_remove_one_le : forall r l x,
  count_occ ref_dec (remove_one r l) x <= count_occ ref_dec l x.
Proof.
  induction l as [|h t IH]; intros x; cbn [remove_one count_occ]; auto.
  destruct (ref_dec r h) as [->|Hne].
  - destruct (ref_dec h x); lia.
  - cbn [count_occ]. specialize (IH x). destruct (ref_dec h x); lia.
Qed.

Theorem k_close_wf : forall k r, k_wf k -> k_wf (k_close k r).
Proof.
  intros k r W. unfold k_close. apply gc_wf.
  intros c ch Hn Hd. cbn [chans] in Hn. destruct (W c ch Hn Hd) as [Hq H0]. split; auto.
  unfold refs, inflight in *. cbn [chans held].
  pose proof (count_occ_remove_one_le r (held k) (RR c)). lia.
Qed.

Lemma k_send_some : forall k c m k', k_send k c m = Some k' ->
  exists ch, nth_error (chans k) c = Some ch /\ dead ch = false /\
    k' = {| chans := set_nth (chans k) c {| q := q ch ++ [m]; dead := false |}; held := held k |}.
Proof.
  intros k c m k' H. unfold k_send in H.
  destruct (nth_error (chans k) c) as [ch|] eqn:E.
  - rewrite (get_chan_some _ _ _ E) in H. exists ch. destruct (dead ch); [discriminate|].
    injection H as <-. auto.
  - rewrite (get_chan_none _ _ E) in H. cbn [dead] in H. discriminate.
Qed.

Lemma flat_map_rights_app : forall (l1 l2 : list msg),
  flat_map m_rights (l1 ++ l2) = flat_map m_rights l1 ++ flat_map m_rights l2.
Proof. intros. apply flat_map_app. Qed.

Theorem k_send_wf : forall k c m k', k_wf k -> k_send k c m = Some k' ->
  (forall c', In (RR c') (m_rights m) -> exists ch, nth_error (chans k) c' = Some ch /\ dead ch = false) ->
  k_wf k'.
Proof.
  intros k c m k' W Hs Hm. apply k_send_some in Hs. destruct Hs as (ch & Hn & Hd & ->).
  intros c' ch' Hn' Hd'. cbn [chans] in Hn'.
  destruct (Nat.eq_dec c c') as [<-|Hne].
  - rewrite nth_error_set_nth_eq in Hn' by (eapply nth_error_lt; eauto).
    injection Hn' as <-. discriminate.
  - rewrite nth_error_set_nth_neq in Hn' by auto.
    destruct (W c' ch' Hn' Hd') as [Hq H0]. split; auto.
    pose proof (refs_set_nth k c ch {| q := q ch ++ [m]; dead := false |} (held k) (RR c') Hn) as He.
    unfold live_rights in He. cbn [dead q] in He. rewrite Hd in He.
    rewrite flat_map_rights_app, count_occ_app in He. cbn [flat_map] in He. rewrite app_nil_r in He.
    assert (Hz : count_occ ref_dec (m_rights m) (RR c') = 0).
    { apply count_occ_not_In. intros Hin. destruct (Hm c' Hin) as (ch2 & Hn2 & Hd2). congruence. }
    unfold refs in H0. lia.
Qed.

Lemma k_recv_msg : forall k c m k', k_recv k c = KMsg m k' ->
  exists ch rest, nth_error (chans k) c = Some ch /\ q ch = m :: rest /\
    k' = {| chans := set_nth (chans k) c {| q := rest; dead := dead ch |}; held := m_rights m ++ held k |}.
Proof.
  intros k c m k' H. unfold k_recv in H.
  destruct (nth_error (chans k) c) as [ch|] eqn:E.
  - rewrite (get_chan_some _ _ _ E) in H. destruct (q ch) as [|m0 rest] eqn:Eq.
    + destruct (refs k (RS c) =? 0); discriminate.
    + injection H as <- <-. exists ch, rest. auto.
  - rewrite (get_chan_none _ _ E) in H. cbn [q] in H. destruct (refs k (RS c) =? 0); discriminate.
Qed.

Theorem refs_recv_preserved : forall k c m k' r, k_recv k c = KMsg m k' ->
  dead (get_chan k c) = false -> c < length (chans k) -> refs k' r = refs k r.
Proof.
  intros k c m k' r H Hd _. apply k_recv_msg in H. destruct H as (ch & rest & Hn & Hq & ->).
  rewrite (get_chan_some _ _ _ Hn) in Hd. rewrite Hd.
  pose proof (refs_set_nth k c ch {| q := rest; dead := false |} (m_rights m ++ held k) r Hn) as He.
  unfold live_rights in He. cbn [dead q] in He. rewrite Hd, Hq in He.
  cbn [flat_map] in He. rewrite !count_occ_app in He. unfold refs at 2. lia.
Qed.

Theorem k_recv_wf : forall k c m k', k_wf k -> k_recv k c = KMsg m k' -> k_wf k'.
Proof.
  intros k c m k' W H. pose proof H as H2. apply k_recv_msg in H2.
  destruct H2 as (ch & rest & Hn & Hq & Hk').
  assert (Hd : dead ch = false).
  { destruct (dead ch) eqn:Hd; auto. destruct (W c ch Hn Hd) as [Hq0 _]. congruence. }
  assert (Hrefs : forall r, refs k' r = refs k r).
  { intros r. eapply refs_recv_preserved; eauto.
    - now rewrite (get_chan_some _ _ _ Hn).
    - eapply nth_error_lt; eauto. }
  intros c' ch' Hn' Hd'. rewrite Hrefs. subst k'. cbn [chans] in Hn'.
  destruct (Nat.eq_dec c c') as [<-|Hne].
  - rewrite nth_error_set_nth_eq in Hn' by (eapply nth_error_lt; eauto).
    injection Hn' as <-. cbn [dead] in Hd'. congruence.
  - rewrite nth_error_set_nth_neq in Hn' by auto. exact (W c' ch' Hn' Hd').
Qed.

(* ------------------------------------------------------------------------------------------ *)
(* send / dead / stable                                                                         *)
(* ------------------------------------------------------------------------------------------ *)
Theorem send_fails_iff_dead : forall k c m, k_send k c m = None <-> dead (get_chan k c) = true.
Proof.
  intros k c m. unfold k_send. destruct (dead (get_chan k c)); split; intros H; auto; discriminate.
Qed.

Theorem stable_dead_iff : forall k c ch, k_wf k -> k_stable k -> nth_error (chans k) c = Some ch ->
  (dead ch = true <-> refs k (RR c) = 0).
Proof.
  intros k c ch W St Hn. split.
  - intros Hd. destruct (W c ch Hn Hd). auto.
  - intros H0. destruct (dead ch) eqn:Hd; auto. exfalso. exact (St c ch Hn Hd H0).
Qed.

Print Assumptions gc_stable.
Print Assumptions gc_held.
Print Assumptions gc_length.
Print Assumptions gc_dead_mono.
Print Assumptions gc_dead_stays.
Print Assumptions gc_live_unchanged.
Print Assumptions gc_killed_unreferenced.
Print Assumptions gc_wf.
Print Assumptions gc_fixpoint.
Print Assumptions gc_chans_ext.
Print Assumptions k_init_wf.
Print Assumptions k_new_wf.
Print Assumptions k_dup_wf.
Print Assumptions k_close_wf.
Print Assumptions k_send_wf.
Print Assumptions k_recv_wf.
Print Assumptions refs_recv_preserved.
Print Assumptions send_fails_iff_dead.
Print Assumptions stable_dead_iff.
