(* FragRetry: the number of ENOBUFS retries inside one send() is bounded by log2 of the send-buffer size - whatever the
   kernel answers (an oracle that reports ENOBUFS for ever included), whatever the message length.  Every retry at least
   halves the estimate (generated `downsize`), and the estimate never drops below 48, so send() gives up (ErrNoBufs) or
   gets through after at most log2(S) refused attempts: buffer exhaustion cannot make a send spin. *)
From Coq Require Import ZArith List Bool Lia.
From IPC Require Import U64 Params Frag ParamsFacts FragProofs.
Import ListNotations.
Open Scope Z_scope.
Ltac Zify.zify_post_hook ::= Z.div_mod_to_equations.

Arguments first_fragment_size : simpl never.
Arguments fragment_size : simpl never.
Arguments send_first_end : simpl never.
Arguments send_follow_end : simpl never.
Arguments downsize : simpl never.

Definition is_nobufs (e : ev) : bool :=
  match e with EvSendmsg _ _ _ _ _ SNoBufs | EvSend _ _ SNoBufs => true | _ => false end.
Definition retries (evs : list ev) : Z := Z.of_nat (length (filter is_nobufs evs)).

Lemma retries_cons e l : retries (e :: l) = (if is_nobufs e then 1 else 0) + retries l.
Proof. unfold retries. cbn [filter]. destruct (is_nobufs e); cbn [length]; lia. Qed.
Lemma retries_nil : retries [] = 0. Proof. reflexivity. Qed.
Lemma retries_app a b : retries (a ++ b) = retries a + retries b.
Proof. unfold retries. rewrite filter_app, app_length. lia. Qed.

Lemma downsize_half sb sent sb' : downsize sb sent = Some sb' -> 0 <= sb -> 0 <= sent -> 2 * sb' <= sb.
Proof.
  unfold downsize, U.div. intros H Hsb Hs.
  destruct (sent >? 2000) eqn:E; [|discriminate]. injection H as <-.
  destruct (sb / 2 >=? sent) eqn:E2; lia.
Qed.

Lemma log2_half a b : 0 < a -> 2 * a <= b -> Z.log2 a + 1 <= Z.log2 b.
Proof. intros Ha H. pose proof (Z.log2_double a Ha). pose proof (Z.log2_le_mono (2 * a) b H). lia. Qed.

Lemma log2_48 sb : 48 <= sb -> 5 <= Z.log2 sb.
Proof. intros H. change 5 with (Z.log2 48). apply Z.log2_le_mono. lia. Qed.

Lemma mk_nobufs (first : bool) len e nfds pos r :
  is_nobufs (if first then EvSendmsg len 0 e (nfds + 1) true r else EvSend pos e r) =
  match r with SNoBufs => true | _ => false end.
Proof. destruct first, r; reflexivity. Qed.

Lemma loop_retries : forall fuel len nfds sb pos faults o evs,
  frag_loop fuel len nfds sb pos faults = (o, evs) -> 0 <= pos -> len < 2 ^ 62 -> 48 <= sb < 2 ^ 62 ->
  retries evs <= Z.log2 sb.
Proof.
  induction fuel as [|f IH]; intros len nfds sb pos faults o evs H Hp Hlen Hsb.
  { cbn in H. injection H as <- <-. rewrite retries_nil. apply Z.log2_nonneg. }
  pose proof (log2_48 sb ltac:(lia)) as L5.
  cbn [frag_loop] in H.
  destruct (pos <? len) eqn:E; [|injection H as <- <-; rewrite retries_nil; lia].
  destruct (negb _); [injection H as <- <-; rewrite retries_nil; lia|].
  destruct (_ && _); [injection H as <- <-; rewrite retries_nil; lia|].
  set (e := if pos =? 0 then send_first_end sb else send_follow_end pos sb len) in *.
  assert (E0 : pos <= e /\ e - pos <= fs sb).
  { subst e. destruct (pos =? 0) eqn:P0.
    - destruct (send_first_end_eq sb ltac:(lia)) as [-> _].
      destruct (ffs_bounds sb ltac:(rewrite RESERVED_SIZE_val; lia)). unfold fs. rewrite RESERVED_SIZE_val in *. lia.
    - destruct (send_follow_end_eq pos sb len ltac:(lia) ltac:(lia)) as [-> _]. unfold fs. rewrite RESERVED_SIZE_val. lia. }
  destruct E0 as [E0 E1].
  destruct (next_fault faults) as [fl rest]. destruct fl.
  - destruct (frag_loop f len nfds sb e rest) as [o1 evs1] eqn:R. injection H as <- <-.
    pose proof (IH _ _ _ _ _ _ _ R ltac:(lia) Hlen Hsb) as B.
    rewrite retries_cons, mk_nobufs.
    destruct (pos =? 0); rewrite ?retries_cons; cbn [is_nobufs]; lia.
  - destruct (negb _).
    + injection H as <- <-. rewrite retries_cons, mk_nobufs, retries_nil. lia.
    + assert (Hsub : U.sub e pos = e - pos).
      { unfold U.sub. apply wrap_id. rewrite modulus_val. unfold fs in E1. rewrite RESERVED_SIZE_val in E1. lia. }
      rewrite Hsub in H.
      destruct (downsize sb (e - pos)) as [sb'|] eqn:D.
      * destruct (frag_loop f len nfds sb' pos rest) as [o1 evs1] eqn:R. injection H as <- <-.
        pose proof (downsize_half _ _ _ D ltac:(lia) ltac:(lia)) as Hh.
        destruct (downsize_keeps _ _ _ sb D ltac:(lia) ltac:(lia)) as (K1 & _).
        pose proof (IH _ _ _ _ _ _ _ R Hp Hlen ltac:(lia)) as B.
        pose proof (log2_half sb' sb ltac:(lia) Hh).
        rewrite retries_cons, mk_nobufs. lia.
      * injection H as <- <-. rewrite retries_cons, mk_nobufs, retries_nil. lia.
  - injection H as <- <-. rewrite retries_cons, mk_nobufs, retries_nil. lia.
Qed.

Lemma go_frag_retries fuel len nfds sb faults pre o evs :
  go_frag fuel len nfds sb faults pre = (o, evs) -> len < 2 ^ 62 -> 48 <= sb < 2 ^ 62 ->
  retries evs <= retries pre + Z.log2 sb.
Proof.
  intros H Hlen Hsb. unfold go_frag in H. pose proof (Z.log2_nonneg sb).
  destruct (MAX_FDS_IN_CMSG <? nfds + 1); [injection H as <- <-; lia|].
  destruct (frag_loop fuel len nfds sb 0 faults) as [o1 evs1] eqn:R. unfold finish_frag in H. injection H as <- <-.
  pose proof (loop_retries _ _ _ _ _ _ _ _ R ltac:(lia) Hlen Hsb).
  rewrite retries_app, retries_cons, retries_app. cbn [is_nobufs].
  destruct (has_close_rx evs1); rewrite !retries_cons, retries_nil; cbn [is_nobufs]; lia.
Qed.

Theorem send_retries_bounded fuel Ss len nfds faults o evs :
  48 <= Ss < 2 ^ 62 -> 0 <= len < 2 ^ 62 ->
  send fuel Ss len nfds faults = (o, evs) -> retries evs <= Z.log2 Ss.
Proof.
  intros HS Hlen H. unfold send in H. pose proof (log2_48 Ss ltac:(lia)) as L5.
  destruct (MAX_FDS_IN_CMSG <? nfds); [injection H as <- <-; rewrite retries_nil; lia|].
  destruct (first_fragment_size_safe Ss); cbn [negb] in H; [|injection H as <- <-; rewrite retries_nil; lia].
  destruct (send_single_packet len Ss) eqn:SP.
  - destruct (next_fault faults) as [fl rest]. destruct fl; cbn [res_of] in H.
    + injection H as <- <-. rewrite retries_cons, retries_nil. cbn [is_nobufs]. lia.
    + rewrite downsize_safe_true in H. cbn [negb] in H.
      destruct (downsize Ss len) as [sb'|] eqn:D; [|injection H as <- <-; rewrite retries_cons, retries_nil; cbn [is_nobufs]; lia].
      rewrite send_single_packet_eq in SP by lia.
      destruct (ffs_bounds Ss ltac:(rewrite RESERVED_SIZE_val; lia)) as [F1 F2].
      destruct (downsize_keeps _ _ _ Ss D ltac:(lia) ltac:(unfold fs; rewrite RESERVED_SIZE_val; lia)) as (K1 & _).
      pose proof (downsize_half _ _ _ D ltac:(lia) ltac:(lia)) as Hh.
      pose proof (log2_half sb' Ss ltac:(lia) Hh).
      pose proof (go_frag_retries _ _ _ _ _ _ _ _ H ltac:(lia) ltac:(lia)) as B.
      rewrite retries_cons, retries_nil in B. cbn [is_nobufs] in B. lia.
    + injection H as <- <-. rewrite retries_cons, retries_nil. cbn [is_nobufs]. lia.
  - pose proof (go_frag_retries _ _ _ _ _ _ _ _ H ltac:(lia) ltac:(lia)) as B. rewrite retries_nil in B. lia.
Qed.

(* a kernel that answers ENOBUFS to every attempt: the default buffer (212992, log2 = 17) gives up after 8 attempts *)
Example retries_ex :
  let r := send 100 212992 67108864 1 (repeat FNoBufs 90) in fst r = ErrNoBufs /\ retries (snd r) = 8.
Proof. vm_compute. split; reflexivity. Qed.
