(* CrashLink: the parameter of the receiver-set and timed-receive models ("which queued messages are the remains of a crashed
   sender's send") instantiated with the ghost state of the Crash LTS: a message is torn exactly when Crash marked it aborted. *)
From Coq Require Import List Arith Bool.
From IPC Require Import Crash RSet.
Import ListNotations.

Section Link.
Context {A : Type}.

(* ids of the messages the Crash model says are delivered from a stretch of the linearised order = what the set model reports
   for a member whose queue holds those ids, with tornp := is_aborted *)
Lemma survivors_ids : forall (s : @sys A) (l : list (mid * list A)),
  map fst (filter (fun d => negb (is_aborted s (fst d))) l) = RSet.good (is_aborted s) (map fst l).
Proof.
  intros s l. induction l as [|[m x] t IH]; [reflexivity|]. cbn [filter map fst RSet.good].
  destruct (is_aborted s m); cbn [negb map fst]; [exact IH|]. f_equal. exact IH.
Qed.

Lemma survivors_length : forall (s : @sys A) l, length (survivors s l) = length (RSet.good (is_aborted s) (map fst l)).
Proof. intros s l. unfold survivors. rewrite map_length, <- survivors_ids, map_length. reflexivity. Qed.

(* a receive that finds torn messages at the head of the queue skips exactly the aborted ones *)
Lemma strip_aborted : forall (s : @sys A) (ids : list nat),
  RSet.good (is_aborted s) (RSet.strip (is_aborted s) ids) = RSet.good (is_aborted s) ids.
Proof.
  intros s ids. induction ids as [|x r IH]; [reflexivity|]. cbn [RSet.strip].
  destruct (is_aborted s x) eqn:E; [rewrite IH; cbn [RSet.good filter]; rewrite E; reflexivity|reflexivity].
Qed.
End Link.
