(* InprocSrvProofs: the in-process one-shot server for EVERY interleaving of the statements of accept() with the clients'
   connect / clone / send / drop:  what was read = a prefix of what was sent (accept's message first); once accept has returned
   no sender is parked in the registry or in a clone of the record, so the receiver's 'disconnected' is exact; accept never
   waits for ever once a client has connected - it ends with the first message, or with 'closed' if every client handle went
   away without sending. *)
From Coq Require Import List Arith Bool Lia.
From IPC Require Import InprocSrv.
Import ListNotations.

Ltac disc := let H := fresh in intro H; discriminate H.

Definition after_removed (p : aphase) : bool := match p with PRemoved | PDoneOk | PDoneErr => true | _ => false end.
Definition consumed (p : aphase) : nat := match p with PIdle | PCloned => 0 | _ => 1 end.

Record Inv (s : st) : Prop := {
  inv_fifo : got s ++ queue s = sent s;
  inv_reg : reg s = created s && negb (after_removed (phase s));
  inv_idle : created s = false -> phase s = PIdle /\ clients s = 0 /\ tokens s = 0 /\ nconn s = 0 /\ sent s = [];
  inv_tok : tokens s + consumed (phase s) = nconn s;
  inv_got : (phase s = PDoneOk -> got s <> []) /\ (phase s <> PDoneOk -> got s = []) }.

Lemma Inv_init : Inv init.
Proof. constructor; cbn; auto. split; [disc|auto]. Qed.

Ltac fields := cbn [created reg tokens phase clients nconn queue sent got obs rxlive sres upd refused accepted_send set_rx after_removed consumed negb andb] in *.

Ltac fin I G2 F :=
  constructor; fields; auto;
  try (split; [disc|]); try (intros _; first [reflexivity | apply G2; disc]);
  try disc;
  try (let Hc := fresh in intros Hc; destruct (I Hc) as (? & ? & ? & ? & ?); try discriminate; try congruence; try lia);
  try lia;
  try (rewrite <- F; rewrite <- ?app_assoc; reflexivity);
  try (rewrite app_assoc, F; reflexivity).

Lemma Inv_step : forall s l s', Inv s -> step s l = Some s' -> Inv s'.
Proof.
  intros s l s' [F R I T [G1 G2]] H. destruct l; unfold step in H.
  - destruct (created s) eqn:Ec; [discriminate|]. injection H as <-. fin I G2 F.
  - destruct (reg s) eqn:Er; [|discriminate]. injection H as <-.
    symmetry in R. apply andb_true_iff in R. destruct R as [Rc Rp].
    fin I G2 F; try (now rewrite Rc, Rp).
  - destruct (clients s) eqn:Ecl; [discriminate|]. injection H as <-. fin I G2 F.
  - destruct (clients s) eqn:Ecl; [discriminate|]. injection H as <-. fin I G2 F.
  - destruct (clients s) eqn:Ecl; [discriminate|]. destruct (rxlive s); injection H as <-; fin I G2 F.
  - destruct (phase s) eqn:Ep; try discriminate. destruct (reg s) eqn:Er; cbn [andb] in H; [|discriminate].
    destruct (rxlive s); [|discriminate]. injection H as <-.
    symmetry in R. apply andb_true_iff in R. destruct R as [Rc _].
    fin I G2 F; try (now rewrite Rc).
  - destruct (phase s) eqn:Ep; try discriminate. destruct (tokens s) eqn:Et; [discriminate|]. injection H as <-. fin I G2 F.
  - destruct (phase s) eqn:Ep; try discriminate. injection H as <-. fin I G2 F.
  - destruct (phase s) eqn:Ep; try discriminate. injection H as <-. fin I G2 F; try (now rewrite andb_false_r).
  - destruct (phase s) eqn:Ep; try discriminate. destruct (queue s) as [|x q] eqn:Eq.
    + destruct (Nat.eqb (senders s) 0); [|discriminate]. injection H as <-. fin I G2 F.
    + injection H as <-. fin I G2 F; try (split; [intros _; destruct (got s); disc|intros Hx; contradiction]).
  - destruct (phase s) eqn:Ep; try discriminate. destruct (rxlive s); cbn [negb] in H; [|discriminate].
    destruct (queue s) as [|x q] eqn:Eq; injection H as <-; fin I G2 F;
    try (split; [intros _; destruct (got s); disc|intros Hx; contradiction]).
  - destruct (phase s) eqn:Ep; try discriminate. destruct (created s && rxlive s); [|discriminate]. injection H as <-.
    constructor; cbn [created reg tokens phase clients nconn queue sent got obs set_rx]; rewrite ?Ep; auto.
  - destruct (phase s) eqn:Ep; try discriminate. destruct (rxlive s); [|discriminate]. injection H as <-.
    constructor; cbn [created reg tokens phase clients nconn queue sent got obs set_rx]; rewrite ?Ep; auto.
Qed.

Lemma Inv_run : forall ls s s', Inv s -> run s ls = Some s' -> Inv s'.
Proof.
  induction ls as [|l r IH]; intros s s' I H; cbn [run] in H; [injection H as <-; exact I|].
  destruct (step s l) as [s1|] eqn:Es; [|discriminate]. eapply IH; [eapply Inv_step; eauto|exact H].
Qed.

Theorem reachable_inv : forall ls s, run init ls = Some s -> Inv s.
Proof. intros ls s H. eapply Inv_run; [exact Inv_init|exact H]. Qed.

(* ---- consequences, for every interleaving ---- *)

(* what was read (accept's message first, then the receiver's) followed by what is still queued is what the clients sent *)
Theorem isrv_fifo : forall ls s, run init ls = Some s -> got s ++ queue s = sent s.
Proof. intros ls s H. exact (inv_fifo _ (reachable_inv _ _ H)). Qed.

(* accept returns the first message that was sent *)
Theorem isrv_accept_first : forall ls s, run init ls = Some s -> phase s = PDoneOk ->
  exists x rest, got s = x :: rest /\ sent s = x :: rest ++ queue s.
Proof.
  intros ls s H Hp. pose proof (reachable_inv _ _ H) as [F _ _ _ [G1 _]].
  destruct (got s) as [|x rest] eqn:Eg; [exfalso; now apply G1|]. exists x, rest. split; [reflexivity|now rewrite <- F].
Qed.

(* once accept has handed out the receiver, nobody but the clients holds a sender of the channel: nothing is parked in the
   registry or in accept's clone of the record *)
Theorem isrv_no_parked_sender : forall ls s, run init ls = Some s -> after_removed (phase s) = true -> senders s = clients s.
Proof.
  intros ls s H Hp. pose proof (reachable_inv _ _ H) as [_ R _ _ _]. unfold senders.
  rewrite R, Hp, andb_false_r. destruct (phase s); try discriminate; reflexivity.
Qed.

(* ... hence the receiver reports 'disconnected' exactly when its queue is empty and no client handle is left *)
Theorem isrv_disconnected_exact : forall ls s s', run init ls = Some s -> step s IRecv = Some s' ->
  (exists o, obs s' = obs s ++ [o] /\
     (o = ODisc <-> queue s = [] /\ clients s = 0) /\ (forall x, o = OMsg x <-> exists q, queue s = x :: q)).
Proof.
  intros ls s s' H Hs. unfold step in Hs. destruct (phase s) eqn:Ep; try discriminate.
  destruct (rxlive s); cbn [negb] in Hs; [|discriminate].
  pose proof (isrv_no_parked_sender _ _ H) as Hn. rewrite Ep in Hn. specialize (Hn eq_refl).
  destruct (queue s) as [|x q] eqn:Eq; injection Hs as <-; cbn [obs upd].
  - rewrite Hn. destruct (Nat.eqb_spec (clients s) 0) as [E|E].
    + exists ODisc. split; auto. split; [tauto|]. intros x. split; [discriminate|]. intros (q & Hq). discriminate.
    + exists OEmpty. split; auto. split; [split; [discriminate|tauto]|]. intros x. split; [discriminate|]. intros (q & Hq). discriminate.
  - exists (OMsg x). split; auto. split; [split; [discriminate|intros [Hq _]; discriminate]|].
    intros y. split; [intros E; injection E as <-; eauto|]. intros (q' & Hq). now injection Hq as -> _.
Qed.

(* accept is never stuck for ever once a client has connected: the token is there, and the final receive returns as soon as a
   message is queued or every client handle is gone (then with 'closed') *)
Theorem isrv_accept_progress : forall ls s, run init ls = Some s ->
  (phase s = PCloned -> 0 < nconn s -> exists s', step s IAcc2 = Some s') /\
  (phase s = PToken -> exists s', step s IAcc3 = Some s') /\
  (phase s = PDropped -> exists s', step s IAcc4 = Some s') /\
  (phase s = PRemoved -> (queue s <> [] \/ clients s = 0) -> exists s', step s IAcc5 = Some s').
Proof.
  intros ls s H. pose proof (reachable_inv _ _ H) as [F R I T G]. repeat split; intros Hp.
  - intros Hn. unfold step. rewrite Hp in *. cbn [consumed] in T. destruct (tokens s) eqn:Et; [lia|eauto].
  - unfold step. rewrite Hp. eauto.
  - unfold step. rewrite Hp. eauto.
  - intros Hq. unfold step. rewrite Hp. destruct (queue s) as [|x q] eqn:Eq; [|eauto].
    destruct Hq as [Hq|Hc]; [contradiction|].
    assert (Hs : senders s = 0).
    { rewrite (isrv_no_parked_sender _ _ H); [exact Hc|now rewrite Hp]. }
    rewrite Hs. cbn. eauto.
Qed.


(* ---- sends and the existence of the receiving end (C09) ---- *)
(* every send is answered: Ok - and then the message is queued - exactly while the receiving end exists (inside the server object
   before accept, in the hands of the program afterwards); after the server was dropped unaccepted, or the accepted receiver
   dropped, every send fails and queues nothing.  The sender parked in the registry entry of a dropped server does not matter. *)
Theorem isrv_send_result : forall s x s', step s (ISend x) = Some s' ->
  sres s' = sres s ++ [rxlive s] /\ rxlive s' = rxlive s /\
  (if rxlive s then queue s' = queue s ++ [x] else queue s' = queue s /\ sent s' = sent s).
Proof.
  intros s x s' H. unfold step in H. destruct (clients s); [discriminate|].
  destruct (rxlive s) eqn:E; injection H as <-; cbn; rewrite ?E; auto.
Qed.

Definition rx_gone (ls : list label) : Prop := In IDropSrv ls \/ In IDropRx ls.

Lemma rxlive_mono : forall s l s', step s l = Some s' -> created s = true -> rxlive s = false -> rxlive s' = false /\ created s' = true.
Proof.
  intros s l s' H Hc Hr. destruct l; unfold step in H; rewrite ?Hc, ?Hr in H; cbn [andb negb] in H;
    repeat match type of H with
           | (if ?c then _ else _) = _ => destruct c eqn:?
           | match ?c with _ => _ end = _ => destruct c eqn:?
           end; try discriminate; injection H as <-; cbn; auto.
Qed.

Theorem isrv_dropped_stays_dropped : forall ls s s', run s ls = Some s' -> created s = true -> rxlive s = false -> rxlive s' = false.
Proof.
  induction ls as [|l r IH]; intros s s' H Hc Hr; cbn [run] in H; [injection H as <-; exact Hr|].
  destruct (step s l) as [s1|] eqn:Es; [|discriminate]. destruct (rxlive_mono _ _ _ Es Hc Hr) as [H1 H2]. eapply IH; eauto.
Qed.

(* after the drop, every later send of every client fails *)
Theorem isrv_send_after_drop_fails : forall pre s l ls s1 s2 x s3, run init pre = Some s ->
  (l = IDropSrv \/ l = IDropRx) -> step s l = Some s1 -> run s1 ls = Some s2 -> step s2 (ISend x) = Some s3 ->
  sres s3 = sres s2 ++ [false] /\ queue s3 = queue s2.
Proof.
  intros pre s l ls s1 s2 x s3 Hpre Hl H1 H2 H3.
  pose proof (reachable_inv _ _ Hpre) as [_ _ I _ _].
  assert (Hc : created s1 = true /\ rxlive s1 = false).
  { destruct Hl as [-> | ->]; unfold step in H1; destruct (phase s) eqn:Ep; try discriminate.
    - destruct (created s) eqn:Ec; cbn [andb] in H1; [|discriminate]. destruct (rxlive s); [|discriminate]. injection H1 as <-. cbn. auto.
    - destruct (rxlive s) eqn:Er; [|discriminate]. injection H1 as <-. cbn. split; [|reflexivity].
      destruct (created s) eqn:Ec; [reflexivity|]. destruct (I eq_refl) as [Hp _]. discriminate Hp. }
  destruct Hc as [Hc Hr]. pose proof (isrv_dropped_stays_dropped _ _ _ H2 Hc Hr) as Hd.
  destruct (isrv_send_result _ _ _ H3) as (A & _ & B). rewrite Hd in *. destruct B as [B _]. auto.
Qed.

(* ... while a send to a server that exists and has not accepted yet succeeds and is queued for accept() *)
Theorem isrv_send_before_accept_ok : forall pre s x, run init pre = Some s -> ~ In IDropSrv pre -> ~ In IDropRx pre -> 0 < clients s ->
  exists s', step s (ISend x) = Some s' /\ sres s' = sres s ++ [true] /\ queue s' = queue s ++ [x].
Proof.
  intros pre s x H N1 N2 Hc.
  assert (L : created s = true -> rxlive s = true).
  { clear Hc. revert s H. induction pre as [|l r IH] using rev_ind; intros s H.
    - injection H as <-. discriminate.
    - assert (exists s0, run init r = Some s0 /\ step s0 l = Some s) as (s0 & H0 & Hs).
      { clear -H. revert H. generalize init. induction r as [|a r IH]; intros i H; cbn [run app] in *.
        - destruct (step i l) as [s1|] eqn:E; [|discriminate]. injection H as <-. eauto.
        - destruct (step i a) as [s1|] eqn:E; [|discriminate]. destruct (IH _ H) as (s0 & A & B). eauto. }
      assert (N1' : ~ In IDropSrv r) by (intro X; apply N1; apply in_app_iff; auto).
      assert (N2' : ~ In IDropRx r) by (intro X; apply N2; apply in_app_iff; auto).
      specialize (IH N1' N2' _ H0).
      assert (Hl1 : l <> IDropSrv) by (intro; subst; apply N1; apply in_app_iff; cbn; auto).
      assert (Hl2 : l <> IDropRx) by (intro; subst; apply N2; apply in_app_iff; cbn; auto).
      destruct l; try contradiction; unfold step in Hs;
        repeat match type of Hs with
               | (if ?c then _ else _) = _ => destruct c eqn:?
               | match ?c with _ => _ end = _ => destruct c eqn:?
               end; try discriminate; injection Hs as <-; cbn; auto; try (intros Hx; specialize (IH Hx); congruence). }
  pose proof (reachable_inv _ _ H) as [_ _ I _ _].
  assert (Hcr : created s = true).
  { destruct (created s) eqn:Ec; [reflexivity|]. destruct (I eq_refl) as (_ & Hcl & _). lia. }
  specialize (L Hcr). unfold step. destruct (clients s) eqn:Ecl; [lia|]. rewrite L. eexists. split; [reflexivity|]. cbn. auto.
Qed.
