(* InprocSrvProofs: the in-process one-shot server for EVERY interleaving of the statements of accept() with the clients'
   connect / clone / send / drop:  what was read = a prefix of what was sent (accept's message first); once accept has returned
   no sender is parked in the registry or in a clone of the record, so the receiver's 'disconnected' is exact; accept never
   waits for ever once a client has connected - it ends with the first message, or with 'closed' if every client handle went
   away without sending. *)
From Coq Require Import List Arith Bool Lia.
From IPC Require Import InprocSrv.
Import ListNotations.

Ltac disc := let H := fresh in intro H; discriminate H.

Definition after_removed (p : aphase) : bool := match p with PRemoved | PDoneOk | PDoneErr => true | _ => false end.
Definition consumed (p : aphase) : nat := match p with PIdle | PCloned => 0 | _ => 1 end.

Record Inv (s : st) : Prop := {
  inv_fifo : got s ++ queue s = sent s;
  inv_reg : reg s = created s && negb (after_removed (phase s));
  inv_idle : created s = false -> phase s = PIdle /\ clients s = 0 /\ tokens s = 0 /\ nconn s = 0 /\ sent s = [];
  inv_tok : tokens s + consumed (phase s) = nconn s;
  inv_got : (phase s = PDoneOk -> got s <> []) /\ (phase s <> PDoneOk -> got s = []) }.

Lemma Inv_init : Inv init.
Proof. constructor; cbn; auto. split; [disc|auto]. Qed.

Ltac fields := cbn [created reg tokens phase clients nconn queue sent got obs upd after_removed consumed negb andb] in *.

Ltac fin I G2 F :=
  constructor; fields; auto;
  try (split; [disc|]); try (intros _; first [reflexivity | apply G2; disc]);
  try disc;
  try (let Hc := fresh in intros Hc; destruct (I Hc) as (? & ? & ? & ? & ?); try discriminate; try congruence; try lia);
  try lia;
  try (rewrite <- F; rewrite <- ?app_assoc; reflexivity);
  try (rewrite app_assoc, F; reflexivity).

Lemma Inv_step : forall s l s', Inv s -> step s l = Some s' -> Inv s'.
Proof.
  intros s l s' [F R I T [G1 G2]] H. destruct l; unfold step in H.
  - destruct (created s) eqn:Ec; [discriminate|]. injection H as <-. fin I G2 F.
  - destruct (reg s) eqn:Er; [|discriminate]. injection H as <-.
    symmetry in R. apply andb_true_iff in R. destruct R as [Rc Rp].
    fin I G2 F; try (now rewrite Rc, Rp).
  - destruct (clients s) eqn:Ecl; [discriminate|]. injection H as <-. fin I G2 F.
  - destruct (clients s) eqn:Ecl; [discriminate|]. injection H as <-. fin I G2 F.
  - destruct (clients s) eqn:Ecl; [discriminate|]. injection H as <-. fin I G2 F.
  - destruct (phase s) eqn:Ep; try discriminate. destruct (reg s) eqn:Er; [|discriminate]. injection H as <-.
    symmetry in R. apply andb_true_iff in R. destruct R as [Rc _].
    fin I G2 F; try (now rewrite Rc).
  - destruct (phase s) eqn:Ep; try discriminate. destruct (tokens s) eqn:Et; [discriminate|]. injection H as <-. fin I G2 F.
  - destruct (phase s) eqn:Ep; try discriminate. injection H as <-. fin I G2 F.
  - destruct (phase s) eqn:Ep; try discriminate. injection H as <-. fin I G2 F; try (now rewrite andb_false_r).
  - destruct (phase s) eqn:Ep; try discriminate. destruct (queue s) as [|x q] eqn:Eq.
    + destruct (Nat.eqb (senders s) 0); [|discriminate]. injection H as <-. fin I G2 F.
    + injection H as <-. fin I G2 F; try (split; [intros _; destruct (got s); disc|intros Hx; contradiction]).
  - destruct (phase s) eqn:Ep; try discriminate. destruct (queue s) as [|x q] eqn:Eq; injection H as <-; fin I G2 F;
    try (split; [intros _; destruct (got s); disc|intros Hx; contradiction]).
Qed.

Lemma Inv_run : forall ls s s', Inv s -> run s ls = Some s' -> Inv s'.
Proof.
  induction ls as [|l r IH]; intros s s' I H; cbn [run] in H; [injection H as <-; exact I|].
  destruct (step s l) as [s1|] eqn:Es; [|discriminate]. eapply IH; [eapply Inv_step; eauto|exact H].
Qed.

Theorem reachable_inv : forall ls s, run init ls = Some s -> Inv s.
Proof. intros ls s H. eapply Inv_run; [exact Inv_init|exact H]. Qed.

(* ---- consequences, for every interleaving ---- *)

(* what was read (accept's message first, then the receiver's) followed by what is still queued is what the clients sent *)
Theorem isrv_fifo : forall ls s, run init ls = Some s -> got s ++ queue s = sent s.
Proof. intros ls s H. exact (inv_fifo _ (reachable_inv _ _ H)). Qed.

(* accept returns the first message that was sent *)
Theorem isrv_accept_first : forall ls s, run init ls = Some s -> phase s = PDoneOk ->
  exists x rest, got s = x :: rest /\ sent s = x :: rest ++ queue s.
Proof.
  intros ls s H Hp. pose proof (reachable_inv _ _ H) as [F _ _ _ [G1 _]].
  destruct (got s) as [|x rest] eqn:Eg; [exfalso; now apply G1|]. exists x, rest. split; [reflexivity|now rewrite <- F].
Qed.

(* once accept has handed out the receiver, nobody but the clients holds a sender of the channel: nothing is parked in the
   registry or in accept's clone of the record *)
Theorem isrv_no_parked_sender : forall ls s, run init ls = Some s -> after_removed (phase s) = true -> senders s = clients s.
Proof.
  intros ls s H Hp. pose proof (reachable_inv _ _ H) as [_ R _ _ _]. unfold senders.
  rewrite R, Hp, andb_false_r. destruct (phase s); try discriminate; reflexivity.
Qed.

(* ... hence the receiver reports 'disconnected' exactly when its queue is empty and no client handle is left *)
Theorem isrv_disconnected_exact : forall ls s s', run init ls = Some s -> step s IRecv = Some s' ->
  (exists o, obs s' = obs s ++ [o] /\
     (o = ODisc <-> queue s = [] /\ clients s = 0) /\ (forall x, o = OMsg x <-> exists q, queue s = x :: q)).
Proof.
  intros ls s s' H Hs. unfold step in Hs. destruct (phase s) eqn:Ep; try discriminate.
  pose proof (isrv_no_parked_sender _ _ H) as Hn. rewrite Ep in Hn. specialize (Hn eq_refl).
  destruct (queue s) as [|x q] eqn:Eq; injection Hs as <-; cbn [obs upd].
  - rewrite Hn. destruct (Nat.eqb_spec (clients s) 0) as [E|E].
    + exists ODisc. split; auto. split; [tauto|]. intros x. split; [discriminate|]. intros (q & Hq). discriminate.
    + exists OEmpty. split; auto. split; [split; [discriminate|tauto]|]. intros x. split; [discriminate|]. intros (q & Hq). discriminate.
  - exists (OMsg x). split; auto. split; [split; [discriminate|intros [Hq _]; discriminate]|].
    intros y. split; [intros E; injection E as <-; eauto|]. intros (q' & Hq). now injection Hq as -> _.
Qed.

(* accept is never stuck for ever once a client has connected: the token is there, and the final receive returns as soon as a
   message is queued or every client handle is gone (then with 'closed') *)
Theorem isrv_accept_progress : forall ls s, run init ls = Some s ->
  (phase s = PCloned -> 0 < nconn s -> exists s', step s IAcc2 = Some s') /\
  (phase s = PToken -> exists s', step s IAcc3 = Some s') /\
  (phase s = PDropped -> exists s', step s IAcc4 = Some s') /\
  (phase s = PRemoved -> (queue s <> [] \/ clients s = 0) -> exists s', step s IAcc5 = Some s').
Proof.
  intros ls s H. pose proof (reachable_inv _ _ H) as [F R I T G]. repeat split; intros Hp.
  - intros Hn. unfold step. rewrite Hp in *. cbn [consumed] in T. destruct (tokens s) eqn:Et; [lia|eauto].
  - unfold step. rewrite Hp. eauto.
  - unfold step. rewrite Hp. eauto.
  - intros Hq. unfold step. rewrite Hp. destruct (queue s) as [|x q] eqn:Eq; [|eauto].
    destruct Hq as [Hq|Hc]; [contradiction|].
    assert (Hs : senders s = 0).
    { rewrite (isrv_no_parked_sender _ _ H); [exact Hc|now rewrite Hp]. }
    rewrite Hs. cbn. eauto.
Qed.

