(* KDed: C09 at reference level - the dedicated fragment channel dies with the main channel once the
   sender no longer keeps its own copy of the dedicated channel's receiving end; and the repaired defect:
   while the sender keeps that copy, the dedicated channel stays alive whatever happens to the main one. *)
From Coq Require Import List Arith Lia Bool ZArith.
From IPC Require Import K KProofs.
Import ListNotations.

(* ------------------------------------------------------------------------------------------ *)
(* helpers                                                                                      *)
(* ------------------------------------------------------------------------------------------ *)
Lemma count_occ_remove_one_same : forall r l, In r l ->
  S (count_occ ref_dec (remove_one r l) r) = count_occ ref_dec l r.
Proof.
  induction l as [|h t IH]; intros Hin; [contradiction|].
  cbn [remove_one]. destruct (ref_dec r h) as [->|Hne].
  - cbn [count_occ]. destruct (ref_dec h h); [reflexivity|congruence].
  - destruct Hin as [->|Hin]; [congruence|].
    cbn [count_occ]. destruct (ref_dec h r) as [->|_]; [congruence|]. auto.
Qed.

Lemma count_occ_remove_one_other : forall r l x, x <> r ->
  count_occ ref_dec (remove_one r l) x = count_occ ref_dec l x.
Proof.
  induction l as [|h t IH]; intros x Hne; cbn [remove_one]; auto.
  destruct (ref_dec r h) as [->|Hrh].
  - cbn [count_occ]. destruct (ref_dec h x) as [->|_]; [congruence|reflexivity].
  - cbn [count_occ]. rewrite IH by auto. reflexivity.
Qed.

Lemma count_occ_flat_map_zero {X} : forall (f : X -> list ref) (l : list X) r,
  (forall x, In x l -> count_occ ref_dec (f x) r = 0) ->
  count_occ ref_dec (flat_map f l) r = 0.
Proof.
  induction l as [|h t IH]; intros r H; cbn [flat_map]; auto.
  rewrite count_occ_app, H by (left; reflexivity).
  rewrite IH; auto. intros x Hx. apply H. right. exact Hx.
Qed.

(* channels of gc k and k are in one-to-one index correspondence *)
Lemma gc_nth_error_some : forall k c ch', nth_error (chans (gc k)) c = Some ch' ->
  exists ch, nth_error (chans k) c = Some ch.
Proof.
  intros k c ch' H. apply nth_error_lt in H. rewrite gc_length in H.
  destruct (nth_error (chans k) c) as [ch|] eqn:E; [eauto|].
  apply nth_error_None in E. lia.
Qed.

Lemma gc_nth_error_some_rev : forall k c ch, nth_error (chans k) c = Some ch ->
  exists ch', nth_error (chans (gc k)) c = Some ch'.
Proof.
  intros k c ch H. apply nth_error_lt in H. rewrite <- gc_length in H.
  destruct (nth_error (chans (gc k)) c) as [ch'|] eqn:E; [eauto|].
  apply nth_error_None in E. lia.
Qed.

(* ------------------------------------------------------------------------------------------ *)
(* C09, reference level                                                                         *)
(* ------------------------------------------------------------------------------------------ *)
(* the per-message dedicated fragment channel d is referenced only from a message queued in the main
   channel m (after the fix the sender has released its own copy of d's receiving end).  When the last
   reference to m's receiving end goes, m's queue is discarded and with it the only reference to d: d is
   dead, and every further send on it fails (EPIPE) instead of blocking for ever. *)
Theorem ded_dies_with_main : forall k m d,
  m <> d ->
  count_occ ref_dec (held k) (RR d) = 0 ->
  (forall c ch msg, nth_error (chans k) c = Some ch -> dead ch = false -> In msg (q ch) -> In (RR d) (m_rights msg) -> c = m) ->
  refs k (RR m) = 1 -> In (RR m) (held k) ->
  let k' := k_close k (RR m) in
  dead (get_chan k' d) = true /\ forall msg, k_send k' d msg = None.
Proof.
  intros k m d Hmd Hheld Honly Hrefs Hin k'.
  assert (Hdead : dead (get_chan k' d) = true).
  2:{ split; auto. intros msg. apply send_fails_iff_dead. exact Hdead. }
  unfold k', k_close.
  set (k0 := {| chans := chans k; held := remove_one (RR m) (held k) |}).
  (* the receiving end of m is unreferenced once the one held copy is dropped *)
  assert (Hm0 : refs k0 (RR m) = 0).
  { pose proof (count_occ_remove_one_same (RR m) (held k) Hin) as Hs.
    unfold refs in *. unfold inflight in *. cbn [chans held k0]. lia. }
  assert (Hm' : refs (gc k0) (RR m) = 0).
  { pose proof (gc_refs_le k0 (RR m)). lia. }
  pose proof (gc_stable k0) as St.
  (* hence m is not live afterwards *)
  assert (Hmdead : forall chm, nth_error (chans (gc k0)) m = Some chm -> dead chm = true).
  { intros chm Hn. destruct (dead chm) eqn:Hd; auto. exfalso. exact (St m chm Hn Hd Hm'). }
  destruct (nth_error (chans (gc k0)) d) as [chd|] eqn:Ed.
  2:{ rewrite get_chan_none by exact Ed. reflexivity. }
  rewrite (get_chan_some _ _ _ Ed).
  destruct (dead chd) eqn:Hdd; auto. exfalso.
  apply (St d chd Ed Hdd).
  unfold refs. rewrite gc_held. cbn [held k0].
  pose proof (count_occ_remove_one_le (RR m) (held k) (RR d)) as Hle.
  assert (Hfl : count_occ ref_dec (inflight (gc k0)) (RR d) = 0).
  { unfold inflight. apply count_occ_flat_map_zero. intros x Hx.
    apply In_nth_error in Hx. destruct Hx as [c Hc].
    unfold live_rights. destruct (dead x) eqn:Hdx; [reflexivity|].
    apply count_occ_not_In. intros Hi. apply in_flat_map in Hi.
    destruct Hi as (msg & Hmsg & Hr).
    destruct (gc_nth_error_some k0 c x Hc) as [chk Hk].
    pose proof (gc_live_unchanged k0 c chk x Hk Hc Hdx) as ->.
    cbn [chans k0] in Hk.
    pose proof (Honly c chk msg Hk Hdx Hmsg Hr) as ->.
    rewrite (Hmdead chk Hc) in Hdx. discriminate. }
  lia.
Qed.

(* and the defect that was repaired: as long as the sender keeps its own copy of d's receiving end, d stays
   alive whatever happens to m - a blocked send on d is never woken *)
Theorem ded_kept_alive_by_sender_copy : forall k m d ch,
  m <> d -> In (RR d) (held k) -> nth_error (chans k) d = Some ch -> dead ch = false ->
  dead (get_chan (k_close k (RR m)) d) = false.
Proof.
  intros k m d ch Hmd Hin Hn Hd. unfold k_close.
  set (k0 := {| chans := chans k; held := remove_one (RR m) (held k) |}).
  assert (Hn0 : nth_error (chans k0) d = Some ch) by exact Hn.
  destruct (gc_nth_error_some_rev k0 d ch Hn0) as [ch' Hn'].
  rewrite (get_chan_some _ _ _ Hn').
  destruct (dead ch') eqn:Hd'; auto. exfalso.
  destruct (gc_killed_unreferenced k0 d ch ch' Hn0 Hd Hn' Hd') as [Hr _].
  unfold refs in Hr. rewrite gc_held in Hr. cbn [held k0] in Hr.
  assert (Hne : RR d <> RR m) by congruence.
  rewrite (count_occ_remove_one_other (RR m) (held k) (RR d) Hne) in Hr.
  pose proof (proj1 (count_occ_In ref_dec (held k) (RR d)) Hin). lia.
Qed.

Print Assumptions ded_dies_with_main.
Print Assumptions ded_kept_alive_by_sender_copy.
