(* Consequences of the Conc invariant: exactly-once (distinct ids), completeness at quiescence, progress. *)
From Coq Require Import List Arith Lia Bool.
From IPC Require Import Conc ConcProofs.
Import ListNotations.

Section ConcMore.
Context {A : Type}.
Notation sys := (@Conc.sys A).
Notation label := (@Conc.label A).

Lemma In_firstn {B} (x : B) : forall n l, In x (firstn n l) -> In x l.
Proof. induction n as [|n IH]; intros [|y l]; simpl; try tauto. intros [->|H]; auto. Qed.

Lemma run_Inv : forall (ls : list label) (s0 s : sys), Inv s0 -> Forall wf_label ls -> run s0 ls = Some s -> Inv s.
Proof.
  induction ls as [|l ls IH]; simpl; intros s0 s I W R; [now injection R as <-|].
  inversion W; subst. destruct (step s0 l) as [s1|] eqn:E; [|discriminate]. apply (IH s1 s); auto. eapply Inv_step; eauto.
Qed.

Lemma reachable_Inv : forall (ls : list label) (s : sys), Forall wf_label ls -> run init ls = Some s -> Inv s.
Proof. intros ls s W R. exact (run_Inv ls init s Inv_init W R). Qed.

(* each linearised message has its own id: nothing is delivered twice *)
Theorem ids_distinct : forall (ls : list label) (s : sys), Forall wf_label ls -> run init ls = Some s ->
  NoDup (map fst (lin s)).
Proof. intros ls s W R. destruct (reachable_Inv ls s W R) as [_ N _ _]. exact N. Qed.

(* every delivered payload is the whole data of a linearised message *)
Theorem delivered_whole : forall (ls : list label) (s : sys) d, Forall wf_label ls -> run init ls = Some s ->
  In d (delivered s) -> In d (map snd (lin s)).
Proof.
  intros ls s d W R Hd. rewrite (delivered_prefix ls s W R) in Hd.
  apply in_map_iff in Hd. destruct Hd as (x & <- & Hx). apply in_map. eapply In_firstn; eauto.
Qed.

Definition quiescent (s : sys) : Prop := mainq s = [] /\ rcv s = None.

(* nothing is lost: when the shared queue is empty and no reassembly is in progress, everything
   that was ever started has been delivered, in linearisation order *)
Theorem quiescent_complete : forall (ls : list label) (s : sys), Forall wf_label ls -> run init ls = Some s ->
  quiescent s -> delivered s = map snd (lin s).
Proof.
  intros ls s W R [Q1 Q2].
  destruct (reachable_Inv ls s W R) as [(done & pend & Hlin & Hdone & Hpend & _) _ _ _].
  unfold pend_ok in Hpend. rewrite Q2, Q1 in Hpend. inversion Hpend; subst.
  rewrite Hlin, app_nil_r. now symmetry.
Qed.

(* no deadlock: unless quiescent, the receiver or the sender it is waiting for can take a step *)
Theorem progress : forall (ls : list label) (s : sys), Forall wf_label ls -> run init ls = Some s ->
  ~ quiescent s ->
  (exists s', step s LRFirst = Some s') \/ (exists s', step s LRFollow = Some s') \/
  (exists m s', step s (LFollow m) = Some s').
Proof.
  intros ls s W R NQ.
  destruct (reachable_Inv ls s W R) as [(done & pend & Hlin & Hdone & Hpend & Hout) _ _ Hne].
  unfold pend_ok in Hpend. destruct (rcv s) as [r|] eqn:Er.
  - destruct Hpend as (d & pend' & -> & (Hm & Htot & Hdata & Hlt) & Hq).
    destruct (dedq s (r_mid r)) as [|c cs] eqn:Ed.
    + right. right. exists (r_mid r).
      destruct (tosend s (r_mid r)) as [|c cs] eqn:Et.
      * exfalso. unfold owed in Hdata. rewrite <- Hm, Ed, Et in Hdata. simpl in Hdata. rewrite app_nil_r in Hdata.
        rewrite Htot, Hdata in Hlt. lia.
      * unfold step. rewrite Et. eexists. reflexivity.
    + right. left. unfold step. rewrite Er, Ed. destruct (Nat.leb _ _); eexists; reflexivity.
  - destruct (mainq s) as [|pk q] eqn:Eq.
    + exfalso. apply NQ. split; auto.
    + left. unfold step. rewrite Er, Eq. destruct (Nat.eqb _ _); eexists; reflexivity.
Qed.
End ConcMore.
