(* ApiSelect: serving a whole receiver set (Api.select_all) - C06 at the level of the public API, for a set of any size:
   the events are, member by member in index order, every message queued for that member exactly once and in queue order,
   followed by its closure exactly if no reference to its sending end exists; serving one member neither loses nor reorders
   anything of another.  Needs one fact about the kernel core: releasing the receiving end of a channel whose queue is empty
   kills at most that channel and changes nothing else. *)
From Coq Require Import List Arith Lia Bool ZArith Permutation.
From IPC Require Import K KProofs Prog Ideal IdealProofs Api ApiProofs ApiInv.
Import ListNotations.

(* ------------------------------------------------------------------------------------------ *)
(* 1. gc after releasing the receiving end of an EMPTY channel                                  *)
(* ------------------------------------------------------------------------------------------ *)
Lemma find_kill_the_one s c : forall cs k,
  (forall i ch, nth_error cs i = Some ch -> dead ch = false -> k + i <> c -> refs s (RR (k + i)) <> 0) ->
  k <= c -> (exists ch, nth_error cs (c - k) = Some ch /\ dead ch = false) -> refs s (RR c) = 0 ->
  find_kill s k cs = Some c.
Proof.
  induction cs as [|x cs IH]; intros k Hoth Hle (ch & Hn & Hd) H0.
  - destruct (c - k); discriminate.
  - cbn [find_kill]. destruct (Nat.eq_dec k c) as [->|Hne].
    + rewrite Nat.sub_diag in Hn. cbn [nth_error] in Hn. injection Hn as ->. rewrite Hd, H0. reflexivity.
    + destruct (dead x) eqn:Hdx; cbn [negb andb].
      * apply IH; try lia; auto.
        -- intros i ch' Hi Hdi Hneq. replace (S k + i) with (k + S i) in * by lia. eapply Hoth; eauto.
        -- exists ch. split; auto. replace (c - k) with (S (c - S k)) in Hn by lia. exact Hn.
      * assert (Hx : refs s (RR (k + 0)) <> 0) by (eapply Hoth; eauto; [reflexivity|lia]).
        rewrite Nat.add_0_r in Hx. apply Nat.eqb_neq in Hx. rewrite Hx.
        apply IH; try lia; auto.
        -- intros i ch' Hi Hdi Hneq. replace (S k + i) with (k + S i) in * by lia. eapply Hoth; eauto.
        -- exists ch. split; auto. replace (c - k) with (S (c - S k)) in Hn by lia. exact Hn.
Qed.

Lemma gc_fuel_stable_id : forall fuel k, k_stable k -> gc_fuel fuel k = k.
Proof.
  intros [|f] k St; cbn [gc_fuel]; auto. rewrite (stable_find_kill_none k St (chans k) 0); auto.
Qed.

Lemma refs_kill_empty : forall k c ch r, nth_error (chans k) c = Some ch -> q ch = [] -> refs (kill k c) r = refs k r.
Proof.
  intros k c ch r Hn Hq. unfold kill.
  pose proof (refs_set_nth k c ch {| q := []; dead := true |} (held k) r Hn) as H.
  unfold live_rights in H. cbn [dead q] in H. rewrite Hq in H. destruct (dead ch); cbn [flat_map count_occ] in H; unfold refs at 2; lia.
Qed.

Definition drop_ref (k : kst) (r : ref) : kst := {| chans := chans k; held := remove_one r (held k) |}.

Lemma refs_drop_other : forall k r x, x <> r -> refs (drop_ref k r) x = refs k x.
Proof.
  intros k r x Hne. unfold refs, drop_ref, inflight. cbn [chans held]. f_equal.
  induction (held k) as [|h t IH]; cbn [remove_one count_occ]; auto.
  destruct (ref_dec r h) as [<-|Hrh].
  - destruct (ref_dec r x); [congruence|reflexivity].
  - cbn [count_occ]. destruct (ref_dec h x); rewrite IH; reflexivity.
Qed.

Theorem k_close_RR_empty : forall k c ch, k_wf k -> k_stable k ->
  nth_error (chans k) c = Some ch -> dead ch = false -> q ch = [] ->
  k_close k (RR c) = if refs (drop_ref k (RR c)) (RR c) =? 0 then kill (drop_ref k (RR c)) c else drop_ref k (RR c).
Proof.
  intros k c ch W St Hn Hd Hq. unfold k_close. fold (drop_ref k (RR c)). set (k1 := drop_ref k (RR c)).
  assert (Hoth : forall c' ch', nth_error (chans k1) c' = Some ch' -> dead ch' = false -> c' <> c -> refs k1 (RR c') <> 0).
  { intros c' ch' Hn' Hd' Hne. unfold k1. rewrite refs_drop_other by congruence. exact (St c' ch' Hn' Hd'). }
  destruct (refs k1 (RR c) =? 0) eqn:E0.
  - apply Nat.eqb_eq in E0. unfold gc. destruct (length (chans k1)) as [|f] eqn:El.
    + exfalso. apply nth_error_lt in Hn. unfold k1, drop_ref in El. cbn [chans] in El. lia.
    + cbn [gc_fuel].
      assert (Hfk : find_kill k1 0 (chans k1) = Some c).
      { apply find_kill_the_one; [|lia| |exact E0].
        - intros i ch' Hi Hdi Hneq. cbn [Nat.add] in *. eapply Hoth; eauto.
        - rewrite Nat.sub_0_r. exists ch. split; [exact Hn|exact Hd]. }
      rewrite Hfk.
      apply gc_fuel_stable_id. intros c' ch' Hn' Hd'.
      destruct (Nat.eq_dec c' c) as [->|Hne].
      * unfold kill in Hn'. cbn [chans] in Hn'. rewrite nth_error_set_nth_eq in Hn' by (eapply nth_error_lt; exact Hn).
        injection Hn' as <-. discriminate.
      * unfold kill in Hn'. cbn [chans] in Hn'. rewrite nth_error_set_nth_neq in Hn' by auto.
        rewrite (refs_kill_empty k1 c ch) by auto. eapply Hoth; eauto.
  - apply gc_fixpoint. intros c' ch' Hn' Hd'. destruct (Nat.eq_dec c' c) as [->|Hne].
    + now apply Nat.eqb_neq.
    + eapply Hoth; eauto.
Qed.

(* consequences used below: other channels are untouched, and no reference count other than RR c changes *)
Corollary k_close_RR_empty_frame : forall k c ch, k_wf k -> k_stable k ->
  nth_error (chans k) c = Some ch -> dead ch = false -> q ch = [] ->
  (forall c', c' <> c -> get_chan (k_close k (RR c)) c' = get_chan k c') /\
  (forall x, x <> RR c -> refs (k_close k (RR c)) x = refs k x).
Proof.
  intros k c ch W St Hn Hd Hq. rewrite (k_close_RR_empty k c ch) by auto.
  destruct (refs (drop_ref k (RR c)) (RR c) =? 0); split.
  - intros c' Hne. unfold get_chan, kill, drop_ref. cbn [chans].
    destruct (nth_error (chans k) c') as [x|] eqn:E.
    + erewrite !nth_error_nth; [reflexivity|exact E|]. rewrite nth_error_set_nth_neq by auto. exact E.
    + rewrite !nth_overflow; auto.
      * now apply nth_error_None.
      * rewrite length_set_nth. now apply nth_error_None.
  - intros x Hx. rewrite (refs_kill_empty _ c ch) by auto. now apply refs_drop_other.
  - intros c' Hne. reflexivity.
  - intros x Hx. now apply refs_drop_other.
Qed.

(* ------------------------------------------------------------------------------------------ *)
(* 2. serving one member leaves every other channel and every other reference count alone       *)
(* ------------------------------------------------------------------------------------------ *)
Lemma k_recv_frame : forall k c m k', k_wf k -> k_recv k c = KMsg m k' ->
  (forall c', c' <> c -> get_chan k' c' = get_chan k c') /\ (forall x, refs k' x = refs k x).
Proof.
  intros k c m k' W H. destruct (k_recv_queue _ _ _ _ W H) as (_ & Hr). split; auto.
  apply k_recv_msg in H. destruct H as (ch & rest & Hn & Hq & ->). intros c' Hne.
  unfold get_chan. cbn [chans]. destruct (nth_error (chans k) c') as [x|] eqn:E.
  - erewrite !nth_error_nth; [reflexivity|exact E|]. rewrite nth_error_set_nth_neq by auto. exact E.
  - rewrite !nth_overflow; auto.
    + now apply nth_error_None.
    + rewrite length_set_nth. now apply nth_error_None.
Qed.

Lemma drain_frame : forall sh fuel k hs n i c Y,
  lookup hs sh <> None -> kinvG k (RR c :: Y ++ Hm sh hs) -> aids_ok hs n ->
  match drain fuel k hs n i c with
  | (k2, _, _, _, _, _) =>
      (forall c', c' <> c -> get_chan k2 c' = get_chan k c') /\ (forall x, x <> RR c -> refs k2 x = refs k x)
  end.
Proof.
  intros sh. induction fuel as [|f IH]; intros k hs n i c Y Hl I Hids; cbn [drain]; [split; auto|].
  pose proof (gv_wf _ _ I) as W. pose proof (gv_stable _ _ I) as St.
  destruct (k_recv k c) as [m k'| |] eqn:Er.
  - pose proof (k_recv_kinvG _ _ _ _ _ I Er) as I'. destruct (k_recv_frame _ _ _ _ W Er) as (Fc & Fr).
    destruct (undecodable m).
    + specialize (IH k' hs n i c (m_rights m ++ Y) Hl).
      destruct (drain f k' hs n i c) as [[[[[k2 hs2] n2] evs] closed] later].
      destruct IH as (G1 & G2); auto.
      { eapply kinvG_perm; [exact I'|]. perm_refs. }
      split; [intros c' Hne; rewrite G1, Fc; auto|intros x Hx; rewrite G2, Fr; auto].
    + pose proof (Hm_install sh (m_rights m) hs n Hl) as HH.
      pose proof (lookup_install sh (m_rights m) hs n Hl) as HL.
      pose proof (aids_install (m_rights m) hs n Hids) as HI.
      destruct (a_install hs n (m_rights m)) as [[hs' n'] out]. cbn [fst snd] in HH, HL, HI.
      specialize (IH k' hs' n' i c Y).
      destruct (drain f k' hs' n' i c) as [[[[[k2 hs2] n2] evs] closed] later].
      destruct IH as (G1 & G2); auto.
      { congruence. }
      { eapply kinvG_perm; [exact I'|]. rewrite HH. perm_refs. }
      split; [intros c' Hne; rewrite G1, Fc; auto|intros x Hx; rewrite G2, Fr; auto].
  - split; auto.
  - destruct (kinvG_RR_live _ _ c I ltac:(now left)) as (ch & Hn & Hd).
    assert (Hq : q ch = []).
    { unfold k_recv in Er. rewrite (get_chan_some _ _ _ Hn) in Er. destruct (q ch); [reflexivity|discriminate]. }
    exact (k_close_RR_empty_frame k c ch W St Hn Hd Hq).
Qed.

(* ------------------------------------------------------------------------------------------ *)
(* 3. the whole set                                                                             *)
(* ------------------------------------------------------------------------------------------ *)
Fixpoint member_events (k : kst) (i : nat) (ms : list (option nat)) : list pev :=
  match ms with
  | [] => []
  | None :: r => member_events k (S i) r
  | Some c :: r =>
      map (msg_ev i) (q (get_chan k c)) ++ (if refs k (RS c) =? 0 then [PClosed i] else []) ++ member_events k (S i) r
  end.

Definition member_chans (ms : list (option nat)) : list nat :=
  flat_map (fun m => match m with Some c => [c] | None => [] end) ms.

Lemma member_events_frame : forall ms k k' i,
  (forall c, In c (member_chans ms) -> get_chan k' c = get_chan k c /\ refs k' (RS c) = refs k (RS c)) ->
  member_events k' i ms = member_events k i ms.
Proof.
  induction ms as [|[c|] r IH]; intros k k' i H; cbn [member_events]; auto.
  destruct (H c ltac:(cbn; now left)) as (-> & ->). f_equal. f_equal. apply IH. intros c' Hin. apply H. cbn. now right.
Qed.

(* the events one select round reports (select repeated until nothing is pending): member by member, every queued message once
   and in order, then the member's closure iff no reference to its sending end exists - judged in the state BEFORE the round:
   serving one member changes nothing for the others *)
Theorem select_all_events : forall sh ms k hs n i Y,
  lookup hs sh <> None -> kinvG k (member_refs ms ++ Y ++ Hm sh hs) -> aids_ok hs n -> NoDup (member_chans ms) ->
  match select_all k hs n i ms with
  | (_, _, _, evs, _, _) => map proj_ev evs = member_events k i ms
  end.
Proof.
  intros sh. induction ms as [|[c|] r IH]; intros k hs n i Y Hl I Hids Hnd; cbn [select_all member_events].
  - reflexivity.
  - assert (I0 : kinvG k (RR c :: (member_refs r ++ Y) ++ Hm sh hs)).
    { eapply kinvG_perm; [exact I|]. cbn [member_refs flat_map]. fold (member_refs r). perm_refs. }
    pose proof (drain_inv sh (S (length (q (get_chan k c)))) k hs n i c (member_refs r ++ Y) Hl I0 Hids) as D.
    pose proof (drain_frame sh (S (length (q (get_chan k c)))) k hs n i c (member_refs r ++ Y) Hl I0 Hids) as Fr.
    pose proof (drain_events (S (length (q (get_chan k c)))) k hs n i c (gv_wf _ _ I) ltac:(lia)) as Ev.
    destruct (drain (S (length (q (get_chan k c)))) k hs n i c) as [[[[[k1 hs1] n1] ev1] closed] l1].
    destruct D as (J1 & Hids1 & Hl1). destruct Fr as (Fc & Frf). destruct Ev as (E1 & E2).
    cbn [member_chans flat_map app] in Hnd. fold (member_chans r) in Hnd. apply NoDup_cons_iff in Hnd. destruct Hnd as [Hnotin Hnd'].
    specialize (IH k1 hs1 n1 (S i) ((if closed then [] else [RR c]) ++ l1 ++ Y)).
    destruct (select_all k1 hs1 n1 (S i) r) as [[[[[k2 hs2] n2] evs] ms2] l2].
    rewrite map_app, E1, E2, <- app_assoc. f_equal. f_equal.
    rewrite IH; auto.
    + apply member_events_frame. intros c' Hin. assert (c' <> c) by (intros ->; contradiction).
      split; [apply Fc; auto|apply Frf; discriminate].
    + congruence.
    + eapply kinvG_perm; [exact J1|]. destruct closed; perm_refs.
  - cbn [member_chans flat_map app] in Hnd. specialize (IH k hs n (S i) Y Hl).
    destruct (select_all k hs n (S i) r) as [[[[[k2 hs2] n2] evs] ms2] later]. apply IH; auto.
Qed.
Print Assumptions select_all_events.

(* the same at the level of an API step *)
Theorem api_select_events : forall s sh ms, a_inv s -> lookup (ah s) sh = Some (OSet ms) -> NoDup (member_chans ms) ->
  exists evs, snd (a_step s (ASelectAll sh)) = QSelect evs /\ map proj_ev evs = member_events (ak s) 0 ms.
Proof.
  intros s sh ms [K Hids] Hl Hnd. cbn [a_step]. rewrite Hl.
  pose proof (select_all_events sh ms (ak s) (ah s) (anext s) 0 []) as SE.
  destruct (select_all (ak s) (ah s) (anext s) 0 ms) as [[[[[k' hs'] n'] evs] ms'] later]. cbn [snd].
  exists evs. split; [reflexivity|]. apply SE; auto; [congruence|].
  eapply kinvG_perm; [exact K|]. cbn [app]. exact (Hm_self sh (ah s) (OSet ms) Hl).
Qed.
Print Assumptions api_select_events.
