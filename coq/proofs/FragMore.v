(* Further facts about Frag: what has been transmitted tiles a prefix whatever the outcome (no byte
   range is sent twice), attachment-capacity decisions (C15), buffer discipline of recv (C18). *)
From Coq Require Import ZArith List Bool Lia.
From IPC Require Import U64 Params Frag ParamsFacts FragProofs.
Import ListNotations.
Open Scope Z_scope.
Ltac Zify.zify_post_hook ::= Z.div_mod_to_equations.

(* ---------- C13: transmitted ranges tile a prefix, for every outcome ---------- *)
Lemma loop_prefix : forall fuel len nfds sb pos faults o evs Ss,
  frag_loop fuel len nfds sb pos faults = (o, evs) ->
  0 <= pos <= len -> len < 2 ^ 62 -> 48 <= sb <= Ss -> Ss < 2 ^ 62 -> (pos = 0 -> ffs sb < len) ->
  exists e, pos <= e <= len /\
    tiles (map (fun p => (fp_lo p, fp_hi p)) (shared_pkts evs) ++ ded_pkts evs) pos e /\
    (pos > 0 -> shared_pkts evs = []) /\ (o = Ok -> e = len).
Proof.
  induction fuel as [|f IH]; intros len nfds sb pos faults o evs Ss H Hp Hlen Hsb HS H0.
  { cbn in H. injection H as <- <-. exists pos. cbn. repeat split; try lia; try discriminate. }
  cbn [frag_loop] in H.
  destruct (pos <? len) eqn:E.
  2:{ injection H as <- <-. exists pos. cbn. repeat split; lia. }
  assert (Hfs : fs sb = sb - 32) by (unfold fs; rewrite RESERVED_SIZE_val; lia).
  pose proof (ffs_bounds sb ltac:(rewrite RESERVED_SIZE_val; lia)) as Hb.
  destruct (pos =? 0) eqn:Ez.
  - assert (pos = 0) by lia. subst pos. specialize (H0 eq_refl).
    destruct (send_first_end_eq sb ltac:(lia)) as [Ee Es]. rewrite Ee, Es in H. cbn [negb andb] in H.
    destruct (len <? ffs sb) eqn:E2; [lia|].
    destruct (next_fault faults) as [fl rest]. destruct fl.
    + destruct (frag_loop f len nfds sb (ffs sb) rest) as [o' evs'] eqn:R. injection H as <- <-.
      destruct (IH _ _ _ _ _ _ _ Ss R ltac:(lia) Hlen Hsb HS ltac:(lia)) as (e & He & T & Sh & Ok').
      pose proof (Sh ltac:(lia)) as Sh'. rewrite Sh' in T. cbn [map app] in T.
      exists e. cbn [shared_pkts ded_pkts]. rewrite Sh'. cbn [map app fp_lo fp_hi tiles fst snd].
      split; [lia|]. split; [split; [reflexivity|split; [lia|exact T]]|]. split; [lia|exact Ok'].
    + assert (Hsub : U.sub (ffs sb) 0 = ffs sb) by (unfold U.sub; rewrite Z.sub_0_r; apply wrap_id; rewrite modulus_val; lia).
      rewrite Hsub in H.
      assert (Hok : U.sub_ok (ffs sb) 0 = true) by (unfold U.sub_ok; lia). rewrite Hok, downsize_safe_true in H.
      cbn [negb andb] in H.
      destruct (downsize sb (ffs sb)) as [sb'|] eqn:D.
      * destruct (downsize_keeps _ _ _ Ss D Hsb ltac:(lia)) as (K1 & K2 & K3 & K4).
        destruct (frag_loop f len nfds sb' 0 rest) as [o' evs'] eqn:R. injection H as <- <-.
        assert (Hffs' : ffs sb' < len) by (unfold ffs in *; rewrite RESERVED_SIZE_val in *; lia).
        destruct (IH _ _ _ _ _ _ _ Ss R ltac:(lia) Hlen K1 HS (fun _ => Hffs')) as (e & He & T & Sh & Ok').
        exists e. cbn [shared_pkts ded_pkts]. repeat split; auto; lia.
      * injection H as <- <-. exists 0. cbn. repeat split; try lia; discriminate.
    + injection H as <- <-. exists 0. cbn. repeat split; try lia; discriminate.
  - destruct (send_follow_end_eq pos sb len ltac:(lia) ltac:(lia)) as [Ee Es]. rewrite Ee, Es in H.
    cbn [negb andb] in H. set (e := Z.min (pos + fs sb) len) in *.
    assert (He : pos < e <= len) by (subst e; lia).
    destruct (next_fault faults) as [fl rest]. destruct fl.
    + destruct (frag_loop f len nfds sb e rest) as [o' evs'] eqn:R. injection H as <- <-.
      destruct (IH _ _ _ _ _ _ _ Ss R ltac:(lia) Hlen Hsb HS ltac:(lia)) as (e' & He' & T & Sh & Ok').
      rewrite (Sh ltac:(lia)) in T. cbn [map app] in T.
      exists e'. cbn [shared_pkts ded_pkts]. rewrite (Sh ltac:(lia)). cbn [map app tiles fst snd].
      split; [lia|]. split; [split; [reflexivity|split; [lia|exact T]]|]. split; [reflexivity|exact Ok'].
    + assert (Hsub : U.sub e pos = e - pos) by (unfold U.sub; apply wrap_id; rewrite modulus_val; lia).
      rewrite Hsub in H.
      assert (Hok : U.sub_ok e pos = true) by (unfold U.sub_ok; lia). rewrite Hok, downsize_safe_true in H.
      cbn [negb andb] in H.
      destruct (downsize sb (e - pos)) as [sb'|] eqn:D.
      * destruct (downsize_keeps _ _ _ Ss D Hsb ltac:(subst e; lia)) as (K1 & K2 & K3 & K4).
        destruct (frag_loop f len nfds sb' pos rest) as [o' evs'] eqn:R. injection H as <- <-.
        destruct (IH _ _ _ _ _ _ _ Ss R ltac:(lia) Hlen K1 HS ltac:(lia)) as (e' & He' & T & Sh & Ok').
        exists e'. cbn [shared_pkts ded_pkts]. repeat split; auto; lia.
      * injection H as <- <-. exists pos. cbn. repeat split; try lia; discriminate.
    + injection H as <- <-. exists pos. cbn. repeat split; try lia; discriminate.
Qed.

(* the ranges a send() actually transmitted (first packet, then follow-ups, in order) *)
Definition transmitted (evs : list ev) : list range :=
  map (fun p => (fp_lo p, fp_hi p)) (shared_pkts evs) ++ ded_pkts evs.

Theorem send_no_dup fuel Ss len nfds faults o evs :
  send fuel Ss len nfds faults = (o, evs) ->
  48 <= Ss < 2 ^ 62 -> 0 <= len < 2 ^ 62 ->
  exists e, 0 <= e <= len /\ tiles (transmitted evs) 0 e /\ (o = Ok -> e = len).
Proof.
  unfold send, transmitted. intros H HS Hlen.
  destruct (MAX_FDS_IN_CMSG <? nfds). { injection H as <- <-. exists 0. cbn. repeat split; try lia; discriminate. }
  destruct (first_fragment_size_eq Ss ltac:(rewrite RESERVED_SIZE_val; lia)) as [E1 E2].
  rewrite E2 in H. cbn [negb] in H. rewrite send_single_packet_eq in H by lia.
  pose proof (ffs_bounds Ss ltac:(rewrite RESERVED_SIZE_val; lia)) as Hb.
  assert (G : forall sb fl pre o evs, go_frag fuel len nfds sb fl pre = (o, evs) ->
             48 <= sb <= Ss -> ffs sb < len -> shared_pkts pre = [] -> ded_pkts pre = [] ->
             exists e, 0 <= e <= len /\ tiles (map (fun p => (fp_lo p, fp_hi p)) (shared_pkts evs) ++ ded_pkts evs) 0 e /\ (o = Ok -> e = len)).
  { intros sb fl pre o' evs' Hg Hsb Hffs P1 P2. unfold go_frag in Hg.
    destruct (MAX_FDS_IN_CMSG <? nfds + 1).
    { injection Hg as <- <-. rewrite P1, P2. exists 0. cbn. repeat split; try lia; discriminate. }
    destruct (frag_loop fuel len nfds sb 0 fl) as [o1 evs1] eqn:R.
    destruct (finish_frag_pkts o1 evs1) as (F1 & F2 & F3).
    destruct (finish_frag (o1, evs1)) as [o2 evs2]. cbn [fst snd] in *. subst o2. injection Hg as <- <-.
    rewrite shared_pkts_app, ded_pkts_app, P1, P2, F1, F2. cbn [app].
    destruct (loop_prefix _ _ _ _ _ _ _ _ Ss R ltac:(lia) ltac:(lia) Hsb ltac:(lia) (fun _ => Hffs)) as (e & He & T & _ & Ok').
    exists e. repeat split; auto; lia. }
  destruct (len <=? ffs Ss) eqn:ES.
  - destruct (next_fault faults) as [fl rest]. destruct fl; cbn [res_of] in H.
    + injection H as <- <-. exists len. cbn. repeat split; lia.
    + rewrite downsize_safe_true in H. cbn [negb] in H.
      destruct (downsize Ss len) as [sb'|] eqn:D.
      * assert (Hfs : fs Ss = Ss - 32) by (unfold fs; rewrite RESERVED_SIZE_val; lia).
        destruct (downsize_keeps _ _ _ Ss D ltac:(lia) ltac:(lia)) as (K1 & K2 & K3 & K4).
        apply (G _ _ _ _ _ H K1); [unfold ffs in *; rewrite RESERVED_SIZE_val in *; lia|reflexivity|reflexivity].
      * injection H as <- <-. exists 0. cbn. repeat split; try lia; discriminate.
    + injection H as <- <-. exists 0. cbn. repeat split; try lia; discriminate.
  - apply (G _ _ _ _ _ H); [lia|lia|reflexivity|reflexivity].
Qed.

(* giving up is only allowed when the refused attempt was small: ENOBUFS is reported only for <= 2000 bytes *)
Definition last_attempt_size (evs : list ev) : option Z :=
  match rev (filter (fun e => match e with EvSendmsg _ _ _ _ _ SNoBufs | EvSend _ _ SNoBufs => true | _ => false end) evs) with
  | EvSendmsg _ lo hi _ _ _ :: _ => Some (hi - lo)
  | EvSend lo hi _ :: _ => Some (hi - lo)
  | _ => None
  end.

(* ---------- C15 ---------- *)
Theorem too_many_iff fuel Ss len nfds :
  48 <= Ss < 2 ^ 62 -> 0 <= len < 2 ^ 62 -> 0 <= nfds -> (Z.to_nat len < fuel)%nat ->
  (fst (send fuel Ss len nfds []) = Ok <-> nfds + (if len <=? ffs Ss then 0 else 1) <= MAX_FDS_IN_CMSG) /\
  (fst (send fuel Ss len nfds []) <> Ok -> send fuel Ss len nfds [] = (ErrTooMany, [])).
Proof.
  intros HS Hlen Hn Hf. unfold send. pose proof MAX_FDS_val as MV.
  destruct (first_fragment_size_eq Ss ltac:(rewrite RESERVED_SIZE_val; lia)) as [E1 E2].
  pose proof (ffs_bounds Ss ltac:(rewrite RESERVED_SIZE_val; lia)) as Hb.
  destruct (MAX_FDS_IN_CMSG <? nfds) eqn:EM.
  { cbn [fst]. split; [split; [discriminate|destruct (len <=? ffs Ss); lia]|reflexivity]. }
  rewrite E2. cbn [negb]. rewrite send_single_packet_eq by lia.
  destruct (len <=? ffs Ss) eqn:ES; cbn [next_fault res_of fst].
  - split; [split; [lia|reflexivity]|intros X; now elim X].
  - unfold go_frag. destruct (MAX_FDS_IN_CMSG <? nfds + 1) eqn:EM2.
    { cbn [fst]. split; [split; [discriminate|lia]|reflexivity]. }
    destruct (frag_loop fuel len nfds Ss 0 []) as [o1 evs1] eqn:R.
    destruct (finish_frag_pkts o1 evs1) as (_ & _ & F3).
    destruct (finish_frag (o1, evs1)) as [o2 evs2]. cbn [fst] in *. subst o2.
    assert (o1 = Ok).
    { clear - R HS Hlen Hf Hb ES.
      assert (forall f pos sb, (Z.to_nat (len - pos) < f)%nat -> 0 <= pos -> 48 <= sb <= Ss -> (pos = 0 -> ffs sb < len) ->
                fst (frag_loop f len nfds sb pos []) = Ok) as G.
      { induction f as [|f IH]; intros pos sb Hf' Hp Hsb H0; [lia|]. cbn [frag_loop].
        destruct (pos <? len) eqn:E; [|reflexivity].
        assert (Hfs : fs sb = sb - 32) by (unfold fs; rewrite RESERVED_SIZE_val; lia).
        pose proof (ffs_bounds sb ltac:(rewrite RESERVED_SIZE_val; lia)) as Hb'.
        destruct (pos =? 0) eqn:Ez.
        - assert (pos = 0) by lia. subst pos. specialize (H0 eq_refl).
          destruct (send_first_end_eq sb ltac:(lia)) as [Ee Es]. rewrite Ee, Es. cbn [negb andb].
          destruct (len <? ffs sb) eqn:E2; [lia|]. cbn [next_fault].
          specialize (IH (ffs sb) sb ltac:(lia) ltac:(lia) Hsb ltac:(lia)).
          destruct (frag_loop f len nfds sb (ffs sb) []) as [o' evs']. exact IH.
        - destruct (send_follow_end_eq pos sb len ltac:(lia) ltac:(lia)) as [Ee Es]. rewrite Ee, Es. cbn [negb andb next_fault].
          specialize (IH (Z.min (pos + fs sb) len) sb ltac:(lia) ltac:(lia) Hsb ltac:(lia)).
          destruct (frag_loop f len nfds sb (Z.min (pos + fs sb) len) []) as [o' evs']. exact IH. }
      specialize (G fuel 0 Ss ltac:(rewrite Z.sub_0_r; lia) ltac:(lia) ltac:(lia) ltac:(lia)). now rewrite R in G. }
    subst o1. split; [split; [lia|reflexivity]|intros X; now elim X].
Qed.

Theorem too_many_nothing_queued fuel Ss len nfds faults evs :
  send fuel Ss len nfds faults = (ErrTooMany, evs) ->
  48 <= Ss < 2 ^ 62 -> 0 <= len < 2 ^ 62 -> 0 <= nfds ->
  shared_pkts evs = [] /\ ded_pkts evs = [] /\ MAX_FDS_IN_CMSG < nfds + 1.
Proof.
  unfold send. intros H HS Hlen Hn. pose proof MAX_FDS_val as MV.
  destruct (MAX_FDS_IN_CMSG <? nfds) eqn:EM. { injection H as <-. repeat split; auto; lia. }
  destruct (first_fragment_size_eq Ss ltac:(rewrite RESERVED_SIZE_val; lia)) as [E1 E2].
  pose proof (ffs_bounds Ss ltac:(rewrite RESERVED_SIZE_val; lia)) as Hb.
  rewrite E2 in H. cbn [negb] in H. rewrite send_single_packet_eq in H by lia.
  destruct (len <=? ffs Ss) eqn:ES.
  - destruct (next_fault faults) as [fl rest]. destruct fl; cbn [res_of] in H; try discriminate.
    rewrite downsize_safe_true in H. cbn [negb] in H.
    destruct (downsize Ss len) as [sb'|] eqn:D; [|discriminate].
    assert (Hfs : fs Ss = Ss - 32) by (unfold fs; rewrite RESERVED_SIZE_val; lia).
    destruct (downsize_keeps _ _ _ Ss D ltac:(lia) ltac:(lia)) as (K1 & K2 & K3 & K4).
    assert (Hffs' : ffs sb' < len) by (unfold ffs in *; rewrite RESERVED_SIZE_val in *; lia).
    destruct (go_frag_ok _ _ _ _ _ _ _ _ Ss Ss H ltac:(lia) Hffs' K1 ltac:(lia) Hn eq_refl eq_refl)
      as (_ & _ & _ & _ & I & J & _).
    rewrite (J eq_refl). repeat split; try reflexivity. apply I. reflexivity.
  - destruct (go_frag_ok _ _ _ _ _ _ _ _ Ss Ss H ltac:(lia) ltac:(lia) ltac:(lia) ltac:(lia) Hn eq_refl eq_refl)
      as (_ & _ & _ & _ & I & J & _).
    rewrite (J eq_refl). repeat split; try reflexivity. apply I. reflexivity.
Qed.

(* ---------- C18: recv() never trips its asserts nor overflows, whatever is in the queues ---------- *)
Lemma recv_loop_safe : forall fuel S total cap buf q,
  32 <= S < 2 ^ 62 -> 0 <= blen buf <= total -> total < 2 ^ 62 -> total <= cap ->
  Forall (fun r => fst r <= snd r) q ->
  match recv_loop fuel S total cap buf q with
  | RCapacity | ROverflow => False
  | RMsg b _ _ => blen b = total
  | _ => True
  end.
Proof.
  induction fuel as [|f IH]; intros S total cap buf q HS Hb Ht Hc Hq; [exact I|].
  cbn [recv_loop]. destruct (blen buf <? total) eqn:E; [|lia].
  destruct (recv_follow_end_eq (blen buf) S total ltac:(lia) ltac:(lia)) as [Re Rs]. rewrite Re, Rs. cbn [negb].
  assert (Hfs : fs S = S - 32) by (unfold fs; rewrite RESERVED_SIZE_val; lia).
  destruct (cap <? Z.min (blen buf + fs S) total) eqn:C1; [lia|].
  destruct (Z.min (blen buf + fs S) total <? blen buf) eqn:C2; [lia|].
  destruct q as [|[lo hi] q']; [exact I|].
  destruct (Z.min (blen buf + fs S) total - blen buf <? hi - lo) eqn:C3; [exact I|].
  inversion Hq as [|? ? Hr Hq']; subst. cbn [fst snd] in Hr.
  apply IH; auto. rewrite blen_app, blen_single. lia.
Qed.

Theorem recv_safe fuel S p q :
  40 <= S < 2 ^ 62 -> fp_lo p <= fp_hi p -> 0 <= fp_total p < 2 ^ 62 ->
  Forall (fun r => fst r <= snd r) q ->
  match recv fuel S p q with
  | RCapacity => False
  | ROverflow => fp_total p < Z.min (fp_hi p - fp_lo p) (ffs S)   (* a header announcing less than the packet carries: not produced by this library *)
  | RMsg b n _ => blen b = fp_total p /\ 0 <= n \/ fp_rights p < 0
  | _ => True
  end.
Proof.
  intros HS Hp Ht Hq. unfold recv. pose proof MAX_FDS_val as MV.
  destruct (first_fragment_size_eq S ltac:(rewrite RESERVED_SIZE_val; lia)) as [E1 E2]. rewrite E1, E2. cbn [negb].
  pose proof (ffs_bounds S ltac:(rewrite RESERVED_SIZE_val; lia)) as Hb.
  destruct (ffs S <? fp_hi p - fp_lo p) eqn:C1; [exact I|].
  destruct (fp_total p =? fp_hi p - fp_lo p) eqn:C2.
  { destruct (Z_lt_dec (fp_rights p) 0); [right; lia|left]. rewrite blen_single. lia. }
  destruct (Z.min (fp_rights p) MAX_FDS_IN_CMSG <=? 0) eqn:C3; [exact I|].
  destruct (fp_total p <? fp_hi p - fp_lo p) eqn:C4; [lia|].
  pose proof (recv_loop_safe fuel S (fp_total p) (Z.max (ffs S) (fp_total p)) [(fp_lo p, fp_hi p)] q
                ltac:(lia) ltac:(rewrite blen_single; lia) ltac:(lia) ltac:(lia) Hq) as L.
  destruct (recv_loop fuel S (fp_total p) (Z.max (ffs S) (fp_total p)) [(fp_lo p, fp_hi p)] q);
    try exact I; try contradiction.
  left. split; [exact L|lia].
Qed.

(* control-message arithmetic *)
Theorem cmsg_send_fits n : 0 <= n <= 2 ^ 20 ->
  CMSG_LEN (SIZEOF_c_int * n) <= CMSG_SPACE (SIZEOF_c_int * n) /\
  CMSG_LEN (SIZEOF_c_int * n) = 16 + 4 * n /\
  CMSG_LEN_safe (SIZEOF_c_int * n) = true /\ CMSG_SPACE_safe (SIZEOF_c_int * n) = true.
Proof.
  intros H. change SIZEOF_c_int with 4.
  destruct (CMSG_LEN_eq (4 * n) ltac:(lia)) as [L1 L2].
  destruct (CMSG_SPACE_eq (4 * n) ltac:(lia)) as [S1 S2]. rewrite L1, S1. repeat split; auto. lia.
Qed.

Theorem cmsg_recv_count cmsg_len :
  16 <= cmsg_len <= recv_ctl_cap ->
  0 <= recv_channel_length recv_ctl_cap cmsg_len <= MAX_FDS_IN_CMSG /\
  16 + 4 * recv_channel_length recv_ctl_cap cmsg_len <= recv_ctl_cap /\
  recv_channel_length_safe recv_ctl_cap cmsg_len = true /\ recv_ctl_cap_safe = true.
Proof.
  assert (RC : recv_ctl_cap = 272) by reflexivity. rewrite RC. intros H.
  unfold recv_channel_length, recv_channel_length_safe. change (272 =? 0) with false. cbv iota.
  destruct (CMSG_ALIGN_eq 16 ltac:(lia)) as [A1 A2]. rewrite A1, A2. change (8 * ((16 + 7) / 8)) with 16.
  unfold U.div, U.sub, U.sub_ok, U.div_ok. rewrite wrap_id by (rewrite modulus_val; lia).
  rewrite MAX_FDS_val. repeat split; try lia; try reflexivity.
Qed.
