(* Characterisation of the GENERATED integer functions (gen/Params.v) in plain Z arithmetic.
   If /repo's arithmetic changes, these are the first proofs to break. *)
From Coq Require Import ZArith List Bool Lia.
From IPC Require Import U64 Params.
Open Scope Z_scope.
Ltac Zify.zify_post_hook ::= Z.div_mod_to_equations.

Lemma modulus_val : U.modulus = 18446744073709551616.
Proof. reflexivity. Qed.

Lemma wrap_id x : 0 <= x < U.modulus -> U.wrap x = x.
Proof. intros H. unfold U.wrap. apply Z.mod_small. exact H. Qed.

Lemma testbit_above x n : 0 <= x < 2 ^ n -> 0 <= n -> Z.testbit x n = false.
Proof.
  intros [H0 H1] Hn. destruct (Z.eq_dec x 0) as [->|Hx]; [apply Z.bits_0|].
  apply Z.bits_above_log2; [lia|]. apply Z.log2_lt_pow2; lia.
Qed.

(* x & (2^64 - 2^k) rounds down to a multiple of 2^k *)
Lemma land_round_down x k : 0 <= x < 2 ^ 64 -> 0 <= k <= 64 ->
  Z.land x (2 ^ 64 - 2 ^ k) = 2 ^ k * (x / 2 ^ k).
Proof.
  intros Hx Hk.
  assert (E : 2 ^ 64 - 2 ^ k = Z.shiftl (Z.ones (64 - k)) k).
  { rewrite Z.shiftl_mul_pow2, Z.ones_equiv by lia.
    replace (2 ^ 64) with (2 ^ (64 - k) * 2 ^ k) by (rewrite <- Z.pow_add_r by lia; f_equal; lia). lia. }
  rewrite E.
  replace (2 ^ k * (x / 2 ^ k)) with (Z.shiftl (Z.shiftr x k) k)
    by (rewrite Z.shiftl_mul_pow2, Z.shiftr_div_pow2 by lia; lia).
  apply Z.bits_inj'. intros n Hn. rewrite Z.land_spec.
  destruct (Z.ltb_spec n k) as [L|L].
  - rewrite !Z.shiftl_spec_low by lia. apply andb_false_r.
  - rewrite !Z.shiftl_spec_high by lia. rewrite Z.shiftr_spec by lia.
    replace (n - k + k) with n by lia.
    destruct (Z.ltb_spec (n - k) (64 - k)) as [L2|L2].
    + rewrite Z.ones_spec_low by lia. apply andb_true_r.
    + rewrite Z.ones_spec_high by lia. rewrite andb_false_r. symmetry.
      apply testbit_above; [|lia]. split; [lia|].
      apply Z.lt_le_trans with (2 ^ 64); [lia|]. apply Z.pow_le_mono_r; lia.
Qed.

Lemma land_round_down8 x : 0 <= x < 2 ^ 64 -> Z.land x 18446744073709551608 = 8 * (x / 8).
Proof. intros H. exact (land_round_down x 3 H ltac:(lia)). Qed.

(* ---- fragment_size / first_fragment_size ---- *)
Definition fs (S : Z) : Z := S - RESERVED_SIZE.
Definition ffs (S : Z) : Z := 8 * ((S - RESERVED_SIZE - 8) / 8).

Lemma RESERVED_SIZE_val : RESERVED_SIZE = 32. Proof. reflexivity. Qed.
Lemma MAX_FDS_val : MAX_FDS_IN_CMSG = 64. Proof. reflexivity. Qed.

Lemma fragment_size_eq S : RESERVED_SIZE <= S < 2 ^ 64 ->
  fragment_size S = fs S /\ fragment_size_safe S = true.
Proof.
  intros H. unfold fragment_size, fragment_size_safe, fs, U.sub, U.sub_ok.
  rewrite wrap_id by (rewrite modulus_val, RESERVED_SIZE_val in *; lia). split; [reflexivity|lia].
Qed.

Lemma first_fragment_size_eq S : RESERVED_SIZE + 8 <= S < 2 ^ 64 ->
  first_fragment_size S = ffs S /\ first_fragment_size_safe S = true.
Proof.
  intros H. pose proof RESERVED_SIZE_val as R.
  destruct (fragment_size_eq S ltac:(lia)) as [E1 E2].
  unfold first_fragment_size, first_fragment_size_safe. rewrite E1. unfold fs, ffs. split.
  - (* the mask is a closed term, however the source spells it (`!8 + 1`, `!7`, a constant): evaluate it *)
    match goal with |- context [U.land _ ?m] => let v := eval vm_compute in m in change m with v end.
    unfold U.land, U.sub. rewrite wrap_id by (rewrite modulus_val; lia).
    rewrite land_round_down8 by lia. reflexivity.
  - (* every side condition the translator recorded: the callee's, the subtraction's, whatever the mask needed *)
    repeat (apply andb_true_intro; split);
      first [exact E2 | reflexivity | (unfold U.sub_ok, U.add_ok, fs in *; rewrite ?E1; unfold fs; lia)].
Qed.

Lemma ffs_bounds S : RESERVED_SIZE + 8 <= S -> 0 <= ffs S <= S - 40 /\ S - 48 < ffs S.
Proof. unfold ffs. rewrite RESERVED_SIZE_val. intros. lia. Qed.

(* ---- the named expressions of send() and recv() ---- *)
Lemma send_first_end_eq sb : 40 <= sb < 2 ^ 64 ->
  send_first_end sb = ffs sb /\ send_first_end_safe sb = true.
Proof. intros H. unfold send_first_end, send_first_end_safe. apply first_fragment_size_eq. rewrite RESERVED_SIZE_val. lia. Qed.

Lemma send_follow_end_eq pos sb len : 32 <= sb < 2 ^ 62 -> 0 <= pos < 2 ^ 62 ->
  send_follow_end pos sb len = Z.min (pos + fs sb) len /\ send_follow_end_safe pos sb len = true.
Proof.
  intros H Hp. unfold send_follow_end, send_follow_end_safe.
  destruct (fragment_size_eq sb ltac:(rewrite RESERVED_SIZE_val; lia)) as [E1 E2]. rewrite E1, E2.
  unfold U.add, U.add_ok, fs. rewrite RESERVED_SIZE_val.
  rewrite wrap_id by (rewrite modulus_val; lia). split; [reflexivity|]. rewrite modulus_val. lia.
Qed.

Lemma recv_follow_end_eq pos S total : 32 <= S < 2 ^ 62 -> 0 <= pos < 2 ^ 62 ->
  recv_follow_end pos S total = Z.min (pos + fs S) total /\ recv_follow_end_safe pos S total = true.
Proof.
  intros H Hp. unfold recv_follow_end, recv_follow_end_safe.
  destruct (fragment_size_eq S ltac:(rewrite RESERVED_SIZE_val; lia)) as [E1 E2]. rewrite E1, E2.
  unfold U.add, U.add_ok, fs. rewrite RESERVED_SIZE_val.
  rewrite wrap_id by (rewrite modulus_val; lia). split; [reflexivity|]. rewrite modulus_val. lia.
Qed.

Lemma send_single_packet_eq len S : 40 <= S < 2 ^ 64 -> send_single_packet len S = (len <=? ffs S).
Proof. intros H. unfold send_single_packet. destruct (first_fragment_size_eq S ltac:(rewrite RESERVED_SIZE_val; lia)) as [-> _]. reflexivity. Qed.

(* ---- downsize ---- *)
Lemma downsize_spec sb sent sb' : downsize sb sent = Some sb' -> 1000 <= sb -> 0 <= sent <= fs sb ->
  2000 < sent /\ 1000 <= sb' /\ sb' < sb /\ sb' < sent + RESERVED_SIZE /\ downsize_safe sb sent = true.
Proof.
  unfold downsize, downsize_safe, fs, U.div, U.div_ok. rewrite RESERVED_SIZE_val. intros H Hsb Hs.
  destruct (sent >? 2000) eqn:E; [|discriminate]. injection H as <-.
  destruct (sb / 2 >=? sent) eqn:E2; cbn; repeat split; lia.
Qed.

Lemma downsize_none sb sent : downsize sb sent = None -> sent <= 2000.
Proof. unfold downsize. destruct (sent >? 2000) eqn:E; [discriminate|lia]. Qed.

Lemma downsize_safe_true sb sent : downsize_safe sb sent = true.
Proof.
  unfold downsize_safe, U.div_ok. destruct (sent >? 2000); [|reflexivity].
  cbn. destruct (_ >=? _); reflexivity.
Qed.

(* ---- control-message sizes ---- *)
Lemma CMSG_ALIGN_eq n : 0 <= n < 2 ^ 62 -> CMSG_ALIGN n = 8 * ((n + 7) / 8) /\ CMSG_ALIGN_safe n = true.
Proof.
  intros H. unfold CMSG_ALIGN, CMSG_ALIGN_safe.
  match goal with |- context [U.land _ ?m] => let v := eval vm_compute in m in change m with v end.
  unfold U.land, U.sub, U.add, U.add_ok, U.sub_ok.
  rewrite (wrap_id (n + 8)) by (rewrite modulus_val; lia).
  rewrite wrap_id by (rewrite modulus_val; lia).
  rewrite land_round_down8 by lia. replace (n + 8 - 1) with (n + 7) by lia.
  split; [reflexivity|]. rewrite modulus_val. lia.
Qed.

Lemma SIZEOF_cmsghdr_val : SIZEOF_cmsghdr = 16. Proof. reflexivity. Qed.

Lemma CMSG_LEN_eq n : 0 <= n < 2 ^ 61 -> CMSG_LEN n = 16 + n /\ CMSG_LEN_safe n = true.
Proof.
  intros H. unfold CMSG_LEN, CMSG_LEN_safe.
  destruct (CMSG_ALIGN_eq 16 ltac:(lia)) as [E1 E2]. rewrite E1, E2.
  unfold U.add, U.add_ok. change (8 * ((16 + 7) / 8)) with 16.
  rewrite wrap_id by (rewrite modulus_val; lia). split; [reflexivity|]. rewrite modulus_val. lia.
Qed.

Lemma CMSG_SPACE_eq n : 0 <= n < 2 ^ 61 -> CMSG_SPACE n = 8 * ((n + 7) / 8) + 16 /\ CMSG_SPACE_safe n = true.
Proof.
  intros H. unfold CMSG_SPACE, CMSG_SPACE_safe.
  destruct (CMSG_ALIGN_eq 16 ltac:(lia)) as [E1 E2]. rewrite E1, E2.
  destruct (CMSG_ALIGN_eq n ltac:(lia)) as [E3 E4]. rewrite E3, E4.
  unfold U.add, U.add_ok. change (8 * ((16 + 7) / 8)) with 16.
  rewrite wrap_id by (rewrite modulus_val; lia). split; [reflexivity|]. rewrite modulus_val. lia.
Qed.

(* ---- the attachment-capacity guards of send() (GENERATED) are the guards of the model Frag.send / Frag.go_frag ---- *)
Lemma send_too_many_eq nfds : send_too_many nfds = (MAX_FDS_IN_CMSG <? nfds).
Proof. unfold send_too_many. apply Z.gtb_ltb. Qed.

Lemma send_too_many_frag_eq nfds : 0 <= nfds < 2 ^ 62 -> send_too_many_frag nfds = (MAX_FDS_IN_CMSG <? nfds + 1).
Proof.
  intros H. unfold send_too_many_frag, U.add. rewrite wrap_id by (rewrite modulus_val; lia). apply Z.gtb_ltb.
Qed.
