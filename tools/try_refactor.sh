#!/bin/bash
# try_refactor.sh <id> : apply a behaviour-preserving refactoring (/tmp/wt/<id>.rdiff) to /repo, run every quick check, undo;
# one line per property in /tmp/vlog/refactor_<id>.txt (an alarm here is a false alarm)
ID=$1; : > /tmp/vlog/refactor_$ID.txt
for i in 01 02 03 04 05 06 07 08 09 10 11 12 13 14 15 16 17 18 19 20; do
  ( flock 9; r=$(/verif/tools/try_mutation.sh /tmp/wt/$ID.rdiff C$i | tail -1); echo "$r" >> /tmp/vlog/refactor_$ID.txt ) 9>/tmp/wt/.lock
done
